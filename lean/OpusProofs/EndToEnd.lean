import OpusProofs.EncSkelWf
import OpusProofs.RepackProps
import OpusProofs.ExtZero
import OpusProps.C01
import OpusProps.C06
import OpusProps.C02
/-
  OpusProofs.EndToEnd — composition across the encoder skeleton (C02/C05), the packet parser (C06),
  the repacketiser's pad/unpad (C07) and the decoder skeleton (C01): a packet the encoder skeleton
  emits for `frame_size` samples at `Fs_enc` is decoded, at ANY decoder rate, to exactly
  `frame_size · Fs_dec / Fs_enc` samples; the same after `opus_packet_pad` / `opus_packet_unpad`.

  Everything here is new glue; the ingredients are read-only:
    EncSkel.Proofs.encodeNative_pkt / outRange (what the encoder emits), FramingProofs.parse_complete,
    C06.helpers_agree / parse_in_bounds, C01.decodeNative_duration, RepackProofs.pad_serialize /
    unpad_serialize / outPacket_valid.
  Two lemmas are local strengthenings of C02's `outCode3_serialize` / `outRange_serialize` (same proofs,
  one more conjunct: the padding of the emitted packet is all zero), because the packet those lemmas
  construct is hidden behind `∃`.
-/
namespace Opus.EndToEnd.Enc
open Opus Opus.EncSkel Opus.EncSkel.Proofs Opus.FramingSpec

/-! ### Local strengthening of C02's serialisation lemmas (zero padding exposed) -/

theorem outCode3_serialize_z (cfg : Nat) (lens : List Nat) (maxlen : Nat) (pad : Bool) (r : OutRes) (frames : List Bytes)
    (hfl : frames.map List.length = lens) (h4 : cfg % 4 = 0) (hcfg : cfg < 256) (hne : lens ≠ [])
    (hall : ∀ l ∈ lens, l ≤ 1275) (hdur : frameDur48 (cfg + 3) * lens.length ≤ 5760)
    (h : outCode3 cfg lens maxlen pad = .ok r) :
    ∃ p : Packet, Valid p ∧ p.frames = frames ∧ p.toc = cfg + 3 ∧ serialize false p = pktBytes r.hdr frames r.size ∧
      ∃ k, padBytes p = List.replicate k 0 := by
  have hlen : frames.length = lens.length := by rw [← hfl]; simp
  have hlpos : 1 ≤ lens.length := by cases lens with | nil => exact absurd rfl hne | cons _ _ => simp
  have hflat : frames.flatten.length = sumN lens := by rw [flatten_length, hfl]
  have hc3 : (cfg + 3) % 4 = 3 := by omega
  unfold outCode3 at h
  dsimp only at h
  generalize hvbr : (!allEq (lens.headD 0) lens) = vbr at h
  have htot : (if vbr = true then 2 + vbrBody lens else lens.length * lens.headD 0 + 2) =
      2 + (if vbr = true then (vbrLens lens).length else 0) + sumN lens := by
    cases vbr
    · simp only [Bool.false_eq_true, if_false]
      have : allEq (lens.headD 0) lens = true := by simpa using hvbr
      rw [allEq_sum _ _ this]; omega
    · simp only [if_true]; rw [vbrBody_eq]; omega
  rw [htot] at h
  generalize htv : 2 + (if vbr = true then (vbrLens lens).length else 0) + sumN lens = tot at h
  split at h
  · cases h
  · rename_i hfit
    generalize hpa : (if pad = true then maxlen - tot else 0) = pa at h
    have hfmax : ∀ f ∈ frames, f.length ≤ 1275 := by
      intro f hf
      apply hall
      rw [← hfl]; exact List.mem_map.mpr ⟨f, hf, rfl⟩
    have hcbrEq : vbr = false → FramingSpec.allEq (frames.map List.length) := by
      intro hv
      have : allEq (lens.headD 0) lens = true := by rw [hv] at hvbr; simpa using hvbr
      have hs := allEq_spec _ _ this
      rw [hfl]
      intro a ha b hb
      rw [hs a ha, hs b hb]
    have hcfg252 : cfg + 3 < 256 := by omega
    by_cases hpa0 : pa = 0
    · rw [if_neg (by simp [hpa0])] at h
      cases h
      refine ⟨{ toc := cfg + 3, frames := frames, vbr := vbr, pad := none }, ?_, rfl, rfl, ?_, ⟨0, rfl⟩⟩
      · refine ⟨hcfg252, hfmax, ?_, ?_, ?_, ?_, ?_⟩
        · intro hc; simp only [Packet.code] at hc; omega
        · intro hc; simp only [Packet.code] at hc; omega
        · intro hc; simp only [Packet.code] at hc; omega
        · intro _; exact ⟨by rw [hlen]; exact hlpos, by rw [hlen]; exact hdur, fun hv => hcbrEq hv⟩
        · intro pd hpd; cases hpd
      · unfold serialize header lenFields countByte padBytes pktBytes Packet.code Packet.lens
        simp only [hc3, hfl, hlen]
        cases vbr <;> simp [vbrLens_eq, hflat] at htv ⊢ <;> omega
    · rw [if_pos (by simpa using hpa0)] at h
      split at h
      · cases h
      · cases h
        refine ⟨{ toc := cfg + 3, frames := frames, vbr := vbr,
                  pad := some { n255 := (pa - 1) / 255, last := pa - 255 * ((pa - 1) / 255) - 1,
                                bytes := List.replicate (pa - (pa - 1) / 255 - 1) 0 } }, ?_, rfl, rfl, ?_, ⟨pa - (pa - 1) / 255 - 1, rfl⟩⟩
        · refine ⟨hcfg252, hfmax, ?_, ?_, ?_, ?_, ?_⟩
          · intro hc; simp only [Packet.code] at hc; omega
          · intro hc; simp only [Packet.code] at hc; omega
          · intro hc; simp only [Packet.code] at hc; omega
          · intro _; exact ⟨by rw [hlen]; exact hlpos, by rw [hlen]; exact hdur, fun hv => hcbrEq hv⟩
          · intro pd hpd
            cases hpd
            simp only [Pad.total, List.length_replicate]
            omega
        · unfold serialize header lenFields countByte padBytes pktBytes Packet.code Packet.lens Pad.hdr padLenBytes
          simp only [hc3, hfl, hlen]
          cases vbr <;> simp [vbrLens_eq, hflat] at htv ⊢ <;> omega


theorem outRange_serialize_z (cfg : Nat) (lens : List Nat) (maxlen : Nat) (pad : Bool) (r : OutRes) (frames : List Bytes)
    (hfl : frames.map List.length = lens) (h4 : cfg % 4 = 0) (hcfg : cfg < 256)
    (hall : ∀ l ∈ lens, l ≤ 1275) (hdur : frameDur48 cfg * lens.length ≤ 5760)
    (h : outRange cfg lens maxlen pad = .ok r) :
    ∃ p : Packet, Valid p ∧ p.frames = frames ∧ p.toc / 4 * 4 = cfg ∧ serialize false p = pktBytes r.hdr frames r.size ∧
      ∃ k, padBytes p = List.replicate k 0 := by
  have hfmax : ∀ f ∈ frames, f.length ≤ 1275 := by
    intro f hf
    apply hall
    rw [← hfl]; exact List.mem_map.mpr ⟨f, hf, rfl⟩
  have hd3 : frameDur48 (cfg + 3) * lens.length ≤ 5760 := by rw [frameDur48_cfg cfg 3 (by omega) h4]; exact hdur
  have c3 : ∀ (hne : lens ≠ []) r', outCode3 cfg lens maxlen pad = .ok r' →
      ∃ p : Packet, Valid p ∧ p.frames = frames ∧ p.toc / 4 * 4 = cfg ∧ serialize false p = pktBytes r'.hdr frames r'.size ∧
        ∃ k, padBytes p = List.replicate k 0 := by
    intro hne r' h'
    obtain ⟨p, hv, hf, ht, hs, hz⟩ := outCode3_serialize_z cfg lens maxlen pad r' frames hfl h4 hcfg hne hall hd3 h'
    exact ⟨p, hv, hf, by rw [ht]; omega, hs, hz⟩
  match lens, frames, hfl with
  | [], _, _ => simp [outRange] at h
  | [l0], [f0], hfl =>
    simp only [List.map_cons, List.map_nil, List.cons.injEq, and_true] at hfl
    rw [outRange] at h
    split at h
    · cases h
    · split at h
      · exact c3 (by simp) r h
      · cases h
        refine ⟨{ toc := cfg, frames := [f0], vbr := false, pad := none }, ?_, rfl, (by show cfg / 4 * 4 = cfg; omega), ?_, ⟨0, rfl⟩⟩
        · refine ⟨hcfg, hfmax, ?_, ?_, ?_, ?_, ?_⟩
          · intro _; exact ⟨rfl, rfl, rfl⟩
          · intro hc; simp only [Packet.code] at hc; omega
          · intro hc; simp only [Packet.code] at hc; omega
          · intro hc; simp only [Packet.code] at hc; omega
          · intro pd hpd; cases hpd
        · unfold serialize header lenFields padBytes pktBytes Packet.code Packet.lens
          simp [h4, hfl]
  | [l0, l1], [f0, f1], hfl =>
    simp only [List.map_cons, List.map_nil, List.cons.injEq, and_true] at hfl
    obtain ⟨hf0, hf1⟩ := hfl
    rw [outRange] at h
    split at h
    · rename_i heq
      split at h
      · cases h
      · split at h
        · exact c3 (by simp) r h
        · cases h
          refine ⟨{ toc := cfg + 1, frames := [f0, f1], vbr := false, pad := none }, ?_, rfl, (by show (cfg + 1) / 4 * 4 = cfg; omega), ?_, ⟨0, rfl⟩⟩
          · refine ⟨(by show cfg + 1 < 256; omega), hfmax, ?_, ?_, ?_, ?_, ?_⟩
            · intro hc; simp only [Packet.code] at hc; omega
            · intro _
              refine ⟨rfl, rfl, rfl, ?_⟩
              intro a ha b hb
              simp only [Packet.lens, List.map_cons, List.map_nil, List.mem_cons, List.mem_nil_iff, or_false] at ha hb
              omega
            · intro hc; simp only [Packet.code] at hc; omega
            · intro hc; simp only [Packet.code] at hc; omega
            · intro pd hpd; cases hpd
          · unfold serialize header lenFields padBytes pktBytes Packet.code Packet.lens
            have : (cfg + 1) % 4 = 1 := by omega
            simp [this, hf0, hf1]
            omega
    · dsimp only at h
      generalize htt : l0 + l1 + 2 + (if l0 ≥ 252 then 1 else 0) = tt at h
      split at h
      · cases h
      · split at h
        · exact c3 (by simp) r h
        · cases h
          refine ⟨{ toc := cfg + 2, frames := [f0, f1], vbr := false, pad := none }, ?_, rfl, (by show (cfg + 2) / 4 * 4 = cfg; omega), ?_, ⟨0, rfl⟩⟩
          · refine ⟨(by show cfg + 2 < 256; omega), hfmax, ?_, ?_, ?_, ?_, ?_⟩
            · intro hc; simp only [Packet.code] at hc; omega
            · intro hc; simp only [Packet.code] at hc; omega
            · intro _; exact ⟨rfl, rfl, rfl⟩
            · intro hc; simp only [Packet.code] at hc; omega
            · intro pd hpd; cases hpd
          · unfold serialize header lenFields padBytes pktBytes Packet.code Packet.lens
            have : (cfg + 2) % 4 = 2 := by omega
            have he : Framing.encodeSize l0 = encLen l0 := rfl
            simp [this, hf0, hf1, he]
            unfold encLen; split at htt <;> split <;> simp <;> omega
  | a :: b :: c :: rest, frames, hfl =>
    rw [outRange] at h
    · exact c3 (by simp) r h
    all_goals simp
  | [_], [], hfl => simp at hfl
  | [_], _ :: _ :: _, hfl => simp at hfl
  | [_, _], [], hfl => simp at hfl
  | [_, _], [_], hfl => simp at hfl
  | [_, _], _ :: _ :: _ :: _, hfl => simp at hfl


/-- **What the encoder skeleton emits is the serialisation of a valid packet** holding exactly the
    frames handed in, with all-zero padding, announcing `frame_size`, and `ret` bytes long. -/
theorem encoder_packet (s : St) (fuzz : Bool) (fsz out : Int) (o : NatOr)
    (he : entryCheck s fsz out = none) (hok : (encodeNative s fuzz fsz out o).ok = true)
    (frames : List Bytes) (hfl : frames.map List.length = (encodeNative s fuzz fsz out o).pkt.lens) :
    ∃ P : Packet, Valid P ∧ P.frames = frames ∧
      serialize false P = pktBytes (encodeNative s fuzz fsz out o).pkt.hdr frames (encodeNative s fuzz fsz out o).pkt.size ∧
      (∃ k, padBytes P = List.replicate k 0) ∧
      (P.frames.length : Int) * (Framing.samplesPerFrame P.toc s.fs.toNat : Int) = fsz ∧
      ((serialize false P).length : Int) = (encodeNative s fuzz fsz out o).ret ∧
      1 ≤ (encodeNative s fuzz fsz out o).ret ∧ (encodeNative s fuzz fsz out o).ret ≤ out := by
  obtain ⟨⟨hlo, hhi⟩, v, _, _, _, hpo, hlen⟩ := OpusProps.C02.encode_wellformed s fuzz fsz out o he hok frames hfl
  have hp := encodeNative_pkt s fuzz fsz out o he hok
  generalize encodeNative s fuzz fsz out o = r at *
  obtain ⟨⟨maxlen, pad, hout⟩, _, h4, h256, hlens, hd48, hdur⟩ := hp
  obtain ⟨P, hv, hf, ht, hs, hz⟩ := outRange_serialize_z r.pkt.tocCfg r.pkt.lens maxlen pad _ frames hfl h4 h256 hlens hd48 hout
  dsimp only at hs
  refine ⟨P, hv, hf, hs, hz, ?_, ?_, hlo, hhi⟩
  · have hspf : Framing.samplesPerFrame P.toc s.fs.toNat = Framing.samplesPerFrame r.pkt.tocCfg s.fs.toNat := by
      unfold Framing.samplesPerFrame
      have e1 : P.toc / 128 = r.pkt.tocCfg / 128 := by omega
      have e2 : P.toc / 32 = r.pkt.tocCfg / 32 := by omega
      have e3 : P.toc / 8 = r.pkt.tocCfg / 8 := by omega
      rw [e1, e2, e3]
    have hl : P.frames.length = r.pkt.lens.length := by rw [hf, ← hfl]; simp
    rw [hspf, hl]; exact hdur
  · rw [hs, hlen]; exact hpo

end Opus.EndToEnd.Enc

namespace Opus.EndToEnd
open Opus Opus.FramingSpec Opus.Framing Opus.DecSkel Opus.RepackProofs

/-! ### Byte bounds of a serialised packet -/

theorem encLen_bytesOk (n : Nat) (h : n ≤ 1275) : BytesOk (encLen n) := by
  unfold encLen BytesOk
  split
  · intro b hb; simp only [List.mem_cons, List.mem_nil_iff, or_false] at hb; omega
  · intro b hb; simp only [List.mem_cons, List.mem_nil_iff, or_false] at hb; omega

theorem bytesOk_append {a b : Bytes} (ha : BytesOk a) (hb : BytesOk b) : BytesOk (a ++ b) := by
  intro x hx; rcases List.mem_append.mp hx with h | h
  · exact ha x h
  · exact hb x h

theorem bytesOk_flatten {fs : List Bytes} (h : ∀ f ∈ fs, BytesOk f) : BytesOk fs.flatten := by
  intro x hx
  obtain ⟨f, hf, hxf⟩ := List.mem_flatten.mp hx
  exact h f hf x hxf

theorem bytesOk_replicate (k b : Nat) (hb : b < 256) : BytesOk (List.replicate k b) := by
  intro x hx; rw [(List.mem_replicate.mp hx).2]; exact hb

/-- A valid packet of at most 48 frames whose frame and padding bytes are bytes serialises to bytes. -/
theorem serialize_bytesOk (p : Packet) (hv : Valid p) (hn : p.frames.length ≤ 48)
    (hf : ∀ f ∈ p.frames, BytesOk f) (hp : BytesOk (padBytes p)) : BytesOk (serialize false p) := by
  unfold serialize
  refine bytesOk_append (bytesOk_append ?_ (bytesOk_flatten hf)) hp
  unfold header
  refine bytesOk_append (bytesOk_append ?_ ?_) ?_
  · intro x hx; simp only [List.mem_cons, List.mem_nil_iff, or_false] at hx; rw [hx]; exact hv.toc_byte
  · split
    · refine bytesOk_append ?_ ?_
      · intro x hx
        simp only [List.mem_cons, List.mem_nil_iff, or_false] at hx
        rw [hx]; unfold countByte
        split <;> split <;> omega
      · cases hpd : p.pad with
        | none => intro x hx; cases hx
        | some pd =>
          simp only []
          unfold Pad.hdr
          have := (hv.pad_ok pd hpd).1
          refine bytesOk_append (bytesOk_replicate _ _ (by omega)) ?_
          intro x hx; simp only [List.mem_cons, List.mem_nil_iff, or_false] at hx; omega
    · intro x hx; cases hx
  · intro x hx
    obtain ⟨n, hn', hxn⟩ := List.mem_flatMap.mp hx
    have hnl : n ∈ p.lens := by
      unfold lenFields at hn'
      simp only [Bool.false_eq_true, if_false, List.append_nil] at hn'
      split at hn'
      · exact List.dropLast_subset _ hn'
      · cases hn'
    simp only [Packet.lens, List.mem_map] at hnl
    obtain ⟨f, hfm, rfl⟩ := hnl
    exact encLen_bytesOk _ (hv.frame_max f hfm) x hxn

/-! ### Sampling-rate conversion of the TOC duration -/

def fiveRates : List Nat := [8000, 12000, 16000, 24000, 48000]

theorem spf_rates : ∀ toc ∈ List.range 256, ∀ fe ∈ fiveRates, ∀ fd ∈ fiveRates,
    samplesPerFrame toc fd * fe = samplesPerFrame toc fe * fd := by decide +kernel

theorem spf_toc4 (a b fs : Nat) (h : a / 4 = b / 4) : samplesPerFrame a fs = samplesPerFrame b fs := by
  unfold samplesPerFrame
  have e1 : a / 128 = b / 128 := by omega
  have e2 : a / 32 = b / 32 := by omega
  have e3 : a / 8 = b / 8 := by omega
  rw [e1, e2, e3]

theorem fsOk_mem {fs : Int} (h : FsOk fs) : fs.toNat ∈ fiveRates ∧ (fs.toNat : Int) = fs ∧ 0 < fs := by
  unfold FsOk at h
  simp only [fiveRates, List.mem_cons, List.mem_nil_iff, or_false]
  omega

/-- `count · spf(toc, Fs_enc) = fsz` ⇒ `count · spf(toc, Fs_dec) = fsz · Fs_dec / Fs_enc` (exactly). -/
theorem duration_rate (toc : Nat) (ht : toc < 256) (count : Nat) (fsz fe fd : Int) (hfe : FsOk fe) (hfd : FsOk fd)
    (h : (count : Int) * (samplesPerFrame toc fe.toNat : Int) = fsz) :
    (count : Int) * (samplesPerFrame toc fd.toNat : Int) = fsz * fd / fe := by
  obtain ⟨me, ee, pe⟩ := fsOk_mem hfe
  obtain ⟨md, ed, _⟩ := fsOk_mem hfd
  have hs := spf_rates toc (List.mem_range.mpr ht) fe.toNat me fd.toNat md
  have hs' : (samplesPerFrame toc fd.toNat : Int) * fe = (samplesPerFrame toc fe.toNat : Int) * fd := by
    have := congrArg (fun n : Nat => (n : Int)) hs
    simp only [Nat.cast_mul] at this
    rw [ee, ed] at this; exact this
  have key : fsz * fd = ((count : Int) * (samplesPerFrame toc fd.toNat : Int)) * fe := by
    rw [← h, Int.mul_assoc, ← hs', Int.mul_assoc]
  rw [key, Int.mul_ediv_cancel _ (by omega)]

/-! ### The decoder skeleton on a serialised valid packet -/

/-- `opus_decode_native` on the RFC serialisation of a valid packet (frames and padding are bytes): if
    the caller's buffer holds `count · samples_per_frame(Fs_dec)` samples per channel the call returns
    exactly that and `last_packet_duration` equals it — for every decoder state within `DecInv` and
    every DSP oracle within `OracleOk`. -/
theorem decode_serialized (o : Oracle) (ho : OracleOk o) (r : Run) (hinv : DecInv r.st) (hlog : r.log = [])
    (q : Packet) (hv : Valid q) (hf : ∀ f ∈ q.frames, BytesOk f) (hp : BytesOk (padBytes q))
    (pcm : Ptr) (frame_size : Int) (sc : Bool)
    (hfit : (q.frames.length : Int) * (samplesPerFrame q.toc r.st.Fs.toNat : Int) ≤ frame_size)
    (hbuf : pcm.buf = .pcm) (hroom : 0 ≤ pcm.off ∧ pcm.off + frame_size * r.st.channels ≤ pcm.cap) :
    (decodeNative o (some (serialize false q)) (serialize false q).length pcm frame_size 0 false sc r).ret =
        .ret ((q.frames.length : Int) * (samplesPerFrame q.toc r.st.Fs.toNat : Int)) ∧
    (decodeNative o (some (serialize false q)) (serialize false q).length pcm frame_size 0 false sc r).run.st.last_packet_duration =
        (q.frames.length : Int) * (samplesPerFrame q.toc r.st.Fs.toNat : Int) ∧
    BytesOk (serialize false q) ∧ 0 < (q.frames.length : Int) * (samplesPerFrame q.toc r.st.Fs.toNat : Int) := by
  have hparse := FramingProofs.parse_complete false q hv [] (fun _ => rfl)
  rw [List.append_nil] at hparse
  have hn : q.frames.length ≤ 48 := by
    have := valid_dur q hv
    have h20 := (frameDur48_spf8 q.toc (List.mem_range.mpr hv.toc_byte)).2.2
    have : q.frames.length * 20 ≤ 960 := Nat.le_trans (Nat.mul_le_mul_left _ h20) this
    omega
  have hb := serialize_bytesOk q hv hn hf hp
  obtain ⟨t, ht⟩ := serialize_cons false q []
  rw [List.append_nil] at ht
  have hne : serialize false q ≠ [] := by rw [ht]; simp
  have hhead : (serialize false q).headD 0 = q.toc := by rw [ht]; rfl
  have hcount : (view false q).count = q.frames.length := rfl
  have hd := OpusProps.C01.decodeNative_duration o ho r hinv hlog (serialize false q) hb hne pcm frame_size false sc
    (view false q) hparse (by rw [hhead, hcount]; exact hfit) hbuf hroom
  rw [hhead, hcount] at hd
  exact ⟨hd.1, hd.2.1, hb, hd.2.2⟩

/-! ### Padding of the packets the repacketiser writes -/

theorem padBytes_outPacket (toc : Nat) (frames : List Bytes) (maxlen : Int) (sd pad : Bool) :
    ∃ k, padBytes (outPacket toc frames maxlen sd pad) = List.replicate k 0 := by
  unfold outPacket
  split
  · exact ⟨0, rfl⟩
  · unfold highPacket padBytes
    cases pad with
    | false => exact ⟨0, rfl⟩
    | true =>
      simp only [if_true]
      unfold padOf
      split
      · rename_i pd hpd
        split at hpd
        · cases hpd
        · simp only [Option.some.injEq] at hpd; subst hpd; exact ⟨_, rfl⟩
      · exact ⟨0, rfl⟩

theorem valid_count_le (p : Packet) (hv : Valid p) : p.frames.length ≤ 48 := by
  have := valid_dur p hv
  have h20 := (frameDur48_spf8 p.toc (List.mem_range.mpr hv.toc_byte)).2.2
  have : p.frames.length * 20 ≤ 960 := Nat.le_trans (Nat.mul_le_mul_left _ h20) this
  omega

/-- Zero padding carries no extensions. -/
theorem padFree_of_zero (p : Packet) (hv : Valid p) (hz : ∃ k, padBytes p = List.replicate k 0) : PadFree p := by
  obtain ⟨k, hk⟩ := hz
  unfold PadFree
  rw [hk, List.length_replicate]
  exact Opus.ExtProofs.count_zeros k _ (valid_count_le p hv)

/-! ### Encoder → decoder -/

/-- The decoder skeleton on (the serialisation of) any valid packet `q` that carries the frames and
    the configuration bits of the encoder's packet `P`: `frame_size · Fs_dec / Fs_enc` samples. -/
theorem decode_same_frames (fe fsz : Int) (hfe : FsOk fe) (P q : Packet) (hvP : Valid P) (hvq : Valid q)
    (hfr : q.frames = P.frames) (htoc : q.toc / 4 = P.toc / 4)
    (hdur : (P.frames.length : Int) * (samplesPerFrame P.toc fe.toNat : Int) = fsz)
    (hf : ∀ f ∈ P.frames, BytesOk f) (hz : ∃ k, padBytes q = List.replicate k 0)
    (o : Oracle) (ho : OracleOk o) (r : Run) (hinv : DecInv r.st) (hlog : r.log = [])
    (pcm : Ptr) (frame_size : Int) (sc : Bool) (hfit : fsz * r.st.Fs / fe ≤ frame_size)
    (hbuf : pcm.buf = .pcm) (hroom : 0 ≤ pcm.off ∧ pcm.off + frame_size * r.st.channels ≤ pcm.cap) :
    (decodeNative o (some (serialize false q)) (serialize false q).length pcm frame_size 0 false sc r).ret =
        .ret (fsz * r.st.Fs / fe) ∧
    (decodeNative o (some (serialize false q)) (serialize false q).length pcm frame_size 0 false sc r).run.st.last_packet_duration =
        fsz * r.st.Fs / fe ∧
    BytesOk (serialize false q) ∧ 0 < fsz * r.st.Fs / fe := by
  have hd := duration_rate P.toc hvP.toc_byte P.frames.length fsz fe r.st.Fs hfe hinv.fs hdur
  have hspf : samplesPerFrame q.toc r.st.Fs.toNat = samplesPerFrame P.toc r.st.Fs.toNat := spf_toc4 _ _ _ htoc
  obtain ⟨k, hk⟩ := hz
  have := decode_serialized o ho r hinv hlog q hvq (by rw [hfr]; exact hf) (by rw [hk]; exact bytesOk_replicate k 0 (by omega))
    pcm frame_size sc (by rw [hfr, hspf, hd]; exact hfit) hbuf hroom
  rw [hfr, hspf, hd] at this
  exact this

/-! ### `opus_packet_pad` / `opus_packet_unpad` on a valid packet with zero padding -/

/-- Padding a valid packet whose padding is all zero to ANY `new_len ≥ len` succeeds and yields the
    serialisation of a valid packet of exactly `new_len` bytes with the same frames, the same
    configuration bits and all-zero padding. -/
theorem pad_valid (P : Packet) (hv : Valid P) (hz : ∃ k, padBytes P = List.replicate k 0) (newLen : Int)
    (hge : ((serialize false P).length : Int) ≤ newLen) :
    ∃ q : Packet, Valid q ∧ Repack.packetPad (serialize false P) newLen = .ok (serialize false q) ∧
      ((serialize false q).length : Int) = newLen ∧ q.frames = P.frames ∧ q.toc / 4 = P.toc / 4 ∧
      ∃ k, padBytes q = List.replicate k 0 := by
  by_cases heq : ((serialize false P).length : Int) = newLen
  · refine ⟨P, hv, ?_, heq, rfl, rfl, hz⟩
    rw [← heq]; apply pad_same
    obtain ⟨t, ht⟩ := serialize_cons false P []; simp at ht; rw [ht]; simp
  · have hok : FramesOk P.toc P.frames := ⟨hv.toc_byte, valid_ne P hv, hv.frame_max, valid_dur P hv⟩
    have hmin := minSize_minimal false P hv
    simp only [Packet.lens] at hmin
    have hps := pad_serialize P hv (padFree_of_zero P hv hz) newLen (by omega)
    have hv' := outPacket_valid P.toc P.frames hok newLen false true (by omega)
    have hl := outPacket_len P.toc P.frames hok.ne newLen false true (by omega)
    exact ⟨_, hv', hps, by simpa using hl, outPacket_frames _ _ _ _ _, outPacket_toc _ _ _ _ _, padBytes_outPacket _ _ _ _ _⟩

/-- Unpadding a valid packet succeeds and yields the serialisation of a valid packet with the same
    frames and configuration bits and no padding, never longer than the input. -/
theorem unpad_valid (P : Packet) (hv : Valid P) :
    ∃ q : Packet, Valid q ∧ Repack.packetUnpad (serialize false P) = .ok (serialize false q) ∧
      (serialize false q).length ≤ (serialize false P).length ∧ q.frames = P.frames ∧ q.toc / 4 = P.toc / 4 ∧
      ∃ k, padBytes q = List.replicate k 0 := by
  have hl := canonPacket_len P hv
  exact ⟨_, canonPacket_valid P hv, unpad_serialize P hv, hl.2.1, outPacket_frames _ _ _ _ _, outPacket_toc _ _ _ _ _,
         padBytes_outPacket _ _ _ _ _⟩

end Opus.EndToEnd
