import OpusProofs.EncDecideChain
/-
  OpusProofs.EncDecideHonour — what one `opus_encode_native` call (`EncDecide.step`) puts into the
  TOC byte, for ALL values of the DSP-dependent inputs (`Oracle`): duration, channel count,
  bandwidth limit, CELT-only cases; preservation of the range invariant `DInv`; the forced-mono
  transition.  Helper lemmas of property C11.
-/
namespace Opus.EncDecide
open Opus Opus.Framing

/-! ### The packet of the normal path -/

theorem chain_mode_range {s : DSt} {o : Oracle} (hs : DInv s) (ho : OracleOk o) (f b : Int) :
    1000 ≤ (chain s o f b).mode ∧ (chain s o f b).mode ≤ 1002 := by
  rw [chain_mode]; exact modeFix_range (trOf_range hs ho f)

/-- Frames shorter than 10 ms: CELT-only, whatever the settings and the signal. -/
theorem chain_short_celt {s : DSt} {o : Oracle} {f : Int} (b : Int) (h : f < s.fs / 100) :
    (chain s o f b).mode = 1002 := by
  rw [chain_mode, modeFix_celt]; exact trOf_short h

theorem chain_lowdelay_celt {s : DSt} {o : Oracle} {f : Int} (b : Int) (happ : s.application = 2051)
    (hp : s.prevMode = 0 ∨ s.prevMode = 1002) : (chain s o f b).mode = 1002 ∧ (chain s o f b).toCelt = false := by
  rw [chain_mode, modeFix_celt, chain_toCelt]; exact trOf_lowdelay happ hp

/-- The TOC bandwidth of a SILK-only packet is SILK's own (narrowband … wideband). -/
theorem tocBandwidth_ok {s : DSt} {o : Oracle} (hs : DInv s) (ho : OracleOk o) (f b : Int) :
    tocBandwidth o (chain s o f b) ∈ bands ∧ modeBwOk (chain s o f b).mode (tocBandwidth o (chain s o f b)) = true := by
  have hm := chain_mode_range hs ho f b
  have hb := bwOf_range hs ho f b
  have hfix := modeFix_bw (bw := bwOf s o f b) (trOf_range hs ho f)
  rw [← chain_mode, ← chain_bandwidth] at hfix
  rw [← chain_bandwidth] at hb
  unfold tocBandwidth modeBwOk
  consts
  generalize (chain s o f b).mode = m at *
  generalize (chain s o f b).bandwidth = bw at *
  have hcases : m = 1000 ∨ m = 1001 ∨ m = 1002 := by omega
  rcases hcases with rfl | rfl | rfl
  · have := hfix.1 rfl
    split
    · rename_i h; exact ⟨mem_bands (by omega) (by omega), by simp; omega⟩
    · exact ⟨mem_bands hb.1 hb.2, by simp; omega⟩
  · have := hfix.2 rfl
    simp only [show ¬ ((1001 : Int) = 1000) by decide, false_and, ite_false]
    exact ⟨mem_bands hb.1 hb.2, by simp; omega⟩
  · simp only [show ¬ ((1002 : Int) = 1000) by decide, false_and, ite_false]
    exact ⟨mem_bands hb.1 hb.2, by simp⟩

/-- Everything `stepNormal` puts into the packet, in terms of the chain's decision `d`:
    the TOC is `gen_toc(d.mode, Fs/e, tocBandwidth, d.streamChannels)` inside gen_toc's domain,
    it decodes to frame size `e`, and the `n` frames add up to the requested `f`. -/
theorem stepNormal_pkt {s : DSt} {o : Oracle} (hs : DInv s) (ho : OracleOk o) {f : Int} (b : Int)
    (hf : f ∈ apiSizes s.fs) :
    let d := chain s o f b
    let p := (stepNormal s o f b).2
    let e := (frameSplit d.mode f s.fs).1
    let n := (frameSplit d.mode f s.fs).2
    p.toc = genToc d.mode (s.fs / e) (tocBandwidth o d) d.streamChannels ∧
    GenTocDom d.mode (s.fs / e) (tocBandwidth o d) ∧
    (samplesPerFrame p.toc s.fs.toNat : Int) = e ∧ n * e = f ∧ 1 ≤ n ∧ p.frames = n.toNat ∧
    p.lowBudget = false := by
  intro d p e n
  have hm := chain_mode_range hs ho f b
  have hshort : d.mode = 1002 ∨ f ≥ s.fs / 100 := by
    by_cases h : f < s.fs / 100
    · exact Or.inl (chain_short_celt b h)
    · exact Or.inr (by omega)
  obtain ⟨he, hok, hsum, hn⟩ := frameSplit_spec hs.fs hf (mem_modes hm.1 hm.2) hshort
  obtain ⟨hbw, hbok⟩ := tocBandwidth_ok hs ho f b
  have hspf := spf_genToc (ch := d.streamChannels) hs.fs he (mem_modes hm.1 hm.2) hbw hok hbok
  have hp : p.toc = genToc d.mode (s.fs / e) (tocBandwidth o d) d.streamChannels := rfl
  refine ⟨hp, hspf.2, ?_, hsum, hn, rfl, rfl⟩
  rw [hp]; exact hspf.1

/-- Duration of a normal-path packet = the selected frame size. -/
theorem stepNormal_duration {s : DSt} {o : Oracle} (hs : DInv s) (ho : OracleOk o) {f : Int} (b : Int)
    (hf : f ∈ apiSizes s.fs) :
    ((stepNormal s o f b).2.frames : Int) * (samplesPerFrame (stepNormal s o f b).2.toc s.fs.toNat : Int) = f := by
  obtain ⟨_, _, hspf, hsum, hn, hfr, _⟩ := stepNormal_pkt hs ho b hf
  rw [hspf, hfr, Int.toNat_of_nonneg (by omega)]; exact hsum

/-- Mode bits of a normal-path packet = the chain's mode. -/
theorem stepNormal_mode {s : DSt} {o : Oracle} (hs : DInv s) (ho : OracleOk o) {f : Int} (b : Int)
    (hf : f ∈ apiSizes s.fs) :
    (getMode (stepNormal s o f b).2.toc : Int) = (chain s o f b).mode := by
  obtain ⟨hp, hdom, _⟩ := stepNormal_pkt hs ho b hf
  rw [hp]; exact genToc_mode _ _ _ _ hdom

/-- Stereo bit of a normal-path packet = the chain's channel count. -/
theorem stepNormal_channels {s : DSt} {o : Oracle} (hs : DInv s) (ho : OracleOk o) {f : Int} (b : Int)
    (hf : f ∈ apiSizes s.fs) :
    getNbChannels (stepNormal s o f b).2.toc = if (chain s o f b).streamChannels = 2 then 2 else 1 := by
  obtain ⟨hp, hdom, _⟩ := stepNormal_pkt hs ho b hf
  rw [hp]; exact genToc_channels _ _ _ _ hdom

/-- Bandwidth bits of a normal-path packet. -/
theorem stepNormal_bandwidth {s : DSt} {o : Oracle} (hs : DInv s) (ho : OracleOk o) {f : Int} (b : Int)
    (hf : f ∈ apiSizes s.fs) :
    (getBandwidth (stepNormal s o f b).2.toc : Int) =
      if (chain s o f b).mode = MODE_CELT_ONLY ∧ tocBandwidth o (chain s o f b) ≤ BW_MB then BW_NB
      else tocBandwidth o (chain s o f b) := by
  obtain ⟨hp, hdom, _⟩ := stepNormal_pkt hs ho b hf
  rw [hp]; exact genToc_bandwidth _ _ _ _ hdom

/-- Contract on SILK (DESIGN §7.C11): in SILK-only mode the internal rate SILK reports is not above
    the bandwidth Opus asked for. -/
def SilkBwContract (s : DSt) (o : Oracle) (f b : Int) : Prop :=
  (chain s o f b).mode = 1000 → o.silkBandwidth ≤ (chain s o f b).bandwidth

/-- **Bandwidth is honoured** on the normal path. -/
theorem stepNormal_bw_le {s : DSt} {o : Oracle} (hs : DInv s) (ho : OracleOk o) {f : Int} (b : Int)
    (hf : f ∈ apiSizes s.fs) (hsilk : SilkBwContract s o f b) :
    (getBandwidth (stepNormal s o f b).2.toc : Int) ≤ bwLimit s (getMode (stepNormal s o f b).2.toc) := by
  rw [stepNormal_mode hs ho b hf, stepNormal_bandwidth hs ho b hf]
  have hle := bwOf_le hs ho f b
  rw [← chain_mode, ← chain_bandwidth] at hle
  have hr := bwOf_range hs ho f b
  rw [← chain_bandwidth] at hr
  unfold SilkBwContract at hsilk
  unfold tocBandwidth
  consts
  generalize (chain s o f b).mode = m at *
  generalize (chain s o f b).bandwidth = bw at *
  generalize bwLimit s m = lim at *
  split <;> split <;> omega

/-- The same with the SILK contract in its true form: SILK's rate may lag the CURRENT frame's bandwidth
    (a down-switch needs the transition filter), but it never exceeds the limit the settings impose. -/
theorem stepNormal_bw_le' {s : DSt} {o : Oracle} (hs : DInv s) (ho : OracleOk o) {f : Int} (b : Int)
    (hf : f ∈ apiSizes s.fs) (hsilk : (chain s o f b).mode = 1000 → o.silkBandwidth ≤ bwLimit s 1000) :
    (getBandwidth (stepNormal s o f b).2.toc : Int) ≤ bwLimit s (getMode (stepNormal s o f b).2.toc) := by
  rw [stepNormal_mode hs ho b hf, stepNormal_bandwidth hs ho b hf]
  have hle := bwOf_le hs ho f b
  rw [← chain_mode, ← chain_bandwidth] at hle
  have hr := bwOf_range hs ho f b
  rw [← chain_bandwidth] at hr
  unfold tocBandwidth
  consts
  generalize (chain s o f b).mode = m at *
  generalize (chain s o f b).bandwidth = bw at *
  by_cases hm : m = 1000
  · subst hm
    have := hsilk rfl
    generalize bwLimit s 1000 = lim at *
    split <;> split <;> omega
  · generalize bwLimit s m = lim at *
    split <;> split <;> omega

/-! ### Low-budget ("PLC frame") packets -/

def lowTable2 : Bool :=
  rates.all fun fs => (apiSizes fs).all fun f => modes.all fun m => bands.all fun bw =>
    [1, 2].all fun ch => [true, false].all fun one =>
      (one && fs == f * 10) ||
      (let p := lowBudgetCore fs m bw ch f one
       ((p.frames : Int) * (samplesPerFrame (p.toc - p.toc % 4) fs.toNat : Int) == f))

theorem lowTable2_true : lowTable2 = true := by decide +kernel

theorem stepLowBudget_duration {s : DSt} (hs : DInv s) {f : Int} (b : Int) (hf : f ∈ apiSizes s.fs)
    (hentry : ¬ (b = 1 ∧ s.fs = f * 10)) :
    ((stepLowBudget s f b).2.frames : Int) * (samplesPerFrame (stepLowBudget s f b).2.toc s.fs.toNat : Int) = f := by
  have h := lowTable2_true
  simp only [lowTable2, List.all_eq_true] at h
  have hch : s.streamChannels ∈ ([1, 2] : List Int) := by
    have := hs.streamCh; have := hs.ch
    simp only [List.mem_cons, List.mem_nil_iff, or_false]; omega
  have h1 := h s.fs hs.fs f hf s.mode (mem_modes hs.mode.1 hs.mode.2) s.bandwidth (mem_bands hs.bw.1 hs.bw.2)
    s.streamChannels hch (decide (b = 1)) (by cases decide (b = 1) <;> simp)
  simp only [Bool.or_eq_true, Bool.and_eq_true, decide_eq_true_eq, beq_iff_eq] at h1
  rcases h1 with h1 | h1
  · exact absurd h1 hentry
  · exact h1

/-! ### One encode call -/

theorem apiSizes_pos {fs f : Int} (hfs : fs ∈ rates) (hf : f ∈ apiSizes fs) : 0 < f := by
  simp only [rates, List.mem_cons, List.mem_nil_iff, or_false] at hfs
  simp only [apiSizes, List.mem_cons, List.mem_nil_iff, or_false] at hf
  rcases hfs with rfl | rfl | rfl | rfl | rfl <;> omega

/-- **Duration is honoured**: whichever path the call takes, the packet's frames add up to the
    selected frame size. -/
theorem step_duration {s : DSt} {o : Oracle} (hs : DInv s) (ho : OracleOk o) {f : Int} (b : Int)
    (hf : f ∈ apiSizes s.fs) (hentry : entryError s f b = none) :
    ((step s o f b).2.frames : Int) * (samplesPerFrame (step s o f b).2.toc s.fs.toNat : Int) = f := by
  unfold step
  split
  · apply stepLowBudget_duration hs b hf
    intro ⟨h1, h2⟩
    unfold entryError at hentry
    subst h1
    simp [h2] at hentry
    have := apiSizes_pos hs.fs hf
    have e : min (1276 : Int) 1 = 1 := by decide
    rw [e] at hentry
    split at hentry
    · exact absurd hentry (by simp)
    · simp at hentry
  · exact stepNormal_duration hs ho _ hf

/-! ### The range invariant is preserved -/

theorem chain_streamChannels_range {s : DSt} {o : Oracle} (hs : DInv s) (ho : OracleOk o) (f b : Int) :
    1 ≤ (chain s o f b).streamChannels ∧ (chain s o f b).streamChannels ≤ s.channels := by
  rw [chain_streamChannels]
  have hc := chanDecision_range hs ho
  exact ⟨(monoDelay_range hc.1).1, monoDelay_le hc.2 hs.prevCh.2⟩

theorem chain_toMono_range {s : DSt} {o : Oracle} (hs : DInv s) (ho : OracleOk o) (f b : Int) :
    (chain s o f b).toMono = 0 ∨ (chain s o f b).toMono = 1 := by
  rw [chain_toMono]; exact (monoDelay_range (chanDecision_range hs ho).1).2

/-- `toMono` is armed only on a stereo encoder. -/
theorem chain_toMono_stereo {s : DSt} {o : Oracle} (hs : DInv s) (f b : Int) (h : (chain s o f b).toMono ≠ 0) :
    s.channels = 2 := by
  rw [chain_toMono] at h
  unfold monoDelay at h
  have := hs.prevCh; have := hs.ch
  split at h
  · omega
  · simp at h

theorem stepNormal_inv {s : DSt} {o : Oracle} (hs : DInv s) (ho : OracleOk o) (f b : Int) :
    DInv (stepNormal s o f b).1 := by
  have hm := chain_mode_range hs ho f b
  have hb := bwOf_range hs ho f b
  rw [← chain_bandwidth] at hb
  have hsc := chain_streamChannels_range hs ho f b
  have htm := chain_toMono_range hs ho f b
  have hst := chain_toMono_stereo (o := o) hs f b
  have hld : s.application = 2051 → (chain s o f b).mode = 1002 := fun h => (chain_lowdelay_celt b h (hs.lowdelay h)).1
  have hch := hs.ch; have hforce := hs.force; have hpc := hs.prevCh
  have hpm := hs.prevMode; have hfp := hs.firstPrev; have hl := hs.lowdelay
  unfold stepNormal
  simp only []
  generalize chain s o f b = d at *
  split
  · -- completion = 0: SILK DTX returned before the state update
    refine ⟨hs.fs, hs.ch, hforce, hs.maxBw, hs.userBw, hs.forcedMode, hm, hs.prevMode, hb, hsc, ?_, htm, hs.firstPrev, hs.lowdelay⟩
    dsimp only; omega
  · refine ⟨hs.fs, hs.ch, hforce, hs.maxBw, hs.userBw, hs.forcedMode, hm, ?_, hb, hsc, ?_, htm, ?_, ?_⟩
    · dsimp only
      split <;> right <;> consts <;> omega
    · dsimp only; omega
    · intro h; exact absurd h (by simp)
    · intro happ
      have := hld happ
      dsimp only
      split <;> right <;> consts <;> omega

theorem step_inv {s : DSt} {o : Oracle} (hs : DInv s) (ho : OracleOk o) (f b : Int) : DInv (step s o f b).1 := by
  unfold step
  split
  · exact hs
  · exact stepNormal_inv hs ho f _

/-! ### Forced channel count -/

/-- State in which a forced-mono encoder codes mono from now on (`prev_channels` is not stereo, or
    the one delayed frame has been spent). -/
def MonoNow (s : DSt) : Prop := s.prevChannels ≠ 2 ∨ s.toMono ≠ 0

theorem chain_mono_of_monoNow {s : DSt} {o : Oracle} {f b : Int} (hc : s.channels = 2) (hf : s.forceChannels = 1)
    (h : MonoNow s) : (chain s o f b).streamChannels = 1 ∧ (chain s o f b).toMono = 0 := by
  rcases chain_forced_mono (o := o) (f := f) (b := b) hc hf with h1 | h1
  · exact h1
  · unfold MonoNow at h; omega

/-- After ANY normally coded frame that reaches the state update, a forced-mono encoder is in
    `MonoNow`: at most that one frame was still stereo. -/
theorem stepNormal_monoNow {s : DSt} {o : Oracle} {f b : Int} (hc : s.channels = 2) (hf : s.forceChannels = 1)
    (hcomp : o.completion ≠ 0) : MonoNow (stepNormal s o f b).1 ∧ (stepNormal s o f b).1.forceChannels = 1 := by
  have h := chain_forced_mono (o := o) (f := f) (b := b) hc hf
  unfold stepNormal MonoNow
  simp only [hcomp, ite_false]
  generalize chain s o f b = d at *
  constructor
  · show d.streamChannels ≠ 2 ∨ d.toMono ≠ 0
    omega
  · exact hf

/-- … and it stays there, whatever happens to the following frames (coded, or turned into DTX
    packets by SILK: since fix 88264869 the DTX return updates `prev_channels` too). -/
theorem stepNormal_monoNow_keep {s : DSt} {o : Oracle} {f b : Int} (hc : s.channels = 2) (hf : s.forceChannels = 1)
    (h : MonoNow s) : MonoNow (stepNormal s o f b).1 ∧ (stepNormal s o f b).1.forceChannels = 1 := by
  have h1 := chain_mono_of_monoNow (o := o) (f := f) (b := b) hc hf h
  unfold MonoNow at h
  unfold stepNormal MonoNow
  simp only []
  generalize chain s o f b = d at *
  split
  · constructor
    · show d.streamChannels ≠ 2 ∨ d.toMono ≠ 0
      omega
    · exact hf
  · constructor
    · show d.streamChannels ≠ 2 ∨ d.toMono ≠ 0
      omega
    · exact hf

/-- After ANY normally coded frame (DTX or not) a forced-mono encoder is in `MonoNow`. -/
theorem stepNormal_monoNow' {s : DSt} {o : Oracle} {f b : Int} (hc : s.channels = 2) (hf : s.forceChannels = 1) :
    MonoNow (stepNormal s o f b).1 ∧ (stepNormal s o f b).1.forceChannels = 1 := by
  have h := chain_forced_mono (o := o) (f := f) (b := b) hc hf
  unfold stepNormal MonoNow
  simp only []
  generalize chain s o f b = d at *
  split
  · constructor
    · show d.streamChannels ≠ 2 ∨ d.toMono ≠ 0
      omega
    · exact hf
  · constructor
    · show d.streamChannels ≠ 2 ∨ d.toMono ≠ 0
      omega
    · exact hf

/-- An encode call changes no setting of the decision state (since fix 34e4f763). -/
theorem step_settings (s : DSt) (o : Oracle) (f b : Int) :
    let s' := (step s o f b).1
    s'.fs = s.fs ∧ s'.channels = s.channels ∧ s'.application = s.application ∧ s'.userBitrate = s.userBitrate ∧
    s'.useVbr = s.useVbr ∧ s'.forceChannels = s.forceChannels ∧ s'.maxBandwidth = s.maxBandwidth ∧
    s'.userBandwidth = s.userBandwidth ∧ s'.userForcedMode = s.userForcedMode ∧ s'.lfe = s.lfe := by
  unfold step stepLowBudget stepNormal
  split
  · exact ⟨rfl, rfl, rfl, rfl, rfl, rfl, rfl, rfl, rfl, rfl⟩
  · simp only []
    split <;> exact ⟨rfl, rfl, rfl, rfl, rfl, rfl, rfl, rfl, rfl, rfl⟩

end Opus.EncDecide
