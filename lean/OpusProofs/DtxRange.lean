import OpusProofs.DtxRun
/-
  OpusProofs.DtxRange — the DTX counters stay in range along every run (so the C `int`s of
  `nb_no_activity_ms_Q1` and `noSpeechCounter` never overflow).
-/
namespace Opus.Dtx
open Opus.Gen.DtxConsts

/-! ### Range of the counters (the C `int`s never overflow) -/

theorem frameStep_nb_le (useDtx isSil : Bool) (mode : Mode) (fQ1 : Nat) (tc : Bool) (st : St) (o : Sub)
    (h : st.nb ≤ limitQ1) : (frameStep useDtx isSil mode fQ1 tc st o).1.nb ≤ limitQ1 := by
  unfold frameStep
  simp only
  split
  · rw [(frameSilk_fields _ _ _ _).1]; exact h
  · unfold frameTail
    simp only
    split
    · exact decideDtx_nb_le _ _ _
    · exact Nat.zero_le _

theorem frameFlags_nb_le (useDtx isSil : Bool) (mode : Mode) (fQ1 : Nat) (tc : Bool) (st : St) (os : List Sub)
    (h : st.nb ≤ limitQ1) : (frameFlags useDtx isSil mode fQ1 tc st os).1.nb ≤ limitQ1 := by
  induction os generalizing st with
  | nil => exact h
  | cons o os ih => simp only [frameFlags]; exact ih _ (frameStep_nb_le _ _ _ _ _ _ _ h)

theorem prepCall_nb_le (c : Cfg) (st : St) (o : CallOr) : (prepCall c st o).nb ≤ st.nb := by
  rw [prepCall_nb]; split <;> omega

theorem encodeCall_nb_le (c : Cfg) (st : St) (o : CallOr) (h : st.nb ≤ limitQ1) : (encodeCall c st o).1.nb ≤ limitQ1 := by
  have hp := prepCall_nb_le c st o
  unfold encodeCall
  simp only
  split
  · exact h
  · split
    · exact h
    · split
      · exact h
      · split
        · exact Nat.le_trans hp h
        · unfold encodeLoop; exact frameFlags_nb_le _ _ _ _ _ _ _ (by omega)

/-- `nb_no_activity_ms_Q1` never exceeds 600 ms (1200 in Q1) along any run from a fresh encoder. -/
theorem runFinal_nb_le (c : Cfg) (st : St) (ors : List CallOr) (h : st.nb ≤ limitQ1) : (runFinal c st ors).nb ≤ limitQ1 := by
  induction ors generalizing st with
  | nil => exact h
  | cons o os ih => simp only [runFinal]; exact ih _ (encodeCall_nb_le c st o h)

/-! SILK counters -/

theorem silkFrame_cnt_le (nch : Nat) (fl : Bool) (s : SilkCh × SilkCh × Bool) (f : SFrame)
    (h0 : s.1.cnt ≤ nbSpeechFramesBeforeDtx + maxConsecutiveDtx) (h1 : s.2.1.cnt ≤ nbSpeechFramesBeforeDtx + maxConsecutiveDtx) :
    (silkFrame nch fl s f).1.cnt ≤ nbSpeechFramesBeforeDtx + maxConsecutiveDtx ∧
    (silkFrame nch fl s f).2.1.cnt ≤ nbSpeechFramesBeforeDtx + maxConsecutiveDtx := by
  unfold silkFrame
  simp only
  refine ⟨silkVad_cnt_le _ _ h0, ?_⟩
  split
  · exact silkVad_cnt_le _ _ h1
  · exact h1

theorem silkFrames_cnt_le (nch : Nat) (fl : Bool) (s : SilkCh × SilkCh × Bool) (fs : List SFrame)
    (h0 : s.1.cnt ≤ nbSpeechFramesBeforeDtx + maxConsecutiveDtx) (h1 : s.2.1.cnt ≤ nbSpeechFramesBeforeDtx + maxConsecutiveDtx) :
    (silkFrames nch fl s fs).1.cnt ≤ nbSpeechFramesBeforeDtx + maxConsecutiveDtx ∧
    (silkFrames nch fl s fs).2.1.cnt ≤ nbSpeechFramesBeforeDtx + maxConsecutiveDtx := by
  induction fs generalizing s with
  | nil => exact ⟨h0, h1⟩
  | cons f fs ih =>
    simp only [silkFrames]
    have := silkFrame_cnt_le nch fl s f h0 h1
    exact ih _ this.1 this.2

/-- The counters of the SILK slice stay within 30. -/
def SilkBounded (s : SilkSt) : Prop :=
  s.c0 ≤ nbSpeechFramesBeforeDtx + maxConsecutiveDtx ∧ s.c1 ≤ nbSpeechFramesBeforeDtx + maxConsecutiveDtx

theorem silkCall_bounded (useDtx fl : Bool) (st : SilkSt) (c : SCall) (h : SilkBounded st) :
    SilkBounded (silkCall useDtx fl st c).1 := by
  unfold silkCall SilkBounded
  simp only
  apply silkFrames_cnt_le
  · simp only; split <;> first | exact Nat.zero_le _ | exact h.1
  · simp only; split
    · exact Nat.zero_le _
    · split
      · exact Nat.zero_le _
      · exact h.2

theorem runSilk_bounded (useDtx fl : Bool) (st : SilkSt) (cs : List SCall) (h : SilkBounded st) :
    SilkBounded (runSilk useDtx fl st cs).1 := by
  induction cs generalizing st with
  | nil => exact h
  | cons c cs ih =>
    cases cs with
    | nil => exact silkCall_bounded _ _ _ _ h
    | cons c' cs' => simp only [runSilk]; exact ih _ (silkCall_bounded _ _ _ _ h)

theorem frameStep_silk_bounded (useDtx isSil : Bool) (mode : Mode) (fQ1 : Nat) (tc : Bool) (st : St) (o : Sub)
    (h : SilkBounded st.silk) : SilkBounded (frameStep useDtx isSil mode fQ1 tc st o).1.silk := by
  have hs : SilkBounded (frameSilk mode (activityOf isSil o.valid o.det) st o).1.silk := by
    unfold frameSilk
    split
    · exact h
    · exact runSilk_bounded _ _ _ _ h
  unfold frameStep
  simp only
  split
  · exact hs
  · rw [(frameTail_fields ..).2.1]; exact hs

theorem frameFlags_silk_bounded (useDtx isSil : Bool) (mode : Mode) (fQ1 : Nat) (tc : Bool) (st : St) (os : List Sub)
    (h : SilkBounded st.silk) : SilkBounded (frameFlags useDtx isSil mode fQ1 tc st os).1.silk := by
  induction os generalizing st with
  | nil => exact h
  | cons o os ih => simp only [frameFlags]; exact ih _ (frameStep_silk_bounded _ _ _ _ _ _ _ h)

theorem prepCall_silk_bounded (c : Cfg) (st : St) (o : CallOr) (h : SilkBounded st.silk) : SilkBounded (prepCall c st o).silk := by
  rw [prepCall_silk]
  split
  · exact ⟨Nat.zero_le _, Nat.zero_le _⟩
  · split
    · exact ⟨Nat.zero_le _, Nat.zero_le _⟩
    · exact h

theorem encodeCall_silk_bounded (c : Cfg) (st : St) (o : CallOr) (h : SilkBounded st.silk) :
    SilkBounded (encodeCall c st o).1.silk := by
  have hp := prepCall_silk_bounded c st o h
  unfold encodeCall
  simp only
  split
  · exact h
  · split
    · exact h
    · split
      · exact h
      · split
        · exact hp
        · unfold encodeLoop; exact frameFlags_silk_bounded _ _ _ _ _ _ _ hp

/-- **Range of the counters along any run**: from a state within range (a fresh encoder is),
    `nb_no_activity_ms_Q1 ≤ 1200` and both `noSpeechCounter`s `≤ 30` after every call. -/
theorem run_counters_bounded (c : Cfg) (st : St) (ors : List CallOr) (h : st.nb ≤ limitQ1 ∧ SilkBounded st.silk) :
    (runFinal c st ors).nb ≤ limitQ1 ∧ SilkBounded (runFinal c st ors).silk := by
  induction ors generalizing st with
  | nil => exact h
  | cons o os ih =>
    simp only [runFinal]
    exact ih _ ⟨encodeCall_nb_le c st o h.1, encodeCall_silk_bounded c st o h.2⟩

end Opus.Dtx
