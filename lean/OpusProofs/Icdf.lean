import OpusModel.Icdf
/-
  OpusProofs.Icdf — (1) every static ICDF table of celt/ and silk/ (regenerated, sliced as the call sites slice
  them) is well formed; (2) a well-formed ICDF table is an exact prefix-free code: its symbol intervals are
  non-empty, adjacent, start at 0, end at 2^ftb, and the decoder's scan returns the unique symbol whose interval
  contains the point.
-/
namespace OpusProofs.Icdf
open Opus Opus.Icdf

/-! ## The regenerated tables -/

theorem all_ok : allIcdfs.all (fun e => icdfOk e.ftb e.tab) = true := by decide +kernel

theorem slicing_exact : slicingExact = true := by decide +kernel

/-- Number of tables (slices) checked, and of table words they contain. -/
def nTables : Nat := allIcdfs.length
def nWords : Nat := (allIcdfs.map (fun e => e.tab.length)).sum

/-! ## Well-formed ⇒ exact tiling -/

theorem strictDecr_step : ∀ (t : List Nat), strictDecr t = true →
    ∀ i, i + 1 < t.length → t.getD (i + 1) 0 < t.getD i 0 := by
  intro t
  induction t with
  | nil => intro _ i hi; simp at hi
  | cons a t ih =>
    intro h i hi
    cases t with
    | nil => simp at hi
    | cons b t =>
      simp only [strictDecr, Bool.and_eq_true, decide_eq_true_eq] at h
      cases i with
      | zero => simpa using h.1
      | succ i =>
        have := ih h.2 i (by simpa using hi)
        simpa using this

theorem strictDecr_le (t : List Nat) (h : strictDecr t = true) :
    ∀ d i, i + d < t.length → t.getD (i + d) 0 ≤ t.getD i 0 := by
  intro d
  induction d with
  | zero => intro i _; exact Nat.le_refl _
  | succ d ih =>
    intro i hi
    have h1 := strictDecr_step t h (i + d) (by omega)
    have h2 := ih i (by omega)
    have e : i + (d + 1) = i + d + 1 := by omega
    rw [e]; omega

theorem endsZero_spec : ∀ (t : List Nat), endsZero t = true → 0 < t.length ∧ t.getD (t.length - 1) 0 = 0 := by
  intro t
  induction t with
  | nil => intro h; simp [endsZero] at h
  | cons a t ih =>
    intro h
    cases t with
    | nil => simp only [endsZero, beq_iff_eq] at h; simp [h]
    | cons b t =>
      simp only [endsZero] at h
      have := ih h
      refine ⟨by simp, ?_⟩
      simpa using this.2

/-- The decoder's scan returns the first symbol whose upper end exceeds `x`. -/
theorem symOf_first (ftb x : Nat) : ∀ (t : List Nat) (s0 : Nat),
    (∃ j, j < t.length ∧ x < 2 ^ ftb - t.getD j 0) →
    ∃ j, j < t.length ∧ symOf ftb x t s0 = some (s0 + j) ∧ x < 2 ^ ftb - t.getD j 0 ∧
      ∀ i, i < j → ¬ x < 2 ^ ftb - t.getD i 0 := by
  intro t
  induction t with
  | nil => intro s0 ⟨j, hj, _⟩; simp at hj
  | cons a t ih =>
    intro s0 ⟨j, hj, hx⟩
    by_cases ha : x < 2 ^ ftb - a
    · exact ⟨0, by simp, by simp [symOf, ha], by simpa using ha, fun i hi => by omega⟩
    · cases j with
      | zero => exact absurd (by simpa using hx) ha
      | succ j =>
        obtain ⟨j', hj', hs, hx', hmin⟩ := ih (s0 + 1) ⟨j, by simpa using hj, by simpa using hx⟩
        refine ⟨j' + 1, by simpa using hj', ?_, by simpa using hx', ?_⟩
        · simp only [symOf, ha, if_false]; rw [hs]; congr 1; omega
        · intro i hi
          cases i with
          | zero => simpa using ha
          | succ i => simpa using hmin i (by omega)

/-- **Exact code.**  For a well-formed table: every symbol has a non-empty interval inside `[0, 2^ftb)`, consecutive
    intervals are adjacent, the first starts at 0, the last ends at `2^ftb`; every point `x < 2^ftb` lies in the
    interval of exactly one symbol, and that is the symbol `ec_dec_icdf`'s scan finds. -/
theorem icdf_tiles (ftb : Nat) (t : List Nat) (h : icdfOk ftb t = true) :
    (∀ s, s < t.length → symLow ftb t s < symHigh ftb t s ∧ symHigh ftb t s ≤ 2 ^ ftb) ∧
    (∀ s, s + 1 < t.length → symLow ftb t (s + 1) = symHigh ftb t s) ∧
    symLow ftb t 0 = 0 ∧ symHigh ftb t (t.length - 1) = 2 ^ ftb ∧
    (∀ x, x < 2 ^ ftb → ∃ s, s < t.length ∧ symOf ftb x t 0 = some s ∧
        symLow ftb t s ≤ x ∧ x < symHigh ftb t s ∧
        ∀ s', s' < t.length → symLow ftb t s' ≤ x → x < symHigh ftb t s' → s' = s) := by
  cases t with
  | nil => simp [icdfOk] at h
  | cons a t' =>
    simp only [icdfOk, Bool.and_eq_true, decide_eq_true_eq] at h
    obtain ⟨⟨ha, hd⟩, hz⟩ := h
    generalize ht : a :: t' = t at *
    have ha' : t.getD 0 0 < 2 ^ ftb := by rw [← ht]; simpa using ha
    obtain ⟨hpos, hlast⟩ := endsZero_spec t hz
    have hle := strictDecr_le t hd
    have hstep := strictDecr_step t hd
    have hbound : ∀ s, s < t.length → t.getD s 0 < 2 ^ ftb := by
      intro s hs
      have := hle s 0 (by omega)
      simp only [Nat.zero_add] at this
      omega
    refine ⟨?_, fun s _ => rfl, rfl, by simp only [symHigh, hlast]; omega, ?_⟩
    · intro s hs
      refine ⟨?_, by simp only [symHigh]; omega⟩
      cases s with
      | zero => simp only [symLow, symHigh]; omega
      | succ s =>
        have := hstep s hs
        have := hbound s (by omega)
        simp only [symLow, symHigh]; omega
    · intro x hx
      obtain ⟨j, hj, hs, hxj, hmin⟩ := symOf_first ftb x t 0 ⟨t.length - 1, by omega, by rw [hlast]; omega⟩
      rw [Nat.zero_add] at hs
      refine ⟨j, hj, hs, ?_, hxj, ?_⟩
      · cases j with
        | zero => simp [symLow]
        | succ j =>
          have := hmin j (by omega)
          simp only [symLow]; omega
      · intro s' hs' hlo hhi
        simp only [symHigh] at hhi
        by_cases h1 : s' < j
        · exact absurd hhi (hmin s' h1)
        · by_cases h2 : j < s'
          · obtain ⟨s'', rfl⟩ : ∃ s'', s' = s'' + 1 := ⟨s' - 1, by omega⟩
            simp only [symLow] at hlo
            have := hle (s'' - j) j (by omega)
            have e : j + (s'' - j) = s'' := by omega
            rw [e] at this
            have := hbound j hj
            omega
          · omega

/-- Every catalogued table is an exact code (the statement `icdf_tiles` instantiated on each regenerated table). -/
theorem all_tables_ok (e : Entry) (he : e ∈ allIcdfs) : icdfOk e.ftb e.tab = true := by
  have h := all_ok
  simp only [List.all_eq_true] at h
  exact h e he

end OpusProofs.Icdf
