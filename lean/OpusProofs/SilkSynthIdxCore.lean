import OpusModel.SilkSynthIdx
/-
  OpusProofs.SilkSynthIdxCore — every array access of silk_decode_core (as listed by the index
  model OpusModel/SilkSynthIdx.lean) lies inside its array, and no celt_assert fires, whenever the
  pitch lags satisfy C18's `pitch_in_range` post-condition (2·fs_kHz ≤ lag ≤ 18·fs_kHz).
-/
namespace Opus.SilkSynthIdx
open Opus Opus.Gen

/-- All accesses of a list are in bounds. -/
def AllIn (c : Cfg) (l : List Acc) : Prop := ∀ e ∈ l, e.inBounds c

theorem allIn_nil (c : Cfg) : AllIn c [] := by intro e he; cases he

theorem allIn_append {c : Cfg} {l1 l2 : List Acc} (h1 : AllIn c l1) (h2 : AllIn c l2) : AllIn c (l1 ++ l2) := by
  intro e he
  rcases List.mem_append.mp he with h | h
  · exact h1 e h
  · exact h2 e h

theorem allIn_ite {c : Cfg} {p : Prop} [Decidable p] {l1 l2 : List Acc} (h1 : p → AllIn c l1) (h2 : ¬p → AllIn c l2) :
    AllIn c (if p then l1 else l2) := by
  split
  · exact h1 ‹_›
  · exact h2 ‹_›

theorem allIn_rd {c : Cfg} {a : Arr} {lo hi : Int} (h : lo < hi → 0 ≤ lo ∧ hi ≤ a.size c) : AllIn c (rd a lo hi) := by
  intro e he
  unfold rd at he
  split at he
  · simp only [List.mem_singleton] at he
    subst he
    exact h ‹_›
  · cases he

theorem allIn_wrt {c : Cfg} {a : Arr} {lo hi : Int} (h : lo < hi → 0 ≤ lo ∧ hi ≤ a.size c) : AllIn c (wrt a lo hi) := by
  intro e he
  unfold wrt at he
  split at he
  · simp only [List.mem_singleton] at he
    subst he
    exact h ‹_›
  · cases he

/-- The numeric content of a configuration established by silk_decoder_set_fs. -/
structure CfgNum (c : Cfg) : Prop where
  cases : (c.fsKHz = 8 ∧ c.subfr = 40 ∧ c.ltpMem = 160 ∧ c.lpcOrder = 10) ∨
          (c.fsKHz = 12 ∧ c.subfr = 60 ∧ c.ltpMem = 240 ∧ c.lpcOrder = 10) ∨
          (c.fsKHz = 16 ∧ c.subfr = 80 ∧ c.ltpMem = 320 ∧ c.lpcOrder = 16)
  frame : c.frameLen = (c.nbSubfr : Int) * c.subfr
  nb : c.nbSubfr = 2 ∨ c.nbSubfr = 4

theorem cfgOf_num (fs : Int) (nb : Nat) (hfs : fs = 8 ∨ fs = 12 ∨ fs = 16) (hnb : nb = 2 ∨ nb = 4) :
    CfgNum (cfgOf fs nb) := by
  refine ⟨?_, rfl, hnb⟩
  rcases hfs with h | h | h <;> subst h
  · exact Or.inl ⟨rfl, by simp only [cfgOf]; decide, by simp only [cfgOf]; decide, by simp only [cfgOf]; decide⟩
  · exact Or.inr (Or.inl ⟨rfl, by simp only [cfgOf]; decide, by simp only [cfgOf]; decide, by simp only [cfgOf]; decide⟩)
  · exact Or.inr (Or.inr ⟨rfl, by simp only [cfgOf]; decide, by simp only [cfgOf]; decide, by simp only [cfgOf]; decide⟩)

/-- The hypotheses of the index-safety theorem for silk_decode_core. -/
structure CoreOk (x : CoreIn) : Prop where
  fs : x.fsKHz = 8 ∨ x.fsKHz = 12 ∨ x.fsKHz = 16
  nb : x.nbSubfr = 2 ∨ x.nbSubfr = 4
  sig : 0 ≤ x.signalType ∧ x.signalType ≤ 2
  qoff : 0 ≤ x.quantOffsetType ∧ x.quantOffsetType ≤ 1
  /-- voiced frame: the decoded lags are in the legal range for the rate (C18 `pitch_in_range`) -/
  lags : x.signalType = 2 → ∀ k, k < x.nbSubfr → 2 * x.fsKHz ≤ x.pitchL.getD k 0 ∧ x.pitchL.getD k 0 ≤ 18 * x.fsKHz
  /-- state invariant used by the transition branch: after a concealed voiced frame `lagPrev` is a
      legal lag (it is the lag silk_PLC_conceal ended with) -/
  lagPrev : x.lossCnt ≠ 0 → x.prevSignalType = 2 → x.signalType ≠ 2 →
    2 * x.fsKHz ≤ x.lagPrev ∧ x.lagPrev ≤ 18 * x.fsKHz

theorem consts : SilkSynth.typeVoiced = 2 ∧ SilkSynth.maxNbSubfr = 4 ∧ SilkSynth.ltpOrder = 5 ∧
    SilkSynth.maxLpcOrder = 16 ∧ SilkSynth.szPredCoefCols = 16 ∧ SilkSynth.szPredCoefRows = 2 ∧
    SilkSynth.szLtpCoef = 20 ∧ SilkSynth.szGains = 4 ∧ SilkSynth.szPitchL = 4 ∧ SilkSynth.szExcQ14 = 320 ∧
    SilkSynth.szOutBuf = 480 ∧ SilkSynth.szSLpcQ14Buf = 16 ∧ SilkSynth.shellCodecFrameLength = 16 ∧
    SilkSynth.szQuantOffsetsRows = 2 ∧ SilkSynth.szQuantOffsetsCols = 2 := by decide

theorem lag_bounds (x : CoreIn) (h : CoreOk x) (k : Nat) (hk : k < x.nbSubfr) (hv : voicedAt x k = true) :
    2 * x.fsKHz ≤ lagOf x k ∧ lagOf x k ≤ 18 * x.fsKHz := by
  unfold lagOf
  by_cases ht : transition x k = true
  · rw [if_pos ht]
    unfold transition at ht
    simp only [Bool.and_eq_true, decide_eq_true_eq] at ht
    rw [consts.1] at ht
    exact h.lagPrev ht.1.1.1 ht.1.1.2 ht.1.2
  · rw [if_neg ht]
    unfold voicedAt at hv
    simp only [Bool.or_eq_true, decide_eq_true_eq] at hv
    rcases hv with hv | hv
    · exact absurd hv ht
    · rw [consts.1] at hv
      exact h.lags hv k hk

/-! ### the pieces of one sub-frame -/

theorem lpcAnalysis_eq (O : Arr) (o0 : Int) (I : Arr) (i0 : Int) (B : Arr) (b0 len d : Int)
    (h : ¬(d < 6 ∨ d % 2 ≠ 0 ∨ d > len)) :
    lpcAnalysis O o0 I i0 B b0 len d =
      ((if d < len then rd I i0 (i0 + len) ++ rd B b0 (b0 + d) ++ wrt O (o0 + d) (o0 + len) else []) ++
        wrt O o0 (o0 + d), false) := by
  unfold lpcAnalysis; rw [if_neg h]

/- `leaf`: close one access obligation: rewrite the configuration and the constants to numerals, then `omega`. -/
set_option hygiene false in
local macro "leaf" : tactic =>
  `(tactic| (intro _; simp only [Arr.size, hS, hL, hO, hframe, c1, c2, c3, c4, c5, c6, c7, c8, c9, c10, c11, c12, c13, c14, c15]; omega))

theorem sfHead_ok (x : CoreIn) (hc : CfgNum x.cfg) (k : Nat) (hk : k < x.cfg.nbSubfr) : AllIn x.cfg (sfHead x k) := by
  obtain ⟨hcase, hframe, hnb⟩ := hc
  obtain ⟨c1, c2, c3, c4, c5, c6, c7, c8, c9, c10, c11, c12, c13, c14, c15⟩ := consts
  unfold sfHead
  simp only
  generalize x.cfg = c at *
  have hk4 : (k : Int) < 4 := by rcases hnb with h | h <;> omega
  rcases hcase with ⟨hF, hS, hL, hO⟩ | ⟨hF, hS, hL, hO⟩ | ⟨hF, hS, hL, hO⟩ <;>
  · refine allIn_append (allIn_append (allIn_append (allIn_append ?_ ?_) ?_) ?_) ?_
    · apply allIn_rd; leaf
    · apply allIn_wrt; leaf
    · apply allIn_rd; leaf
    · apply allIn_ite
      · intro _
        apply allIn_append
        · apply allIn_rd; leaf
        · apply allIn_wrt; leaf
      · intro _; exact allIn_nil _
    · apply allIn_ite
      · intro _
        apply allIn_append
        · apply allIn_wrt; leaf
        · apply allIn_wrt; leaf
      · intro _; exact allIn_nil _

theorem sfLtpState_ok (x : CoreIn) (hc : CfgNum x.cfg) (k : Nat) (hk : k < x.cfg.nbSubfr) (pos : Int)
    (hp0 : x.cfg.ltpMem ≤ pos) (hp1 : pos ≤ x.cfg.ltpMem + (k : Int) * x.cfg.subfr)
    (hl : voicedAt x k = true → 2 * x.cfg.fsKHz ≤ lagOf x k ∧ lagOf x k ≤ 18 * x.cfg.fsKHz) :
    (sfLtpState x k pos).2 = false ∧ AllIn x.cfg (sfLtpState x k pos).1 := by
  obtain ⟨hcase, hframe, hnb⟩ := hc
  obtain ⟨c1, c2, c3, c4, c5, c6, c7, c8, c9, c10, c11, c12, c13, c14, c15⟩ := consts
  unfold sfLtpState
  simp only
  generalize hcdef : x.cfg = c at *
  by_cases hv : voicedAt x k = true
  · rw [if_pos hv]
    have hlag := hl hv
    generalize lagOf x k = lag at hlag
    have hk4 : (k : Int) < 4 := by rcases hnb with h | h <;> omega
    have hkn : (k : Int) + 1 ≤ (c.nbSubfr : Int) := by omega
    have hhalf : SilkSynth.ltpOrder / 2 = 2 := by rw [c3]; decide
    rw [hhalf]
    by_cases hk02 : k = 0 ∨ (k = 2 ∧ x.interp = true)
    · rw [if_pos hk02]
      have hkk : (k : Int) = 0 ∨ ((k : Int) = 2 ∧ (c.nbSubfr : Int) = 4) := by
        rcases hk02 with h | ⟨h, _⟩
        · left; omega
        · right; rcases hnb with h' | h' <;> omega
      rcases hcase with ⟨hF, hS, hL, hO⟩ | ⟨hF, hS, hL, hO⟩ | ⟨hF, hS, hL, hO⟩ <;>
      · simp only [hF] at hlag
        simp only [hS, hL] at hp0 hp1
        have hsi : ¬ (c.ltpMem - lag - c.lpcOrder - 2 ≤ 0) := by omega
        have hcond : ¬ (c.lpcOrder < 6 ∨ c.lpcOrder % 2 ≠ 0 ∨
            c.lpcOrder > c.ltpMem - (c.ltpMem - lag - c.lpcOrder - 2)) := by omega
        rw [if_neg hsi, lpcAnalysis_eq _ _ _ _ _ _ _ _ hcond]
        simp only [Bool.false_eq_true, if_false]
        refine ⟨trivial, ?_⟩
        refine allIn_append (allIn_append (allIn_append ?_ ?_) ?_) ?_
        · apply allIn_rd; leaf
        · apply allIn_ite
          · intro hk2
            have : (k : Int) = 2 := by omega
            apply allIn_append
            · apply allIn_rd; intro _; simp only [Arr.size, hS, hframe]; rcases hkk with h | h <;> omega
            · apply allIn_wrt; leaf
          · intro _; exact allIn_nil _
        · apply allIn_append
          · apply allIn_ite
            · intro _
              refine allIn_append (allIn_append ?_ ?_) ?_
              · apply allIn_rd; intro _; simp only [Arr.size, hS, hL, hO, c11]; rcases hkk with h | h <;> omega
              · apply allIn_rd; leaf
              · apply allIn_wrt; leaf
            · intro _; exact allIn_nil _
          · apply allIn_wrt; leaf
        · apply allIn_append
          · apply allIn_rd; leaf
          · apply allIn_wrt; intro _; simp only [Arr.size, hS, hL, hframe]; rcases hkk with h | h <;> omega
    · rw [if_neg hk02]
      refine ⟨rfl, ?_⟩
      rcases hcase with ⟨hF, hS, hL, hO⟩ | ⟨hF, hS, hL, hO⟩ | ⟨hF, hS, hL, hO⟩ <;>
      · simp only [hF] at hlag
        simp only [hS, hL] at hp0 hp1
        apply allIn_append
        · apply allIn_rd; leaf
        · apply allIn_ite
          · intro _
            apply allIn_append
            · apply allIn_rd; leaf
            · apply allIn_wrt; leaf
          · intro _; exact allIn_nil _
  · rw [if_neg hv]
    exact ⟨rfl, allIn_nil _⟩

theorem sfLtp_ok (x : CoreIn) (hc : CfgNum x.cfg) (k : Nat) (hk : k < x.cfg.nbSubfr) (pos : Int)
    (hp0 : x.cfg.ltpMem ≤ pos) (hp1 : pos ≤ x.cfg.ltpMem + (k : Int) * x.cfg.subfr)
    (hl : voicedAt x k = true → 2 * x.cfg.fsKHz ≤ lagOf x k ∧ lagOf x k ≤ 18 * x.cfg.fsKHz) :
    AllIn x.cfg (sfLtp x k pos) := by
  obtain ⟨hcase, hframe, hnb⟩ := hc
  obtain ⟨c1, c2, c3, c4, c5, c6, c7, c8, c9, c10, c11, c12, c13, c14, c15⟩ := consts
  unfold sfLtp
  simp only
  generalize hcdef : x.cfg = c at *
  by_cases hv : voicedAt x k = true
  · rw [if_pos hv]
    have hlag := hl hv
    generalize lagOf x k = lag at hlag
    have hk4 : (k : Int) < 4 := by rcases hnb with h | h <;> omega
    have hkn : (k : Int) + 1 ≤ (c.nbSubfr : Int) := by omega
    have hhalf : SilkSynth.ltpOrder / 2 = 2 := by rw [c3]; decide
    rw [hhalf]
    rcases hcase with ⟨hF, hS, hL, hO⟩ | ⟨hF, hS, hL, hO⟩ | ⟨hF, hS, hL, hO⟩ <;>
    · simp only [hF] at hlag
      simp only [hS, hL] at hp0 hp1
      refine allIn_append (allIn_append (allIn_append (allIn_append (allIn_append ?_ ?_) ?_) ?_) ?_) ?_
      · apply allIn_rd; leaf
      · apply allIn_rd; leaf
      · apply allIn_rd; leaf
      · apply allIn_wrt; leaf
      · apply allIn_rd; leaf
      · apply allIn_wrt; leaf
  · rw [if_neg hv]; exact allIn_nil _

theorem sfLpc_ok (x : CoreIn) (hc : CfgNum x.cfg) (k : Nat) (hk : k < x.cfg.nbSubfr) : AllIn x.cfg (sfLpc x k) := by
  obtain ⟨hcase, hframe, hnb⟩ := hc
  obtain ⟨c1, c2, c3, c4, c5, c6, c7, c8, c9, c10, c11, c12, c13, c14, c15⟩ := consts
  unfold sfLpc
  simp only
  generalize hcdef : x.cfg = c at *
  have hk4 : (k : Int) < 4 := by rcases hnb with h | h <;> omega
  have hkn : (k : Int) + 1 ≤ (c.nbSubfr : Int) := by omega
  rcases hcase with ⟨hF, hS, hL, hO⟩ | ⟨hF, hS, hL, hO⟩ | ⟨hF, hS, hL, hO⟩ <;>
  · refine allIn_append (allIn_append (allIn_append (allIn_append (allIn_append (allIn_append (allIn_append ?_ ?_) ?_) ?_) ?_) ?_) ?_) ?_
    · apply allIn_rd; leaf
    · apply allIn_rd; leaf
    · apply allIn_ite
      · intro _; apply allIn_rd; leaf
      · intro _; apply allIn_rd; leaf
    · apply allIn_wrt; leaf
    · apply allIn_rd; leaf
    · apply allIn_wrt; leaf
    · apply allIn_rd; leaf
    · apply allIn_wrt; leaf

/-! ### the loop and the whole function -/

theorem subfr_pos (c : Cfg) (hc : CfgNum c) : 0 < c.subfr := by
  rcases hc.cases with ⟨_, h, _⟩ | ⟨_, h, _⟩ | ⟨_, h, _⟩ <;> omega

theorem coreLoop_ok (x : CoreIn) (h : CoreOk x) (hc : CfgNum x.cfg) (hnbc : x.cfg.nbSubfr = x.nbSubfr) :
    ∀ (n k : Nat) (pos : Int), k + n = x.nbSubfr → x.cfg.ltpMem ≤ pos → pos ≤ x.cfg.ltpMem + (k : Int) * x.cfg.subfr →
    (coreLoop x n k pos).2.1 = false ∧ AllIn x.cfg (coreLoop x n k pos).1 := by
  intro n
  induction n with
  | zero => intro k pos _ _ _; exact ⟨rfl, allIn_nil _⟩
  | succ n ih =>
    intro k pos hkn hp0 hp1
    have hk : k < x.cfg.nbSubfr := by omega
    have hfs : x.cfg.fsKHz = x.fsKHz := rfl
    have hl : voicedAt x k = true → 2 * x.cfg.fsKHz ≤ lagOf x k ∧ lagOf x k ≤ 18 * x.cfg.fsKHz := by
      intro hv; rw [hfs]; exact lag_bounds x h k (by omega) hv
    have hs := sfLtpState_ok x hc k hk pos hp0 hp1 hl
    unfold coreLoop
    simp only
    rw [if_neg (by rw [hs.1]; simp)]
    have hS := subfr_pos x.cfg hc
    have hpos' : x.cfg.ltpMem ≤ (if voicedAt x k = true then pos + x.cfg.subfr else pos) ∧
        (if voicedAt x k = true then pos + x.cfg.subfr else pos) ≤ x.cfg.ltpMem + ((k + 1 : Nat) : Int) * x.cfg.subfr := by
      have : ((k + 1 : Nat) : Int) * x.cfg.subfr = (k : Int) * x.cfg.subfr + x.cfg.subfr := by
        push_cast; rw [Int.add_mul]; omega
      rw [this]
      split <;> omega
    have hr := ih (k + 1) _ (by omega) hpos'.1 hpos'.2
    refine ⟨hr.1, ?_⟩
    exact allIn_append (allIn_append (allIn_append (allIn_append (sfHead_ok x hc k hk) hs.2)
      (sfLtp_ok x hc k hk pos hp0 hp1 hl)) (sfLpc_ok x hc k hk)) hr.2

theorem corePrelude_ok (x : CoreIn) (h : CoreOk x) (hc : CfgNum x.cfg) : AllIn x.cfg (corePrelude x) := by
  obtain ⟨hcase, hframe, hnb⟩ := hc
  obtain ⟨c1, c2, c3, c4, c5, c6, c7, c8, c9, c10, c11, c12, c13, c14, c15⟩ := consts
  have hsig := h.sig
  have hq := h.qoff
  unfold corePrelude
  simp only
  generalize hcdef : x.cfg = c at *
  have hnbI : (c.nbSubfr : Int) = 2 ∨ (c.nbSubfr : Int) = 4 := by rcases hnb with h' | h' <;> omega
  rcases hcase with ⟨hF, hS, hL, hO⟩ | ⟨hF, hS, hL, hO⟩ | ⟨hF, hS, hL, hO⟩ <;>
  · refine allIn_append (allIn_append (allIn_append (allIn_append (allIn_append ?_ ?_) ?_) ?_) ?_) ?_
    · apply allIn_rd; leaf
    · apply allIn_rd; leaf
    · apply allIn_wrt; leaf
    · apply allIn_rd; leaf
    · apply allIn_rd; leaf
    · apply allIn_wrt; leaf

/-- silk_decode_core: no `celt_assert` fires and every access is inside its array. -/
theorem coreAccesses_ok (x : CoreIn) (h : CoreOk x) :
    (coreAccesses x).2 = false ∧ ∀ a ∈ (coreAccesses x).1, a.inBounds x.cfg := by
  have hc : CfgNum x.cfg := cfgOf_num x.fsKHz x.nbSubfr h.fs h.nb
  have hl := coreLoop_ok x h hc rfl x.nbSubfr 0 x.cfg.ltpMem (by omega) (Int.le_refl _) (by simp)
  have hc' := hc
  obtain ⟨hcase, hframe, hnb⟩ := hc'
  obtain ⟨c1, c2, c3, c4, c5, c6, c7, c8, c9, c10, c11, c12, c13, c14, c15⟩ := consts
  unfold coreAccesses
  simp only
  refine ⟨hl.1, ?_⟩
  rw [hl.1]
  simp only [Bool.false_eq_true, if_false]
  refine allIn_append (allIn_append (corePrelude_ok x h hc) hl.2) ?_
  generalize hcdef : x.cfg = c at *
  rcases hcase with ⟨hF, hS, hL, hO⟩ | ⟨hF, hS, hL, hO⟩ | ⟨hF, hS, hL, hO⟩ <;>
  · apply allIn_append
    · apply allIn_rd; leaf
    · apply allIn_wrt; leaf

/-- The input record of a voiced frame whose lags come out of the pitch decoder. -/
def voicedCoreIn (fs : Int) (nb : Nat) (lags : List Int) (qoff lossCnt prevSig lagPrev : Int) (interp : Bool)
    (gd ad : List Bool) : CoreIn :=
  { fsKHz := fs, nbSubfr := nb, signalType := 2, quantOffsetType := qoff, interp := interp, pitchL := lags,
    lossCnt := lossCnt, prevSignalType := prevSig, lagPrev := lagPrev, gainDiff := gd, adjNe := ad }

theorem voicedCoreIn_ok (fs : Int) (nb : Nat) (lags : List Int) (qoff lossCnt prevSig lagPrev : Int) (interp : Bool)
    (gd ad : List Bool) (hfs : fs = 8 ∨ fs = 12 ∨ fs = 16) (hnb : nb = 2 ∨ nb = 4) (hq : 0 ≤ qoff ∧ qoff ≤ 1)
    (hlen : lags.length = nb) (hr : ∀ l ∈ lags, 2 * fs ≤ l ∧ l ≤ 18 * fs) :
    CoreOk (voicedCoreIn fs nb lags qoff lossCnt prevSig lagPrev interp gd ad) :=
  { fs := hfs, nb := hnb, sig := ⟨by show (0 : Int) ≤ 2; decide, by show (2 : Int) ≤ 2; decide⟩, qoff := hq,
    lags := fun _ k hk => by
      have hk' : k < lags.length := by rw [hlen]; exact hk
      have hm : lags[k]? = some (lags.getD k 0) := by
        rw [List.getD_eq_getElem?_getD, List.getElem?_eq_getElem hk']; simp
      exact hr _ (List.mem_of_getElem? hm),
    lagPrev := fun _ _ h => absurd rfl h }

end Opus.SilkSynthIdx
