import OpusProofs.SilkResampCall
/-
  OpusProofs.SilkResampChunk — what silk_resampler does with its delay buffer, and chunk invariance for the two
  kernels that are plain folds over the samples (copy, up2_HQ).

  `stream S xs` = the `inputDelay` buffered samples followed by the input without its last `inputDelay` samples:
  one call runs the kernel on the first millisecond of that stream, then on the rest, and buffers the last
  `inputDelay` input samples (resampler.c:189-212).  For the fold kernels the result is then a function of the stream
  alone, and two consecutive calls on a, b see the streams whose concatenation is the stream of one call on a ++ b,
  so the outputs concatenate and the live state (sIIR, sFIR, delayBuf[0 .. inputDelay)) agrees for every cut that
  leaves both parts at least 1 ms long.
-/
namespace OpusProofs.SilkResamp
open Opus Opus.SilkResamp Opus.SilkParams Opus.Gen.SilkResampRom

def stream (S : RS) (xs : List Int) : List Int :=
  S.delayBuf.take S.cfg.inputDelay ++ xs.take (xs.length - S.cfg.inputDelay)

/-- The fold kernels: copy, up2_HQ. -/
def foldK (c : Cfg) (s : IIR) (l : List Int) : IIR × List Int := if c.fn = useUp2HQ then up2hq s l else (s, l)

theorem up2hq_append (s : IIR) (x y : List Int) :
    up2hq s (x ++ y) = ((up2hq (up2hq s x).1 y).1, (up2hq s x).2 ++ (up2hq (up2hq s x).1 y).2) := by
  induction x generalizing s with
  | nil => simp [up2hq]
  | cons a x ih => simp only [List.cons_append, up2hq, ih]

theorem foldK_append (c : Cfg) (s : IIR) (x y : List Int) :
    foldK c s (x ++ y) = ((foldK c (foldK c s x).1 y).1, (foldK c s x).2 ++ (foldK c (foldK c s x).1 y).2) := by
  unfold foldK
  split
  · exact up2hq_append s x y
  · rfl

theorem kernel_fold (S : RS) (xs : List Int) (hfn : S.cfg.fn = useCopy ∨ S.cfg.fn = useUp2HQ) :
    kernel S xs = .ok ({ S with sIIR := (foldK S.cfg S.sIIR xs).1 }, (foldK S.cfg S.sIIR xs).2) := by
  rcases hfn with hfn | hfn
  · have h1 : ¬ S.cfg.fn = useUp2HQ := by rw [hfn]; decide
    have h2 : ¬ S.cfg.fn = useIIRFIR := by rw [hfn]; decide
    have h3 : ¬ S.cfg.fn = useDownFIR := by rw [hfn]; decide
    simp only [kernel, foldK, if_neg h1, if_neg h2, if_neg h3]
  · simp only [kernel, foldK, if_pos hfn]

/-- One call with a fold kernel, as a function of the delayed stream. -/
theorem resampler_fold (S : RS) (xs : List Int) (hfn : S.cfg.fn = useCopy ∨ S.cfg.fn = useUp2HQ)
    (hd : S.cfg.inputDelay ≤ S.cfg.fsIn) (hf : S.cfg.fsIn ≤ 48) (hdl : S.delayBuf.length = 48)
    (hlen : S.cfg.fsIn ≤ xs.length) :
    ∃ db', resampler S xs = .ok ({ S with sIIR := (foldK S.cfg S.sIIR (stream S xs)).1, delayBuf := db' },
                                 (foldK S.cfg S.sIIR (stream S xs)).2) ∧
      db'.take S.cfg.inputDelay = xs.drop (xs.length - S.cfg.inputDelay) ∧ db'.length = 48 := by
  unfold resampler
  simp only []
  rw [if_neg (by omega), if_neg (by omega)]
  have hw1 := window_ok (l := xs) (i := 0) (n := S.cfg.fsIn - S.cfg.inputDelay) (by omega)
    (by simp only [Int.toNat_zero]; omega)
  have hfl : ((xs.drop (0 : Int).toNat).take (S.cfg.fsIn - S.cfg.inputDelay)).length = S.cfg.fsIn - S.cfg.inputDelay := by
    simp only [Int.toNat_zero, List.drop_zero, List.length_take]; omega
  let db := S.delayBuf.take S.cfg.inputDelay ++ (xs.drop (0 : Int).toNat).take (S.cfg.fsIn - S.cfg.inputDelay) ++
    S.delayBuf.drop (S.cfg.inputDelay + ((xs.drop (0 : Int).toNat).take (S.cfg.fsIn - S.cfg.inputDelay)).length)
  have hb1 : blit S.delayBuf S.cfg.inputDelay ((xs.drop (0 : Int).toNat).take (S.cfg.fsIn - S.cfg.inputDelay)) = .ok db := by
    unfold blit; rw [if_pos (by rw [hfl]; omega)]
  have hdbl : db.length = 48 := by
    simp only [db, List.length_append, List.length_take, List.length_drop, Int.toNat_zero, List.drop_zero]; omega
  have hw2 := window_ok (l := db) (i := 0) (n := S.cfg.fsIn) (by omega) (by simp only [Int.toNat_zero]; omega)
  have hw3 := window_ok (l := xs) (i := ((S.cfg.fsIn - S.cfg.inputDelay : Nat) : Int)) (n := xs.length - S.cfg.fsIn)
    (by omega) (by simp only [Int.toNat_natCast]; omega)
  have hw4 := window_ok (l := xs) (i := (xs.length : Int) - (S.cfg.inputDelay : Int)) (n := S.cfg.inputDelay)
    (by omega) (by omega)
  have hk1 := kernel_fold { S with delayBuf := db } ((db.drop (0 : Int).toNat).take S.cfg.fsIn) hfn
  simp only [hw1, hb1, hw2, hw3, hw4, Res.bind_ok, hk1]
  have hk2 := kernel_fold { S with sIIR := (foldK S.cfg S.sIIR ((db.drop (0 : Int).toNat).take S.cfg.fsIn)).1, delayBuf := db }
    ((xs.drop ((S.cfg.fsIn - S.cfg.inputDelay : Nat) : Int).toNat).take (xs.length - S.cfg.fsIn)) hfn
  simp only [hk2, Res.bind_ok]
  -- the two kernel inputs are the first millisecond and the rest of the stream
  have e1 : (db.drop (0 : Int).toNat).take S.cfg.fsIn = (stream S xs).take S.cfg.fsIn := by
    simp only [db, stream, Int.toNat_zero, List.drop_zero, List.take_append, List.length_take, List.length_append,
      List.take_take]
    have h1 : min S.cfg.inputDelay S.delayBuf.length = S.cfg.inputDelay := by omega
    have h2 : min (S.cfg.fsIn - S.cfg.inputDelay) xs.length = S.cfg.fsIn - S.cfg.inputDelay := by omega
    rw [h1, h2]
    have h3 : S.cfg.fsIn - S.cfg.inputDelay - (S.cfg.fsIn - S.cfg.inputDelay) = 0 := by omega
    have h4 : min (S.cfg.fsIn - S.cfg.inputDelay) (S.cfg.fsIn - S.cfg.inputDelay) = S.cfg.fsIn - S.cfg.inputDelay := by omega
    have h5 : min (S.cfg.fsIn - S.cfg.inputDelay) (xs.length - S.cfg.inputDelay) = S.cfg.fsIn - S.cfg.inputDelay := by omega
    have h6 : min S.cfg.fsIn S.cfg.inputDelay = S.cfg.inputDelay := by omega
    simp only [h4, h5, h6]
    have h7 : S.cfg.fsIn - (S.cfg.inputDelay + (S.cfg.fsIn - S.cfg.inputDelay)) = 0 := by omega
    rw [h7, List.take_zero, List.append_nil]
  have e2 : (xs.drop ((S.cfg.fsIn - S.cfg.inputDelay : Nat) : Int).toNat).take (xs.length - S.cfg.fsIn) =
      (stream S xs).drop S.cfg.fsIn := by
    simp only [stream, Int.toNat_natCast]
    have h1 : min S.cfg.inputDelay S.delayBuf.length = S.cfg.inputDelay := by omega
    rw [List.drop_append, List.drop_of_length_le (l := S.delayBuf.take S.cfg.inputDelay) (i := S.cfg.fsIn)
      (by rw [List.length_take]; omega), List.nil_append, List.length_take, h1, List.drop_take]
    have h2 : xs.length - S.cfg.inputDelay - (S.cfg.fsIn - S.cfg.inputDelay) = xs.length - S.cfg.fsIn := by omega
    rw [h2]
  have hs : stream S xs = (stream S xs).take S.cfg.fsIn ++ (stream S xs).drop S.cfg.fsIn := (List.take_append_drop _ _).symm
  have hb2 := blit_ok (l := db) (src := (xs.drop ((xs.length : Int) - (S.cfg.inputDelay : Int)).toNat).take S.cfg.inputDelay)
    (off := 0) (by rw [List.length_take, List.length_drop]; omega)
  obtain ⟨db2, hb2e, hb2l, _⟩ := hb2
  simp only [hb2e, Res.bind_ok]
  refine ⟨db2, ?_, ?_, by rw [hb2l, hdbl]⟩
  · rw [e1, e2]
    conv => rhs; rw [hs, foldK_append]
    rfl
  · unfold blit at hb2e
    rw [if_pos (by rw [List.length_take, List.length_drop]; omega)] at hb2e
    injection hb2e with hb2e
    rw [← hb2e]
    have hT : ((xs.length : Int) - (S.cfg.inputDelay : Int)).toNat = xs.length - S.cfg.inputDelay := by omega
    simp only [hT, List.take_zero, List.nil_append, Nat.zero_add]
    have hl : ((xs.drop (xs.length - S.cfg.inputDelay)).take S.cfg.inputDelay).length = S.cfg.inputDelay := by
      rw [List.length_take, List.length_drop]; omega
    have hsrc : (xs.drop (xs.length - S.cfg.inputDelay)).take S.cfg.inputDelay = xs.drop (xs.length - S.cfg.inputDelay) :=
      List.take_of_length_le (by rw [List.length_drop]; omega)
    rw [hsrc] at hl ⊢
    rw [List.take_append_of_le_length (l₁ := xs.drop (xs.length - S.cfg.inputDelay)) (by omega)]
    exact List.take_of_length_le (by omega)

/-- Chunk invariance for the fold kernels: any cut that leaves both parts at least 1 ms long. -/
theorem chunk_fold (S : RS) (a b : List Int) (hfn : S.cfg.fn = useCopy ∨ S.cfg.fn = useUp2HQ)
    (hd : S.cfg.inputDelay ≤ S.cfg.fsIn) (hf : S.cfg.fsIn ≤ 48) (hdl : S.delayBuf.length = 48)
    (ha : S.cfg.fsIn ≤ a.length) (hb : S.cfg.fsIn ≤ b.length) :
    ∃ S1 o1 S2 o2 S12 o12, resampler S a = .ok (S1, o1) ∧ resampler S1 b = .ok (S2, o2) ∧
      resampler S (a ++ b) = .ok (S12, o12) ∧ o12 = o1 ++ o2 ∧ S12.cfg = S2.cfg ∧ S12.sIIR = S2.sIIR ∧
      S12.sFIR = S2.sFIR ∧ S12.delayBuf.take S.cfg.inputDelay = S2.delayBuf.take S.cfg.inputDelay := by
  obtain ⟨db1, h1, h1t, h1l⟩ := resampler_fold S a hfn hd hf hdl ha
  obtain ⟨db2, h2, h2t, h2l⟩ := resampler_fold
    { S with sIIR := (foldK S.cfg S.sIIR (stream S a)).1, delayBuf := db1 } b hfn hd hf h1l hb
  obtain ⟨db12, h12, h12t, h12l⟩ := resampler_fold S (a ++ b) hfn hd hf hdl (by rw [List.length_append]; omega)
  have hstream : stream S (a ++ b) =
      stream S a ++ stream { S with sIIR := (foldK S.cfg S.sIIR (stream S a)).1, delayBuf := db1 } b := by
    simp only [stream, h1t, List.length_append]
    have e : a.length + b.length - S.cfg.inputDelay = a.length + (b.length - S.cfg.inputDelay) := by omega
    rw [e, List.take_append, List.take_of_length_le (l := a) (by omega)]
    have e2 : a.length + (b.length - S.cfg.inputDelay) - a.length = b.length - S.cfg.inputDelay := by omega
    rw [e2]
    simp only [List.append_assoc]
    congr 1
    rw [← List.append_assoc, List.take_append_drop]
  refine ⟨_, _, _, _, _, _, h1, h2, h12, ?_, rfl, ?_, rfl, ?_⟩
  · show (foldK S.cfg S.sIIR (stream S (a ++ b))).2 = _
    rw [hstream, foldK_append]
  · show (foldK S.cfg S.sIIR (stream S (a ++ b))).1 = _
    rw [hstream, foldK_append]
  · show db12.take S.cfg.inputDelay = db2.take S.cfg.inputDelay
    rw [h12t, h2t, List.length_append]
    have e : a.length + b.length - S.cfg.inputDelay = a.length + (b.length - S.cfg.inputDelay) := by omega
    rw [e, List.drop_append, List.drop_of_length_le (l := a) (by omega), List.nil_append]
    dsimp only
    congr 1
    omega

/-- Every kernel: after a call, delayBuf[0 .. inputDelay) holds the last inputDelay input samples (resampler.c:212). -/
theorem resampler_dbuf (S : RS) (xs : List Int) (hI : Inv S) (hlen : S.cfg.fsIn ≤ xs.length) (hx : ∀ v ∈ xs, I16 v) :
    ∀ r, resampler S xs = .ok r → r.1.delayBuf.take S.cfg.inputDelay = xs.drop (xs.length - S.cfg.inputDelay) := by
  intro r hr
  have hc := cfgTable_facts _ hI.cfg
  have hc' := hc
  simp only [cfgFacts, Bool.and_eq_true, Bool.or_eq_true, decide_eq_true_eq, beq_iff_eq] at hc'
  obtain ⟨⟨⟨⟨⟨⟨⟨h1, h2⟩, h3⟩, h4⟩, h5⟩, h6⟩, h7⟩, _⟩ := hc'
  have hfl : S.sFIR.length = 36 := hI.fir
  have hdl : S.delayBuf.length = 48 := hI.dbuf
  unfold resampler at hr
  simp only [] at hr
  rw [if_neg (by omega), if_neg (by omega)] at hr
  obtain ⟨first, hw1, hl1, hm1⟩ := window_ok_len (l := xs) (i := 0) (n := S.cfg.fsIn - S.cfg.inputDelay) (by omega)
    (by simp only [Int.toNat_zero]; omega)
  obtain ⟨db, hb1, hdbl, hdbm⟩ := blit_ok (l := S.delayBuf) (src := first) (off := S.cfg.inputDelay) (by omega)
  obtain ⟨in1, hw2, hl2, hm2⟩ := window_ok_len (l := db) (i := 0) (n := S.cfg.fsIn) (by omega)
    (by simp only [Int.toNat_zero]; omega)
  obtain ⟨in2, hw3, hl3, hm3⟩ := window_ok_len (l := xs) (i := ((S.cfg.fsIn - S.cfg.inputDelay : Nat) : Int))
    (n := xs.length - S.cfg.fsIn) (by omega) (by simp only [Int.toNat_natCast]; omega)
  have hdb16 : ∀ v ∈ db, I16 v := by
    intro v hv
    rcases hdbm v hv with h | h
    · exact hI.dbuf16 v h
    · exact hx v (hm1 v h)
  obtain ⟨S1, o1, hk1, hc1, hf1, hd1, _, _⟩ := kernel_ok { S with delayBuf := db } in1 hc hfl
    (fun v hv => hdb16 v (hm2 v hv))
  obtain ⟨S2, o2, hk2, hc2, hf2, hd2, _, _⟩ := kernel_ok S1 in2 (by rw [hc1]; exact hc) hf1
    (fun v hv => hx v (hm3 v hv))
  have hw4 := window_ok (l := xs) (i := (xs.length : Int) - (S.cfg.inputDelay : Int)) (n := S.cfg.inputDelay)
    (by omega) (by omega)
  have hS2d : S2.delayBuf = db := by rw [hd2, hd1]
  have hT : ((xs.length : Int) - (S.cfg.inputDelay : Int)).toNat = xs.length - S.cfg.inputDelay := by omega
  rw [hT] at hw4
  have hsrc : (xs.drop (xs.length - S.cfg.inputDelay)).take S.cfg.inputDelay = xs.drop (xs.length - S.cfg.inputDelay) :=
    List.take_of_length_le (by rw [List.length_drop]; omega)
  rw [hsrc] at hw4
  have hl : (xs.drop (xs.length - S.cfg.inputDelay)).length = S.cfg.inputDelay := by rw [List.length_drop]; omega
  have hb2 : blit S2.delayBuf 0 (xs.drop (xs.length - S.cfg.inputDelay)) =
      .ok (S2.delayBuf.take 0 ++ xs.drop (xs.length - S.cfg.inputDelay) ++
        S2.delayBuf.drop (0 + (xs.drop (xs.length - S.cfg.inputDelay)).length)) := by
    unfold blit; rw [if_pos (by rw [hS2d, hl]; omega)]
  simp only [hw1, hb1, hw2, hw3, hk1, hk2, hw4, hb2, Res.bind_ok] at hr
  injection hr with hr; subst hr
  show (S2.delayBuf.take 0 ++ xs.drop (xs.length - S.cfg.inputDelay) ++
        S2.delayBuf.drop (0 + (xs.drop (xs.length - S.cfg.inputDelay)).length)).take S.cfg.inputDelay = _
  simp only [List.take_zero, List.nil_append]
  rw [List.take_append_of_le_length (l₁ := xs.drop (xs.length - S.cfg.inputDelay)) (by omega)]
  exact List.take_of_length_le (by omega)

/-- The streams of consecutive calls concatenate: no sample is lost or duplicated at a call boundary, whatever the
    kernel. -/
theorem stream_concat (S S1 : RS) (a b : List Int) (hc : S1.cfg = S.cfg)
    (hd : S1.delayBuf.take S.cfg.inputDelay = a.drop (a.length - S.cfg.inputDelay))
    (ha : S.cfg.inputDelay ≤ a.length) (hb : S.cfg.inputDelay ≤ b.length) :
    stream S (a ++ b) = stream S a ++ stream S1 b := by
  simp only [stream, hc, hd, List.length_append]
  have e : a.length + b.length - S.cfg.inputDelay = a.length + (b.length - S.cfg.inputDelay) := by omega
  rw [e, List.take_append, List.take_of_length_le (l := a) (by omega)]
  have e2 : a.length + (b.length - S.cfg.inputDelay) - a.length = b.length - S.cfg.inputDelay := by omega
  rw [e2]
  simp only [List.append_assoc]
  congr 1
  rw [← List.append_assoc, List.take_append_drop]

/-- delayBuf after the copy of resampler.c:192. -/
def dbufAfterCopy (S : RS) (xs : List Int) : List Int :=
  S.delayBuf.take S.cfg.inputDelay ++ xs.take (S.cfg.fsIn - S.cfg.inputDelay) ++
    S.delayBuf.drop (S.cfg.inputDelay + (xs.take (S.cfg.fsIn - S.cfg.inputDelay)).length)

/-- Every kernel: one call = the kernel on the first millisecond of the delayed stream, then on the rest of it, then
    the copy of the last inputDelay input samples into delayBuf (resampler.c:189-212). -/
theorem resampler_via_stream (S : RS) (xs : List Int) (hd : S.cfg.inputDelay ≤ S.cfg.fsIn) (hf : S.cfg.fsIn ≤ 48)
    (hdl : S.delayBuf.length = 48) (hlen : S.cfg.fsIn ≤ xs.length) :
    resampler S xs =
      (kernel { S with delayBuf := dbufAfterCopy S xs } ((stream S xs).take S.cfg.fsIn)).bind fun r1 =>
      (kernel r1.1 ((stream S xs).drop S.cfg.fsIn)).bind fun r2 =>
      (blit r2.1.delayBuf 0 (xs.drop (xs.length - S.cfg.inputDelay))).bind fun db2 =>
      .ok ({ r2.1 with delayBuf := db2 }, r1.2 ++ r2.2) := by
  unfold resampler
  simp only []
  rw [if_neg (by omega), if_neg (by omega)]
  have hw1 := window_ok (l := xs) (i := 0) (n := S.cfg.fsIn - S.cfg.inputDelay) (by omega)
    (by simp only [Int.toNat_zero]; omega)
  simp only [Int.toNat_zero, List.drop_zero] at hw1
  have hfl : (xs.take (S.cfg.fsIn - S.cfg.inputDelay)).length = S.cfg.fsIn - S.cfg.inputDelay := by
    rw [List.length_take]; omega
  have hb1 : blit S.delayBuf S.cfg.inputDelay (xs.take (S.cfg.fsIn - S.cfg.inputDelay)) = .ok (dbufAfterCopy S xs) := by
    unfold blit dbufAfterCopy; rw [if_pos (by rw [hfl]; omega)]
  have hdbl : (dbufAfterCopy S xs).length = 48 := by
    simp only [dbufAfterCopy, List.length_append, List.length_take, List.length_drop]; omega
  have hw2 := window_ok (l := dbufAfterCopy S xs) (i := 0) (n := S.cfg.fsIn) (by omega)
    (by simp only [Int.toNat_zero]; omega)
  simp only [Int.toNat_zero, List.drop_zero] at hw2
  have hw3 := window_ok (l := xs) (i := ((S.cfg.fsIn - S.cfg.inputDelay : Nat) : Int)) (n := xs.length - S.cfg.fsIn)
    (by omega) (by simp only [Int.toNat_natCast]; omega)
  simp only [Int.toNat_natCast] at hw3
  have hw4 := window_ok (l := xs) (i := (xs.length : Int) - (S.cfg.inputDelay : Int)) (n := S.cfg.inputDelay)
    (by omega) (by omega)
  have hT : ((xs.length : Int) - (S.cfg.inputDelay : Int)).toNat = xs.length - S.cfg.inputDelay := by omega
  have hsrc : (xs.drop (xs.length - S.cfg.inputDelay)).take S.cfg.inputDelay = xs.drop (xs.length - S.cfg.inputDelay) :=
    List.take_of_length_le (by rw [List.length_drop]; omega)
  rw [hT, hsrc] at hw4
  have e1 : (dbufAfterCopy S xs).take S.cfg.fsIn = (stream S xs).take S.cfg.fsIn := by
    simp only [dbufAfterCopy, stream, List.take_append, List.length_take, List.length_append, List.take_take]
    have h1 : min S.cfg.inputDelay S.delayBuf.length = S.cfg.inputDelay := by omega
    have h2 : min (S.cfg.fsIn - S.cfg.inputDelay) xs.length = S.cfg.fsIn - S.cfg.inputDelay := by omega
    rw [h1, h2]
    have h4 : min (S.cfg.fsIn - S.cfg.inputDelay) (S.cfg.fsIn - S.cfg.inputDelay) = S.cfg.fsIn - S.cfg.inputDelay := by omega
    have h5 : min (S.cfg.fsIn - S.cfg.inputDelay) (xs.length - S.cfg.inputDelay) = S.cfg.fsIn - S.cfg.inputDelay := by omega
    have h6 : min S.cfg.fsIn S.cfg.inputDelay = S.cfg.inputDelay := by omega
    simp only [h4, h5, h6]
    have h7 : S.cfg.fsIn - (S.cfg.inputDelay + (S.cfg.fsIn - S.cfg.inputDelay)) = 0 := by omega
    rw [h7, List.take_zero, List.append_nil]
  have e2 : (xs.drop (S.cfg.fsIn - S.cfg.inputDelay)).take (xs.length - S.cfg.fsIn) = (stream S xs).drop S.cfg.fsIn := by
    simp only [stream]
    have h1 : min S.cfg.inputDelay S.delayBuf.length = S.cfg.inputDelay := by omega
    rw [List.drop_append, List.drop_of_length_le (l := S.delayBuf.take S.cfg.inputDelay) (i := S.cfg.fsIn)
      (by rw [List.length_take]; omega), List.nil_append, List.length_take, h1, List.drop_take]
    have h2 : xs.length - S.cfg.inputDelay - (S.cfg.fsIn - S.cfg.inputDelay) = xs.length - S.cfg.fsIn := by omega
    rw [h2]
  simp only [hw1, hb1, hw2, hw3, hw4, Res.bind_ok, e1, e2]
  rfl

end OpusProofs.SilkResamp
