import OpusProofs.SoftClipField
import Mathlib.Tactic.Positivity
/-
  OpusProofs.SoftClipRound — does the 2^-22 boost `a += a*2.4e-7f` keep the excursion map at or below 1 in
  ROUNDED arithmetic?  Standard model of floating point: every operation returns the exact result times
  `(1+δ)`, `|δ| ≤ u` (binary32 round-to-nearest: u = 2^-24; valid when no intermediate underflows — for a
  sample x ≥ 1 every intermediate is above 2^-48).  The six inner operations of
      p = m*m;  a0 = (m-1)/p;  e = a0*epsf;  a' = a0 + e;  t1 = a'*x;  t2 = t1*x        (m-1 is exact: Sterbenz)
  get independent errors δ1..δ6; the last operation `x - t2` is kept exact here and its rounding is handled by
  monotonicity (`rnd y ≤ 1` whenever `y ≤ 1+u`, true of round-to-nearest-even at 1).
-/
namespace Opus.SoftClip
variable {F : Type} [Field F] [LinearOrder F] [IsStrictOrderedRing F]

/-- lower bound of the accumulated error factor: needs `epsf*(1-u)*(1-3u) ≥ 4u`, i.e. the boost must
    exceed four units of round-off (2.4e-7 = 4.03·2^-24). -/
theorem factor_lower (u epsf d1 d2 d3 d4 d5 d6 : F) (hu0 : 0 < u) (hu1 : u ≤ 1 / 16)
    (heps : 4 * u ≤ epsf * (1 - u) * (1 - 3 * u)) (heps1 : epsf ≤ 1)
    (h1 : |d1| ≤ u) (h2 : |d2| ≤ u) (h3 : |d3| ≤ u) (h4 : |d4| ≤ u) (h5 : |d5| ≤ u) (h6 : |d6| ≤ u) :
    (1 - u) * (1 + d1) ≤ (1 + d2) * (1 + epsf * (1 + d4)) * (1 + d3) * (1 + d5) * (1 + d6) := by
  obtain ⟨a1, b1⟩ := abs_le.mp h1
  obtain ⟨a2, b2⟩ := abs_le.mp h2
  obtain ⟨a3, b3⟩ := abs_le.mp h3
  obtain ⟨a4, b4⟩ := abs_le.mp h4
  obtain ⟨a5, b5⟩ := abs_le.mp h5
  obtain ⟨a6, b6⟩ := abs_le.mp h6
  have hw : 0 < 1 - u := by linarith
  have hepos : 0 ≤ epsf := by
    by_contra hn
    have : epsf * (1 - u) * (1 - 3 * u) < 0 := by
      have h3u : 0 < 1 - 3 * u := by linarith
      have := mul_neg_of_neg_of_pos (mul_neg_of_neg_of_pos (not_le.mp hn) hw) h3u
      exact this
    linarith
  -- each factor is at least (1-u); the boosted one at least 1 + epsf(1-u)
  have f2 : 1 - u ≤ 1 + d2 := by linarith
  have f3 : 1 - u ≤ 1 + d3 := by linarith
  have f5 : 1 - u ≤ 1 + d5 := by linarith
  have f6 : 1 - u ≤ 1 + d6 := by linarith
  have fe : 1 + epsf * (1 - u) ≤ 1 + epsf * (1 + d4) := by
    have : epsf * (1 - u) ≤ epsf * (1 + d4) := mul_le_mul_of_nonneg_left (by linarith) hepos
    linarith
  have fepos : 0 < 1 + epsf * (1 - u) := by
    have : 0 ≤ epsf * (1 - u) := mul_nonneg hepos (le_of_lt hw)
    linarith
  have p1 : (1 - u) * (1 + epsf * (1 - u)) ≤ (1 + d2) * (1 + epsf * (1 + d4)) :=
    mul_le_mul f2 fe (le_of_lt fepos) (by linarith)
  have q1 : 0 ≤ (1 - u) * (1 + epsf * (1 - u)) := mul_nonneg (le_of_lt hw) (le_of_lt fepos)
  have p2 : (1 - u) * (1 + epsf * (1 - u)) * (1 - u) ≤ (1 + d2) * (1 + epsf * (1 + d4)) * (1 + d3) :=
    mul_le_mul p1 f3 (le_of_lt hw) (le_trans q1 p1)
  have q2 : 0 ≤ (1 - u) * (1 + epsf * (1 - u)) * (1 - u) := mul_nonneg q1 (le_of_lt hw)
  have p3 : (1 - u) * (1 + epsf * (1 - u)) * (1 - u) * (1 - u) ≤
      (1 + d2) * (1 + epsf * (1 + d4)) * (1 + d3) * (1 + d5) :=
    mul_le_mul p2 f5 (le_of_lt hw) (le_trans q2 p2)
  have q3 : 0 ≤ (1 - u) * (1 + epsf * (1 - u)) * (1 - u) * (1 - u) := mul_nonneg q2 (le_of_lt hw)
  have p4 : (1 - u) * (1 + epsf * (1 - u)) * (1 - u) * (1 - u) * (1 - u) ≤
      (1 + d2) * (1 + epsf * (1 + d4)) * (1 + d3) * (1 + d5) * (1 + d6) :=
    mul_le_mul p3 f6 (le_of_lt hw) (le_trans q3 p3)
  -- (1-u)^3 (1 + epsf(1-u)) ≥ 1 + u
  have key : 1 + u ≤ (1 + epsf * (1 - u)) * ((1 - u) * (1 - u) * (1 - u)) := by
    have c3 : 1 - 3 * u ≤ (1 - u) * (1 - u) * (1 - u) := by nlinarith [mul_pos hu0 hu0, mul_pos (mul_pos hu0 hu0) hu0]
    have h3u : 0 ≤ 1 - 3 * u := by linarith
    have : (1 + epsf * (1 - u)) * (1 - 3 * u) ≤ (1 + epsf * (1 - u)) * ((1 - u) * (1 - u) * (1 - u)) :=
      mul_le_mul_of_nonneg_left c3 (le_of_lt fepos)
    have e : (1 + epsf * (1 - u)) * (1 - 3 * u) = 1 - 3 * u + epsf * (1 - u) * (1 - 3 * u) := by ring
    linarith
  have hd1 : 1 + d1 ≤ 1 + u := by linarith
  calc (1 - u) * (1 + d1) ≤ (1 - u) * (1 + u) := mul_le_mul_of_nonneg_left hd1 (le_of_lt hw)
    _ ≤ (1 - u) * ((1 + epsf * (1 - u)) * ((1 - u) * (1 - u) * (1 - u))) := mul_le_mul_of_nonneg_left key (le_of_lt hw)
    _ = (1 - u) * (1 + epsf * (1 - u)) * (1 - u) * (1 - u) * (1 - u) := by ring
    _ ≤ _ := p4

/-- **Rounded excursion map, upper side.**  With the standard model on the six inner operations, the exact
    difference `x - t2` that is about to be rounded is at most `1 + (m-1)·u ≤ 1 + u` for every `0 ≤ x ≤ m`,
    `1 < m ≤ 2`. -/
theorem rounded_excursion_upper (u epsf m x d1 d2 d3 d4 d5 d6 : F) (hu0 : 0 < u) (hu1 : u ≤ 1 / 16)
    (heps : 4 * u ≤ epsf * (1 - u) * (1 - 3 * u)) (heps1 : epsf ≤ 1)
    (h1 : |d1| ≤ u) (h2 : |d2| ≤ u) (h3 : |d3| ≤ u) (h4 : |d4| ≤ u) (h5 : |d5| ≤ u) (h6 : |d6| ≤ u)
    (hm1 : 1 < m) (hm2 : m ≤ 2) (hx0 : 0 ≤ x) (hxm : x ≤ m) :
    x - ((((m - 1) / (m * m * (1 + d1)) * (1 + d2)) + ((m - 1) / (m * m * (1 + d1)) * (1 + d2)) * epsf * (1 + d4)) *
          (1 + d3) * x * (1 + d5)) * x * (1 + d6) ≤ 1 + (m - 1) * u := by
  have hfac := factor_lower u epsf d1 d2 d3 d4 d5 d6 hu0 hu1 heps heps1 h1 h2 h3 h4 h5 h6
  obtain ⟨a1, b1⟩ := abs_le.mp h1
  have hd1 : 0 < 1 + d1 := by linarith
  have hmpos : 0 < m := by linarith
  have hmm : 0 < m * m := mul_pos hmpos hmpos
  -- t2 = (m-1) (x/m)^2 Q with Q ≥ 1-u
  set Q : F := (1 + d2) * (1 + epsf * (1 + d4)) * (1 + d3) * (1 + d5) * (1 + d6) / (1 + d1) with hQ
  have hQlow : 1 - u ≤ Q := by
    rw [hQ, le_div_iff₀ hd1]; exact hfac
  have ht2 : ((((m - 1) / (m * m * (1 + d1)) * (1 + d2)) + ((m - 1) / (m * m * (1 + d1)) * (1 + d2)) * epsf * (1 + d4)) *
          (1 + d3) * x * (1 + d5)) * x * (1 + d6) = (m - 1) / (m * m) * (x * x) * Q := by
    rw [hQ]; field_simp
  rw [ht2]
  have hc0 : 0 ≤ (m - 1) / (m * m) * (x * x) := mul_nonneg (div_nonneg (by linarith) (le_of_lt hmm)) (mul_self_nonneg x)
  have step1 : x - (m - 1) / (m * m) * (x * x) * Q ≤ x - (m - 1) / (m * m) * (x * x) * (1 - u) := by
    have := mul_le_mul_of_nonneg_left hQlow hc0
    linarith
  -- g(x) = x - c x^2, c = (m-1)(1-u)/m^2, increasing on [0, m]; g(m) = 1 + (m-1)u
  set c : F := (m - 1) / (m * m) * (1 - u) with hc
  have hcm : c * (m * m) = (m - 1) * (1 - u) := by rw [hc]; field_simp
  have hcpos : 0 ≤ c := mul_nonneg (div_nonneg (by linarith) (le_of_lt hmm)) (by linarith)
  have hc2m : c * (2 * m) ≤ 1 := by
    have h1' : (c * (2 * m)) * m ≤ 1 * m := by
      have : (c * (2 * m)) * m = 2 * (c * (m * m)) := by ring
      rw [this, hcm]
      have h2' : (m - 1) * (1 - u) ≤ (m - 1) * 1 := mul_le_mul_of_nonneg_left (by linarith) (by linarith)
      linarith
    exact le_of_mul_le_mul_right h1' hmpos
  have hgm : m - c * (m * m) = 1 + (m - 1) * u := by rw [hcm]; ring
  have hmono : x - c * (x * x) ≤ m - c * (m * m) := by
    have hfac2 : 0 ≤ (m - x) * (1 - c * (m + x)) := by
      apply mul_nonneg (by linarith)
      have : c * (m + x) ≤ c * (2 * m) := mul_le_mul_of_nonneg_left (by linarith) hcpos
      linarith
    have e2 : (m - c * (m * m)) - (x - c * (x * x)) = (m - x) * (1 - c * (m + x)) := by ring
    linarith
  have e : (m - 1) / (m * m) * (x * x) * (1 - u) = c * (x * x) := by rw [hc]; ring
  rw [e] at step1
  linarith

/-- With any monotone final rounding that maps everything up to `1+u` to at most 1 (round-to-nearest-even
    does: 1+u is the midpoint between 1 and its successor, and 1 is even), the rounded result is ≤ 1. -/
theorem rounded_excursion_le_one (rnd : F → F) (u : F) (hr : ∀ y, y ≤ 1 + u → rnd y ≤ 1)
    (epsf m x d1 d2 d3 d4 d5 d6 : F) (hu0 : 0 < u) (hu1 : u ≤ 1 / 16)
    (heps : 4 * u ≤ epsf * (1 - u) * (1 - 3 * u)) (heps1 : epsf ≤ 1)
    (h1 : |d1| ≤ u) (h2 : |d2| ≤ u) (h3 : |d3| ≤ u) (h4 : |d4| ≤ u) (h5 : |d5| ≤ u) (h6 : |d6| ≤ u)
    (hm1 : 1 < m) (hm2 : m ≤ 2) (hx0 : 0 ≤ x) (hxm : x ≤ m) :
    rnd (x - ((((m - 1) / (m * m * (1 + d1)) * (1 + d2)) + ((m - 1) / (m * m * (1 + d1)) * (1 + d2)) * epsf * (1 + d4)) *
          (1 + d3) * x * (1 + d5)) * x * (1 + d6)) ≤ 1 := by
  apply hr
  have := rounded_excursion_upper u epsf m x d1 d2 d3 d4 d5 d6 hu0 hu1 heps heps1 h1 h2 h3 h4 h5 h6 hm1 hm2 hx0 hxm
  have : (m - 1) * u ≤ 1 * u := mul_le_mul_of_nonneg_right (by linarith) (le_of_lt hu0)
  linarith

/-- **Rounded excursion map, lower side**: the difference about to be rounded is non-negative (so the
    result keeps the sign and is ≥ -1 trivially). -/
theorem rounded_excursion_lower (u epsf m x d1 d2 d3 d4 d5 d6 : F) (hu0 : 0 < u) (hu1 : u ≤ 1 / 16)
    (heps0 : 0 ≤ epsf) (heps1 : epsf ≤ 1 / 16)
    (h1 : |d1| ≤ u) (h2 : |d2| ≤ u) (h3 : |d3| ≤ u) (h4 : |d4| ≤ u) (h5 : |d5| ≤ u) (h6 : |d6| ≤ u)
    (hm1 : 1 < m) (hm2 : m ≤ 2) (hx0 : 0 ≤ x) (hxm : x ≤ m) :
    0 ≤ x - ((((m - 1) / (m * m * (1 + d1)) * (1 + d2)) + ((m - 1) / (m * m * (1 + d1)) * (1 + d2)) * epsf * (1 + d4)) *
          (1 + d3) * x * (1 + d5)) * x * (1 + d6) := by
  obtain ⟨a1, b1⟩ := abs_le.mp h1
  obtain ⟨a2, b2⟩ := abs_le.mp h2
  obtain ⟨a3, b3⟩ := abs_le.mp h3
  obtain ⟨a4, b4⟩ := abs_le.mp h4
  obtain ⟨a5, b5⟩ := abs_le.mp h5
  obtain ⟨a6, b6⟩ := abs_le.mp h6
  have hd1 : 0 < 1 + d1 := by linarith
  have hmpos : 0 < m := by linarith
  have hmm : 0 < m * m := mul_pos hmpos hmpos
  set Q : F := (1 + d2) * (1 + epsf * (1 + d4)) * (1 + d3) * (1 + d5) * (1 + d6) / (1 + d1) with hQ
  have ht2 : ((((m - 1) / (m * m * (1 + d1)) * (1 + d2)) + ((m - 1) / (m * m * (1 + d1)) * (1 + d2)) * epsf * (1 + d4)) *
          (1 + d3) * x * (1 + d5)) * x * (1 + d6) = (m - 1) / (m * m) * (x * x) * Q := by
    rw [hQ]; field_simp
  rw [ht2]
  -- Q ≤ 2
  have g2 : 0 ≤ 1 + d2 ∧ 1 + d2 ≤ 17 / 16 := ⟨by linarith, by linarith⟩
  have g3 : 0 ≤ 1 + d3 ∧ 1 + d3 ≤ 17 / 16 := ⟨by linarith, by linarith⟩
  have g5 : 0 ≤ 1 + d5 ∧ 1 + d5 ≤ 17 / 16 := ⟨by linarith, by linarith⟩
  have g6 : 0 ≤ 1 + d6 ∧ 1 + d6 ≤ 17 / 16 := ⟨by linarith, by linarith⟩
  have ge : 0 ≤ 1 + epsf * (1 + d4) ∧ 1 + epsf * (1 + d4) ≤ 9 / 8 := by
    have h0 : 0 ≤ epsf * (1 + d4) := mul_nonneg heps0 (by linarith)
    have h1' : epsf * (1 + d4) ≤ 1 / 16 * (17 / 16) := mul_le_mul heps1 (by linarith) (by linarith) (by norm_num)
    exact ⟨by linarith, by linarith⟩
  have n1 : (1 + d2) * (1 + epsf * (1 + d4)) ≤ 17 / 16 * (9 / 8) := mul_le_mul g2.2 ge.2 ge.1 (by norm_num)
  have z1 : 0 ≤ (1 + d2) * (1 + epsf * (1 + d4)) := mul_nonneg g2.1 ge.1
  have n2 : (1 + d2) * (1 + epsf * (1 + d4)) * (1 + d3) ≤ 17 / 16 * (9 / 8) * (17 / 16) := mul_le_mul n1 g3.2 g3.1 (by norm_num)
  have z2 : 0 ≤ (1 + d2) * (1 + epsf * (1 + d4)) * (1 + d3) := mul_nonneg z1 g3.1
  have n3 : (1 + d2) * (1 + epsf * (1 + d4)) * (1 + d3) * (1 + d5) ≤ 17 / 16 * (9 / 8) * (17 / 16) * (17 / 16) :=
    mul_le_mul n2 g5.2 g5.1 (by norm_num)
  have z3 : 0 ≤ (1 + d2) * (1 + epsf * (1 + d4)) * (1 + d3) * (1 + d5) := mul_nonneg z2 g5.1
  have n4 : (1 + d2) * (1 + epsf * (1 + d4)) * (1 + d3) * (1 + d5) * (1 + d6) ≤
      17 / 16 * (9 / 8) * (17 / 16) * (17 / 16) * (17 / 16) := mul_le_mul n3 g6.2 g6.1 (by norm_num)
  have hQ2 : Q ≤ 2 := by
    rw [hQ, div_le_iff₀ hd1]
    have : (2 : F) * (15 / 16) ≤ 2 * (1 + d1) := by linarith
    have c : (17 : F) / 16 * (9 / 8) * (17 / 16) * (17 / 16) * (17 / 16) ≤ 2 * (15 / 16) := by norm_num
    linarith
  have hQ0 : 0 ≤ Q := by rw [hQ]; exact div_nonneg (mul_nonneg z3 g6.1) (le_of_lt hd1)
  -- (m-1) x / m^2 ≤ 1/2
  have hk : (m - 1) / (m * m) * x ≤ 1 / 2 := by
    rw [div_mul_eq_mul_div, div_le_iff₀ hmm]
    have h' : (m - 1) * x ≤ (m - 1) * m := mul_le_mul_of_nonneg_left hxm (by linarith)
    have h'' : (m - 1) * m ≤ (1 / 2 * m) * m := mul_le_mul_of_nonneg_right (by linarith) (le_of_lt hmpos)
    have e' : (1 / 2 * m) * m = 1 / 2 * (m * m) := by ring
    linarith
  have hk0 : 0 ≤ (m - 1) / (m * m) * x := mul_nonneg (div_nonneg (by linarith) (le_of_lt hmm)) hx0
  have e : (m - 1) / (m * m) * (x * x) * Q = x * ((m - 1) / (m * m) * x * Q) := by ring
  rw [e]
  have : (m - 1) / (m * m) * x * Q ≤ 1 / 2 * 2 := mul_le_mul hk hQ2 hQ0 (by norm_num)
  have hx1 : x * ((m - 1) / (m * m) * x * Q) ≤ x * 1 := mul_le_mul_of_nonneg_left (by linarith) hx0
  linarith

/-! ### link to the transcription: the excursion branch under a rounded `ClipOps` instance -/

/-- Rounded arithmetic in the standard model: each operation returns the exact result times `(1+δ)`, `|δ| ≤ u`. -/
structure RoundedArith (F : Type) [Field F] [LinearOrder F] [IsStrictOrderedRing F] (u : F) where
  radd : F → F → F
  rsub : F → F → F
  rmul : F → F → F
  rdiv : F → F → F
  add_spec : ∀ a b, ∃ d, |d| ≤ u ∧ radd a b = (a + b) * (1 + d)
  mul_spec : ∀ a b, ∃ d, |d| ≤ u ∧ rmul a b = (a * b) * (1 + d)
  div_spec : ∀ a b, ∃ d, |d| ≤ u ∧ rdiv a b = (a / b) * (1 + d)

/-- `ClipOps` whose + - * / are the rounded operations (negation, fabs, comparisons and constants are exact). -/
@[reducible] def roundedOps {u : F} (R : RoundedArith F u) (epsf : F) : ClipOps F where
  add := R.radd
  sub := R.rsub
  mul := R.rmul
  div := R.rdiv
  neg := (- ·)
  zero := 0
  one := 1
  two := 2
  eps := epsf
  abs := fun v => |v|
  ltb := fun a b => decide (a < b)
  leb := fun a b => decide (a ≤ b)
  ofNat := fun n => (n : F)

/-- **Linking lemma.**  For a positive excursion (`0 < xi`), what the transcription's excursion branch computes
    for a sample `x` with peak `m` — `nl (coefA m xi) x` in the instance `roundedOps R epsf` — is
    `(x - t2)·(1+δ7)` where `t2` is exactly the expression of `rounded_excursion_upper/lower` for some
    `|δ1..δ7| ≤ u`, provided `m - 1` is computed exactly (Sterbenz: `1 < m ≤ 2`). -/
theorem nl_coefA_rounded {u : F} (R : RoundedArith F u) (epsf m xi x : F) (hxi : 0 < xi) (hsub : R.rsub m 1 = m - 1) :
    ∃ d1 d2 d3 d4 d5 d6 d7 : F, |d1| ≤ u ∧ |d2| ≤ u ∧ |d3| ≤ u ∧ |d4| ≤ u ∧ |d5| ≤ u ∧ |d6| ≤ u ∧ |d7| ≤ u ∧
      @nl F (roundedOps R epsf) (@coefA F (roundedOps R epsf) m xi) x =
        (x - ((((m - 1) / (m * m * (1 + d1)) * (1 + d2)) + ((m - 1) / (m * m * (1 + d1)) * (1 + d2)) * epsf * (1 + d4)) *
          (1 + d3) * x * (1 + d5)) * x * (1 + d6)) * (1 + d7) := by
  obtain ⟨d1, h1, e1⟩ := R.mul_spec m m
  obtain ⟨d2, h2, e2⟩ := R.div_spec (m - 1) (R.rmul m m)
  obtain ⟨d4, h4, e4⟩ := R.mul_spec (R.rdiv (m - 1) (R.rmul m m)) epsf
  obtain ⟨d3, h3, e3⟩ := R.add_spec (R.rdiv (m - 1) (R.rmul m m)) (R.rmul (R.rdiv (m - 1) (R.rmul m m)) epsf)
  obtain ⟨a', ha'⟩ : ∃ a' : F, a' = R.radd (R.rdiv (m - 1) (R.rmul m m)) (R.rmul (R.rdiv (m - 1) (R.rmul m m)) epsf) := ⟨_, rfl⟩
  obtain ⟨d5, h5, e5⟩ := R.mul_spec (-a') x
  obtain ⟨d6, h6, e6⟩ := R.mul_spec (R.rmul (-a') x) x
  obtain ⟨d7, h7, e7⟩ := R.add_spec x (R.rmul (R.rmul (-a') x) x)
  refine ⟨d1, d2, d3, d4, d5, d6, d7, h1, h2, h3, h4, h5, h6, h7, ?_⟩
  have hcoef : @coefA F (roundedOps R epsf) m xi = -a' := by
    show (if decide ((0 : F) < xi) then -(R.radd (R.rdiv (R.rsub m 1) (R.rmul m m)) (R.rmul (R.rdiv (R.rsub m 1) (R.rmul m m)) epsf))
          else R.radd (R.rdiv (R.rsub m 1) (R.rmul m m)) (R.rmul (R.rdiv (R.rsub m 1) (R.rmul m m)) epsf)) = -a'
    rw [hsub, ← ha']; simp only [hxi, decide_true, if_true]
  have hnl : @nl F (roundedOps R epsf) (-a') x = R.radd x (R.rmul (R.rmul (-a') x) x) := rfl
  have hval : a' = ((m - 1) / (m * m * (1 + d1)) * (1 + d2) + (m - 1) / (m * m * (1 + d1)) * (1 + d2) * epsf * (1 + d4)) * (1 + d3) := by
    rw [ha', e3, e4, e2, e1]
  rw [hcoef, hnl, e7, e6, e5, hval]
  ring

end Opus.SoftClip
