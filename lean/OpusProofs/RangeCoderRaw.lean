import OpusProofs.RangeCoderEnc
/-
  OpusProofs.RangeCoderRaw — C08 Stage C, encoder side of the raw-bit queue that grows from
  the end of the buffer (`ec_enc_bits`, the flush loops of `ec_enc_bits` / `ec_enc_done`).

  `tailVal B S n` is the little-endian value of the last `n` bytes of the `S`-byte buffer
  (byte `j` from the end has weight `256^j`); the raw bits written so far are
  `rawQ c w = tailVal c.buf c.storage c.endOffs + w * 256^c.endOffs` (`w` the window), and
  there are `8*c.endOffs + used` of them.
-/
namespace Opus.RangeCoder

theorem getD_set (l : List Nat) (i j v : Nat) :
    (l.set i v).getD j 0 = if i = j ∧ i < l.length then v else l.getD j 0 := by
  simp only [List.getD_eq_getElem?_getD, List.getElem?_set]
  by_cases h : i = j
  · subst h
    by_cases h2 : i < l.length
    · simp [h2]
    · simp [h2]
  · simp [h]

theorem getD_lt_of_bytesOk {B : List Nat} (hB : BytesOk B) (i : Nat) : B.getD i 0 < 256 := by
  by_cases h : i < B.length
  · have : B.getD i 0 = B[i] := by simp [List.getD_eq_getElem?_getD, h]
    rw [this]; exact hB _ (List.getElem_mem h)
  · have : B.getD i 0 = 0 := by
      rw [List.getD_eq_getElem?_getD, List.getElem?_eq_none (by omega)]; rfl
    omega

theorem getD_of_drop_eq {l m : List Nat} {o : Nat} (h : l.drop o = m.drop o) (i : Nat) (hi : o ≤ i) :
    l.getD i 0 = m.getD i 0 := by
  have e1 : l.getD i 0 = (l.drop o).getD (i - o) 0 := by
    simp only [List.getD_eq_getElem?_getD, List.getElem?_drop]; congr 2; omega
  have e2 : m.getD i 0 = (m.drop o).getD (i - o) 0 := by
    simp only [List.getD_eq_getElem?_getD, List.getElem?_drop]; congr 2; omega
  rw [e1, e2, h]

theorem getD_of_take_eq {l m : List Nat} {o : Nat} (h : l.take o = m.take o) (i : Nat) (hi : i < o) :
    l.getD i 0 = m.getD i 0 := by
  have e1 : l.getD i 0 = (l.take o).getD i 0 := by
    simp only [List.getD_eq_getElem?_getD, List.getElem?_take, hi, if_true]
  have e2 : m.getD i 0 = (m.take o).getD i 0 := by
    simp only [List.getD_eq_getElem?_getD, List.getElem?_take, hi, if_true]
  rw [e1, e2, h]

/-- Byte `j` counted from the end of the `S`-byte buffer; 0 past the front
    (`ec_read_byte_from_end`, entdec.c:95-98). -/
def endByte (B : List Nat) (S j : Nat) : Nat := if j < S then B.getD (S - 1 - j) 0 else 0

/-- Little-endian value of the last `n` bytes. -/
def tailVal (B : List Nat) (S : Nat) : Nat → Nat
  | 0 => 0
  | n + 1 => tailVal B S n + endByte B S n * 256 ^ n

theorem tailVal_congr {B B' : List Nat} {S S' : Nat} : ∀ (n : Nat),
    (∀ j, j < n → endByte B S j = endByte B' S' j) → tailVal B S n = tailVal B' S' n
  | 0, _ => rfl
  | n + 1, h => by
    simp only [tailVal]
    rw [tailVal_congr n (fun j hj => h j (by omega)), h n (by omega)]

theorem tailVal_lt {B : List Nat} {S : Nat} : ∀ (n : Nat), (∀ j, j < n → endByte B S j < 256) →
    tailVal B S n < 256 ^ n
  | 0, _ => by simp [tailVal]
  | n + 1, h => by
    simp only [tailVal, Nat.pow_succ]
    have h1 := tailVal_lt n (fun j hj => h j (by omega))
    have h2 := h n (by omega)
    have : endByte B S n * 256 ^ n + 256 ^ n ≤ 256 * 256 ^ n := by
      rw [← Nat.succ_mul]; exact Nat.mul_le_mul_right _ h2
    omega

theorem endByte_lt {B : List Nat} (hB : BytesOk B) (S j : Nat) : endByte B S j < 256 := by
  unfold endByte; split
  · exact getD_lt_of_bytesOk hB _
  · omega

theorem two_pow_8mul (a b : Nat) : 2 ^ (a + 8 * b) = 2 ^ a * 256 ^ b := by
  rw [Nat.pow_add, Nat.pow_mul]

theorem add_mul_mod_lt {a b P X : Nat} (ha : a < P) (hX : 0 < X) : (a + b * P) % (X * P) = a + b % X * P := by
  have hb : b = X * (b / X) + b % X := (Nat.div_add_mod b X).symm
  have hr : b % X < X := Nat.mod_lt _ hX
  have e : a + b * P = (a + b % X * P) + (X * P) * (b / X) := by
    conv => lhs; rw [hb]
    rw [Nat.add_mul, Nat.mul_assoc, Nat.mul_assoc, Nat.mul_comm (b / X) P, ← Nat.mul_assoc X P]
    omega
  rw [e, Nat.add_mul_mod_self_left]
  apply Nat.mod_eq_of_lt
  have : (b % X + 1) * P ≤ X * P := Nat.mul_le_mul_right _ hr
  rw [Nat.add_mul] at this
  omega

theorem tailVal_split (B : List Nat) (S n : Nat) : ∀ m, ∃ K, tailVal B S (n + m) = tailVal B S n + 256 ^ n * K
  | 0 => ⟨0, by simp⟩
  | m + 1 => by
    obtain ⟨K, hK⟩ := tailVal_split B S n m
    refine ⟨K + endByte B S (n + m) * 256 ^ m, ?_⟩
    rw [← Nat.add_assoc, tailVal, hK, Nat.pow_add, Nat.mul_add]
    rw [Nat.mul_comm (endByte B S (n + m)) (256 ^ n * 256 ^ m), Nat.mul_assoc, Nat.mul_comm (256 ^ m)]
    omega

theorem tailVal_low {B : List Nat} {S : Nat} (hB : ∀ j, endByte B S j < 256) (n m : Nat) :
    tailVal B S (n + m) % 256 ^ n = tailVal B S n := by
  obtain ⟨K, hK⟩ := tailVal_split B S n m
  rw [hK, Nat.add_mul_mod_self_left]
  exact Nat.mod_eq_of_lt (tailVal_lt n (fun j _ => hB j))

theorem tailVal_succ_mod {B : List Nat} {S : Nat} (hB : ∀ j, endByte B S j < 256) (n m u : Nat) (hu : u ≤ 8) :
    tailVal B S (n + 1 + m) % (2 ^ u * 256 ^ n) = tailVal B S n + endByte B S n % 2 ^ u * 256 ^ n := by
  obtain ⟨K, hK⟩ := tailVal_split B S (n + 1) m
  have e8 : (256 : Nat) = 2 ^ u * 2 ^ (8 - u) := by
    rw [← Nat.pow_add]; have : u + (8 - u) = 8 := by omega
    rw [this]
  have e : 256 ^ (n + 1) * K = (2 ^ u * 256 ^ n) * (2 ^ (8 - u) * K) := by
    rw [Nat.pow_succ]
    generalize 256 ^ n = P
    generalize 2 ^ u = X at e8 ⊢
    generalize 2 ^ (8 - u) = Y at e8 ⊢
    rw [e8]
    simp only [Nat.mul_assoc, Nat.mul_comm, Nat.mul_left_comm]
  rw [hK, e, Nat.add_mul_mod_self_left, tailVal]
  exact add_mul_mod_lt (tailVal_lt n (fun j _ => hB j)) (Nat.pow_pos (by decide))

/-- Raw bits written so far, with the window `w`. -/
def rawQ (c : Enc) (w : Nat) : Nat := tailVal c.buf c.storage c.endOffs + w * 256 ^ c.endOffs

/-- Well-formedness of the raw-bit window. -/
structure RawInv (c : Enc) : Prop where
  win_lt : c.endWindow < 2 ^ c.nendBits
  nend_le : c.nendBits ≤ 32

/-! ### `ec_write_byte_at_end` -/

theorem writeByteAtEnd_ok {c : Enc} {v : Nat} (h : (writeByteAtEnd c v).error = 0) :
    c.error = 0 ∧ c.offs + c.endOffs < c.storage := by
  unfold writeByteAtEnd at h
  split at h
  · simp at h
  · exact ⟨h, by omega⟩

theorem writeByteAtEnd_eq {c : Enc} (v : Nat) (h : c.offs + c.endOffs < c.storage) :
    writeByteAtEnd c v =
      { c with buf := c.buf.set (c.storage - (c.endOffs + 1)) (v % 256), endOffs := c.endOffs + 1 } := by
  unfold writeByteAtEnd; rw [if_neg (by omega)]

theorem writeByteAtEnd_error_mono {c : Enc} {v : Nat} (h : c.error ≠ 0) : (writeByteAtEnd c v).error ≠ 0 := by
  unfold writeByteAtEnd; split <;> simp [h]

/-- One successful write at the end moves the low byte of the window into the buffer. -/
theorem writeByteAtEnd_rawQ {c : Enc} (w : Nat) (h : c.offs + c.endOffs < c.storage)
    (hs : c.storage ≤ c.buf.length) :
    rawQ (writeByteAtEnd c (w % 256)) (w / 256) = rawQ c w := by
  rw [writeByteAtEnd_eq _ h]
  unfold rawQ
  simp only [tailVal, Nat.pow_succ]
  have e1 : tailVal (c.buf.set (c.storage - (c.endOffs + 1)) (w % 256 % 256)) c.storage c.endOffs =
      tailVal c.buf c.storage c.endOffs := by
    apply tailVal_congr
    intro j hj
    have hjS : j < c.storage := by omega
    simp only [endByte, hjS, if_true]
    rw [getD_set, if_neg (by omega)]
  have e2 : endByte (c.buf.set (c.storage - (c.endOffs + 1)) (w % 256 % 256)) c.storage c.endOffs = w % 256 := by
    unfold endByte
    rw [if_pos (by omega), getD_set, if_pos ⟨by omega, by omega⟩]
    omega
  rw [e1, e2]
  generalize 256 ^ c.endOffs = P
  have : w = w / 256 * 256 + w % 256 := by omega
  calc tailVal c.buf c.storage c.endOffs + w % 256 * P + w / 256 * (P * 256)
      = tailVal c.buf c.storage c.endOffs + (w / 256 * 256 + w % 256) * P := by
        rw [Nat.add_mul, Nat.mul_assoc, Nat.mul_comm 256 P]; omega
    _ = _ := by rw [← this]

/-! ### The flush loops -/

/-- `ec_enc_bits`' do-while loop is `ec_enc_done`'s while loop once it is entered. -/
theorem encBitsFlush_eq (c : Enc) (w u : Nat) (hu : 8 ≤ u) : encBitsFlush c w u = encDoneFlush c w u := by
  fun_induction encBitsFlush c w u with
  | case1 c w u c1 h ih =>
    rw [encDoneFlush, dif_pos hu]
    exact ih h
  | case2 c w u c1 h =>
    rw [encDoneFlush, dif_pos hu, encDoneFlush, dif_neg h]

theorem encDoneFlush_error_mono (c : Enc) (w u : Nat) (h : c.error ≠ 0) : (encDoneFlush c w u).1.error ≠ 0 := by
  fun_induction encDoneFlush c w u with
  | case1 c w u hu ih => exact ih (writeByteAtEnd_error_mono h)
  | case2 c w u hu => exact h

/-- Everything the proofs need about a successful byte flush of the raw-bit window. -/
theorem encDoneFlush_spec (c : Enc) (w u : Nat) (ho : c.offs + c.endOffs ≤ c.storage)
    (hs : c.storage ≤ c.buf.length) (herr : (encDoneFlush c w u).1.error = 0) :
    c.error = 0 ∧
    (encDoneFlush c w u).1 = { c with buf := (encDoneFlush c w u).1.buf, endOffs := c.endOffs + u / 8 } ∧
    (encDoneFlush c w u).2.1 = w / 256 ^ (u / 8) ∧ (encDoneFlush c w u).2.2 = u % 8 ∧
    rawQ (encDoneFlush c w u).1 (encDoneFlush c w u).2.1 = rawQ c w ∧
    c.offs + (c.endOffs + u / 8) ≤ c.storage ∧
    (encDoneFlush c w u).1.buf.length = c.buf.length ∧
    (∀ i, i < c.storage - (c.endOffs + u / 8) → (encDoneFlush c w u).1.buf.getD i 0 = c.buf.getD i 0) ∧
    (∀ i, c.storage - c.endOffs ≤ i → (encDoneFlush c w u).1.buf.getD i 0 = c.buf.getD i 0) := by
  fun_induction encDoneFlush c w u with
  | case1 c w u h ih =>
    have h8 : u / 8 = (u - 8) / 8 + 1 := by omega
    have herr1 : (writeByteAtEnd c (w % 256)).error = 0 := by
      apply Classical.byContradiction; intro hne
      exact encDoneFlush_error_mono _ _ _ hne herr
    obtain ⟨k0, kg⟩ := writeByteAtEnd_ok herr1
    have heq := writeByteAtEnd_eq (c := c) (w % 256) kg
    have ho1 : (writeByteAtEnd c (w % 256)).offs + (writeByteAtEnd c (w % 256)).endOffs ≤
        (writeByteAtEnd c (w % 256)).storage := by rw [heq]; simp only; omega
    have hs1 : (writeByteAtEnd c (w % 256)).storage ≤ (writeByteAtEnd c (w % 256)).buf.length := by
      simpa using hs
    obtain ⟨_, i1, i2, i3, i4, i5, i6, i7, i8⟩ := ih ho1 hs1 herr
    have hq := writeByteAtEnd_rawQ (c := c) w kg hs
    refine ⟨k0, ?_, ?_, ?_, ?_, ?_, ?_, ?_, ?_⟩
    · rw [i1, heq]; simp only; rw [h8]
      apply ctx_eq <;> simp only <;> omega
    · rw [i2, h8, Nat.pow_succ, Nat.div_div_eq_div_mul, Nat.mul_comm]
    · rw [i3]; omega
    · rw [i4, hq]
    · rw [heq] at i5; simp only at i5; omega
    · rw [i6]; simp
    · intro i hi
      rw [i7 i (by rw [heq]; simp only; omega), heq]; simp only
      rw [getD_set, if_neg (by omega)]
    · intro i hi
      rw [i8 i (by rw [heq]; simp only; omega), heq]; simp only
      rw [getD_set, if_neg (by omega)]
  | case2 c w u h =>
    have e0 : u / 8 = 0 := by omega
    rw [e0]
    refine ⟨herr, ?_, by simp, by simp only; omega, by simp, by simpa using ho, rfl, fun _ _ => rfl, fun _ _ => rfl⟩
    simp

/-! ### `ec_enc_bits` -/

/-- Number of raw bits written so far. -/
def rawN (c : Enc) : Nat := 8 * c.endOffs + c.nendBits

theorem or_shift (w v u : Nat) (h : w < 2 ^ u) : w ||| v <<< u = w + v * 2 ^ u := by
  rw [Nat.or_comm, ← Nat.shiftLeft_add_eq_or_of_lt h, Nat.shiftLeft_eq, Nat.add_comm]

theorem window_bound {w v u n : Nat} (hw : w < 2 ^ u) (hv : v < 2 ^ n) : w + v * 2 ^ u < 2 ^ (u + n) := by
  rw [Nat.pow_add]
  have : (v + 1) * 2 ^ u ≤ 2 ^ n * 2 ^ u := Nat.mul_le_mul_right _ hv
  rw [Nat.add_mul, Nat.mul_comm (2 ^ n)] at this
  omega

/-- Successful `ec_enc_bits`: the value is appended to the raw-bit queue. -/
theorem encBits_spec (c : Enc) (v n : Nat) (ri : RawInv c) (hn2 : n ≤ 25) (hv : v < 2 ^ n)
    (ho : c.offs + c.endOffs ≤ c.storage) (hs : c.storage ≤ c.buf.length)
    (herr : (encBits c v n).error = 0) :
    c.error = 0 ∧ RawInv (encBits c v n) ∧
    rawQ (encBits c v n) (encBits c v n).endWindow = rawQ c c.endWindow + v * 2 ^ rawN c ∧
    rawN (encBits c v n) = rawN c + n ∧
    encBits c v n = { c with buf := (encBits c v n).buf, endOffs := (encBits c v n).endOffs,
                             endWindow := (encBits c v n).endWindow, nendBits := (encBits c v n).nendBits,
                             nbitsTotal := c.nbitsTotal + n } ∧
    c.endOffs ≤ (encBits c v n).endOffs ∧
    c.offs + (encBits c v n).endOffs ≤ c.storage ∧
    (encBits c v n).buf.length = c.buf.length ∧
    (∀ i, i < c.storage - (encBits c v n).endOffs → (encBits c v n).buf.getD i 0 = c.buf.getD i 0) ∧
    (∀ i, c.storage - c.endOffs ≤ i → (encBits c v n).buf.getD i 0 = c.buf.getD i 0) := by
  obtain ⟨rw_, rn⟩ := ri
  by_cases hf : c.nendBits + n > 32
  · have hu8 : 8 ≤ c.nendBits := by omega
    have est : (if c.nendBits + n > 32 then encBitsFlush c c.endWindow c.nendBits
        else (c, c.endWindow, c.nendBits)) = encDoneFlush c c.endWindow c.nendBits := by
      rw [if_pos hf, encBitsFlush_eq _ _ _ hu8]
    have heq : encBits c v n =
        { (encDoneFlush c c.endWindow c.nendBits).1 with
          endWindow := (encDoneFlush c c.endWindow c.nendBits).2.1 |||
            u32 (v <<< (encDoneFlush c c.endWindow c.nendBits).2.2),
          nendBits := (encDoneFlush c c.endWindow c.nendBits).2.2 + n,
          nbitsTotal := (encDoneFlush c c.endWindow c.nendBits).1.nbitsTotal + n } := by
      unfold encBits; simp only [est]
    rw [heq] at herr ⊢
    obtain ⟨k0, k1, k2, k3, k4, k5, k6, k7, k8⟩ := encDoneFlush_spec c c.endWindow c.nendBits ho hs herr
    generalize encDoneFlush c c.endWindow c.nendBits = st at *
    obtain ⟨c1, w1, u1⟩ := st
    simp only at k1 k2 k3 k4 k5 k6 k7 k8 herr ⊢
    subst k2 k3
    have hw1 : c.endWindow / 256 ^ (c.nendBits / 8) < 2 ^ (c.nendBits % 8) := by
      rw [Nat.div_lt_iff_lt_mul (Nat.pow_pos (by decide)), ← two_pow_8mul]
      have : c.nendBits % 8 + 8 * (c.nendBits / 8) = c.nendBits := by omega
      rw [this]; exact rw_
    have hsh : v <<< (c.nendBits % 8) < 4294967296 := by
      rw [Nat.shiftLeft_eq]
      have := window_bound (w := 0) (u := c.nendBits % 8) (Nat.pow_pos (by decide)) hv
      have h2 : 2 ^ (c.nendBits % 8 + n) ≤ 2 ^ 32 := Nat.pow_le_pow_right (by decide) (by omega)
      omega
    rw [u32_of_lt hsh, or_shift _ _ _ hw1]
    have e1 : c1.endOffs = c.endOffs + c.nendBits / 8 := by rw [k1]
    have e2 : c1.storage = c.storage := by rw [k1]
    have e3 : c1.nbitsTotal = c.nbitsTotal := by rw [k1]
    refine ⟨k0, ⟨?_, by simp only; omega⟩, ?_, ?_, ?_, by omega, by omega, k6, ?_, ?_⟩
    · exact window_bound hw1 hv
    · unfold rawQ at k4 ⊢
      simp only [e1, e2] at k4 ⊢
      rw [Nat.add_mul, ← Nat.add_assoc, k4]
      unfold rawN
      have : 8 * c.endOffs + c.nendBits = c.nendBits % 8 + 8 * (c.endOffs + c.nendBits / 8) := by omega
      rw [this, two_pow_8mul, Nat.mul_assoc]
    · unfold rawN; simp only [e1]; omega
    · rw [k1]
    · intro i hi; exact k7 i (by simp only [e1] at hi; exact hi)
    · intro i hi; exact k8 i hi
  · have heq : encBits c v n =
        { c with endWindow := c.endWindow ||| u32 (v <<< c.nendBits), nendBits := c.nendBits + n,
                 nbitsTotal := c.nbitsTotal + n } := by
      unfold encBits; simp only [if_neg hf]
    rw [heq] at herr ⊢
    have hsh : v <<< c.nendBits < 4294967296 := by
      rw [Nat.shiftLeft_eq]
      have := window_bound (w := 0) (u := c.nendBits) (Nat.pow_pos (by decide)) hv
      have h2 : 2 ^ (c.nendBits + n) ≤ 2 ^ 32 := Nat.pow_le_pow_right (by decide) (by omega)
      omega
    rw [u32_of_lt hsh, or_shift _ _ _ rw_]
    refine ⟨herr, ⟨window_bound rw_ hv, by simp only; omega⟩, ?_, ?_, rfl, Nat.le_refl _, ho, rfl,
      fun _ _ => rfl, fun _ _ => rfl⟩
    · unfold rawQ rawN
      simp only
      rw [Nat.add_mul, ← Nat.add_assoc]
      have : 8 * c.endOffs + c.nendBits = c.nendBits + 8 * c.endOffs := by omega
      rw [this, two_pow_8mul, Nat.mul_assoc]
    · unfold rawN; simp only; omega

/-! ### Predicates preserved by the output helpers (no success assumption) -/

theorem flushExt_pres (P : Enc → Prop) (hw : ∀ c v, P c → P (writeByte c v))
    (he : ∀ (c : Enc) n, P c → P { c with ext := n }) (sym : Nat) :
    ∀ (n : Nat) (c : Enc), P c → P (flushExt sym n c)
  | 0, _, h => h
  | n + 1, c, h => by unfold flushExt; exact flushExt_pres P hw he sym n _ (he _ _ (hw _ _ h))

theorem carryOut_pres (P : Enc → Prop) (hw : ∀ c v, P c → P (writeByte c v))
    (he : ∀ (c : Enc) n, P c → P { c with ext := n }) (hr : ∀ (c : Enc) r, P c → P { c with rem := r })
    (c : Enc) (cc : Nat) (h : P c) : P (carryOut c cc) := by
  unfold carryOut
  split
  · apply hr
    have h1 : P (if c.rem ≥ 0 then writeByte c (c.rem.toNat + cc / 256) else c) := by
      split
      · exact hw _ _ h
      · exact h
    generalize (if c.rem ≥ 0 then writeByte c (c.rem.toNat + cc / 256) else c) = c1 at h1
    split
    · exact flushExt_pres P hw he _ _ _ h1
    · exact h1
  · exact he _ _ h

theorem encNormalize_pres (P : Enc → Prop) (hw : ∀ c v, P c → P (writeByte c v))
    (he : ∀ (c : Enc) n, P c → P { c with ext := n }) (hr : ∀ (c : Enc) r, P c → P { c with rem := r })
    (hv : ∀ (c : Enc) v r n, P c → P { c with val := v, rng := r, nbitsTotal := n })
    (c : Enc) (h : P c) : P (encNormalize c) := by
  fun_induction encNormalize c with
  | case1 c hc c1 ih => exact ih (hv _ _ _ _ (carryOut_pres P hw he hr c _ h))
  | case2 c hc => exact h

theorem encDoneOut_pres (P : Enc → Prop) (hw : ∀ c v, P c → P (writeByte c v))
    (he : ∀ (c : Enc) n, P c → P { c with ext := n }) (hr : ∀ (c : Enc) r, P c → P { c with rem := r })
    (c : Enc) (end_ : Nat) (l : Int) (h : P c) : P (encDoneOut c end_ l).1 := by
  fun_induction encDoneOut c end_ l with
  | case1 c end_ l hl ih => exact ih (carryOut_pres P hw he hr c _ h)
  | case2 c end_ l hl => exact h

theorem encDoneFlush_pres (P : Enc → Prop) (hw : ∀ c v, P c → P (writeByteAtEnd c v))
    (c : Enc) (w u : Nat) (h : P c) : P (encDoneFlush c w u).1 := by
  fun_induction encDoneFlush c w u with
  | case1 c w u hu ih => exact ih (hw _ _ h)
  | case2 c w u hu => exact h

theorem bytesOk_set {l : List Nat} (h : BytesOk l) (i v : Nat) (hv : v < 256) : BytesOk (l.set i v) := by
  intro b hb
  rcases List.mem_or_eq_of_mem_set hb with h1 | h1
  · exact h b h1
  · omega

theorem writeByte_bytesOk (c : Enc) (v : Nat) (h : BytesOk c.buf) : BytesOk (writeByte c v).buf := by
  unfold writeByte; split
  · exact h
  · exact bytesOk_set h _ _ (Nat.mod_lt _ (by decide))

theorem writeByteAtEnd_bytesOk (c : Enc) (v : Nat) (h : BytesOk c.buf) : BytesOk (writeByteAtEnd c v).buf := by
  unfold writeByteAtEnd; split
  · exact h
  · exact bytesOk_set h _ _ (Nat.mod_lt _ (by decide))

theorem carryOut_bytesOk (c : Enc) (cc : Nat) (h : BytesOk c.buf) : BytesOk (carryOut c cc).buf :=
  carryOut_pres (fun c => BytesOk c.buf) writeByte_bytesOk (fun _ _ h => h) (fun _ _ h => h) c cc h

theorem encNormalize_bytesOk (c : Enc) (h : BytesOk c.buf) : BytesOk (encNormalize c).buf :=
  encNormalize_pres (fun c => BytesOk c.buf) writeByte_bytesOk (fun _ _ h => h) (fun _ _ h => h)
    (fun _ _ _ _ h => h) c h

end Opus.RangeCoder
