import OpusModel.Layout
import Mathlib.Tactic.Ring
import Mathlib.Tactic.Linarith
/-
  OpusProofs.LayoutIsqrt — `isqrt32` (celt/mathops.c:45-68) is the integer square root on its whole
  domain `1 ≤ n < 2^32` (C10; used by `validate_ambisonics` and the projection encoder).
-/
namespace Opus.Layout

/-- Invariant of the bit-by-bit loop: with `n = g² + val` and `n < (g + 2^k)²`, the result `r`
    satisfies `r² ≤ n < (r+1)²`. -/
theorem isqrtLoop_spec : ∀ (k g val : Nat), val < 2 * g * 2 ^ k + 2 ^ k * 2 ^ k →
    isqrtLoop k g val * isqrtLoop k g val ≤ g * g + val ∧
    g * g + val < (isqrtLoop k g val + 1) * (isqrtLoop k g val + 1)
  | 0, g, val, h => by
    simp only [isqrtLoop]
    simp only [pow_zero, mul_one] at h
    constructor
    · omega
    · nlinarith
  | k + 1, g, val, h => by
    simp only [isqrtLoop]
    have hp : 2 ^ (k + 1) = 2 * 2 ^ k := by ring
    rw [hp] at h
    obtain ⟨P, hP⟩ : ∃ P, P = 2 ^ k := ⟨_, rfl⟩
    rw [← hP] at h ⊢
    split
    · rename_i ht
      obtain ⟨v, rfl⟩ : ∃ v, val = (2 * g + P) * P + v := ⟨val - (2 * g + P) * P, by omega⟩
      have hsub : (2 * g + P) * P + v - (2 * g + P) * P = v := by omega
      rw [hsub]
      have hv : v < 2 * (g + P) * P + P * P := by nlinarith
      have ih := isqrtLoop_spec k (g + P) v (by rw [← hP]; exact hv)
      have e : (g + P) * (g + P) + v = g * g + ((2 * g + P) * P + v) := by ring
      rw [e] at ih
      exact ih
    · rename_i ht
      have hv : val < 2 * g * P + P * P := by nlinarith
      exact isqrtLoop_spec k g val (by rw [← hP]; exact hv)

/-- `ec_ilog` is the bit length. -/
theorem ilogAux_spec : ∀ (k v : Nat), v < 2 ^ k → v < 2 ^ ilogAux k v
  | 0, v, h => by simp only [ilogAux]; exact h
  | k + 1, v, h => by
    simp only [ilogAux]
    split
    · rename_i h0; subst h0; simp
    · have ih := ilogAux_spec k (v / 2) (by
        rw [Nat.div_lt_iff_lt_mul (by decide)]; rw [pow_succ] at h; exact h)
      rw [Nat.div_lt_iff_lt_mul (by decide)] at ih
      rw [Nat.add_comm, pow_succ]; exact ih

theorem ilogAux_pos (k v : Nat) (hv : 0 < v) (hk : 0 < k) : 1 ≤ ilogAux k v := by
  cases k with
  | zero => omega
  | succ k => simp only [ilogAux]; rw [if_neg (by omega)]; omega

/-- **`isqrt32` is the integer square root for every 32-bit argument ≥ 1.** -/
theorem isqrt32_correct (n : Nat) (h1 : 1 ≤ n) (h2 : n < 2 ^ 32) :
    isqrt32 n * isqrt32 n ≤ n ∧ n < (isqrt32 n + 1) * (isqrt32 n + 1) := by
  unfold isqrt32 ilog
  have hl := ilogAux_spec 32 n h2
  have hpos := ilogAux_pos 32 n (by omega) (by decide)
  generalize ilogAux 32 n = L at hl hpos
  have hK : L ≤ 2 * ((L - 1) / 2 + 1) := by omega
  have hlt : n < 2 ^ ((L - 1) / 2 + 1) * 2 ^ ((L - 1) / 2 + 1) := by
    rw [← pow_add, ← two_mul]
    exact Nat.lt_of_lt_of_le hl (Nat.pow_le_pow_right (by decide) hK)
  have := isqrtLoop_spec ((L - 1) / 2 + 1) 0 n (by simpa using hlt)
  simpa using this

end Opus.Layout
