import OpusProofs.RepackState
/-
  C07 helper lemmas, part 7: `opus_repacketizer_out_range_impl` as a whole (extension-free case).
-/
namespace Opus.RepackProofs
open Opus Opus.Framing Opus.FramingSpec Opus.FramingProofs Opus.Repack Opus.Ext

theorem selFrames_ok (rp : Rp) (hinv : Inv rp) (b e : Nat) (hb : b < e) (he : e ≤ rp.nbFrames) :
    FramesOk rp.toc (selFrames rp b e) ∧ (selFrames rp b e).length = e - b := by
  unfold Rp.nbFrames at he
  have hlen : (selFrames rp b e).length = e - b := by simp [selFrames]; omega
  have hne : rp.frames ≠ [] := by intro h; simp [h] at he; omega
  have hsub : ∀ f ∈ selFrames rp b e, f ∈ rp.frames := fun f hf =>
    List.mem_of_mem_drop (List.mem_of_mem_take hf)
  refine ⟨⟨hinv.toc_lt hne, ?_, fun f hf => hinv.le f (hsub f hf), ?_⟩, hlen⟩
  · intro h; rw [h] at hlen; simp at hlen; omega
  · rw [hlen, ← hinv.fs hne]
    exact Nat.le_trans (Nat.mul_le_mul_right _ (by omega)) hinv.dur

/-- Invalid ranges give `OPUS_BAD_ARG` (the state is not an output of the call at all). -/
theorem outRangeImpl_bad_arg (rp : Rp) (b e maxlen : Int) (sd pad : Bool) (exts : Array Ext)
    (h : b < 0 ∨ b ≥ e ∨ e > rp.nbFrames) : outRangeImpl rp b e maxlen sd pad exts = .err .badArg := by
  unfold outRangeImpl; rw [if_pos h]

/-- `out_range_impl` on a valid range without extensions: `BUFFER_TOO_SMALL` exactly when the
    minimal size exceeds `maxlen`, otherwise the serialisation of `outPacket`. -/
theorem outRangeImpl_noext (rp : Rp) (b e : Nat) (hb : b < e) (he : e ≤ rp.nbFrames)
    (hfree : ExtFree rp.pads) (maxlen : Int) (sd pad : Bool) :
    outRangeImpl rp b e maxlen sd pad #[] =
      if minSize sd ((selFrames rp b e).map List.length) > maxlen then .err .bufferTooSmall
      else .ok (serialize sd (outPacket rp.toc (selFrames rp b e) maxlen sd pad)) := by
  unfold outRangeImpl
  rw [if_neg (by omega)]
  simp only [Int.toNat_natCast]
  rw [gatherExts_free _ (extFree_take _ hfree e)]
  simp only []
  have hne : selFrames rp b e ≠ [] := by
    intro h
    have : (selFrames rp b e).length = e - b := by unfold Rp.nbFrames at he; simp [selFrames]; omega
    rw [h] at this; simp at this; omega
  exact emit_noext rp.toc _ hne maxlen sd pad

/-- The core of `out_roundtrip`: a successful output is the serialisation of a valid packet with
    exactly the selected frames and the stored configuration bits, of the announced size. -/
theorem outRangeImpl_ok (rp : Rp) (hinv : Inv rp) (b e : Nat) (hb : b < e) (he : e ≤ rp.nbFrames)
    (hfree : ExtFree rp.pads) (maxlen : Int) (sd pad : Bool) (bs : Bytes)
    (h : outRangeImpl rp b e maxlen sd pad #[] = .ok bs) :
    ∃ p, Valid p ∧ bs = serialize sd p ∧ p.frames = selFrames rp b e ∧ p.toc / 4 = rp.toc / 4 ∧
      minSize sd ((selFrames rp b e).map List.length) ≤ maxlen ∧
      (bs.length : Int) = (if pad then maxlen else minSize sd ((selFrames rp b e).map List.length)) := by
  rw [outRangeImpl_noext rp b e hb he hfree] at h
  split at h
  · simp at h
  · rename_i hfit
    simp only [Res.ok.injEq] at h
    obtain ⟨hok, _⟩ := selFrames_ok rp hinv b e hb he
    refine ⟨outPacket rp.toc (selFrames rp b e) maxlen sd pad, outPacket_valid _ _ hok _ _ _ (by omega), h.symm,
      outPacket_frames _ _ _ _ _, outPacket_toc _ _ _ _ _, by omega, ?_⟩
    rw [← h]
    exact outPacket_len _ _ hok.ne _ _ _ (by omega)

/-- …hence it parses back, with the parser of C06, to exactly the selected frames. -/
theorem parse_serialize_frames (sd : Bool) (p : Packet) (hv : Valid p) (rest : Bytes) (hrest : sd = false → rest = []) :
    parseImpl sd (serialize sd p ++ rest) = .ok (view sd p) ∧
    slices (serialize sd p ++ rest) (view sd p).payloadOffset (view sd p).sizes = p.frames := by
  refine ⟨parse_complete sd p hv rest hrest, ?_⟩
  simp only [view, Packet.lens]
  have : serialize sd p ++ rest = header sd p ++ p.frames.flatten ++ (padBytes p ++ rest) := by
    simp [serialize]
  rw [this]
  exact slices_spec _ _ _

end Opus.RepackProofs
