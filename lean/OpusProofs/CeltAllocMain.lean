import OpusProofs.CeltAllocTail
/-
  OpusProofs.CeltAllocMain — `clt_compute_allocation` is total on its domain, its outputs are in range, and every
  1/8 bit of the budget is accounted for.
-/
namespace OpusProofs.CeltAlloc
open Opus Opus.CeltAlloc
open Opus.Gen.CeltTables

/-! ## The state on entry to the band-skipping loop -/

theorem initBits_nonneg (F : Int) (hF : 0 ≤ F) : ∀ (l : List (Int × Int × Int)) (d : Bool),
    (∀ x ∈ l, 0 ≤ x.1 ∧ 0 ≤ x.2.2) → ∀ y ∈ initBits F l d, 0 ≤ y := by
  intro l
  induction l with
  | nil => intro d _ y hy; simp [initBits] at hy
  | cons x rest ih =>
    intro d h y hy
    obtain ⟨tmp, thresh, cap⟩ := x
    obtain ⟨h1, h2⟩ := h (tmp, thresh, cap) (by simp)
    simp only at h1 h2
    simp only [initBits] at hy
    split at hy
    · simp only [List.mem_cons] at hy
      rcases hy with rfl | hy
      · split <;> omega
      · exact ih false (fun x hx => h x (by simp [hx])) y hy
    · simp only [List.mem_cons] at hy
      rcases hy with rfl | hy
      · omega
      · exact ih true (fun x hx => h x (by simp [hx])) y hy

theorem trimmed_nonneg {x t : Int} (h : 0 ≤ x) : 0 ≤ trimmed x t := by
  unfold trimmed; split <;> omega

theorem entAt_nonneg {p : Inp} (hp : Dom p) (mid : Nat) : ∀ x ∈ entAt p mid, 0 ≤ x.1 ∧ 0 ≤ x.2.2 := by
  intro x hx
  rw [entAt_eq] at hx
  simp only [List.mem_map, List.mem_reverse] at hx
  obtain ⟨b, hb, rfl⟩ := hx
  obtain ⟨_, _, hbe⟩ := mem_bands hb
  have hoff : 0 ≤ b.off := by rw [hbe]; exact hp.offs _
  have hcap : 0 ≤ b.cap := by rw [hbe]; exact (hp.capB _).1
  refine ⟨?_, hcap⟩
  simp only [interpAt, interpPair]
  have hv : ∀ v, 0 ≤ trimmed (vecBits p v b) b.trim := fun v => trimmed_nonneg (by unfold vecBits; omega)
  have h1 : 0 ≤ (if lo1 p - 1 > 0 then trimmed (vecBits p (lo1 p - 1) b) b.trim + b.off
      else trimmed (vecBits p (lo1 p - 1) b) b.trim) := by
    have := hv (lo1 p - 1); split <;> omega
  generalize (if lo1 p - 1 > 0 then trimmed (vecBits p (lo1 p - 1) b) b.trim + b.off
      else trimmed (vecBits p (lo1 p - 1) b) b.trim) = b1 at *
  generalize (trimmed (if lo1 p ≥ nbAllocVectors then b.cap else vecBits p (lo1 p) b) b.trim + b.off - b1) = d
  have h2 : 0 ≤ (mid : Int) * max 0 d := Int.mul_nonneg (by omega) (by omega)
  have h3 : 0 ≤ (mid : Int) * max 0 d / 2 ^ ALLOC_STEPS := Int.ediv_nonneg h2 (by decide)
  omega

theorem bits0_length (p : Inp) : (bits0 p).length = (bands p).reverse.length := by
  unfold bits0
  rw [initBits_length, entAt_eq]; simp

theorem bits0_nonneg {p : Inp} (hp : Dom p) : ∀ y ∈ bits0 p, 0 ≤ y :=
  initBits_nonneg _ (Int.le_of_lt (floor_pos hp)) _ _ (entAt_nonneg hp _)

/-- the list the loop starts with: bands `end-1 … start` with their initial bits -/
def l0 (p : Inp) : List (Band × Int) := (bands p).reverse.zip (bits0 p)

theorem l0_fst (p : Inp) : (l0 p).map (·.1) = revBands p (p.end_ - p.start) := by
  unfold l0
  rw [zip_map_fst _ _ (bits0_length p).symm, bands_reverse]

theorem zip_mem_snd {α β : Type} : ∀ (l : List α) (m : List β) (x : α × β), x ∈ l.zip m → x.2 ∈ m := by
  intro l
  induction l with
  | nil => intro m x hx; simp at hx
  | cons a t ih =>
    intro m x hx
    cases m with
    | nil => simp at hx
    | cons b m =>
      simp only [List.zip_cons_cons, List.mem_cons] at hx ⊢
      rcases hx with rfl | hx
      · exact Or.inl rfl
      · exact Or.inr (ih m x hx)

theorem table_le : ∀ i, log2FracTable.getD i 0 ≤ 37 := by
  intro i
  by_cases h : i < 24
  · revert i; decide
  · have : log2FracTable.length = 24 := by decide
    simp [List.getD, List.getElem?_eq_none (by omega : log2FracTable.length ≤ i)]

theorem table_ge8 : ∀ i, i < 24 → 1 ≤ i → 8 ≤ log2FracTable.getD i 0 := by decide

/-- The reservations of `clt_compute_allocation` (rate.c:565-578), case by case. -/
theorem resv_facts (p : Inp) :
    (skipRsv p = 8 ∧ tot0 p ≥ 8 ∨ skipRsv p = 0 ∧ tot0 p < 8) ∧
    tot2 p = tot0 p - skipRsv p - irsv p ∧
    (irsv p = 0 ∨ (p.C = 2 ∧ irsv p = (log2FracTable.getD (p.end_ - p.start) 0 : Int) ∧ irsv p ≤ tot0 p - skipRsv p)) ∧
    (p.C = 2 → (log2FracTable.getD (p.end_ - p.start) 0 : Int) > tot0 p - skipRsv p → irsv p = 0) ∧
    (dsrsv p = 0 ∨ dsrsv p = 8 ∧ tot2 p ≥ 8) ∧ tot p = tot2 p - dsrsv p := by
  have hB : (2 : Int) ^ BITRES = 8 := by decide
  have hs : skipRsv p = 8 ∧ tot0 p ≥ 8 ∨ skipRsv p = 0 ∧ tot0 p < 8 := by
    unfold skipRsv; rw [hB]; split <;> omega
  have hd : dsrsv p = 0 ∨ dsrsv p = 8 ∧ tot2 p ≥ 8 := by
    unfold dsrsv; rw [hB]
    split
    · rename_i h; exact Or.inr ⟨rfl, h.2.2⟩
    · exact Or.inl rfl
  refine ⟨hs, ?_, ?_, ?_, hd, rfl⟩
  · unfold tot2 irsv tot1
    by_cases hC : p.C = 2
    · by_cases ht : irsvTab p > tot0 p - skipRsv p
      · simp only [hC, ht, true_and, not_true_eq_false, and_false, if_false, if_true]; omega
      · simp only [hC, ht, true_and, not_false_eq_true, and_true, if_false, if_true]
    · simp only [hC, false_and, if_false]
      unfold irsvTab; rw [if_neg hC]; omega
  · unfold irsv tot1 irsvTab
    by_cases hC : p.C = 2
    · simp only [hC, true_and, if_true]
      split
      · exact Or.inl rfl
      · exact Or.inr ⟨rfl, by omega⟩
    · simp only [hC, false_and, if_false]; exact Or.inl trivial
  · intro hC ht
    unfold irsv tot1 irsvTab
    simp only [hC, true_and, if_true]
    rw [if_pos ht]

theorem tot_le_tot0 (p : Inp) : tot p ≤ tot0 p ∧ tot0 p = tot p + skipRsv p + irsv p + dsrsv p := by
  obtain ⟨h1, h2, h3, _, h5, h6⟩ := resv_facts p
  have := table_le (p.end_ - p.start)
  omega

theorem irsv_facts {p : Inp} (hp : Dom p) :
    0 ≤ irsv p ∧ irsv p ≤ 37 ∧ (0 < irsv p → irsv p = (log2FracTable.getD (p.end_ - p.start) 0 : Int)) ∧
    (skipRsv p = 8 ∨ (skipRsv p = 0 ∧ irsv p = 0)) ∧ (skipRsv p = 0 → tot p < 8) ∧
    (dsrsv p = 0 ∨ dsrsv p = 8) := by
  obtain ⟨h1, h2, h3, h4, h5, h6⟩ := resv_facts p
  have h37 := table_le (p.end_ - p.start)
  have h8 := table_ge8 (p.end_ - p.start)
    (by have := hp.hse; have := hp.hend; have : nbEBands = 21 := rfl; omega) (by have := hp.hse; omega)
  refine ⟨by omega, by omega, fun h => by omega, ?_, by omega, by omega⟩
  rcases h1 with h1 | h1
  · exact Or.inl h1.1
  · refine Or.inr ⟨h1.1, ?_⟩
    rcases h3 with h3 | ⟨hC, h3, _⟩
    · exact h3
    · exact h4 hC (by omega)

theorem l0_inv {p : Inp} (hp : Dom p) : LoopInv p (irsv p) (l0 p) (sumInt (bits0 p)) (tot p) (irsv p) := by
  have h21 : nbEBands = 21 := rfl
  have hn : p.start + (p.end_ - p.start) ≤ 21 := by have := hp.hse; have := hp.hend; omega
  obtain ⟨f1, f2, f3⟩ := revBands_facts p (p.end_ - p.start) hn
  obtain ⟨i0, i37, ihd, _, _, _⟩ := irsv_facts hp
  obtain ⟨m, hm⟩ : ∃ m, p.end_ - p.start = m + 1 := ⟨p.end_ - p.start - 1, by have := hp.hse; omega⟩
  have hlen := bits0_length p
  rw [bands_reverse, hm] at hlen
  -- the head of the list
  have hhead : ∀ x, (l0 p).head? = some x → x.1 = mkBand p (p.start + m) := by
    intro x hx
    have : ((l0 p).map (·.1)).head? = some x.1 := by rw [List.head?_map, hx]; rfl
    rw [l0_fst, hm] at this
    simp only [revBands, List.head?_cons, Option.some.injEq] at this
    exact this.symm
  refine ⟨by unfold Desc; rw [l0_fst]; exact f1, ?_, ?_, bits0_sum_le hp, ?_, ?_, ⟨i0, Int.le_refl _, by omega⟩,
    fun h => h, ?_, ?_⟩
  · intro x hx
    have : x.1 ∈ (l0 p).map (·.1) := List.mem_map_of_mem hx
    rw [l0_fst] at this
    obtain ⟨a, b, c, _⟩ := f3 x.1 this
    exact ⟨a, by omega, c⟩
  · intro x hx
    exact bits0_nonneg hp x.2 (zip_mem_snd _ _ x hx)
  · have := (tot_le_tot0 p).1
    have := hp.totB
    unfold tot0 at *
    omega
  · unfold l0
    rw [sumBits_zip _ _ (bits0_length p).symm]
    omega
  · intro hpos x hx
    rw [hhead x hx, ihd hpos]
    simp only [mkBand]
    congr 2; omega
  · intro x hx
    rw [sumW_eq, l0_fst, f2, hhead x hx]
    obtain ⟨_, _, _, e4⟩ := mkBand_edges p (p.start + m) (by omega) (by omega)
    rw [e4]; congr 2; omega

theorem l0_hex {p : Inp} (hp : Dom p) : ∃ x ∈ l0 p, x.1.j ≤ skipStart p.start (bands p) := by
  have hmem : mkBand p p.start ∈ (l0 p).map (·.1) := by
    rw [l0_fst, ← bands_reverse]; simp only [List.mem_reverse]; exact first_band_mem hp.hse
  simp only [List.mem_map] at hmem
  obtain ⟨x, hx, he⟩ := hmem
  refine ⟨x, hx, ?_⟩
  rw [he]
  exact skipStart_ge _ _ (fun b hb => (mem_bands hb).1)

end OpusProofs.CeltAlloc
