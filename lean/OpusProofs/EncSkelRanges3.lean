import OpusProofs.EncSkelRanges2
/-
  OpusProofs.EncSkelRanges3 — "no 32-bit overflow", part 3: `compute_redundancy_bytes`, `bytes_target` /
  `total_bitRate` (:1867, :1952) with the bound on `bitrate_bps*frame_size` that the sizing stage establishes,
  `max_len_sum` (:1681) and `curr_max` (:1709-1716).
-/
namespace Opus.EncSkel.Proofs
open Opus Opus.EncDecide Opus.EncSkel

/-! ### `compute_redundancy_bytes` -/

theorem rbTrace_last (m br fr ch : Int) :
    (rbTrace m br fr ch).getLast? = some (computeRedundancyBytes m br fr ch) := by
  simp [rbTrace]

theorem rbTrace_fits (m br fr ch : Int) (hm : 1 ≤ m ∧ m ≤ 1276) (hb : 0 ≤ br ∧ br ≤ 4083200)
    (hfr : 8 ≤ fr ∧ fr ≤ 400) (hch : 1 ≤ ch ∧ ch ≤ 2) :
    (∀ x ∈ rbTrace m br fr ch, Fits32 x) ∧ 0 ≤ computeRedundancyBytes m br fr ch ∧
    computeRedundancyBytes m br fr ch ≤ 257 := by
  have hpm : (40 * ch + 20) * (200 - fr) = (200 - fr) * (40 * ch + 20) := Int.mul_comm _ _
  have hp := mul_abs_le (200 - fr) (40 * ch + 20) 200 100 ⟨by omega, by omega⟩ ⟨by omega, by omega⟩
  have h3 := cdiv_abs_le (3 * (br + (40 * ch + 20) * (200 - fr))) 2 12400000 (by omega) ⟨by omega, by omega⟩
  have h4 := cdiv_abs_le (cdiv (3 * (br + (40 * ch + 20) * (200 - fr))) 2) 1600 12400000 (by omega) h3
  have hq := (cdiv_bounds 48000 fr (by omega)).1 (by omega)
  have h5 := cdiv_abs_le ((m * 8 - 2 * (40 * ch + 20)) * 240) (240 + cdiv 48000 fr) 2500000 (by omega) ⟨by omega, by omega⟩
  have h6 := cdiv_abs_le (cdiv ((m * 8 - 2 * (40 * ch + 20)) * 240) (240 + cdiv 48000 fr) + (40 * ch + 20)) 8 2500100
    (by omega) ⟨by omega, by omega⟩
  have hret : 0 ≤ computeRedundancyBytes m br fr ch ∧ computeRedundancyBytes m br fr ch ≤ 257 := by
    unfold computeRedundancyBytes
    dsimp only
    split <;> omega
  refine ⟨?_, hret⟩
  intro x hx
  simp only [rbTrace, List.mem_cons, List.mem_nil_iff, or_false] at hx
  unfold Fits32
  rcases hx with rfl | rfl | rfl | rfl | rfl | rfl | rfl | rfl | rfl | rfl | rfl | rfl | rfl | rfl | rfl | rfl | rfl |
    rfl | rfl | rfl <;> omega

/-! ### `bitrate_bps * frame_size` -/

/-- After the sizing stage (:1249-1261) the bit-rate is in 0..4 083 200 and `bitrate_bps*e` is at most 1 728 000 000 for
    every (sub)frame size `e ≤ frame_size`, `e ≤ 60 ms` — PROVIDED the user bit-rate is at most 300000·channels, which is
    what OPUS_SET_BITRATE clamps to (opus_encoder.c:2690; `stOk` alone allows 750000·channels, for which it is false). -/
theorem budget_rate_frame (s : St) (fsz out e : Int) (h : stOk s = true) (hu : s.userBitrate ≤ 300000 * s.channels)
    (hl : legalFrame s.fs fsz = true) (hout : 1 ≤ out) (he : 0 < e ∧ e ≤ fsz ∧ e ≤ 2880) :
    0 ≤ (sizeBudget s fsz out).bitrateBps ∧ (sizeBudget s fsz out).bitrateBps ≤ 4083200 ∧
    (sizeBudget s fsz out).bitrateBps * e ≤ 1728000000 := by
  have hm : 1 ≤ min 1276 out ∧ min 1276 out ≤ 1276 := by omega
  obtain ⟨-, hub1, hub2⟩ := ubTrace_fits s fsz (min 1276 out) h hl hm
  have h' := h
  simp only [stOk, decide_eq_true_eq] at h'
  obtain ⟨hfs, hch, hubr, -⟩ := h'
  obtain ⟨hpos, -, hc⟩ := legalFrame_cases s.fs fsz hfs hl
  have hne : fsz ≠ 0 := by omega
  have hfs48 : 8000 ≤ s.fs ∧ s.fs ≤ 48000 := by omega
  by_cases hv : s.useVbr = 0
  · -- CBR
    obtain ⟨-, hc0, hc1, hb0, hb1⟩ := cbrTrace_fits s.fs fsz (userBitrateToBitrate s fsz (min 1276 out)) (min 1276 out) hfs hl
      ⟨by omega, hub2⟩ hm
    have hb : (sizeBudget s fsz out).bitrateBps =
        cbrBytes s.fs fsz (userBitrateToBitrate s fsz (min 1276 out)) (min 1276 out) * (12 * s.fs / fsz) * 8 / 12 := by
      simp [sizeBudget, hv]
    rw [hb]
    refine ⟨hb0, hb1, ?_⟩
    generalize hcdef : cbrBytes s.fs fsz (userBitrateToBitrate s fsz (min 1276 out)) (min 1276 out) = c at *
    generalize hF : 12 * s.fs / fsz = F at *
    generalize hbdef : c * F * 8 / 12 = b at *
    have h1 : b * 12 ≤ c * F * 8 := by rw [← hbdef]; exact Int.ediv_mul_le _ (by omega)
    have h2 : F * fsz ≤ 12 * s.fs := by rw [← hF]; exact Int.ediv_mul_le _ hne
    have h3 : b * 12 * fsz ≤ c * F * 8 * fsz := Int.mul_le_mul_of_nonneg_right h1 (by omega)
    have h4 : c * 8 * (F * fsz) ≤ c * 8 * (12 * s.fs) := Int.mul_le_mul_of_nonneg_left h2 (by omega)
    have h5 := mul_nn_le c s.fs 1276 48000 ⟨hc0, by omega⟩ ⟨by omega, hfs48.2⟩
    have h6 : b * e ≤ b * fsz := Int.mul_le_mul_of_nonneg_left he.2.1 hb0
    nlinarith [h3, h4, h5, h6]
  · -- VBR: the user bit-rate
    have hb : (sizeBudget s fsz out).bitrateBps = userBitrateToBitrate s fsz (min 1276 out) := by
      simp [sizeBudget, hv]
    rw [hb]
    refine ⟨by omega, hub2, ?_⟩
    have hub' : userBitrateToBitrate s fsz (min 1276 out) =
        if s.userBitrate = OPUS_AUTO then 60 * s.fs / fsz + s.fs * s.channels
        else if s.userBitrate = OPUS_BITRATE_MAX then (min 1276 out) * 8 * s.fs / fsz else s.userBitrate := by
      simp [userBitrateToBitrate, hne]
    have hAUTO : (OPUS_AUTO : Int) = -1000 := rfl
    have hMAX : (OPUS_BITRATE_MAX : Int) = -1 := rfl
    by_cases hmax : s.userBitrate = OPUS_BITRATE_MAX
    · have hx : userBitrateToBitrate s fsz (min 1276 out) = (min 1276 out) * 8 * s.fs / fsz := by
        rw [hub']; rw [if_neg (by omega), if_pos hmax]
      generalize userBitrateToBitrate s fsz (min 1276 out) = b at *
      have h1 : b * fsz ≤ (min 1276 out) * 8 * s.fs := by rw [hx]; exact Int.ediv_mul_le _ hne
      have h5 := mul_nn_le (min 1276 out) s.fs 1276 48000 ⟨by omega, hm.2⟩ ⟨by omega, hfs48.2⟩
      have h6 : b * e ≤ b * fsz := Int.mul_le_mul_of_nonneg_left he.2.1 (by omega)
      nlinarith [h1, h5, h6]
    · have hle : userBitrateToBitrate s fsz (min 1276 out) ≤ 600000 := by
        rw [hub']; split
        · have : 60 * s.fs / fsz ≤ 24000 := Int.ediv_le_of_le_mul hpos (by omega)
          rcases hch with hch | hch <;> rw [hch] <;> omega
        · rcases hch with hch | hch <;> rw [hch] at hu <;> omega
      have := mul_nn_le (userBitrateToBitrate s fsz (min 1276 out)) e 600000 2880 ⟨by omega, hle⟩ ⟨by omega, he.2.2⟩
      omega

/-! ### `bytes_target`, `total_bitRate` -/

theorem btTrace_fits (fs e b m red : Int) (hfs : 8000 ≤ fs ∧ fs ≤ 48000) (he : 0 < e ∧ fs ≤ 400 * e)
    (hb : 0 ≤ b ∧ b * e ≤ 2147483647) (hm : 1 ≤ m ∧ m ≤ 1276) (hred : 0 ≤ red ∧ red ≤ 257) :
    (∀ x ∈ btTrace fs e b m red, Fits32 x) ∧ -257 ≤ bytesTarget fs e b m red ∧ bytesTarget fs e b m red ≤ 1275 := by
  have hbe : 0 ≤ b * e := Int.mul_nonneg hb.1 (by omega)
  have hq0 : 0 ≤ b * e / (fs * 8) := Int.ediv_nonneg hbe (by omega)
  have hq1 : b * e / (fs * 8) ≤ b * e := Int.ediv_le_self _ hbe
  have hbt : bytesTarget fs e b m red = min (m - red) (b * e / (fs * 8)) - 1 := rfl
  have hr0 : 0 ≤ fs / e := Int.ediv_nonneg (by omega) (by omega)
  have hr1 : fs / e ≤ 400 := Int.ediv_le_of_le_mul he.1 he.2
  have hbt1 : -257 ≤ bytesTarget fs e b m red ∧ bytesTarget fs e b m red ≤ 1275 := by rw [hbt]; omega
  have hp := mul_abs_le (8 * bytesTarget fs e b m red) (fs / e) 10200 400 ⟨by omega, by omega⟩ ⟨hr0, hr1⟩
  refine ⟨?_, hbt1⟩
  intro x hx
  simp only [btTrace, List.mem_cons, List.mem_nil_iff, or_false] at hx
  unfold Fits32
  rcases hx with rfl | rfl | rfl | rfl | rfl | rfl | rfl | rfl | rfl <;> omega

/-! ### `max_len_sum`, `curr_max` -/

theorem mlTrace_last (s : St) (fsz out cbr : Int) :
    (mlTrace s fsz out cbr).getLast? = some (multiCtx s fsz out cbr).maxLenSum := by
  simp [mlTrace]

/-- opus_encoder.c:1616-1681: all intermediates fit when `1 ≤ nb_frames ≤ 6`, `0 ≤ cbr_bytes ≤ 1276` (or -1 in VBR) and
    `out_data_bytes + nb_frames ≤ INT_MAX` (in particular for `out_data_bytes ≤ 4000`). -/
theorem mlTrace_fits (s : St) (fsz out cbr : Int)
    (hfs : 8000 ≤ s.fs ∧ s.fs ≤ 48000) (hnb : 1 ≤ (multiCtx s fsz out cbr).nbFrames ∧ (multiCtx s fsz out cbr).nbFrames ≤ 6)
    (hout : 1 ≤ out ∧ out + (multiCtx s fsz out cbr).nbFrames ≤ 2147483647) (hcbr : -1 ≤ cbr ∧ cbr ≤ 1276) :
    ∀ x ∈ mlTrace s fsz out cbr, Fits32 x := by
  have hrl : (multiCtx s fsz out cbr).repacketizeLen =
      if s.useVbr ≠ 0 ∨ s.userBitrate = OPUS_BITRATE_MAX then out else min cbr out := rfl
  have hml : (multiCtx s fsz out cbr).maxLenSum = (multiCtx s fsz out cbr).nbFrames + (multiCtx s fsz out cbr).repacketizeLen -
      (if (multiCtx s fsz out cbr).nbFrames = 2 then 3 else 2 + ((multiCtx s fsz out cbr).nbFrames - 1) * 2) := rfl
  have hrl2 : -1 ≤ (multiCtx s fsz out cbr).repacketizeLen ∧ (multiCtx s fsz out cbr).repacketizeLen ≤ out := by
    rw [hrl]; split <;> omega
  have hef : (multiCtx s fsz out cbr).encFs = encFrameSize s fsz := rfl
  have he : 0 ≤ encFrameSize s fsz ∧ encFrameSize s fsz ≤ 2880 := by
    unfold encFrameSize; split
    · split
      · omega
      · split <;> omega
    · omega
  intro x hx
  simp only [mlTrace, List.mem_cons, List.mem_nil_iff, or_false] at hx
  unfold Fits32
  rcases hx with rfl | rfl | rfl | rfl | rfl | rfl | rfl | rfl | rfl | rfl | rfl | rfl | rfl | rfl | rfl <;> omega

theorem cmTrace_last (s : St) (c : MultiCtx) (tot : Int) :
    (cmTrace s c tot).getLast? = some (currMax s c tot) := by
  simp [cmTrace]

/-- opus_encoder.c:1709-1716: `curr_max` for a bit-rate in 0..4 083 200, `enc_frame_size` in Fs/400..Fs (so that
    `3*8*Fs/enc_frame_size ≥ 24`), `2 ≤ nb_frames`, any `max_len_sum ≥ 0` and `0 ≤ tot_size ≤ max_len_sum`. -/
theorem cmTrace_fits (s : St) (c : MultiCtx) (tot : Int) (hfs : 8000 ≤ s.fs ∧ s.fs ≤ 48000)
    (hb : 0 ≤ s.bitrateBps ∧ s.bitrateBps ≤ 4083200) (he : 0 < c.encFs ∧ c.encFs ≤ s.fs)
    (hnb : 1 ≤ c.nbFrames) (hml : 0 ≤ c.maxLenSum ∧ c.maxLenSum ≤ 2147483647) (ht : 0 ≤ tot ∧ tot ≤ c.maxLenSum) :
    (∀ x ∈ cmTrace s c tot, Fits32 x) ∧ currMax s c tot ≤ 1276 := by
  have hd0 : 0 ≤ 3 * 8 * s.fs / c.encFs := Int.ediv_nonneg (by omega) (by omega)
  have hd1 : 3 * 8 * s.fs / c.encFs ≤ 3 * 8 * s.fs := Int.ediv_le_self _ (by omega)
  have hq0 : 0 ≤ 3 * s.bitrateBps / (3 * 8 * s.fs / c.encFs) := Int.ediv_nonneg (by omega) hd0
  have hq1 : 3 * s.bitrateBps / (3 * 8 * s.fs / c.encFs) ≤ 3 * s.bitrateBps := Int.ediv_le_self _ (by omega)
  have ha0 : 0 ≤ c.maxLenSum / c.nbFrames := Int.ediv_nonneg hml.1 (by omega)
  have ha1 : c.maxLenSum / c.nbFrames ≤ c.maxLenSum := Int.ediv_le_self _ hml.1
  have hcm : currMax s c tot = min (min (c.maxLenSum - tot)
      (min (3 * s.bitrateBps / (3 * 8 * s.fs / c.encFs)) (c.maxLenSum / c.nbFrames))) 1276 := rfl
  refine ⟨?_, by rw [hcm]; omega⟩
  intro x hx
  simp only [cmTrace, List.mem_cons, List.mem_nil_iff, or_false] at hx
  unfold Fits32
  rcases hx with rfl | rfl | rfl | rfl | rfl | rfl | rfl | rfl | rfl <;> omega

end Opus.EncSkel.Proofs
