import OpusProofs.FramingSafe
import Mathlib.Tactic.Linarith
/-
  OpusProofs.FramingRange — `int_ranges` for opus_packet_parse_impl (src/opus.c:194-353).

  The model computes `len`, `last_size`, `pad`, the products and the sums in unbounded `Int`/`Nat`.
  Here trace functions list, in program order and on EVERY path (also the paths that return
  OPUS_INVALID_PACKET early), every value the C function computes in an `int` / `opus_int32`,
  and `castStores` lists the operands of the three explicit `(opus_int16)` casts; the lemmas say:
  for a packet of `len < 2^31` bytes every traced value fits `opus_int32`, and whenever the
  parse succeeds every cast operand lies in [0, 1275] (lossless store).
-/
namespace Opus.FramingProofs
open Opus Opus.Framing

/-- `x` fits `opus_int32` / `int`. -/
def I32 (x : Int) : Prop := -2147483648 ≤ x ∧ x ≤ 2147483647

instance (x : Int) : Decidable (I32 x) := by unfold I32; infer_instance

/-- `x` fits `opus_int16`. -/
def I16 (x : Int) : Prop := -32768 ≤ x ∧ x ≤ 32767

instance (x : Int) : Decidable (I16 x) := by unfold I16; infer_instance

/-! ### parse_size -/

/-- What `parse_size` stores through `opus_int16 *size` is always -1 or a value ≤ 1275 (the
    implicit `int` → `opus_int16` conversion of `*size = 4*data[1] + data[0]` is lossless), and it
    returns -1, 1 or 2. -/
theorem parseSize_range (data : Bytes) (hb : BytesOk data) (len : Int) (bytes sz : Int)
    (h : parseSize data len = .ok (bytes, sz)) :
    -1 ≤ sz ∧ sz ≤ 1275 ∧ (bytes = -1 ∨ bytes = 1 ∨ bytes = 2) ∧ (bytes = -1 → sz = -1) ∧
    (0 ≤ sz → bytes ≤ len ∧ 1 ≤ bytes) := by
  have hs := parseSize_shape data len bytes sz h
  by_cases hsz : 0 ≤ sz
  · obtain ⟨n, h1, h2, _, h4, _⟩ := parseSize_ok_inv data len hb bytes sz h hsz
    rcases hs with hs | hs | hs <;> omega
  · rcases hs with hs | hs | hs <;> omega

/-! ### the padding chain -/

/-- Values computed by the padding loop (src/opus.c:263-272) from a state `(len, pad)`: per
    iteration `len--`, `len -= tmp`, `pad += tmp`. -/
def padChainTrace : Bytes → Int → Int → List Int
  | data, len, pad =>
    if len ≤ 0 then []
    else match data with
      | [] => []
      | p :: rest =>
        if p = 255 then [len - 1, len - 1 - 254, pad + 254] ++ padChainTrace rest (len - 1 - 254) (pad + 254)
        else [len - 1, len - 1 - p, pad + p]

theorem padChainTrace_range (L0 : Int) (hL : L0 ≤ 2147483647) : ∀ (data : Bytes), BytesOk data →
    ∀ (len pad : Int), len ≤ L0 → 0 ≤ pad → pad * 255 ≤ 254 * (L0 - len) →
    ∀ v ∈ padChainTrace data len pad, I32 v := by
  intro data
  induction data with
  | nil => intro _ len pad _ _ _ v hv; unfold padChainTrace at hv; split at hv <;> simp at hv
  | cons p rest ih =>
    intro hb len pad hl hp hinv v hv
    have hp8 : p < 256 := hb p (by simp)
    unfold padChainTrace at hv
    split at hv
    · simp at hv
    · simp only at hv
      split at hv
      · simp only [List.mem_append, List.mem_cons, List.not_mem_nil, or_false] at hv
        rcases hv with (h | h | h) | h
        · subst h; unfold I32; omega
        · subst h; unfold I32; omega
        · subst h; unfold I32; omega
        · exact ih (fun b hb' => hb b (by simp [hb'])) _ _ (by omega) (by omega) (by omega) v h
      · simp only [List.mem_cons, List.not_mem_nil, or_false] at hv
        unfold I32
        rcases hv with h | h | h <;> subst h <;> omega

/-! ### the VBR length loop -/

/-- Values computed by the VBR loop (src/opus.c:282-290), `n` iterations left: per iteration the
    stored size, `len -= bytes`, and — when the size is accepted — `bytes + size[i]` and
    `last_size -= bytes + size[i]`. -/
def vbrTrace : Nat → Bytes → Int → Int → List Int
  | 0, _, _, _ => []
  | n + 1, data, len, last =>
    match parseSize data len with
    | .ok (bytes, sz) =>
      [sz, len - bytes] ++
        (if sz < 0 ∨ sz > len - bytes then []
         else [bytes + sz, last - (bytes + sz)] ++
           vbrTrace n (data.drop bytes.toNat) (len - bytes) (last - (bytes + sz)))
    | _ => []

theorem vbrTrace_range (L0 : Int) (hL : L0 ≤ 2147483646) : ∀ (n : Nat) (data : Bytes), BytesOk data →
    ∀ (len last : Int) (k : Int), 0 ≤ len → len ≤ L0 → -(1277 * k) ≤ last → last ≤ L0 → 0 ≤ k →
    k + n ≤ 100 → ∀ v ∈ vbrTrace n data len last, I32 v := by
  intro n
  induction n with
  | zero => intro _ _ _ _ _ _ _ _ _ _ _ v hv; simp [vbrTrace] at hv
  | succ n ih =>
    intro data hb len last k h0 hl hlast1 hlast2 hk hkn v hv
    unfold vbrTrace at hv
    split at hv
    · rename_i bytes sz hps
      have hr := parseSize_range data hb len bytes sz hps
      simp only [List.mem_append, List.mem_cons, List.not_mem_nil, or_false] at hv
      rcases hv with (h | h) | h
      · subst h; unfold I32; omega
      · subst h; unfold I32; omega
      · split at h
        · simp at h
        · rename_i hcond
          have hsz : 0 ≤ sz := by omega
          have := hr.2.2.2.2 hsz
          simp only [List.mem_append, List.mem_cons, List.not_mem_nil, or_false] at h
          rcases h with (h | h) | h
          · subst h; unfold I32; omega
          · subst h; unfold I32; omega
          · exact ih _ (fun b hb' => hb b (List.mem_of_mem_drop hb')) _ _ (k + 1) (by omega) (by omega)
              (by omega) (by omega) (by omega) (by omega) v h
    · simp at hv

/-! ### the switch -/

/-- Values of the `default:` branch (code 3) before the common tail: `framesize * count`,
    `len--`, the padding loop, then the VBR loop or `len / count` and `last_size * count`. -/
def code3Trace (sd : Bool) (framesize : Nat) (data : Bytes) (len : Int) : List Int :=
  if len < 1 then []
  else match data with
    | [] => []
    | ch :: data1 =>
      let count := ch % 64
      [((framesize * count : Nat) : Int)] ++
        (if count = 0 ∨ framesize * count > 5760 then []
         else
           [len - 1] ++ (if ch / 64 % 2 = 1 then padChainTrace data1 (len - 1) 0 else []) ++
             match (if ch / 64 % 2 = 1 then padChain data1 (len - 1) 0 else .ok (data1, len - 1, 0)) with
             | .ok (data2, len2, _) =>
               if len2 < 0 then []
               else if ch / 128 % 2 = 1 then vbrTrace (count - 1) data2 len2 len2
               else if sd then []
               else [len2 / count, len2 / count * count]
             | _ => [])

/-- Values of the whole `switch (toc&0x3)`. -/
def hdrTrace (sd : Bool) (toc : Nat) (data : Bytes) (len : Int) : List Int :=
  if toc % 4 = 0 then []
  else if toc % 4 = 1 then (if sd then [] else [len % 2, len / 2])
  else if toc % 4 = 2 then
    match parseSize data len with
    | .ok (bytes, sz) => [sz, len - bytes] ++ (if sz < 0 ∨ sz > len - bytes then [] else [len - bytes - sz])
    | _ => []
  else code3Trace sd (samplesPerFrame toc 48000) data len

/-- Values of the common tail up to the size checks (src/opus.c:304-330). -/
def finishTrace (sd : Bool) (h : Hdr) : List Int :=
  if sd then
    match parseSize h.data h.len with
    | .ok (bytes, sz) =>
      [sz, h.len - bytes] ++
        (if sz < 0 ∨ sz > h.len - bytes then []
         else if h.cbr then [sz * h.count] else [bytes + sz])
    | _ => []
  else []

/-- Values of the reporting tail on success (src/opus.c:332-350): `data - data0` before the frame
    loop, the running offsets `data += size[i]`, and `pad + (data - data0)`. -/
def reportTrace (r : Parsed) : List Int :=
  [(r.payloadOffset : Int)] ++
    (List.range (r.sizes.length + 1)).map (fun i => ((r.payloadOffset + sumN (r.sizes.take i) : Nat) : Int)) ++
    [(r.padLen : Int), (r.packetOffset : Int)]

/-- Every `int` / `opus_int32` value computed by `opus_packet_parse_impl( data, len, sd, … )` with
    `len = bs.length > 0`, in program order: `framesize`, `len--`, the switch, the tail, the report. -/
def implTrace (sd : Bool) (bs : Bytes) : List Int :=
  match bs with
  | [] => []
  | toc :: data =>
    [(samplesPerFrame toc 48000 : Int), (data.length : Int)] ++ hdrTrace sd toc data data.length ++
      (match parseHdr sd toc data data.length with
       | .ok h => finishTrace sd h ++ (match finish sd bs.length toc h with
                                        | .ok r => reportTrace r
                                        | _ => [])
       | _ => [])

theorem spf48_le : ∀ toc ∈ List.range 256, samplesPerFrame toc 48000 ≤ 2880 := by decide +kernel

theorem code3Trace_range (sd : Bool) (fs : Nat) (hfs : fs ≤ 2880) (data : Bytes) (hb : BytesOk data)
    (len : Int) (hl0 : 0 ≤ len) (hl : len ≤ 2147483646) : ∀ v ∈ code3Trace sd fs data len, I32 v := by
  intro v hv
  unfold code3Trace at hv
  split at hv
  · simp at hv
  · cases data with
    | nil => simp at hv
    | cons ch data1 =>
      have hch : ch < 256 := hb ch (by simp)
      have hb1 : BytesOk data1 := fun b hb' => hb b (by simp [hb'])
      simp only [List.mem_append, List.mem_cons, List.not_mem_nil, or_false] at hv
      rcases hv with h | h
      · subst h
        have : fs * (ch % 64) ≤ 2880 * 63 := Nat.mul_le_mul hfs (by omega)
        unfold I32; omega
      · split at h
        · simp at h
        · rename_i hcnt
          simp only [List.mem_append, List.mem_cons, List.not_mem_nil, or_false] at h
          rcases h with (h | h) | h
          · subst h; unfold I32; omega
          · split at h
            · exact padChainTrace_range (len - 1) (by omega) data1 hb1 (len - 1) 0 (by omega) (by omega)
                (by omega) v h
            · simp at h
          · -- after the padding chain
            cases hps : (if ch / 64 % 2 = 1 then padChain data1 (len - 1) 0
                else Res.ok (data1, len - 1, 0)) with
            | ok tr =>
              obtain ⟨data2, len2, pad⟩ := tr
              rw [hps] at h
              simp only at h
              have hfacts : len2 ≤ len - 1 ∧ BytesOk data2 := by
                by_cases hq : ch / 64 % 2 = 1
                · rw [if_pos hq] at hps
                  obtain ⟨k, last, _, hd, hl2, _, _⟩ := padChain_inv data1 hb1 _ _ _ _ _ hps
                  refine ⟨by omega, ?_⟩
                  intro b hb'
                  apply hb1 b
                  rw [hd]; simp [hb']
                · rw [if_neg hq] at hps
                  simp at hps
                  rw [← hps.1, ← hps.2.1]; exact ⟨by omega, hb1⟩
              split at h
              · simp at h
              · rename_i hl2
                split at h
                · exact vbrTrace_range (len - 1) (by omega) _ data2 hfacts.2 len2 len2 0 (by omega) hfacts.1
                    (by omega) hfacts.1 (by omega) (by omega) v h
                · split at h
                  · simp at h
                  · simp only [List.mem_cons, List.not_mem_nil, or_false] at h
                    have hc1 : (1 : Int) ≤ ((ch % 64 : Nat) : Int) := by omega
                    have hq0 : 0 ≤ len2 / ((ch % 64 : Nat) : Int) := Int.ediv_nonneg (by omega) (by omega)
                    have hq1 : len2 / ((ch % 64 : Nat) : Int) ≤ len2 := Int.ediv_le_self _ (by omega)
                    have hq2 : len2 / ((ch % 64 : Nat) : Int) * ((ch % 64 : Nat) : Int) ≤ len2 :=
                      Int.ediv_mul_le _ (by omega)
                    have hq3 : 0 ≤ len2 / ((ch % 64 : Nat) : Int) * ((ch % 64 : Nat) : Int) :=
                      Int.mul_nonneg hq0 (by omega)
                    unfold I32
                    rcases h with h | h <;> subst h <;> omega
            | err e => rw [hps] at h; simp at h
            | oob => rw [hps] at h; simp at h
            | abort => rw [hps] at h; simp at h

theorem hdrTrace_range (sd : Bool) (toc : Nat) (htoc : toc < 256) (data : Bytes) (hb : BytesOk data)
    (len : Int) (hl0 : 0 ≤ len) (hl : len ≤ 2147483646) : ∀ v ∈ hdrTrace sd toc data len, I32 v := by
  intro v hv
  unfold hdrTrace at hv
  split at hv
  · simp at hv
  · split at hv
    · split at hv
      · simp at hv
      · simp only [List.mem_cons, List.not_mem_nil, or_false] at hv
        unfold I32; rcases hv with h | h <;> subst h <;> omega
    · split at hv
      · split at hv
        · rename_i bytes sz hps
          have hr := parseSize_range data hb len bytes sz hps
          simp only [List.mem_append, List.mem_cons, List.not_mem_nil, or_false] at hv
          rcases hv with (h | h) | h
          · subst h; unfold I32; omega
          · subst h; unfold I32; omega
          · split at h
            · simp at h
            · simp only [List.mem_cons, List.not_mem_nil, or_false] at h
              subst h; unfold I32; omega
        · simp at hv
      · exact code3Trace_range sd _ (spf48_le toc (List.mem_range.mpr htoc)) data hb len hl0 hl v hv

/-- Range facts about the state after the switch. -/
theorem parseHdr_state (sd : Bool) (toc : Nat) (data : Bytes) (hb : BytesOk data) (h : Hdr)
    (hh : parseHdr sd toc data data.length = .ok h) :
    1 ≤ h.count ∧ h.count ≤ 63 ∧ h.len ≤ data.length ∧ BytesOk h.data ∧ 0 ≤ h.len := by
  unfold parseHdr at hh
  split at hh
  · simp at hh; subst hh; exact ⟨by simp, by simp, by simp, hb, by simp⟩
  · split at hh
    · split at hh
      · simp at hh; subst hh; exact ⟨by simp, by simp, by simp, hb, by simp⟩
      · split at hh
        · simp at hh
        · simp at hh; subst hh; exact ⟨by simp, by simp, by simp, hb, by simp⟩
    · split at hh
      · split at hh
        · rename_i bytes sz hps
          simp only at hh
          split at hh
          · simp at hh
          · simp at hh; subst hh
            have := parseSize_range data hb _ bytes sz hps
            refine ⟨by simp, by simp, by simp; omega, fun b hb' => hb b (List.mem_of_mem_drop hb'), by simp; omega⟩
        all_goals simp at hh
      · -- code 3
        unfold parseCode3 at hh
        split at hh
        · simp at hh
        · cases data with
          | nil => simp at hh
          | cons ch data1 =>
            have hb1 : BytesOk data1 := fun b hb' => hb b (by simp [hb'])
            simp only at hh
            split at hh
            · simp at hh
            · rename_i hcnt
              cases hps : (if ch / 64 % 2 = 1 then padChain data1 (((ch :: data1).length : Int) - 1) 0
                  else Res.ok (data1, ((ch :: data1).length : Int) - 1, 0)) with
              | ok tr =>
                obtain ⟨data2, len2, pad⟩ := tr
                rw [hps] at hh
                simp only at hh
                have hfacts : len2 ≤ ((ch :: data1).length : Int) - 1 ∧ BytesOk data2 := by
                  by_cases hq : ch / 64 % 2 = 1
                  · rw [if_pos hq] at hps
                    obtain ⟨k, last, _, hd, hl2, _, _⟩ := padChain_inv data1 hb1 _ _ _ _ _ hps
                    refine ⟨by omega, ?_⟩
                    intro b hb'
                    apply hb1 b
                    rw [hd]; simp [hb']
                  · rw [if_neg hq] at hps
                    simp only [Res.ok.injEq, Prod.mk.injEq] at hps
                    rw [← hps.1, ← hps.2.1]; exact ⟨Int.le_refl _, hb1⟩
                split at hh
                · simp at hh
                · split at hh
                  · split at hh
                    · rename_i ss d l last hvs
                      split at hh
                      · simp at hh
                      · simp at hh; subst hh
                        obtain ⟨_, _, hdat, hl', _, hH⟩ := vbrSizes_inv _ data2 hfacts.2 len2 len2 (by omega) _ _ _ _ hvs
                        have hf1 := hfacts.1
                        refine ⟨by simp; omega, by simp; omega, by dsimp only; omega, ?_, by dsimp only; omega⟩
                        intro b hb'
                        apply hfacts.2 b
                        rw [hdat]; simp [hb']
                    all_goals simp at hh
                  · split at hh
                    · simp at hh; subst hh
                      have hf1 := hfacts.1
                      exact ⟨by simp; omega, by simp; omega, by dsimp only; omega, hfacts.2, by dsimp only; omega⟩
                    · split at hh
                      · simp at hh
                      · simp at hh; subst hh
                        have hf1 := hfacts.1
                        exact ⟨by simp; omega, by simp; omega, by dsimp only; omega, hfacts.2, by dsimp only; omega⟩
              | err e => rw [hps] at hh; simp at hh
              | oob => rw [hps] at hh; simp at hh
              | abort => rw [hps] at hh; simp at hh

theorem finishTrace_range (sd : Bool) (h : Hdr) (hb : BytesOk h.data) (hc : h.count ≤ 63)
    (hl : h.len ≤ 2147483646) (hl0 : 0 ≤ h.len) : ∀ v ∈ finishTrace sd h, I32 v := by
  intro v hv
  unfold finishTrace at hv
  split at hv
  · split at hv
    · rename_i bytes sz hps
      have hr := parseSize_range h.data hb h.len bytes sz hps
      simp only [List.mem_append, List.mem_cons, List.not_mem_nil, or_false] at hv
      rcases hv with (hv | hv) | hv
      · subst hv; unfold I32; omega
      · subst hv; unfold I32; omega
      · split at hv
        · simp at hv
        · split at hv
          · simp only [List.mem_cons, List.not_mem_nil, or_false] at hv
            subst hv
            have h1 : sz * (h.count : Int) ≤ 1275 * 63 := by
              have : (h.count : Int) ≤ 63 := by exact_mod_cast hc
              have : (0 : Int) ≤ (h.count : Int) := Int.natCast_nonneg _
              nlinarith [hr.1, hr.2.1]
            have h2 : 0 ≤ sz * (h.count : Int) := Int.mul_nonneg (by omega) (Int.natCast_nonneg _)
            unfold I32; omega
          · simp only [List.mem_cons, List.not_mem_nil, or_false] at hv
            subst hv; unfold I32; omega
    · simp at hv
  · simp at hv

/-! ### the report -/

theorem sumN_take_le : ∀ (l : List Nat) (i : Nat), sumN (l.take i) ≤ sumN l
  | [], i => by simp
  | x :: xs, 0 => by simp
  | x :: xs, i + 1 => by
    simp only [List.take_succ_cons, sumN_cons]
    have := sumN_take_le xs i
    omega

/-- On success the reported offsets are ordered: payload offset ≤ every running frame offset ≤
    padding offset, and padding offset + padding length = consumed length ≤ input length. -/
theorem parse_offsets (sd : Bool) (bs : Bytes) (hb : BytesOk bs) (r : Parsed) (h : parseImpl sd bs = .ok r) :
    r.payloadOffset + sumN r.sizes + r.padLen = r.packetOffset ∧ r.packetOffset ≤ bs.length ∧
    r.count = r.sizes.length ∧ ∀ s ∈ r.sizes, s ≤ 1275 := by
  obtain ⟨p, rest, hv, hbs, _, hview⟩ := parse_sound sd bs hb r h
  subst hview
  have hF : sumN p.lens = p.frames.flatten.length := sumN_map_length _
  have hlen : (FramingSpec.serialize sd p).length =
      (FramingSpec.header sd p).length + p.frames.flatten.length + (FramingSpec.padBytes p).length := by
    simp [FramingSpec.serialize]; omega
  refine ⟨by simp only [FramingSpec.view]; rw [hF, hlen], by simp only [FramingSpec.view]; rw [hbs]; simp,
    by simp [FramingSpec.view, FramingSpec.Packet.lens], ?_⟩
  intro s hs
  simp [FramingSpec.view, FramingSpec.Packet.lens] at hs
  obtain ⟨f, hf, hfl⟩ := hs
  rw [← hfl]; exact hv.frame_max f hf

theorem reportTrace_range (sd : Bool) (bs : Bytes) (hb : BytesOk bs) (r : Parsed)
    (h : parseImpl sd bs = .ok r) (hl : bs.length ≤ 2147483647) : ∀ v ∈ reportTrace r, I32 v := by
  have ho := parse_offsets sd bs hb r h
  intro v hv
  unfold reportTrace at hv
  simp only [List.mem_append, List.mem_cons, List.not_mem_nil, or_false, List.mem_map, List.mem_range] at hv
  unfold I32
  rcases hv with (hv | ⟨i, _, rfl⟩) | hv | hv
  · subst hv; omega
  · have := sumN_take_le r.sizes i; omega
  · subst hv; omega
  · subst hv; omega

/-! ### the whole function -/

/-- `int_ranges`, first half: for every packet of fewer than 2^31 bytes (i.e. every `len` an
    `opus_int32` can hold), in both framings and on every path — accepted or rejected — every
    `int` / `opus_int32` value computed by `opus_packet_parse_impl` fits 32 bits. -/
theorem implTrace_range (sd : Bool) (bs : Bytes) (hb : BytesOk bs) (hl : bs.length ≤ 2147483647) :
    ∀ v ∈ implTrace sd bs, I32 v := by
  intro v hv
  cases bs with
  | nil => simp [implTrace] at hv
  | cons toc data =>
    have htoc : toc < 256 := hb toc (by simp)
    have hbd : BytesOk data := fun b hb' => hb b (by simp [hb'])
    have hdl : (data.length : Int) ≤ 2147483646 := by simp at hl; omega
    unfold implTrace at hv
    simp only [List.mem_append, List.mem_cons, List.not_mem_nil, or_false] at hv
    rcases hv with ((hv | hv) | hv) | hv
    · subst hv
      have := spf48_le toc (List.mem_range.mpr htoc)
      unfold I32; omega
    · subst hv; unfold I32; omega
    · exact hdrTrace_range sd toc htoc data hbd _ (by omega) hdl v hv
    · split at hv
      · rename_i hh hhdr
        have hst := parseHdr_state sd toc data hbd hh hhdr
        rcases List.mem_append.mp hv with hv | hv
        · exact finishTrace_range sd hh hst.2.2.2.1 hst.2.1 (by omega) hst.2.2.2.2 v hv
        · split at hv
          · rename_i r hfin
            have hp : parseImpl sd (toc :: data) = .ok r := by
              unfold parseImpl; simp only [hhdr]; exact hfin
            exact reportTrace_range sd (toc :: data) hb r hp hl v hv
          · simp at hv
      · simp at hv

/-! ### the `(opus_int16)` stores -/

/-- The operands of the three explicit `(opus_int16)` casts of `opus_packet_parse_impl`, in
    program order, as far as the C function gets: `size[0] = (opus_int16)last_size` for code 1
    (src/opus.c:232, not self-delimited, even `len`), `size[i] = (opus_int16)last_size`, i < count-1,
    for code-3 CBR (src/opus.c:299-300, not self-delimited, after the exact-division check), and
    `size[count-1] = (opus_int16)last_size` (src/opus.c:330, not self-delimited, after
    `last_size > 1275` has been rejected).  All other stores into `size[]` are made by `parse_size`
    (always -1 or a value ≤ 1275, `parseSize_range`) or copy an `opus_int16` (src/opus.c:318-319). -/
def castStores (sd : Bool) (bs : Bytes) : List Int :=
  match bs with
  | [] => []
  | toc :: data =>
    if sd then []
    else
      match parseHdr false toc data data.length with
      | .ok h =>
        (if toc % 4 = 1 then [h.lastSize]
         else if toc % 4 = 3 ∧ h.cbr then List.replicate (h.count - 1) h.lastSize else []) ++
          (if h.lastSize > 1275 then [] else [h.lastSize])
      | _ => []

/-- `last_size` after the switch is never negative. -/
theorem parseHdr_lastSize (sd : Bool) (toc : Nat) (data : Bytes) (hb : BytesOk data) (h : Hdr)
    (hh : parseHdr sd toc data data.length = .ok h) : 0 ≤ h.lastSize := by
  unfold parseHdr at hh
  split at hh
  · simp at hh; subst hh; simp
  · split at hh
    · split at hh
      · simp at hh; subst hh; simp
      · split at hh
        · simp at hh
        · simp at hh; subst hh; simp; omega
    · split at hh
      · split at hh
        · rename_i bytes sz hps
          simp only at hh
          split at hh
          · simp at hh
          · simp at hh; subst hh; simp; omega
        all_goals simp at hh
      · unfold parseCode3 at hh
        split at hh
        · simp at hh
        · cases data with
          | nil => simp at hh
          | cons ch data1 =>
            simp only at hh
            split at hh
            · simp at hh
            · rename_i hcnt
              split at hh
              · rename_i data2 len2 pad hps
                split at hh
                · simp at hh
                · split at hh
                  · split at hh
                    · split at hh
                      · simp at hh
                      · simp at hh; subst hh; simp; omega
                    all_goals simp at hh
                  · split at hh
                    · simp at hh; subst hh; simp; omega
                    · split at hh
                      · simp at hh
                      · simp at hh; subst hh
                        simp only
                        exact Int.ediv_nonneg (by omega) (by omega)
              all_goals simp at hh

/-- `int_ranges`, second half: whenever the parse succeeds, every `(opus_int16)` store is
    lossless — each cast operand lies in `[0, 1275]`.  (Self-delimited framing has no explicit
    cast at all.) -/
theorem castStores_lossless (sd : Bool) (bs : Bytes) (hb : BytesOk bs) (r : Parsed)
    (h : parseImpl sd bs = .ok r) : ∀ v ∈ castStores sd bs, 0 ≤ v ∧ v ≤ 1275 := by
  intro v hv
  cases bs with
  | nil => simp [castStores] at hv
  | cons toc data =>
    have hbd : BytesOk data := fun b hb' => hb b (by simp [hb'])
    unfold castStores at hv
    cases sd with
    | true => simp at hv
    | false =>
      simp only [Bool.false_eq_true, if_false] at hv
      unfold parseImpl at h
      simp only at h
      split at hv
      · rename_i hh hhdr
        rw [hhdr] at h
        simp only at h
        have h0 := parseHdr_lastSize false toc data hbd hh hhdr
        have hle : hh.lastSize ≤ 1275 := by
          unfold finish at h
          simp only [Bool.false_eq_true, if_false] at h
          split at h
          · simp at h
          · omega
        rcases List.mem_append.mp hv with hv | hv
        · split at hv
          · simp at hv; subst hv; omega
          · split at hv
            · have := List.eq_of_mem_replicate hv; subst this; omega
            · simp at hv
        · split at hv
          · simp at hv
          · simp at hv; subst hv; omega
      · simp at hv

/-- What is stored on the failure paths: a cast operand that does not fit `opus_int16` (possible
    only for the early stores of code 1 and code-3 CBR, where `last_size` can be as large as
    `len/2`, and then `size[i]` receives its low 16 bits) forces OPUS_INVALID_PACKET — the C comment
    "If last_size doesn't fit in size[0], we'll catch it later" is true. -/
theorem castStores_truncated_rejected (sd : Bool) (bs : Bytes) (hb : BytesOk bs) (v : Int)
    (hv : v ∈ castStores sd bs) (hbig : ¬ I16 v) : parseImpl sd bs = .err .invalidPacket := by
  cases hp : parseImpl sd bs with
  | ok r =>
    have := castStores_lossless sd bs hb r hp v hv
    exact absurd (by unfold I16; omega) hbig
  | err e => rw [parseImpl_err_invalid sd bs e hp]
  | oob => have := parseImpl_nofault sd bs; rw [hp] at this; simp [fault] at this
  | abort => have := parseImpl_nofault sd bs; rw [hp] at this; simp [fault] at this

end Opus.FramingProofs
