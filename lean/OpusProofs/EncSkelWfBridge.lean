import OpusProofs.EncSkelWf
import OpusProofs.RepackOutRange
/-
  OpusProofs.EncSkelWfBridge — the repacketiser *contract* of the encoder skeleton
  (`Opus.EncSkel.outRange`, OpusModel/EncSkel/Repack.lean) IS the repacketiser *model* of property C07
  (`Opus.Repack.emit` = everything of `opus_repacketizer_out_range_impl` after the extension gathering,
  OpusModel/Repack.lean), byte for byte, on success and on failure, for extension-free input.
-/
namespace Opus.EncSkel.WfProofs
open Opus Opus.EncSkel Opus.EncSkel.Proofs Opus.FramingSpec

/-- What the contract result means in bytes: header, frames, zero padding up to `size`. -/
def emitOf (frames : List Bytes) : Res OutRes → Res Bytes
  | .ok r => .ok (pktBytes r.hdr frames r.size)
  | .err e => .err e
  | .oob => .oob
  | .abort => .abort

theorem isVbr_eq (lens : List Nat) : Repack.isVbr lens = !(EncSkel.allEq (lens.headD 0) lens) := by
  unfold Repack.isVbr
  generalize lens.headD 0 = l0
  induction lens with
  | nil => rfl
  | cons x xs ih =>
    simp only [List.any_cons, EncSkel.allEq, ih]
    by_cases h : x = l0 <;> simp [h]

theorem vbrBody_cast (lens : List Nat) : Repack.vbrBody lens = ((EncSkel.vbrBody lens : Nat) : Int) := by
  induction lens with
  | nil => rfl
  | cons x xs ih =>
    cases xs with
    | nil => simp [Repack.vbrBody, EncSkel.vbrBody]
    | cons y ys =>
      simp only [Repack.vbrBody, EncSkel.vbrBody] at ih ⊢
      rw [ih]
      unfold sizeLen
      split <;> split <;> push_cast <;> omega

theorem vbrSize_eq (lens : List Nat) : Repack.vbrSizeBytes lens = EncSkel.vbrLens lens := by
  rw [RepackProofs.vbrSizeBytes_eq, vbrLens_eq]

/-- `tot_size` of the code-3 branch, model vs contract. -/
theorem tot3_cast (lens : List Nat) :
    Repack.tot3 lens 0 =
      (((if (!(EncSkel.allEq (lens.headD 0) lens)) = true then 2 + EncSkel.vbrBody lens
         else lens.length * lens.headD 0 + 2 : Nat)) : Int) := by
  unfold Repack.tot3
  rw [isVbr_eq, vbrBody_cast]
  split <;> push_cast <;> omega

theorem padOf_nat (pa : Nat) (h : pa ≠ 0) :
    RepackProofs.padOf (pa : Int) =
      some { n255 := (pa - 1) / 255, last := pa - 255 * ((pa - 1) / 255) - 1,
             bytes := List.replicate (pa - (pa - 1) / 255 - 1) 0 } := by
  unfold RepackProofs.padOf
  rw [if_neg (by omega)]
  simp only [Option.some.injEq, Pad.mk.injEq]
  refine ⟨by omega, by omega, ?_⟩
  congr 1
  omega

/-- Code 3 (`repacketizer.c:226-305`): the C07 model and the skeleton's contract agree byte for byte. -/
theorem code3_bridge (toc : Nat) (frames : List Bytes) (hne : frames ≠ []) (maxlen : Nat) (pad : Bool) :
    Repack.code3 toc frames 0 (maxlen : Int) [] pad #[] =
      emitOf frames (EncSkel.outCode3 (toc / 4 * 4) (frames.map List.length) maxlen pad) := by
  have hlen : (frames.map List.length).length = frames.length := by simp
  have hflat : frames.flatten.length = sumN (frames.map List.length) := flatten_length frames
  have ht3 := tot3_cast (frames.map List.length)
  unfold EncSkel.outCode3
  dsimp only
  generalize hvbr : (!EncSkel.allEq ((frames.map List.length).headD 0) (frames.map List.length)) = vbr at ht3 ⊢
  have hisv : Repack.isVbr (frames.map List.length) = vbr := by rw [isVbr_eq, hvbr]
  have htot : (if vbr = true then 2 + EncSkel.vbrBody (frames.map List.length)
        else (frames.map List.length).length * (frames.map List.length).headD 0 + 2) =
      2 + (if vbr = true then (vbrLens (frames.map List.length)).length else 0) + sumN (frames.map List.length) := by
    cases vbr
    · simp only [Bool.false_eq_true, if_false]
      have : EncSkel.allEq ((frames.map List.length).headD 0) (frames.map List.length) = true := by simpa using hvbr
      rw [allEq_sum _ _ this]; omega
    · simp only [if_true]; rw [Proofs.vbrBody_eq]; omega
  generalize htv : (if vbr = true then 2 + EncSkel.vbrBody (frames.map List.length)
        else (frames.map List.length).length * (frames.map List.length).headD 0 + 2) = tot at ht3 htot ⊢
  by_cases hbig : tot > maxlen
  · rw [if_pos hbig]
    unfold Repack.code3
    simp only []
    rw [if_pos (by rw [ht3]; omega)]
    rfl
  · rw [if_neg hbig]
    rw [RepackProofs.code3_noext toc frames hne 0 maxlen [] pad (by rw [ht3]; omega)]
    rw [ht3, hisv]
    have hsub : ((maxlen : Int) - (tot : Int)) = ((maxlen - tot : Nat) : Int) := by omega
    rw [hsub]
    cases pad with
    | false =>
      simp only [Bool.false_eq_true, if_false, ne_eq, not_true_eq_false, Option.isSome_none, emitOf, pktBytes,
        RepackProofs.padHdr, RepackProofs.padData]
      cases vbr <;> simp [vbrLens_eq, hflat] at htot ⊢ <;> omega
    | true =>
      simp only [if_true]
      by_cases hz : maxlen - tot = 0
      · rw [hz]
        simp only [RepackProofs.padOf, Int.natCast_zero, if_true, ne_eq, not_true_eq_false, if_false,
          Option.isSome_none, emitOf, pktBytes, RepackProofs.padHdr, RepackProofs.padData]
        cases vbr <;> simp [vbrLens_eq, hflat] at htot ⊢
        all_goals omega
      · have hnb : ¬ (tot + (maxlen - tot - 1) / 255 + 1 > maxlen) := by omega
        rw [padOf_nat _ hz, if_pos hz, if_neg hnb]
        simp only [emitOf, pktBytes, RepackProofs.padHdr, RepackProofs.padData, Pad.hdr, padLenBytes]
        cases vbr <;> simp [vbrLens_eq, hflat] at htot ⊢
        all_goals omega

/-- **The contract is the model.**  `opus_repacketizer_out_range_impl` after the extension gathering
    (`Repack.emit`, non-self-delimited, no extensions) on ANY non-empty frame list and ANY `maxlen`, `pad`:
    the skeleton's contract `outRange` returns the same error, or the size and header such that
    `header ++ frames ++ zero padding` are exactly the bytes the model writes. -/
theorem emit_bridge (toc : Nat) (frames : List Bytes) (hne : frames ≠ []) (maxlen : Nat) (pad : Bool) :
    Repack.emit toc frames (maxlen : Int) false pad #[] =
      emitOf frames (EncSkel.outRange (toc / 4 * 4) (frames.map List.length) maxlen pad) := by
  match frames, hne with
  | [f0], _ =>
    have hc3 := code3_bridge toc [f0] (by simp) maxlen pad
    simp only [List.map_cons, List.map_nil] at hc3
    simp only [Repack.emit, Repack.firstPass, Repack.sdSize, List.map_cons, List.map_nil, EncSkel.outRange,
      Bool.false_eq_true, if_false, List.length_cons, List.length_nil, List.size_toArray]
    by_cases hbig : f0.length + 1 > maxlen
    · rw [if_pos hbig, if_pos (by omega)]; rfl
    · rw [if_neg hbig, if_neg (by omega)]
      simp only []
      by_cases hp : pad = true ∧ f0.length + 1 < maxlen
      · rw [if_pos hp, if_pos (Or.inr (Or.inl ⟨hp.1, by omega⟩)), hc3]
      · rw [if_neg hp, if_neg (by
          rintro (h | ⟨h1, h2⟩ | h)
          · omega
          · exact hp ⟨h1, by omega⟩
          · simp at h)]
        simp [emitOf, pktBytes]
  | [f0, f1], _ =>
    have hc3 := code3_bridge toc [f0, f1] (by simp) maxlen pad
    simp only [List.map_cons, List.map_nil] at hc3
    simp only [Repack.emit, Repack.firstPass, Repack.sdSize, List.map_cons, List.map_nil, EncSkel.outRange,
      Bool.false_eq_true, if_false, List.length_cons, List.length_nil, List.size_toArray]
    by_cases heq : f1.length = f0.length
    · rw [if_pos heq, if_pos heq]
      by_cases hbig : 2 * f0.length + 1 > maxlen
      · rw [if_pos hbig, if_pos (by omega)]; rfl
      · rw [if_neg hbig, if_neg (by omega)]
        simp only []
        by_cases hp : pad = true ∧ 2 * f0.length + 1 < maxlen
        · rw [if_pos hp, if_pos (Or.inr (Or.inl ⟨hp.1, by omega⟩)), hc3]
        · rw [if_neg hp, if_neg (by
            rintro (h | ⟨h1, h2⟩ | h)
            · omega
            · exact hp ⟨h1, by omega⟩
            · simp at h)]
          simp [emitOf, pktBytes]; omega
    · rw [if_neg heq, if_neg heq]
      generalize htt : f0.length + f1.length + 2 + (if f0.length ≥ 252 then 1 else 0) = tt
      have htt' : (0 : Int) + f0.length + f1.length + 2 + (if 252 ≤ f0.length then 1 else 0) = (tt : Int) := by
        rw [← htt]; split <;> push_cast <;> omega
      rw [htt']
      by_cases hbig : tt > maxlen
      · rw [if_pos hbig, if_pos (by omega)]; rfl
      · rw [if_neg hbig, if_neg (by omega)]
        simp only []
        by_cases hp : pad = true ∧ tt < maxlen
        · rw [if_pos hp, if_pos (Or.inr (Or.inl ⟨hp.1, by omega⟩)), hc3]
        · rw [if_neg hp, if_neg (by
            rintro (h | ⟨h1, h2⟩ | h)
            · omega
            · exact hp ⟨h1, by omega⟩
            · simp at h)]
          have hl : (Framing.encodeSize f0.length).length = 1 + (if f0.length ≥ 252 then 1 else 0) := by
            unfold Framing.encodeSize; split <;> split <;> simp <;> omega
          by_cases h252 : f0.length ≥ 252
          · rw [if_pos h252] at htt hl
            simp [emitOf, pktBytes, hl]; omega
          · rw [if_neg h252] at htt hl
            simp [emitOf, pktBytes, hl]; omega
  | f0 :: f1 :: f2 :: fs, _ =>
    have hc3 := code3_bridge toc (f0 :: f1 :: f2 :: fs) (by simp) maxlen pad
    have hfp : Repack.firstPass toc ((f0 :: f1 :: f2 :: fs).map List.length) 0 maxlen = .ok (0, []) := by
      simp [Repack.firstPass]
    unfold Repack.emit
    simp only [Repack.sdSize, Bool.false_eq_true, if_false, hfp]
    rw [if_pos (Or.inl (by simp))]
    rw [hc3]
    congr 1

end Opus.EncSkel.WfProofs
