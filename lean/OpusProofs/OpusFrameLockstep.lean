import OpusProofs.OpusFrameHybridCelt
/-
  C08, the frame-level capstone: for every kind of Opus frame whose decisions are representable and whose coder ends
  without error, the decoder's final range equals the one the encoder reports.

  `OpusFrameCase` collects, per frame kind, the encoder model and the hypotheses under which the lock step is proved;
  `opus_frame_lockstep_all` is the one statement over all of them.  What is NOT a case: hybrid frames WITH a
  redundancy frame (see `opus_frame_lockstep_hybrid_all`: the SILK part, the parse and the redundancy frame are
  proved; the CELT main part stays the hypothesis `CeltFrameRT`), silent CELT frames, DTX / one-byte frames.
-/
namespace Opus.OpusFrameProofs
open Opus Opus.RangeCoder Opus.SilkSyms Opus.SilkSymsEnc Opus.SilkSymsEncProofs Opus.OpusFrameEnc OpusProofs.CeltHdr

/-- An encoded frame of mode `mode` (1000 SILK-only, 1001 hybrid, 1002 CELT-only) together with the facts about its
    production that the lock-step proof uses. -/
inductive OpusFrameCase (bandwidth nCh ms10 spf48 : Nat) : Nat → FrameEnc → Prop
  /-- SILK-only, no redundancy: SILK decisions in the encoder's domain, `ec_enc_done` without error, within budget -/
  | silk (buf : List Nat) (maxData : Nat) (pk : PacketIn)
      (hbw : bandwidth = 1101 ∨ bandwidth = 1102 ∨ bandwidth = 1103)
      (hms : ms10 = 100 ∨ ms10 = 200 ∨ ms10 = 400 ∨ ms10 = 600)
      (hs : maxData - 1 ≤ buf.length) (hb : BytesOk buf) (hok : PacketOk (silkCfg bandwidth nCh ms10) pk)
      (hn : (encodeAll buf (maxData - 1) (packetOps (silkCfg bandwidth nCh ms10) pk)).nbitsTotal < 4294967296)
      (herr : (encodeAll buf (maxData - 1) (packetOps (silkCfg bandwidth nCh ms10) pk)).error = 0)
      (hfit : tell (encRun (encInit buf (maxData - 1)) (packetOps (silkCfg bandwidth nCh ms10) pk)) ≤
        8 * ((maxData - 1 : Nat) : Int)) :
      OpusFrameCase bandwidth nCh ms10 spf48 1000 (silkOnlyFrame buf maxData (silkCfg bandwidth nCh ms10) pk)
  /-- SILK-only with a 5 ms redundancy frame produced by the CELT encoder model on a coder of its own -/
  | silkRed (buf : List Nat) (maxData : Nat) (pk : PacketIn) (c2s : Nat) (w : World) (ccfg : Opus.CeltSymsEnc.EncCfg)
      (s0 : Opus.CeltSymsEnc.St) (fr : Opus.CeltBandsEnc.EncFrame)
      (hbw : bandwidth = 1101 ∨ bandwidth = 1102 ∨ bandwidth = 1103)
      (hms : ms10 = 100 ∨ ms10 = 200 ∨ ms10 = 400 ∨ ms10 = 600)
      (hs : maxData - 1 ≤ buf.length) (hb : BytesOk buf) (hok : PacketOk (silkCfg bandwidth nCh ms10) pk)
      (hc2s : c2s ≤ 1) (hown : OwnCoderFrame w ccfg s0 fr)
      (hcc : ccfg.start = 0 ∧ ccfg.end_ = Opus.CeltSyms.endBandOf bandwidth ∧ ccfg.C = nCh ∧ ccfg.LM = 1)
      (hn : (encodeAll buf (maxData - 1) (packetOps (silkCfg bandwidth nCh ms10) pk ++ redSigOps false true 1 c2s w.bytes.length)).nbitsTotal < 4294967296)
      (herr : (encodeAll buf (maxData - 1) (packetOps (silkCfg bandwidth nCh ms10) pk ++ redSigOps false true 1 c2s w.bytes.length)).error = 0)
      (hfit : tell (encRun (encInit buf (maxData - 1)) (packetOps (silkCfg bandwidth nCh ms10) pk ++ redSigOps false true 1 c2s w.bytes.length)) ≤
        8 * ((maxData - 1 : Nat) : Int))
      (hgate : tell (encRun (encInit buf (maxData - 1)) (packetOps (silkCfg bandwidth nCh ms10) pk)) + 17 ≤
        8 * (((tell (encRun (encInit buf (maxData - 1)) (packetOps (silkCfg bandwidth nCh ms10) pk ++ redSigOps false true 1 c2s w.bytes.length)) + 7) / 8) +
          (w.bytes.length : Int))) :
      OpusFrameCase bandwidth nCh ms10 spf48 1000 (silkRedFrame buf maxData (silkCfg bandwidth nCh ms10) pk c2s w.bytes fr.fin.rng)
  /-- hybrid without redundancy: SILK part, redundancy flag (if the budget test `gate` passed), CELT part from the
      CELT encoder model, all on one coder -/
  | hybrid (buf : List Nat) (maxData : Nat) (pk : PacketIn) (gate : Bool) (ccfg : Opus.CeltSymsEnc.EncCfg)
      (s0 : Opus.CeltSymsEnc.St) (fr : Opus.CeltBandsEnc.EncFrame)
      (hms : ms10 = 100 ∨ ms10 = 200)
      (hs : maxData - 1 ≤ buf.length) (hb : BytesOk buf) (hok : PacketOk (hybridCfg nCh ms10) pk)
      (hsuf : LegalRun (encRun (encInit buf (maxData - 1)) (packetOps (hybridCfg nCh ms10) pk ++ redSigOps true gate 0 0 0))
        (Op.shrink (maxData - 1 - 0) :: fr.ops))
      (hn29 : (encodeAll buf (maxData - 1) (hybridOps maxData (hybridCfg nCh ms10) pk gate 0 0 0 fr.ops)).nbitsTotal < 536870912)
      (herr : (encodeAll buf (maxData - 1) (hybridOps maxData (hybridCfg nCh ms10) pk gate 0 0 0 fr.ops)).error = 0)
      (hgate : (tell (encRun (encInit buf (maxData - 1)) (packetOps (hybridCfg nCh ms10) pk)) + 17 + 20 ≤
          8 * (((encodeAll buf (maxData - 1) (hybridOps maxData (hybridCfg nCh ms10) pk gate 0 0 0 fr.ops)).storage : Nat) : Int)) ↔
        gate = true)
      (hmainpos : 0 < (encodeAll buf (maxData - 1) (hybridOps maxData (hybridCfg nCh ms10) pk gate 0 0 0 fr.ops)).storage)
      (hcelt : HybridCelt buf maxData (hybridCfg nCh ms10) pk gate ccfg s0 fr)
      (hcc : ccfg.start = 17 ∧ ccfg.end_ = Opus.CeltSyms.endBandOf bandwidth ∧ ccfg.C = nCh ∧ ccfg.LM = Opus.CeltSyms.lmOf spf48) :
      OpusFrameCase bandwidth nCh ms10 spf48 1001 (hybridFrame buf maxData (hybridCfg nCh ms10) pk gate 0 0 fr.ops [] 0)
  /-- CELT-only: the frame the CELT encoder model produces on its coder -/
  | celt (w : World) (ccfg : Opus.CeltSymsEnc.EncCfg) (s0 : Opus.CeltSymsEnc.St) (fr : Opus.CeltBandsEnc.EncFrame)
      (hown : OwnCoderFrame w ccfg s0 fr) (hall : w.all = fr.ops)
      (hcc : ccfg.start = 0 ∧ ccfg.end_ = Opus.CeltSyms.endBandOf bandwidth ∧ ccfg.C = nCh ∧ ccfg.LM = Opus.CeltSyms.lmOf spf48) :
      OpusFrameCase bandwidth nCh ms10 spf48 1002 (celtOnlyFrame w.buf w.size w.all)

/-- CELT-only frame: C03's `celtFrame` on the finished packet ends with the encoder's final range. -/
theorem opus_frame_lockstep_celt_all (bandwidth nCh spf48 : Nat) (w : World) (ccfg : Opus.CeltSymsEnc.EncCfg)
    (s0 : Opus.CeltSymsEnc.St) (fr : Opus.CeltBandsEnc.EncFrame) (hown : OwnCoderFrame w ccfg s0 fr) (hall : w.all = fr.ops)
    (hcc : ccfg.start = 0 ∧ ccfg.end_ = Opus.CeltSyms.endBandOf bandwidth ∧ ccfg.C = nCh ∧ ccfg.LM = Opus.CeltSyms.lmOf spf48) :
    (celtOnlyFrame w.buf w.size w.all).payload = w.bytes ∧
    celtRangeFinal bandwidth nCh spf48 (celtOnlyFrame w.buf w.size w.all).payload =
      .ok (celtOnlyFrame w.buf w.size w.all).rangeFinal := by
  have hpay : (celtOnlyFrame w.buf w.size w.all).payload = w.bytes := rfl
  refine ⟨hpay, ?_⟩
  rw [hpay]
  obtain ⟨cf, h1, h2⟩ := hown.rt
  obtain ⟨c1, c2, c3, c4⟩ := hcc
  rw [c1, c2, c3, c4] at h1
  unfold celtRangeFinal
  rw [h1]
  show Res.ok cf.fin.c.rng = Res.ok (encodeAll w.buf w.size w.all).rng
  rw [h2]
  -- the encoder model's final `rng` is the coder's
  obtain ⟨dh, _, fa, _, _⟩ := celtFrame_roundtrip w [] ccfg s0 hown.ops0 hown.enc0 hown.storage0 fr hown.run hown.notSilent
    hown.inPacket hown.cfgOk hown.sizeOk hown.len hown.margin hown.room hown.tapset hown.intensity hown.dual
  rw [fa.encFin, List.nil_append, ← hall]
  unfold encodeAll World.encAt
  rw [encDone_rng]

/-- **Frame-level lock step, all frame kinds.**  Whatever the decoder's SILK history `st`: C03's decoder model run on
    the frame ends with `st->rangeFinal` equal to the encoder's. -/
theorem opus_frame_lockstep_all {bandwidth nCh ms10 spf48 mode : Nat} {f : FrameEnc}
    (h : OpusFrameCase bandwidth nCh ms10 spf48 mode f) (st : SilkSt) :
    frameRangeFinal mode bandwidth nCh ms10 spf48 st f.payload = .ok f.rangeFinal := by
  cases h with
  | silk buf maxData pk hbw hms hs hb hok hn herr hfit =>
    obtain ⟨o, o1, o2, _, o4, _, _⟩ := opus_frame_lockstep_silk_all buf maxData bandwidth nCh ms10 pk st hbw hms hs hb hok hn herr hfit
    unfold frameRangeFinal
    rw [if_neg (by decide), o1]
    show decRangeFinal 1000 bandwidth nCh spf48 _ o = _
    unfold decRangeFinal
    simp only [if_pos, o2, ne_eq, not_true_eq_false, if_false]
    rw [o4, Nat.xor_zero]
  | silkRed buf maxData pk c2s w ccfg s0 fr hbw hms hs hb hok hc2s hown hcc hn herr hfit hgate =>
    obtain ⟨o, o1, _, _, _, _, _, _, o8⟩ := opus_frame_lockstep_silk_red_celt_all buf maxData bandwidth nCh ms10 spf48 pk st c2s w
      ccfg s0 fr hbw hms hs hb hok hc2s hown hcc hn herr hfit hgate
    unfold frameRangeFinal
    rw [if_neg (by decide), o1]
    exact o8
  | hybrid buf maxData pk gate ccfg s0 fr hms hs hb hok hsuf hn29 herr hgate hmainpos hcelt hcc =>
    obtain ⟨o, o1, _, _, o4⟩ := opus_frame_lockstep_hybrid_celt_all buf maxData bandwidth nCh ms10 spf48 pk st gate ccfg s0 fr
      hms hs hb hok hsuf hn29 herr hgate hmainpos hcelt hcc
    unfold frameRangeFinal
    rw [if_neg (by decide), o1]
    exact o4
  | celt w ccfg s0 fr hown hall hcc =>
    unfold frameRangeFinal
    rw [if_pos rfl]
    exact (opus_frame_lockstep_celt_all bandwidth nCh spf48 w ccfg s0 fr hown hall hcc).2

end Opus.OpusFrameProofs
