import OpusProofs.SilkSymsHistory
/-
  C03: a packet-level bound on the pitch-lag index.  Counting argument from the zero state (every
  `silk_decode_indices` call moves the lag memory of its channel by at most −8…+11 or resets it into `[0, 255]`;
  a channel sees at most `nFramesPerPacket` LBRR decodes and `nFramesPerPacket` regular decodes per payload),
  transported to arbitrary decoder histories by `decodeOpusFrameCfg_hist`.
-/
namespace Opus.SilkSymsProofs
open Opus Opus.RangeCoder Opus.SilkSyms

/-- After at most `d` conditional steps the lag memory lies in `[-8d, 255 + 11d]` (only meaningful after a voiced frame). -/
def LagOk (d : Nat) (ch : Chan) : Prop :=
  ch.ecPrevSignalType = 2 → -(8 * (d : Int)) ≤ ch.ecPrevLagIndex ∧ ch.ecPrevLagIndex ≤ 255 + 11 * (d : Int)

def LagEv (d : Nat) : Ev → Prop
  | .indices _ _ _ _ _ _ _ _ ix => ix.signalType = 2 → -(8 * (d : Int)) ≤ ix.lagIndex ∧ ix.lagIndex ≤ 255 + 11 * (d : Int)
  | _ => True

def LagEvs (d : Nat) (l : List Ev) : Prop := ∀ e ∈ l, LagEv d e

theorem LagOk.mono {d d' : Nat} {ch : Chan} (h : LagOk d ch) (hd : d ≤ d') : LagOk d' ch := by
  intro hs; have := h hs; omega

theorem LagEv.mono {d d' : Nat} {e : Ev} (h : LagEv d e) (hd : d ≤ d') : LagEv d' e := by
  cases e <;> simp only [LagEv] at h ⊢
  intro hs; have := h hs; omega

theorem LagEvs.mono {d d' : Nat} {l : List Ev} (h : LagEvs d l) (hd : d ≤ d') : LagEvs d' l :=
  fun e he => (h e he).mono hd

theorem LagEvs.append {d : Nat} {a b : List Ev} (ha : LagEvs d a) (hb : LagEvs d b) : LagEvs d (a ++ b) := by
  intro e he
  simp only [List.mem_append] at he
  rcases he with h | h
  · exact ha e h
  · exact hb e h

theorem LagEvs.nil (d : Nat) : LagEvs d [] := fun _ h => by simp at h

theorem rate_khz_half (rate : Rate) : rate.kHz / 2 ≤ 8 := by cases rate <;> decide

theorem decodeOne_lag (cfg : Cfg) (hnb : 1 ≤ cfg.nbSubfr) (n fi lb cc : Nat) (ch : Chan) (c : Dec) (d : Nat)
    (hl : LagOk d ch) (evs : List Ev) (ch' : Chan) (c' : Dec) (h : decodeOne cfg n fi lb cc ch c = (evs, ch', c')) :
    LagEvs (d + 1) evs ∧ LagOk (d + 1) ch' := by
  unfold decodeOne at h
  generalize hy : decodeOneCore cfg n fi lb cc (decide (lb ≠ 0 ∨ ch.vad.getD fi 0 ≠ 0))
    (if cc = 2 then ch.ecPrevSignalType else 0) (if cc = 2 ∧ ch.ecPrevSignalType = 2 then ch.ecPrevLagIndex else 0) c = y at h
  split at h
  rename_i _ evs0 ix c2
  unfold decodeOneCore at hy
  generalize hix : decodeIndices cfg.rate cfg.nbSubfr (decide (lb ≠ 0 ∨ ch.vad.getD fi 0 ≠ 0)) cc
    (if cc = 2 then ch.ecPrevSignalType else 0) (if cc = 2 ∧ ch.ecPrevSignalType = 2 then ch.ecPrevLagIndex else 0) c = z at hy
  split at hy
  rename_i _ ix0 c1
  have hi := decodeIndices_ok cfg.rate cfg.nbSubfr hnb _ cc _ _ c ix0 c1 hix
  generalize decodePulses ix0.signalType ix0.quantOffsetType (frameLength cfg.rate cfg.nbSubfr) c1 = w at hy
  split at hy
  rename_i _ pu c2'
  simp only [Prod.mk.injEq] at hy
  obtain ⟨rfl, rfl, _⟩ := hy
  simp only [Prod.mk.injEq] at h
  obtain ⟨rfl, rfl, _⟩ := h
  have hk := rate_khz_half cfg.rate
  have key : ix0.signalType = 2 → -(8 * ((d + 1 : Nat) : Int)) ≤ ix0.lagIndex ∧ ix0.lagIndex ≤ 255 + 11 * ((d + 1 : Nat) : Int) := by
    intro hs
    rcases hi.lag hs with ⟨h0, h1⟩ | ⟨hc2, hps, h0, h1⟩
    · have : (32 : Int) * ((cfg.rate.kHz : Int) / 2) ≤ 256 := by
        have : ((cfg.rate.kHz / 2 : Nat) : Int) ≤ 8 := by exact_mod_cast hk
        have e : ((cfg.rate.kHz / 2 : Nat) : Int) = (cfg.rate.kHz : Int) / 2 := by simp
        omega
      push_cast
      omega
    · rw [if_pos hc2] at hps
      rw [if_pos ⟨hc2, hps⟩] at h0 h1
      have := hl hps
      push_cast
      omega
  refine ⟨?_, ?_⟩
  · intro e he
    simp only [List.mem_cons, List.mem_nil_iff, or_false] at he
    rcases he with rfl | rfl
    · exact key
    · trivial
  · intro hs
    dsimp only at hs ⊢
    rw [if_pos hs]
    exact key hs

/-! ### The skipping phase -/

/-- Lag memory of both channels and all events so far are within depth `d0` / `d1` / `max`. -/
structure SL (d0 d1 : Nat) (s : SkipSt) : Prop where
  c0 : LagOk d0 s.st.ch0
  c1 : LagOk d1 s.st.ch1
  ev : LagEvs (max d0 d1) s.evs

theorem SL.mono {d0 d1 e0 e1 : Nat} {s : SkipSt} (h : SL d0 d1 s) (h0 : d0 ≤ e0) (h1 : d1 ≤ e1) : SL e0 e1 s :=
  ⟨h.c0.mono h0, h.c1.mono h1, h.ev.mono (by omega)⟩

theorem skipStereoG_lag (P : Dec → StereoPred × Dec) (M : Dec → Nat × Dec) (cfg : Cfg) (i n d0 d1 : Nat) (s : SkipSt)
    (h : SL d0 d1 s) : SL d0 d1 (skipStereoG P M cfg i n s) := by
  unfold skipStereoG
  split
  · generalize P s.c = y
    split
    rename_i _ p c1
    dsimp only
    split
    · generalize M c1 = z
      refine ⟨h.c0, h.c1, ?_⟩
      dsimp only
      refine h.ev.append ?_
      intro e he
      simp only [List.mem_cons, List.mem_nil_iff, or_false] at he
      rcases he with rfl | rfl <;> trivial
    · refine ⟨h.c0, h.c1, ?_⟩
      dsimp only
      refine h.ev.append ?_
      intro e he
      simp only [List.mem_cons, List.mem_nil_iff, or_false] at he
      rcases he with rfl
      trivial
  · exact h

theorem skipOne_lag0 (cfg : Cfg) (hnb : 1 ≤ cfg.nbSubfr) (i d0 d1 : Nat) (s : SkipSt) (h : SL d0 d1 s) :
    SL (d0 + 1) d1 (skipOne cfg i 0 s) := by
  unfold skipOne
  split
  · unfold skipStereo
    have hs := skipStereoG_lag stereoDecodePred stereoDecodeMidOnly cfg i 0 d0 d1 s h
    generalize skipStereoG stereoDecodePred stereoDecodeMidOnly cfg i 0 s = t at hs
    generalize hd : decodeOne cfg 0 i 1 (if i > 0 ∧ (s.st.ch 0).lbrrFlags.getD (i - 1) 0 ≠ 0 then 2 else 0)
      (t.st.ch 0) t.c = y
    split
    rename_i _ evs ch' c1
    have hl := decodeOne_lag cfg hnb 0 i 1 _ (t.st.ch 0) t.c d0 (by simp only [ch_zero]; exact hs.c0) evs ch' c1 hd
    exact ⟨by simp only [setCh0_ch0]; exact hl.2, by simp only [setCh0_ch1]; exact hs.c1,
      (hs.ev.mono (by omega)).append (hl.1.mono (by omega))⟩
  · exact h.mono (by omega) (by omega)

theorem skipOne_lag1 (cfg : Cfg) (hnb : 1 ≤ cfg.nbSubfr) (i d0 d1 : Nat) (s : SkipSt) (h : SL d0 d1 s) :
    SL d0 (d1 + 1) (skipOne cfg i 1 s) := by
  unfold skipOne
  split
  · unfold skipStereo
    have hs := skipStereoG_lag stereoDecodePred stereoDecodeMidOnly cfg i 1 d0 d1 s h
    generalize skipStereoG stereoDecodePred stereoDecodeMidOnly cfg i 1 s = t at hs
    generalize hd : decodeOne cfg 1 i 1 (if i > 0 ∧ (s.st.ch 1).lbrrFlags.getD (i - 1) 0 ≠ 0 then 2 else 0)
      (t.st.ch 1) t.c = y
    split
    rename_i _ evs ch' c1
    have hl := decodeOne_lag cfg hnb 1 i 1 _ (t.st.ch 1) t.c d1 (by simp only [ch_one]; exact hs.c1) evs ch' c1 hd
    exact ⟨by simp only [setCh1_ch0]; exact hs.c0, by simp only [setCh1_ch1]; exact hl.2,
      (hs.ev.mono (by omega)).append (hl.1.mono (by omega))⟩
  · exact h.mono (by omega) (by omega)

theorem skipChans_lag (cfg : Cfg) (hnb : 1 ≤ cfg.nbSubfr) (hN : cfg.nCh = 1 ∨ cfg.nCh = 2) (i d0 d1 : Nat) (s : SkipSt)
    (h : SL d0 d1 s) : SL (d0 + 1) (d1 + 1) (skipChans cfg i (List.range cfg.nCh) s) := by
  rcases hN with hN | hN
  · have hr : List.range cfg.nCh = [0] := by rw [hN]; rfl
    rw [hr]
    unfold skipChans skipChans
    exact (skipOne_lag0 cfg hnb i d0 d1 s h).mono (by omega) (by omega)
  · have hr : List.range cfg.nCh = [0, 1] := by rw [hN]; rfl
    rw [hr]
    unfold skipChans skipChans skipChans
    exact skipOne_lag1 cfg hnb i (d0 + 1) d1 _ (skipOne_lag0 cfg hnb i d0 d1 s h)

theorem skipFrames_lag (cfg : Cfg) (hnb : 1 ≤ cfg.nbSubfr) (hN : cfg.nCh = 1 ∨ cfg.nCh = 2) :
    ∀ (is : List Nat) (d0 d1 : Nat) (s : SkipSt), SL d0 d1 s →
    SL (d0 + is.length) (d1 + is.length) (skipFrames cfg is s)
  | [], d0, d1, s, h => by unfold skipFrames; exact h
  | i :: is, d0, d1, s, h => by
    unfold skipFrames
    have := skipFrames_lag cfg hnb hN is (d0 + 1) (d1 + 1) _ (skipChans_lag cfg hnb hN i d0 d1 s h)
    simp only [List.length_cons]
    have e0 : d0 + 1 + is.length = d0 + (is.length + 1) := by omega
    have e1 : d1 + 1 + is.length = d1 + (is.length + 1) := by omega
    rw [e0, e1] at this
    exact this

/-! ### Header, calls, payload -/

theorem flagsEv_lag (d : Nat) (ch : Nat) (v : List Nat) (l : Nat) (f : List Nat) : LagEv d (.flags ch v l f) := trivial

theorem decodeFlagsMono_lag (cfg : Cfg) (st : SilkSt) (c : Dec) (d0 d1 : Nat) (h0 : LagOk d0 st.ch0) (h1 : LagOk d1 st.ch1) :
    SL d0 d1 (decodeFlagsMono cfg st c) := by
  unfold decodeFlagsMono
  generalize decodeChanFlags cfg.nfpp c = y
  split
  rename_i _ v0 l0 c1
  generalize decodeLbrrFlags cfg.nfpp l0 c1 = z
  split
  refine ⟨h0, h1, ?_⟩
  intro e he
  simp only [List.mem_cons, List.mem_nil_iff, or_false] at he
  rcases he with rfl
  trivial

theorem decodeFlagsStereo_lag (cfg : Cfg) (st : SilkSt) (c : Dec) (d0 d1 : Nat) (h0 : LagOk d0 st.ch0) (h1 : LagOk d1 st.ch1) :
    SL d0 d1 (decodeFlagsStereo cfg st c) := by
  unfold decodeFlagsStereo
  generalize decodeChanFlags cfg.nfpp c = y
  split
  rename_i _ v0 l0 c1
  generalize decodeChanFlags cfg.nfpp c1 = y
  split
  rename_i _ v1 l1 c2
  generalize decodeLbrrFlags cfg.nfpp l0 c2 = z
  split
  rename_i _ f0 c3
  generalize decodeLbrrFlags cfg.nfpp l1 c3 = z
  split
  refine ⟨h0, h1, ?_⟩
  intro e he
  simp only [List.mem_cons, List.mem_nil_iff, or_false] at he
  rcases he with rfl | rfl <;> trivial

theorem decodeHeader_lag (cfg : Cfg) (hnb : 1 ≤ cfg.nbSubfr) (hN : cfg.nCh = 1 ∨ cfg.nCh = 2) (st : SilkSt) (c : Dec)
    (d : Nat) (h0 : LagOk d st.ch0) (h1 : LagOk d st.ch1) :
    SL (d + cfg.nfpp) (d + cfg.nfpp) (decodeHeader cfg st c) := by
  unfold decodeHeader
  have hf : SL d d (if cfg.nCh = 2 then decodeFlagsStereo cfg st c else decodeFlagsMono cfg st c) := by
    split
    · exact decodeFlagsStereo_lag cfg st c d d h0 h1
    · exact decodeFlagsMono_lag cfg st c d d h0 h1
  split
  · have := skipFrames_lag cfg hnb hN (List.range cfg.nfpp) d d _ hf
    simpa using this
  · exact hf.mono (by omega) (by omega)

theorem decodeStereoHeadG_lag (P : Dec → StereoPred × Dec) (M : Dec → Nat × Dec) (cfg : Cfg) (st : SilkSt) (dom : Nat)
    (c : Dec) (d : Nat) : LagEvs d (decodeStereoHeadG P M cfg st dom c).2.2 := by
  unfold decodeStereoHeadG
  split
  · generalize P c = y
    split
    rename_i _ p c1
    split
    · generalize M c1 = z
      intro e he
      simp only [List.mem_cons, List.mem_nil_iff, or_false] at he
      rcases he with rfl | rfl <;> trivial
    · intro e he
      simp only [List.mem_cons, List.mem_nil_iff, or_false] at he
      rcases he with rfl
      trivial
  · exact LagEvs.nil d

theorem chanStep_lag (cfg : Cfg) (hnb : 1 ≤ cfg.nbSubfr) (reads : Bool) (n cc : Nat) (ch : Chan) (c : Dec) (d : Nat)
    (h : LagOk d ch) :
    LagEvs (d + 1) (chanStep cfg reads n cc ch c).1 ∧ LagOk (d + 1) (chanStep cfg reads n cc ch c).2.1 := by
  unfold chanStep
  split
  · generalize hd : decodeOne cfg n ch.nFramesDecoded cfg.lostFlag cc ch c = y
    split
    rename_i _ evs ch' c1
    have hl := decodeOne_lag cfg hnb n _ _ cc ch c d h evs ch' c1 hd
    exact ⟨hl.1, hl.2⟩
  · exact ⟨LagEvs.nil _, h.mono (by omega)⟩

theorem decodeChans_lag (cfg : Cfg) (hnb : 1 ≤ cfg.nbSubfr) (hs : Bool) (st : SilkSt) (c : Dec) (d : Nat)
    (h0 : LagOk d st.ch0) (h1 : LagOk d st.ch1) :
    LagEvs (d + 1) (decodeChans cfg hs st c).1 ∧ LagOk (d + 1) (decodeChans cfg hs st c).2.1.ch0 ∧
    LagOk (d + 1) (decodeChans cfg hs st c).2.1.ch1 := by
  by_cases h2 : cfg.nCh = 2
  · rw [decodeChans_stereo cfg hs st c h2]
    have a := chanStep_lag cfg hnb (readsFrame cfg hs 0 st.ch0) 0 (condCodingOf cfg st 0 st.ch0.nFramesDecoded) st.ch0 c d h0
    have b := chanStep_lag cfg hnb (readsFrame cfg hs 1 st.ch1) 1
      (condCodingOf cfg st 1 (step0 cfg hs st c).2.1.nFramesDecoded) st.ch1 (step0 cfg hs st c).2.2 d h1
    exact ⟨a.1.append b.1, by simp only [setCh1_ch0, setCh0_ch0]; exact a.2, by simp only [setCh1_ch1]; exact b.2⟩
  · rw [decodeChans_mono cfg hs st c h2]
    have a := chanStep_lag cfg hnb (readsFrame cfg hs 0 st.ch0) 0 (condCodingOf cfg st 0 st.ch0.nFramesDecoded) st.ch0 c d h0
    exact ⟨a.1, by simp only [setCh0_ch0]; exact a.2, by simp only [setCh0_ch1]; exact h1.mono (by omega)⟩

theorem decodeBody_lag (cfg : Cfg) (hnb : 1 ≤ cfg.nbSubfr) (h : SkipSt) (d : Nat) (hs : SL d d h) :
    LagEvs (d + 1) (decodeBody cfg h).1 ∧ LagOk (d + 1) (decodeBody cfg h).2.1.ch0 ∧
    LagOk (d + 1) (decodeBody cfg h).2.1.ch1 := by
  unfold decodeBody decodeStereoHead
  have h1 := decodeStereoHeadG_lag stereoDecodePred stereoDecodeMidOnly cfg h.st h.dom h.c (d + 1)
  generalize decodeStereoHeadG stereoDecodePred stereoDecodeMidOnly cfg h.st h.dom h.c = y at h1
  split
  rename_i _ dom c1 e1
  dsimp only at h1
  have h2 := decodeChans_lag cfg hnb (hasSideOf cfg h.st dom) h.st c1 d hs.c0 hs.c1
  generalize decodeChans cfg (hasSideOf cfg h.st dom) h.st c1 = z at h2
  split
  rename_i _ e2 st2 c2
  dsimp only at h2 ⊢
  refine ⟨?_, h2.2.1, h2.2.2⟩
  refine LagEvs.append (LagEvs.append (LagEvs.append (hs.ev.mono (by omega)) h1) h2.1) ?_
  intro e he
  simp only [List.mem_cons, List.mem_nil_iff, or_false] at he
  rcases he with rfl
  trivial

theorem beginCall_prev (cfg : Cfg) (np : Bool) (st : SilkSt) (d : Nat) (h0 : LagOk d st.ch0) (h1 : LagOk d st.ch1) :
    LagOk d (beginCall cfg np st).ch0 ∧ LagOk d (beginCall cfg np st).ch1 := by
  unfold beginCall
  dsimp only
  split <;> split <;> (try split) <;> (try split) <;> exact ⟨h0, h1⟩

theorem silkDecodeCall_lag (cfg : Cfg) (hnb : 1 ≤ cfg.nbSubfr) (hN : cfg.nCh = 1 ∨ cfg.nCh = 2) (np : Bool) (st : SilkSt)
    (c : Dec) (d : Nat) (h0 : LagOk d st.ch0) (h1 : LagOk d st.ch1) :
    LagEvs (d + cfg.nfpp + 1) (silkDecodeCall cfg np st c).1 ∧
    LagOk (d + cfg.nfpp + 1) (silkDecodeCall cfg np st c).2.1.ch0 ∧
    LagOk (d + cfg.nfpp + 1) (silkDecodeCall cfg np st c).2.1.ch1 := by
  unfold silkDecodeCall
  have hb := beginCall_prev cfg np st d h0 h1
  apply decodeBody_lag cfg hnb
  split
  · exact decodeHeader_lag cfg hnb hN _ c d hb.1 hb.2
  · exact ⟨hb.1.mono (by omega), hb.2.mono (by omega), LagEvs.nil _⟩


theorem chanStep_nfd (cfg : Cfg) (reads : Bool) (n cc : Nat) (ch : Chan) (c : Dec) :
    (chanStep cfg reads n cc ch c).2.1.nFramesDecoded = ch.nFramesDecoded + 1 :=
  (chanStep_rel cfg reads n cc ch ch c (ChanEqv.refl ch) (fun _ _ => ⟨rfl, fun _ => rfl⟩)).2.2.2.2.1

theorem decodeBody_nfd (cfg : Cfg) (h : SkipSt) :
    (decodeBody cfg h).2.1.ch0.nFramesDecoded = h.st.ch0.nFramesDecoded + 1 := by
  unfold decodeBody
  generalize decodeStereoHead cfg h.st h.dom h.c = y
  split
  rename_i _ dom c1 e1
  have key : (decodeChans cfg (hasSideOf cfg h.st dom) h.st c1).2.1.ch0.nFramesDecoded = h.st.ch0.nFramesDecoded + 1 := by
    by_cases h2 : cfg.nCh = 2
    · rw [decodeChans_stereo cfg _ h.st c1 h2]
      simp only [setCh1_ch0, setCh0_ch0]
      exact chanStep_nfd cfg _ 0 _ h.st.ch0 c1
    · rw [decodeChans_mono cfg _ h.st c1 h2]
      simp only [setCh0_ch0]
      exact chanStep_nfd cfg _ 0 _ h.st.ch0 c1
  generalize decodeChans cfg (hasSideOf cfg h.st dom) h.st c1 = z at key
  split
  exact key

/-- A later call of a payload (no header): one more step. -/
theorem silkDecodeCall_lag_later (cfg : Cfg) (hnb : 1 ≤ cfg.nbSubfr) (st : SilkSt) (c : Dec) (d : Nat)
    (hp : st.ch0.nFramesDecoded ≠ 0) (h0 : LagOk d st.ch0) (h1 : LagOk d st.ch1) :
    LagEvs (d + 1) (silkDecodeCall cfg false st c).1 ∧ LagOk (d + 1) (silkDecodeCall cfg false st c).2.1.ch0 ∧
    LagOk (d + 1) (silkDecodeCall cfg false st c).2.1.ch1 ∧ (silkDecodeCall cfg false st c).2.1.ch0.nFramesDecoded ≠ 0 := by
  unfold silkDecodeCall
  rw [beginCall_false cfg st hp, if_neg hp]
  have hb := decodeBody_lag cfg hnb { st := st, dom := 0, c := c, evs := [] } d ⟨h0, h1, LagEvs.nil _⟩
  have hn := decodeBody_nfd cfg { st := st, dom := 0, c := c, evs := [] }
  exact ⟨hb.1, hb.2.1, hb.2.2, by rw [hn]; omega⟩

theorem silkDecodeCall_nfd (cfg : Cfg) (np : Bool) (st : SilkSt) (c : Dec) :
    (silkDecodeCall cfg np st c).2.1.ch0.nFramesDecoded ≠ 0 := by
  unfold silkDecodeCall
  rw [decodeBody_nfd]
  omega

theorem silkCalls_lag_later (cfg : Cfg) (hnb : 1 ≤ cfg.nbSubfr) : ∀ (k : Nat) (st : SilkSt) (c : Dec) (d : Nat),
    st.ch0.nFramesDecoded ≠ 0 → LagOk d st.ch0 → LagOk d st.ch1 → LagEvs (d + k) (silkCalls cfg k false st c).1
  | 0, st, c, d, _, _, _ => by unfold silkCalls; exact LagEvs.nil _
  | k + 1, st, c, d, hp, h0, h1 => by
    unfold silkCalls
    have hc := silkDecodeCall_lag_later cfg hnb st c d hp h0 h1
    generalize silkDecodeCall cfg false st c = y at hc
    split
    rename_i _ e1 st1 c1
    dsimp only at hc
    have ih := silkCalls_lag_later cfg hnb k st1 c1 (d + 1) hc.2.2.2 hc.2.1 hc.2.2.1
    generalize silkCalls cfg k false st1 c1 = z at ih
    split
    rename_i _ e2 st2 c2
    dsimp only at ih ⊢
    have e : d + 1 + k = d + (k + 1) := by omega
    rw [e] at ih
    exact (hc.1.mono (by omega)).append ih

/-- All calls of a payload, from a state whose lag memory is within depth `d`. -/
theorem silkCalls_lag (cfg : Cfg) (hnb : 1 ≤ cfg.nbSubfr) (hN : cfg.nCh = 1 ∨ cfg.nCh = 2) (k : Nat) (st : SilkSt)
    (c : Dec) (d : Nat) (h0 : LagOk d st.ch0) (h1 : LagOk d st.ch1) :
    LagEvs (d + cfg.nfpp + k) (silkCalls cfg k true st c).1 := by
  cases k with
  | zero => unfold silkCalls; exact LagEvs.nil _
  | succ k =>
    unfold silkCalls
    have hc := silkDecodeCall_lag cfg hnb hN true st c d h0 h1
    have hn := silkDecodeCall_nfd cfg true st c
    generalize silkDecodeCall cfg true st c = y at hc hn
    split
    rename_i _ e1 st1 c1
    dsimp only at hc hn
    have ih := silkCalls_lag_later cfg hnb k st1 c1 (d + cfg.nfpp + 1) hn hc.2.1 hc.2.2
    generalize silkCalls cfg k false st1 c1 = z at ih
    split
    rename_i _ e2 st2 c2
    dsimp only at ih ⊢
    have e : d + cfg.nfpp + 1 + k = d + cfg.nfpp + (k + 1) := by omega
    rw [e] at ih
    exact (hc.1.mono (by omega)).append ih

theorem zero_state_lag : LagOk 0 ({} : SilkSt).ch0 ∧ LagOk 0 ({} : SilkSt).ch1 := by
  constructor <;> intro h <;> exact absurd h (by decide)

/-- Every lag index of a payload lies in `[-8·2·nfpp, 255 + 11·2·nfpp]`, whatever the incoming decoder state. -/
theorem decodeOpusFrameCfg_lag (mode ir pm : Nat) (fec : Bool) (cfg : Cfg) (hnb : 1 ≤ cfg.nbSubfr)
    (hN : cfg.nCh = 1 ∨ cfg.nCh = 2) (hL : cfg.lostFlag = 0 ∨ cfg.lostFlag = 2) (st : SilkSt) (fr : Bytes) :
    LagEvs (2 * cfg.nfpp) (decodeOpusFrameCfg mode ir pm fec cfg st fr).evs := by
  have hh := decodeOpusFrameCfg_hist mode ir pm fec cfg hN hL st {} fr
  have he : (decodeOpusFrameCfg mode ir pm fec cfg st fr).evs = (decodeOpusFrameCfg mode ir pm fec cfg {} fr).evs := by
    have := congrArg FrameOut.evs hh
    simpa [FrameOut.obs] using this
  rw [he]
  unfold decodeOpusFrameCfg
  have h := silkCalls_lag cfg hnb hN cfg.nfpp {} (decInit fr fr.length) 0 zero_state_lag.1 zero_state_lag.2
  generalize silkCalls cfg cfg.nfpp true {} (decInit fr fr.length) = y at h
  split
  rename_i _ evs st1 c1
  dsimp only at h ⊢
  generalize redundancyHeader mode fec fr.length c1 = z
  have e : 0 + cfg.nfpp + cfg.nfpp = 2 * cfg.nfpp := by omega
  rw [e] at h
  exact h

theorem packetShape_nfpp (ms nfpp nb : Nat) (h : packetShape ms = .ok (nfpp, nb)) : nfpp ≤ 3 := by
  unfold packetShape at h
  repeat' split at h
  all_goals first | (simp only [Res.ok.injEq, Prod.mk.injEq] at h; omega) | (exact absurd h (by simp))

theorem decodeOpusFrame_lag (mode bw nCh ms10 : Nat) (hN : nCh = 1 ∨ nCh = 2) (fec : Bool) (st : SilkSt) (fr : Bytes)
    (o : FrameOut) (h : decodeOpusFrame mode bw nCh ms10 fec st fr = .ok o) : LagEvs 6 o.evs := by
  unfold decodeOpusFrame at h
  split at h
  · split at h
    · rename_i nfpp nb hps
      split at h
      · rename_i _ ir _ _ _ rate _
        simp only [Res.ok.injEq] at h
        rw [← h]
        have := decodeOpusFrameCfg_lag mode ir (max 10 (ms10 / 10)) fec
          { rate := rate, nCh := nCh, nfpp := nfpp, nbSubfr := nb, lostFlag := if fec then 2 else 0 }
          (packetShape_nb _ _ _ hps) hN (by dsimp only; cases fec <;> simp) st fr
        exact this.mono (by have := packetShape_nfpp _ _ _ hps; dsimp only; omega)
      all_goals exact absurd h (by simp)
    all_goals exact absurd h (by simp)
  all_goals exact absurd h (by simp)

/-- Lag bound for one frame record of a packet. -/
def FrameResLag : FrameRes → Prop
  | .silk _ o => LagEvs 6 o.evs
  | _ => True

theorem framesLoop_lag (toc : Nat) (pkt : Bytes) (fec : Bool) : ∀ (spans : List (Nat × Nat)) (st : SilkSt)
    (l : List FrameRes), framesLoop toc pkt fec spans st = .ok l → ∀ f ∈ l, FrameResLag f
  | [], st, l, h => by
    unfold framesLoop at h
    simp only [Res.ok.injEq] at h
    rw [← h]; intro f hf; simp at hf
  | (off, sz) :: rest, st, l, h => by
    unfold framesLoop at h
    split at h
    · split at h
      · rename_i l' hl
        simp only [Res.ok.injEq] at h
        rw [← h]
        intro f hf
        simp only [List.mem_cons] at hf
        rcases hf with rfl | hf
        · trivial
        · exact framesLoop_lag toc pkt fec rest st l' hl f hf
      · rename_i hne
        exact absurd h (hne l)
    · split at h
      · split at h
        · rename_i l' hl
          simp only [Res.ok.injEq] at h
          rw [← h]
          intro f hf
          simp only [List.mem_cons] at hf
          rcases hf with rfl | hf
          · trivial
          · exact framesLoop_lag toc pkt fec rest st l' hl f hf
        · rename_i hne
          exact absurd h (hne l)
      · split at h
        · rename_i o ho
          split at h
          · rename_i l' hl
            simp only [Res.ok.injEq] at h
            rw [← h]
            intro f hf
            simp only [List.mem_cons] at hf
            rcases hf with rfl | hf
            · have hN : Framing.getNbChannels toc = 1 ∨ Framing.getNbChannels toc = 2 := by
                unfold Framing.getNbChannels; split <;> simp
              exact decodeOpusFrame_lag _ _ _ _ hN _ _ _ o ho
            · exact framesLoop_lag toc pkt fec rest o.st l' hl f hf
          · rename_i hne
            exact absurd h (hne l)
        all_goals exact absurd h (by simp)

theorem decodePacket_lag (fs : Nat) (fec pc : Bool) (st : SilkSt) (pkt : Bytes) (l : List FrameRes)
    (h : decodePacket fs fec pc st pkt = .ok (some l)) : ∀ f ∈ l, FrameResLag f := by
  unfold decodePacket at h
  split at h
  · split at h
    · unfold decodeFrames at h
      split at h
      · split at h
        · exact absurd h (by simp)
        · exact framesLoop_lag _ _ _ _ _ l (someRes_ok _ l h)
      · exact framesLoop_lag _ _ _ _ _ l (someRes_ok _ l h)
    all_goals exact absurd h (by simp)
  · exact absurd h (by simp)

end Opus.SilkSymsProofs
