import OpusProofs.CeltCallees2
/-
  OpusProofs.CeltCallees2Fft — facts about the REGENERATED tables of the static mode's four FFT states
  (`Gen.CeltFft`: nfft, shift, factors[16], bitrev[nfft]) that the index proof of `clt_mdct_backward_c` rests on:
  the bit-reversal tables are permutations of `[0, nfft)`, the factor walk of `opus_fft_impl` ends inside
  `factors[2*MAXFACTORS]` / `fstride[MAXFACTORS]`, and every element the butterflies touch is inside `fout[0 .. nfft)`
  and `twiddles[0 .. 480)`.  All by kernel evaluation over the COMPLETE tables / the complete hit list of each state.
-/
namespace Opus.CeltCallees2
open Opus.Gen.CeltFft

/-! ## Bit-reversal tables -/

/-- Bit mask of the entries (`Nat.lor` / `Nat.shiftLeft` are evaluated natively by the kernel). -/
def maskOf (l : List Int) : Nat := l.foldl (fun acc x => acc ||| (1 <<< x.toNat)) 0

/-- `n` entries, all inside `[0, n)`, and the bit mask of the entries is `2^n − 1`, i.e. every value of `[0, n)` occurs. -/
def isPerm (l : List Int) (n : Nat) : Bool :=
  l.length == n && l.all (fun x => decide (0 ≤ x) && decide (x < n)) && maskOf l == 2 ^ n - 1

theorem bitrev0_perm : isPerm bitrev0 480 = true := by decide +kernel
theorem bitrev1_perm : isPerm bitrev1 240 = true := by decide +kernel
theorem bitrev2_perm : isPerm bitrev2 120 = true := by decide +kernel
theorem bitrev3_perm : isPerm bitrev3 60 = true := by decide +kernel

theorem testBit_fold (l : List Int) (acc k : Nat) :
    (l.foldl (fun acc x => acc ||| (1 <<< x.toNat)) acc).testBit k = (acc.testBit k || l.any (fun x => x.toNat == k)) := by
  induction l generalizing acc with
  | nil => simp
  | cons a t ih =>
    rw [List.foldl_cons, ih, Nat.testBit_or, Nat.one_shiftLeft, Nat.testBit_two_pow, List.any_cons, Bool.or_assoc]
    congr 2

/-- What `isPerm l n = true` means: `n` entries, all inside `[0, n)`, every value of `[0, n)` present (hence, by
    counting, each exactly once). -/
theorem isPerm_spec {l : List Int} {n : Nat} (h : isPerm l n = true) :
    l.length = n ∧ (∀ x ∈ l, 0 ≤ x ∧ x < n) ∧ (∀ k : Nat, k < n → (k : Int) ∈ l) := by
  unfold isPerm at h
  simp only [Bool.and_eq_true, beq_iff_eq, List.all_eq_true, decide_eq_true_eq] at h
  refine ⟨h.1.1, h.1.2, fun k hk => ?_⟩
  have hb : (maskOf l).testBit k = true := by rw [h.2, Nat.testBit_two_pow_sub_one]; exact decide_eq_true hk
  unfold maskOf at hb
  rw [testBit_fold] at hb
  simp only [Nat.zero_testBit, Bool.false_or, List.any_eq_true, beq_iff_eq] at hb
  obtain ⟨x, hx, hxk⟩ := hb
  have := (h.1.2 x hx).1
  have e : x = (k : Int) := by omega
  exact e ▸ hx

theorem getD_mem_range {l : List Int} {n : Nat} (h : isPerm l n = true) (i : Int) (h0 : 0 ≤ i) (h1 : i < n) :
    0 ≤ l.getD i.toNat 0 ∧ l.getD i.toNat 0 < n := by
  obtain ⟨hl, hr, _⟩ := isPerm_spec h
  have hi : i.toNat < l.length := by omega
  rw [List.getD_eq_getElem?_getD, List.getElem?_eq_getElem hi, Option.getD_some]
  exact hr _ (List.getElem_mem hi)

/-! ## opus_fft_impl on the four states -/

/-- Bounds of `opus_fft_impl(st, fout)`: `fout[0 .. nfft)` (complex elements), `st->twiddles[0 .. 480)`,
    `st->factors[0 .. 2*MAXFACTORS)`, local `fstride[MAXFACTORS]`. -/
def fftB (nfft : Int) : CArr → Int × Int
  | .fout => (0, nfft - 1) | .tw => (0, twiddleLen - 1) | .factors => (0, 2 * MAXFACTORS - 1) | .fstride => (0, MAXFACTORS - 1)
  | _ => (1, 0)

def inBb (B : CArr → Int × Int) (h : Hit) : Bool := decide ((B h.arr).1 ≤ h.idx) && decide (h.idx ≤ (B h.arr).2)

theorem inBb_spec (B : CArr → Int × Int) (h : Hit) (hb : inBb B h = true) : InB B h := by
  unfold inBb at hb
  simp only [Bool.and_eq_true, decide_eq_true_eq] at hb
  exact hb

theorem fft0_hits : (fftImplHits (kfft 0)).all (inBb (fftB 480)) = true := by decide +kernel
theorem fft1_hits : (fftImplHits (kfft 1)).all (inBb (fftB 240)) = true := by decide +kernel
theorem fft2_hits : (fftImplHits (kfft 2)).all (inBb (fftB 120)) = true := by decide +kernel
theorem fft3_hits : (fftImplHits (kfft 3)).all (inBb (fftB 60)) = true := by decide +kernel

theorem fft0_in : All (InB (fftB 480)) (fftImplHits (kfft 0)) := all_of_bool fft0_hits (inBb_spec _)
theorem fft1_in : All (InB (fftB 240)) (fftImplHits (kfft 1)) := all_of_bool fft1_hits (inBb_spec _)
theorem fft2_in : All (InB (fftB 120)) (fftImplHits (kfft 2)) := all_of_bool fft2_hits (inBb_spec _)
theorem fft3_in : All (InB (fftB 60)) (fftImplHits (kfft 3)) := all_of_bool fft3_hits (inBb_spec _)

/-- The `celt_assert(m==4)` of `kf_bfly2` and the remark "m is guaranteed to be a multiple of 4" / `do … while(--k)` of
    `kf_bfly3` (`m ≥ 1`): every radix-2 stage of the four factor lists has `m = 4`, every stage has `m ≥ 1`, the radices
    are 2, 3, 4 or 5 (no stage falls through the `switch`), the stage list is not empty, and the stage executed first (the
    last pair the factor walk read) has `m = 1`: the walk's `do … while (m != 1)` ended by its own condition within
    `MAXFACTORS` pairs, not by the model's fuel. -/
def stagesOk (st : FftState) : Bool :=
  !(stagesOf st).isEmpty && ((stagesOf st).head?.map (·.m)) == some 1 &&
  (stagesOf st).all fun s => decide (1 ≤ s.m) && (s.p == 2 || s.p == 3 || s.p == 4 || s.p == 5) && (s.p != 2 || s.m == 4)

theorem stages_ok : stagesOk (kfft 0) = true ∧ stagesOk (kfft 1) = true ∧ stagesOk (kfft 2) = true ∧ stagesOk (kfft 3) = true := by
  decide +kernel

/-- The butterflies cover `fout` completely: every stage's groups tile `[0, nfft)` (`N * mm = nfft` resp.
    `N * p * m = nfft`), i.e. the hit lists above are the full FFT, not a truncated walk. -/
def stagesTile (st : FftState) : Bool :=
  (stagesOf st).all fun s => s.fs * s.p * s.m == st.nfft && (s.i == 0 || s.mm == s.p * s.m)

theorem stages_tile : stagesTile (kfft 0) = true ∧ stagesTile (kfft 1) = true ∧ stagesTile (kfft 2) = true ∧ stagesTile (kfft 3) = true := by
  decide +kernel

end Opus.CeltCallees2
