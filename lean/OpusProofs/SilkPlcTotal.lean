import OpusModel.SilkPlcConcealChk
import OpusProofs.SilkPlcInv
/-
  OpusProofs.SilkPlcTotal — the checked reads of silk_PLC_conceal (OpusModel.SilkPlcConcealChk): they return the values
  the unchecked model uses, and under the decoder configuration + `PlcInv` none of them leaves its array.
-/
namespace Opus.SilkPlc
open Opus Opus.SilkParams Opus.Gen.PlcConsts Opus.Gen.SilkPlcCngConsts

theorem agetC_ok (a : Array Int) (i : Int) (h0 : 0 ≤ i) (h1 : i < a.size) : agetC a i = .ok (agetI a i) := by
  unfold agetC; rw [if_pos ⟨h0, h1⟩]

theorem ltpPredC_ok (buf : Array Int) (p : Int) : ∀ (B : List Int) (j acc : Int),
    (B.length : Int) ≤ p - j + 1 → p - j < buf.size → ltpPredC buf p B j acc = .ok (ltpPred buf p B j acc)
  | [], _, _, _, _ => rfl
  | b :: bs, j, acc, h1, h2 => by
    simp only [List.length_cons, Int.natCast_add, Int.natCast_one] at h1
    unfold ltpPredC ltpPred
    rw [agetC_ok buf (p - j) (by omega) h2]
    exact ltpPredC_ok buf p bs (j + 1) _ (by omega) (by omega)

theorem ltpSubfrC_ok (rnd : Array Int) (roff : Int) (B : List Int) (rs lag : Int) (hB : B.length = 5) (hl : 3 ≤ lag)
    (hr0 : 0 ≤ roff) (hr1 : roff + 128 ≤ rnd.size) : ∀ (n : Nat) (buf : Array Int) (seed : Int),
    lag + 2 ≤ buf.size → ltpSubfrC rnd roff B rs lag n buf seed = .ok (ltpSubfr rnd roff B rs lag n buf seed)
  | 0, _, _, _ => rfl
  | n + 1, buf, seed, h => by
    have h5 : LTP_ORDER = 5 := rfl
    have hm : RAND_BUF_MASK = 127 := rfl
    unfold ltpSubfrC ltpSubfr
    rw [ltpPredC_ok buf _ B 0 2 (by rw [hB, h5]; omega) (by rw [h5]; omega)]
    dsimp only
    rw [agetC_ok rnd _ (by rw [hm]; omega) (by rw [hm]; omega)]
    exact ltpSubfrC_ok rnd roff B rs lag hB hl hr0 hr1 n _ _ (by simp only [Array.size_push]; omega)

theorem ltpSubfr_size (rnd : Array Int) (roff : Int) (B : List Int) (rs lag : Int) : ∀ (n : Nat) (buf : Array Int) (seed : Int),
    (ltpSubfr rnd roff B rs lag n buf seed).1.size = buf.size + n
  | 0, _, _ => rfl
  | n + 1, buf, seed => by
    unfold ltpSubfr
    rw [ltpSubfr_size rnd roff B rs lag n]
    simp only [Array.size_push]; omega

/-- The sub-frame loop: with five taps, `pitchL_Q8` within [2, 18] ms and at least `ltp_mem_length` = 20 ms of samples in
    `sLTP_Q14`, no read through `pred_lag_ptr` or `rand_ptr` leaves its array, and the values are the unchecked model's. -/
theorem ltpLoopC_ok (rnd : Array Int) (roff : Int) (sl : Nat) (fs harm rg : Int) (hfs : FsOk fs)
    (hr0 : 0 ≤ roff) (hr1 : roff + 128 ≤ rnd.size) : ∀ (k : Nat) (s : LtpLoop),
    s.B.length = 5 → (512 * fs ≤ s.pq8 ∧ s.pq8 ≤ 4608 * fs) → 20 * fs ≤ s.buf.size →
    ltpLoopC rnd roff sl fs harm rg k s = .ok (ltpLoop rnd roff sl fs harm rg k s)
  | 0, _, _, _, _ => rfl
  | k + 1, s, hB, hp, hs => by
    have hf : 8 ≤ fs ∧ fs ≤ 16 := by rcases hfs with h | h | h <;> omega
    have hlag : 3 ≤ lagOf s.pq8 ∧ lagOf s.pq8 + 2 ≤ 20 * fs := by rw [lagOf_eq]; omega
    unfold ltpLoopC ltpLoop
    rw [ltpSubfrC_ok rnd roff s.B s.rs _ hB hlag.1 hr0 hr1 sl s.buf s.seed (by omega)]
    dsimp only
    exact ltpLoopC_ok rnd roff sl fs harm rg hfs hr0 hr1 k _ (by simp [hB]) (pitchDrift_range fs _ hfs hp)
      (by dsimp only; rw [ltpSubfr_size]; omega)

theorem firAccC_ok (x : Array Int) (ix : Int) : ∀ (B : List Int) (j acc : Int),
    (B.length : Int) ≤ ix - 1 - j + 1 → ix - 1 - j < x.size → firAccC x ix B j acc = .ok (firAcc x ix B j acc)
  | [], _, _, _, _ => rfl
  | b :: bs, j, acc, h1, h2 => by
    simp only [List.length_cons, Int.natCast_add, Int.natCast_one] at h1
    unfold firAccC firAcc
    rw [agetC_ok x _ (by omega) h2]
    exact firAccC_ok x ix bs (j + 1) _ (by omega) (by omega)

theorem firRowsC_ok (x : Array Int) (B : List Int) : ∀ (n : Nat) (ix : Int),
    (B.length : Int) ≤ ix → ix + n ≤ x.size → ∃ vs, firRowsC x B n ix = .ok vs
  | 0, _, _, _ => ⟨[], rfl⟩
  | n + 1, ix, h1, h2 => by
    obtain ⟨vs, hv⟩ := firRowsC_ok x B n (ix + 1) (by omega) (by omega)
    unfold firRowsC firSampleC
    rw [firAccC_ok x ix B 0 0 (by omega) (by omega), agetC_ok x ix (by omega) (by omega), hv]
    exact ⟨_, rfl⟩

theorem energyRowC_ok (exc : Array Int) (g off : Int) (h0 : 0 ≤ off) : ∀ (n : Nat) (i : Int),
    0 ≤ i → i + n + off ≤ exc.size → ∃ vs, energyRowC exc g off n i = .ok vs
  | 0, _, _, _ => ⟨[], rfl⟩
  | n + 1, i, hi, h => by
    obtain ⟨vs, hv⟩ := energyRowC_ok exc g off h0 n (i + 1) (by omega) (by omega)
    unfold energyRowC
    rw [agetC_ok exc _ (by omega) (by omega), hv]
    exact ⟨_, rfl⟩

end Opus.SilkPlc
