import OpusModel.KernelsPvq
import Mathlib.Tactic.Ring
import Mathlib.Tactic.Linarith
import Mathlib.Algebra.Order.Floor.Ring
import Mathlib.Data.Rat.Floor
/-
  OpusProofs.KernelsPvq — whatever the floating-point arg-max and pre-search return (within their contracts), the PVQ
  search hands back exactly K pulses, signed like the input, and `yy = Σ iy²`.
-/
namespace Opus.Kernels.Pvq

theorem bump_length (l : List Nat) (i d : Nat) : (bump l i d).length = l.length := by
  induction l generalizing i with
  | nil => rfl
  | cons v l ih => cases i <;> simp [bump, ih]

theorem bump_sum (l : List Nat) (i d : Nat) (h : i < l.length) : sum (bump l i d) = sum l + d := by
  induction l generalizing i with
  | nil => simp at h
  | cons v l ih =>
    cases i with
    | zero => simp only [bump, sum]; omega
    | succ i =>
      simp only [bump, sum]
      rw [ih i (by simpa using h)]; omega

theorem bump_sumSq (l : List Nat) (i d : Nat) (h : i < l.length) :
    sumSq (bump l i d) = sumSq l + d * d + d * (2 * l.getD i 0) := by
  induction l generalizing i with
  | nil => simp at h
  | cons v l ih =>
    cases i with
    | zero => simp only [bump, sumSq, List.getD_cons_zero]; ring
    | succ i =>
      simp only [bump, sumSq, List.getD_cons_succ]
      rw [ih i (by simpa using h)]; ring

/-- the loop invariant: right length, `yy` is the energy, pulses placed + pulses left = K. -/
def Inv (n K : Nat) (s : St) : Prop := s.iy.length = n ∧ s.yy = sumSq s.iy ∧ sum s.iy + s.left = K

theorem dumpStep_inv (n K : Nat) (s : St) (hn : 0 < n) (h : Inv n K s) : Inv n K (dumpStep n s) := by
  obtain ⟨h1, h2, h3⟩ := h
  unfold dumpStep
  split
  · refine ⟨by simp [bump_length, h1], ?_, ?_⟩
    · simp only []; rw [bump_sumSq _ _ _ (by omega), h2]
    · simp only []; rw [bump_sum _ _ _ (by omega)]; omega
  · exact ⟨h1, h2, h3⟩

theorem greedyStep_inv (n K best : Nat) (s : St) (hb : best < n) (hl : 0 < s.left) (h : Inv n K s) :
    Inv n K (greedyStep best s) ∧ (greedyStep best s).left = s.left - 1 := by
  obtain ⟨h1, h2, h3⟩ := h
  unfold greedyStep
  refine ⟨⟨by simp [bump_length, h1], ?_, ?_⟩, rfl⟩
  · simp only []; rw [bump_sumSq _ _ _ (by omega), h2]; ring
  · simp only []; rw [bump_sum _ _ _ (by omega)]; omega

theorem greedy_inv (n K : Nat) (pick : St → Nat) (hp : ∀ s, pick s < n) (c : Nat) (s : St)
    (hc : s.left = c) (h : Inv n K s) : Inv n K (greedy pick c s) ∧ (greedy pick c s).left = 0 := by
  induction c generalizing s with
  | zero => exact ⟨h, hc⟩
  | succ c ih =>
    have hs := greedyStep_inv n K (pick s) s (hp s) (by omega) h
    exact ih _ (by rw [hs.2]; omega) hs.1

/-! sign restoration -/

theorem signRestoreC_eq (v : Nat) (neg : Bool) : signRestoreC v neg = if neg then -(v : Int) else v := by
  unfold signRestoreC xorMask; cases neg <;> simp <;> omega

theorem signRestoreSse_eq (v : Nat) (neg : Bool) : signRestoreSse v neg = if neg then -(v : Int) else v := by
  unfold signRestoreSse xorMask; cases neg <;> simp <;> omega

theorem zipSign_facts (f : Nat → Bool → Int) (hf : ∀ v b, f v b = if b then -(v : Int) else v)
    (l : List Nat) (bs : List Bool) (hlen : l.length = bs.length) :
    (zipSign f l bs).length = l.length ∧ sumAbs (zipSign f l bs) = sum l ∧
    sumSqI (zipSign f l bs) = (sumSq l : Int) ∧
    (∀ j, j < l.length → (bs.getD j false = true → (zipSign f l bs).getD j 0 ≤ 0) ∧
                          (bs.getD j false = false → 0 ≤ (zipSign f l bs).getD j 0)) := by
  induction l generalizing bs with
  | nil => cases bs <;> simp [zipSign, sumAbs, sum, sumSqI, sumSq]
  | cons v l ih =>
    cases bs with
    | nil => simp at hlen
    | cons b bs =>
      obtain ⟨i1, i2, i3, i4⟩ := ih bs (by simpa using hlen)
      simp only [zipSign, sumAbs, sum, sumSqI, sumSq, List.length_cons]
      refine ⟨by omega, ?_, ?_, ?_⟩
      · rw [i2, hf]; cases b <;> simp
      · rw [i3, hf]; cases b <;> simp <;> push_cast <;> ring
      · intro j hj
        cases j with
        | zero => simp only [List.getD_cons_zero, hf]; cases b <;> simp
        | succ j => simp only [List.getD_cons_succ]; exact i4 j (by omega)

/-- the relational property, for either sign-restoration idiom. -/
theorem search_spec (restore : Nat → Bool → Int) (hr : ∀ v b, restore v b = if b then -(v : Int) else v)
    (n K : Nat) (proj : List Nat) (pick : St → Nat) (signs : List Bool)
    (hn : 0 < n) (hproj : proj.length = n) (hsum : sum proj ≤ K) (hpick : ∀ s, pick s < n) (hs : signs.length = n) :
    let r := search restore n K proj pick signs
    r.1.length = n ∧ sumAbs r.1 = K ∧ (r.2 : Int) = sumSqI r.1 ∧
    (∀ j, j < n → (signs.getD j false = true → r.1.getD j 0 ≤ 0) ∧ (signs.getD j false = false → 0 ≤ r.1.getD j 0)) := by
  intro r
  have h0 : Inv n K { iy := proj, yy := sumSq proj, left := K - sum proj } := ⟨hproj, rfl, by simp only []; omega⟩
  have h1 := dumpStep_inv n K _ hn h0
  have h2 := greedy_inv n K pick hpick _ _ rfl h1
  obtain ⟨⟨g1, g2, g3⟩, g4⟩ := h2
  have z := zipSign_facts restore hr _ signs (by rw [g1, hs])
  obtain ⟨z1, z2, z3, z4⟩ := z
  refine ⟨by show (zipSign restore _ signs).length = n; rw [z1, g1], ?_, ?_, ?_⟩
  · show sumAbs (zipSign restore _ signs) = K; rw [z2]; omega
  · show ((greedy pick _ _).yy : Int) = sumSqI (zipSign restore _ signs); rw [z3, g2]
  · intro j hj; exact z4 j (by rw [g1]; exact hj)

/-! ### the pre-search contract, in exact arithmetic

  vq.c:197-235 / vq_sse2.c:91-136: `sum = Σ|X[j]|`, `rcp = (K+0.8)·(1/sum)`, `iy[j] = floor(rcp·|X[j]|)` (SSE2: truncating
  conversion of a non-negative product).  Over any ordered field with a floor (ℚ, ℝ): if the scale factor `r` that was
  actually used satisfies `r·Σ|x| < K+1`, the counts are non-negative and sum to at most K — the contract `hsum` of
  `search_spec`.  With exact division `r = (K+4/5)/Σ|x|` that is `K + 4/5 < K + 1`; a relative error ε of the computed
  reciprocal/sum is tolerated while `ε·(5K+4) < 1`.  That the binary32 evaluation (rounded sum, `_mm_rcp_ps` with its
  1.5·2⁻¹² relative error, rounded products) stays inside this margin is NOT proved. -/

section presearch
variable {α : Type} [Field α] [LinearOrder α] [IsStrictOrderedRing α] [FloorRing α]

def fsum : List α → α
  | [] => 0
  | v :: l => v + fsum l

/-- the counts the pre-search stores: `floor(r·x)` of a non-negative number, as a natural number. -/
def counts (r : α) (xs : List α) : List Nat := xs.map (fun x => ⌊r * x⌋.toNat)

theorem counts_sum_le (r : α) (xs : List α) (hx : ∀ x ∈ xs, 0 ≤ x) (hr : 0 ≤ r) :
    ((sum (counts r xs) : Nat) : α) ≤ r * fsum xs := by
  induction xs with
  | nil => simp [counts, sum, fsum]
  | cons x xs ih =>
    have hx0 : 0 ≤ r * x := mul_nonneg hr (hx x (by simp))
    have h1 : ((⌊r * x⌋.toNat : Nat) : α) ≤ r * x := by
      have hf : 0 ≤ ⌊r * x⌋ := Int.floor_nonneg.mpr hx0
      have e : ((⌊r * x⌋.toNat : Nat) : ℤ) = ⌊r * x⌋ := Int.toNat_of_nonneg hf
      have e2 : ((⌊r * x⌋.toNat : Nat) : α) = ((⌊r * x⌋ : ℤ) : α) := by
        conv_rhs => rw [← e]
        exact (Int.cast_natCast _).symm
      rw [e2]; exact Int.floor_le _
    have h2 := ih (fun y hy => hx y (by simp [hy]))
    simp only [counts, List.map_cons, sum, fsum, Nat.cast_add] at h2 ⊢
    have : r * (x + fsum xs) = r * x + r * fsum xs := by ring
    rw [this]; exact add_le_add h1 h2

theorem presearch_contract (K : Nat) (r : α) (xs : List α) (hx : ∀ x ∈ xs, 0 ≤ x) (hr : 0 ≤ r)
    (h : r * fsum xs < (K : α) + 1) : (counts r xs).length = xs.length ∧ sum (counts r xs) ≤ K := by
  refine ⟨by simp [counts], ?_⟩
  have h1 := counts_sum_le r xs hx hr
  have h2 : ((sum (counts r xs) : Nat) : α) < ((K + 1 : Nat) : α) := by push_cast; exact lt_of_le_of_lt h1 h
  have h3 : sum (counts r xs) < K + 1 := by exact_mod_cast h2
  omega

/-- exact reciprocal, and a reciprocal/sum with relative error up to ε where ε·(5K+4) < 1. -/
theorem presearch_margin (K : Nat) (S ε r : α) (hS : 0 < S) (hε : 0 ≤ ε) (hm : ε * (5 * (K : α) + 4) < 1)
    (hr : r ≤ ((K : α) + 4 / 5) / S * (1 + ε)) : r * S < (K : α) + 1 := by
  have h1 : r * S ≤ ((K : α) + 4 / 5) / S * (1 + ε) * S := mul_le_mul_of_nonneg_right hr (le_of_lt hS)
  have h2 : ((K : α) + 4 / 5) / S * (1 + ε) * S = ((K : α) + 4 / 5) * (1 + ε) := by field_simp
  rw [h2] at h1
  nlinarith [h1, hm, hε]

end presearch

end Opus.Kernels.Pvq
