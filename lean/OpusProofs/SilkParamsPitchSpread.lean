import OpusModel.SilkParams
import OpusProofs.SilkParamsGains
/-
  OpusProofs.SilkParamsPitchSpread — the lags `silk_decode_pitch` returns for one frame differ from each other by at
  most the spread of the selected contour (≤ 18 samples, less than half a sub-frame): `limit` is 1-Lipschitz and monotone.
-/
namespace Opus.SilkParams
open Opus Opus.Gen

theorem getI_getD (l : List Int) (i v : Int) (h : getI l i = .ok v) : 0 ≤ i ∧ v = l.getD i.toNat 0 := by
  unfold getI at h
  by_cases hi : i < 0
  · rw [if_pos hi] at h; cases h
  · rw [if_neg hi] at h
    refine ⟨by omega, ?_⟩
    rw [List.getD_eq_getElem?_getD]
    match hg : l[i.toNat]?, h with
    | some w, h => simp only [Res.ok.injEq] at h; subst h; rfl
    | none, h => cases h

theorem limit_lip (a b lo hi d : Int) (h : lo ≤ hi) (hd : 0 ≤ d) (hab : a - b ≤ d) :
    limit a lo hi - limit b lo hi ≤ d := by
  unfold limit
  (repeat' split) <;> omega

theorem pitchLoop_get (tab : List Int) (cbk : Nat) (c lag lo hi : Int) :
    ∀ (n k : Nat) (out : List Int), pitchLoop tab cbk c lag lo hi n k = .ok out →
      ∀ j, j < n → out.getD j 0 = limit (lag + tab.getD (((k + j : Nat) : Int) * (cbk : Int) + c).toNat 0) lo hi := by
  intro n
  induction n with
  | zero => intro k out _ j hj; omega
  | succ n ih =>
    intro k out ho j hj
    unfold pitchLoop at ho
    match hg : getI tab ((k : Int) * (cbk : Int) + c), ho with
    | .ok v, ho =>
      simp only [bind, Res.bind] at ho
      match hr : pitchLoop tab cbk c lag lo hi n (k + 1), ho with
      | .ok rest, ho =>
        simp only [pure] at ho
        injection ho with ho
        subst ho
        cases j with
        | zero =>
          have := (getI_getD _ _ _ hg).2
          simp only [List.getD_cons_zero, Nat.add_zero]
          rw [this]
        | succ j =>
          have := ih (k + 1) rest hr j (by omega)
          simp only [List.getD_cons_succ]
          rw [this]
          have he : k + 1 + j = k + (j + 1) := by omega
          rw [he]
      | .err _, ho => simp at ho
      | .oob, ho => simp at ho
      | .abort, ho => simp at ho
    | .err _, ho => simp [bind, Res.bind] at ho
    | .oob, ho => simp [bind, Res.bind] at ho
    | .abort, ho => simp [bind, Res.bind] at ho

/-- Largest difference between two sub-frames' offsets of one contour is at most `bound`. -/
def contourSpreadOk (tab : List Int) (cbk nb : Nat) (bound : Int) : Bool :=
  (List.range cbk).all fun c => (List.range nb).all fun i => (List.range nb).all fun j =>
    decide (tab.getD (i * cbk + c) 0 - tab.getD (j * cbk + c) 0 ≤ bound)

theorem contourSpread_all :
    contourSpreadOk SilkNlsf.cbLagsStage2 SilkNlsf.peNbCbksStage2Ext 4 3 = true ∧
    contourSpreadOk SilkNlsf.cbLagsStage2_10ms SilkNlsf.peNbCbksStage2_10ms 2 1 = true ∧
    contourSpreadOk SilkNlsf.cbLagsStage3 SilkNlsf.peNbCbksStage3Max 4 18 = true ∧
    contourSpreadOk SilkNlsf.cbLagsStage3_10ms SilkNlsf.peNbCbksStage3_10ms 2 6 = true := by decide +kernel

theorem decodePitch_spread_of (lagIndex contour fs : Int) (nb : Nat) (tab : List Int) (cbk : Nat) (bound : Int)
    (hb : 0 ≤ bound) (hmm : pitchMinLag fs ≤ pitchMaxLag fs)
    (hcb : pitchCodebook fs nb = .ok (tab, cbk)) (hc : 0 ≤ contour ∧ contour < (cbk : Int))
    (hs : contourSpreadOk tab cbk nb bound = true) (lags : List Int)
    (hd : decodePitch lagIndex contour fs nb = .ok lags) :
    ∀ i j, i < nb → j < nb → lags.getD i 0 - lags.getD j 0 ≤ bound := by
  intro i j hi hj
  unfold decodePitch at hd
  simp only [hcb, bind, Res.bind] at hd
  have gi := pitchLoop_get tab cbk contour _ _ _ nb 0 lags hd i hi
  have gj := pitchLoop_get tab cbk contour _ _ _ nb 0 lags hd j hj
  rw [gi, gj]
  apply limit_lip _ _ _ _ _ hmm hb
  have idx : ∀ t : Nat, (((0 + t : Nat) : Int) * (cbk : Int) + contour).toNat = t * cbk + contour.toNat := by
    intro t
    have : ((0 + t : Nat) : Int) * (cbk : Int) + contour = ((t * cbk + contour.toNat : Nat) : Int) := by
      push_cast; rw [Int.toNat_of_nonneg hc.1]; simp
    rw [this, Int.toNat_natCast]
  rw [idx i, idx j]
  unfold contourSpreadOk at hs
  simp only [List.all_eq_true, List.mem_range, decide_eq_true_eq] at hs
  have := hs contour.toNat (by omega) i hi j hj
  omega

/-- `silk_decode_pitch`: any two lags of one frame differ by at most 18 samples (3 at 8 kHz). -/
theorem decodePitch_spread (lagIndex contour fs : Int) (nb : Nat)
    (hfs : fs = 8 ∨ fs = 12 ∨ fs = 16) (hnb : nb = 2 ∨ nb = 4) (hc0 : 0 ≤ contour)
    (hc1 : ∀ cb, pitchCodebook fs nb = .ok cb → contour < (cb.2 : Int)) (lags : List Int)
    (hd : decodePitch lagIndex contour fs nb = .ok lags) :
    ∀ i j, i < nb → j < nb → lags.getD i 0 - lags.getD j 0 ≤ 18 := by
  have hmm : pitchMinLag fs ≤ pitchMaxLag fs := by rcases hfs with rfl | rfl | rfl <;> decide
  obtain ⟨s1, s2, s3, s4⟩ := contourSpread_all
  intro i j hi hj
  rcases hfs with rfl | rfl | rfl <;> rcases hnb with rfl | rfl
  · have hcb : pitchCodebook 8 2 = .ok (SilkNlsf.cbLagsStage2_10ms, SilkNlsf.peNbCbksStage2_10ms) := by decide
    have := decodePitch_spread_of lagIndex contour 8 2 _ _ 1 (by omega) hmm hcb ⟨hc0, hc1 _ hcb⟩ s2 lags hd i j hi hj
    omega
  · have hcb : pitchCodebook 8 4 = .ok (SilkNlsf.cbLagsStage2, SilkNlsf.peNbCbksStage2Ext) := by decide
    have := decodePitch_spread_of lagIndex contour 8 4 _ _ 3 (by omega) hmm hcb ⟨hc0, hc1 _ hcb⟩ s1 lags hd i j hi hj
    omega
  · have hcb : pitchCodebook 12 2 = .ok (SilkNlsf.cbLagsStage3_10ms, SilkNlsf.peNbCbksStage3_10ms) := by decide
    have := decodePitch_spread_of lagIndex contour 12 2 _ _ 6 (by omega) hmm hcb ⟨hc0, hc1 _ hcb⟩ s4 lags hd i j hi hj
    omega
  · have hcb : pitchCodebook 12 4 = .ok (SilkNlsf.cbLagsStage3, SilkNlsf.peNbCbksStage3Max) := by decide
    have := decodePitch_spread_of lagIndex contour 12 4 _ _ 18 (by omega) hmm hcb ⟨hc0, hc1 _ hcb⟩ s3 lags hd i j hi hj
    omega
  · have hcb : pitchCodebook 16 2 = .ok (SilkNlsf.cbLagsStage3_10ms, SilkNlsf.peNbCbksStage3_10ms) := by decide
    have := decodePitch_spread_of lagIndex contour 16 2 _ _ 6 (by omega) hmm hcb ⟨hc0, hc1 _ hcb⟩ s4 lags hd i j hi hj
    omega
  · have hcb : pitchCodebook 16 4 = .ok (SilkNlsf.cbLagsStage3, SilkNlsf.peNbCbksStage3Max) := by decide
    have := decodePitch_spread_of lagIndex contour 16 4 _ _ 18 (by omega) hmm hcb ⟨hc0, hc1 _ hcb⟩ s3 lags hd i j hi hj
    omega

end Opus.SilkParams
