import OpusProofs.ExtRepGen3
/-
  C16 helper lemmas, part 21: the emission loop of one frame, with the repeat indicator.
-/
set_option linter.unusedVariables false
namespace Opus.ExtProofs
open Opus Opus.Ext

theorem wSep_ok (f cur : Nat) : (wSep f cur).res = .ok () := by
  unfold wSep; split
  · simp only; split <;> rfl
  · rfl

theorem serOps_contentW {nbF : Nat} (hnf : nbF ≤ 48) (n : Nat) : ∀ (l : List Ext) (cur w : Nat),
    (∀ e ∈ l, ValidExt nbF e) → FrameSorted cur l → content false (serOps n l cur w) = serW n cur w l := by
  intro l
  induction l with
  | nil => intro _ _ _ _; rfl
  | cons e l ih =>
    intro cur w hv hs
    have hve := hv e (List.mem_cons_self ..)
    have hfl := hve.fr_lo; have hfh := hve.fr_hi
    simp only [serOps, serW, content_append]
    rw [wSep_content hs.1 (by omega), wExt_content hve, ih _ _ (fun x hx => hv x (List.mem_cons_of_mem _ hx)) hs.2]

section
variable {exts : Array Ext} {nbF : Nat}

/-- The emission loop of frame `f` over indices `[i, hi)` on which the repeat indicator does not fire. -/
theorem wFrameLoop_plain (hv : AllIF exts nbF) (f : Nat) (det : Det) (i hi : Nat) (s : GSt) (hle : hi ≤ exts.size) :
    (∀ x ∈ seg exts i hi f, LenOk x) →
    (∀ i', i ≤ i' → i' < hi → ¬ (0 < det.repeatCount ∧ s.repIdx[f]? = some i')) →
    wFrameLoop exts nbF f det i hi s =
      { ops := serOps exts.size (seg exts i hi f) s.currFrame s.written,
        res := .ok { s with written := s.written + (seg exts i hi f).length,
                            currFrame := lastFrame s.currFrame (seg exts i hi f) } } := by
  fun_induction wFrameLoop exts nbF f det i hi s with
  | case1 i s hlt ih3 ih2 ih1 =>
    intro hL hno
    have hin : i < exts.size := by omega
    have hget : exts[i]? = some exts[i] := Array.getElem?_eq_getElem hin
    have hrd : rdE exts i = .ok exts[i] := by simp only [rdE]; rw [hget]
    have hif := hv i _ hget
    have hsegstep := seg_step exts i hi f _ hlt hget
    rw [hrd, W.lift_ok_bind, hsegstep]
    by_cases hfe : exts[i].frame = (f : Int)
    · have hfn : exts[i].frame.toNat = f := by have := hif.fr_lo; omega
      have hok : LenOk exts[i] := hL _ (by rw [hsegstep]; simp [hfn])
      simp only [hfe, if_true]
      rw [W.bind_of_ok _ (wSep_ok f s.currFrame), W.bind_of_ok _ (wExt_res_ok hif hok _)]
      have hnr := hno i (Nat.le_refl _) hlt
      simp only [hnr, if_false]
      rw [ih2 exts[i] (fun x hx => hL x (by rw [hsegstep]; exact List.mem_append_right _ hx)) (fun i' h1 h2 => hno i' (by omega) h2)]
      have hff : ((f : Int)).toNat = f := by omega
      simp only [hff, if_true, List.cons_append, List.nil_append, serOps, lastFrame, List.length_cons, List.append_assoc, hfn]
      have e1 : s.written + 1 + (seg exts (i + 1) hi f).length = s.written + ((seg exts (i + 1) hi f).length + 1) := by omega
      rw [e1]
    · have hfn : ¬ exts[i].frame.toNat = f := by have := hif.fr_lo; omega
      simp only [hfe, hfn, if_false, List.nil_append]
      exact ih1 (fun x hx => hL x (by rw [hsegstep]; simp [hfn]; exact hx)) (fun i' h1 h2 => hno i' (by omega) h2)
  | case2 i s hge =>
    intro _ _
    rw [seg_empty exts f (by omega)]
    simp [serOps, lastFrame, W.pure_eq]

/-- An extension of the frame with an inadmissible length makes the emission loop return `OPUS_BAD_ARG`. -/
theorem wFrameLoop_plain_bad (hv : AllIF exts nbF) (f : Nat) (det : Det) (i hi : Nat) (s : GSt) (hle : hi ≤ exts.size) :
    (∃ x ∈ seg exts i hi f, ¬ LenOk x) →
    (∀ i', i ≤ i' → i' < hi → ¬ (0 < det.repeatCount ∧ s.repIdx[f]? = some i')) →
    (wFrameLoop exts nbF f det i hi s).res = .err .badArg := by
  fun_induction wFrameLoop exts nbF f det i hi s with
  | case1 i s hlt ih3 ih2 ih1 =>
    intro hbad hno
    have hin : i < exts.size := by omega
    have hget : exts[i]? = some exts[i] := Array.getElem?_eq_getElem hin
    have hrd : rdE exts i = .ok exts[i] := by simp only [rdE]; rw [hget]
    have hif := hv i _ hget
    have hsegstep := seg_step exts i hi f _ hlt hget
    rw [hrd, W.lift_ok_bind]
    rw [hsegstep] at hbad
    by_cases hfe : exts[i].frame = (f : Int)
    · have hfn : exts[i].frame.toNat = f := by have := hif.fr_lo; omega
      simp only [hfe, if_true]
      simp only [hfn, if_true, List.singleton_append] at hbad
      rw [W.bind_of_ok _ (wSep_ok f s.currFrame)]
      by_cases hok : LenOk exts[i]
      · rw [W.bind_of_ok _ (wExt_res_ok hif hok _)]
        have hnr := hno i (Nat.le_refl _) hlt
        simp only [hnr, if_false]
        obtain ⟨x, hx, hxb⟩ := hbad
        have hx' : x ∈ seg exts (i + 1) hi f := by
          rcases List.mem_cons.mp hx with rfl | h
          · exact absurd hok hxb
          · exact h
        exact ih2 exts[i] ⟨x, hx', hxb⟩ (fun i' h1 h2 => hno i' (by omega) h2)
      · exact W.bind_of_err _ (wExt_bad hif hok _)
    · have hfn : ¬ exts[i].frame.toNat = f := by have := hif.fr_lo; omega
      simp only [hfe, if_false]
      simp only [hfn, if_false, List.nil_append] at hbad
      exact ih1 hbad (fun i' h1 h2 => hno i' (by omega) h2)
  | case2 i s hge =>
    intro ⟨x, hx, _⟩ _
    rw [seg_empty exts f (by omega)] at hx; cases hx

/-- The emission loop of frame `f` when `det.repeatCount > 0`: plain extensions up to index `iR`
    (= `frame_repeat_idx[f]`), the indicator, the repeated payloads, the rest of the frame. -/
theorem wFrameLoop_rep (hv : AllIF exts nbF) (hD : ExtsOk exts) (hnf : nbF ≤ 48) (mx : List Nat) (f : Nat) (hf : f + 1 < nbF)
    (det : Det) (hR : 0 < det.repeatCount) (iR hi : Nat) (hiR : iR < hi) (hle : hi ≤ exts.size)
    (eR : Ext) (heR : exts[iR]? = some eR) (hfR : eR.frame.toNat = f)
    (W1 : Nat) (llp : Option Nat) (rep0 : List Nat) (hr0 : rep0.length = nbF) (hrepf : rep0.getD f 0 = iR)
    (lastV : Bool)
    (hlastV : lastV = decide (W1 + det.repeatCount * (nbF - (f + 1)) = exts.size ∨ (det.lastLong = none ∧ hi ≤ iR + 1)))
    (hpost : lastV = true → seg exts (iR + 1) hi f = [])
    (i : Nat) (s : GSt) :
    i ≤ iR → s.repIdx = rep0 → s.minIdx.length = nbF → s.written + (seg exts i (iR + 1) f).length = W1 → s.currFrame ≤ f →
    (∀ x ∈ seg exts i hi f, LenOk x) →
    (∀ g', f + 1 ≤ g' → g' < nbF → ∀ x ∈ seg exts (s.minIdx.getD g' 0) (rep0.getD g' 0) g', LenOk x) →
    (∀ g', f + 1 ≤ g' → g' < nbF → s.minIdx.getD g' 0 ≤ rep0.getD g' 0 ∧ rep0.getD g' 0 ≤ exts.size ∧
      seg exts (s.minIdx.getD g' 0) (rep0.getD g' 0) g' = (remQ exts mx s.minIdx g').take det.repeatCount) →
    (∀ g' j' e, f + 1 ≤ g' → g' + 1 < nbF → exts[j']? = some e → e.frame.toNat = g' → ¬ (lastV = true ∧ det.lastLong = some j')) →
    (∀ j' e, f + 1 ≤ nbF - 1 → s.minIdx.getD (nbF - 1) 0 ≤ j' → j' < rep0.getD (nbF - 1) 0 → exts[j']? = some e → e.frame.toNat = nbF - 1 →
      ((lastV = true ∧ det.lastLong = some j') ↔
        (if lastV then llp else none) = some (0 + (seg exts (s.minIdx.getD (nbF - 1) 0) j' (nbF - 1)).length))) →
    ∃ sF, (wFrameLoop exts nbF f det i hi s).res = .ok sF ∧ sF.repIdx = rep0 ∧ sF.minIdx.length = nbF ∧
      (∀ g', g' < f + 1 → sF.minIdx.getD g' 0 = s.minIdx.getD g' 0) ∧
      (∀ g', f + 1 ≤ g' → g' < nbF → sF.minIdx.getD g' 0 = rep0.getD g' 0) ∧
      sF.written = W1 + takeTotal det.repeatCount (remsFrom exts mx s.minIdx nbF (f + 1)) + (seg exts (iR + 1) hi f).length ∧
      sF.currFrame = lastFrame (if lastV then f + 1 else f) (seg exts (iR + 1) hi f) ∧
      content false (wFrameLoop exts nbF f det i hi s).ops =
        serW exts.size s.currFrame s.written (seg exts i (iR + 1) f) ++ [if lastV then 4 else 5] ++
          repBlock det.repeatCount lastV llp (remsFrom exts mx s.minIdx nbF (f + 1)) ++
          serW exts.size (if lastV then f + 1 else f) (W1 + takeTotal det.repeatCount (remsFrom exts mx s.minIdx nbF (f + 1)))
            (seg exts (iR + 1) hi f) := by
  fun_induction wFrameLoop exts nbF f det i hi s with
  | case1 i s hlt ih3 ih2 ih1 =>
    intro hi_le hrep hml hW hcur hL1 hL2 hseg hfl1 hfl2
    have hin : i < exts.size := by omega
    have hget : exts[i]? = some exts[i] := Array.getElem?_eq_getElem hin
    have hrd : rdE exts i = .ok exts[i] := by simp only [rdE]; rw [hget]
    have hif := hv i _ hget
    have hsegstepF := seg_step exts i hi f _ hlt hget
    have hrepf' : s.repIdx[f]? = some iR := by
      rw [hrep]
      have : f < rep0.length := by omega
      rw [List.getElem?_eq_getElem this]
      simp only [List.getD, List.getElem?_eq_getElem this, Option.getD_some] at hrepf
      rw [hrepf]
    rw [hrd, W.lift_ok_bind]
    by_cases hfe : exts[i].frame = (f : Int)
    · have hfn : exts[i].frame.toNat = f := by have := hif.fr_lo; omega
      have hve : ValidExt nbF exts[i] := validExt_of hif (hL1 _ (by rw [hsegstepF]; simp [hfn])) (hD i _ hget)
      have hL1t : ∀ x ∈ seg exts (i + 1) hi f, LenOk x := fun x hx => hL1 x (by rw [hsegstepF]; exact List.mem_append_right _ hx)
      simp only [hfe, if_true]
      obtain ⟨pe1, pe2⟩ : (wExt exts[i] (decide ((s.written : Int) = (exts.size : Int) - 1))).res = .ok () ∧
          content false (wExt exts[i] (decide ((s.written : Int) = (exts.size : Int) - 1))).ops =
            extBytes exts[i] (decide ((s.written : Int) = (exts.size : Int) - 1)) := ⟨wExt_ok hve _, wExt_content hve _⟩
      have hsepc : content false (wSep f s.currFrame).ops = sepBytes f s.currFrame := wSep_content hcur (by omega)
      rw [W.bind_of_ok _ (wSep_ok f s.currFrame), W.bind_of_ok _ pe1]
      by_cases hii : i = iR
      · -- the indicator fires here
        subst hii
        have hc : (0 < det.repeatCount ∧ s.repIdx[f]? = some i) := ⟨hR, hrepf'⟩
        simp only [hc, and_self, if_true]
        have hseg1 : seg exts i (i + 1) f = [exts[i]] := by
          rw [seg_step exts i (i + 1) f _ (by omega) hget, seg_empty exts f (Nat.le_refl _)]; simp [hfn]
        rw [hseg1] at hW
        simp only [List.length_cons, List.length_nil] at hW
        have hlv : decide (s.written + 1 + det.repeatCount * (nbF - (f + 1)) = exts.size ∨ det.lastLong = none ∧ hi ≤ i + 1) = lastV := by
          rw [hlastV, ← hW]
        rw [hlv]
        rw [W.bind_of_ok (x := W.emit [Op.need 1, Op.put (if lastV = true then 4 else 5)]) _ rfl]
        obtain ⟨s3, q1, q2, q3, q4, q5, q6, q7, q8⟩ := wRepeatsLoop_spec hv hD mx det.repeatCount lastV det.lastLong llp rep0 hr0 (f + 1)
          { s with written := s.written + 1, currFrame := f } hrep hml hL2 hseg hfl1 hfl2
        rw [W.bind_of_ok _ q1]
        simp only at q3 q5 q6 q7
        have hplain := wFrameLoop_plain hv f det (i + 1) hi
          { s3 with currFrame := if lastV = true then s3.currFrame + 1 else s3.currFrame } hle hL1t
          (by
            intro i' h1 h2 hcon
            simp only at hcon
            rw [q2, ← hrep, hrepf'] at hcon
            have := hcon.2; simp at this; omega)
        rw [hplain]
        simp only
        have hpostv : ∀ e ∈ seg exts (i + 1) hi f, ValidExt nbF e ∧ e.frame.toNat = f := by
          intro e he
          unfold seg at he
          rw [List.mem_filter] at he
          have helen := hL1t e (by unfold seg; rw [List.mem_filter]; exact he)
          obtain ⟨j, hj⟩ := List.mem_iff_getElem?.mp (List.mem_of_mem_take he.1)
          rw [List.getElem?_drop] at hj
          have hj' : exts[i + 1 + j]? = some e := by simpa using hj
          exact ⟨validExt_of (hv _ e hj') helen (hD _ e hj'), by simpa using he.2⟩
        have hsorted : FrameSorted (if lastV = true then s3.currFrame + 1 else s3.currFrame) (seg exts (i + 1) hi f) := by
          by_cases hl : lastV = true
          · rw [hpost hl]; trivial
          · simp only [hl, if_false, q3]
            exact (frameSorted_const (Nat.le_refl f) (fun e he => (hpostv e he).2)).1
        refine ⟨_, rfl, q2, q4, fun g' hg' => q5 g' hg', fun g' h1 h2 => q6 g' h1 h2, ?_, ?_, ?_⟩
        · rw [q7, ← hW]
        · rw [q3]
        · simp only [content_append, W.emit, content, Bool.false_eq_true, if_false, hsepc, pe2, q8]
          rw [serOps_contentW hnf exts.size _ _ _ (fun e he => (hpostv e he).1) hsorted]
          rw [hseg1, q3, q7, ← hW]
          simp [serW, hfn, List.append_assoc]
      · -- a plain extension before the indicator
        have hilt : i < iR := by omega
        have hnr : ¬ (0 < det.repeatCount ∧ s.repIdx[f]? = some i) := by
          rw [hrepf']; intro h; have := h.2; simp at this; omega
        simp only [hnr, if_false]
        have hsegc : seg exts i (iR + 1) f = exts[i] :: seg exts (i + 1) (iR + 1) f := by
          rw [seg_step exts i (iR + 1) f _ (by omega) hget]; simp [hfn]
        rw [hsegc] at hW
        simp only [List.length_cons] at hW
        obtain ⟨sF, r1, r2, r3, r4, r5, r6, r7, r8⟩ := ih2 exts[i] (by omega) hrep hml (by simp only; omega) (by simp only; omega) hL1t hL2 hseg hfl1 hfl2
        simp only at r4 r6 r8
        refine ⟨sF, r1, r2, r3, r4, r5, r6, r7, ?_⟩
        rw [content_append, content_append, hsepc, pe2, r8, hsegc]
        simp [serW, hfn, List.append_assoc]
    · have hfn : ¬ exts[i].frame.toNat = f := by have := hif.fr_lo; omega
      simp only [hfe, if_false]
      have hii : i ≠ iR := by
        intro h; subst h; rw [hget] at heR; cases heR; exact hfn hfR
      have hsegc : seg exts i (iR + 1) f = seg exts (i + 1) (iR + 1) f := by
        rw [seg_step exts i (iR + 1) f _ (by omega) hget]; simp [hfn]
      rw [hsegc] at hW ⊢
      exact ih1 (by omega) hrep hml hW hcur (fun x hx => hL1 x (by rw [hsegstepF]; simp [hfn]; exact hx)) hL2 hseg hfl1 hfl2
  | case2 i s hge =>
    intro hi_le; omega

/-- With a repeat block: an inadmissible length among the extensions of the frame or among the repeated
    extensions of the later frames makes the emission loop return `OPUS_BAD_ARG`. -/
theorem wFrameLoop_rep_bad (hv : AllIF exts nbF) (f : Nat) (det : Det) (hR : 0 < det.repeatCount) (iR hi : Nat) (hiR : iR < hi)
    (hle : hi ≤ exts.size) (eR : Ext) (heR : exts[iR]? = some eR) (hfR : eR.frame.toNat = f)
    (rep0 : List Nat) (hr0 : rep0.length = nbF) (hfn : f < nbF) (hrepf : rep0.getD f 0 = iR) (i : Nat) (s : GSt) :
    i ≤ iR → s.repIdx = rep0 → s.minIdx.length = nbF →
    (∀ g', f + 1 ≤ g' → g' < nbF → rep0.getD g' 0 ≤ exts.size) →
    ((∃ x ∈ seg exts i hi f, ¬ LenOk x) ∨
      (∃ g', f + 1 ≤ g' ∧ g' < nbF ∧ ∃ x ∈ seg exts (s.minIdx.getD g' 0) (rep0.getD g' 0) g', ¬ LenOk x)) →
    (wFrameLoop exts nbF f det i hi s).res = .err .badArg := by
  fun_induction wFrameLoop exts nbF f det i hi s with
  | case1 i s hlt ih3 ih2 ih1 =>
    intro hi_le hrep hml hb hbad
    have hin : i < exts.size := by omega
    have hget : exts[i]? = some exts[i] := Array.getElem?_eq_getElem hin
    have hrd : rdE exts i = .ok exts[i] := by simp only [rdE]; rw [hget]
    have hif := hv i _ hget
    have hsegstep := seg_step exts i hi f _ hlt hget
    have hrepf' : s.repIdx[f]? = some iR := by
      rw [hrep]
      have : f < rep0.length := by omega
      rw [List.getElem?_eq_getElem this]
      simp only [List.getD, List.getElem?_eq_getElem this, Option.getD_some] at hrepf
      rw [hrepf]
    rw [hrd, W.lift_ok_bind]
    by_cases hfe : exts[i].frame = (f : Int)
    · have hfnn : exts[i].frame.toNat = f := by have := hif.fr_lo; omega
      simp only [hfe, if_true]
      rw [W.bind_of_ok _ (wSep_ok f s.currFrame)]
      by_cases hok : LenOk exts[i]
      · rw [W.bind_of_ok _ (wExt_res_ok hif hok _)]
        -- the bad extension is further on
        have hbad' : (∃ x ∈ seg exts (i + 1) hi f, ¬ LenOk x) ∨
            (∃ g', f + 1 ≤ g' ∧ g' < nbF ∧ ∃ x ∈ seg exts (s.minIdx.getD g' 0) (rep0.getD g' 0) g', ¬ LenOk x) := by
          rcases hbad with ⟨x, hx, hxb⟩ | h
          · left
            rw [hsegstep] at hx
            simp only [hfnn, if_true, List.singleton_append] at hx
            rcases List.mem_cons.mp hx with rfl | h
            · exact absurd hok hxb
            · exact ⟨x, h, hxb⟩
          · exact Or.inr h
        by_cases hii : i = iR
        · subst hii
          have hc : (0 < det.repeatCount ∧ s.repIdx[f]? = some i) := ⟨hR, hrepf'⟩
          simp only [hc, and_self, if_true]
          generalize decide (s.written + 1 + det.repeatCount * (nbF - (f + 1)) = exts.size ∨ det.lastLong = none ∧ hi ≤ i + 1) = lastV
          rw [W.bind_of_ok (x := W.emit [Op.need 1, Op.put (if lastV = true then 4 else 5)]) _ rfl]
          rcases hbad' with hpost | hrepb
          · -- the repeats are fine (or not): either way look at them first
            by_cases hrb : ∃ g', f + 1 ≤ g' ∧ g' < nbF ∧ ∃ x ∈ seg exts (s.minIdx.getD g' 0) (rep0.getD g' 0) g', ¬ LenOk x
            · exact W.bind_of_err _ (wRepeatsLoop_bad hv lastV det.lastLong rep0 hr0 (f + 1)
                { s with written := s.written + 1, currFrame := f } hrep hml hb hrb)
            · have hLr : ∀ g', f + 1 ≤ g' → g' < nbF → ∀ x ∈ seg exts (s.minIdx.getD g' 0) (rep0.getD g' 0) g', LenOk x := by
                intro g' h1 h2 x hx
                apply Decidable.byContradiction; intro hc'
                exact hrb ⟨g', h1, h2, x, hx, hc'⟩
              obtain ⟨s3, q1, q2⟩ := wRepeatsLoop_res_ok hv lastV det.lastLong rep0 hr0 (f + 1)
                { s with written := s.written + 1, currFrame := f } hrep hml hb hLr
              rw [W.bind_of_ok _ q1]
              exact wFrameLoop_plain_bad hv f det (i + 1) hi _ hle hpost (by
                intro i' h1 h2 hcon
                simp only at hcon
                rw [q2, ← hrep, hrepf'] at hcon
                have := hcon.2; simp at this; omega)
          · exact W.bind_of_err _ (wRepeatsLoop_bad hv lastV det.lastLong rep0 hr0 (f + 1)
              { s with written := s.written + 1, currFrame := f } hrep hml hb hrepb)
        · have hnr : ¬ (0 < det.repeatCount ∧ s.repIdx[f]? = some i) := by
            rw [hrepf']; intro h; have := h.2; simp at this; omega
          simp only [hnr, if_false]
          exact ih2 exts[i] (by omega) hrep hml hb hbad'
      · exact W.bind_of_err _ (wExt_bad hif hok _)
    · have hfnn : ¬ exts[i].frame.toNat = f := by have := hif.fr_lo; omega
      simp only [hfe, if_false]
      have hii : i ≠ iR := by
        intro h; subst h; rw [hget] at heR; cases heR; exact hfnn hfR
      refine ih1 (by omega) hrep hml hb ?_
      rcases hbad with ⟨x, hx, hxb⟩ | h
      · left; rw [hsegstep] at hx; simp only [hfnn, if_false, List.nil_append] at hx; exact ⟨x, hx, hxb⟩
      · exact Or.inr h
  | case2 i s hge =>
    intro hi_le; omega

end
end Opus.ExtProofs
