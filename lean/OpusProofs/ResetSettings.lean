import OpusProofs.ResetState
/-
  OpusProofs.ResetSettings — "a new encoder carrying the settings c" read as: opus_encoder_init followed by
  the OPUS_SET_* requests that store c.  The requests are all accepted and leave an object indistinguishable
  from `encFresh … c` (they differ only in members no call reads before writing: silk_mode.useCBR,
  silk_mode.maxInternalSampleRate); every reachable state has settings of that kind.
-/
namespace Opus.ResetState

theorem settingsOk_init (fs ch app arch so co : Int) (ha : app = 2048 ∨ app = 2049 ∨ app = 2051) :
    SettingsOk ch (settingsOf (encInit fs ch app arch so co)) := by
  constructor <;> simp [settingsOf, encInit, silkCtlInit, celtCfgInit, OPUS_AUTO, BW_FB, FRAMESIZE_ARG, ha]

theorem settingsOk_reset {s : Enc} (h : SettingsOk s.channels (settingsOf s)) :
    SettingsOk (encReset s).channels (settingsOf (encReset s)) := h

theorem settingsOk_encodeStep (O : Oracles) {s : Enc} (x : Inp) (h : SettingsOk s.channels (settingsOf s)) :
    SettingsOk (encodeStep O s x).1.channels (settingsOf (encodeStep O s x).1) := by
  unfold encodeStep
  simp only []
  repeat' split
  all_goals exact h

theorem settingsOk_setApply {s : Enc} (k : SetReq) (v : Int) (hch : 1 ≤ s.channels)
    (h : SettingsOk s.channels (settingsOf s))
    (hacc : setAccept (view s) k v = true) : SettingsOk (setApply s k v).channels (settingsOf (setApply s k v)) := by
  obtain ⟨h1, h2, h3, h4, h5, h6, h7, h8, h9, h10, h11, h12, h13, h14, h15, h16, h17, h18, h19, h20, h21, h22, h23⟩ := h
  cases k
  case bitrate =>
    simp [setAccept, view] at hacc
    constructor <;> first
      | assumption
      | (simp only [setApply, settingsOf, OPUS_AUTO] at *
         by_cases e1 : v = -1000
         · simp [e1]
         · by_cases e2 : v = -1
           · simp [e2]
           · simp only [e1, e2, ne_eq, not_false_eq_true, and_self, if_true]
             split
             · omega
             · split <;> omega)
  all_goals
    simp [setAccept, view] at hacc <;> constructor <;>
    first
      | assumption
      | (simp only [setApply, settingsOf, OPUS_AUTO, MODE_SILK_ONLY, MODE_CELT_ONLY, decide_eq_false_iff_not] at * <;>
         first | assumption | omega
               | (by_cases e1 : v = 2048 <;> by_cases e2 : v = 2049 <;> by_cases e3 : v = 2051 <;> simp_all; done)
               | (split <;> omega))

/-! ### Reachability from a VALID opus_encoder_init (channels 1/2, a defined application) -/

def InitArgsOk (ch app : Int) : Prop := (ch = 1 ∨ ch = 2) ∧ (app = 2048 ∨ app = 2049 ∨ app = 2051)

inductive ReachOk : Enc → Prop
  | init (fs ch app arch so co : Int) : InitArgsOk ch app → ReachOk (encInit fs ch app arch so co)
  | set {s s' : Enc} (req v : Int) : ReachOk s → encSet s req v = some s' → ReachOk s'
  | reset {s : Enc} : ReachOk s → ReachOk (encReset s)
  | encode {s : Enc} (O : Oracles) (x : Inp) : ReachOk s → ReachOk (encodeStep O s x).1

theorem reachOk_reach {s : Enc} (h : ReachOk s) : Reach s := by
  induction h with
  | init fs ch app arch so co _ => exact .init ..
  | set req v _ hs ih => exact .set req v ih hs
  | reset _ ih => exact .reset ih
  | encode O x _ ih => exact .encode O x ih

theorem channels_setApply (s : Enc) (k : SetReq) (v : Int) : (setApply s k v).channels = s.channels := by
  cases k <;> rfl
theorem first_setApply (s : Enc) (k : SetReq) (v : Int) : (setApply s k v).first = s.first := by
  cases k <;> rfl
theorem channels_encodeStep (O : Oracles) (s : Enc) (x : Inp) : (encodeStep O s x).1.channels = s.channels := by
  unfold encodeStep
  simp only []
  repeat' split
  all_goals rfl

/-- Every state reachable from a valid init has 1 or 2 channels and settings that requests can produce. -/
theorem reachOk_good {s : Enc} (h : ReachOk s) : 1 ≤ s.channels ∧ SettingsOk s.channels (settingsOf s) := by
  induction h with
  | init fs ch app arch so co ha =>
    refine ⟨?_, settingsOk_init fs ch app arch so co ha.2⟩
    have : (encInit fs ch app arch so co).channels = ch := rfl
    rcases ha.1 with h1 | h1 <;> omega
  | set req v _ hs ih =>
    unfold encSet at hs
    split at hs
    · unfold encSetK at hs
      split at hs
      · rename_i k _ hacc
        simp only [Option.some.injEq] at hs; subst hs
        exact ⟨by rw [channels_setApply]; exact ih.1, settingsOk_setApply k v ih.1 ih.2 hacc⟩
      · simp at hs
    · simp at hs
  | reset _ ih => exact ih
  | encode O x _ ih => exact ⟨by rw [channels_encodeStep]; exact ih.1, settingsOk_encodeStep O x ih.2⟩

/-! ### The request sequence reproduces the settings -/

def applyAll (s : Enc) : List (SetReq × Int) → Enc
  | [] => s
  | (k, v) :: rest => applyAll (setApply s k v) rest

theorem replay_of_accept (reqs : List (SetReq × Int)) :
    ∀ (s : Enc), (∀ s' : Enc, s'.first = s.first → s'.channels = s.channels → s'.application ∈ [2048, 2049, 2051] →
                   ∀ kv ∈ reqs, setAccept (view s') kv.1 kv.2 = true) →
      s.application ∈ [2048, 2049, 2051] →
      (∀ kv ∈ reqs, kv.1 = SetReq.application → kv.2 ∈ [2048, 2049, 2051]) →
      replay s reqs = some (applyAll s reqs) := by
  induction reqs with
  | nil => intros; rfl
  | cons kv rest ih =>
    intro s hacc happ hvals
    obtain ⟨k, v⟩ := kv
    have h1 : setAccept (view s) k v = true := hacc s rfl rfl happ (k, v) (List.mem_cons_self ..)
    simp only [replay, encSetK, h1, if_true, applyAll]
    apply ih
    · intro s' hf hc ha kv hm
      exact hacc s' (by rw [hf, first_setApply]) (by rw [hc, channels_setApply]) ha kv (List.mem_cons_of_mem _ hm)
    · cases k <;> first
        | exact happ
        | (have := hvals (SetReq.application, v) (List.mem_cons_self ..) rfl; exact this)
    · intro kv hm; exact hvals kv (List.mem_cons_of_mem _ hm)

theorem view_first (s : Enc) : (view s).first = s.first := rfl
theorem view_application (s : Enc) : (view s).application = s.application := rfl
theorem view_channels (s : Enc) : (view s).channels = s.channels := rfl

theorem acc_application {ch : Int} {c : Settings} (h : SettingsOk ch c) (w : View) (hf : w.first = 1) (hc : w.channels = ch) :
    setAccept w .application c.application = true := by
  have hne : ¬ (w.first = 0) := by omega
  rcases h.app with e | e | e <;> rw [e] <;> simp [setAccept, hne]

theorem acc_bitrate {ch : Int} {c : Settings} (h : SettingsOk ch c) (w : View) (hf : w.first = 1) (hc : w.channels = ch) :
    setAccept w .bitrate c.userBitrateBps = true := by
  have h3 := h.rate
  simp only [OPUS_AUTO] at h3
  have : ¬ (c.userBitrateBps ≠ -1000 ∧ c.userBitrateBps ≠ -1 ∧ c.userBitrateBps ≤ 0) := by omega
  simp only [setAccept, OPUS_AUTO, this, decide_false, Bool.not_false]

theorem acc_forceChannels {ch : Int} {c : Settings} (h : SettingsOk ch c) (w : View) (hf : w.first = 1) (hc : w.channels = ch) :
    setAccept w .forceChannels c.forceChannels = true := by
  obtain ⟨h1, h2, h3, h4, h5, h6, h7, h8, h9, h10, h11, h12, h13, h14, h15, h16, h17, h18, h19, h20, h21, h22, h23⟩ := h
  simp only [OPUS_AUTO, MODE_SILK_ONLY, MODE_CELT_ONLY] at h3 h4 h6 h16 h21
  simp only [setAccept, hf, hc, OPUS_AUTO, MODE_SILK_ONLY, MODE_CELT_ONLY, Bool.not_eq_true', decide_eq_false_iff_not,
             decide_eq_true_eq]
  first | omega | trivial | (rcases h1 with e | e | e <;> simp [e])

theorem acc_maxBandwidth {ch : Int} {c : Settings} (h : SettingsOk ch c) (w : View) (hf : w.first = 1) (hc : w.channels = ch) :
    setAccept w .maxBandwidth c.maxBandwidth = true := by
  obtain ⟨h1, h2, h3, h4, h5, h6, h7, h8, h9, h10, h11, h12, h13, h14, h15, h16, h17, h18, h19, h20, h21, h22, h23⟩ := h
  simp only [OPUS_AUTO, MODE_SILK_ONLY, MODE_CELT_ONLY] at h3 h4 h6 h16 h21
  simp only [setAccept, hf, hc, OPUS_AUTO, MODE_SILK_ONLY, MODE_CELT_ONLY, Bool.not_eq_true', decide_eq_false_iff_not,
             decide_eq_true_eq]
  first | omega | trivial | (rcases h1 with e | e | e <;> simp [e])

theorem acc_bandwidth {ch : Int} {c : Settings} (h : SettingsOk ch c) (w : View) (hf : w.first = 1) (hc : w.channels = ch) :
    setAccept w .bandwidth c.userBandwidth = true := by
  obtain ⟨h1, h2, h3, h4, h5, h6, h7, h8, h9, h10, h11, h12, h13, h14, h15, h16, h17, h18, h19, h20, h21, h22, h23⟩ := h
  simp only [OPUS_AUTO, MODE_SILK_ONLY, MODE_CELT_ONLY] at h3 h4 h6 h16 h21
  simp only [setAccept, hf, hc, OPUS_AUTO, MODE_SILK_ONLY, MODE_CELT_ONLY, Bool.not_eq_true', decide_eq_false_iff_not,
             decide_eq_true_eq]
  first | omega | trivial | (rcases h1 with e | e | e <;> simp [e])

theorem acc_dtx {ch : Int} {c : Settings} (h : SettingsOk ch c) (w : View) (hf : w.first = 1) (hc : w.channels = ch) :
    setAccept w .dtx c.useDtx = true := by
  obtain ⟨h1, h2, h3, h4, h5, h6, h7, h8, h9, h10, h11, h12, h13, h14, h15, h16, h17, h18, h19, h20, h21, h22, h23⟩ := h
  simp only [OPUS_AUTO, MODE_SILK_ONLY, MODE_CELT_ONLY] at h3 h4 h6 h16 h21
  simp only [setAccept, hf, hc, OPUS_AUTO, MODE_SILK_ONLY, MODE_CELT_ONLY, Bool.not_eq_true', decide_eq_false_iff_not,
             decide_eq_true_eq]
  first | omega | trivial | (rcases h1 with e | e | e <;> simp [e])

theorem acc_complexity {ch : Int} {c : Settings} (h : SettingsOk ch c) (w : View) (hf : w.first = 1) (hc : w.channels = ch) :
    setAccept w .complexity c.complexity = true := by
  obtain ⟨h1, h2, h3, h4, h5, h6, h7, h8, h9, h10, h11, h12, h13, h14, h15, h16, h17, h18, h19, h20, h21, h22, h23⟩ := h
  simp only [OPUS_AUTO, MODE_SILK_ONLY, MODE_CELT_ONLY] at h3 h4 h6 h16 h21
  simp only [setAccept, hf, hc, OPUS_AUTO, MODE_SILK_ONLY, MODE_CELT_ONLY, Bool.not_eq_true', decide_eq_false_iff_not,
             decide_eq_true_eq]
  first | omega | trivial | (rcases h1 with e | e | e <;> simp [e])

theorem acc_inbandFec {ch : Int} {c : Settings} (h : SettingsOk ch c) (w : View) (hf : w.first = 1) (hc : w.channels = ch) :
    setAccept w .inbandFec c.fecConfig = true := by
  obtain ⟨h1, h2, h3, h4, h5, h6, h7, h8, h9, h10, h11, h12, h13, h14, h15, h16, h17, h18, h19, h20, h21, h22, h23⟩ := h
  simp only [OPUS_AUTO, MODE_SILK_ONLY, MODE_CELT_ONLY] at h3 h4 h6 h16 h21
  simp only [setAccept, hf, hc, OPUS_AUTO, MODE_SILK_ONLY, MODE_CELT_ONLY, Bool.not_eq_true', decide_eq_false_iff_not,
             decide_eq_true_eq]
  first | omega | trivial | (rcases h1 with e | e | e <;> simp [e])

theorem acc_packetLoss {ch : Int} {c : Settings} (h : SettingsOk ch c) (w : View) (hf : w.first = 1) (hc : w.channels = ch) :
    setAccept w .packetLoss c.packetLossPercentage = true := by
  obtain ⟨h1, h2, h3, h4, h5, h6, h7, h8, h9, h10, h11, h12, h13, h14, h15, h16, h17, h18, h19, h20, h21, h22, h23⟩ := h
  simp only [OPUS_AUTO, MODE_SILK_ONLY, MODE_CELT_ONLY] at h3 h4 h6 h16 h21
  simp only [setAccept, hf, hc, OPUS_AUTO, MODE_SILK_ONLY, MODE_CELT_ONLY, Bool.not_eq_true', decide_eq_false_iff_not,
             decide_eq_true_eq]
  first | omega | trivial | (rcases h1 with e | e | e <;> simp [e])

theorem acc_vbr {ch : Int} {c : Settings} (h : SettingsOk ch c) (w : View) (hf : w.first = 1) (hc : w.channels = ch) :
    setAccept w .vbr c.useVbr = true := by
  obtain ⟨h1, h2, h3, h4, h5, h6, h7, h8, h9, h10, h11, h12, h13, h14, h15, h16, h17, h18, h19, h20, h21, h22, h23⟩ := h
  simp only [OPUS_AUTO, MODE_SILK_ONLY, MODE_CELT_ONLY] at h3 h4 h6 h16 h21
  simp only [setAccept, hf, hc, OPUS_AUTO, MODE_SILK_ONLY, MODE_CELT_ONLY, Bool.not_eq_true', decide_eq_false_iff_not,
             decide_eq_true_eq]
  first | omega | trivial | (rcases h1 with e | e | e <;> simp [e])

theorem acc_vbrConstraint {ch : Int} {c : Settings} (h : SettingsOk ch c) (w : View) (hf : w.first = 1) (hc : w.channels = ch) :
    setAccept w .vbrConstraint c.vbrConstraint = true := by
  obtain ⟨h1, h2, h3, h4, h5, h6, h7, h8, h9, h10, h11, h12, h13, h14, h15, h16, h17, h18, h19, h20, h21, h22, h23⟩ := h
  simp only [OPUS_AUTO, MODE_SILK_ONLY, MODE_CELT_ONLY] at h3 h4 h6 h16 h21
  simp only [setAccept, hf, hc, OPUS_AUTO, MODE_SILK_ONLY, MODE_CELT_ONLY, Bool.not_eq_true', decide_eq_false_iff_not,
             decide_eq_true_eq]
  first | omega | trivial | (rcases h1 with e | e | e <;> simp [e])

theorem acc_signal {ch : Int} {c : Settings} (h : SettingsOk ch c) (w : View) (hf : w.first = 1) (hc : w.channels = ch) :
    setAccept w .signal c.signalType = true := by
  obtain ⟨h1, h2, h3, h4, h5, h6, h7, h8, h9, h10, h11, h12, h13, h14, h15, h16, h17, h18, h19, h20, h21, h22, h23⟩ := h
  simp only [OPUS_AUTO, MODE_SILK_ONLY, MODE_CELT_ONLY] at h3 h4 h6 h16 h21
  simp only [setAccept, hf, hc, OPUS_AUTO, MODE_SILK_ONLY, MODE_CELT_ONLY, Bool.not_eq_true', decide_eq_false_iff_not,
             decide_eq_true_eq]
  first | omega | trivial | (rcases h1 with e | e | e <;> simp [e])

theorem acc_lsbDepth {ch : Int} {c : Settings} (h : SettingsOk ch c) (w : View) (hf : w.first = 1) (hc : w.channels = ch) :
    setAccept w .lsbDepth c.lsbDepth = true := by
  obtain ⟨h1, h2, h3, h4, h5, h6, h7, h8, h9, h10, h11, h12, h13, h14, h15, h16, h17, h18, h19, h20, h21, h22, h23⟩ := h
  simp only [OPUS_AUTO, MODE_SILK_ONLY, MODE_CELT_ONLY] at h3 h4 h6 h16 h21
  simp only [setAccept, hf, hc, OPUS_AUTO, MODE_SILK_ONLY, MODE_CELT_ONLY, Bool.not_eq_true', decide_eq_false_iff_not,
             decide_eq_true_eq]
  first | omega | trivial | (rcases h1 with e | e | e <;> simp [e])

theorem acc_frameDuration {ch : Int} {c : Settings} (h : SettingsOk ch c) (w : View) (hf : w.first = 1) (hc : w.channels = ch) :
    setAccept w .frameDuration c.variableDuration = true := by
  obtain ⟨h1, h2, h3, h4, h5, h6, h7, h8, h9, h10, h11, h12, h13, h14, h15, h16, h17, h18, h19, h20, h21, h22, h23⟩ := h
  simp only [OPUS_AUTO, MODE_SILK_ONLY, MODE_CELT_ONLY] at h3 h4 h6 h16 h21
  simp only [setAccept, hf, hc, OPUS_AUTO, MODE_SILK_ONLY, MODE_CELT_ONLY, Bool.not_eq_true', decide_eq_false_iff_not,
             decide_eq_true_eq]
  first | omega | trivial | (rcases h1 with e | e | e <;> simp [e])

theorem acc_predictionDisabled {ch : Int} {c : Settings} (h : SettingsOk ch c) (w : View) (hf : w.first = 1) (hc : w.channels = ch) :
    setAccept w .predictionDisabled c.reducedDependency = true := by
  obtain ⟨h1, h2, h3, h4, h5, h6, h7, h8, h9, h10, h11, h12, h13, h14, h15, h16, h17, h18, h19, h20, h21, h22, h23⟩ := h
  simp only [OPUS_AUTO, MODE_SILK_ONLY, MODE_CELT_ONLY] at h3 h4 h6 h16 h21
  simp only [setAccept, hf, hc, OPUS_AUTO, MODE_SILK_ONLY, MODE_CELT_ONLY, Bool.not_eq_true', decide_eq_false_iff_not,
             decide_eq_true_eq]
  first | omega | trivial | (rcases h1 with e | e | e <;> simp [e])

theorem acc_phaseInversionDisabled {ch : Int} {c : Settings} (h : SettingsOk ch c) (w : View) (hf : w.first = 1) (hc : w.channels = ch) :
    setAccept w .phaseInversionDisabled c.celtDisableInv = true := by
  obtain ⟨h1, h2, h3, h4, h5, h6, h7, h8, h9, h10, h11, h12, h13, h14, h15, h16, h17, h18, h19, h20, h21, h22, h23⟩ := h
  simp only [OPUS_AUTO, MODE_SILK_ONLY, MODE_CELT_ONLY] at h3 h4 h6 h16 h21
  simp only [setAccept, hf, hc, OPUS_AUTO, MODE_SILK_ONLY, MODE_CELT_ONLY, Bool.not_eq_true', decide_eq_false_iff_not,
             decide_eq_true_eq]
  first | omega | trivial | (rcases h1 with e | e | e <;> simp [e])

theorem acc_forceMode {ch : Int} {c : Settings} (h : SettingsOk ch c) (w : View) (hf : w.first = 1) (hc : w.channels = ch) :
    setAccept w .forceMode c.userForcedMode = true := by
  obtain ⟨h1, h2, h3, h4, h5, h6, h7, h8, h9, h10, h11, h12, h13, h14, h15, h16, h17, h18, h19, h20, h21, h22, h23⟩ := h
  simp only [OPUS_AUTO, MODE_SILK_ONLY, MODE_CELT_ONLY] at h3 h4 h6 h16 h21
  simp only [setAccept, hf, hc, OPUS_AUTO, MODE_SILK_ONLY, MODE_CELT_ONLY, Bool.not_eq_true', decide_eq_false_iff_not,
             decide_eq_true_eq]
  first | omega | trivial | (rcases h1 with e | e | e <;> simp [e])

theorem acc_lfe {ch : Int} {c : Settings} (h : SettingsOk ch c) (w : View) (hf : w.first = 1) (hc : w.channels = ch) :
    setAccept w .lfe c.lfe = true := rfl

theorem accept_settingsRequests_view {ch : Int} {c : Settings} (h : SettingsOk ch c) (w : View)
    (hf : w.first = 1) (hc : w.channels = ch) :
    ∀ kv ∈ settingsRequests c, setAccept w kv.1 kv.2 = true := by
  intro kv hm
  simp only [settingsRequests, List.mem_cons, List.mem_nil_iff, or_false] at hm
  rcases hm with rfl | rfl | rfl | rfl | rfl | rfl | rfl | rfl | rfl | rfl | rfl | rfl | rfl | rfl | rfl | rfl | rfl | rfl

  · exact acc_application h w hf hc
  · exact acc_bitrate h w hf hc
  · exact acc_forceChannels h w hf hc
  · exact acc_maxBandwidth h w hf hc
  · exact acc_bandwidth h w hf hc
  · exact acc_dtx h w hf hc
  · exact acc_complexity h w hf hc
  · exact acc_inbandFec h w hf hc
  · exact acc_packetLoss h w hf hc
  · exact acc_vbr h w hf hc
  · exact acc_vbrConstraint h w hf hc
  · exact acc_signal h w hf hc
  · exact acc_lsbDepth h w hf hc
  · exact acc_frameDuration h w hf hc
  · exact acc_predictionDisabled h w hf hc
  · exact acc_phaseInversionDisabled h w hf hc
  · exact acc_forceMode h w hf hc
  · exact acc_lfe h w hf hc

theorem accept_settingsRequests {ch : Int} {c : Settings} (h : SettingsOk ch c) (s : Enc)
    (hf : s.first = 1) (hc : s.channels = ch) :
    ∀ kv ∈ settingsRequests c, setAccept (view s) kv.1 kv.2 = true :=
  accept_settingsRequests_view h (view s) hf hc

theorem bitrate_clamp_id {ch v : Int} (h : v = OPUS_AUTO ∨ v = -1 ∨ (500 ≤ v ∧ v ≤ 300000 * ch)) :
    (if v ≠ OPUS_AUTO ∧ v ≠ -1 then (if v ≤ 500 then 500 else if v > 300000 * ch then 300000 * ch else v) else v) = v := by
  simp only [OPUS_AUTO] at *
  split
  · split
    · omega
    · split <;> omega
  · rfl

/-- The state the accepted requests leave is indistinguishable from `encFresh … c`. -/
theorem view_applyAll_requests (fs ch app0 arch so co : Int) (c : Settings) (h : SettingsOk ch c) :
    view (applyAll (encInit fs ch app0 arch so co) (settingsRequests c)) = view (encFresh fs ch arch so co c) := by
  obtain ⟨h1, h2, h3, h4, h5, h6, h7, h8, h9, h10, h11, h12, h13, h14, h15, h16, h17, h18, h19, h20, h21, h22, h23⟩ := h
  have hb := bitrate_clamp_id h3
  simp only [settingsRequests, applyAll, setApply, encInit] at hb ⊢
  simp only [view, encFresh, withSettings, encInit, silkCtlInit, celtCfgInit, View.mk.injEq]
  simp [hb, h2, h9, h11, h13, h22, h23, MODE_SILK_ONLY, MODE_HYBRID]

/-- "A new encoder carrying the settings c", by requests: after `opus_encoder_init` (any valid
    application) every request of `settingsRequests c` is accepted, and the result is indistinguishable
    from `encFresh … c`. -/
theorem replay_requests (fs ch app0 arch so co : Int) (c : Settings) (ha : app0 = 2048 ∨ app0 = 2049 ∨ app0 = 2051)
    (h : SettingsOk ch c) :
    ∃ s', replay (encInit fs ch app0 arch so co) (settingsRequests c) = some s' ∧
          view s' = view (encFresh fs ch arch so co c) := by
  refine ⟨applyAll (encInit fs ch app0 arch so co) (settingsRequests c), ?_, view_applyAll_requests fs ch app0 arch so co c h⟩
  apply replay_of_accept
  · intro s' hf hc _ kv hm
    exact accept_settingsRequests h s' (by rw [hf]; rfl) (by rw [hc]; rfl) kv hm
  · rcases ha with e | e | e <;> simp [encInit, e]
  · intro kv hm hk
    simp only [settingsRequests, List.mem_cons, List.mem_nil_iff, or_false] at hm
    rcases hm with rfl | rfl | rfl | rfl | rfl | rfl | rfl | rfl | rfl | rfl | rfl | rfl | rfl | rfl | rfl | rfl | rfl | rfl <;>
    first
      | (simp at hk; done)
      | (rcases h.app with e | e | e <;> simp [e])

end Opus.ResetState

