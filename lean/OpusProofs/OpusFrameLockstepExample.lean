import OpusProofs.OpusFrameLockstep
import OpusProofs.OpusFrameCeltExample
import OpusProofs.CeltFrameExample
/-
  One concrete frame per case of `OpusFrameCase`, every hypothesis evaluated in the kernel:
  * SILK-only: NB mono 10 ms voiced frame, 31 bytes;
  * SILK-only with redundancy: the same SILK payload followed by the 24-byte 5 ms CELT frame of
    OpusProofs/OpusFrameCeltExample.lean (72 coder calls of C17's encoder model);
  * hybrid: SWB mono 10 ms — WB SILK part (unvoiced), redundancy flag 0, and a CELT part of bands 17-18 from C17's encoder
    model on the shared coder (33 calls: header, allocation, fine energy, PVQ with a split band, finalisation), 60 bytes CBR;
  * CELT-only: the 24-byte 2.5 ms NB frame of OpusProofs/CeltFrameExample.lean (C17; 75 coder calls).
-/
namespace Opus.OpusFrameProofs.Example
open Opus Opus.RangeCoder Opus.SilkSyms Opus.SilkSymsEnc Opus.SilkSymsEncProofs Opus.OpusFrameEnc Opus.CeltSymsEnc
open OpusProofs.CeltHdr Opus.OpusFrameProofs

def monoIx : Indices :=
  { signalType := 2, quantOffsetType := 1, gains := [37, 5], nlsf0 := 17, nlsfRes := [0, 3, -10, 10, 4, -4, 1, 0, -1, 2], interp := 4, lagIndex := 100, contourIndex := 2, perIndex := 1, ltp := [15, 0], ltpScale := 2, seed := 3 }
def monoPulses : List Int :=
  [0, 1, 0, -1, 2, 0, 0, 0, 0, 0, 0, 0, 0, 0, 0, 1] ++ List.replicate 16 0 ++
  [40, -3, 0, 0, 1, 0, 0, 0, 0, 0, -7, 0, 0, 0, 0, 0] ++ List.replicate 16 0 ++
  [0, 0, 0, 0, 0, 0, 0, -1, 0, 0, 0, 0, 0, 0, 0, 0]
def monoPacket : PacketIn :=
  { ch0 := { vad := [1], lbrrFlags := [0], lbrr := [], frames := [⟨monoIx, monoPulses⟩], prev := {} },
    ch1 := default, predIx := [], midOnly := [], lbrrPredIx := [], lbrrMidOnly := [] }
def bufS : List Nat := List.replicate 100 170

theorem monoOk : PacketOk (silkCfg 1101 1 100) monoPacket :=
  ⟨by decide, by decide, by decide, by decide, by decide +kernel, by decide +kernel, by decide +kernel,
   by decide +kernel, by decide +kernel, by decide +kernel⟩

/-- SILK-only -/
theorem caseSilk : OpusFrameCase 1101 1 100 480 1000 (silkOnlyFrame bufS 101 (silkCfg 1101 1 100) monoPacket) :=
  .silk bufS 101 monoPacket (Or.inl rfl) (Or.inl rfl) (by decide) (by decide +kernel) monoOk (by decide +kernel)
    (by decide +kernel) (by decide +kernel)

/-- SILK-only with redundancy -/
theorem caseSilkRed : ∃ fr, OwnCoderFrame worldR cfgR s0R fr ∧
    OpusFrameCase 1101 1 100 480 1000 (silkRedFrame bufS 101 (silkCfg 1101 1 100) monoPacket 1 worldR.bytes fr.fin.rng) := by
  obtain ⟨fr, hown, _, _, _⟩ := ownR
  have hl : worldR.bytes.length = 24 := by decide +kernel
  refine ⟨fr, hown, .silkRed bufS 101 monoPacket 1 worldR cfgR s0R fr (Or.inl rfl) (Or.inl rfl) (by decide) (by decide +kernel)
    monoOk (by decide) hown (by decide +kernel) ?_ ?_ ?_ ?_⟩
  · rw [hl]; decide +kernel
  · rw [hl]; decide +kernel
  · rw [hl]; decide +kernel
  · rw [hl]; decide +kernel

/-! the hybrid frame -/

def hybPacket : PacketIn :=
  { ch0 := { vad := [1], lbrrFlags := [0], lbrr := [], frames := [⟨{ signalType := 1, quantOffsetType := 0, gains := [30, 5], nlsf0 := 3, nlsfRes := [0, 1, -1, 0, 2, 0, 0, -2, 0, 0, 1, 0, 0, 0, -1, 0], interp := 4, lagIndex := 0, contourIndex := 0, perIndex := 0, ltp := [], ltpScale := 0, seed := 2 }, (List.range 160).map (fun (i : Nat) => if i % 17 = 0 then 1 else if i % 29 = 0 then -2 else 0)⟩], prev := {} },
    ch1 := default, predIx := [], midOnly := [], lbrrPredIx := [], lbrrMidOnly := [] }
def bufH : List Nat := List.replicate 60 170
def cfgH : EncCfg := { start := 17, end_ := 19, C := 1, LM := 2, vbr := false, lfe := false, size := 60 }
/-- CELT decisions: post-filter off, transient 0, intra 0, two coarse energies, tf, spread, dynalloc, trim 5, intensity 19,
    dual 0, …; then 40 × 1 for the band data -/
def dsH : List Int := [0, 0, 0, 0, 1, -1, 0, 0, 2, 0, 0, 5, 19, 0, 0, 19] ++ List.replicate 40 1
def s0H : St := { e := encRun (encInit bufH 60) (hybridP0 61 (hybridCfg 1 100) hybPacket true), ops := [], ds := dsH }
def allH : List Op := match Opus.CeltBandsEnc.encFrame cfgH s0H with | .ok f => f.ops | _ => []

theorem hybOk : PacketOk (hybridCfg 1 100) hybPacket :=
  ⟨by decide, by decide, by decide, by decide, by decide +kernel, by decide +kernel, by decide +kernel,
   by decide +kernel, by decide +kernel, by decide +kernel⟩

/-- hybrid -/
theorem caseHybrid : ∃ fr, Opus.CeltBandsEnc.encFrame cfgH s0H = .ok fr ∧ fr.ops.length = 33 ∧
    OpusFrameCase 1104 1 100 480 1001 (hybridFrame bufH 61 (hybridCfg 1 100) hybPacket true 0 0 fr.ops [] 0) := by
  have hok : (match Opus.CeltBandsEnc.encFrame cfgH s0H with | .ok _ => true | _ => false) = true := by decide +kernel
  cases h : Opus.CeltBandsEnc.encFrame cfgH s0H with
  | ok fr =>
    have hall : allH = fr.ops := by unfold allH; rw [h]
    have f1 : (match Opus.CeltBandsEnc.encFrame cfgH s0H with
        | .ok f => decide (f.hdr.silence = 0 ∧ f.hdr.size = 60 ∧ f.hdr.pf.on = 0 ∧
            (cfgH.start : Int) ≤ f.hdr.allocInp.intensity ∧ f.hdr.allocInp.dualStereo = 0 ∧ f.ops.length = 33)
        | _ => false) = true := by decide +kernel
    rw [h] at f1
    have f1 := of_decide_eq_true f1
    have hst : (encodeAll bufH (61 - 1) (hybridOps 61 (hybridCfg 1 100) hybPacket true 0 0 0 fr.ops)).storage = 60 := by
      rw [← hall]; decide +kernel
    refine ⟨fr, rfl, f1.2.2.2.2.2, .hybrid bufH 61 hybPacket true cfgH s0H fr (Or.inl rfl) (by decide) (by decide +kernel) hybOk
      (by rw [← hall]; decide +kernel) (by rw [← hall]; decide +kernel) (by rw [← hall]; decide +kernel)
      (by rw [hst]; decide +kernel) (by rw [hst]; decide)
      ⟨rfl, rfl, by decide +kernel, h, f1.1, by decide, by decide, by rw [hst, f1.2.1], Or.inl hst, by rw [hst]; decide +kernel,
        fun hne => absurd f1.2.2.1 hne, f1.2.2.2.1, Or.inl f1.2.2.2.2.1⟩
      (by decide)⟩
  | err e => rw [h] at hok; cases hok
  | oob => rw [h] at hok; cases hok
  | abort => rw [h] at hok; cases hok

/-- CELT-only -/
theorem caseCelt : ∃ fr, OpusFrameCase 1101 1 25 120 1002
      (celtOnlyFrame OpusProofs.CeltHdr.Example.worldF.buf OpusProofs.CeltHdr.Example.worldF.size OpusProofs.CeltHdr.Example.worldF.all) ∧
    Opus.CeltBandsEnc.encFrame OpusProofs.CeltHdr.Example.cfg OpusProofs.CeltHdr.Example.s0F = .ok fr ∧ fr.ops.length = 75 := by
  obtain ⟨fr, h1, h2, h3, h4, h5, h6, h7, h8, h9, h10, h11, h12, h13, _⟩ := OpusProofs.CeltHdr.Example.hypsF
  have hall : OpusProofs.CeltHdr.Example.worldF.all = fr.ops := by
    show OpusProofs.CeltHdr.Example.allF = fr.ops
    unfold OpusProofs.CeltHdr.Example.allF; rw [h1]
  refine ⟨fr, .celt OpusProofs.CeltHdr.Example.worldF OpusProofs.CeltHdr.Example.cfg OpusProofs.CeltHdr.Example.s0F fr
    ⟨h2, h3, h4, h1, h5, by rw [List.nil_append] at h6; exact h6, by decide, by decide, h7, Or.inl h8, h9,
      fun hne => absurd h10 hne, h11, Or.inl h12⟩ hall (by decide), h1, h13⟩

end Opus.OpusFrameProofs.Example
