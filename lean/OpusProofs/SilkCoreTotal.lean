import OpusProofs.SilkCoreParams
/-
  OpusProofs.SilkCoreTotal — totality of the model of `silk_decode_core`: on a configuration of `silk_decoder_set_fs`, with
  non-zero gains and pitch lags as `silk_decode_pitch` delivers them (legal range, spread of at most 18 samples inside a frame),
  no sub-frame reaches `.oob` (a read of an unwritten `sLTP_Q15` element, an index outside a table or buffer) or `.abort`
  (`celt_assert( start_idx > 0 )`, division by a zero gain).
-/
namespace Opus.SilkCoreProofs
open Opus Opus.SilkParams Opus.SilkCore Opus.Gen Opus.Frozen

/-- What `silk_decode_core` needs from its caller. -/
structure CoreHyp (s : DecState) (f : FrameIn) (ctrl : Ctrl) : Prop where
  cfg : CfgOk s.fsKHz s.nbSubfr
  outLen : s.outBuf.length = 480
  sig : f.signalType = 0 ∨ f.signalType = 1 ∨ f.signalType = 2
  qoff : f.quantOffsetType = 0 ∨ f.quantOffsetType = 1
  pulses : frameLen s.fsKHz s.nbSubfr ≤ f.pulses.length
  gainsLen : ctrl.gainsQ16.length = s.nbSubfr
  gainsNz : ∀ g ∈ ctrl.gainsQ16, g ≠ 0
  pitchLen : ctrl.pitchL.length = s.nbSubfr
  pitchRange : f.signalType = 2 → ∀ l ∈ ctrl.pitchL, 2 * (s.fsKHz : Int) ≤ l ∧ l ≤ 18 * (s.fsKHz : Int)
  pitchSpread : f.signalType = 2 → ∀ i j, i < s.nbSubfr → j < s.nbSubfr → ctrl.pitchL.getD i 0 - ctrl.pitchL.getD j 0 ≤ 18
  lagPrev : s.lossCnt ≠ 0 → s.prevSignalType = 2 → 2 * (s.fsKHz : Int) ≤ s.lagPrev ∧ s.lagPrev ≤ 18 * (s.fsKHz : Int)

/-- The lag of sub-frame 0 when it is voiced. -/
def lag0 (s : DecState) (f : FrameIn) (ctrl : Ctrl) : Int := if f.signalType = 2 then ctrl.pitchL.getD 0 0 else s.lagPrev

theorem getI_of_getD (l : List Int) (k : Nat) (h : k < l.length) : getI l (k : Int) = .ok (l.getD k 0) := by
  unfold getI
  rw [if_neg (by omega)]
  simp only [Int.toNat_natCast, List.getElem?_eq_getElem h, List.getD_eq_getElem?_getD, Option.getD_some]

theorem splice_one_len (l : List Int) (k : Nat) (v : Int) (h : k < l.length) : (splice l k [v]).length = l.length :=
  splice_len l k [v] (by simp; omega)

theorem splice_one_get (l : List Int) (k : Nat) (v : Int) (h : k < l.length) : (splice l k [v]).getD k 0 = v := by
  unfold splice
  rw [List.getD_eq_getElem?_getD, List.append_assoc, List.getElem?_append_right (by simp; omega)]
  simp [List.length_take, Nat.min_eq_left (Nat.le_of_lt h)]

theorem isOk_ex {α} {r : Res α} (h : r.isOk = true) : ∃ v, r = .ok v := by
  cases r with
  | ok v => exact ⟨v, rfl⟩
  | err e => simp [Res.isOk] at h
  | oob => simp [Res.isOk] at h
  | abort => simp [Res.isOk] at h

theorem quantOffset_ok (st qo : Int) (h1 : st = 0 ∨ st = 1 ∨ st = 2) (h2 : qo = 0 ∨ qo = 1) : ∃ v, quantOffset st qo = .ok v := by
  rcases h1 with h | h | h <;> rcases h2 with h' | h' <;> subst h <;> subst h' <;> exact isOk_ex (by decide)

theorem lpcAnaRev_len (B : List Int) : ∀ (n : Nat) (sig : List Int), n ≤ sig.length → (lpcAnaRev B n sig).length = n := by
  intro n
  induction n with
  | zero => intro sig _; simp [lpcAnaRev]
  | succ n ih =>
    intro sig h
    cases sig with
    | nil => simp at h
    | cons x past => simp only [lpcAnaRev, List.length_cons]; rw [ih past (by simp at h; omega)]

theorem rewhitenBuf_len (fs k : Nat) (c : CoreSt) (h : ltpMemLen fs + 2 * subfrLen fs ≤ c.outBuf.length) :
    (rewhitenBuf fs k c).length = c.outBuf.length := by
  unfold rewhitenBuf
  split
  · apply splice_len
    have := List.length_take_le (2 * subfrLen fs) c.xq
    omega
  · rfl

/-- `ltpSynth` is total as soon as the LTP state holds `lag + 2` written elements and `lag ≥ 3`. -/
theorem ltpSynth_total (B : List Int) (lag : Int) (h3 : 3 ≤ lag) : ∀ (es h : List Int) (ub : Nat), (lag + 2).toNat ≤ h.length →
    ∃ r, ltpSynth B lag es h ub = .ok r := by
  intro es
  induction es with
  | nil => intro h ub _; exact ⟨_, rfl⟩
  | cons e es ih =>
    intro h ub hl
    simp only [ltpSynth]
    rw [if_neg (by omega)]
    have ht : ¬ ((h.drop (lag - 3).toNat).take 5).length < 5 := by
      rw [List.length_take, List.length_drop]; omega
    rw [if_neg ht]
    obtain ⟨r, hr⟩ := ih (lshift32 (wrap32 (e + lshift32 (ltpPred ((h.drop (lag - 3).toNat).take 5) B) 1)) 1 :: h)
      (ub + (if wrap32 (e + lshift32 (ltpPred ((h.drop (lag - 3).toNat).take 5) B) 1) =
        e + lshift32 (ltpPred ((h.drop (lag - 3).toNat).take 5) B) 1 then 0 else 1)) (by simp only [List.length_cons]; omega)
    rw [hr]
    exact ⟨_, rfl⟩

/-- Sub-frame 0 of the frame runs the long-term predictor. -/
def VoicedFrame (s : DecState) (f : FrameIn) : Prop :=
  f.signalType = 2 ∨ (s.lossCnt ≠ 0 ∧ s.prevSignalType = 2 ∧ f.signalType ≠ 2)

/-- Loop invariant of the sub-frame loop. -/
structure SubInv (s : DecState) (f : FrameIn) (ctrl : Ctrl) (k : Nat) (c : CoreSt) : Prop where
  pl : c.pitchL.length = s.nbSubfr
  ob : c.outBuf.length = 480
  same : f.signalType = 2 → c.pitchL = ctrl.pitchL
  lh : 1 ≤ k → VoicedFrame s f → (lag0 s f ctrl + 2).toNat + subfrLen s.fsKHz ≤ c.ltpH.length

theorem transK_voiced (s : DecState) (f : FrameIn) (k : Nat) (h : f.signalType = 2) : transK s f k = false := by
  simp [transK, SilkCoreTabs.typeVoiced, h]

theorem transK_true (s : DecState) (f : FrameIn) (k : Nat) (h : transK s f k = true) :
    s.lossCnt ≠ 0 ∧ s.prevSignalType = 2 ∧ f.signalType ≠ 2 ∧ k < 2 := by
  simp only [transK, SilkCoreTabs.typeVoiced, SilkCoreTabs.maxNbSubfr, Bool.and_eq_true] at h
  obtain ⟨⟨⟨a, b⟩, c⟩, d⟩ := h
  have d' := of_decide_eq_true d
  exact ⟨of_decide_eq_true a, of_decide_eq_true b, of_decide_eq_true c, by omega⟩

theorem subPrep_pitchL (s : DecState) (f : FrameIn) (ctrl : Ctrl) (exc : List Int) (k : Nat) (c : CoreSt) (g : Int) :
    (subPrep s f ctrl exc k c g).pitchL = if transK s f k = true then splice c.pitchL k [s.lagPrev] else c.pitchL := rfl

theorem subPrep_voiced (s : DecState) (f : FrameIn) (ctrl : Ctrl) (exc : List Int) (k : Nat) (c : CoreSt) (g : Int) :
    (subPrep s f ctrl exc k c g).voiced = (transK s f k || decide (f.signalType = SilkCoreTabs.typeVoiced)) := rfl

theorem getD_mem (l : List Int) (k : Nat) (h : k < l.length) : l.getD k 0 ∈ l := by
  rw [List.getD_eq_getElem?_getD, List.getElem?_eq_getElem h]
  exact List.getElem_mem h

/-- The lag a voiced sub-frame uses. -/
theorem lagFacts (s : DecState) (f : FrameIn) (ctrl : Ctrl) (exc : List Int) (k : Nat) (c : CoreSt) (g : Int)
    (H : CoreHyp s f ctrl) (hk : k < s.nbSubfr) (I : SubInv s f ctrl k c)
    (hv : (subPrep s f ctrl exc k c g).voiced = true) :
    ∃ lag, getI (subPrep s f ctrl exc k c g).pitchL k = .ok lag ∧ 2 * (s.fsKHz : Int) ≤ lag ∧ lag ≤ 18 * (s.fsKHz : Int) ∧
      lag ≤ lag0 s f ctrl + 18 ∧ (k = 0 → lag = lag0 s f ctrl) ∧ VoicedFrame s f ∧
      (subPrep s f ctrl exc k c g).pitchL.length = s.nbSubfr ∧
      (f.signalType = 2 → (subPrep s f ctrl exc k c g).pitchL = ctrl.pitchL) := by
  by_cases h2 : f.signalType = 2
  · have hp : (subPrep s f ctrl exc k c g).pitchL = ctrl.pitchL := by
      rw [subPrep_pitchL, transK_voiced s f k h2]; simp [I.same h2]
    have hkl : k < ctrl.pitchL.length := by rw [H.pitchLen]; exact hk
    have hr := H.pitchRange h2 _ (getD_mem ctrl.pitchL k hkl)
    have hs := H.pitchSpread h2 k 0 hk (by omega)
    refine ⟨ctrl.pitchL.getD k 0, by rw [hp]; exact getI_of_getD _ _ hkl, hr.1, hr.2, ?_, ?_, Or.inl h2, by rw [hp]; exact H.pitchLen,
      fun _ => hp⟩
    · unfold lag0; rw [if_pos h2]; omega
    · intro h0; subst h0; unfold lag0; rw [if_pos h2]
  · have ht : transK s f k = true := by
      rw [subPrep_voiced] at hv
      have : decide (f.signalType = SilkCoreTabs.typeVoiced) = false := by simp [SilkCoreTabs.typeVoiced, h2]
      rw [this, Bool.or_false] at hv; exact hv
    obtain ⟨t1, t2, t3, t4⟩ := transK_true s f k ht
    have hkl : k < c.pitchL.length := by rw [I.pl]; exact hk
    have hp : (subPrep s f ctrl exc k c g).pitchL = splice c.pitchL k [s.lagPrev] := by rw [subPrep_pitchL, if_pos ht]
    have hlen : (splice c.pitchL k [s.lagPrev]).length = s.nbSubfr := by rw [splice_one_len _ _ _ hkl]; exact I.pl
    have hl := H.lagPrev t1 t2
    have hl0 : lag0 s f ctrl = s.lagPrev := by unfold lag0; rw [if_neg h2]
    refine ⟨s.lagPrev, ?_, hl.1, hl.2, by rw [hl0]; omega, fun _ => hl0.symm, Or.inr ⟨t1, t2, t3⟩, by rw [hp]; exact hlen,
      fun h => absurd h h2⟩
    rw [hp]
    have := getI_of_getD (splice c.pitchL k [s.lagPrev]) k (by rw [hlen]; exact hk)
    rw [this, splice_one_get _ _ _ hkl]

theorem cfg_order {fs nb : Nat} (h : CfgOk fs nb) : (lpcOrder fs : Int) + 2 < 2 * (fs : Int) ∧ 0 ≤ (lpcOrder fs : Int) := by
  rcases h with ⟨h | h | h, _⟩ <;> subst h <;> decide

theorem rewhiten_total (fs nb k : Nat) (lag : Int) (A : List Int) (ig : Int) (c : CoreSt) (hc : CfgOk fs nb)
    (hob : c.outBuf.length = 480) (hl : 2 * (fs : Int) ≤ lag ∧ lag ≤ 18 * (fs : Int)) :
    ∃ ob, rewhiten fs k lag A ig c = .ok ob ∧ ob.1.length = 480 ∧ (lag + 2).toNat ≤ ob.2.length ∧ c.ltpH.length ≤ ob.2.length := by
  obtain ⟨hsf, hm, _, _⟩ := cfg_nums hc
  obtain ⟨ho, ho0⟩ := cfg_order hc
  have hfs : fs ≤ 16 := by rcases hc.1 with h | h | h <;> omega
  have h5 : ((SilkCoreTabs.ltpOrder / 2 : Nat) : Int) = 2 := by decide
  have hbuf : (rewhitenBuf fs k c).length = 480 := by rw [rewhitenBuf_len _ _ _ (by omega), hob]
  have hn : (lag + 2).toNat ≤ ((rewhitenBuf fs k c).take (ltpMemLen fs + k * subfrLen fs)).reverse.length := by
    rw [List.length_reverse, List.length_take, hbuf, hm]; omega
  have hL := lpcAnaRev_len A _ _ hn
  unfold rewhiten
  rw [if_neg (by rw [h5, hm]; omega), if_neg (by rw [h5]; omega), hL, if_neg (Nat.lt_irrefl _)]
  refine ⟨_, rfl, hbuf, ?_, ?_⟩
  · simp only [List.length_append, List.length_map, hL]; omega
  · simp only [List.length_append, List.length_map, hL, List.length_drop]; omega

theorem ltpState_total (fs nb : Nat) (sc : Int) (ifl : Bool) (k : Nat) (lag : Int) (p : SubPrep) (c : CoreSt) (hc : CfgOk fs nb)
    (hob : c.outBuf.length = 480) (hl : 2 * (fs : Int) ≤ lag ∧ lag ≤ 18 * (fs : Int))
    (hh : 1 ≤ k → (lag + 2).toNat ≤ c.ltpH.length) :
    ∃ ob, ltpState fs sc ifl k lag p c = .ok ob ∧ ob.1.length = 480 ∧ (lag + 2).toNat ≤ ob.2.length ∧
      c.ltpH.length ≤ ob.2.length := by
  unfold ltpState
  split
  · exact rewhiten_total fs nb k lag p.A _ { c with hist := p.hist } hc hob hl
  · rename_i hk
    have hk1 : 1 ≤ k := by omega
    split
    · refine ⟨_, rfl, hob, ?_, ?_⟩ <;>
        (simp only [List.length_append, List.length_map, List.length_take, List.length_drop]; have := hh hk1; omega)
    · exact ⟨_, rfl, hob, hh hk1, Nat.le_refl _⟩

theorem excK_len (exc : List Int) (k sl : Nat) (h : (k + 1) * sl ≤ exc.length) : ((exc.drop (k * sl)).take sl).length = sl := by
  rw [List.length_take, List.length_drop]
  have : (k + 1) * sl = k * sl + sl := by rw [Nat.add_mul, Nat.one_mul]
  omega

theorem subPrep_excK (s : DecState) (f : FrameIn) (ctrl : Ctrl) (exc : List Int) (k : Nat) (c : CoreSt) (g : Int) :
    (subPrep s f ctrl exc k c g).excK = (exc.drop (k * subfrLen s.fsKHz)).take (subfrLen s.fsKHz) := rfl

theorem voicedLtp_total (s : DecState) (f : FrameIn) (ctrl : Ctrl) (ifl : Bool) (exc : List Int) (k : Nat) (c : CoreSt) (g : Int)
    (H : CoreHyp s f ctrl) (hk : k < s.nbSubfr) (I : SubInv s f ctrl k c)
    (hexc : (k + 1) * subfrLen s.fsKHz ≤ exc.length)
    (hv : (subPrep s f ctrl exc k c g).voiced = true) :
    ∃ v, voicedLtp s.fsKHz ctrl.ltpScaleQ14 ifl k (subPrep s f ctrl exc k c g) c = .ok v ∧ v.2.1.length = 480 ∧
      (lag0 s f ctrl + 2).toNat + subfrLen s.fsKHz ≤ v.2.2.1.length := by
  obtain ⟨lag, hlag, hl1, hl2, hl3, hl4, hvf, _, _⟩ := lagFacts s f ctrl exc k c g H hk I hv
  obtain ⟨hsf, _, _, _⟩ := cfg_nums H.cfg
  have hfs : 8 ≤ s.fsKHz := by rcases H.cfg.1 with h | h | h <;> omega
  obtain ⟨ob, hob, ho1, ho2, ho3⟩ := ltpState_total s.fsKHz s.nbSubfr ctrl.ltpScaleQ14 ifl k lag (subPrep s f ctrl exc k c g) c H.cfg
    I.ob ⟨hl1, hl2⟩ (by intro h1; have := I.lh h1 hvf; omega)
  obtain ⟨r, hr⟩ := ltpSynth_total (subPrep s f ctrl exc k c g).B lag (by omega) (subPrep s f ctrl exc k c g).excK ob.2 c.ub ho2
  have hrl := (ltpSynth_len _ _ _ _ _ _ hr).2
  rw [subPrep_excK, excK_len exc k _ hexc] at hrl
  unfold voicedLtp
  simp only [hlag, hob, hr, Res.bind_ok, Res.pure_eq]
  refine ⟨_, rfl, ho1, ?_⟩
  show _ ≤ r.2.1.length
  rw [hrl]
  by_cases h0 : k = 0
  · rw [← hl4 h0]; omega
  · have := I.lh (by omega) hvf; omega

/-- One sub-frame is total and re-establishes the loop invariant. -/
theorem subframe_total (s : DecState) (f : FrameIn) (ctrl : Ctrl) (ifl : Bool) (exc : List Int) (k : Nat) (c : CoreSt)
    (H : CoreHyp s f ctrl) (hk : k < s.nbSubfr) (I : SubInv s f ctrl k c) (hexc : (k + 1) * subfrLen s.fsKHz ≤ exc.length) :
    ∃ c', subframe s f ctrl ifl exc k c = .ok c' ∧ SubInv s f ctrl (k + 1) c' := by
  have hkl : k < ctrl.gainsQ16.length := by rw [H.gainsLen]; exact hk
  have hg := getI_of_getD ctrl.gainsQ16 k hkl
  have hnz := H.gainsNz _ (getD_mem ctrl.gainsQ16 k hkl)
  unfold subframe
  simp only [hg, Res.bind_ok]
  rw [if_neg hnz]
  by_cases hv : (subPrep s f ctrl exc k c (ctrl.gainsQ16.getD k 0)).voiced = true
  · rw [if_pos hv]
    obtain ⟨v, hvv, hv1, hv2⟩ := voicedLtp_total s f ctrl ifl exc k c _ H hk I hexc hv
    obtain ⟨lag, _, _, _, _, _, _, hpl, hsame⟩ := lagFacts s f ctrl exc k c _ H hk I hv
    simp only [hvv, Res.bind_ok, Res.pure_eq]
    exact ⟨_, rfl, { pl := hpl, ob := hv1, same := hsame, lh := fun _ _ => hv2 }⟩
  · rw [if_neg hv]
    simp only [Res.pure_eq]
    have hnt : transK s f k = false := by
      rw [subPrep_voiced] at hv
      cases ht : transK s f k
      · rfl
      · rw [ht] at hv; simp at hv
    have hns : f.signalType ≠ 2 := by
      intro h2
      rw [subPrep_voiced] at hv
      have : decide (f.signalType = SilkCoreTabs.typeVoiced) = true := by simp [SilkCoreTabs.typeVoiced, h2]
      rw [this] at hv; simp at hv
    have hp : (subPrep s f ctrl exc k c (ctrl.gainsQ16.getD k 0)).pitchL = c.pitchL := by rw [subPrep_pitchL, hnt]; simp
    refine ⟨_, rfl, { pl := by show (subPrep s f ctrl exc k c (ctrl.gainsQ16.getD k 0)).pitchL.length = _; rw [hp]; exact I.pl, ob := I.ob,
                      same := fun h => absurd h hns, lh := ?_ }⟩
    intro _ hvf
    show _ ≤ c.ltpH.length
    -- an unvoiced sub-frame of a frame whose sub-frame 0 was voiced: only after the transition sub-frames, k ≥ 2
    rcases hvf with h | ⟨t1, t2, t3⟩
    · exact absurd h hns
    · have hk2 : ¬ k < 2 := by
        intro hlt
        have : transK s f k = true := by
          simp only [transK, SilkCoreTabs.typeVoiced, SilkCoreTabs.maxNbSubfr, Bool.and_eq_true]
          exact ⟨⟨⟨decide_eq_true t1, decide_eq_true t2⟩, decide_eq_true t3⟩, decide_eq_true (by omega)⟩
        rw [this] at hnt; cases hnt
      exact I.lh (by omega) (Or.inr ⟨t1, t2, t3⟩)

end Opus.SilkCoreProofs
