import OpusModel.SilkCoreFrame
import OpusModel.SilkCoreFrozenEq
import OpusProofs.SilkCoreParams
/-
  OpusProofs.SilkCoreExample — concrete frames used as non-vacuity witnesses by `OpusProps.C03SilkCore`
  (evaluated by the kernel).
-/
namespace Opus.SilkCoreProofs
open Opus Opus.SilkParams Opus.SilkCore Opus.Gen Opus.Frozen

/-- Decoder state after `silk_init_decoder` + `silk_decoder_set_fs( 8 kHz )`, 10 ms frames, with a non-trivial signal history. -/
def exState : DecState :=
  { fsKHz := 8, nbSubfr := 2,
    sLPC := [1200, -3400, 560, 78000, -91000, 4400, -120, 0, 77, -15000, 1, 2, 3, 4, 5, 6],
    outBuf := (List.range 480).map (fun (i : Nat) => ((i : Int) * 7919 % 4001) - 2000),
    excQ14 := List.replicate 320 0, prevGainQ16 := 65536, lagPrev := 100, lastGainIndex := 10,
    prevNlsf := [1000, 4000, 7000, 10000, 13000, 16000, 19000, 22000, 25000, 28000, 0, 0, 0, 0, 0, 0],
    firstFrameAfterReset := 0, prevSignalType := 0, lossCnt := 0 }

/-- A voiced 10 ms frame. -/
def exVoiced : FrameIn :=
  { condCoding := 0, gainsIdx := [30, 6], nlsfIdx := [3, 0, 1, -2, 0, 3, 0, 0, -1, 0, 2], interp := 4, signalType := 2,
    quantOffsetType := 1, lagIndex := 37, contourIndex := 2, perIndex := 1, ltpIdx := [5, 11], ltpScaleIndex := 1, seed := 3,
    pulses := (List.range 80).map (fun (i : Nat) => ((i : Int) * 31 % 7) - 3) }

/-- An unvoiced 10 ms frame following it (conditionally coded). -/
def exUnvoiced : FrameIn :=
  { condCoding := 2, gainsIdx := [2, 7], nlsfIdx := [17, 1, 0, 0, 2, -1, 0, 1, 0, 0, -3], interp := 4, signalType := 1,
    quantOffsetType := 0, lagIndex := 0, contourIndex := 0, perIndex := 0, ltpIdx := [0, 0], ltpScaleIndex := 0, seed := 1,
    pulses := (List.range 80).map (fun (i : Nat) => ((i : Int) * 17 % 5) - 2) }

theorem exVoiced_ok : (frameGood exState exVoiced).isOk = true := by decide +kernel

theorem exRun_ok : (runFrames exState [exVoiced, exUnvoiced]).isSome = true := by decide +kernel

theorem exState_ok : StateOk exState :=
  { cfg := by unfold CfgOk; decide, slpc := by decide, outLen := by decide +kernel, outI16 := by unfold I16; decide +kernel,
    excLen := by decide +kernel, nlsfLen := by decide, nlsfRange := by decide +kernel, lgi := by decide,
    lag := fun h => absurd rfl h }

theorem pitchCb_8_2 : pitchCodebook (8 : Int) 2 = .ok (SilkNlsf.cbLagsStage2_10ms, SilkNlsf.peNbCbksStage2_10ms) := by decide +kernel

theorem exVoiced_frameOk : FrameOk 8 2 exVoiced :=
  { sig := by decide, qoff := by decide, gains := by decide,
    nlsf := ⟨3, [0, 1, -2, 0, 3, 0, 0, -1, 0, 2], by decide +kernel, by decide +kernel, by decide⟩,
    interp := by decide,
    contour := fun _ => ⟨by decide, fun cb h => by
      have h' : pitchCodebook (8 : Int) 2 = .ok cb := h
      rw [pitchCb_8_2] at h'
      cases h'
      decide +kernel⟩,
    per := fun _ => by decide,
    ltp := fun _ => ⟨by decide, by decide +kernel⟩,
    scale := fun _ => by decide,
    pulses := by decide +kernel }

theorem exUnvoiced_frameOk : FrameOk 8 2 exUnvoiced :=
  { sig := by decide, qoff := by decide, gains := by decide,
    nlsf := ⟨17, [1, 0, 0, 2, -1, 0, 1, 0, 0, -3], by decide +kernel, by decide +kernel, by decide⟩,
    interp := by decide,
    contour := fun h => absurd h (by decide),
    per := fun h => absurd h (by decide),
    ltp := fun h => absurd h (by decide),
    scale := fun h => absurd h (by decide),
    pulses := by decide +kernel }

theorem frozenEq_true : Opus.SilkCoreFrozen.frozenEq = true := by decide +kernel

end Opus.SilkCoreProofs
