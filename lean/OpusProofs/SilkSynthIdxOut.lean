import OpusModel.SilkSynthIdxOut
import OpusProofs.SilkSynthIdxCore
/-
  OpusProofs.SilkSynthIdxOut — the output stage of silk_Decode is index-safe for every legal
  configuration.  The configuration space is finite (3 internal rates × 2 frame sizes × 5 API rates ×
  channel counts × flags = 960 cases), so the theorem is established by kernel evaluation of the
  model on all of them, with the regenerated resampler delay matrix.
-/
namespace Opus.SilkSynthIdx
open Opus Opus.Gen

/-- The `rateID` transcription agrees with the values the C macro yields for the five legal rates, and
    every decoder input delay is at most 1 ms of input (the `celt_assert` of resampler.c:188). -/
theorem rateId_ok : [8000, 12000, 16000, 24000, 48000].map rateId = SilkSynth.rateIds ∧
    SilkSynth.delayMatrixDec.length = 15 ∧
    (∀ fs ∈ [8, 12, 16], ∀ api ∈ [8000, 12000, 16000, 24000, 48000], 0 ≤ inputDelay fs api ∧ inputDelay fs api ≤ fs) := by
  decide +kernel

instance (c : Cfg) (l : List Acc) : Decidable (AllIn c l) := by unfold AllIn; infer_instance

def outOkB (x : OutIn) : Bool := !(outAccesses x).aborted && decide (AllIn x.cfg (outAccesses x).all)

theorem outOk_all : ∀ fs ∈ [8, 12, 16], ∀ nb ∈ [2, 4], ∀ nci ∈ [1, 2], ∀ nca ∈ [1, 2],
    ∀ api ∈ [8000, 12000, 16000, 24000, 48000], ∀ hs ∈ [false, true], ∀ stm ∈ [false, true], ∀ lost ∈ [false, true],
    ∀ sst ∈ [false, true], outOkB ⟨fs, nb, nci, nca, api, hs, stm, lost, sst⟩ = true := by
  decide +kernel

/-- The number of output samples is `frame_length · API_rate / (fs_kHz · 1000) = nb_subfr · 5 · API_kHz`. -/
theorem nSamplesOut_all : ∀ fs ∈ [8, 12, 16], ∀ nb ∈ [2, 4], ∀ api ∈ [8000, 12000, 16000, 24000, 48000],
    (cfgOf fs nb).frameLen * api / (fs * 1000) = (nb : Int) * 5 * (api / 1000) := by
  decide +kernel

theorem outAccesses_ok (fs : Int) (nb : Nat) (nci nca api : Int) (hs stm lost sst : Bool)
    (hfs : fs = 8 ∨ fs = 12 ∨ fs = 16) (hnb : nb = 2 ∨ nb = 4) (hci : nci = 1 ∨ nci = 2) (hca : nca = 1 ∨ nca = 2)
    (hapi : api = 8000 ∨ api = 12000 ∨ api = 16000 ∨ api = 24000 ∨ api = 48000) :
    (outAccesses ⟨fs, nb, nci, nca, api, hs, stm, lost, sst⟩).aborted = false ∧
    AllIn (OutIn.cfg ⟨fs, nb, nci, nca, api, hs, stm, lost, sst⟩) (outAccesses ⟨fs, nb, nci, nca, api, hs, stm, lost, sst⟩).all := by
  have h := outOk_all fs (by rcases hfs with h | h | h <;> simp [h]) nb (by rcases hnb with h | h <;> simp [h])
    nci (by rcases hci with h | h <;> simp [h]) nca (by rcases hca with h | h <;> simp [h])
    api (by rcases hapi with h | h | h | h | h <;> simp [h]) hs (by cases hs <;> simp) stm (by cases stm <;> simp)
    lost (by cases lost <;> simp) sst (by cases sst <;> simp)
  unfold outOkB at h
  simp only [Bool.and_eq_true, Bool.not_eq_true', decide_eq_true_eq] at h
  exact h

end Opus.SilkSynthIdx
