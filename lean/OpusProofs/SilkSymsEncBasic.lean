import OpusModel.SilkSymsEnc
import OpusProofs.RangeCoderFlags
/-
  C08 × C03 composition, part 1: the vocabulary.

  * `cut`: the decoder's scan of `ec_dec_icdf` never looks behind the first zero of the table it is
    given, so C03's convention (`&table[off]` is `table.drop off`, no `take`) and the encoder model's
    convention (the table ends with its first zero, which is what `Op.Legal` wants) read the same symbol.
  * `Reads d ops` / `after d ops`: the decoder context `d` decodes every operation of `ops` to the
    value that was encoded, and where it ends up.  `decode_encode` / `silk_flags_roundtrip` produce
    `Reads`; the per-function lemmas (`…_spec`) consume it:  Reads d (encF x) → decodeF d = (x, after d (encF x)).
  * `IcLegal ops`: every operation is an 8-bit `ec_enc_icdf` with a well-formed table and a symbol
    inside it — the legality side of the round trip.
  * The table facts, all by kernel evaluation on the frozen tables.
-/
namespace Opus.SilkSymsEncProofs
open Opus Opus.RangeCoder Opus.SilkSyms Opus.SilkSymsEnc Opus.SilkSymsFrozen.Icdf

/-! ### cut -/

theorem decIcdfLoop_cut (r d : Nat) : ∀ (xs : List Nat) (t k : Nat),
    decIcdfLoop r d (cut xs) t k = decIcdfLoop r d xs t k
  | [], t, k => by simp [cut]
  | x :: xs, t, k => by
    by_cases hx : x = 0
    · subst hx
      have : mul32 r 0 = 0 := by simp [mul32]
      simp [cut, decIcdfLoop, this]
    · simp only [cut, hx, if_false, decIcdfLoop]
      rw [decIcdfLoop_cut r d xs]

theorem decIcdf_cut (c : Dec) (tbl : List Nat) (ftb : Nat) : decIcdf c (cut tbl) ftb = decIcdf c tbl ftb := by
  unfold decIcdf
  simp only [decIcdfLoop_cut]

theorem decOp_ic (c : Dec) (s : Nat) (tbl : List Nat) : decOp c (ic s tbl) = sym c tbl := by
  simp only [ic, decOp, sym, decIcdf_cut]

/-! ### Reads / after -/

/-- Every operation of `ops` decodes from `d` to the value it encoded. -/
def Reads : Dec → List Op → Prop
  | _, [] => True
  | d, op :: ops => op.Matches (decOp d op).1 ∧ Reads (decOp d op).2 ops

/-- The decoder context after decoding `ops`. -/
def after : Dec → List Op → Dec
  | d, [] => d
  | d, op :: ops => after (decOp d op).2 ops

theorem after_eq (ops : List Op) : ∀ d, after d ops = (decRun d ops).2 := by
  induction ops with
  | nil => intro d; rfl
  | cons op ops ih => intro d; simp only [after, decRun, ih]

theorem reads_iff (ops : List Op) : ∀ d, Reads d ops ↔ MatchAll ops (decRun d ops).1 := by
  induction ops with
  | nil => intro d; simp [Reads, decRun, MatchAll]
  | cons op ops ih => intro d; simp only [Reads, decRun, MatchAll, ih]

theorem reads_append (a b : List Op) : ∀ d, Reads d (a ++ b) ↔ Reads d a ∧ Reads (after d a) b := by
  induction a with
  | nil => intro d; simp [Reads, after]
  | cons op a ih => intro d; simp only [List.cons_append, Reads, after, ih, and_assoc]

theorem after_append (a b : List Op) : ∀ d, after d (a ++ b) = after (after d a) b := by
  induction a with
  | nil => intro d; rfl
  | cons op a ih => intro d; simp only [List.cons_append, after, ih]

@[simp] theorem reads_nil (d : Dec) : Reads d [] = True := rfl
@[simp] theorem after_nil (d : Dec) : after d [] = d := rfl

theorem reads_ic_cons {d : Dec} {s : Nat} {tbl : List Nat} {rest : List Op} :
    Reads d (ic s tbl :: rest) ↔ (sym d tbl).1 = s ∧ Reads (sym d tbl).2 rest := by
  simp only [Reads, decOp_ic]
  simp only [ic, Op.Matches]

theorem after_ic_cons (d : Dec) (s : Nat) (tbl : List Nat) (rest : List Op) :
    after d (ic s tbl :: rest) = after (sym d tbl).2 rest := by
  simp only [after, decOp_ic]

/-- The basic step: a decoder that `Reads` an `ic` returns its symbol. -/
theorem sym_spec {d : Dec} {s : Nat} {tbl : List Nat} (h : Reads d [ic s tbl]) :
    sym d tbl = (s, after d [ic s tbl]) := by
  rw [reads_ic_cons] at h
  rw [after_ic_cons, after_nil]
  exact Prod.ext h.1 rfl

theorem reads_cons_append (op : Op) (a : List Op) (d : Dec) :
    Reads d (op :: a) ↔ Reads d [op] ∧ Reads (after d [op]) a := by
  simp [Reads, after]

theorem after_cons (op : Op) (a : List Op) (d : Dec) : after d (op :: a) = after (after d [op]) a :=
  after_append [op] a d

/-- Normal form of `after`: one operation at a time.  (Proofs normalise both sides with this and
    `after_append` instead of appealing to definitional equality: with a concrete table inside the
    operation the kernel would start evaluating `ec_dec_icdf`.  For the same reason the proof term is not
    `rfl`: `simp` would then use the lemma definitionally.) -/
theorem after_cons_cons (op op2 : Op) (rest : List Op) (d : Dec) :
    after d (op :: op2 :: rest) = after (after d [op]) (op2 :: rest) :=
  after_append [op] (op2 :: rest) d

/-- `n` symbols from one table. -/
theorem symLoop_spec (tbl : List Nat) : ∀ (xs : List Nat) (d : Dec), Reads d (encSyms tbl xs) →
    symLoop tbl xs.length d = (xs, after d (encSyms tbl xs)) := by
  intro xs
  induction xs with
  | nil => intro d _; rfl
  | cons x xs ih =>
    intro d h
    simp only [encSyms, List.map_cons] at h ⊢
    rw [reads_cons_append] at h
    simp only [List.length_cons, symLoop]
    rw [sym_spec h.1]
    simp only
    have := ih _ h.2
    simp only [encSyms] at this
    rw [this]
    exact Prod.ext rfl (after_cons _ _ _).symm

/-! ### Legality -/

/-- Every operation is a legal 8-bit `ec_enc_icdf`. -/
def IcLegal (ops : List Op) : Prop :=
  ∀ op ∈ ops, ∃ s tbl, op = .icdf s tbl 8 ∧ IcdfOk tbl 8 ∧ s < tbl.length

theorem icLegal_nil : IcLegal [] := by intro op h; cases h

theorem icLegal_append {a b : List Op} (ha : IcLegal a) (hb : IcLegal b) : IcLegal (a ++ b) := by
  intro op h
  rcases List.mem_append.mp h with h | h
  · exact ha op h
  · exact hb op h

theorem icLegal_cons {op : Op} {a : List Op} (ho : IcLegal [op]) (ha : IcLegal a) : IcLegal (op :: a) :=
  icLegal_append (a := [op]) ho ha

theorem icLegal_flatten {ls : List (List Op)} (h : ∀ l ∈ ls, IcLegal l) : IcLegal ls.flatten := by
  intro op hop
  rcases List.mem_flatten.mp hop with ⟨l, hl, hm⟩
  exact h l hl op hm

/-- A table with `n` symbols. -/
def Tab (tbl : List Nat) (n : Nat) : Prop := IcdfOk (cut tbl) 8 ∧ (cut tbl).length = n

instance (tbl : List Nat) (n : Nat) : Decidable (Tab tbl n) := by unfold Tab; infer_instance

theorem icLegal_ic {s n : Nat} {tbl : List Nat} (ht : Tab tbl n) (hs : s < n) : IcLegal [ic s tbl] := by
  intro op h
  rw [List.mem_singleton] at h
  exact ⟨s, cut tbl, h, ht.1, by rw [ht.2]; exact hs⟩

theorem icLegal_replicate {op : Op} (n : Nat) (h : IcLegal [op]) : IcLegal (List.replicate n op) := by
  intro o ho
  rw [List.mem_replicate] at ho
  exact h o (by rw [ho.2]; exact List.mem_singleton.mpr rfl)

theorem icLegal_syms {tbl : List Nat} {n : Nat} (ht : Tab tbl n) (xs : List Nat) (h : ∀ x ∈ xs, x < n) :
    IcLegal (encSyms tbl xs) := by
  intro op hop
  simp only [encSyms, List.mem_map] at hop
  rcases hop with ⟨x, hx, rfl⟩
  exact icLegal_ic ht (h x hx) _ (List.mem_singleton.mpr rfl)

/-- A run of legal `ec_enc_icdf`s followed by the header patch is a legal patched run, whatever the
    encoder state. -/
theorem legalRunP_of_ic (n v : Nat) (hv : v < 2 ^ n) : ∀ (ops : List Op) (c : Enc), IcLegal ops →
    LegalRunP n c (ops ++ [.patchInitial v n]) := by
  intro ops
  induction ops with
  | nil => intro c _; exact ⟨⟨rfl, hv⟩, trivial⟩
  | cons op ops ih =>
    intro c h
    rcases h op (List.mem_cons_self ..) with ⟨s, tbl, rfl, hok, hs⟩
    refine ⟨?_, ih _ (fun o ho => h o (List.mem_cons_of_mem _ ho))⟩
    exact ⟨hok, hs, Nat.le_refl 8⟩

/-! ### Table facts (frozen tables, kernel evaluation) -/

theorem tab_typeVAD : Tab silk_type_offset_VAD_iCDF 4 := by decide
theorem tab_typeNoVAD : Tab silk_type_offset_no_VAD_iCDF 2 := by decide
theorem tab_deltaGain : Tab silk_delta_gain_iCDF 41 := by decide +kernel
theorem tab_gain : ∀ s, s < 3 → Tab (silk_gain_iCDF.getD s []) 8 := by decide +kernel
theorem tab_uniform3 : Tab silk_uniform3_iCDF 3 := by decide
theorem tab_uniform4 : Tab silk_uniform4_iCDF 4 := by decide
theorem tab_uniform5 : Tab silk_uniform5_iCDF 5 := by decide
theorem tab_uniform8 : Tab silk_uniform8_iCDF 8 := by decide
theorem tab_nlsfExt : Tab silk_NLSF_EXT_iCDF 7 := by decide
theorem tab_interp : Tab silk_NLSF_interpolation_factor_iCDF 5 := by decide
theorem tab_pitchDelta : Tab silk_pitch_delta_iCDF 21 := by decide +kernel
theorem tab_pitchLag : Tab silk_pitch_lag_iCDF 32 := by decide +kernel
theorem tab_perIndex : Tab silk_LTP_per_index_iCDF 3 := by decide
theorem tab_ltpScale : Tab silk_LTPscale_iCDF 3 := by decide
theorem tab_lsb : Tab silk_lsb_iCDF 2 := by decide
theorem tab_stereoJoint : Tab silk_stereo_pred_joint_iCDF 25 := by decide +kernel
theorem tab_stereoMid : Tab silk_stereo_only_code_mid_iCDF 2 := by decide
theorem tab_rateLevels : ∀ h, h < 2 → Tab (silk_rate_levels_iCDF.getD h []) 9 := by decide +kernel
theorem tab_ppb : ∀ rl, rl < 10 → Tab (silk_pulses_per_block_iCDF.getD rl []) 18 := by decide +kernel
theorem tab_ltpGain : ∀ p, p < 3 →
    Tab ([silk_LTP_gain_iCDF_0, silk_LTP_gain_iCDF_1, silk_LTP_gain_iCDF_2].getD p []) (8 * 2 ^ p) := by decide +kernel
theorem tab_lbrrFlags : ∀ n, n < 4 → 2 ≤ n →
    Tab ([silk_LBRR_flags_2_iCDF, silk_LBRR_flags_3_iCDF].getD (n - 2) []) (2 ^ n - 1) := by decide +kernel
theorem tab_cb1 : ∀ rate : Rate, ∀ h, h < 2 → Tab ((nlsfCB rate).cb1.drop (h * (nlsfCB rate).nVectors)) 32 := by
  intro rate; cases rate <;> decide +kernel
theorem tab_ecIcdf : ∀ rate : Rate, ∀ k, k < 8 → Tab ((nlsfCB rate).ecIcdf.drop (9 * k)) 9 := by
  intro rate; cases rate <;> decide +kernel
theorem tab_pitchLow (rate : Rate) : Tab (pitchLagLowBits rate) (rate.kHz / 2) := by
  cases rate <;> decide
theorem tab_contour (rate : Rate) (nb : Nat) : Tab (pitchContour rate nb) (contourSyms rate nb) := by
  unfold pitchContour contourSyms
  cases rate <;> by_cases h : nb = 4 <;> simp [h] <;> decide +kernel
theorem tab_shell0 : ∀ p, p < 17 → 1 ≤ p →
    Tab (silk_shell_code_table0.drop (silk_shell_code_table_offsets.getD p 0)) (p + 1) := by decide +kernel
theorem tab_shell1 : ∀ p, p < 17 → 1 ≤ p →
    Tab (silk_shell_code_table1.drop (silk_shell_code_table_offsets.getD p 0)) (p + 1) := by decide +kernel
theorem tab_shell2 : ∀ p, p < 17 → 1 ≤ p →
    Tab (silk_shell_code_table2.drop (silk_shell_code_table_offsets.getD p 0)) (p + 1) := by decide +kernel
theorem tab_shell3 : ∀ p, p < 17 → 1 ≤ p →
    Tab (silk_shell_code_table3.drop (silk_shell_code_table_offsets.getD p 0)) (p + 1) := by decide +kernel
theorem tab_sign : ∀ i, i < 42 → Tab [silk_sign_iCDF.getD i 0, 0] 2 := by decide +kernel

/-- `ec_ix[]` entries are multiples of 9 below 72. -/
theorem ecIx_form (rate : Rate) : ∀ n0, n0 < 32 → ∀ e ∈ nlsfUnpackEcIx (nlsfCB rate) n0, ∃ k, k < 8 ∧ e = 9 * k := by
  intro n0 _ e he
  simp only [nlsfUnpackEcIx, List.mem_flatMap, List.mem_range] at he
  rcases he with ⟨j, _, hm⟩
  simp only [List.mem_cons, List.mem_nil_iff, or_false] at hm
  rcases hm with h | h
  · exact ⟨_, Nat.mod_lt _ (by decide), by rw [h, Nat.mul_comm]⟩
  · exact ⟨_, Nat.mod_lt _ (by decide), by rw [h, Nat.mul_comm]⟩

theorem ecIx_length (rate : Rate) (n0 : Nat) : (nlsfUnpackEcIx (nlsfCB rate) n0).length = (nlsfCB rate).order := by
  simp only [nlsfUnpackEcIx, List.length_flatMap, List.length_cons, List.length_nil]
  cases rate <;> simp [nlsfCB, cbNbMb, cbWb, silk_NLSF_CB_NB_MB_order, silk_NLSF_CB_WB_order] <;> decide

end Opus.SilkSymsEncProofs
