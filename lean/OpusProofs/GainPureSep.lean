import OpusProofs.GainPureSem
/-
  OpusProofs.GainPureSep — the event logs of the decoder skeleton satisfy the separation condition `gainSep` of
  `OpusProofs/GainPureSem.lean`: every frame logs its events at or above its own `pcm` pointer, its gain pass (if any) is
  its last event and covers `[pcm, pcm + ret·channels)`, and the next frame starts at `pcm + ret·channels`.
  Watermark invariant `WM w l`: `l` satisfies `gainSep` and all its gain passes lie in the caller's buffer below `w`.
-/
namespace Opus.DecSkel

/-- an event touches the caller's buffer only at or above `w` -/
def aboveEv (w : Int) (e : Ev) : Prop := ∀ p n, e.extent? = some (p, n) → p.buf = .pcm → w ≤ p.off
/-- a pointer into the caller's buffer points at or above `w` -/
def Above (w : Int) (p : Ptr) : Prop := p.buf = .pcm → w ≤ p.off

structure WM (w : Int) (l : List Ev) : Prop where
  sep : gainSep l = true
  below : ∀ g ∈ l, notGain g = false → ∃ p n, g.extent? = some (p, n) ∧ p.buf = .pcm ∧ p.off + n ≤ w

theorem WM.nil (w : Int) : WM w [] := ⟨rfl, fun _ h => by cases h⟩

theorem WM.mono {w w' : Int} {l : List Ev} (h : WM w l) (hw : w ≤ w') : WM w' l :=
  ⟨h.sep, fun g hg hn => by obtain ⟨p, n, a, b, c⟩ := h.below g hg hn; exact ⟨p, n, a, b, by omega⟩⟩

theorem disjoint_of_below {w : Int} {e g : Ev} (he : aboveEv w e)
    (hg : ∃ p n, g.extent? = some (p, n) ∧ p.buf = .pcm ∧ p.off + n ≤ w) : disjointEv e g = true := by
  obtain ⟨q, m, hq, hqb, hqw⟩ := hg
  unfold disjointEv
  cases hx : e.extent? with
  | none => rfl
  | some pn =>
    obtain ⟨p, n⟩ := pn
    rw [hq]
    simp only [Bool.or_eq_true, decide_eq_true_eq]
    by_cases hb : p.buf = q.buf
    · have := he p n hx (hb.trans hqb)
      right; omega
    · left; left; exact hb

theorem WM.push {w : Int} {l : List Ev} (h : WM w l) {e : Ev} (hn : notGain e = true) (ha : aboveEv w e) : WM w (e :: l) := by
  refine ⟨?_, ?_⟩
  · simp only [gainSep, Bool.and_eq_true, Bool.or_eq_true, List.all_eq_true]
    refine ⟨⟨h.sep, Or.inl hn⟩, fun g hg => ?_⟩
    cases hgn : notGain g with
    | true => exact Or.inl rfl
    | false => exact Or.inr (disjoint_of_below ha (h.below g hg hgn))
  · intro g hg hgn
    rcases List.mem_cons.mp hg with rfl | hg
    · rw [hn] at hgn; exact absurd hgn (by decide)
    · exact h.below g hg hgn

theorem WM.pushGain {w : Int} {l : List Ev} (h : WM w l) (p : Ptr) (n : Int) (hb : p.buf = .pcm) (hw : w ≤ p.off) :
    WM (max w (p.off + n)) (.acc 11 p n :: l) := by
  have ha : aboveEv w (.acc 11 p n) := by
    intro p' n' hx _
    simp only [Ev.extent?, Option.some.injEq, Prod.mk.injEq] at hx
    rw [← hx.1]; exact hw
  refine ⟨?_, ?_⟩
  · simp only [gainSep, Bool.and_eq_true, Bool.or_eq_true, List.all_eq_true]
    refine ⟨⟨h.sep, Or.inr ?_⟩, fun g hg => ?_⟩
    · simp [onPcm, Ev.extent?, hb]
    · cases hgn : notGain g with
      | true => exact Or.inl rfl
      | false => exact Or.inr (disjoint_of_below ha (h.below g hg hgn))
  · intro g hg hgn
    rcases List.mem_cons.mp hg with rfl | hg
    · exact ⟨p, n, rfl, hb, by omega⟩
    · obtain ⟨q, m, a, b, c⟩ := h.below g hg hgn
      exact ⟨q, m, a, b, by omega⟩

/-- configuration fields no decode call changes -/
structure Cfg (r r' : Run) : Prop where
  ch : r'.st.channels = r.st.channels
  fs : r'.st.Fs = r.st.Fs
  fsz : r'.st.frame_size = r.st.frame_size
  g : r'.st.decode_gain = r.st.decode_gain

theorem Cfg.refl (r : Run) : Cfg r r := ⟨rfl, rfl, rfl, rfl⟩
theorem Cfg.trans {a b c : Run} (h1 : Cfg a b) (h2 : Cfg b c) : Cfg a c :=
  ⟨h2.ch.trans h1.ch, h2.fs.trans h1.fs, h2.fsz.trans h1.fsz, h2.g.trans h1.g⟩

/-- `r'` comes from `r` by steps that keep the configuration and every watermark invariant at `w` -/
def Pres (w : Int) (r r' : Run) : Prop := Cfg r r' ∧ (WM w r.log → WM w r'.log)

theorem Pres.refl (w : Int) (r : Run) : Pres w r r := ⟨Cfg.refl r, id⟩
theorem Pres.trans {w : Int} {a b c : Run} (h1 : Pres w a b) (h2 : Pres w b c) : Pres w a c :=
  ⟨h1.1.trans h2.1, fun h => h2.2 (h1.2 h)⟩
theorem Pres.push {w : Int} (r : Run) {e : Ev} (hn : notGain e = true) (ha : aboveEv w e) : Pres w r (r.push e) :=
  ⟨⟨rfl, rfl, rfl, rfl⟩, fun h => h.push hn ha⟩
theorem Pres.tick (w : Int) (r : Run) : Pres w r r.tick := ⟨⟨rfl, rfl, rfl, rfl⟩, id⟩
theorem Pres.setSt (w : Int) (r : Run) (s : DecState) (h1 : s.channels = r.st.channels) (h2 : s.Fs = r.st.Fs)
    (h3 : s.frame_size = r.st.frame_size) (h4 : s.decode_gain = r.st.decode_gain) : Pres w r (r.setSt s) :=
  ⟨⟨h1, h2, h3, h4⟩, id⟩

theorem aboveEv_acc {w : Int} {p : Ptr} (h : Above w p) (s : Nat) (n : Int) : aboveEv w (.acc s p n) := by
  intro p' n' hx hb
  simp only [Ev.extent?, Option.some.injEq, Prod.mk.injEq] at hx
  rw [← hx.1] at hb ⊢; exact h hb
theorem aboveEv_celt {w : Int} {p : Ptr} (h : Above w p) (a : CeltArgs) (v : Int) : aboveEv w (.celt a p v) := by
  intro p' n' hx hb
  simp only [Ev.extent?, Option.some.injEq, Prod.mk.injEq] at hx
  rw [← hx.1] at hb ⊢; exact h hb
theorem aboveEv_silk {w : Int} {p : Ptr} (h : Above w p) (a : SilkArgs) (v n : Int) : aboveEv w (.silk a p v n) := by
  intro p' n' hx hb
  simp only [Ev.extent?, Option.some.injEq, Prod.mk.injEq] at hx
  rw [← hx.1] at hb ⊢; exact h hb
theorem aboveEv_none {w : Int} {e : Ev} (h : e.extent? = none) : aboveEv w e := by
  intro p n hx; rw [h] at hx; cases hx

theorem Above.add {w : Int} {p : Ptr} (h : Above w p) {n : Int} (hn : 0 ≤ n) : Above w (p.add n) := by
  intro hb; have := h hb; show w ≤ p.off + n; omega
theorem Above.scratch {w : Int} {p : Ptr} (h : p.buf ≠ .pcm) : Above w p := fun hb => absurd hb h

/-! ### CELT stage up to the gain pass -/

theorem celtCall_pres {w : Int} (o : Oracle) (a : CeltArgs) {p : Ptr} (hp : Above w p) (r : Run) :
    Pres w r (celtCall o a p r).2 :=
  (Pres.tick w r).trans (Pres.push _ rfl (aboveEv_celt hp a _))

theorem redBuf_scratch (st : DecState) (red : Red) : (redBuf st red).buf ≠ .pcm := by simp [redBuf]
theorem transBuf_scratch (st : DecState) : (transBuf st).buf ≠ .pcm := by simp [transBuf]
theorem silkBuf_scratch (st : DecState) : (silkBuf st).buf ≠ .pcm := by simp [silkBuf]

theorem stepRedC2S_pres (w : Int) (o : Oracle) (b : Body) (red : Red) (r : Run) : Pres w r (stepRedC2S o b red r) := by
  unfold stepRedC2S
  split
  · exact celtCall_pres o _ (Above.scratch (redBuf_scratch _ _)) r
  · exact Pres.refl w r

theorem stepMainCelt_pres {w : Int} (o : Oracle) (b : Body) (red : Red) (r : Run) (hp : Above w b.pcm) :
    Pres w r (stepMainCelt o b red r).2 := by
  unfold stepMainCelt
  dsimp only
  split
  · exact celtCall_pres o _ hp r
  · split
    · exact celtCall_pres o _ hp r
    · exact Pres.refl w r

theorem stepRedS2C_pres {w : Int} (o : Oracle) (b : Body) (red : Red) (r : Run) (hp : Above w b.pcm)
    (hn : red.redundancy ≠ 0 → 0 ≤ r.st.channels * (b.audiosize - F2_5 r.st)) :
    Pres w r (stepRedS2C o b red r) := by
  unfold stepRedS2C
  dsimp only
  split
  · rename_i h
    refine ((celtCall_pres o _ (Above.scratch (redBuf_scratch _ _)) r).trans
      (Pres.push _ rfl (aboveEv_acc (hp.add (hn h.1)) 3 _))).trans
      (Pres.push _ rfl (aboveEv_acc (Above.scratch ?_) 4 _))
    simp [Ptr.add, redBuf]
  · exact Pres.refl w r

theorem stepRedCopy_pres {w : Int} (b : Body) (red : Red) (r : Run) (hp : Above w b.pcm) : Pres w r (stepRedCopy b red r) := by
  unfold stepRedCopy
  dsimp only
  split
  · exact (Pres.push _ rfl (aboveEv_acc (Above.scratch (redBuf_scratch _ _)) 5 _)).trans (Pres.push _ rfl (aboveEv_acc hp 6 _))
  · exact Pres.refl w r

theorem stepTransFade_pres {w : Int} (b : Body) (tr : Bool) (r : Run) (hp : Above w b.pcm) : Pres w r (stepTransFade b tr r) := by
  unfold stepTransFade
  dsimp only
  split
  · split
    · exact (Pres.push _ rfl (aboveEv_acc (Above.scratch (transBuf_scratch _)) 7 _)).trans (Pres.push _ rfl (aboveEv_acc hp 8 _))
    · exact (Pres.push _ rfl (aboveEv_acc (Above.scratch (transBuf_scratch _)) 9 _)).trans (Pres.push _ rfl (aboveEv_acc hp 10 _))
  · exact Pres.refl w r

/-! ### SILK stage -/

theorem silkStep_pres {w : Int} (o : Oracle) (lost fsz decoded : Int) {p : Ptr} (hp : Above w p) (tell : Int) (r : Run) :
    Pres w r (silkStep o lost fsz decoded p tell r).run ∧
    ((silkStep o lost fsz decoded p tell r).err = 0 ∨ (silkStep o lost fsz decoded p tell r).err = INTERNAL_ERROR) := by
  by_cases c1 : (o.silk r.k
      { payloadSize_ms := r.st.dc.payloadSize_ms, internalSampleRate := r.st.dc.internalSampleRate,
        nChannelsInternal := r.st.dc.nChannelsInternal, nChannelsAPI := r.st.dc.nChannelsAPI,
        API_sampleRate := r.st.dc.API_sampleRate, lostFlag := lost, newPacketFlag := if decoded = 0 then 1 else 0 }).1 ≠ 0 ∧ lost = 0
  · have R : silkStep o lost fsz decoded p tell r = _ := if_pos c1
    rw [R]
    exact ⟨(Pres.tick w r).trans (Pres.push _ rfl (aboveEv_silk hp _ _ _)), Or.inr rfl⟩
  · by_cases c2 : (o.silk r.k
      { payloadSize_ms := r.st.dc.payloadSize_ms, internalSampleRate := r.st.dc.internalSampleRate,
        nChannelsInternal := r.st.dc.nChannelsInternal, nChannelsAPI := r.st.dc.nChannelsAPI,
        API_sampleRate := r.st.dc.API_sampleRate, lostFlag := lost, newPacketFlag := if decoded = 0 then 1 else 0 }).1 ≠ 0
    · have R : silkStep o lost fsz decoded p tell r = _ := (if_neg c1).trans (if_pos c2)
      rw [R]
      exact ⟨((Pres.tick w r).trans (Pres.push _ rfl (aboveEv_silk hp _ _ _))).trans (Pres.push _ rfl (aboveEv_acc hp 0 _)), Or.inl rfl⟩
    · have R : silkStep o lost fsz decoded p tell r = _ := (if_neg c1).trans (if_neg c2)
      rw [R]
      exact ⟨(Pres.tick w r).trans (Pres.push _ rfl (aboveEv_silk hp _ _ _)), Or.inl rfl⟩

theorem silkLoop_pres {w : Int} (o : Oracle) (lost fsz : Int) :
    ∀ (n : Nat) (decoded : Int) (p : Ptr) (tell : Int) (r : Run), (fsz - decoded).toNat ≤ n → Above w p → 0 ≤ r.st.channels →
      Pres w r (silkLoop o lost fsz decoded p tell r).2 ∧
      ∀ et, (silkLoop o lost fsz decoded p tell r).1 = .ret et → et.1 = 0 ∨ et.1 = INTERNAL_ERROR := by
  intro n
  induction n with
  | zero =>
    intro decoded p tell r hn hp hc
    obtain ⟨h1, h2⟩ := silkStep_pres o lost fsz decoded hp tell r
    rw [silkLoop]
    by_cases c1 : (silkStep o lost fsz decoded p tell r).err ≠ 0
    · simp only [if_pos c1]
      refine ⟨h1, fun et he => ?_⟩
      cases he; rcases h2 with h2 | h2
      · exact absurd h2 c1
      · exact Or.inr h2
    · simp only [if_neg c1]
      by_cases c2 : decoded + (silkStep o lost fsz decoded p tell r).n < fsz
      · simp only [dif_pos c2]
        by_cases c3 : (silkStep o lost fsz decoded p tell r).n ≤ 0
        · simp only [dif_pos c3]; exact ⟨h1, fun et he => by cases he⟩
        · omega
      · simp only [dif_neg c2]; exact ⟨h1, fun et he => by cases he; exact Or.inl rfl⟩
  | succ n ih =>
    intro decoded p tell r hn hp hc
    obtain ⟨h1, h2⟩ := silkStep_pres o lost fsz decoded hp tell r
    rw [silkLoop]
    by_cases c1 : (silkStep o lost fsz decoded p tell r).err ≠ 0
    · simp only [if_pos c1]
      refine ⟨h1, fun et he => ?_⟩
      cases he; rcases h2 with h2 | h2
      · exact absurd h2 c1
      · exact Or.inr h2
    · simp only [if_neg c1]
      by_cases c2 : decoded + (silkStep o lost fsz decoded p tell r).n < fsz
      · simp only [dif_pos c2]
        by_cases c3 : (silkStep o lost fsz decoded p tell r).n ≤ 0
        · simp only [dif_pos c3]; exact ⟨h1, fun et he => by cases he⟩
        · simp only [dif_neg c3]
          have hc' : 0 ≤ (silkStep o lost fsz decoded p tell r).run.st.channels := by rw [h1.1.ch]; exact hc
          obtain ⟨i1, i2⟩ := ih (decoded + (silkStep o lost fsz decoded p tell r).n)
            (p.add ((silkStep o lost fsz decoded p tell r).n * r.st.channels)) (silkStep o lost fsz decoded p tell r).tell
            (silkStep o lost fsz decoded p tell r).run (by omega)
            (hp.add (Int.mul_nonneg (by omega) hc)) hc'
          exact ⟨h1.trans i1, i2⟩
      · simp only [dif_neg c2]; exact ⟨h1, fun et he => by cases he; exact Or.inl rfl⟩

theorem silkConfig_cfg {st st3 : DecState} {b : Body} (h : silkConfig st b = some st3) :
    st3.channels = st.channels ∧ st3.Fs = st.Fs ∧ st3.frame_size = st.frame_size ∧ st3.decode_gain = st.decode_gain := by
  unfold silkConfig at h
  dsimp only at h
  repeat' split at h
  all_goals first
    | (cases h; exact ⟨rfl, rfl, rfl, rfl⟩)
    | cases h

theorem bindRun_pres {α β : Type} {w : Int} {r : Run} (x : Out α × Run) (f : α → Run → Out β × Run)
    (hx : Pres w r x.2) (hf : ∀ a r1, Cfg r r1 → Pres w r1 (f a r1).2) : Pres w r (bindRun x f).2 := by
  obtain ⟨o, r1⟩ := x
  cases o with
  | ret a => exact hx.trans (hf a r1 hx.1)
  | abort => exact hx
  | hang => exact hx

theorem silkStage_pres {w : Int} (o : Oracle) (b : Body) (r : Run) (hp : Above w b.pcm) (hc : 0 ≤ r.st.channels) :
    Pres w r (silkStage o b r).2 ∧ ∀ et, (silkStage o b r).1 = .ret et → et.1 = 0 ∨ et.1 = INTERNAL_ERROR := by
  unfold silkStage
  dsimp only
  have h0 : Pres w r (if r.st.prev_mode = MODE_CELT then r.push .silkReset else r) := by
    split
    · exact Pres.push _ rfl (aboveEv_none rfl)
    · exact Pres.refl w r
  cases hcfg : silkConfig r.st b with
  | none => exact ⟨h0, fun et he => by cases he⟩
  | some st3 =>
    dsimp only
    obtain ⟨c1, c2, c3, c4⟩ := silkConfig_cfg hcfg
    have hs : Pres w r ((if r.st.prev_mode = MODE_CELT then r.push .silkReset else r).setSt st3) :=
      h0.trans (Pres.setSt w _ st3 (c1.trans h0.1.ch.symm) (c2.trans h0.1.fs.symm) (c3.trans h0.1.fsz.symm) (c4.trans h0.1.g.symm))
    have hpp : Above w (if b.audiosize < F10 r.st then silkBuf r.st else b.pcm) := by
      split
      · exact Above.scratch (silkBuf_scratch _)
      · exact hp
    obtain ⟨l1, l2⟩ := silkLoop_pres (w := w) o (silkLost b) b.audiosize _ 0 _ 1
      ((if r.st.prev_mode = MODE_CELT then r.push .silkReset else r).setSt st3) (Nat.le_refl _) hpp (by rw [hs.1.ch]; exact hc)
    rcases hx : silkLoop o (silkLost b) b.audiosize 0 (if b.audiosize < F10 r.st then silkBuf r.st else b.pcm) 1
      ((if r.st.prev_mode = MODE_CELT then r.push .silkReset else r).setSt st3) with ⟨out, r1⟩
    rw [hx] at l1 l2
    cases out with
    | ret et =>
      simp only [bindRun]
      have l2' := l2 et rfl
      by_cases d1 : et.1 ≠ 0
      · simp only [if_pos d1]; exact ⟨hs.trans l1, fun et' he => by cases he; exact l2'⟩
      · simp only [if_neg d1]
        by_cases d2 : b.audiosize < F10 r.st
        · simp only [if_pos d2]
          exact ⟨(hs.trans l1).trans ((Pres.push _ rfl (aboveEv_acc (Above.scratch (silkBuf_scratch _)) 1 _)).trans
            (Pres.push _ rfl (aboveEv_acc hp 2 _))), fun et' he => by cases he; exact Or.inl rfl⟩
        · simp only [if_neg d2]; exact ⟨hs.trans l1, fun et' he => by cases he; exact Or.inl rfl⟩
    | abort => exact ⟨hs.trans l1, fun et he => by cases he⟩
    | hang => exact ⟨hs.trans l1, fun et he => by cases he⟩

/-! ### redundancy parse: only oracle calls -/

theorem redFinish_run (a b c e f : Int) (r : Run) : (redFinish a b c e f r).2 = r := by
  unfold redFinish; split <;> rfl

theorem redTail_pres (w : Int) (o : Oracle) (mode len red tell : Int) (r : Run) : Pres w r (redTail o mode len red tell r).2 := by
  unfold redTail
  split
  · rw [redFinish_run]; exact (Pres.tick w r).trans (Pres.tick w _)
  · rw [redFinish_run]; exact Pres.tick w r

theorem parseRedundancy_pres (w : Int) (o : Oracle) (mode len tell : Int) (r : Run) :
    Pres w r (parseRedundancy o mode len tell r).2 := by
  by_cases c0 : tell + 17 + (if mode = MODE_HYBRID then 20 else 0) ≤ 8 * len
  · by_cases c1 : mode = MODE_HYBRID
    · by_cases c2 : (o.bit r.k 12 tell).1 ≠ 0
      · have R : parseRedundancy o mode len tell r = _ := (if_pos c0).trans ((if_pos c1).trans (if_pos c2))
        rw [R]; exact (Pres.tick w r).trans (redTail_pres w o _ _ _ _ r.tick)
      · have R : parseRedundancy o mode len tell r = _ := (if_pos c0).trans ((if_pos c1).trans (if_neg c2))
        rw [R]; exact Pres.tick w r
    · have R : parseRedundancy o mode len tell r = _ := (if_pos c0).trans (if_neg c1)
      rw [R]; exact redTail_pres w o _ _ _ _ r
  · have R : parseRedundancy o mode len tell r = _ := if_neg c0
    rw [R]; exact Pres.refl w r

theorem redStage_pres (w : Int) (o : Oracle) (b : Body) (tell : Int) (r : Run) :
    Pres w r (redStage o b tell r).2 ∧ ((redStage o b tell r).1.redundancy ≠ 0 → b.data.isSome = true) := by
  unfold redStage
  split
  · rename_i h; exact ⟨parseRedundancy_pres w o _ _ _ r, fun _ => h.2.2⟩
  · exact ⟨Pres.refl w r, fun h => absurd rfl h⟩

/-! ### frames -/

/-- Postcondition of a frame-like call made with buffer pointer `p` and room for `n` samples per channel. -/
structure FP (w : Int) (p : Ptr) (n : Int) (r : Run) (res : Res') : Prop where
  cfg : Cfg r res.2
  le : ∀ ret, res.1 = .ret ret → 0 ≤ ret → ret ≤ n
  wm : WM w r.log → ∃ w', w ≤ w' ∧ WM w' res.2.log ∧ (r.st.decode_gain = 0 → w' = w) ∧
        ∀ ret, res.1 = .ret ret → 0 ≤ ret → w' ≤ max w (p.off + ret * r.st.channels)

theorem FP.ofPres {w : Int} {p : Ptr} {n : Int} {r : Run} {res : Res'} (h : Pres w r res.2)
    (hle : ∀ ret, res.1 = .ret ret → 0 ≤ ret → ret ≤ n) : FP w p n r res :=
  ⟨h.1, hle, fun hw => ⟨w, Int.le_refl _, h.2 hw, fun _ => rfl, fun _ _ _ => Int.le_max_left _ _⟩⟩

theorem FP.step {w : Int} {p : Ptr} {n : Int} {r r1 : Run} {res : Res'} (h : Pres w r r1) (hf : FP w p n r1 res) :
    FP w p n r res := by
  refine ⟨h.1.trans hf.cfg, hf.le, fun hw => ?_⟩
  obtain ⟨w', a, b, c, d⟩ := hf.wm (h.2 hw)
  refine ⟨w', a, b, fun hg => c (h.1.g.trans hg), fun ret e1 e2 => ?_⟩
  have := d ret e1 e2
  rw [h.1.ch] at this; exact this

theorem bindRun_FP {α : Type} {w : Int} {p : Ptr} {n : Int} {r : Run} (x : Out α × Run) (f : α → Run → Res')
    (hx : Pres w r x.2) (hf : ∀ a r1, x = (.ret a, r1) → FP w p n r1 (f a r1)) : FP w p n r (bindRun x f) := by
  obtain ⟨o, r1⟩ := x
  cases o with
  | ret a => exact FP.step hx (hf a r1 rfl)
  | abort => exact FP.ofPres hx (fun _ h => by cases h)
  | hang => exact FP.ofPres hx (fun _ h => by cases h)

theorem F2_5_cfg {r r' : Run} (h : Cfg r r') : F2_5 r'.st = F2_5 r.st := by
  unfold F2_5 F5 F10 F20; rw [h.fs]

theorem celtStage_FP {w : Int} (o : Oracle) (b : Body) (red : Red) (tr : Bool) (r : Run) (n : Int)
    (hp : Above w b.pcm) (hg : b.pcm.buf = .pcm ∨ r.st.decode_gain = 0) (hc : 0 ≤ r.st.channels)
    (hA : red.redundancy ≠ 0 → F2_5 r.st ≤ b.audiosize) (hn : b.audiosize ≤ n) :
    FP w b.pcm n r (celtStage o b red tr r) := by
  have p1 := stepRedC2S_pres w o b red r
  have p2 := p1.trans (stepMainCelt_pres o b red (stepRedC2S o b red r) hp)
  have p3 := p2.trans (stepRedS2C_pres o b red (stepMainCelt o b red (stepRedC2S o b red r)).2 hp (by
    intro hr
    rw [p2.1.ch, F2_5_cfg p2.1]
    exact Int.mul_nonneg hc (by have := hA hr; omega)))
  have p4 := p3.trans (stepRedCopy_pres b red _ hp)
  have p5 := p4.trans (stepTransFade_pres b tr _ hp)
  generalize hr5 : stepTransFade b tr (stepRedCopy b red (stepRedS2C o b red (stepMainCelt o b red (stepRedC2S o b red r)).2)) = r5 at p5
  have hres : celtStage o b red tr r =
      (.ret (if (stepMainCelt o b red (stepRedC2S o b red r)).1 < 0 then (stepMainCelt o b red (stepRedC2S o b red r)).1 else b.audiosize),
       stepFinish b red (stepGain b r5)) := by rw [← hr5]; rfl
  rw [hres]
  generalize (stepMainCelt o b red (stepRedC2S o b red r)).1 = m1
  have hle : ∀ ret, (Out.ret (if m1 < 0 then m1 else b.audiosize) : Out Int) = .ret ret → 0 ≤ ret → ret = b.audiosize := by
    intro ret he h0
    cases he
    split
    · rename_i h; rw [if_pos h] at h0; omega
    · rfl
  have hst : (stepGain b r5).st = r5.st := by unfold stepGain; split <;> rfl
  have hcfg : Cfg r (stepFinish b red (stepGain b r5)) :=
    ⟨show (stepGain b r5).st.channels = _ by rw [hst]; exact p5.1.ch, show (stepGain b r5).st.Fs = _ by rw [hst]; exact p5.1.fs,
     show (stepGain b r5).st.frame_size = _ by rw [hst]; exact p5.1.fsz,
     show (stepGain b r5).st.decode_gain = _ by rw [hst]; exact p5.1.g⟩
  by_cases hg0 : r5.st.decode_gain ≠ 0
  · have hsg : stepGain b r5 = r5.push (.acc 11 b.pcm (b.audiosize * r5.st.channels)) := if_pos hg0
    have hb : b.pcm.buf = .pcm := by
      rcases hg with h | h
      · exact h
      · exact absurd (p5.1.g.trans h) hg0
    refine ⟨hcfg, fun ret he h0 => by rw [hle ret he h0]; exact hn, fun hw => ?_⟩
    have hw5 := p5.2 hw
    refine ⟨max w (b.pcm.off + b.audiosize * r5.st.channels), Int.le_max_left _ _, ?_, fun h => absurd (p5.1.g.trans h) hg0, ?_⟩
    · show WM _ (stepGain b r5).log
      rw [hsg]; exact hw5.pushGain b.pcm _ hb (hp hb)
    · intro ret he h0
      rw [hle ret he h0, p5.1.ch]; exact Int.le_refl _
  · have hsg : stepGain b r5 = r5 := if_neg hg0
    refine ⟨hcfg, fun ret he h0 => by rw [hle ret he h0]; exact hn, fun hw => ?_⟩
    refine ⟨w, Int.le_refl _, ?_, fun _ => rfl, fun _ _ _ => Int.le_max_left _ _⟩
    show WM _ (stepGain b r5).log
    rw [hsg]; exact p5.2 hw

/-- What the frame body needs from the recursive call it makes for a transition: called on a scratch buffer with gain 0,
    it keeps the configuration and the watermark invariant. -/
def TransOK (t : Ptr → Int → Run → Res') : Prop :=
  ∀ (w : Int) (p : Ptr) (n : Int) (r : Run), p.buf ≠ .pcm → r.st.decode_gain = 0 → 0 ≤ r.st.channels → Pres w r (t p n r).2

theorem gain0Call_pres {t : Ptr → Int → Run → Res'} (ht : TransOK t) (w : Int) (p : Ptr) (n : Int) (r : Run)
    (hp : p.buf ≠ .pcm) (hc : 0 ≤ r.st.channels) : Pres w r (gain0Call t p n r).2 := by
  have hi := ht w p n (r.setSt { r.st with decode_gain := 0 }) hp rfl hc
  exact ⟨⟨hi.1.ch, hi.1.fs, hi.1.fsz, rfl⟩, fun h => hi.2 h⟩

theorem transCall_pres {t : Ptr → Int → Run → Res'} (ht : TransOK t) (w : Int) (b : Body) (r : Run) (hc : 0 ≤ r.st.channels) :
    Pres w r (transCall t b r).2 := by
  unfold transCall
  exact bindRun_pres _ _ (gain0Call_pres ht w _ _ r (transBuf_scratch _) hc) (fun _ r1 _ => Pres.refl w r1)

theorem fbTail_FP {w : Int} (o : Oracle) {t : Ptr → Int → Run → Res'} (ht : TransOK t) (b : Body) (tr : Bool) (et : Int × Int)
    (r : Run) (n : Int) (het : et.1 = 0 ∨ et.1 = INTERNAL_ERROR)
    (hp : Above w b.pcm) (hg : b.pcm.buf = .pcm ∨ r.st.decode_gain = 0) (hc : 0 ≤ r.st.channels)
    (hA : b.data.isSome = true → F2_5 r.st ≤ b.audiosize) (hn : b.audiosize ≤ n) :
    FP w b.pcm n r (fbTail o t b tr et r) := by
  unfold fbTail
  by_cases c0 : et.1 ≠ 0
  · rw [if_pos c0]
    refine FP.ofPres (Pres.refl w r) (fun ret he h0 => ?_)
    cases he
    rcases het with h | h
    · exact absurd h c0
    · rw [h] at h0; exact absurd h0 (by decide)
  · rw [if_neg c0]
    obtain ⟨q1, q2⟩ := redStage_pres w o b et.2 r
    have hc1 : 0 ≤ (redStage o b et.2 r).2.st.channels := by rw [q1.1.ch]; exact hc
    have hx : Pres w r (if (if (redStage o b et.2 r).1.redundancy ≠ 0 then false else tr) = true ∧ b.mode ≠ MODE_CELT
        then transCall t b (redStage o b et.2 r).2 else (.ret (), (redStage o b et.2 r).2)).2 := by
      by_cases cc : (if (redStage o b et.2 r).1.redundancy ≠ 0 then false else tr) = true ∧ b.mode ≠ MODE_CELT
      · rw [if_pos cc]; exact q1.trans (transCall_pres ht w b _ hc1)
      · rw [if_neg cc]; exact q1
    apply bindRun_FP _ _ hx
    intro _ r1 he
    have hr1 : Cfg r r1 := by have := hx.1; rw [he] at this; exact this
    by_cases c2 : ¬ endbandOk b.bandwidth
    · rw [if_pos c2]; exact FP.ofPres (Pres.refl w r1) (fun _ h => by cases h)
    · rw [if_neg c2]
      exact celtStage_FP o b _ _ r1 n hp (by rcases hg with h | h; exact Or.inl h; exact Or.inr (hr1.g.trans h))
        (by rw [hr1.ch]; exact hc) (fun hr => by rw [F2_5_cfg hr1]; exact hA (q2 hr)) hn

/-- **One `opus_decode_frame` body.** -/
theorem frameBody_FP {w : Int} (o : Oracle) {t : Ptr → Int → Run → Res'} (ht : TransOK t) (b : Body) (r : Run)
    (hp : Above w b.pcm) (hg : b.pcm.buf = .pcm ∨ r.st.decode_gain = 0) (hc : 0 ≤ r.st.channels)
    (hA : b.data.isSome = true → F2_5 r.st ≤ b.audiosize) :
    FP w b.pcm b.frame_size r (frameBody o t b r) := by
  rw [frameBody_eq]
  have hx : Pres w r (if wantTransition r.st b = true ∧ b.mode = MODE_CELT then transCall t b r else (.ret (), r)).2 := by
    split
    · exact transCall_pres ht w b r hc
    · exact Pres.refl w r
  apply bindRun_FP _ _ hx
  intro _ r1 he
  have hr1 : Cfg r r1 := by have := hx.1; rw [he] at this; exact this
  have hc1 : 0 ≤ r1.st.channels := by rw [hr1.ch]; exact hc
  by_cases c2 : b.audiosize > b.frame_size
  · rw [if_pos c2]; exact FP.ofPres (Pres.refl w r1) (fun ret h h0 => by cases h; exact absurd h0 (by decide))
  · rw [if_neg c2]
    have hy : Pres w r1 (if b.mode ≠ MODE_CELT then silkStage o b r1 else (.ret (0, 1), r1)).2 ∧
        ∀ et, (if b.mode ≠ MODE_CELT then silkStage o b r1 else (.ret (0, 1), r1)).1 = .ret et → et.1 = 0 ∨ et.1 = INTERNAL_ERROR := by
      split
      · exact silkStage_pres o b r1 hp hc1
      · exact ⟨Pres.refl w r1, fun et h => by cases h; exact Or.inl rfl⟩
    apply bindRun_FP _ _ hy.1
    intro et r2 he2
    have hr2 : Cfg r1 r2 := by have := hy.1.1; rw [he2] at this; exact this
    have het := hy.2 et (by rw [he2])
    exact fbTail_FP o ht b _ et r2 _ het hp
      (by rcases hg with h | h; exact Or.inl h; exact Or.inr ((hr1.trans hr2).g.trans h))
      (by rw [hr2.ch]; exact hc1) (fun hd => by rw [F2_5_cfg (hr1.trans hr2)]; exact hA hd) (by omega)

end Opus.DecSkel
