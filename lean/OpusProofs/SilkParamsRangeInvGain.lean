import OpusProofs.SilkParamsRangeBasic
import OpusProofs.SilkParamsLpc
/-
  OpusProofs.SilkParamsRangeInvGain — silk_LPC_inverse_pred_gain_c (LPC_inv_pred_gain.c:43-141):
  (a) range lemmas: on every `opus_int16` filter of order ≤ 24 no plain 32-bit operation
      overflows, the `(opus_int32)` casts of the stated 64-bit results are the identity, no
      division by zero occurs in silk_INVERSE32_varQ, and every 64-bit product fits 64 bits;
  (b) analytic content of a non-zero result: every reflection coefficient met by the fixed-point
      step-down recursion has magnitude at most A_LIMIT = 0.99975 (Q24).
  Deliberate saturation / wrap in the C code: `silk_SUB_SAT32` saturates (modelled by `subSat32`);
  the result of the Newton step `silk_SMLAWW` and of `silk_LSHIFT( ·, 3 )` in silk_INVERSE32_varQ are
  narrowed by an explicit cast (modelled by `wrap32`, faithful whether or not it wraps).
-/
namespace Opus.SilkParams
open Opus Opus.Gen

theorem alimit_eq : SilkNlsf.invGainALimit = 16773022 := by decide
theorem rcShift_eq : invGainRcShift = 7 := by decide
theorem pow2_16' : ((2 : Int) ^ 16) = 65536 := by decide

/-! ### (b) reflection coefficients -/

/-- The coefficients `A_QA[k]` (= minus the reflection coefficient in Q24) examined at the
    successive levels of the step-down recursion, as far as the C function gets before it returns. -/
def invGainRcs : Nat → List Int → Int → List Int
  | 0, A, _ => [A.getD 0 0]
  | k + 1, A, g =>
    let ak := A.getD (k + 1) 0
    if ak > SilkNlsf.invGainALimit ∨ ak < -SilkNlsf.invGainALimit then [ak]
    else
      let rc := -(lshift32 ak invGainRcShift)
      let rcMult1 := 1073741824 - smmul rc rc
      let g := lshift32 (smmul g rcMult1) 2
      if g < SilkNlsf.invGainThresholdQ30 then [ak]
      else
        let mult2Q := (32 - clz32 (sabs rcMult1)).toNat
        let rcMult2 := inverse32VarQ rcMult1 ((mult2Q : Int) + 30)
        let init := A.take (k + 1)
        let upd := List.zipWith (invGainUpd rc rcMult2 mult2Q) init init.reverse
        if upd.any (fun v => decide (v > 2147483647) || decide (v < -2147483648)) then [ak]
        else ak :: invGainRcs k upd g

/-- A non-zero inverse prediction gain certifies that the recursion ran through all `k+1` levels and
    that at each of them `|A_QA[k]| ≤ A_LIMIT`. -/
theorem invGainLoop_rcs : ∀ (k : Nat) (A : List Int) (g : Int), invGainLoop k A g ≠ 0 →
    (invGainRcs k A g).length = k + 1 ∧
    ∀ a ∈ invGainRcs k A g, -SilkNlsf.invGainALimit ≤ a ∧ a ≤ SilkNlsf.invGainALimit := by
  intro k
  induction k with
  | zero =>
    intro A g h
    unfold invGainLoop at h
    simp only at h
    split at h
    · exact absurd rfl h
    · rename_i hlim
      refine ⟨rfl, ?_⟩
      intro a ha
      simp only [invGainRcs, List.mem_singleton] at ha
      subst ha; omega
  | succ k ih =>
    intro A g h
    unfold invGainLoop at h
    unfold invGainRcs
    simp only at h ⊢
    split at h
    · exact absurd rfl h
    · rename_i hlim
      rw [if_neg hlim]
      split at h
      · exact absurd rfl h
      · rename_i hthr
        rw [if_neg hthr]
        split at h
        · exact absurd rfl h
        · rename_i hany
          rw [if_neg hany]
          have := ih _ _ h
          refine ⟨by rw [List.length_cons, this.1], ?_⟩
          intro a ha
          rcases List.mem_cons.mp ha with rfl | h'
          · omega
          · exact this.2 a h'

/-- The recursion's reflection coefficients of a Q12 filter. -/
def lpcReflectionQ24 (aQ12 : List Int) : List Int :=
  match aQ12.length with
  | 0 => []
  | k + 1 => invGainRcs k (aQ12.map fun a => lshift32 a (SilkNlsf.invGainQA - 12)) 1073741824

theorem lpcInversePredGain_rcs (a : List Int) (h : lpcInversePredGain a ≠ 0) :
    lpcInversePredGain.sumI a < 4096 ∧ (lpcReflectionQ24 a).length = a.length ∧
    ∀ r ∈ lpcReflectionQ24 a, -SilkNlsf.invGainALimit ≤ r ∧ r ≤ SilkNlsf.invGainALimit := by
  unfold lpcInversePredGain at h
  simp only at h
  split at h
  · exact absurd rfl h
  · rename_i hdc
    unfold lpcReflectionQ24
    split at h
    · exact absurd rfl h
    · rename_i k hk
      simp only [hk]
      have := invGainLoop_rcs k _ _ h
      exact ⟨by omega, this.1, this.2⟩

/-! ### (a) range lemmas -/

/-- 32-bit values of the scalar part of one level (LPC_inv_pred_gain.c:60-76) for the coefficient
    `ak = A_QA[k]` and running gain `g`: `A_QA[k] << 7`, `rc_Q31` (its negation), the operand of the
    `(opus_int32)` cast of `silk_SMMUL( rc, rc )`, `rc_mult1_Q30`, the operand of the cast of
    `silk_SMMUL( invGain, rc_mult1 )`, and its `<< 2`. -/
def invGainScalarTrace (ak g : Int) : List Int :=
  let rc := -(ak * 128)
  let m1 := 1073741824 - rc * rc / 4294967296
  [ak * 128, rc, rc * rc / 4294967296, m1, g * m1 / 4294967296, g * m1 / 4294967296 * 4]

theorem invGainScalar_range (ak g : Int) (ha : -16773022 ≤ ak ∧ ak ≤ 16773022)
    (hg : 0 ≤ g ∧ g ≤ 1073741824) :
    let rc := -(ak * 128)
    let m1 := 1073741824 - rc * rc / 4294967296
    (∀ v ∈ invGainScalarTrace ak g, I32 v) ∧
    -(lshift32 ak invGainRcShift) = rc ∧ 1073741824 - smmul rc rc = m1 ∧
    lshift32 (smmul g m1) 2 = g * m1 / 4294967296 * 4 ∧
    536765 ≤ m1 ∧ m1 ≤ 1073741824 ∧ 0 ≤ g * m1 / 4294967296 * 4 ∧ g * m1 / 4294967296 * 4 ≤ 1073741824 := by
  intro rc m1
  have hrcdef : rc = -(ak * 128) := rfl
  have hm1def : m1 = 1073741824 - rc * rc / 4294967296 := rfl
  have hT : invGainScalarTrace ak g =
      [ak * 128, rc, rc * rc / 4294967296, m1, g * m1 / 4294967296, g * m1 / 4294967296 * 4] := rfl
  rw [hT]
  clear hT
  clear_value m1
  clear_value rc
  have hrc : -2146946816 ≤ rc ∧ rc ≤ 2146946816 := by omega
  have hsq0 : 0 ≤ rc * rc := mul_self_nonneg rc
  have hsq1 : rc * rc ≤ 4609380630732537856 := by nlinarith [hrc.1, hrc.2]
  generalize hy : rc * rc = y at hsq0 hsq1 hm1def
  have hm1 : 536765 ≤ m1 ∧ m1 ≤ 1073741824 := by omega
  have hgm0 : 0 ≤ g * m1 := Int.mul_nonneg hg.1 (by omega)
  have hgm1 : g * m1 ≤ 1073741824 * 1073741824 := by nlinarith [hg.1, hg.2, hm1.1, hm1.2]
  generalize hz : g * m1 = z at hgm0 hgm1
  have hq : 0 ≤ z / 4294967296 ∧ z / 4294967296 ≤ 268435456 := by omega
  have hI1 : I32 (ak * 2 ^ 7) := by
    have : ((2 : Int) ^ 7) = 128 := by decide
    rw [this]; unfold I32; omega
  have hl : lshift32 ak invGainRcShift = ak * 128 := by
    rw [rcShift_eq]; unfold lshift32; rw [wrap32_id hI1]
    have : ((2 : Int) ^ 7) = 128 := by decide
    rw [this]
  have hI2 : I32 (y / 4294967296) := by unfold I32; omega
  have hI3 : I32 (z / 4294967296) := by unfold I32; omega
  have hI4 : I32 (z / 4294967296 * 2 ^ 2) := by
    have : ((2 : Int) ^ 2) = 4 := by decide
    rw [this]; unfold I32; omega
  refine ⟨?_, by rw [hl, hrcdef], ?_, ?_, hm1.1, hm1.2, by omega, by omega⟩
  · intro v hv
    simp only [List.mem_cons, List.not_mem_nil, or_false] at hv
    rcases hv with h | h | h | h | h | h
    · subst h; unfold I32; omega
    · subst h; unfold I32; omega
    · subst h; exact hI2
    · subst h; unfold I32; omega
    · subst h; exact hI3
    · subst h; unfold I32; omega
  · unfold smmul; rw [hy, wrap32_id hI2, hm1def]
  · unfold smmul lshift32
    rw [hz, wrap32_id hI3, wrap32_id hI4]
    have : ((2 : Int) ^ 2) = 4 := by decide
    rw [this]

/-- `silk_CLZ32` of a positive value with `2^e ≤ b < 2^(e+1)`, `e ≤ 30`. -/
theorem clz32_of_range (b : Int) (e : Nat) (h1 : (2 : Int) ^ e ≤ b) (h2 : b < (2 : Int) ^ (e + 1)) :
    clz32 b = 31 - (e : Int) := by
  have hpos : 0 < (2 : Int) ^ e := Int.pow_pos (by decide)
  have hb0 : 0 < b := by omega
  have hb : b = (b.toNat : Int) := (Int.toNat_of_nonneg (by omega)).symm
  have hn1 : 2 ^ e ≤ b.toNat := by
    have := h1; rw [hb] at this; exact_mod_cast this
  have hn2 : b.toNat < 2 ^ (e + 1) := by
    have := h2; rw [hb] at this; exact_mod_cast this
  have hne : b.toNat ≠ 0 := by omega
  have hlog : Nat.log2 b.toNat = e := (Nat.log2_eq_iff hne).mpr ⟨hn1, hn2⟩
  unfold clz32
  rw [if_neg (by omega), if_neg (by omega), hlog]
  push_cast; omega

theorem pow_split : ∀ e ∈ List.range' 19 12, (2 : Int) ^ e * (2 : Int) ^ (30 - e) = 1073741824 ∧
    (2 : Int) ^ (e + 1) = 2 * (2 : Int) ^ e ∧ 1 ≤ (2 : Int) ^ (30 - e) := by decide +kernel

/-- The plain 32-bit operations inside `silk_INVERSE32_varQ( rc_mult1_Q30, mult2Q + 30 )`
    (Inlines.h:143-185): `silk_abs`, `b_headrm`, the normalised `b32_nrm` (operand of the cast in
    `silk_LSHIFT`), the divisor `b32_nrm >> 16`, `b32_inv`, `b32_inv << 16`, the operand of the cast
    in `silk_SMULWB( b32_nrm, b32_inv )`, `(1 << 29) - …`, and `lshift`. -/
def inverse32Trace (b qres : Int) : List Int :=
  let hr := clz32 (sabs b) - 1
  let bn := b * (2 : Int) ^ hr.toNat
  let h := bn / 65536
  let inv := Int.tdiv 536870911 h
  [sabs b, hr, bn, h, inv, inv * 65536, bn * inv / 65536, 536870912 - bn * inv / 65536, 61 - hr - qres]

theorem inverse32_range (b : Int) (hb0 : 536765 ≤ b) (hb1 : b ≤ 1073741824) :
    let mult2Q := (32 - clz32 (sabs b)).toNat
    20 ≤ mult2Q ∧ mult2Q ≤ 31 ∧
    (∀ v ∈ inverse32Trace b ((mult2Q : Int) + 30), I32 v) ∧
    16384 ≤ (b * (2 : Int) ^ (clz32 (sabs b) - 1).toNat) / 65536 ∧
    (b * (2 : Int) ^ (clz32 (sabs b) - 1).toNat) / 65536 ≤ 32767 ∧
    I16 (Int.tdiv 536870911 ((b * (2 : Int) ^ (clz32 (sabs b) - 1).toNat) / 65536)) ∧
    61 - (clz32 (sabs b) - 1) - ((mult2Q : Int) + 30) = 0 ∧
    I32 (inverse32VarQ b ((mult2Q : Int) + 30)) := by
  intro mult2Q
  have hsabs : sabs b = b := by unfold sabs; rw [if_pos (by omega)]
  -- the exponent
  have hbn : b = (b.toNat : Int) := (Int.toNat_of_nonneg (by omega)).symm
  have hne : b.toNat ≠ 0 := by omega
  have he1 : 19 ≤ Nat.log2 b.toNat := (Nat.le_log2 hne).mpr (by
    have : (524288 : Int) ≤ (b.toNat : Int) := by omega
    have h19 : (2 : Nat) ^ 19 = 524288 := by decide
    rw [h19]; exact_mod_cast this)
  have he2 : Nat.log2 b.toNat < 31 := (Nat.log2_lt hne).mpr (by
    have : (b.toNat : Int) < 2147483648 := by omega
    have h31 : (2 : Nat) ^ 31 = 2147483648 := by decide
    rw [h31]; exact_mod_cast this)
  generalize he : Nat.log2 b.toNat = e at he1 he2
  have hlo : (2 : Int) ^ e ≤ b := by
    have := Nat.log2_self_le hne; rw [he] at this
    rw [hbn]; exact_mod_cast this
  have hhi : b < (2 : Int) ^ (e + 1) := by
    have := @Nat.lt_log2_self b.toNat; rw [he] at this
    rw [hbn]; exact_mod_cast this
  have hclz := clz32_of_range b e hlo hhi
  have hps := pow_split e (List.mem_range'_1.mpr (by omega))
  have hm : mult2Q = e + 1 := by
    show (32 - clz32 (sabs b)).toNat = e + 1
    rw [hsabs, hclz]; omega
  have hhr : (clz32 (sabs b) - 1).toNat = 30 - e := by rw [hsabs, hclz]; omega
  rw [hhr]
  rw [hps.2.1] at hhi
  generalize (2 : Int) ^ e = E at hlo hhi hps
  generalize hFdef : (2 : Int) ^ (30 - e) = F at hps ⊢
  have hF0 : 1 ≤ F := hps.2.2
  have hbn1 : 1073741824 ≤ b * F := by nlinarith [hps.1]
  have hbn2 : b * F < 2147483648 := by nlinarith [hps.1]
  generalize hBN : b * F = bn at hbn1 hbn2
  have hh : 16384 ≤ bn / 65536 ∧ bn / 65536 ≤ 32767 := by omega
  generalize hH : bn / 65536 = h at hh
  have hinv : Int.tdiv 536870911 h = 536870911 / h := Int.tdiv_eq_ediv_of_nonneg (by decide)
  have hq1 : 536870911 / h * h ≤ 536870911 := Int.ediv_mul_le _ (by omega)
  have hq2 : 536870911 < (536870911 / h + 1) * h := Int.lt_ediv_add_one_mul_self _ (by omega)
  have hq0 : 0 ≤ 536870911 / h := Int.ediv_nonneg (by decide) (by omega)
  have hinvb : 16384 ≤ 536870911 / h ∧ 536870911 / h ≤ 32767 := by
    generalize 536870911 / h = q at hq1 hq2 hq0
    constructor <;> nlinarith [hh.1, hh.2]
  rw [hinv]
  generalize hQ : 536870911 / h = inv at hinvb
  have hp0 : 0 ≤ bn * inv := Int.mul_nonneg (by omega) (by omega)
  have hp1 : bn * inv ≤ 2147483648 * 32767 := by nlinarith [hinvb.1, hinvb.2]
  have hsm : 0 ≤ bn * inv / 65536 ∧ bn * inv / 65536 ≤ 1073709056 := by
    generalize bn * inv = y at hp0 hp1
    omega
  have hlsh : 61 - (clz32 (sabs b) - 1) - ((mult2Q : Int) + 30) = 0 := by
    rw [hsabs, hclz, hm]; push_cast; omega
  refine ⟨by omega, by omega, ?_, hh.1, hh.2, by unfold I16; omega, hlsh, ?_⟩
  · intro v hv
    unfold inverse32Trace at hv
    simp only at hv
    rw [hhr, hFdef, hBN, hH, hinv, hQ, hlsh] at hv
    rw [hsabs, hclz] at hv
    simp only [List.mem_cons, List.not_mem_nil, or_false] at hv
    unfold I32
    rcases hv with h' | h' | h' | h' | h' | h' | h' | h' | h' <;> subst h' <;> omega
  · -- the result is produced by a narrowing cast / saturating shift in every branch
    unfold inverse32VarQ
    simp only
    split
    · unfold lshiftSat32 lshift32 wrap32 I32; omega
    · split
      · unfold smlaww wrap32 shrI I32
        generalize hx : (lshift32 (Int.tdiv 536870911 (shrI (lshift32 b (clz32 (sabs b) - 1).toNat) 16)) 16 +
          lshift32 (536870912 - smulwb (lshift32 b (clz32 (sabs b) - 1).toNat)
            (Int.tdiv 536870911 (shrI (lshift32 b (clz32 (sabs b) - 1).toNat) 16))) 3 *
          Int.tdiv 536870911 (shrI (lshift32 b (clz32 (sabs b) - 1).toNat) 16) / 65536 + 2147483648) % 4294967296 - 2147483648 = r
        have hr : -2147483648 ≤ r ∧ r ≤ 2147483647 := by omega
        rename_i hl0 hl32
        generalize (61 - (clz32 (sabs b) - 1) - ((mult2Q : Int) + 30)).toNat = s
        have hs : 0 < (2 : Int) ^ s := Int.pow_pos (by decide)
        constructor
        · have := Int.le_ediv_of_mul_le hs (show -2147483648 * (2 : Int) ^ s ≤ r by nlinarith)
          omega
        · have := Int.ediv_le_self ((2 : Int) ^ s) (show 0 ≤ r + 2147483648 by omega)
          rcases Int.le_total 0 r with h0 | h0
          · have := Int.ediv_le_self ((2 : Int) ^ s) h0; omega
          · have : r / (2 : Int) ^ s ≤ 0 := by
              have := Int.ediv_le_ediv hs h0; simpa using this
            omega
      · unfold I32; omega

/-- One coefficient update (LPC_inv_pred_gain.c:81-95) for `opus_int32` operands: the operand of
    the `(opus_int32)` cast in `MUL32_FRAC_Q( tmp2, rc_Q31, 31 )` fits 32 bits, and the 64-bit values
    (`silk_SMULL` products and the first step of each `silk_RSHIFT_ROUND64`) fit 64 bits. -/
def invGainUpdTrace64 (rc rcMult2 : Int) (mult2Q : Nat) (t1 t2 : Int) : List Int :=
  let x := t2 * rc
  let m := rshiftRound x 31
  let y := subSat32 t1 m * rcMult2
  [x, x / 1073741824 + 1, y, y / (2 : Int) ^ (mult2Q - 1) + 1, rshiftRound y mult2Q]

theorem rshiftRound31 (a : Int) : rshiftRound a 31 = (a / 1073741824 + 1) / 2 := by
  unfold rshiftRound
  rw [if_neg (by decide)]
  show (a / (2 : Int) ^ 30 + 1) / 2 = _
  have : ((2 : Int) ^ 30) = 1073741824 := by decide
  rw [this]

theorem subSat32_I32 (a b : Int) : I32 (subSat32 a b) := by
  unfold subSat32 sat32 I32
  split
  · omega
  · split <;> omega

theorem invGainUpd_range (rc rcMult2 : Int) (mult2Q : Nat) (t1 t2 : Int) (hrc : -2147483647 ≤ rc ∧ rc ≤ 2147483647)
    (hm2 : I32 rcMult2) (hq : 1 ≤ mult2Q) (h1 : I32 t1) (h2 : I32 t2) :
    I32 (rshiftRound (t2 * rc) 31) ∧ (∀ v ∈ invGainUpdTrace64 rc rcMult2 mult2Q t1 t2, I64 v) ∧
    invGainUpd rc rcMult2 mult2Q t1 t2 = rshiftRound (subSat32 t1 (rshiftRound (t2 * rc) 31) * rcMult2) mult2Q := by
  unfold I32 at hm2 h1 h2
  have hx1 : t2 * rc ≤ 2147483648 * 2147483647 := by nlinarith [hrc.1, hrc.2, h2.1, h2.2]
  have hx2 : -(2147483648 * 2147483647) ≤ t2 * rc := by nlinarith [hrc.1, hrc.2, h2.1, h2.2]
  unfold invGainUpdTrace64 invGainUpd
  simp only
  generalize t2 * rc = x at hx1 hx2 ⊢
  have hm : I32 (rshiftRound x 31) := by rw [rshiftRound31]; unfold I32; omega
  rw [wrap32_id hm]
  generalize rshiftRound x 31 = m at hm ⊢
  have hs := subSat32_I32 t1 m
  unfold I32 at hs
  generalize subSat32 t1 m = sv at hs ⊢
  have hy1 : sv * rcMult2 ≤ 2147483648 * 2147483648 := by nlinarith [hs.1, hs.2, hm2.1, hm2.2]
  have hy2 : -(2147483648 * 2147483648) ≤ sv * rcMult2 := by nlinarith [hs.1, hs.2, hm2.1, hm2.2]
  generalize sv * rcMult2 = y at hy1 hy2 ⊢
  refine ⟨hm, ?_, rfl⟩
  intro v hv
  simp only [List.mem_cons, List.not_mem_nil, or_false] at hv
  have hp : 0 < (2 : Int) ^ (mult2Q - 1) := Int.pow_pos (by decide)
  have hdiv : -(2147483648 * 2147483648) ≤ y / (2 : Int) ^ (mult2Q - 1) ∧
      y / (2 : Int) ^ (mult2Q - 1) ≤ 2147483648 * 2147483648 := by
    constructor
    · exact Int.le_ediv_of_mul_le hp (by nlinarith)
    · rcases Int.le_total 0 y with h0 | h0
      · have := Int.ediv_le_self ((2 : Int) ^ (mult2Q - 1)) h0; omega
      · have : y / (2 : Int) ^ (mult2Q - 1) ≤ 0 := by
          have := Int.ediv_le_ediv hp h0; simpa using this
        omega
  rcases hv with h | h | h | h | h
  · subst h; unfold I64; omega
  · subst h; unfold I64; omega
  · subst h; unfold I64; omega
  · subst h; unfold I64; omega
  · subst h
    unfold rshiftRound
    split
    · unfold I64; omega
    · generalize y / (2 : Int) ^ (mult2Q - 1) = z at hdiv
      unfold I64; omega

/-! ### the whole recursion -/

/-- All `opus_int32` values of `LPC_inverse_pred_gain_QA_c` from the level with C loop variable `k`
    down, for the state `(A_QA[0..k], invGain_Q30)`: per level the scalar trace, `mult2Q`, the trace
    of `silk_INVERSE32_varQ`, and the operand of the `(opus_int32)` cast of every
    `MUL32_FRAC_Q( tmp2, rc_Q31, 31 )` (both orders of each pair). -/
def invGainLoopTrace : Nat → List Int → Int → List Int
  | 0, A, g =>
    let a0 := A.getD 0 0
    if a0 > SilkNlsf.invGainALimit ∨ a0 < -SilkNlsf.invGainALimit then [] else invGainScalarTrace a0 g
  | k + 1, A, g =>
    let ak := A.getD (k + 1) 0
    if ak > SilkNlsf.invGainALimit ∨ ak < -SilkNlsf.invGainALimit then []
    else
      let rc := -(lshift32 ak invGainRcShift)
      let rcMult1 := 1073741824 - smmul rc rc
      let g' := lshift32 (smmul g rcMult1) 2
      invGainScalarTrace ak g ++
        (if g' < SilkNlsf.invGainThresholdQ30 then []
         else
           let mult2Q := (32 - clz32 (sabs rcMult1)).toNat
           let rcMult2 := inverse32VarQ rcMult1 ((mult2Q : Int) + 30)
           let init := A.take (k + 1)
           let upd := List.zipWith (invGainUpd rc rcMult2 mult2Q) init init.reverse
           [(mult2Q : Int)] ++ inverse32Trace rcMult1 ((mult2Q : Int) + 30) ++
             List.zipWith (fun _ t2 => rshiftRound (t2 * rc) 31) init init.reverse ++
             (if upd.any (fun v => decide (v > 2147483647) || decide (v < -2147483648)) then []
              else invGainLoopTrace k upd g'))

/-- All 64-bit values (products of `silk_SMULL`, steps of `silk_RSHIFT_ROUND64`) of the same levels. -/
def invGainLoopTrace64 : Nat → List Int → Int → List Int
  | 0, _, _ => []
  | k + 1, A, g =>
    let ak := A.getD (k + 1) 0
    if ak > SilkNlsf.invGainALimit ∨ ak < -SilkNlsf.invGainALimit then []
    else
      let rc := -(lshift32 ak invGainRcShift)
      let rcMult1 := 1073741824 - smmul rc rc
      let g' := lshift32 (smmul g rcMult1) 2
      if g' < SilkNlsf.invGainThresholdQ30 then []
      else
        let mult2Q := (32 - clz32 (sabs rcMult1)).toNat
        let rcMult2 := inverse32VarQ rcMult1 ((mult2Q : Int) + 30)
        let init := A.take (k + 1)
        let upd := List.zipWith (invGainUpd rc rcMult2 mult2Q) init init.reverse
        (List.zipWith (fun t1 t2 => invGainUpdTrace64 rc rcMult2 mult2Q t1 t2) init init.reverse).flatten ++
          (if upd.any (fun v => decide (v > 2147483647) || decide (v < -2147483648)) then []
           else invGainLoopTrace64 k upd g')

/-- The divisors `b32_nrm >> 16` of the `silk_DIV32_16` inside `silk_INVERSE32_varQ`, all levels. -/
def invGainLoopDivisors : Nat → List Int → Int → List Int
  | 0, _, _ => []
  | k + 1, A, g =>
    let ak := A.getD (k + 1) 0
    if ak > SilkNlsf.invGainALimit ∨ ak < -SilkNlsf.invGainALimit then []
    else
      let rc := -(lshift32 ak invGainRcShift)
      let rcMult1 := 1073741824 - smmul rc rc
      let g' := lshift32 (smmul g rcMult1) 2
      if g' < SilkNlsf.invGainThresholdQ30 then []
      else
        let mult2Q := (32 - clz32 (sabs rcMult1)).toNat
        let rcMult2 := inverse32VarQ rcMult1 ((mult2Q : Int) + 30)
        let init := A.take (k + 1)
        let upd := List.zipWith (invGainUpd rc rcMult2 mult2Q) init init.reverse
        (rcMult1 * (2 : Int) ^ (clz32 (sabs rcMult1) - 1).toNat) / 65536 ::
          (if upd.any (fun v => decide (v > 2147483647) || decide (v < -2147483648)) then []
           else invGainLoopDivisors k upd g')

theorem mem_zipWith {f : Int → Int → Int} : ∀ {l1 l2 : List Int} {v : Int}, v ∈ List.zipWith f l1 l2 →
    ∃ a ∈ l1, ∃ b ∈ l2, v = f a b
  | [], _, _, h => by simp at h
  | _ :: _, [], _, h => by simp at h
  | a :: as, b :: bs, v, h => by
    simp only [List.zipWith_cons_cons, List.mem_cons] at h
    rcases h with rfl | h
    · exact ⟨a, by simp, b, by simp, rfl⟩
    · obtain ⟨a', ha', b', hb', hv⟩ := mem_zipWith h
      exact ⟨a', by simp [ha'], b', by simp [hb'], hv⟩

theorem mem_zipWith_flatten {f : Int → Int → List Int} : ∀ {l1 l2 : List Int} {v : Int},
    v ∈ (List.zipWith f l1 l2).flatten → ∃ a ∈ l1, ∃ b ∈ l2, v ∈ f a b
  | [], _, _, h => by simp at h
  | _ :: _, [], _, h => by simp at h
  | a :: as, b :: bs, v, h => by
    simp only [List.zipWith_cons_cons, List.flatten_cons, List.mem_append] at h
    rcases h with h | h
    · exact ⟨a, by simp, b, by simp, h⟩
    · obtain ⟨a', ha', b', hb', hv⟩ := mem_zipWith_flatten h
      exact ⟨a', by simp [ha'], b', by simp [hb'], hv⟩

theorem getD_I32 {A : List Int} (hA : ∀ a ∈ A, I32 a) (n : Nat) : I32 (A.getD n 0) := by
  rw [List.getD_eq_getElem?_getD]
  cases hn : A[n]? with
  | none => simp only [Option.getD_none]; unfold I32; omega
  | some v => simp only [Option.getD_some]; exact hA v (List.mem_of_getElem? hn)

/-- `LPC_inverse_pred_gain_QA_c` on any `opus_int32` coefficients and `0 ≤ invGain_Q30 ≤ 2^30`: no
    32-bit wrap, every 64-bit value fits 64 bits, no division by zero. -/
theorem invGainLoop_range : ∀ (k : Nat) (A : List Int) (g : Int), (∀ a ∈ A, I32 a) → 0 ≤ g → g ≤ 1073741824 →
    (∀ v ∈ invGainLoopTrace k A g, I32 v) ∧ (∀ v ∈ invGainLoopTrace64 k A g, I64 v) ∧
    (∀ v ∈ invGainLoopDivisors k A g, 16384 ≤ v ∧ v ≤ 32767) := by
  intro k
  induction k with
  | zero =>
    intro A g hA hg0 hg1
    refine ⟨?_, by simp [invGainLoopTrace64], by simp [invGainLoopDivisors]⟩
    intro v hv
    unfold invGainLoopTrace at hv
    simp only at hv
    split at hv
    · simp at hv
    · rename_i hlim
      rw [alimit_eq] at hlim
      exact (invGainScalar_range _ g (by omega) ⟨hg0, hg1⟩).1 v hv
  | succ k ih =>
    intro A g hA hg0 hg1
    unfold invGainLoopTrace invGainLoopTrace64 invGainLoopDivisors
    simp only
    by_cases hlim : A.getD (k + 1) 0 > SilkNlsf.invGainALimit ∨ A.getD (k + 1) 0 < -SilkNlsf.invGainALimit
    · rw [if_pos hlim, if_pos hlim, if_pos hlim]; simp
    · rw [if_neg hlim, if_neg hlim, if_neg hlim]
      have hlim' := hlim
      rw [alimit_eq] at hlim'
      have hsc := invGainScalar_range (A.getD (k + 1) 0) g (by omega) ⟨hg0, hg1⟩
      simp only at hsc
      obtain ⟨hsT, hsrc, hsm1, hsg, hm1a, hm1b, hg'0, hg'1⟩ := hsc
      rw [hsrc, hsm1, hsg]
      generalize hrcd : -(A.getD (k + 1) 0 * 128) = rc at *
      have hrcb : -2147483647 ≤ rc ∧ rc ≤ 2147483647 := by omega
      generalize hm1d : 1073741824 - rc * rc / 4294967296 = m1 at *
      generalize hgd : g * m1 / 4294967296 * 4 = g' at *
      by_cases hthr : g' < SilkNlsf.invGainThresholdQ30
      · rw [if_pos hthr, if_pos hthr, if_pos hthr]
        refine ⟨?_, by simp, by simp⟩
        intro v hv
        rw [List.append_nil] at hv
        exact hsT v hv
      · rw [if_neg hthr, if_neg hthr, if_neg hthr]
        have hinv := inverse32_range m1 hm1a hm1b
        simp only at hinv
        obtain ⟨hq0, hq1, hiT, hd0, hd1, _, _, hm2⟩ := hinv
        generalize hmq : (32 - clz32 (sabs m1)).toNat = mult2Q at *
        generalize hr2 : inverse32VarQ m1 ((mult2Q : Int) + 30) = rcMult2 at *
        have hinit : ∀ a ∈ A.take (k + 1), I32 a := fun a ha => hA a (List.mem_of_mem_take ha)
        have hinitr : ∀ a ∈ (A.take (k + 1)).reverse, I32 a := fun a ha => hinit a (List.mem_reverse.mp ha)
        generalize hupd : List.zipWith (invGainUpd rc rcMult2 mult2Q) (A.take (k + 1)) (A.take (k + 1)).reverse = upd
        by_cases hany : upd.any (fun v => decide (v > 2147483647) || decide (v < -2147483648)) = true
        · rw [if_pos hany, if_pos hany, if_pos hany]
          refine ⟨?_, ?_, ?_⟩
          · intro v hv
            simp only [List.mem_append, List.mem_cons, List.not_mem_nil, or_false] at hv
            rcases hv with hv | ((hv | hv) | hv)
            · exact hsT v hv
            · subst hv; unfold I32; omega
            · exact hiT v hv
            · obtain ⟨a, ha, b, hb, rfl⟩ := mem_zipWith hv
              exact (invGainUpd_range rc rcMult2 mult2Q a b hrcb hm2 (by omega) (hinit a ha) (hinitr b hb)).1
          · intro v hv
            rw [List.append_nil] at hv
            obtain ⟨a, ha, b, hb, hv'⟩ := mem_zipWith_flatten hv
            exact (invGainUpd_range rc rcMult2 mult2Q a b hrcb hm2 (by omega) (hinit a ha) (hinitr b hb)).2.1 v hv'
          · intro v hv
            simp only [List.mem_cons, List.not_mem_nil, or_false] at hv
            subst hv; exact ⟨hd0, hd1⟩
        · rw [if_neg hany, if_neg hany, if_neg hany]
          have hupdI : ∀ a ∈ upd, I32 a := by
            intro a ha
            simp only [List.any_eq_true, Bool.or_eq_true, decide_eq_true_eq, not_exists, not_and, not_or] at hany
            have := hany a ha
            unfold I32; omega
          have hrec := ih upd g' hupdI hg'0 hg'1
          refine ⟨?_, ?_, ?_⟩
          · intro v hv
            simp only [List.mem_append, List.mem_cons, List.not_mem_nil, or_false] at hv
            rcases hv with hv | ((hv | hv) | hv) | hv
            · exact hsT v hv
            · subst hv; unfold I32; omega
            · exact hiT v hv
            · obtain ⟨a, ha, b, hb, rfl⟩ := mem_zipWith hv
              exact (invGainUpd_range rc rcMult2 mult2Q a b hrcb hm2 (by omega) (hinit a ha) (hinitr b hb)).1
            · exact hrec.1 v hv
          · intro v hv
            rcases List.mem_append.mp hv with hv | hv
            · obtain ⟨a, ha, b, hb, hv'⟩ := mem_zipWith_flatten hv
              exact (invGainUpd_range rc rcMult2 mult2Q a b hrcb hm2 (by omega) (hinit a ha) (hinitr b hb)).2.1 v hv'
            · exact hrec.2.1 v hv
          · intro v hv
            rcases List.mem_cons.mp hv with rfl | hv
            · exact ⟨hd0, hd1⟩
            · exact hrec.2.2 v hv

/-- The 32-bit values of the wrapper `silk_LPC_inverse_pred_gain_c` (LPC_inv_pred_gain.c:131-134):
    the running `DC_resp` and every `A_Q12[k] << 12`. -/
def invGainTopTrace : List Int → Int → List Int
  | [], _ => []
  | a :: as, dc => (dc + a) :: a * 4096 :: invGainTopTrace as (dc + a)

theorem invGainTop_range : ∀ (a : List Int) (dc : Int), (∀ x ∈ a, I16 x) →
    -32768 * (100 - (a.length : Int)) ≤ dc → dc ≤ 32768 * (100 - (a.length : Int)) → a.length ≤ 100 →
    (∀ v ∈ invGainTopTrace a dc, I32 v) ∧
    (∀ x ∈ a.map (fun x => lshift32 x (SilkNlsf.invGainQA - 12)), I32 x) := by
  intro a
  induction a with
  | nil => intro dc _ _ _ _; simp [invGainTopTrace]
  | cons x xs ih =>
    intro dc hI h0 h1 hl
    have hx := hI x (by simp)
    unfold I16 at hx
    simp only [List.length_cons, Nat.cast_add, Nat.cast_one] at h0 h1 hl
    have hrec := ih (dc + x) (fun y hy => hI y (by simp [hy])) (by omega) (by omega) (by omega)
    refine ⟨?_, ?_⟩
    · intro v hv
      simp only [invGainTopTrace, List.mem_cons] at hv
      rcases hv with h | h | h
      · subst h; unfold I32; omega
      · subst h; unfold I32; omega
      · exact hrec.1 v h
    · intro y hy
      simp only [List.map_cons, List.mem_cons] at hy
      rcases hy with h | h
      · subst h; unfold lshift32 wrap32 I32; omega
      · exact hrec.2 y h

/-- `silk_LPC_inverse_pred_gain_c( A_Q12, order )` for every `opus_int16` filter of order 1..24
    (`SILK_MAX_ORDER_LPC`): nothing wraps in 32 or 64 bits and no division by zero occurs. -/
theorem lpcInversePredGain_range (a : List Int) (hI : ∀ x ∈ a, I16 x) (hl : a.length ≤ 24) :
    (∀ v ∈ invGainTopTrace a 0, I32 v) ∧
    ∀ k, a.length = k + 1 →
      (∀ v ∈ invGainLoopTrace k (a.map fun x => lshift32 x (SilkNlsf.invGainQA - 12)) 1073741824, I32 v) ∧
      (∀ v ∈ invGainLoopTrace64 k (a.map fun x => lshift32 x (SilkNlsf.invGainQA - 12)) 1073741824, I64 v) ∧
      (∀ v ∈ invGainLoopDivisors k (a.map fun x => lshift32 x (SilkNlsf.invGainQA - 12)) 1073741824,
        16384 ≤ v ∧ v ≤ 32767) := by
  have ht := invGainTop_range a 0 hI (by omega) (by omega) (by omega)
  exact ⟨ht.1, fun k _ => invGainLoop_range k _ 1073741824 ht.2 (by omega) (by omega)⟩

end Opus.SilkParams
