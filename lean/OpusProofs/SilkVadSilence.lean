import OpusProofs.SilkVadFilt
/-
  OpusProofs.SilkVadSilence — digital silence at the VAD input: what one all-zero frame does to the filter
  memories, `HPstate` and `XnrgSubfr`, and the decision on zero band energies.
-/
namespace Opus.SilkVad
open Opus Opus.SilkParams

abbrev zeros (n : Nat) : List Int := List.replicate n 0

def stBn : Nat := 150000000
theorem stBn_cast : (stBn : Int) = stB := rfl

/-! ### projections of `bands` -/

theorem bands_ana0 (st : VadState) (len : Nat) (p : List Int) :
    (bands st len p).1.ana0 = (anaFilt st.ana0 (p.take len)).1 := rfl
theorem bands_ana1 (st : VadState) (len : Nat) (p : List Int) :
    (bands st len p).1.ana1 = (anaFilt st.ana1 ((anaFilt st.ana0 (p.take len)).2.1.take (len / 2))).1 := rfl
theorem bands_ana2 (st : VadState) (len : Nat) (p : List Int) :
    (bands st len p).1.ana2 = (anaFilt st.ana2 ((anaFilt st.ana1 ((anaFilt st.ana0 (p.take len)).2.1.take (len / 2))).2.1.take (len / 4))).1 := rfl
theorem bands_hp (st : VadState) (len : Nat) (p : List Int) :
    (bands st len p).1.hp = hpLast st.hp ((anaFilt st.ana2 ((anaFilt st.ana1 ((anaFilt st.ana0 (p.take len)).2.1.take (len / 2))).2.1.take (len / 4))).2.1.take (len / 8)) := rfl

/-! ### zero signals -/

theorem subEnergy_zero (l : List Int) (h : ∀ x ∈ l, x = 0) : subEnergy l = 0 := by
  induction l with
  | nil => rfl
  | cons x rest ih =>
    have hx := h x (by simp)
    subst hx
    simp only [subEnergy, ih (fun y hy => h y (by simp [hy]))]
    decide

theorem bandEnergy_zeros (carry : Int) (m len : Nat) (hc : NonNeg32 carry) :
    bandEnergy carry (zeros m) len = (carry, 0) := by
  unfold NonNeg32 at hc
  have hz : ∀ d n, subEnergy (((zeros m).drop d).take n) = 0 := fun d n =>
    subEnergy_zero _ (fun x hx => List.eq_of_mem_replicate (List.mem_of_mem_drop (List.mem_of_mem_take hx)))
  unfold bandEnergy
  simp only [hz]
  have h0 : shrI 0 1 = 0 := by decide
  rw [h0, addPosSat32_spec carry 0 hc (by omega)]
  have : min (carry + 0) 2147483647 = carry := by omega
  rw [this, addPosSat32_spec carry 0 hc (by omega), this, addPosSat32_spec carry 0 hc (by omega), this,
    addPosSat32_spec carry 0 hc (by omega), this]

/-- The look-ahead sub-frame of a signal that is zero after its first sample is zero. -/
theorem bandEnergy_head (carry v : Int) (m len : Nat) (hl : 4 ≤ len) :
    (bandEnergy carry (v :: zeros m) len).2 = 0 := by
  unfold bandEnergy
  simp only
  apply subEnergy_zero
  intro x hx
  have hx' := List.mem_of_mem_take hx
  have : 3 * (len / 4) = (3 * (len / 4) - 1) + 1 := by omega
  rw [this, List.drop_succ_cons] at hx'
  exact List.eq_of_mem_replicate (List.mem_of_mem_drop hx')

theorem hpDiff_zeros (m : Nat) : hpDiff 0 (zeros m) = zeros m := by
  induction m with
  | zero => rfl
  | succ m ih =>
    rw [show zeros (m + 1) = 0 :: zeros m from List.replicate_succ]
    simp only [hpDiff]
    have h0 : shrI 0 1 = 0 := by decide
    rw [h0, ih]; rfl

theorem hpDiff_zeros_hp (hp : Int) (m : Nat) : hpDiff hp (zeros (m + 1)) = (-hp) :: zeros m := by
  rw [show zeros (m + 1) = 0 :: zeros m from List.replicate_succ]
  simp only [hpDiff]
  have h0 : shrI 0 1 = 0 := by decide
  rw [h0, hpDiff_zeros]; simp

theorem hpLast_zeros (hp : Int) (m : Nat) : hpLast hp (zeros (m + 1)) = 0 := by
  unfold hpLast
  have : (zeros (m + 1)).getLast? = some 0 := by
    simp [zeros, List.getLast?_replicate]
  rw [this]; show shrI 0 1 = 0; decide

/-! ### the decision on zero band energies -/

theorem snrBand_zero (nl w tilt : Int) (hn : 1 ≤ nl) : snrBand 0 nl w tilt = (256, 0, tilt) := by
  unfold snrBand
  simp only
  rw [if_neg (by omega)]

/-- With all four band energies zero (and `NL ≥ 1`) the speech activity is 2 (Q8), below the DTX
    threshold 13. -/
theorem decision_zero (st2 : VadState) (fs len : Nat) (hn : st2.nl.all (fun x => 1 ≤ x ∧ x ≤ 16777215)) :
    (decision st2 ⟨0, 0, 0, 0⟩ fs len).speechActivityQ8 = 2 := by
  unfold Q4.all at hn
  have hs : snrStage st2.nl ⟨0, 0, 0, 0⟩ = (589, 0, ⟨256, 256, 256, 256⟩) := by
    unfold snrStage
    simp only [snrBand_zero _ _ _ hn.1.1, snrBand_zero _ _ _ hn.2.1.1, snrBand_zero _ _ _ hn.2.2.1.1, snrBand_zero _ _ _ hn.2.2.2.1]
    decide +kernel
  unfold decision
  simp only [hs]
  have hp : powerScale 589 st2.nl ⟨0, 0, 0, 0⟩ (decide (len = 20 * fs)) = 294 := by
    unfold powerScale
    simp only
    have h0 : shrI (0 - st2.nl.b0) 4 ≤ -1 := by unfold shrI; omega
    have h1 : shrI (0 - st2.nl.b1) 4 ≤ -1 := by unfold shrI; omega
    have h2 : shrI (0 - st2.nl.b2) 4 ≤ -1 := by unfold shrI; omega
    have h3 : shrI (0 - st2.nl.b3) 4 ≤ -1 := by unfold shrI; omega
    generalize shrI (0 - st2.nl.b0) 4 = t0 at *
    generalize shrI (0 - st2.nl.b1) 4 = t1 at *
    generalize shrI (0 - st2.nl.b2) 4 = t2 at *
    generalize shrI (0 - st2.nl.b3) 4 = t3 at *
    have hle : (if decide (len = 20 * fs) = true then shrI (1 * t0 + 2 * t1 + 3 * t2 + 4 * t3) 1 else 1 * t0 + 2 * t1 + 3 * t2 + 4 * t3) ≤ 0 := by
      split
      · unfold shrI; omega
      · omega
    rw [if_pos hle]; decide
  rw [hp]; decide

end Opus.SilkVad
