import OpusProofs.RepackGather
import OpusProofs.ExtNoRepeat
/-
  C07 helper lemmas, part 12: code 3 with extensions.  For an extension array `all` on which the
  generator of src/extensions.c does not use its repeat mechanism (C16's `NoRepeat`), the padding of
  the emitted packet is `0x01 … 0x01` followed by the canonical serialisation `serBytes` of the stable
  sort of `all` by frame.
-/
namespace Opus.RepackProofs
open Opus Opus.Framing Opus.FramingSpec Opus.FramingProofs Opus.Repack Opus.Ext Opus.ExtProofs

/-- The bytes `opus_packet_extensions_generate` writes for `all` (no repeats). -/
def extSer (all : Array Ext) (nbF : Nat) : Bytes := serBytes 0 (sortedFrom all nbF 0)

theorem extSer_pos (all : Array Ext) (nbF : Nat) (hv : AllValid all nbF) (hpos : 0 < all.size) :
    0 < (extSer all nbF).length := by
  have hl := sortedFrom_length all nbF hv
  unfold extSer
  cases hs : sortedFrom all nbF 0 with
  | nil => rw [hs] at hl; simp at hl; omega
  | cons e l => exact List.length_pos_iff.mpr serBytes_ne_nil

/-- What the repacketizer needs of `opus_packet_extensions_generate` for the array `all`: with any
    sufficient buffer it writes the (non-empty) byte string `B`. -/
structure GenBytes (all : Array Ext) (nbF : Nat) (B : Bytes) : Prop where
  ok : ExtsOk all
  gen : ∀ len : Int, (B.length : Int) ≤ len → generate false len all nbF false = .ok B.toArray
  pos : 0 < B.length

/-- Dry run of the generator: the size of `B` when it fits, `BUFFER_TOO_SMALL` otherwise. -/
theorem generateDry_gen (all : Array Ext) (nbF : Nat) (B : Bytes) (hG : GenBytes all nbF B) (len : Int) (hl : 0 ≤ len) :
    generateDry len all nbF false = if (B.length : Int) ≤ len then .ok B.length else .err .bufferTooSmall := by
  rw [generate_dry_eq_written len all nbF false hG.ok]
  have hbig := hG.gen B.length (Int.le_refl _)
  split
  · rename_i hfit
    rw [hG.gen len hfit]
    simp [resSize]
  · rename_i hfit
    have := (generate_exact_and_smaller hG.ok hbig).2 len false false hl (by simp at hfit ⊢; omega)
    rw [this]; rfl

/-- The `NoRepeat` instance (C16 `generate_parse_norepeat`). -/
theorem genBytes_norep (all : Array Ext) (nbF : Nat) (hnf : nbF ≤ 48) (hv : AllValid all nbF) (hnr : NoRepeat all nbF)
    (hpos : 0 < all.size) : GenBytes all nbF (extSer all nbF) :=
  ⟨allValid_extsOk hv, fun len hfit => (generate_parse_norepeat all nbF hnf hv hnr len hfit all.size (Int.le_refl _)).1,
   extSer_pos all nbF hv hpos⟩

/-- Padding written with extensions: `nb` length bytes 255, a final length byte, `0x01` fill, extensions. -/
def extPad (amount : Int) (ser : Bytes) : Pad :=
  let nb := (amount - 1) / 255
  { n255 := nb.toNat, last := (amount - 255 * nb - 1).toNat,
    bytes := List.replicate (amount - ser.length - nb - 1).toNat 1 ++ ser }

/-- `pad_amount` of the code-3 branch when extensions are present. -/
def extAmount (maxlen tot : Int) (pad : Bool) (L : Nat) : Int :=
  if pad then maxlen - tot else (L : Int) + L / 254 + 1

/-- Code 3 with extensions: `B` = what the generator writes for `all`. -/
theorem code3_ext (toc : Nat) (frames : List Bytes) (hne : frames ≠ []) (hn48 : frames.length ≤ 48)
    (all : Array Ext) (hpos : 0 < all.size) (B : Bytes) (hG : GenBytes all frames.length B)
    (tot0 maxlen : Int) (sdBytes : Bytes) (pad : Bool) :
    code3 toc frames tot0 maxlen sdBytes pad all =
      let L := B.length
      let tot := tot3 (frames.map List.length) tot0
      let amount := extAmount maxlen tot pad L
      if tot > maxlen ∨ maxlen - tot < L ∨ tot + L + (amount - 1) / 255 + 1 > maxlen then .err .bufferTooSmall
      else .ok ([toc / 4 * 4 + 3, frames.length + 64 + (if isVbr (frames.map List.length) then 128 else 0)] ++
                (extPad amount B).hdr ++
                (if isVbr (frames.map List.length) then (frames.map List.length).dropLast.flatMap encLen else []) ++
                sdBytes ++ frames.flatten ++ (extPad amount B).bytes) := by
  have hLpos := hG.pos
  simp only []
  unfold code3
  simp only []
  by_cases hbig : tot3 (frames.map List.length) tot0 > maxlen
  · rw [if_pos hbig, if_pos (Or.inl hbig)]
  · rw [if_neg hbig, if_pos hpos]
    rw [generateDry_gen all frames.length B hG _ (by omega)]
    by_cases hfit : (B.length : Int) ≤ maxlen - tot3 (frames.map List.length) tot0
    · rw [if_pos hfit]
      simp only []
      have ham : (if pad = true then (if pad = true then maxlen - tot3 (frames.map List.length) tot0 else 0)
          else (B.length : Int) + (B.length : Int) / 254 + 1) =
          extAmount maxlen (tot3 (frames.map List.length) tot0) pad B.length := by
        unfold extAmount; cases pad <;> simp
      rw [ham]
      have hane : extAmount maxlen (tot3 (frames.map List.length) tot0) pad B.length ≠ 0 := by
        unfold extAmount; cases pad <;> simp <;> omega
      rw [if_pos hane]
      by_cases h3 : tot3 (frames.map List.length) tot0 + (B.length : Int) +
          (extAmount maxlen (tot3 (frames.map List.length) tot0) pad B.length - 1) / 255 + 1 > maxlen
      · rw [if_pos h3, if_pos (Or.inr (Or.inr h3))]
      · have hrhs : ¬ (tot3 (frames.map List.length) tot0 > maxlen ∨
            maxlen - tot3 (frames.map List.length) tot0 < (B.length : Int) ∨
            tot3 (frames.map List.length) tot0 + (B.length : Int) +
            (extAmount maxlen (tot3 (frames.map List.length) tot0) pad B.length - 1) / 255 + 1 > maxlen) := by
          omega
        rw [if_neg h3, if_neg hrhs]
        have hlay : ¬ (tot3 (frames.map List.length) tot0 +
            extAmount maxlen (tot3 (frames.map List.length) tot0) pad B.length -
            (B.length : Int) <
            tot3 (frames.map List.length) tot0 +
            (extAmount maxlen (tot3 (frames.map List.length) tot0) pad B.length - 1) / 255 + 1) := by
          unfold extAmount at h3 ⊢; cases pad <;> simp at h3 ⊢ <;> omega
        rw [if_neg hlay, if_neg (by omega : ¬ (pad = true ∧ all.size = 0))]
        rw [if_pos (by omega : (0 : Int) < (B.length : Int))]
        have hgen' : generate false (B.length : Int) all (frames.length : Int) false = .ok B.toArray :=
          hG.gen B.length (Int.le_refl _)
        rw [hgen']
        simp only [List.size_toArray, if_true]
        simp only [extPad, Pad.hdr, vbrSizeBytes_eq]
        have e1 : (tot3 (frames.map List.length) tot0 +
            extAmount maxlen (tot3 (frames.map List.length) tot0) pad B.length -
            (B.length : Int) -
            (tot3 (frames.map List.length) tot0 +
            (extAmount maxlen (tot3 (frames.map List.length) tot0) pad B.length - 1) / 255 + 1)).toNat =
            (extAmount maxlen (tot3 (frames.map List.length) tot0) pad B.length -
            (B.length : Int) -
            (extAmount maxlen (tot3 (frames.map List.length) tot0) pad B.length - 1) / 255 - 1).toNat := by
          omega
        rw [e1]
        split <;> simp <;> omega
    · rw [if_neg hfit, if_pos (Or.inr (Or.inl (by omega)))]

end Opus.RepackProofs
