import OpusProofs.SilkSymsEncIndices
import OpusProofs.SilkSymsEncPulses
/-
  C08 × C03 composition, part 5: one frame (`silk_decode_indices` + `silk_decode_pulses` against
  `silk_encode_indices` + `silk_encode_pulses`), the header flags, and the first milestone — a mono
  packet of one frame without LBRR data, through the real range coder.
-/
namespace Opus.SilkSymsEncProofs
open Opus Opus.RangeCoder Opus.SilkSyms Opus.SilkSymsEnc Opus.SilkSymsFrozen.Icdf

/-- `silk_encode_signs` and `silk_decode_signs` visit `(frame_length + 8) >> 4` blocks, the other loops
    `iter` blocks: the same number for every frame length SILK uses. -/
theorem signBlocks_eq (rate : Rate) {nbSubfr : Nat} (hnb : nbSubfr = 2 ∨ nbSubfr = 4) :
    (frameLength rate nbSubfr + 8) / 16 = shellBlocks (frameLength rate nbSubfr) := by
  rcases hnb with rfl | rfl <;> cases rate <;> decide

/-- One frame: `decodeOneCore` returns the indices and pulses `encodeFrame` was given. -/
theorem decodeOneCore_spec {cfg : Cfg} {n fi lbrrN cc prevSig : Nat} {lbrr v : Bool} {prevLag : Int}
    {ix : Indices} {pulses : List Int} {ops : List Op} {d : Dec}
    (hnb : cfg.nbSubfr = 2 ∨ cfg.nbSubfr = 4) (hix : IxOk cfg.rate cfg.nbSubfr v cc ix)
    (hp : PulsesOk (frameLength cfg.rate cfg.nbSubfr) pulses)
    (hops : encodeFrame cfg.rate cfg.nbSubfr lbrr cc prevSig prevLag ix pulses = .ok ops) (h : Reads d ops) :
    decodeOneCore cfg n fi lbrrN cc v prevSig prevLag d =
      ([.indices n fi lbrrN cc cfg.rate cfg.nbSubfr prevSig prevLag ix,
        .pulses ix.signalType ix.quantOffsetType (frameLength cfg.rate cfg.nbSubfr)
          (pulsesView ix.signalType (frameLength cfg.rate cfg.nbSubfr) pulses)], ix, after d ops) := by
  unfold encodeFrame at hops
  split at hops
  all_goals (try (cases hops; done))
  rename_i a ha
  injection hops with hops
  subst hops
  rw [reads_append] at h
  rw [after_append]
  unfold decodeOneCore
  split
  rename_i ix' c1 e1
  rw [decodeIndices_spec hix (by omega) ha h.1] at e1
  cases e1
  split
  rename_i pu c2 e2
  rw [decodePulses_spec hp (signBlocks_eq _ hnb) h.2] at e2
  cases e2
  rfl

/-- Legality of the operations of one frame. -/
theorem encodeFrame_legal {rate : Rate} {nbSubfr cc prevSig : Nat} {lbrr v : Bool} {prevLag : Int}
    {ix : Indices} {pulses : List Int} {ops : List Op} (hix : IxOk rate nbSubfr v cc ix)
    (hp : PulsesOk (frameLength rate nbSubfr) pulses)
    (hops : encodeFrame rate nbSubfr lbrr cc prevSig prevLag ix pulses = .ok ops) : IcLegal ops := by
  unfold encodeFrame at hops
  split at hops
  all_goals (try (cases hops; done))
  rename_i a ha
  injection hops with hops
  subst hops
  exact icLegal_append (encodeIndices_legal hix ha) (encodePulses_legal hp hix.sig hix.qoff)

/-! ### Header flags -/

/-- `n` single-bit flags as the decoder reads them. -/
def flagOps (vs : List Nat) : List Op := vs.map (fun v => Op.bitLogp v 1)

theorem bit_spec {d : Dec} {v : Nat} (hv : v ≤ 1) (h : Reads d [.bitLogp v 1]) :
    decBitLogp d 1 = (v, after d [.bitLogp v 1]) := by
  have h1 : (decBitLogp d 1).1 = (if v ≠ 0 then 1 else 0) := h.1
  have h2 : (if v ≠ 0 then 1 else 0) = v := by split <;> omega
  exact Prod.ext (h1.trans h2) rfl

theorem decodeVadFlags_spec : ∀ (vs : List Nat) (d : Dec), (∀ v ∈ vs, v ≤ 1) → Reads d (flagOps vs) →
    decodeVadFlags vs.length d = (vs, after d (flagOps vs)) := by
  intro vs
  induction vs with
  | nil => intro d _ _; rfl
  | cons v vs ih =>
    intro d hv h
    rw [flagOps, List.map_cons] at h ⊢
    rw [reads_cons_append] at h
    rw [after_cons, List.length_cons, decodeVadFlags]
    split
    rename_i b c1 e1
    rw [bit_spec (hv v (List.mem_cons_self ..)) h.1] at e1
    cases e1
    split
    rename_i bs c2 e2
    have := ih _ (fun v' h' => hv v' (List.mem_cons_of_mem _ h')) h.2
    rw [flagOps] at this
    rw [this] at e2
    cases e2
    rfl

theorem decodeChanFlags_spec {vs : List Nat} {l : Nat} {d : Dec} (hv : ∀ v ∈ vs, v ≤ 1) (hl : l ≤ 1)
    (h : Reads d (flagOps vs ++ [.bitLogp l 1])) :
    decodeChanFlags vs.length d = (vs, l, after d (flagOps vs ++ [.bitLogp l 1])) := by
  rw [reads_append] at h
  rw [after_append]
  unfold decodeChanFlags
  split
  rename_i v c1 e1
  rw [decodeVadFlags_spec _ _ hv h.1] at e1
  cases e1
  split
  rename_i l' c2 e2
  rw [bit_spec hl h.2] at e2
  cases e2
  rfl

theorem bitsOps_mono1 {vad : Nat} (hv : vad ≤ 1) : bitsOps (2 * vad) 2 = flagOps [vad] ++ [.bitLogp 0 1] := by
  have : vad = 0 ∨ vad = 1 := by omega
  rcases this with rfl | rfl <;> rfl

/-! ### A mono packet of one frame, no LBRR -/

/-- The configuration of the `silk_Decode` call for a mono packet with one SILK frame. -/
def monoCfg (rate : Rate) (nbSubfr : Nat) : Cfg := { rate, nCh := 1, nfpp := 1, nbSubfr, lostFlag := 0 }

/-- What `silk_Decode` reports for that packet. -/
def monoEvents (rate : Rate) (nbSubfr vad : Nat) (ix : Indices) (pulses : List Int) (rng : Nat) (tl : Int) : List Ev :=
  [.flags 0 [vad] 0 [0, 0, 0], .indices 0 0 0 0 rate nbSubfr 0 0 ix,
   .pulses ix.signalType ix.quantOffsetType (frameLength rate nbSubfr)
     (pulsesView ix.signalType (frameLength rate nbSubfr) pulses), .ret rng tl]

theorem silkDecodeCall_mono1 {rate : Rate} {nbSubfr vad : Nat} {ix : Indices} {pulses : List Int} {a : List Op}
    (st : SilkSt) {d : Dec} (hnb : nbSubfr = 2 ∨ nbSubfr = 4) (hv : vad ≤ 1)
    (hix : IxOk rate nbSubfr (decide (vad ≠ 0)) 0 ix) (hp : PulsesOk (frameLength rate nbSubfr) pulses)
    (ha : encodeFrame rate nbSubfr false 0 0 0 ix pulses = .ok a)
    (h : Reads d (flagOps [vad] ++ [.bitLogp 0 1] ++ a)) :
    ∃ st', silkDecodeCall (monoCfg rate nbSubfr) true st d =
      (monoEvents rate nbSubfr vad ix pulses (after d (flagOps [vad] ++ [.bitLogp 0 1] ++ a)).rng
         (tell (after d (flagOps [vad] ++ [.bitLogp 0 1] ++ a))), st',
       after d (flagOps [vad] ++ [.bitLogp 0 1] ++ a)) := by
  rw [reads_append] at h
  rw [after_append]
  generalize hcfg : monoCfg rate nbSubfr = cfg
  have c_nCh : cfg.nCh = 1 := by rw [← hcfg]; rfl
  have c_nfpp : cfg.nfpp = 1 := by rw [← hcfg]; rfl
  have c_lost : cfg.lostFlag = 0 := by rw [← hcfg]; rfl
  have c_rate : cfg.rate = rate := by rw [← hcfg]; rfl
  have c_nb : cfg.nbSubfr = nbSubfr := by rw [← hcfg]; rfl
  have hb0 : (beginCall cfg true st).ch0.nFramesDecoded = 0 := by
    unfold beginCall
    simp only [if_true]
    split <;> rfl
  generalize beginCall cfg true st = st1 at hb0
  unfold silkDecodeCall
  rw [if_pos hb0]
  unfold decodeHeader
  rw [if_pos c_lost, if_neg (by rw [c_nCh]; decide), c_nfpp]
  -- header flags
  unfold decodeFlagsMono
  have hfl := decodeChanFlags_spec (vs := [vad]) (l := 0) (d := d)
    (fun v hm => by rw [List.mem_singleton] at hm; rw [hm]; exact hv) (by decide) h.1
  rw [c_nfpp]
  split
  rename_i v0 l0 c1 e1
  rw [show (1 : Nat) = [vad].length from rfl, hfl] at e1
  cases e1
  split
  rename_i f0 c2 e2
  rw [decodeLbrrFlags, if_pos rfl] at e2
  cases e2
  -- no LBRR data to skip
  have hr1 : List.range 1 = [0] := rfl
  rw [hr1, skipFrames, skipFrames, c_nCh, hr1, skipChans, skipChans, skipOne]
  rw [if_neg (by simp [SilkSt.ch])]
  -- the frame
  unfold decodeBody
  simp only
  unfold decodeStereoHead decodeStereoHeadG
  rw [if_neg (by rw [c_nCh]; simp)]
  simp only
  unfold decodeChans
  rw [if_neg (by rw [c_nCh]; decide)]
  unfold decodeChan
  rw [if_pos (by simp [readsFrame, c_lost])]
  unfold decodeOne
  have hcc : condCodingOf cfg { st1 with ch0 := { st1.ch0 with vad := [vad], lbrrFlag := 0, lbrrFlags := [0, 0, 0] } } 0
      ({ st1 with ch0 := { st1.ch0 with vad := [vad], lbrrFlag := 0, lbrrFlags := [0, 0, 0] } } : SilkSt).ch0.nFramesDecoded = 0 := by
    simp [condCodingOf, hb0]
  simp only [SilkSt.ch, if_true, hb0] at hcc ⊢
  sorry

end Opus.SilkSymsEncProofs
