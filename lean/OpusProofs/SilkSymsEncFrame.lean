import OpusProofs.SilkSymsEncIndices
import OpusProofs.SilkSymsEncPulses
/-
  C08 × C03 composition, part 5: one frame (`silk_decode_indices` + `silk_decode_pulses` against
  `silk_encode_indices` + `silk_encode_pulses`), the header flags, and the first milestone — a mono
  packet of one frame without LBRR data, through the real range coder.
-/
namespace Opus.SilkSymsEncProofs
open Opus Opus.RangeCoder Opus.SilkSyms Opus.SilkSymsEnc Opus.SilkSymsFrozen.Icdf

/-- `silk_encode_signs` and `silk_decode_signs` visit `(frame_length + 8) >> 4` blocks, the other loops
    `iter` blocks: the same number for every frame length SILK uses. -/
theorem signBlocks_eq (rate : Rate) {nbSubfr : Nat} (hnb : nbSubfr = 2 ∨ nbSubfr = 4) :
    (frameLength rate nbSubfr + 8) / 16 = shellBlocks (frameLength rate nbSubfr) := by
  rcases hnb with rfl | rfl <;> cases rate <;> decide +kernel

/-- One frame: `decodeOneCore` returns the indices and pulses `encodeFrame` was given. -/
theorem decodeOneCore_spec {cfg : Cfg} {n fi lbrrN cc prevSig : Nat} {lbrr v : Bool} {prevLag : Int}
    {ix : Indices} {pulses : List Int} {ops : List Op} {d : Dec}
    (hnb : cfg.nbSubfr = 2 ∨ cfg.nbSubfr = 4) (hix : IxOk cfg.rate cfg.nbSubfr v cc ix)
    (hp : PulsesOk (frameLength cfg.rate cfg.nbSubfr) pulses)
    (hops : encodeFrame cfg.rate cfg.nbSubfr lbrr cc prevSig prevLag ix pulses = .ok ops) (h : Reads d ops) :
    decodeOneCore cfg n fi lbrrN cc v prevSig prevLag d =
      ([.indices n fi lbrrN cc cfg.rate cfg.nbSubfr prevSig prevLag ix,
        .pulses ix.signalType ix.quantOffsetType (frameLength cfg.rate cfg.nbSubfr)
          (pulsesView ix.signalType (frameLength cfg.rate cfg.nbSubfr) pulses)], ix, after d ops) := by
  unfold encodeFrame at hops
  split at hops
  all_goals (try (cases hops; done))
  rename_i a ha
  injection hops with hops
  subst hops
  rw [reads_append] at h
  rw [after_append]
  unfold decodeOneCore
  split
  rename_i ix' c1 e1
  rw [decodeIndices_spec hix (by omega) ha h.1] at e1
  obtain ⟨rfl, rfl⟩ := Prod.mk.inj e1
  split
  rename_i pu c2 e2
  rw [decodePulses_spec hp (signBlocks_eq _ hnb) h.2] at e2
  obtain ⟨rfl, rfl⟩ := Prod.mk.inj e2
  rfl

/-- Legality of the operations of one frame. -/
theorem encodeFrame_legal {rate : Rate} {nbSubfr cc prevSig : Nat} {lbrr v : Bool} {prevLag : Int}
    {ix : Indices} {pulses : List Int} {ops : List Op} (hix : IxOk rate nbSubfr v cc ix)
    (hp : PulsesOk (frameLength rate nbSubfr) pulses)
    (hops : encodeFrame rate nbSubfr lbrr cc prevSig prevLag ix pulses = .ok ops) : IcLegal ops := by
  unfold encodeFrame at hops
  split at hops
  all_goals (try (cases hops; done))
  rename_i a ha
  injection hops with hops
  subst hops
  exact icLegal_append (encodeIndices_legal hix ha) (encodePulses_legal hp hix.sig hix.qoff)

/-! ### Header flags -/

/-- `n` single-bit flags as the decoder reads them. -/
def flagOps (vs : List Nat) : List Op := vs.map (fun v => Op.bitLogp v 1)

theorem bit_spec {d : Dec} {v : Nat} (hv : v ≤ 1) (h : Reads d [.bitLogp v 1]) :
    decBitLogp d 1 = (v, after d [.bitLogp v 1]) := by
  have h1 : (decBitLogp d 1).1 = (if v ≠ 0 then 1 else 0) := h.1
  have h2 : (if v ≠ 0 then 1 else 0) = v := by split <;> omega
  exact Prod.ext (h1.trans h2) rfl

theorem decodeVadFlags_spec : ∀ (vs : List Nat) (d : Dec), (∀ v ∈ vs, v ≤ 1) → Reads d (flagOps vs) →
    decodeVadFlags vs.length d = (vs, after d (flagOps vs)) := by
  intro vs
  induction vs with
  | nil => intro d _ _; rfl
  | cons v vs ih =>
    intro d hv h
    rw [flagOps, List.map_cons] at h ⊢
    rw [reads_cons_append] at h
    rw [after_cons, List.length_cons, decodeVadFlags]
    split
    rename_i b c1 e1
    rw [bit_spec (hv v (List.mem_cons_self ..)) h.1] at e1
    cases e1
    split
    rename_i bs c2 e2
    have := ih _ (fun v' h' => hv v' (List.mem_cons_of_mem _ h')) h.2
    rw [flagOps] at this
    rw [this] at e2
    cases e2
    rfl

theorem decodeChanFlags_spec {vs : List Nat} {l : Nat} {d : Dec} (hv : ∀ v ∈ vs, v ≤ 1) (hl : l ≤ 1)
    (h : Reads d (flagOps vs ++ [.bitLogp l 1])) :
    decodeChanFlags vs.length d = (vs, l, after d (flagOps vs ++ [.bitLogp l 1])) := by
  rw [reads_append] at h
  rw [after_append]
  unfold decodeChanFlags
  split
  rename_i v c1 e1
  rw [decodeVadFlags_spec _ _ hv h.1] at e1
  cases e1
  split
  rename_i l' c2 e2
  rw [bit_spec hl h.2] at e2
  cases e2
  rfl

theorem bitsOps_mono1 {vad : Nat} (hv : vad ≤ 1) : bitsOps (2 * vad) 2 = flagOps [vad] ++ [.bitLogp 0 1] := by
  have : vad = 0 ∨ vad = 1 := by omega
  rcases this with rfl | rfl <;> rfl

/-! ### `silk_Decode` for one channel (the control flow around the frame) -/

theorem decodeStereoHead_mono {cfg : Cfg} (hc : cfg.nCh = 1) (st : SilkSt) (dom : Nat) (c : Dec) :
    decodeStereoHead cfg st dom c = (dom, c, []) := by
  unfold decodeStereoHead decodeStereoHeadG
  rw [if_neg (by rw [hc]; intro h; exact absurd h.1 (by decide))]

theorem decodeChans_mono {cfg : Cfg} (hc : cfg.nCh = 1) (hs : Bool) (st : SilkSt) (c : Dec) :
    decodeChans cfg hs st c = decodeChan cfg hs 0 st c := by
  unfold decodeChans
  split
  rename_i e0 st1 c1 he
  rw [if_neg (by rw [hc]; decide), he]

theorem decodeBody_mono {cfg : Cfg} (hc : cfg.nCh = 1) (h : SkipSt) {e2 : List Ev} {st2 : SilkSt} {c2 : Dec}
    (hch : decodeChan cfg (hasSideOf cfg h.st h.dom) 0 h.st h.c = (e2, st2, c2)) :
    decodeBody cfg h = (h.evs ++ [] ++ e2 ++ [.ret c2.rng (tell c2)], { st2 with prevDecodeOnlyMiddle := h.dom }, c2) := by
  unfold decodeBody
  split
  rename_i dom c1 e1 he1
  rw [decodeStereoHead_mono hc] at he1
  cases he1
  split
  rename_i e2' st2' c2' he2
  rw [decodeChans_mono hc, hch] at he2
  cases he2
  rfl

theorem decide_false_or (p : Prop) [Decidable p] : decide ((0 : Nat) ≠ 0 ∨ p) = decide p := by simp

/-- The first frame of the mid channel in normal decoding: coded independently. -/
theorem decodeChan_first {cfg : Cfg} (hl : cfg.lostFlag = 0) (hs : Bool) (st : SilkSt) (c : Dec)
    (h0 : st.ch0.nFramesDecoded = 0) {evs : List Ev} {ix : Indices} {c' : Dec}
    (hone : decodeOneCore cfg 0 0 0 0 (decide (st.ch0.vad.getD 0 0 ≠ 0)) 0 0 c = (evs, ix, c')) :
    ∃ st', decodeChan cfg hs 0 st c = (evs, st', c') := by
  unfold decodeChan
  have hch : st.ch 0 = st.ch0 := rfl
  rw [if_pos (by simp [readsFrame, hl]), hch, h0, hl]
  have hcc : condCodingOf cfg st 0 0 = 0 := rfl
  rw [hcc]
  unfold decodeOne
  rw [decide_false_or, if_neg (by decide), if_neg (fun hh => absurd hh.1 (by decide)), hone]
  exact ⟨_, rfl⟩

/-- Decoder state after the header of a mono one-frame packet without LBRR data. -/
def mono1St (st1 : SilkSt) (vad : Nat) : SilkSt :=
  { st1 with ch0 := { st1.ch0 with vad := [vad], lbrrFlag := 0, lbrrFlags := [0, 0, 0] } }

theorem decodeHeader_mono1 {cfg : Cfg} (hc : cfg.nCh = 1) (hf : cfg.nfpp = 1) (hl : cfg.lostFlag = 0) (st1 : SilkSt)
    {vad : Nat} {d : Dec} (hv : vad ≤ 1) (h : Reads d (flagOps [vad] ++ [.bitLogp 0 1])) :
    decodeHeader cfg st1 d =
      { st := mono1St st1 vad, dom := 0,
        c := after d (flagOps [vad] ++ [.bitLogp 0 1]), evs := [.flags 0 [vad] 0 [0, 0, 0]] } := by
  have hfl := decodeChanFlags_spec (vs := [vad]) (l := 0) (d := d)
    (fun v hm => by rw [List.mem_singleton] at hm; rw [hm]; exact hv) (by decide) h
  have hr1 : List.range 1 = [0] := rfl
  unfold decodeHeader
  rw [if_pos hl, if_neg (by rw [hc]; decide), hf, hr1]
  unfold decodeFlagsMono
  rw [hf]
  split
  rename_i v0 l0 c1 e1
  rw [show (1 : Nat) = [vad].length from rfl, hfl] at e1
  cases e1
  split
  rename_i f0 c2 e2
  rw [decodeLbrrFlags, if_pos rfl] at e2
  cases e2
  rw [skipFrames, skipFrames, hc, hr1, skipChans, skipChans, skipOne]
  rw [if_neg (by simp [SilkSt.ch])]
  rfl

/-! ### A mono packet of one frame, no LBRR -/

/-- The configuration of the `silk_Decode` call for a mono packet with one SILK frame. -/
def monoCfg (rate : Rate) (nbSubfr : Nat) : Cfg := { rate, nCh := 1, nfpp := 1, nbSubfr, lostFlag := 0 }

/-- What `silk_Decode` reports for that packet. -/
def monoEvents (rate : Rate) (nbSubfr vad : Nat) (ix : Indices) (pulses : List Int) (rng : Nat) (tl : Int) : List Ev :=
  [.flags 0 [vad] 0 [0, 0, 0], .indices 0 0 0 0 rate nbSubfr 0 0 ix,
   .pulses ix.signalType ix.quantOffsetType (frameLength rate nbSubfr)
     (pulsesView ix.signalType (frameLength rate nbSubfr) pulses), .ret rng tl]

theorem silkDecodeCall_mono1 {rate : Rate} {nbSubfr vad : Nat} {ix : Indices} {pulses : List Int} {a : List Op}
    (st : SilkSt) {d : Dec} (hnb : nbSubfr = 2 ∨ nbSubfr = 4) (hv : vad ≤ 1)
    (hix : IxOk rate nbSubfr (decide (vad ≠ 0)) 0 ix) (hp : PulsesOk (frameLength rate nbSubfr) pulses)
    (ha : encodeFrame rate nbSubfr false 0 0 0 ix pulses = .ok a)
    (h : Reads d (flagOps [vad] ++ [.bitLogp 0 1] ++ a)) :
    ∃ st', silkDecodeCall (monoCfg rate nbSubfr) true st d =
      (monoEvents rate nbSubfr vad ix pulses (after d (flagOps [vad] ++ [.bitLogp 0 1] ++ a)).rng
         (tell (after d (flagOps [vad] ++ [.bitLogp 0 1] ++ a))), st',
       after d (flagOps [vad] ++ [.bitLogp 0 1] ++ a)) := by
  rw [reads_append] at h
  rw [after_append]
  have hb0 : (beginCall (monoCfg rate nbSubfr) true st).ch0.nFramesDecoded = 0 := by
    unfold beginCall
    simp only [if_true]
  unfold silkDecodeCall
  generalize beginCall (monoCfg rate nbSubfr) true st = st1 at hb0 ⊢
  rw [if_pos hb0, decodeHeader_mono1 (cfg := monoCfg rate nbSubfr) rfl rfl rfl st1 hv h.1]
  have hone := decodeOneCore_spec (cfg := monoCfg rate nbSubfr) (n := 0) (fi := 0) (lbrrN := 0) (lbrr := false)
    (v := decide (vad ≠ 0)) hnb hix hp ha h.2
  have hone' : decodeOneCore (monoCfg rate nbSubfr) 0 0 0 0 (decide ((mono1St st1 vad).ch0.vad.getD 0 0 ≠ 0)) 0 0
      (after d (flagOps [vad] ++ [.bitLogp 0 1])) = _ := hone
  obtain ⟨st', hch⟩ := decodeChan_first (cfg := monoCfg rate nbSubfr) rfl
    (hasSideOf (monoCfg rate nbSubfr) (mono1St st1 vad) 0) (mono1St st1 vad)
    (after d (flagOps [vad] ++ [.bitLogp 0 1])) hb0 hone'
  rw [decodeBody_mono (cfg := monoCfg rate nbSubfr) rfl _ hch]
  exact ⟨_, rfl⟩

/-! ### Through the real range coder -/

theorem placeholder_eq (k : Nat) : placeholder k = .icdf 0 (flagTable k) 8 := rfl

theorem lastPatch_ic (t v n : Nat) : ∀ (ops : List Op), IcLegal ops → lastPatch t (ops ++ [.patchInitial v n]) = v := by
  intro ops
  induction ops with
  | nil => intro _; rfl
  | cons op ops ih =>
    intro h
    rcases h op (List.mem_cons_self ..) with ⟨s, tbl, rfl, _, _⟩
    rw [List.cons_append, lastPatch]
    exact ih (fun o ho => h o (List.mem_cons_of_mem _ ho))

theorem after_patch (c : Dec) (v n : Nat) : after c [.patchInitial v n] = c := rfl

theorem tell_congr {a b : Ctx} (h1 : a.rng = b.rng) (h2 : a.nbitsTotal = b.nbitsTotal) : tell a = tell b := by
  unfold tell; rw [h1, h2]

/-- Milestone: a mono packet of one SILK frame without LBRR data.  For every index/pulse assignment in the
    encoder's domain, any buffer, `error = 0` after `ec_enc_done`: C03's decoder model run on the bytes the
    encoder model produces reports exactly the VAD flag, the indices and the pulses that were encoded, and
    ends with the encoder's `rng` and `ec_tell`. -/
theorem silk_syms_roundtrip_frame_all (buf : List Nat) (size : Nat) (rate : Rate) (nbSubfr vad : Nat) (ix : Indices)
    (pulses : List Int) (ops : List Op) (st : SilkSt) (hs : size ≤ buf.length) (hb : BytesOk buf)
    (hnb : nbSubfr = 2 ∨ nbSubfr = 4) (hv : vad ≤ 1) (hix : IxOk rate nbSubfr (decide (vad ≠ 0)) 0 ix)
    (hp : PulsesOk (frameLength rate nbSubfr) pulses) (hops : encodeMonoFrame rate nbSubfr vad ix pulses = .ok ops)
    (hnbits : (encodeAll buf size ops).nbitsTotal < 4294967296) (herr : (encodeAll buf size ops).error = 0) :
    (silkDecodeCall (monoCfg rate nbSubfr) true st
        (decInit ((encodeAll buf size ops).buf.take (encodeAll buf size ops).storage) (encodeAll buf size ops).storage)).1 =
      monoEvents rate nbSubfr vad ix pulses (encRun (encInit buf size) ops).rng (tell (encRun (encInit buf size) ops)) ∧
    (silkDecodeCall (monoCfg rate nbSubfr) true st
        (decInit ((encodeAll buf size ops).buf.take (encodeAll buf size ops).storage) (encodeAll buf size ops).storage)).2.2.error = 0 ∧
    (silkDecodeCall (monoCfg rate nbSubfr) true st
        (decInit ((encodeAll buf size ops).buf.take (encodeAll buf size ops).storage) (encodeAll buf size ops).storage)).2.2.rng =
      (encRun (encInit buf size) ops).rng ∧
    (silkDecodeCall (monoCfg rate nbSubfr) true st
        (decInit ((encodeAll buf size ops).buf.take (encodeAll buf size ops).storage) (encodeAll buf size ops).storage)).2.2.nbitsTotal =
      (encRun (encInit buf size) ops).nbitsTotal := by
  unfold encodeMonoFrame at hops
  split at hops
  all_goals (try (cases hops; done))
  rename_i a ha
  injection hops with hops
  subst hops
  rw [placeholder_eq] at hnbits herr ⊢
  have hleg := encodeFrame_legal hix hp ha
  have hl : LegalRunP 2 (encOp (encInit buf size) (.icdf 0 (flagTable 2) 8)) (a ++ [.patchInitial (2 * vad) 2]) :=
    legalRunP_of_ic 2 (2 * vad) (by omega) a _ hleg
  have h12 : 1 ≤ 2 := by decide
  have h28 : 2 ≤ 8 := by decide
  have k1 := decode_encode_flags_all buf size 2 (a ++ [.patchInitial (2 * vad) 2]) hs hb h12 h28
  have k2 := k1 hl
  have k3 := k2 hnbits
  have key := k3 herr
  clear k1 k2 k3
  generalize decInit ((encodeAll buf size (.icdf 0 (flagTable 2) 8 :: (a ++ [.patchInitial (2 * vad) 2]))).buf.take
    (encodeAll buf size (.icdf 0 (flagTable 2) 8 :: (a ++ [.patchInitial (2 * vad) 2]))).storage)
    (encodeAll buf size (.icdf 0 (flagTable 2) 8 :: (a ++ [.patchInitial (2 * vad) 2]))).storage = d0 at key ⊢
  rw [lastPatch_ic 0 (2 * vad) 2 a hleg, bitsOps_mono1 hv] at key
  rcases key with ⟨hm, hall⟩
  rw [← reads_iff, ← List.append_assoc, reads_append] at hm
  rw [← after_eq, ← List.append_assoc, after_append, after_patch] at hall
  obtain ⟨st', hcall⟩ := silkDecodeCall_mono1 st hnb hv hix hp ha hm.1
  rw [hcall]
  refine ⟨?_, hall.err, hall.rc.rng_eq, hall.rc.nbits_eq⟩
  show monoEvents _ _ _ _ _ _ _ = monoEvents _ _ _ _ _ _ _
  rw [hall.rc.rng_eq, tell_congr hall.rc.rng_eq hall.rc.nbits_eq]

end Opus.SilkSymsEncProofs
