import OpusProofs.SilkParamsStab
import Mathlib.Tactic.Linarith
/-
  OpusProofs.SilkParamsRangeBasic — vocabulary and elementary facts for the 32-bit range lemmas
  of property C18 ("the unbounded `Int` arithmetic of the model never hides a C overflow").

  Method.  For every modelled C function `f` there is a *trace* function `fTrace` (defined next to
  the range lemma, in terms of the model's own sub-functions) that lists, in program order, every
  value the C function computes in an `int` / `opus_int32` object or sub-expression: the operand
  of every explicit narrowing cast the model represents by `wrap32` (so `I32 v` says the cast is
  the identity) and the result of every plain C `+ - *` that the model represents by the
  unbounded operation (so `I32 v` says there is no signed overflow).  The range lemma is
  `∀ v ∈ fTrace args, I32 v` on the stated input domain.  Values that the C code computes in 64
  bits (`silk_SMULL`, the products inside `silk_SMULWW`, `silk_RSHIFT_ROUND64`) are listed in
  separate `…Trace64` lists where they are not obviously below `2^63`.
-/
namespace Opus.SilkParams

/-- `x` is representable as `opus_int32`. -/
def I32 (x : Int) : Prop := -2147483648 ≤ x ∧ x ≤ 2147483647

instance (x : Int) : Decidable (I32 x) := by unfold I32; infer_instance

/-- `x` is representable as `opus_int64`. -/
def I64 (x : Int) : Prop := -9223372036854775808 ≤ x ∧ x ≤ 9223372036854775807

instance (x : Int) : Decidable (I64 x) := by unfold I64; infer_instance

theorem wrap32_id {x : Int} (h : I32 x) : wrap32 x = x := by
  unfold I32 at h; unfold wrap32; omega

theorem I32_of_abs {x b : Int} (h1 : -b ≤ x) (h2 : x ≤ b) (hb : b ≤ 2147483647) : I32 x := by
  unfold I32; omega

theorem I16_I32 {x : Int} (h : I16 x) : I32 x := by unfold I16 at h; unfold I32; omega

theorem sabs_nonneg (x : Int) : 0 ≤ sabs x := by unfold sabs; split <;> omega

theorem sabs_le {x b : Int} (h1 : -b ≤ x) (h2 : x ≤ b) : sabs x ≤ b := by
  unfold sabs; split <;> omega

theorem le_sabs (x : Int) : x ≤ sabs x ∧ -x ≤ sabs x := by unfold sabs; split <;> omega

theorem pow2_4 : ((2 : Int) ^ 4) = 16 := by decide
theorem pow2_15 : ((2 : Int) ^ 15) = 32768 := by decide
theorem pow2_14 : ((2 : Int) ^ 14) = 16384 := by decide
theorem rpow2_2 : ((2 : Int) ^ 2) = 4 := by decide

/-- `silk_RSHIFT_ROUND(a, 5)` is `floor((a + 16) / 32)`. -/
theorem rshiftRound5 (a : Int) : rshiftRound a 5 = (a + 16) / 32 := by
  unfold rshiftRound
  rw [if_neg (by decide)]
  show (a / (2 : Int) ^ 4 + 1) / 2 = (a + 16) / 32
  rw [pow2_4]; omega

/-- `silk_RSHIFT_ROUND(a, 16)` is `floor((a + 32768) / 65536)`. -/
theorem rshiftRound16 (a : Int) : rshiftRound a 16 = (a + 32768) / 65536 := by
  unfold rshiftRound
  rw [if_neg (by decide)]
  show (a / (2 : Int) ^ 15 + 1) / 2 = (a + 32768) / 65536
  rw [pow2_15]; omega

/-- `silk_RSHIFT_ROUND(a, 4)` is `floor((a + 8) / 16)`. -/
theorem rshiftRound4 (a : Int) : rshiftRound a 4 = (a + 8) / 16 := by
  unfold rshiftRound
  rw [if_neg (by decide)]
  show (a / (2 : Int) ^ 3 + 1) / 2 = (a + 8) / 16
  have : ((2 : Int) ^ 3) = 8 := by decide
  rw [this]; omega

/-- The operand of the `(opus_int16)` cast `silk_RSHIFT_ROUND(a, 5)` fits int16 exactly on this
    interval. -/
theorem rshiftRound5_I16_iff (a : Int) : I16 (rshiftRound a 5) ↔ (-1048592 ≤ a ∧ a ≤ 1048559) := by
  rw [rshiftRound5]; unfold I16; omega

/-- `(c * x) >> 16` for a Q16 factor `0 ≤ c ≤ 1` moves `x` towards zero (never past it). -/
theorem mulshift16_between (c x : Int) (h0 : 0 ≤ c) (h1 : c ≤ 65536) :
    min x 0 ≤ c * x / 65536 ∧ c * x / 65536 ≤ max x 0 := by
  rcases Int.le_total 0 x with hx | hx
  · have h2 : 0 ≤ c * x := Int.mul_nonneg h0 hx
    have h3 : c * x ≤ x * 65536 := by nlinarith
    have h4 : c * x / 65536 ≤ x := Int.ediv_le_of_le_mul (by decide) h3
    have h5 : 0 ≤ c * x / 65536 := Int.ediv_nonneg h2 (by decide)
    omega
  · have h2 : c * x ≤ 0 := by nlinarith
    have h3 : x * 65536 ≤ c * x := by nlinarith
    have h4 : x ≤ c * x / 65536 := Int.le_ediv_of_mul_le (by decide) h3
    have h5 : c * x / 65536 ≤ 0 := by
      have := Int.ediv_le_ediv (a := c * x) (b := 0) (c := 65536) (by decide) h2
      simpa using this
    omega

end Opus.SilkParams
