import OpusProofs.RangeCoderStream
/-
  C08: two representations of a pending first digit 0xFF.

  `ec_enc_carry_out` buffers a digit 0xFF by counting it in `ext`; `ec_enc_patch_initial_bits` may turn the digit
  held in `rem` into 0xFF (`rem = 255`, a value `ec_enc_carry_out` itself only produces together with a carry).
  Both states mean the same digits.  `canon` maps the second representation to the first; every encoder
  function commutes with it up to `canon` (`Near`), so two runs from `canon`-equal states stay `canon`-equal and
  `ec_enc_done` produces the same bytes (OpusProofs/RangeCoderTwin.lean uses this for the patched stream).
-/
namespace Opus.RangeCoder

def canon (c : Enc) : Enc := if c.rem = 255 then { c with rem := -1, ext := u32 (c.ext + 1) } else c

/-- `b` is `a` or its canonical form -/
def Near (a b : Enc) : Prop := b = a ∨ b = canon a

theorem canon_idem (c : Enc) : canon (canon c) = canon c := by
  by_cases h : c.rem = 255
  · have : canon c = { c with rem := -1, ext := u32 (c.ext + 1) } := by unfold canon; rw [if_pos h]
    rw [this]; unfold canon; rw [if_neg (by simp)]
  · have : canon c = c := by unfold canon; rw [if_neg h]
    rw [this, this]

theorem Near.canon_eq {a b : Enc} (h : Near a b) : canon b = canon a := by
  rcases h with rfl | rfl
  · rfl
  · exact canon_idem a

theorem canon_of_ne {c : Enc} (h : c.rem ≠ 255) : canon c = c := by unfold canon; rw [if_neg h]

section fields
variable (c : Enc)
@[simp] theorem canon_buf : (canon c).buf = c.buf := by unfold canon; split <;> rfl
@[simp] theorem canon_storage : (canon c).storage = c.storage := by unfold canon; split <;> rfl
@[simp] theorem canon_endOffs : (canon c).endOffs = c.endOffs := by unfold canon; split <;> rfl
@[simp] theorem canon_endWindow : (canon c).endWindow = c.endWindow := by unfold canon; split <;> rfl
@[simp] theorem canon_nendBits : (canon c).nendBits = c.nendBits := by unfold canon; split <;> rfl
@[simp] theorem canon_nbitsTotal : (canon c).nbitsTotal = c.nbitsTotal := by unfold canon; split <;> rfl
@[simp] theorem canon_offs : (canon c).offs = c.offs := by unfold canon; split <;> rfl
@[simp] theorem canon_rng : (canon c).rng = c.rng := by unfold canon; split <;> rfl
@[simp] theorem canon_val : (canon c).val = c.val := by unfold canon; split <;> rfl
@[simp] theorem canon_error : (canon c).error = c.error := by unfold canon; split <;> rfl
end fields

/-- updates of fields other than `rem`, `ext` commute with `canon` -/
theorem canon_with_vr (c : Enc) (v r : Nat) :
    canon { c with val := v, rng := r } = { canon c with val := v, rng := r } := by
  unfold canon; split <;> rfl
theorem canon_with_r (c : Enc) (r : Nat) : canon { c with rng := r } = { canon c with rng := r } := by
  unfold canon; split <;> rfl
theorem canon_with_vrn (c : Enc) (v r n : Nat) :
    canon { c with val := v, rng := r, nbitsTotal := n } = { canon c with val := v, rng := r, nbitsTotal := n } := by
  unfold canon; split <;> rfl

/-! ### `ec_enc_carry_out` -/

theorem writeByte_with_rem_ext (c : Enc) (x : Int) (y v : Nat) :
    writeByte { c with rem := x, ext := y } v = { writeByte c v with rem := x, ext := y } := by
  unfold writeByte; split <;> rfl

theorem writeByte_with_rem (c : Enc) (x : Int) (v : Nat) :
    writeByte { c with rem := x } v = { writeByte c v with rem := x } := by
  unfold writeByte; split <;> rfl

theorem flushExt_with_rem (sym : Nat) (x : Int) : ∀ (n : Nat) (c : Enc),
    flushExt sym n { c with rem := x } = { flushExt sym n c with rem := x }
  | 0, _ => rfl
  | n + 1, c => by
    unfold flushExt
    rw [writeByte_with_rem]
    exact flushExt_with_rem sym x n { writeByte c sym with ext := n }

theorem with_ext_self (c : Enc) (e : Nat) (h : c.ext = e) : ({ c with ext := e } : Enc) = c := by
  subst h; rfl

theorem writeByte_mod (c : Enc) (v : Nat) : writeByte c (v % 256) = writeByte c v := by
  unfold writeByte; split
  · rfl
  · rw [Nat.mod_mod]

theorem carryOut_255 (c : Enc) : carryOut c 255 = { c with ext := u32 (c.ext + 1) } := by
  unfold carryOut; rw [if_neg (by decide)]

theorem carryOut_ne (c : Enc) (cc : Nat) (h : cc ≠ 255) : carryOut c cc =
    { (if (if c.rem ≥ 0 then writeByte c (c.rem.toNat + cc / 256) else c).ext > 0 then
        flushExt ((255 + cc / 256) % 256) (if c.rem ≥ 0 then writeByte c (c.rem.toNat + cc / 256) else c).ext
          (if c.rem ≥ 0 then writeByte c (c.rem.toNat + cc / 256) else c)
       else (if c.rem ≥ 0 then writeByte c (c.rem.toNat + cc / 256) else c)) with rem := ((cc % 256 : Nat) : Int) } := by
  unfold carryOut; rw [if_pos h]

theorem canon_255 (c : Enc) (hrem : c.rem = 255) (hext : c.ext + 1 < 4294967296) :
    canon c = { c with rem := -1, ext := c.ext + 1 } := by
  unfold canon; rw [if_pos hrem]
  have : u32 (c.ext + 1) = c.ext + 1 := Nat.mod_eq_of_lt hext
  rw [this]

/-- with a pending 0xFF in `rem`, a carry-out gives the same state from both representations -/
theorem carryOut_canon (c : Enc) (cc : Nat) (hrem : c.rem = 255) (hext : c.ext + 1 < 4294967296) :
    carryOut (canon c) cc = if cc = 255 then canon (carryOut c cc) else carryOut c cc := by
  have hc := canon_255 c hrem hext
  by_cases h255 : cc = 255
  · rw [if_pos h255]
    subst h255
    rw [carryOut_255, carryOut_255]
    have h2 : ({ c with ext := u32 (c.ext + 1) } : Enc).rem = 255 := hrem
    unfold canon
    rw [if_pos hrem, if_pos h2]
  · rw [if_neg h255, carryOut_ne _ _ h255, carryOut_ne _ _ h255, hc]
    have hneg : ¬ (({ c with rem := -1, ext := c.ext + 1 } : Enc).rem ≥ 0) := by show ¬ ((-1 : Int) ≥ 0); decide
    rw [if_neg hneg, if_pos (by omega : c.rem ≥ 0)]
    have hpos : ({ c with rem := -1, ext := c.ext + 1 } : Enc).ext > 0 := by show c.ext + 1 > 0; omega
    rw [if_pos hpos]
    have hw : writeByte c (c.rem.toNat + cc / 256) = writeByte c ((255 + cc / 256) % 256) := by
      have : c.rem.toNat = 255 := by omega
      rw [this, writeByte_mod]
    rw [hw]
    generalize (255 + cc / 256) % 256 = sym
    have hstep : flushExt sym (c.ext + 1) ({ c with rem := -1, ext := c.ext + 1 } : Enc) =
        flushExt sym c.ext { writeByte ({ c with rem := -1, ext := c.ext + 1 } : Enc) sym with ext := c.ext } := rfl
    have e0 : ({ c with rem := -1, ext := c.ext + 1 } : Enc).ext = c.ext + 1 := rfl
    rw [e0, hstep, writeByte_with_rem_ext]
    have e1 : ({ ({ writeByte c sym with rem := -1, ext := c.ext + 1 } : Enc) with ext := c.ext } : Enc) =
        { writeByte c sym with rem := -1 } := by
      have h3 := with_ext_self (writeByte c sym) c.ext (writeByte_ext c sym)
      generalize writeByte c sym = x at h3 ⊢
      cases x
      simp only [Ctx.mk.injEq] at h3 ⊢
      simp only [true_and, and_true] at h3 ⊢
      exact h3.symm ▸ rfl
    rw [e1, flushExt_with_rem]
    by_cases he : c.ext > 0
    · have : (writeByte c sym).ext > 0 := by rw [writeByte_ext]; exact he
      rw [if_pos this, writeByte_ext]
    · have h0 : c.ext = 0 := by omega
      have : ¬ (writeByte c sym).ext > 0 := by rw [writeByte_ext]; omega
      rw [if_neg this, h0]
      rfl

theorem carryOut_near (c : Enc) (cc : Nat) (hext : c.ext + 1 < 4294967296) :
    Near (carryOut c cc) (carryOut (canon c) cc) := by
  by_cases hrem : c.rem = 255
  · rw [carryOut_canon c cc hrem hext]
    split
    · exact Or.inr rfl
    · exact Or.inl rfl
  · rw [canon_of_ne hrem]; exact Or.inl rfl

/-! ### Normalisation -/

/-- the `ext` counter is bounded through `nbits_total` (8 bits per buffered digit) -/
def ExtB (c : Enc) : Prop := 8 * c.ext + 33 ≤ c.nbitsTotal

theorem flushExt_ext_le (sym : Nat) : ∀ (n : Nat) (c : Enc), n ≤ c.ext → (flushExt sym n c).ext ≤ c.ext
  | 0, _, _ => Nat.le_refl _
  | n + 1, c, h => by
    unfold flushExt
    have h2 := flushExt_ext_le sym n { writeByte c sym with ext := n } (Nat.le_refl _)
    have h3 : ({ writeByte c sym with ext := n } : Enc).ext = n := rfl
    omega

theorem carryOut_ext_le (c : Enc) (cc : Nat) : (carryOut c cc).ext ≤ c.ext + 1 := by
  by_cases h : cc = 255
  · subst h; rw [carryOut_255]; exact Nat.le_trans (Nat.mod_le _ _) (Nat.le_refl _)
  · rw [carryOut_ne _ _ h]
    have h2 : (if c.rem ≥ 0 then writeByte c (c.rem.toNat + cc / 256) else c).ext = c.ext := by
      by_cases hr : c.rem ≥ 0
      · rw [if_pos hr]; exact writeByte_ext _ _
      · rw [if_neg hr]
    generalize (if c.rem ≥ 0 then writeByte c (c.rem.toNat + cc / 256) else c) = c1 at h2 ⊢
    show (if c1.ext > 0 then flushExt ((255 + cc / 256) % 256) c1.ext c1 else c1).ext ≤ c.ext + 1
    by_cases he : c1.ext > 0
    · rw [if_pos he]
      have := flushExt_ext_le ((255 + cc / 256) % 256) c1.ext c1 (Nat.le_refl _)
      omega
    · rw [if_neg he]; omega

theorem extB_normStep (c : Enc) (h : ExtB c) : ExtB (normStep c) := by
  unfold ExtB at h ⊢
  have := carryOut_ext_le c (c.val / 8388608)
  show 8 * (carryOut c (c.val / 8388608)).ext + 33 ≤ c.nbitsTotal + 8
  omega

theorem normStep_near (c : Enc) (hext : c.ext + 1 < 4294967296) : Near (normStep c) (normStep (canon c)) := by
  unfold normStep
  rw [canon_val, canon_rng, canon_nbitsTotal]
  rcases carryOut_near c (c.val / 8388608) hext with h | h
  · rw [h]; exact Or.inl rfl
  · rw [h, ← canon_with_vrn]; exact Or.inr rfl

theorem encNormalize_near (c : Enc) (hB : ExtB c) (hn : (encNormalize c).nbitsTotal < 4294967296) :
    Near (encNormalize c) (encNormalize (canon c)) := by
  induction hm : 8388609 - c.rng using Nat.strongRecOn generalizing c with
  | _ m ih =>
    by_cases hc : 0 < c.rng ∧ c.rng ≤ 8388608
    · have hc' : 0 < (canon c).rng ∧ (canon c).rng ≤ 8388608 := by rw [canon_rng]; exact hc
      rw [encNormalize_step c hc] at hn ⊢
      rw [encNormalize_step (canon c) hc']
      have hnb := encNormalize_nbits_ge (normStep c)
      have hnb2 : (normStep c).nbitsTotal = c.nbitsTotal + 8 := rfl
      have hext : c.ext + 1 < 4294967296 := by unfold ExtB at hB; omega
      have hr : (normStep c).rng = u32 (c.rng * 256) := rfl
      have hr2 : u32 (c.rng * 256) = c.rng * 256 := Nat.mod_eq_of_lt (by omega)
      rcases normStep_near c hext with h | h
      · rw [h]; exact Or.inl rfl
      · rw [h]
        exact ih (8388609 - (normStep c).rng) (by rw [hr, hr2]; omega) (normStep c) (extB_normStep c hB) hn rfl
    · have hc' : ¬ (0 < (canon c).rng ∧ (canon c).rng ≤ 8388608) := by rw [canon_rng]; exact hc
      rw [encNormalize_done c hc, encNormalize_done (canon c) hc']
      exact Or.inr rfl

/-! ### The operations -/

def setVR (c : Enc) (v r : Nat) : Enc := { c with val := v, rng := r }

theorem canon_setVR (c : Enc) (v r : Nat) : canon (setVR c v r) = setVR (canon c) v r := by
  unfold canon setVR; split <;> rfl

theorem setVR_near (c : Enc) (v r : Nat) (hB : ExtB c) (hn : (encNormalize (setVR c v r)).nbitsTotal < 4294967296) :
    Near (encNormalize (setVR c v r)) (encNormalize (setVR (canon c) v r)) := by
  rw [← canon_setVR]
  exact encNormalize_near _ hB hn

theorem encode_form (c : Enc) (fl fh ft : Nat) : encode c fl fh ft = encNormalize (setVR c
    (if fl > 0 then add32 c.val (sub32 c.rng (mul32 (udiv c.rng ft) (sub32 ft fl))) else c.val)
    (if fl > 0 then mul32 (udiv c.rng ft) (sub32 fh fl) else sub32 c.rng (mul32 (udiv c.rng ft) (sub32 ft fh)))) := by
  by_cases h : fl > 0
  · simp only [encode, setVR, if_pos h]
  · simp only [encode, setVR, if_neg h]

theorem encodeBin_form (c : Enc) (fl fh bits : Nat) : encodeBin c fl fh bits = encNormalize (setVR c
    (if fl > 0 then add32 c.val (sub32 c.rng (mul32 (c.rng / 2 ^ bits) (sub32 (u32 (2 ^ bits)) fl))) else c.val)
    (if fl > 0 then mul32 (c.rng / 2 ^ bits) (sub32 fh fl)
     else sub32 c.rng (mul32 (c.rng / 2 ^ bits) (sub32 (u32 (2 ^ bits)) fh)))) := by
  by_cases h : fl > 0
  · simp only [encodeBin, setVR, if_pos h]
  · simp only [encodeBin, setVR, if_neg h]

theorem encBitLogp_form (c : Enc) (v logp : Nat) : encBitLogp c v logp = encNormalize (setVR c
    (if v ≠ 0 then add32 c.val (sub32 c.rng (c.rng / 2 ^ logp)) else c.val)
    (if v ≠ 0 then c.rng / 2 ^ logp else sub32 c.rng (c.rng / 2 ^ logp))) := by
  by_cases h : v ≠ 0
  · simp only [encBitLogp, setVR, if_pos h]
  · simp only [encBitLogp, setVR, if_neg h]

theorem encIcdf_form (c : Enc) (s : Nat) (tbl : List Nat) (ftb : Nat) : encIcdf c s tbl ftb = encNormalize (setVR c
    (if s > 0 then add32 c.val (sub32 c.rng (mul32 (c.rng / 2 ^ ftb) (tbl.getD (s - 1) 0))) else c.val)
    (if s > 0 then mul32 (c.rng / 2 ^ ftb) (sub32 (tbl.getD (s - 1) 0) (tbl.getD s 0))
     else sub32 c.rng (mul32 (c.rng / 2 ^ ftb) (tbl.getD s 0)))) := by
  by_cases h : s > 0
  · simp only [encIcdf, setVR, if_pos h]
  · simp only [encIcdf, setVR, if_neg h]

theorem encode_near (c : Enc) (fl fh ft : Nat) (hB : ExtB c) (hn : (encode c fl fh ft).nbitsTotal < 4294967296) :
    Near (encode c fl fh ft) (encode (canon c) fl fh ft) := by
  rw [encode_form] at hn ⊢
  rw [encode_form (canon c), canon_val, canon_rng]
  exact setVR_near c _ _ hB hn

theorem encodeBin_near (c : Enc) (fl fh bits : Nat) (hB : ExtB c) (hn : (encodeBin c fl fh bits).nbitsTotal < 4294967296) :
    Near (encodeBin c fl fh bits) (encodeBin (canon c) fl fh bits) := by
  rw [encodeBin_form] at hn ⊢
  rw [encodeBin_form (canon c), canon_val, canon_rng]
  exact setVR_near c _ _ hB hn

theorem encBitLogp_near (c : Enc) (v logp : Nat) (hB : ExtB c) (hn : (encBitLogp c v logp).nbitsTotal < 4294967296) :
    Near (encBitLogp c v logp) (encBitLogp (canon c) v logp) := by
  rw [encBitLogp_form] at hn ⊢
  rw [encBitLogp_form (canon c), canon_val, canon_rng]
  exact setVR_near c _ _ hB hn

theorem encIcdf_near (c : Enc) (s : Nat) (tbl : List Nat) (ftb : Nat) (hB : ExtB c)
    (hn : (encIcdf c s tbl ftb).nbitsTotal < 4294967296) :
    Near (encIcdf c s tbl ftb) (encIcdf (canon c) s tbl ftb) := by
  rw [encIcdf_form] at hn ⊢
  rw [encIcdf_form (canon c), canon_val, canon_rng]
  exact setVR_near c _ _ hB hn

/-! raw bits do not look at `rem`, `ext` -/

theorem writeByteAtEnd_with_rem_ext (c : Enc) (x : Int) (y v : Nat) :
    writeByteAtEnd { c with rem := x, ext := y } v = { writeByteAtEnd c v with rem := x, ext := y } := by
  unfold writeByteAtEnd; split <;> rfl

theorem encBitsFlush_with_rem_ext (c : Enc) (w u : Nat) (x : Int) (y : Nat) :
    encBitsFlush { c with rem := x, ext := y } w u =
      ({ (encBitsFlush c w u).1 with rem := x, ext := y }, (encBitsFlush c w u).2) := by
  fun_induction encBitsFlush c w u with
  | case1 c w u c1 h ih =>
    rw [encBitsFlush, dif_pos h, writeByteAtEnd_with_rem_ext]
    exact ih
  | case2 c w u c1 h =>
    rw [encBitsFlush, dif_neg h, writeByteAtEnd_with_rem_ext]

theorem encBits_with_rem_ext (c : Enc) (v n : Nat) (x : Int) (y : Nat) :
    encBits { c with rem := x, ext := y } v n = { encBits c v n with rem := x, ext := y } := by
  unfold encBits
  simp only
  by_cases h : c.nendBits + n > 32
  · rw [if_pos h, if_pos h, encBitsFlush_with_rem_ext]
  · rw [if_neg h, if_neg h]

theorem encBits_rem_ext (c : Enc) (v n : Nat) : (encBits c v n).rem = c.rem ∧ (encBits c v n).ext = c.ext := by
  unfold encBits
  simp only
  split
  · exact ⟨encBitsFlush_frame (·.rem) (by intro c v; unfold writeByteAtEnd; split <;> rfl) _ _ _,
      encBitsFlush_frame (·.ext) (by intro c v; unfold writeByteAtEnd; split <;> rfl) _ _ _⟩
  · exact ⟨rfl, rfl⟩

theorem encBits_canon (c : Enc) (v n : Nat) : encBits (canon c) v n = canon (encBits c v n) := by
  by_cases h : c.rem = 255
  · have h1 : canon c = { c with rem := -1, ext := u32 (c.ext + 1) } := by unfold canon; rw [if_pos h]
    have h2 : canon (encBits c v n) = { encBits c v n with rem := -1, ext := u32 ((encBits c v n).ext + 1) } := by
      unfold canon; rw [if_pos (by rw [(encBits_rem_ext c v n).1]; exact h)]
    rw [h1, h2, encBits_with_rem_ext, (encBits_rem_ext c v n).2]
  · rw [canon_of_ne h, canon_of_ne (by rw [(encBits_rem_ext c v n).1]; exact h)]

theorem encShrink_canon (c : Enc) (size : Nat) : encShrink (canon c) size = canon (encShrink c size) := by
  unfold encShrink
  by_cases h : c.rem = 255
  · unfold canon
    rw [if_pos h, if_pos (show ({ c with buf := _, storage := size } : Enc).rem = 255 from h)]
  · rw [canon_of_ne h, canon_of_ne (show ({ c with buf := _, storage := size } : Enc).rem ≠ 255 from h)]

theorem encUint_near (c : Enc) (v ft : Nat) (hB : ExtB c) (hn : (encUint c v ft).nbitsTotal < 4294967296) :
    Near (encUint c v ft) (encUint (canon c) v ft) := by
  unfold encUint at hn ⊢
  simp only at hn ⊢
  by_cases h : ilog (ft - 1) > 8
  · simp only [if_pos h] at hn ⊢
    have hn1 : (encode c (v / 2 ^ (ilog (ft - 1) - 8)) (v / 2 ^ (ilog (ft - 1) - 8) + 1)
        ((ft - 1) / 2 ^ (ilog (ft - 1) - 8) + 1)).nbitsTotal < 4294967296 := by
      have := (encBits_rn (encode c (v / 2 ^ (ilog (ft - 1) - 8)) (v / 2 ^ (ilog (ft - 1) - 8) + 1)
        ((ft - 1) / 2 ^ (ilog (ft - 1) - 8) + 1)) (v % 2 ^ (ilog (ft - 1) - 8)) (ilog (ft - 1) - 8)).2
      omega
    rcases encode_near c _ _ _ hB hn1 with e | e
    · rw [e]; exact Or.inl rfl
    · rw [e, encBits_canon]; exact Or.inr rfl
  · simp only [if_neg h] at hn ⊢
    exact encode_near c _ _ _ hB hn

/-- Every operation except the patch commutes with `canon` up to `canon`. -/
theorem encOp_near (c : Enc) (op : Op) (hp : ∀ v n, op ≠ .patchInitial v n) (hB : ExtB c)
    (hn : (encOp c op).nbitsTotal < 4294967296) : Near (encOp c op) (encOp (canon c) op) := by
  cases op with
  | encode fl fh ft => exact encode_near c fl fh ft hB hn
  | encodeBin fl fh nb => exact encodeBin_near c fl fh nb hB hn
  | bitLogp v logp => exact encBitLogp_near c v logp hB hn
  | icdf s tbl ftb => exact encIcdf_near c s tbl ftb hB hn
  | icdf16 s tbl ftb => exact encIcdf_near c s tbl ftb hB hn
  | uint v ft => exact encUint_near c v ft hB hn
  | bits v k => exact Or.inr (encBits_canon c v k)
  | patchInitial v k => exact absurd rfl (hp v k)
  | shrink size => exact Or.inr (encShrink_canon c size)

/-! ### `ec_enc_done` -/

theorem encDoneOut_near : ∀ (n : Nat) (c : Enc) (e : Nat) (l : Int), l.toNat ≤ n → c.ext + n + 1 < 4294967296 →
    Near (encDoneOut c e l).1 (encDoneOut (canon c) e l).1 ∧ (encDoneOut (canon c) e l).2 = (encDoneOut c e l).2
  | 0, c, e, l, hl, _ => by
    have h : ¬ l > 0 := by omega
    rw [encDoneOut_nonpos _ _ _ h, encDoneOut_nonpos _ _ _ h]
    exact ⟨Or.inr rfl, rfl⟩
  | n + 1, c, e, l, hl, hb => by
    by_cases h : l > 0
    · rw [encDoneOut_pos _ _ _ h, encDoneOut_pos _ _ _ h]
      have hle := carryOut_ext_le c (e / 8388608)
      rcases carryOut_near c (e / 8388608) (by omega) with h1 | h1
      · rw [h1]; exact ⟨Or.inl rfl, rfl⟩
      · rw [h1]
        exact encDoneOut_near n (carryOut c (e / 8388608)) _ (l - 8) (by omega) (by omega)
    · rw [encDoneOut_nonpos _ _ _ h, encDoneOut_nonpos _ _ _ h]
      exact ⟨Or.inr rfl, rfl⟩

theorem encDoneOut_ext_le : ∀ (n : Nat) (c : Enc) (e : Nat) (l : Int), l.toNat ≤ n → (encDoneOut c e l).1.ext ≤ c.ext + n
  | 0, c, e, l, hl => by
    have h : ¬ l > 0 := by omega
    rw [encDoneOut_nonpos _ _ _ h]; exact Nat.le_refl _
  | n + 1, c, e, l, hl => by
    by_cases h : l > 0
    · rw [encDoneOut_pos _ _ _ h]
      have := encDoneOut_ext_le n (carryOut c (e / 8388608)) (e * 256 % 2147483648) (l - 8) (by omega)
      have := carryOut_ext_le c (e / 8388608)
      omega
    · rw [encDoneOut_nonpos _ _ _ h]; show c.ext ≤ _; omega

theorem encDoneEnd_canon (c : Enc) : encDoneEnd (canon c) = encDoneEnd c := by
  unfold encDoneEnd
  rw [canon_rng, canon_val]

theorem encDoneEnd_le (c : Enc) : (encDoneEnd c).1.toNat ≤ 33 := by
  unfold encDoneEnd
  simp only
  split <;> simp only <;> omega

/-- the flush at the end of the range part gives the same state from both representations -/
theorem doneFlush_canon (c : Enc) (hext : c.ext + 1 < 4294967296) :
    (if (canon c).rem ≥ 0 ∨ (canon c).ext > 0 then carryOut (canon c) 0 else canon c) =
      (if c.rem ≥ 0 ∨ c.ext > 0 then carryOut c 0 else c) := by
  by_cases hrem : c.rem = 255
  · have hc := canon_255 c hrem hext
    have h1 : (canon c).rem ≥ 0 ∨ (canon c).ext > 0 := by
      right; rw [hc]; show c.ext + 1 > 0; omega
    rw [if_pos h1, if_pos (Or.inl (by omega)), carryOut_canon c 0 hrem hext, if_neg (by decide)]
  · rw [canon_of_ne hrem]

theorem doneRange_eq (c : Enc) : doneRange c =
    (if (encDoneOut c (encDoneEnd c).2 (encDoneEnd c).1).1.rem ≥ 0 ∨ (encDoneOut c (encDoneEnd c).2 (encDoneEnd c).1).1.ext > 0
      then carryOut (encDoneOut c (encDoneEnd c).2 (encDoneEnd c).1).1 0 else (encDoneOut c (encDoneEnd c).2 (encDoneEnd c).1).1,
     (encDoneOut c (encDoneEnd c).2 (encDoneEnd c).1).2) := rfl

theorem doneRange_canon (c : Enc) (hext : c.ext + 40 < 4294967296) : doneRange (canon c) = doneRange c := by
  rw [doneRange_eq, doneRange_eq, encDoneEnd_canon]
  obtain ⟨h1, h2⟩ := encDoneOut_near 33 c (encDoneEnd c).2 (encDoneEnd c).1 (encDoneEnd_le c) (by omega)
  rw [h2]
  rcases h1 with h | h
  · rw [h]
  · rw [h]
    have := encDoneOut_ext_le 33 c (encDoneEnd c).2 (encDoneEnd c).1 (encDoneEnd_le c)
    rw [doneFlush_canon _ (by omega)]

theorem encDone_canon (c : Enc) (hext : c.ext + 40 < 4294967296) : encDone (canon c) = encDone c := by
  rw [encDone_eq', encDone_eq', doneRange_canon c hext]

/-! ### Runs -/

theorem extB_of_runInv {c : Enc} (ri : RunInv c) : ExtB c := ri.inv.ext_bound

theorem legalAt_not_patch {c : Enc} {op : Op} (h : op.LegalAt c) : ∀ v n, op ≠ .patchInitial v n := by
  intro v n he; subst he; exact h

theorem legalAt_canon_congr {c c' : Enc} {op : Op} (h : canon c = canon c') (hl : op.LegalAt c) : op.LegalAt c' := by
  have e1 : c.offs = c'.offs := by have := congrArg Ctx.offs h; simpa using this
  have e2 : c.endOffs = c'.endOffs := by have := congrArg Ctx.endOffs h; simpa using this
  have e3 : c.storage = c'.storage := by have := congrArg Ctx.storage h; simpa using this
  cases op with
  | shrink size => simp only [Op.LegalAt] at hl ⊢; omega
  | patchInitial v k => exact hl
  | _ => exact hl

/-- Two runs of the same legal operations from `canon`-equal states stay `canon`-equal. -/
theorem run_canon (ops : List Op) : ∀ (c c' : Enc), RunInv c → RunInv c' → canon c = canon c' → LegalRun c ops →
    (encRun c ops).nbitsTotal < 4294967296 → (encRun c ops).error = 0 →
    canon (encRun c ops) = canon (encRun c' ops) ∧ RunInv (encRun c ops) ∧ RunInv (encRun c' ops) ∧ LegalRun c' ops := by
  induction ops with
  | nil => intro c c' ri ri' h _ _ _; exact ⟨h, ri, ri', trivial⟩
  | cons op ops ih =>
    intro c c' ri ri' h hl hn herr
    have herr1 : (encOp c op).error = 0 := by
      apply Classical.byContradiction; intro hne
      exact encRun_error_mono ops _ hne herr
    have hn1 : (encOp c op).nbitsTotal < 4294967296 := Nat.lt_of_le_of_lt (encRun_nbits_mono ops _) hn
    have hl' := legalAt_canon_congr h hl.1
    have hrn := encOp_rn c op ⟨ri.inv.rng_lo, ri.inv.rng_hi⟩ (legalAt_legal hl.1)
    have hrn' := encOp_rn c' op ⟨ri'.inv.rng_lo, ri'.inv.rng_hi⟩ (legalAt_legal hl')
    have er : c.rng = c'.rng := by have := congrArg Ctx.rng h; simpa using this
    have en : c.nbitsTotal = c'.nbitsTotal := by have := congrArg Ctx.nbitsTotal h; simpa using this
    rw [← er, ← en, ← hrn] at hrn'
    have hn1' : (encOp c' op).nbitsTotal < 4294967296 := by
      have := (Prod.mk.inj hrn').2; omega
    have k1 := (encOp_near c op (legalAt_not_patch hl.1) (extB_of_runInv ri) hn1).canon_eq
    have k2 := (encOp_near c' op (legalAt_not_patch hl') (extB_of_runInv ri') hn1').canon_eq
    have hce : canon (encOp c op) = canon (encOp c' op) := by rw [← k1, ← k2, h]
    have herr1' : (encOp c' op).error = 0 := by
      have := congrArg Ctx.error hce; simp only [canon_error] at this; rw [← this]; exact herr1
    have s1 := step_op c op ri hl.1 hn1 herr1
    have s1' := step_op c' op ri' hl' hn1' herr1'
    obtain ⟨a1, a2, a3, a4⟩ := ih (encOp c op) (encOp c' op) s1.run s1'.run hce hl.2 hn herr
    exact ⟨a1, a2, a3, hl', a4⟩

/-- … and `ec_enc_done` then writes the same bytes. -/
theorem encDone_of_canon_eq {c c' : Enc} (ri : RunInv c) (ri' : RunInv c') (h : canon c = canon c')
    (hn : c.nbitsTotal < 4294967296) : encDone c = encDone c' := by
  have en : c.nbitsTotal = c'.nbitsTotal := by have := congrArg Ctx.nbitsTotal h; simpa using this
  have b1 := extB_of_runInv ri
  have b2 := extB_of_runInv ri'
  unfold ExtB at b1 b2
  rw [← encDone_canon c (by omega), ← encDone_canon c' (by omega), h]

end Opus.RangeCoder
