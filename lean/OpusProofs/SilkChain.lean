/-
  OpusProofs.SilkChain — a small model of the flag that disables LSF interpolation on the first frame after a decoder
  reset / internal-rate change, and of the choice of the first-half LSF vector in silk_decode_parameters.

  C code transcribed:
    silk/init_decoder.c:51            psDec->first_frame_after_reset = 1;           (silk_reset_decoder)
    silk/decoder_set_fs.c:55,91       if( psDec->fs_kHz != fs_kHz ) { … psDec->first_frame_after_reset = 1; … }
                                      psDec->fs_kHz = fs_kHz  (prevNLSF_Q15 is NOT cleared)
    silk/decode_frame.c:130           psDec->first_frame_after_reset = 0;           (after a frame decoded without error)
    silk/decode_parameters.c:57-60    if( psDec->first_frame_after_reset == 1 ) psDec->indices.NLSFInterpCoef_Q2 = 4;
    silk/decode_parameters.c:62-75    if( NLSFInterpCoef_Q2 < 4 ) pNLSF0[i] = prev[i] + ((coef * (cur[i] - prev[i])) >> 2), NLSF2A(pNLSF0)
                                      else PredCoef_Q12[0] := PredCoef_Q12[1]       (the filter of the decoded vector)
    silk/decode_parameters.c:77       prevNLSF_Q15 := pNLSF_Q15
  Core Lean only.
-/
namespace OpusProofs.SilkChain

/-- the part of `silk_decoder_state` that takes part -/
structure Dec where
  fsKHz : Int
  firstFrameAfterReset : Int
  prevNLSF : List Int
  deriving Repr, DecidableEq

/-- silk_reset_decoder (init_decoder.c:41-60): the state past SILK_DECODER_STATE_RESET_START is cleared, flag := 1. -/
def reset (d : Dec) : Dec := { d with firstFrameAfterReset := 1, prevNLSF := d.prevNLSF.map (fun _ => 0) }

/-- silk_decoder_set_fs (decoder_set_fs.c:55-99), restricted to the members above. -/
def setFs (d : Dec) (fs : Int) : Dec :=
  if d.fsKHz ≠ fs then { d with fsKHz := fs, firstFrameAfterReset := 1 } else d

/-- decode_parameters.c:57-60 — the interpolation factor actually used. -/
def effCoef (flag coef : Int) : Int := if flag = 1 then 4 else coef

/-- decode_parameters.c:66-69 — `>> 2` of opus_int32 is floor division by 4. -/
def interp (prev cur : List Int) (c : Int) : List Int :=
  List.zipWith (fun p n => p + (c * (n - p)) / 4) prev cur

/-- The LSF vector from which the first-half filter PredCoef_Q12[0] is derived (decode_parameters.c:62-75): the
    interpolated vector when the factor in force is below 4, otherwise the decoded vector itself. -/
def firstHalf (d : Dec) (coef : Int) (cur : List Int) : List Int :=
  if effCoef d.firstFrameAfterReset coef < 4 then interp d.prevNLSF cur (effCoef d.firstFrameAfterReset coef) else cur

/-- one good frame: parameters decoded (prevNLSF := cur, decode_parameters.c:77), flag cleared (decode_frame.c:130). -/
def goodFrame (d : Dec) (cur : List Int) : Dec := { d with prevNLSF := cur, firstFrameAfterReset := 0 }

theorem effCoef_flag (coef : Int) : effCoef 1 coef = 4 := by simp [effCoef]

theorem firstHalf_of_flag (d : Dec) (h : d.firstFrameAfterReset = 1) (coef : Int) (cur : List Int) :
    firstHalf d coef cur = cur := by
  simp [firstHalf, effCoef, h]

theorem setFs_flag (d : Dec) (fs : Int) (h : d.fsKHz ≠ fs) : (setFs d fs).firstFrameAfterReset = 1 := by
  simp [setFs, h]

theorem setFs_same (d : Dec) : setFs d d.fsKHz = d := by simp [setFs]

theorem reset_flag (d : Dec) : (reset d).firstFrameAfterReset = 1 := rfl

theorem firstHalf_coef4 (d : Dec) (cur : List Int) : firstHalf d 4 cur = cur := by
  unfold firstHalf effCoef; split <;> simp

end OpusProofs.SilkChain
