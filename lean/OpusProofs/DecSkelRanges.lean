import OpusProofs.DecSkelApi
/-
  OpusProofs.DecSkelRanges — C `int` / `opus_int32` ranges of the decoder skeleton.  The model computes
  with unbounded `Int`; these lemmas show that, on the domain the entry checks and the invariant
  guarantee, every product / sum / difference the C code forms (quoted with its source line) fits a
  32-bit signed integer, so the unbounded and the C reading coincide.
  Entry facts used: `len` is an `opus_int32` (packet length < 2^31); the caller's buffer holds
  `frame_size·channels` samples (so that product is representable); `DecInv` (legal rate, 1-2
  channels, `frame_size` a packet duration ≤ 60 ms); the parser's bounds (≤ 48 frames, ≤ 1275 bytes
  each, ≤ 120 ms per packet).
-/
namespace Opus.DecSkel
open Opus Opus.Framing

/-- Representable as `int` / `opus_int32`. -/
def I32 (x : Int) : Prop := -2147483648 ≤ x ∧ x ≤ 2147483647

/-- The sizes derived from the rate (:290-293, :300, :695) and the state's frame size: all below 6000;
    the scratch-buffer sizes `F10*channels`, `F5*channels` (:368-370, :397, :546). -/
theorem rate_sizes_i32 {st : DecState} (h : DecInv st) :
    I32 (F20 st) ∧ I32 (F10 st) ∧ I32 (F5 st) ∧ I32 (F2_5 st) ∧ I32 (st.Fs / 25 * 3) ∧ st.Fs / 25 * 3 ≤ 5760 ∧
    I32 (st.Fs / 400) ∧ 20 ≤ st.Fs / 400 ∧ 0 ≤ st.frame_size ∧ st.frame_size ≤ 2880 ∧ I32 (st.frame_size * st.channels) ∧
    I32 (F10 st * st.channels) ∧ I32 (F5 st * st.channels) := by
  obtain ⟨u, hu⟩ := units_of_fs h.fs
  have hf := h.frame_size_cases hu
  have hp := hu.pos; have h5 := hu.five; have hch := h.ch
  rw [hu.f20, hu.f10, hu.f5, hu.f25, hu.f120, hu.u400]
  unfold I32
  rcases hch with hc | hc <;> rw [hc] <;> omega

/-- `opus_decode_native`, concealment loop (:728-735) and FEC branch (:765-781): `pcm+pcm_count*st->channels`,
    `frame_size-pcm_count`, `frame_size-packet_frame_size`, `st->channels*(frame_size-packet_frame_size)`. -/
theorem native_offsets_i32 {st : DecState} (h : DecInv st) (frame_size done : Int)
    (hbuf : I32 (frame_size * st.channels)) (h0 : 0 ≤ done) (hle : done ≤ frame_size) :
    I32 (done * st.channels) ∧ I32 (frame_size - done) ∧ I32 (st.channels * (frame_size - done)) := by
  unfold I32 at *
  rcases h.ch with hc | hc <;> rw [hc] at hbuf ⊢ <;> omega

/-- `opus_decode_native`, packet path (:744-811): `count*packet_frame_size` (:792) is at most 48·2880; when it fits the
    buffer, `nb_samples*st->channels` and `frame_size-nb_samples` (:805) are in range; frame sizes are `opus_int16`
    (≤ 1275) and every frame offset `data += size[i]` stays below the packet length, an `opus_int32`. -/
theorem native_frames_i32 {st : DecState} (h : DecInv st) (bs : Bytes) (hb : BytesOk bs) (hlen : (bs.length : Int) ≤ 2147483647)
    (sd : Bool) (p : Parsed) (hp : parseImpl sd bs = .ok p) (frame_size : Int) (hbuf : I32 (frame_size * st.channels)) :
    I32 ((p.count : Int) * (samplesPerFrame (bs.headD 0) st.Fs.toNat : Int)) ∧
    (p.count : Int) * (samplesPerFrame (bs.headD 0) st.Fs.toNat : Int) ≤ 48 * 2880 ∧
    ((p.count : Int) * (samplesPerFrame (bs.headD 0) st.Fs.toNat : Int) ≤ frame_size →
      ∀ nb : Int, 0 ≤ nb → nb ≤ (p.count : Int) * (samplesPerFrame (bs.headD 0) st.Fs.toNat : Int) →
        I32 (nb * st.channels) ∧ I32 (frame_size - nb)) ∧
    (∀ sz ∈ p.sizes, sz ≤ 1275) ∧ I32 ((p.payloadOffset : Int) + (sumN p.sizes : Int)) ∧ I32 (p.packetOffset : Int) := by
  obtain ⟨hcnt, hc1, hc48, hsz, hpad, hle, _⟩ := OpusProps.C06.parse_in_bounds sd bs hb p hp
  obtain ⟨u, hu⟩ := units_of_fs h.fs
  obtain ⟨htoc, hm0, _⟩ := toc_ok h.fs (headD_lt hb)
  have hpfs := tocOk_pfs htoc hu.u400 hm0
  have h5 := hu.five; have hpos := hu.pos
  generalize ((samplesPerFrame (bs.headD 0) st.Fs.toNat : Nat) : Int) = pfs at *
  have hpf : 0 < pfs ∧ pfs ≤ 2880 := by omega
  have hmul : (p.count : Int) * pfs ≤ 48 * pfs := Int.mul_le_mul_of_nonneg_right (by omega) (by omega)
  have hnn : 0 ≤ (p.count : Int) * pfs := Int.mul_nonneg (by omega) (by omega)
  have hpadle : p.payloadOffset + sumN p.sizes ≤ bs.length := by unfold Parsed.padOffset at hpad; omega
  refine ⟨⟨by omega, by omega⟩, by omega, ?_, hsz, ⟨by omega, by omega⟩, ⟨by omega, by omega⟩⟩
  intro hfit nb h0 hle'
  unfold I32 at *
  rcases h.ch with hc | hc <;> rw [hc] at hbuf ⊢ <;> omega

/-- `opus_decode_frame` (:300-408, :609-660): with `audiosize` a packet / concealment duration (≤ 60 ms),
    `audiosize*st->channels`, `1000*audiosize` (:408) and `st->channels*(frame_size-F2_5)` (:609) are in range. -/
theorem frame_sizes_i32 {st : DecState} (h : DecInv st) (audiosize : Int) (h0 : 0 ≤ audiosize) (hle : audiosize ≤ 2880) :
    I32 (audiosize * st.channels) ∧ I32 (1000 * audiosize) ∧ I32 (st.channels * (audiosize - F2_5 st)) ∧
    I32 (cdiv (1000 * audiosize) st.Fs) := by
  obtain ⟨u, hu⟩ := units_of_fs h.fs
  have h5 := hu.five
  have hdiv : cdiv (1000 * audiosize) st.Fs = 1000 * audiosize / st.Fs := cdiv_nonneg (by omega)
  rw [hu.f25, hdiv, hu.fs]
  have hq : 0 ≤ 1000 * audiosize / (400 * u) := Int.ediv_nonneg (by omega) (by omega)
  have hq2 : 1000 * audiosize / (400 * u) ≤ 1000 * audiosize := Int.ediv_le_self _ (by omega)
  unfold I32
  rcases h.ch with hc | hc <;> rw [hc] <;> omega

/-- Redundancy signalling (:471-498): with a frame of at most 1275 bytes and `ec_tell` below 2^30,
    `ec_tell+17+20`, `8*len`, `len-((ec_tell+7)>>3)`, `len*8` and `ec_dec_uint(256)+2` are in range. -/
theorem redundancy_i32 (len tell v : Int) (hl : 0 ≤ len ∧ len ≤ 1275) (ht : 0 ≤ tell ∧ tell ≤ 1073741824) (hv : 0 ≤ v ∧ v < 256) :
    I32 (tell + 17 + 20) ∧ I32 (8 * len) ∧ I32 (len - (tell + 7) / 8) ∧ I32 ((len - (v + 2)) * 8) ∧ I32 (v + 2) := by
  unfold I32; omega

/-- The 16/24-bit wrappers (:852-861): after the clamp to `opus_decoder_get_nb_samples` (≤ 120 ms) the stack buffer has
    `frame_size*channels ≤ 11520` floats; for concealment / FEC requests up to one second it has at most 96000. -/
theorem wrapper_alloc_i32 {st : DecState} (h : DecInv st) (frame_size : Int) (h0 : 0 < frame_size) (h1 : frame_size ≤ st.Fs) :
    I32 (frame_size * st.channels) ∧ frame_size * st.channels ≤ 96000 := by
  have hfs := h.fs
  unfold FsOk at hfs
  unfold I32
  rcases h.ch with hc | hc <;> rw [hc] <;> omega

/-- Multistream (:207-220): `2*frame_size` after the clamp, `2*nb_streams-1` with at most 255 streams. -/
theorem ms_sizes_i32 (Fs frame_size : Int) (nb : Nat) (hFs : FsOk Fs) (h0 : 0 < frame_size) (hnb : nb ≤ 255) :
    I32 (2 * min frame_size (Fs / 25 * 3)) ∧ 2 * min frame_size (Fs / 25 * 3) ≤ 11520 ∧ I32 (2 * (nb : Int) - 1) := by
  unfold FsOk at hFs
  unfold I32
  omega

end Opus.DecSkel
