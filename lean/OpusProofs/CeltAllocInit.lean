import OpusProofs.CeltAllocLoop
import OpusProofs.CeltAllocSplit
/-
  OpusProofs.CeltAllocInit — the state on entry to the band-skipping loop satisfies the loop invariant.
-/
namespace OpusProofs.CeltAlloc
open Opus Opus.CeltAlloc
open Opus.Gen.CeltTables

theorem eBands_step : ∀ i, i < 21 → eBands.getD i 0 ≤ eBands.getD (i + 1) 0 := by decide

theorem eBands_mono {i j : Nat} (h : i ≤ j) (hj : j ≤ 21) : eBands.getD i 0 ≤ eBands.getD j 0 := by
  induction h with
  | refl => exact Nat.le_refl _
  | step hle ih => exact Nat.le_trans (ih (by omega)) (eBands_step _ (by omega))

/-- the bands `start … start+n-1`, highest first -/
def revBands (p : Inp) : Nat → List Band
  | 0 => []
  | n + 1 => mkBand p (p.start + n) :: revBands p n

theorem bands_reverse (p : Inp) : (bands p).reverse = revBands p (p.end_ - p.start) := by
  unfold bands
  generalize p.end_ - p.start = n
  induction n with
  | zero => rfl
  | succ n ih => rw [List.range_succ, List.map_append, List.reverse_append, ih]; rfl

def sumWB : List Band → Nat
  | [] => 0
  | b :: bs => b.w + sumWB bs

theorem sumW_eq : ∀ (l : List (Band × Int)), sumW l = sumWB (l.map (·.1)) := by
  intro l
  induction l with
  | nil => rfl
  | cons x t ih => simp only [sumW, List.map_cons, sumWB, ih]

theorem mkBand_edges (p : Inp) (j : Nat) (h1 : p.start ≤ j) (h2 : j < 21) :
    (mkBand p j).j = j ∧ (mkBand p j).w = width j ∧ 1 ≤ (mkBand p j).w ∧
    (mkBand p j).lo + (mkBand p j).w = eBands.getD (j + 1) 0 - eBands.getD p.start 0 := by
  have hw := width_bounds j h2
  have m1 := eBands_mono h1 (by omega)
  have m2 := eBands_step j h2
  simp only [mkBand]
  refine ⟨trivial, trivial, hw.1, ?_⟩
  unfold width
  omega

theorem revBands_facts (p : Inp) : ∀ n, p.start + n ≤ 21 →
    DescB (revBands p n) ∧ sumWB (revBands p n) = eBands.getD (p.start + n) 0 - eBands.getD p.start 0 ∧
    (∀ b ∈ revBands p n, p.start ≤ b.j ∧ b.j < p.start + n ∧ 1 ≤ b.w ∧ b = mkBand p b.j) := by
  intro n
  induction n with
  | zero => intro _; exact ⟨trivial, by simp [revBands, sumWB], fun b hb => by simp [revBands] at hb⟩
  | succ n ih =>
    intro h
    obtain ⟨h1, h2, h3⟩ := ih (by omega)
    obtain ⟨e1, e2, e3, e4⟩ := mkBand_edges p (p.start + n) (by omega) (by omega)
    refine ⟨?_, ?_, ?_⟩
    · cases n with
      | zero => trivial
      | succ m =>
        obtain ⟨f1, f2, f3, f4⟩ := mkBand_edges p (p.start + m) (by omega) (by omega)
        refine ⟨⟨by rw [e1, f1]; omega, ?_⟩, h1⟩
        rw [f4]
        rfl
    · simp only [revBands, sumWB, h2, e2]
      have m1 := eBands_mono (show p.start ≤ p.start + n by omega) (by omega)
      have m2 := eBands_step (p.start + n) (by omega)
      unfold width
      rw [show p.start + (n + 1) = p.start + n + 1 by omega]
      omega
    · intro b hb
      simp only [revBands, List.mem_cons] at hb
      rcases hb with rfl | hb
      · exact ⟨by rw [e1]; omega, by rw [e1]; omega, e3, by rw [e1]⟩
      · obtain ⟨a, b', c, d⟩ := h3 b hb
        exact ⟨a, by omega, c, d⟩

theorem zip_map_fst {α β : Type} : ∀ (l : List α) (m : List β), l.length = m.length → (l.zip m).map (·.1) = l := by
  intro l
  induction l with
  | nil => intro m _; rfl
  | cons a t ih =>
    intro m h
    cases m with
    | nil => simp at h
    | cons b m => simp [ih m (by simpa using h)]

theorem sumBits_zip : ∀ (l : List Band) (m : List Int), l.length = m.length → sumBits (l.zip m) = sumInt m := by
  intro l
  induction l with
  | nil => intro m h; cases m <;> simp_all [sumBits, sumInt]
  | cons a t ih =>
    intro m h
    cases m with
    | nil => simp at h
    | cons b m => simp only [List.zip_cons_cons, sumBits, sumInt, ih m (by simpa using h)]

end OpusProofs.CeltAlloc
