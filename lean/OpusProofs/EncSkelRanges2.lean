import OpusProofs.EncSkelRanges
/-
  OpusProofs.EncSkelRanges2 — "no 32-bit overflow", part 2: the CBR sizing (:1253-1261), the low-budget gate and
  `max_rate` (:1267, :1338), `compute_equiv_rate`, `compute_redundancy_bytes`, `bytes_target` / `total_bitRate`.
-/
namespace Opus.EncSkel.Proofs
open Opus Opus.EncDecide Opus.EncSkel

/-- `|a| ≤ A·k → |a / k| ≤ A` for C's truncating division. -/
theorem cdiv_scale (a k A : Int) (hk : 0 < k) (h : -(A * k) ≤ a ∧ a ≤ A * k) : -A ≤ cdiv a k ∧ cdiv a k ≤ A := by
  unfold cdiv
  rcases Int.le_total 0 a with ha | ha
  · rw [Int.tdiv_eq_ediv_of_nonneg ha]
    have h1 : a / k ≤ A := Int.ediv_le_of_le_mul hk h.2
    have h2 : 0 ≤ a / k := Int.ediv_nonneg ha (Int.le_of_lt hk)
    have hA : 0 ≤ A := by
      by_cases hneg : A < 0
      · have : A * k < 0 := Int.mul_neg_of_neg_of_pos hneg hk
        omega
      · omega
    omega
  · obtain ⟨c, rfl⟩ : ∃ c, a = -c := ⟨-a, by omega⟩
    have hc : 0 ≤ c := by omega
    rw [Int.neg_tdiv, Int.tdiv_eq_ediv_of_nonneg hc]
    have h1 : c / k ≤ A := Int.ediv_le_of_le_mul hk (by omega)
    have h2 : 0 ≤ c / k := Int.ediv_nonneg hc (Int.le_of_lt hk)
    omega

theorem mul_nn_le (x y A B : Int) (hx : 0 ≤ x ∧ x ≤ A) (hy : 0 ≤ y ∧ y ≤ B) : 0 ≤ x * y ∧ x * y ≤ A * B := by
  obtain ⟨hx1, hx2⟩ := hx
  obtain ⟨hy1, hy2⟩ := hy
  constructor <;> nlinarith

/-! ### CBR sizing -/

/-- opus_encoder.c:1253-1261 on the API domain: every intermediate fits 32 bits; `0 ≤ cbr_bytes ≤ max_data_bytes`
    and the CBR bit-rate is at most 4 083 200 b/s. -/
theorem cbrTrace_fits (fs fsz b m : Int)
    (hfs : fs = 8000 ∨ fs = 12000 ∨ fs = 16000 ∨ fs = 24000 ∨ fs = 48000) (hl : legalFrame fs fsz = true)
    (hb : 0 ≤ b ∧ b ≤ 4083200) (hm : 1 ≤ m ∧ m ≤ 1276) :
    (∀ x ∈ cbrTrace fs fsz b m, Fits32 x) ∧ 0 ≤ cbrBytes fs fsz b m ∧ cbrBytes fs fsz b m ≤ m ∧
    0 ≤ cbrBytes fs fsz b m * (12 * fs / fsz) * 8 / 12 ∧ cbrBytes fs fsz b m * (12 * fs / fsz) * 8 / 12 ≤ 4083200 := by
  obtain ⟨r1, r2, f1, f2, z1, z2⟩ := frameRate_range fs fsz hfs hl
  have hq0 : 0 ≤ (12 * b / 8 + 12 * fs / fsz / 2) / (12 * fs / fsz) := Int.ediv_nonneg (by omega) (by omega)
  have hq1 : (12 * b / 8 + 12 * fs / fsz / 2) / (12 * fs / fsz) ≤ 12 * b / 8 + 12 * fs / fsz / 2 :=
    Int.ediv_le_self _ (by omega)
  have hc : cbrBytes fs fsz b m = min ((12 * b / 8 + 12 * fs / fsz / 2) / (12 * fs / fsz)) m := rfl
  have hc0 : 0 ≤ cbrBytes fs fsz b m := by rw [hc]; omega
  have hc1 : cbrBytes fs fsz b m ≤ m := by rw [hc]; omega
  have hp := mul_nn_le (cbrBytes fs fsz b m) (12 * fs / fsz) 1276 4800 ⟨hc0, by omega⟩ ⟨by omega, f2⟩
  refine ⟨?_, hc0, hc1, by omega, by omega⟩
  intro x hx
  simp only [cbrTrace, List.mem_cons, List.mem_nil_iff, or_false] at hx
  rcases hx with rfl | rfl | rfl | rfl | rfl | rfl | rfl | rfl | rfl | rfl | rfl | rfl | rfl <;>
    (unfold Fits32; omega)

/-- The last entry of `cbrTrace` is the CBR `bitrate_bps` of the skeleton's `sizeBudget`, and `cbr_bytes` / the new
    `max_data_bytes` are entries 8 and 9. -/
theorem cbrTrace_model (s : St) (fsz out : Int) (hv : s.useVbr = 0) :
    let m := min 1276 out
    let t := cbrTrace s.fs fsz (userBitrateToBitrate s fsz m) m
    t.getLast? = some (sizeBudget s fsz out).bitrateBps ∧ t[8]? = some (sizeBudget s fsz out).cbr ∧
    t[9]? = some (sizeBudget s fsz out).maxDataBytes := by
  simp [cbrTrace, sizeBudget, hv]

/-! ### the low-budget gate and `max_rate` -/

theorem gateTrace_fits (fs fsz : Int) (b : SizeBudget)
    (hfs : fs = 8000 ∨ fs = 12000 ∨ fs = 16000 ∨ fs = 24000 ∨ fs = 48000) (hl : legalFrame fs fsz = true)
    (hm : 1 ≤ b.maxDataBytes ∧ b.maxDataBytes ≤ 1276) :
    ∀ x ∈ gateTrace fs fsz b, Fits32 x := by
  obtain ⟨r1, r2, -, -, -, -⟩ := frameRate_range fs fsz hfs hl
  have hp := mul_nn_le b.maxDataBytes (fs / fsz) 1276 400 ⟨by omega, hm.2⟩ ⟨by omega, r2⟩
  have hp' : fs / fsz * b.maxDataBytes = b.maxDataBytes * (fs / fsz) := Int.mul_comm _ _
  intro x hx
  simp only [gateTrace, List.mem_cons, List.mem_nil_iff, or_false] at hx
  rcases hx with rfl | rfl | rfl | rfl | rfl <;> (unfold Fits32; omega)

/-! ### `compute_equiv_rate` -/

theorem erTrace_last (bitrate channels frameRate vbr mode complexity loss : Int) :
    (erTrace bitrate channels frameRate vbr mode complexity loss).getLast? =
      some (computeEquivRate bitrate channels frameRate vbr mode complexity loss) := by
  simp [erTrace]

/-- One `equiv = equiv*n/k` step with `0 ≤ n ≤ k`: the product fits, the quotient has the sign of `e` and is no larger. -/
theorem scale_step (e n k : Int) (he : -4083200 ≤ e ∧ e ≤ 4083200) (hn : 0 ≤ n ∧ n ≤ k) (hk : 0 < k) (hN : n ≤ 100) :
    Fits32 (e * n) ∧ (0 ≤ e → 0 ≤ cdiv (e * n) k ∧ cdiv (e * n) k ≤ e) ∧ (e ≤ 0 → e ≤ cdiv (e * n) k ∧ cdiv (e * n) k ≤ 0) := by
  have hm := mul_abs_le e n 4083200 100 he ⟨hn.1, hN⟩
  refine ⟨by unfold Fits32; omega, ?_, ?_⟩
  · intro h0
    have h1 : 0 ≤ e * n := Int.mul_nonneg h0 hn.1
    have h2 : e * n ≤ e * k := Int.mul_le_mul_of_nonneg_left hn.2 h0
    have := cdiv_scale (e * n) k e hk ⟨by omega, h2⟩
    have := (cdiv_bounds (e * n) k hk).1 h1
    omega
  · intro h0
    have h1 : e * n ≤ 0 := Int.mul_nonpos_of_nonpos_of_nonneg h0 hn.1
    have h2 : e * k ≤ e * n := Int.mul_le_mul_of_nonpos_left h0 hn.2
    have h3 : -e * k = -(e * k) := Int.neg_mul _ _
    have := cdiv_scale (e * n) k (-e) hk ⟨by omega, by omega⟩
    have := (cdiv_bounds (e * n) k hk).2 h1
    omega

/-- `compute_equiv_rate` (opus_encoder.c:962-993): for a bit-rate in 0..4 083 200, 1-2 channels, a frame rate of
    8..400 Hz, complexity 0..10 and loss 0..100 every intermediate fits 32 bits (in each of the three mode branches),
    and the result is within ±4 083 200. -/
theorem erTrace_fits (bitrate channels frameRate vbr mode complexity loss : Int)
    (hb : 0 ≤ bitrate ∧ bitrate ≤ 4083200) (hch : 1 ≤ channels ∧ channels ≤ 2)
    (hfr : 8 ≤ frameRate ∧ frameRate ≤ 400) (hcx : 0 ≤ complexity ∧ complexity ≤ 10)
    (hlo : 0 ≤ loss ∧ loss ≤ 100) :
    (∀ x ∈ erTrace bitrate channels frameRate vbr mode complexity loss, Fits32 x) ∧
    -4083200 ≤ computeEquivRate bitrate channels frameRate vbr mode complexity loss ∧
    computeEquivRate bitrate channels frameRate vbr mode complexity loss ≤ 4083200 := by
  have hpm : (40 * channels + 20) * (frameRate - 50) = (frameRate - 50) * (40 * channels + 20) := Int.mul_comm _ _
  have hpb := mul_abs_le (frameRate - 50) (40 * channels + 20) 350 100 ⟨by omega, by omega⟩ ⟨by omega, by omega⟩
  obtain ⟨e1, he1⟩ : ∃ e1, e1 = if frameRate > 50 then bitrate - (40 * channels + 20) * (frameRate - 50) else bitrate :=
    ⟨_, rfl⟩
  have h1 : -4083200 ≤ e1 ∧ e1 ≤ 4083200 := by
    rw [he1]; split
    · have : 0 ≤ (frameRate - 50) * (40 * channels + 20) := Int.mul_nonneg (by omega) (by omega)
      omega
    · omega
  have h12 := cdiv_bounds e1 12 (by omega)
  obtain ⟨e2, he2⟩ : ∃ e2, e2 = if vbr = 0 then e1 - cdiv e1 12 else e1 := ⟨_, rfl⟩
  have h2 : -4083200 ≤ e2 ∧ e2 ≤ 4083200 := by
    rw [he2]; split
    · rcases Int.le_total 0 e1 with h | h
      · have := h12.1 h; omega
      · have := h12.2 h; omega
    · exact h1
  obtain ⟨s3a, s3b, s3c⟩ := scale_step e2 (90 + complexity) 100 h2 ⟨by omega, by omega⟩ (by omega) (by omega)
  obtain ⟨e3, he3⟩ : ∃ e3, e3 = cdiv (e2 * (90 + complexity)) 100 := ⟨_, rfl⟩
  rw [← he3] at s3b s3c
  have h3 : -4083200 ≤ e3 ∧ e3 ≤ 4083200 := by
    rcases Int.le_total 0 e2 with h | h
    · have := s3b h; omega
    · have := s3c h; omega
  obtain ⟨s4a, s4b, s4c⟩ := scale_step e3 4 5 h3 ⟨by omega, by omega⟩ (by omega) (by omega)
  obtain ⟨e4, he4⟩ : ∃ e4, e4 = if complexity < 2 then cdiv (e3 * 4) 5 else e3 := ⟨_, rfl⟩
  have h4 : -4083200 ≤ e4 ∧ e4 ≤ 4083200 := by
    rw [he4]; split
    · rcases Int.le_total 0 e3 with h | h
      · have := s4b h; omega
      · have := s4c h; omega
    · exact h3
  obtain ⟨s5a, s5b, s5c⟩ := scale_step e4 loss (6 * loss + 10) h4 ⟨by omega, by omega⟩ (by omega) (by omega)
  obtain ⟨s6a, s6b, s6c⟩ := scale_step e3 9 10 h3 ⟨by omega, by omega⟩ (by omega) (by omega)
  obtain ⟨s7a, s7b, s7c⟩ := scale_step e3 loss (12 * loss + 20) h3 ⟨by omega, by omega⟩ (by omega) (by omega)
  have hlast : computeEquivRate bitrate channels frameRate vbr mode complexity loss =
      if mode = MODE_SILK_ONLY ∨ mode = MODE_HYBRID then e4 - cdiv (e4 * loss) (6 * loss + 10)
      else if mode = MODE_CELT_ONLY then (if complexity < 5 then cdiv (e3 * 9) 10 else e3)
      else e3 - cdiv (e3 * loss) (12 * loss + 20) := by
    subst he4 he3 he2 he1; rfl
  have hret : -4083200 ≤ computeEquivRate bitrate channels frameRate vbr mode complexity loss ∧
      computeEquivRate bitrate channels frameRate vbr mode complexity loss ≤ 4083200 := by
    rw [hlast]; split
    · rcases Int.le_total 0 e4 with h | h
      · have := s5b h; omega
      · have := s5c h; omega
    · split
      · split
        · rcases Int.le_total 0 e3 with h | h
          · have := s6b h; omega
          · have := s6c h; omega
        · exact h3
      · rcases Int.le_total 0 e3 with h | h
        · have := s7b h; omega
        · have := s7c h; omega
  have b12 : -4083200 ≤ cdiv e1 12 ∧ cdiv e1 12 ≤ 4083200 := by
    rcases Int.le_total 0 e1 with h | h
    · have := h12.1 h; omega
    · have := h12.2 h; omega
  have b5 : -4083200 ≤ cdiv (e4 * loss) (6 * loss + 10) ∧ cdiv (e4 * loss) (6 * loss + 10) ≤ 4083200 := by
    rcases Int.le_total 0 e4 with h | h
    · have := s5b h; omega
    · have := s5c h; omega
  have b6 : -4083200 ≤ cdiv (e3 * 9) 10 ∧ cdiv (e3 * 9) 10 ≤ 4083200 := by
    rcases Int.le_total 0 e3 with h | h
    · have := s6b h; omega
    · have := s6c h; omega
  have b7 : -4083200 ≤ cdiv (e3 * loss) (12 * loss + 20) ∧ cdiv (e3 * loss) (12 * loss + 20) ≤ 4083200 := by
    rcases Int.le_total 0 e3 with h | h
    · have := s7b h; omega
    · have := s7c h; omega
  have b4 : -4083200 ≤ cdiv (e3 * 4) 5 ∧ cdiv (e3 * 4) 5 ≤ 4083200 := by
    rcases Int.le_total 0 e3 with h | h
    · have := s4b h; omega
    · have := s4c h; omega
  refine ⟨?_, hret⟩
  intro x hx
  simp only [erTrace, List.mem_cons, List.mem_nil_iff, or_false] at hx
  rw [← he1] at hx
  rw [← he2] at hx
  rw [← he3] at hx
  rw [← he4] at hx
  unfold Fits32 at *
  rcases hx with rfl | rfl | rfl | rfl | rfl | rfl | rfl | rfl | rfl | rfl | rfl | rfl | rfl | rfl | rfl | rfl | rfl |
    rfl | rfl | rfl | rfl | rfl | rfl <;> omega

end Opus.EncSkel.Proofs
