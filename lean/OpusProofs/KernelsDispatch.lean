import OpusModel.Kernels
import OpusModel.Gen.DispatchTables
/-
  OpusProofs.KernelsDispatch — the arch-selection decision list and the shape of the regenerated RTCD tables.
-/
namespace Opus.Kernels
open Opus.Gen

theorem selectArchImpl_le (f : CpuFeature) : selectArchImpl f ≤ 4 := by
  unfold selectArchImpl; split <;> (try split) <;> (try split) <;> (try split) <;> omega

/-- the level is the number of leading available feature sets SSE, SSE2, SSE4.1, AVX2. -/
theorem selectArchImpl_spec (f : CpuFeature) :
    (1 ≤ selectArchImpl f ↔ f.sse = true) ∧
    (2 ≤ selectArchImpl f ↔ (f.sse = true ∧ f.sse2 = true)) ∧
    (3 ≤ selectArchImpl f ↔ (f.sse = true ∧ f.sse2 = true ∧ f.sse41 = true)) ∧
    (4 ≤ selectArchImpl f ↔ (f.sse = true ∧ f.sse2 = true ∧ f.sse41 = true ∧ f.avx2 = true)) := by
  obtain ⟨a, b, c, d⟩ := f
  cases a <;> cases b <;> cases c <;> cases d <;> simp [selectArchImpl]

theorem selectArch_eq_min (f : CpuFeature) (c : Nat) : selectArch f (some c) = min c (selectArchImpl f) := by
  unfold selectArch; simp only []; split <;> omega

theorem selectArch_none (f : CpuFeature) : selectArch f none = selectArchImpl f := rfl

/-- AVX2 is only reported when leaf 1 announces AVX and FMA, leaf 7 exists and announces AVX2. -/
theorem cpuFeatureCheck_avx2 (nIds ecx1 edx1 ebx7 : Nat) :
    (cpuFeatureCheck nIds ecx1 edx1 ebx7).avx2 = true ↔
      (7 ≤ nIds ∧ bit ecx1 28 = true ∧ bit ecx1 12 = true ∧ bit ebx7 5 = true) := by
  unfold cpuFeatureCheck
  by_cases h1 : nIds ≥ 1
  · simp only [h1, if_true]
    by_cases h7 : nIds ≥ 7
    · cases bit ecx1 28 <;> cases bit ecx1 12 <;> cases bit ebx7 5 <;> simp [h7] <;> omega
    · cases bit ecx1 28 <;> cases bit ecx1 12 <;> simp [h7] <;> omega
  · simp only [h1, if_false]; constructor
    · intro h; cases h
    · intro h; omega

/-- every regenerated table has OPUS_ARCHMASK+1 entries and holds, at index `a ≤ 4`, the C symbol below the
    kernel's feature level and the SIMD symbol from it on (NULL above 4). -/
theorem tables_shape : ∀ t ∈ DispatchTables.tables, tableOk DispatchTables.archMask t = true := by
  decide +kernel

/-- exactly the tables the configuration requires exist (kernels at a presumed level are called directly). -/
theorem tables_complete :
    DispatchTables.tables.map (·.1) = expectedTableNames (presumedLevel DispatchTables.presume) := by
  decide +kernel

/-- symbol level lookup: 0 for the portable symbol. -/
def levelOf (k : KernelSpec) (s : String) : Nat :=
  match k.levels.find? (fun ls => ls.2 == s) with
  | some ls => ls.1
  | none => 0

/-- at arch index `a` a table never holds a kernel that needs more than level `a`, and from a kernel's level
    on it holds SIMD code. -/
theorem symbolAt_level : ∀ k ∈ floatSpecs, ∀ a ∈ List.range 5,
    levelOf k (symbolAt k a) ≤ a ∧ (∀ ls ∈ k.levels, ls.1 ≤ a → symbolAt k a ≠ k.base) := by
  decide +kernel

/-- no NULL entry is reachable: every arch value `opus_select_arch` can return indexes a real function. -/
theorem tables_total : ∀ t ∈ DispatchTables.tables, ∀ a ∈ List.range 5, t.2.2.getD a "null" ≠ "null" := by
  decide +kernel

theorem archMask_covers : 4 ≤ DispatchTables.archMask := by decide

/-- tables of kernels that compute in floating point (all others are integer kernels, required bit-exact). -/
def floatTables : List String :=
  ["PITCH_XCORR_IMPL", "XCORR_KERNEL_IMPL", "CELT_INNER_PROD_IMPL", "DUAL_INNER_PROD_IMPL", "COMB_FILTER_CONST_IMPL",
   "OP_PVQ_SEARCH_IMPL", "SILK_INNER_PRODUCT_FLP_IMPL"]

/-- below the AVX2 level every float kernel table holds one and the same function. -/
theorem float_tables_const_below_avx2 : ∀ t ∈ DispatchTables.tables, t.1 ∈ floatTables →
    ∀ a ∈ List.range 4, t.2.2[a]? = t.2.2[0]? := by
  decide +kernel

theorem selectArch_le (f : CpuFeature) (cap : Option Nat) : selectArch f cap ≤ selectArchImpl f := by
  cases cap with
  | none => exact Nat.le_refl _
  | some c => rw [selectArch_eq_min]; exact Nat.min_le_right _ _

/-- the CPU has every feature set up to level `l` (1 = SSE, 2 = SSE2, 3 = SSE4.1, 4 = AVX2). -/
def hasLevel (f : CpuFeature) (l : Nat) : Prop :=
  (1 ≤ l → f.sse = true) ∧ (2 ≤ l → f.sse2 = true) ∧ (3 ≤ l → f.sse41 = true) ∧ (4 ≤ l → f.avx2 = true)

theorem hasLevel_of_le (f : CpuFeature) (l : Nat) (h : l ≤ selectArchImpl f) : hasLevel f l := by
  obtain ⟨h1, h2, h3, h4⟩ := selectArchImpl_spec f
  refine ⟨fun hl => h1.mp (by omega), fun hl => (h2.mp (by omega)).2, fun hl => (h3.mp (by omega)).2.2,
    fun hl => (h4.mp (by omega)).2.2.2⟩

/-- explicit shape of every regenerated table, entry by entry. -/
theorem tables_entries : ∀ t ∈ DispatchTables.tables, ∃ k ∈ floatSpecs, k.table = t.1 ∧
    t.2.1 = DispatchTables.archMask + 1 ∧ t.2.2.length = DispatchTables.archMask + 1 ∧
    (∀ a ∈ List.range 5, t.2.2[a]? = some (symbolAt k a)) ∧
    (∀ a ∈ List.range (DispatchTables.archMask + 1), 4 < a → t.2.2[a]? = some "null") := by
  decide +kernel

/-- what `symbolAt` means: the portable symbol strictly below the kernel's lowest SIMD level, a SIMD symbol whose
    level is the largest one not above the index from there on. -/
theorem symbolAt_meaning : ∀ k ∈ floatSpecs, ∀ a ∈ List.range 5,
    ((∀ ls ∈ k.levels, a < ls.1) → symbolAt k a = k.base) ∧
    (∀ ls ∈ k.levels, ls.1 ≤ a → ∃ ms ∈ k.levels, symbolAt k a = ms.2 ∧ ls.1 ≤ ms.1 ∧ ms.1 ≤ a) := by
  decide +kernel

/-- the entry a table holds at any arch value `opus_select_arch` can return needs no feature the CPU lacks. -/
theorem dispatch_level_le (f : CpuFeature) (cap : Option Nat) :
    ∀ t ∈ DispatchTables.tables, ∀ k ∈ floatSpecs, k.table = t.1 →
      levelOf k (t.2.2.getD (selectArch f cap) "null") ≤ selectArchImpl f ∧
      t.2.2.getD (selectArch f cap) "null" ≠ "null" := by
  have hle := selectArch_le f cap
  have h4 := selectArchImpl_le f
  have key : ∀ a ∈ List.range 5, ∀ t ∈ DispatchTables.tables, ∀ k ∈ floatSpecs, k.table = t.1 →
      levelOf k (t.2.2.getD a "null") ≤ a ∧ t.2.2.getD a "null" ≠ "null" := by decide +kernel
  intro t ht k hk hkt
  have ha : selectArch f cap ∈ List.range 5 := List.mem_range.mpr (by omega)
  obtain ⟨h1, h2⟩ := key _ ha t ht k hk hkt
  exact ⟨by omega, h2⟩

end Opus.Kernels
