import OpusProofs.RepackProps
/-
  C07 helper lemmas, part 10: the multistream variants, per stream.  A multistream packet is the
  concatenation of self-delimited packets followed by one standard packet (RFC 6716 Appendix B).
-/
namespace Opus.RepackProofs
open Opus Opus.Framing Opus.FramingSpec Opus.FramingProofs Opus.Repack Opus.Ext

/-- Serialisation of a multistream packet: every stream but the last is self-delimited. -/
def msSerialize : List Packet → Bytes
  | [] => []
  | [p] => serialize false p
  | p :: q :: ps => serialize true p ++ msSerialize (q :: ps)

theorem msSerialize_cons (p : Packet) (ps : List Packet) :
    msSerialize (p :: ps) = serialize (decide (ps ≠ [])) p ++ msSerialize ps := by
  cases ps with
  | nil => simp [msSerialize]
  | cons q qs => simp [msSerialize]

theorem outPacket_nopad_sd (toc : Nat) (frames : List Bytes) (maxlen : Int) (sd : Bool) :
    outPacket toc frames maxlen sd false = canonPacket toc frames := by
  simp [canonPacket, outPacket, useLow, highPacket]

theorem serialize_length_pos (sd : Bool) (p : Packet) : 0 < (serialize sd p).length := by
  obtain ⟨t, ht⟩ := serialize_cons sd p []
  simp only [List.append_nil] at ht; rw [ht]; simp

/-- One stream of `opus_multistream_packet_unpad`: cat + clear paddings + out. -/
theorem unpad_stream (sd : Bool) (p : Packet) (hv : Valid p) (maxlen : Nat) (hm : (serialize sd p).length ≤ maxlen) :
    ∃ rp, catImpl (init Rp.empty) (serialize sd p) sd = (rp, .ok ()) ∧
      outRangeImpl { rp with pads := rp.pads.map fun _ => (([] : Bytes), 0) } 0
        ({ rp with pads := rp.pads.map fun _ => (([] : Bytes), 0) } : Rp).nbFrames maxlen sd false #[] =
        .ok (serialize sd (canonPacket p.toc p.frames)) := by
  have hne := valid_ne p hv
  have hcat := cat_first sd p hv [] (fun _ => rfl)
  simp only [List.append_nil] at hcat
  refine ⟨firstState p, hcat, ?_⟩
  have hnb : ({ firstState p with pads := (firstState p).pads.map fun _ => (([] : Bytes), 0) } : Rp).nbFrames = p.frames.length := rfl
  have hpos : 0 < p.frames.length := List.length_pos_iff.mpr hne
  have hout := outRangeImpl_noext { firstState p with pads := (firstState p).pads.map fun _ => (([] : Bytes), 0) }
    0 p.frames.length hpos (by rw [hnb]; exact Nat.le_refl _) (extFree_cleared _) maxlen sd false
  have hsel : selFrames { firstState p with pads := (firstState p).pads.map fun _ => (([] : Bytes), 0) } 0 p.frames.length = p.frames := by
    simp [selFrames, firstState]
  rw [hsel] at hout
  have hmin := minSize_minimal sd p hv
  simp only [Packet.lens] at hmin
  rw [if_neg (by omega)] at hout
  rw [hnb]
  simp only [Int.ofNat_zero] at hout ⊢
  rw [hout, outPacket_nopad_sd]; rfl

/-- `opus_multistream_packet_unpad` unpads every stream to its canonical packet. -/
theorem msUnpadLoop_serialize (ps : List Packet) (hv : ∀ p ∈ ps, Valid p) (acc : Bytes) :
    msUnpadLoop ps.length (msSerialize ps) acc = .ok (acc ++ msSerialize (ps.map fun p => canonPacket p.toc p.frames)) := by
  induction ps generalizing acc with
  | nil => simp [msUnpadLoop, msSerialize]
  | cons p ps ih =>
    have hvp := hv p (by simp)
    have hsd : (ps.length ≠ 0) = (ps ≠ []) := by simp
    rw [msSerialize_cons]
    simp only [List.length_cons, msUnpadLoop]
    have hdec : decide (ps.length ≠ 0) = decide (ps ≠ []) := by simp
    rw [hdec]
    generalize hsdv : decide (ps ≠ []) = sd
    have hrest : sd = false → msSerialize ps = [] := by
      intro h; subst hsdv
      cases ps with
      | nil => rfl
      | cons => simp at h
    have hparse := parse_complete sd p hvp (msSerialize ps) hrest
    have hpos := serialize_length_pos sd p
    rw [if_neg (by rw [List.length_append]; omega), hparse]
    have hpo : (view sd p).packetOffset = (serialize sd p).length := rfl
    simp only [hpo]
    rw [if_neg (by rw [List.length_append]; omega)]
    rw [List.take_left]
    obtain ⟨rp, hcat, hout⟩ := unpad_stream sd p hvp (serialize sd p ++ msSerialize ps).length (by simp)
    rw [hcat]
    simp only []
    rw [hout]
    simp only [List.drop_left]
    rw [ih (fun q hq => hv q (by simp [hq]))]
    rw [List.map_cons, msSerialize_cons]
    simp [hsdv, List.append_assoc]

theorem msUnpad_serialize (ps : List Packet) (hne : ps ≠ []) (hv : ∀ p ∈ ps, Valid p) :
    msUnpad (msSerialize ps) ps.length = .ok (msSerialize (ps.map fun p => canonPacket p.toc p.frames)) := by
  have hpos : 1 ≤ (msSerialize ps).length := by
    cases ps with
    | nil => exact absurd rfl hne
    | cons p qs =>
      rw [msSerialize_cons]
      have := serialize_length_pos (decide (qs ≠ [])) p
      rw [List.length_append]; omega
  unfold msUnpad
  rw [if_neg (by omega)]
  simp only [Int.toNat_natCast]
  have := msUnpadLoop_serialize ps hv []
  simpa using this

/-! ### multistream pad -/

/-- A multistream packet as prefix streams (self-delimited) and the last stream. -/
def msJoin (pre : List Packet) (last : Packet) : Bytes := pre.flatMap (serialize true) ++ serialize false last

theorem msSerialize_join (pre : List Packet) (last : Packet) : msSerialize (pre ++ [last]) = msJoin pre last := by
  induction pre with
  | nil => simp [msSerialize, msJoin]
  | cons p ps ih =>
    rw [List.cons_append, msSerialize_cons, ih]
    simp [msJoin]

theorem seekLast_spec (pre : List Packet) (hv : ∀ p ∈ pre, Valid p) (front tail : Bytes) :
    seekLast pre.length (front ++ (pre.flatMap (serialize true) ++ tail)) front.length =
      .ok (front.length + (pre.flatMap (serialize true)).length) := by
  induction pre generalizing front with
  | nil => simp [seekLast]
  | cons p ps ih =>
    have hvp := hv p (by simp)
    have hpos := serialize_length_pos true p
    simp only [List.length_cons, seekLast, List.flatMap_cons]
    rw [if_neg (by simp only [List.length_append]; omega)]
    rw [List.drop_left]
    have hparse := parse_complete true p hvp (ps.flatMap (serialize true) ++ tail) (fun h => by cases h)
    rw [List.append_assoc, hparse]
    simp only []
    have hpo : (view true p).packetOffset = (serialize true p).length := rfl
    rw [hpo]
    have := ih (fun q hq => hv q (by simp [hq])) (front ++ serialize true p)
    simp only [List.length_append, List.append_assoc] at this ⊢
    rw [this]; congr 1; omega

/-- `opus_multistream_packet_pad`: all the padding goes to the last stream, the others are untouched. -/
theorem msPad_serialize (pre : List Packet) (last : Packet) (hv : ∀ p ∈ pre, Valid p) (hl : Valid last)
    (hfree : PadFree last) (newLen : Int) (hgt : ((msJoin pre last).length : Int) < newLen) :
    msPad (msJoin pre last) newLen (pre.length + 1 : Nat) =
      .ok (pre.flatMap (serialize true) ++
           serialize false (outPacket last.toc last.frames
             ((serialize false last).length + (newLen - (msJoin pre last).length)) false true)) := by
  have hpos := serialize_length_pos false last
  have hlen : (msJoin pre last).length = (pre.flatMap (serialize true)).length + (serialize false last).length := by
    simp [msJoin]
  unfold msPad
  rw [if_neg (by omega), if_neg (by omega), if_neg (by omega)]
  have hk : ((((pre.length + 1 : Nat) : Int) - 1).toNat) = pre.length := by omega
  rw [hk]
  have hs := seekLast_spec pre hv [] (serialize false last)
  simp only [List.nil_append, List.length_nil, Nat.zero_add] at hs
  unfold msJoin at hlen hgt ⊢
  rw [hs]
  simp only []
  rw [if_neg (by simp only [List.length_append]; omega)]
  rw [List.drop_left, List.take_left]
  have hp := pad_serialize last hl hfree ((serialize false last).length + (newLen - (pre.flatMap (serialize true) ++ serialize false last).length))
    (by rw [hlen]; omega)
  rw [hp]

end Opus.RepackProofs
