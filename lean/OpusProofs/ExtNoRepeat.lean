import OpusProofs.ExtScan
/-
  C16 helper lemmas, part 10: on lists without a repeat-eligible first extension the generator emits
  the canonical serialisation `serBytes` of the frame-sorted list.
-/
set_option linter.unusedVariables false
namespace Opus.ExtProofs
open Opus Opus.Ext

theorem detect_norep (exts : Array Ext) (nbF : Nat) (hv : ∀ (j : Nat) (e : Ext), exts[j]? = some e → ValidExt nbF e)
    (mn mx : List Nat) (hI : ScanInv exts nbF exts.size mn mx) (hnr : NoRepeat exts nbF) (f : Nat) (hf : f + 1 < nbF) :
    detectLoop exts mx nbF f (mn.getD f 0) (mx.getD f 0) { rep := mn, repeatCount := 0, lastLong := none } =
      .ok { rep := mn, repeatCount := 0, lastLong := none } := by
  rw [detectLoop]
  by_cases hlt : mn.getD f 0 < mx.getD f 0
  · simp only [hlt, if_true]
    obtain ⟨e, he⟩ := (scan_first hI (by omega : f < nbF)).1 hlt
    have hrd : rdE exts (mn.getD f 0) = .ok e := by simp only [rdE]; rw [he.1]
    rw [hrd]
    simp only
    have hve := hv _ _ he.1
    have hfe : e.frame = (f : Int) := by have := hve.fr_lo; have := he.2.1; omega
    simp only [hfe, if_true]
    obtain ⟨g, hg1, hg2, hw⟩ := hnr f _ e hf he
    rw [canRepeat_false exts nbF hv mn mx hI e g hg2 hw (f + 1) (by omega)]
  · simp only [hlt, if_false]

/-- The action sequence of a list written one extension after the other, no repeats:
    `cur` = frame of the previous extension, `w` = number of extensions written so far,
    `n` = total number (the last one is written with `last = 1`). -/
def serOps (n : Nat) : List Ext → Nat → Nat → List Op
  | [], _, _ => []
  | e :: l, cur, w =>
    (wSep e.frame.toNat cur).ops ++ (wExt e ((w : Int) = (n : Int) - 1)).ops ++ serOps n l e.frame.toNat (w + 1)

/-- Frame of the last extension of `l` (or `cur`). -/
def lastFrame (cur : Nat) : List Ext → Nat
  | [] => cur
  | e :: l => lastFrame e.frame.toNat l

theorem serOps_append (n : Nat) (a b : List Ext) (cur w : Nat) :
    serOps n (a ++ b) cur w = serOps n a cur w ++ serOps n b (lastFrame cur a) (w + a.length) := by
  induction a generalizing cur w with
  | nil => simp [serOps, lastFrame]
  | cons e a ih =>
    simp only [List.cons_append, serOps, lastFrame, ih, List.append_assoc, List.length_cons]
    congr 4; omega

theorem lastFrame_append (cur : Nat) (a b : List Ext) : lastFrame cur (a ++ b) = lastFrame (lastFrame cur a) b := by
  induction a generalizing cur with
  | nil => rfl
  | cons e a ih => simp [lastFrame, ih]

/-- `extensions[i..hi)` restricted to frame `f`. -/
def seg (exts : Array Ext) (i hi f : Nat) : List Ext :=
  ((exts.toList.drop i).take (hi - i)).filter (fun e => e.frame.toNat = f)

theorem seg_step (exts : Array Ext) (i hi f : Nat) (e : Ext) (hlt : i < hi) (he : exts[i]? = some e) :
    seg exts i hi f = (if e.frame.toNat = f then [e] else []) ++ seg exts (i + 1) hi f := by
  have hi' : i < exts.toList.length := by
    apply Decidable.byContradiction; intro hc
    rw [Array.getElem?_eq_none (by simpa using hc)] at he; cases he
  have hget : exts.toList[i] = e := by
    have : exts[i]? = some exts.toList[i] := by simp [Array.getElem?_eq_getElem (by simpa using hi')]
    rw [he] at this; simpa using this.symm
  unfold seg
  rw [List.drop_eq_getElem_cons hi', show hi - i = (hi - (i + 1)) + 1 by omega, List.take_succ_cons,
    List.filter_cons, hget]
  by_cases hfe : e.frame.toNat = f <;> simp [hfe]

theorem wExt_ok {nbF : Nat} {e : Ext} (hv : ValidExt nbF e) (last : Bool) : (wExt e last).res = .ok () := by
  have h1 := hv.id_lo; have h2 := hv.id_hi; have h3 := hv.len_lo
  have hid : (3 ≤ e.id ∧ e.id ≤ 127) := ⟨h1, h2⟩
  simp only [wExt, W.bind_eq, W.bind, W.emit, hid, not_true_eq_false, if_false, and_self]
  unfold wPayload
  simp only [hid, not_true_eq_false, if_false, and_self]
  by_cases hs : e.id < 32
  · have := hv.short hs
    have c : ¬ (e.len < 0 ∨ e.len > 1) := by omega
    simp only [hs, if_true, c, if_false]
    split <;> rfl
  · have c : ¬ (e.len < 0) := by omega
    simp only [hs, if_false, c]
    rfl

theorem W.lift_ok_bind {α β : Type} (a : α) (f : α → W β) : (W.lift (.ok a) >>= f) = f a := by
  simp only [W.bind_eq, W.bind, W.lift, List.nil_append]

theorem W.bind_of_ok {α β : Type} {x : W α} {a : α} (f : α → W β) (h : x.res = .ok a) :
    (x >>= f) = { ops := x.ops ++ (f a).ops, res := (f a).res } := by
  simp only [W.bind_eq, W.bind, h]

/-- The emission loop of one frame when nothing is repeated. -/
theorem wFrameLoop_norep (exts : Array Ext) (nbF f : Nat) (hv : ∀ (j : Nat) (e : Ext), exts[j]? = some e → ValidExt nbF e)
    (det : Det) (hdet : det.repeatCount = 0) (i hi : Nat) (s : GSt) (hle : hi ≤ exts.size) :
    wFrameLoop exts nbF f det i hi s =
      { ops := serOps exts.size (seg exts i hi f) s.currFrame s.written,
        res := .ok { s with written := s.written + (seg exts i hi f).length,
                            currFrame := lastFrame s.currFrame (seg exts i hi f) } } := by
  fun_induction wFrameLoop exts nbF f det i hi s with
  | case1 i s hlt ih3 ih2 ih1 =>
    have hin : i < exts.size := by omega
    have hget : exts[i]? = some exts[i] := by simp [hin]
    have hrd : rdE exts i = .ok exts[i] := by simp only [rdE]; rw [hget]
    have hve := hv i _ hget
    rw [hrd, W.lift_ok_bind, seg_step exts i hi f _ hlt hget]
    by_cases hfe : exts[i].frame = (f : Int)
    · have hfn : exts[i].frame.toNat = f := by omega
      simp only [hfe, if_true]
      have hsep : (wSep f s.currFrame).res = .ok () := by
        unfold wSep; split
        · simp only; split <;> rfl
        · rfl
      rw [W.bind_of_ok _ hsep, W.bind_of_ok _ (wExt_ok hve _)]
      have hnr : ¬ (0 < det.repeatCount ∧ s.repIdx[f]? = some i) := by omega
      simp only [hnr, if_false]
      rw [ih2 exts[i]]
      have hff : ((f : Int)).toNat = f := by omega
      simp only [hff, if_true, List.cons_append, List.nil_append, serOps, lastFrame, List.length_cons, List.append_assoc, hfn]
      have e1 : s.written + 1 + (seg exts (i + 1) hi f).length = s.written + ((seg exts (i + 1) hi f).length + 1) := by omega
      rw [e1]
    · have hfn : ¬ exts[i].frame.toNat = f := by have := hve.fr_lo; omega
      simp only [hfe, hfn, if_false, List.nil_append]
      exact ih1
  | case2 i s hge =>
    have : seg exts i hi f = [] := by
      unfold seg
      have : hi - i = 0 := by omega
      simp [this]
    rw [this]
    simp [serOps, lastFrame, W.pure_eq]

/-- All extensions of frame `g`, in array order. -/
def allOf (exts : Array Ext) (g : Nat) : List Ext := exts.toList.filter (fun e => e.frame.toNat = g)

/-- Frames `f, f+1, …, nbF-1` one after the other: the stable sort by frame (from frame `f` on). -/
def sortedFrom (exts : Array Ext) (nbF f : Nat) : List Ext := (List.range' f (nbF - f)).flatMap (allOf exts)

theorem list_split3 {α : Type} (l : List α) (a b : Nat) (h : a ≤ b) :
    l = l.take a ++ ((l.drop a).take (b - a) ++ l.drop b) := by
  have h1 := (List.take_append_drop a l).symm
  have h2 := (List.take_append_drop (b - a) (l.drop a)).symm
  rw [List.drop_drop, show a + (b - a) = b by omega] at h2
  rw [← h2]; exact h1

theorem seg_all {exts : Array Ext} {nbF : Nat} {mn mx : List Nat} (hI : ScanInv exts nbF exts.size mn mx)
    {f : Nat} (hf : f < nbF) : seg exts (mn.getD f 0) (mx.getD f 0) f = allOf exts f := by
  have hcov := fun (j : Nat) (e : Ext) (h1 : j < exts.size) (h2 : exts[j]? = some e) (h3 : e.frame.toNat = f) => hI.cover j e h1 h2 f h3 hf
  have hmx := hI.mxle f hf
  have hsf := scan_first hI hf
  generalize mn.getD f 0 = lo at *
  generalize mx.getD f 0 = hi at *
  unfold seg allOf
  by_cases hlt : lo < hi
  · conv => rhs; rw [list_split3 exts.toList lo hi (by omega)]
    rw [List.filter_append, List.filter_append]
    have h1 : (exts.toList.take lo).filter (fun e => e.frame.toNat = f) = [] := by
      rw [List.filter_eq_nil_iff]
      intro a ha
      obtain ⟨j, hj⟩ := List.mem_iff_getElem?.mp ha
      rw [List.getElem?_take] at hj
      split at hj
      · rename_i hjl
        have hj' : exts[j]? = some a := by simpa using hj
        obtain ⟨x, hx⟩ := hsf.1 hlt
        intro hp
        exact hx.2.2 j a hjl hj' (by simpa using hp)
      · cases hj
    have h2 : (exts.toList.drop hi).filter (fun e => e.frame.toNat = f) = [] := by
      rw [List.filter_eq_nil_iff]
      intro a ha
      obtain ⟨j, hj⟩ := List.mem_iff_getElem?.mp ha
      rw [List.getElem?_drop] at hj
      have hj' : exts[hi + j]? = some a := by simpa using hj
      have hjn : hi + j < exts.size := by
        apply Decidable.byContradiction; intro hc
        rw [Array.getElem?_eq_none (by omega)] at hj'; cases hj'
      intro hp
      have := hcov _ a hjn hj' (by simpa using hp)
      omega
    rw [h1, h2]; simp
  · have hemp := hsf.2 hlt
    have : hi - lo = 0 := by omega
    rw [this]
    simp only [List.take_zero, List.filter_nil]
    symm
    rw [List.filter_eq_nil_iff]
    intro a ha hp
    obtain ⟨j, hj⟩ := List.mem_iff_getElem?.mp ha
    exact hemp j a (by simpa using hj) (by simpa using hp)

/-- The outer loop over frames when nothing is repeated. -/
theorem wFramesLoop_norep (exts : Array Ext) (nbF : Nat) (hv : ∀ (j : Nat) (e : Ext), exts[j]? = some e → ValidExt nbF e)
    (mn mx : List Nat) (hI : ScanInv exts nbF exts.size mn mx) (hnr : NoRepeat exts nbF) (f : Nat) (s : GSt) :
    s.minIdx = mn → s.repIdx = mn →
    wFramesLoop exts nbF mx f s =
      { ops := serOps exts.size (sortedFrom exts nbF f) s.currFrame s.written,
        res := .ok { s with written := s.written + (sortedFrom exts nbF f).length,
                            currFrame := lastFrame s.currFrame (sortedFrom exts nbF f) } } := by
  fun_induction wFramesLoop exts nbF mx f s with
  | case1 f s hlt ih =>
    intro hmin hrep
    have hr1 : rdN s.minIdx f = .ok (mn.getD f 0) := by rw [hmin]; exact rdN_getD (by rw [hI.lmn]; exact hlt)
    have hr2 : rdN mx f = .ok (mx.getD f 0) := rdN_getD (by rw [hI.lmx]; exact hlt)
    rw [hr1, W.lift_ok_bind, hr2, W.lift_ok_bind]
    have hdet : (if f + 1 < nbF then detectLoop exts mx nbF f (mn.getD f 0) (mx.getD f 0)
          { rep := s.repIdx, repeatCount := 0, lastLong := none }
        else Res.ok { rep := s.repIdx, repeatCount := 0, lastLong := none }) =
        .ok { rep := mn, repeatCount := 0, lastLong := none } := by
      rw [hrep]
      split
      · rename_i h; exact detect_norep exts nbF hv mn mx hI hnr f h
      · rfl
    simp only
    rw [hdet, W.lift_ok_bind]
    have hmxle : mx.getD f 0 ≤ exts.size := hI.mxle f hlt
    have hs : ({ s with repIdx := mn } : GSt) = s := by rw [← hrep]
    rw [hs, wFrameLoop_norep exts nbF f hv _ rfl _ _ s hmxle, seg_all hI hlt]
    rw [W.bind_of_ok _ rfl]
    simp only
    rw [ih _ (by exact hmin) (by exact hrep)]
    have hsf : sortedFrom exts nbF f = allOf exts f ++ sortedFrom exts nbF (f + 1) := by
      unfold sortedFrom
      rw [show nbF - f = (nbF - (f + 1)) + 1 by omega, List.range'_succ, List.flatMap_cons]
    rw [hsf, serOps_append, lastFrame_append]
    simp only [List.length_append]
    congr 3
    omega
  | case2 f s hge =>
    intro _ _
    have : sortedFrom exts nbF f = [] := by
      unfold sortedFrom
      have : nbF - f = 0 := by omega
      rw [this]; rfl
    rw [this]
    simp [serOps, lastFrame, W.pure_eq]

/-! ### The sorted list -/

theorem length_filter_lt_succ (l : List Ext) (m : Nat) :
    (l.filter (fun e => e.frame.toNat < m + 1)).length =
      (l.filter (fun e => e.frame.toNat < m)).length + (l.filter (fun e => e.frame.toNat = m)).length := by
  induction l with
  | nil => rfl
  | cons e l ih =>
    by_cases h1 : e.frame.toNat = m
    · have p1 : decide (e.frame.toNat < m + 1) = true := decide_eq_true (by omega)
      have p2 : decide (e.frame.toNat < m) = false := decide_eq_false (by omega)
      have p3 : decide (e.frame.toNat = m) = true := decide_eq_true h1
      simp only [List.filter_cons, p1, p2, p3, if_true, Bool.false_eq_true, if_false, List.length_cons]; omega
    · by_cases h2 : e.frame.toNat < m
      · have p1 : decide (e.frame.toNat < m + 1) = true := decide_eq_true (by omega)
        have p2 : decide (e.frame.toNat < m) = true := decide_eq_true h2
        have p3 : decide (e.frame.toNat = m) = false := decide_eq_false h1
        simp only [List.filter_cons, p1, p2, p3, if_true, Bool.false_eq_true, if_false, List.length_cons]; omega
      · have p1 : decide (e.frame.toNat < m + 1) = false := decide_eq_false (by omega)
        have p2 : decide (e.frame.toNat < m) = false := decide_eq_false h2
        have p3 : decide (e.frame.toNat = m) = false := decide_eq_false h1
        simp only [List.filter_cons, p1, p2, p3, Bool.false_eq_true, if_false]; exact ih

theorem sortedFrom_length_aux (exts : Array Ext) (nbF : Nat) : ∀ k f, f + k = nbF →
    (sortedFrom exts nbF f).length + (exts.toList.filter (fun e => e.frame.toNat < f)).length =
      (exts.toList.filter (fun e => e.frame.toNat < nbF)).length := by
  intro k
  induction k with
  | zero =>
    intro f hf
    have : f = nbF := by omega
    subst this
    simp [sortedFrom]
  | succ k ih =>
    intro f hf
    have := ih (f + 1) (by omega)
    have hsf : sortedFrom exts nbF f = allOf exts f ++ sortedFrom exts nbF (f + 1) := by
      unfold sortedFrom
      rw [show nbF - f = (nbF - (f + 1)) + 1 by omega, List.range'_succ, List.flatMap_cons]
    rw [hsf, List.length_append]
    have := length_filter_lt_succ exts.toList f
    unfold allOf
    omega

theorem sortedFrom_length (exts : Array Ext) (nbF : Nat) (hv : ∀ (j : Nat) (e : Ext), exts[j]? = some e → ValidExt nbF e) :
    (sortedFrom exts nbF 0).length = exts.size := by
  have := sortedFrom_length_aux exts nbF nbF 0 (by omega)
  have h0 : (exts.toList.filter (fun e => e.frame.toNat < 0)).length = 0 := by
    rw [List.length_eq_zero_iff, List.filter_eq_nil_iff]
    intro a _; rw [decide_eq_true_eq]; omega
  have h1 : exts.toList.filter (fun e => e.frame.toNat < nbF) = exts.toList := by
    rw [List.filter_eq_self]
    intro a ha
    obtain ⟨j, hj⟩ := List.mem_iff_getElem?.mp ha
    have hva := hv j a (by simpa using hj)
    have := hva.fr_lo; have := hva.fr_hi
    rw [decide_eq_true_eq]; omega
  rw [h0, h1, Array.length_toList] at this
  omega

theorem mem_sortedFrom {exts : Array Ext} {nbF f : Nat} {e : Ext} (h : e ∈ sortedFrom exts nbF f) :
    e ∈ exts.toList ∧ f ≤ e.frame.toNat := by
  unfold sortedFrom at h
  rw [List.mem_flatMap] at h
  obtain ⟨g, hg, he⟩ := h
  unfold allOf at he
  rw [List.mem_filter] at he
  rw [List.mem_range'_1] at hg
  refine ⟨he.1, ?_⟩
  have := he.2; simp at this; omega

theorem frameSorted_append {cur : Nat} {a b : List Ext} (ha : FrameSorted cur a) (hb : FrameSorted (lastFrame cur a) b) :
    FrameSorted cur (a ++ b) := by
  induction a generalizing cur with
  | nil => exact hb
  | cons e a ih => exact ⟨ha.1, ih ha.2 hb⟩

theorem frameSorted_const {cur f : Nat} {l : List Ext} (hc : cur ≤ f) (h : ∀ e ∈ l, e.frame.toNat = f) :
    FrameSorted cur l ∧ lastFrame cur l ≤ f := by
  induction l generalizing cur with
  | nil => exact ⟨trivial, hc⟩
  | cons e l ih =>
    have he := h e (List.mem_cons_self ..)
    have := ih (cur := e.frame.toNat) (by omega) (fun x hx => h x (List.mem_cons_of_mem _ hx))
    exact ⟨⟨by omega, this.1⟩, this.2⟩

theorem frameSorted_sortedFrom (exts : Array Ext) (nbF : Nat) : ∀ k f cur, f + k = nbF → cur ≤ f →
    FrameSorted cur (sortedFrom exts nbF f) := by
  intro k
  induction k with
  | zero =>
    intro f cur hf _
    have : nbF - f = 0 := by omega
    simp [sortedFrom, this, FrameSorted]
  | succ k ih =>
    intro f cur hf hc
    have hsf : sortedFrom exts nbF f = allOf exts f ++ sortedFrom exts nbF (f + 1) := by
      unfold sortedFrom
      rw [show nbF - f = (nbF - (f + 1)) + 1 by omega, List.range'_succ, List.flatMap_cons]
    rw [hsf]
    have hall : ∀ e ∈ allOf exts f, e.frame.toNat = f := by
      intro e he; unfold allOf at he; rw [List.mem_filter] at he; simpa using he.2
    obtain ⟨h1, h2⟩ := frameSorted_const hc hall
    exact frameSorted_append h1 (ih (f + 1) _ (by omega) (by omega))

/-! ### Bytes written -/

theorem content_append (dry : Bool) (a b : List Op) : content dry (a ++ b) = content dry a ++ content dry b := by
  induction a with
  | nil => rfl
  | cons o a ih => cases o <;> simp [content, ih]

theorem content_puts (k b : Nat) : content false (List.replicate k (Op.put b)) = List.replicate k b := by
  induction k with
  | zero => rfl
  | succ k ih => simp [List.replicate_succ, content, ih]

theorem wSep_content {f cur : Nat} (h1 : cur ≤ f) (h2 : f < 256) : content false (wSep f cur).ops = sepBytes f cur := by
  unfold wSep sepBytes
  by_cases hfc : f = cur
  · simp only [hfc, ne_eq, not_true_eq_false, if_false, if_true, W.pure_eq, content]
  · simp only [hfc, if_false, ne_eq, not_false_eq_true, if_true]
    by_cases h1' : f = cur + 1
    · have hd : ((f : Int) - (cur : Int) = 1) := by omega
      simp only [if_true, h1', W.emit]
      all_goals (try simp only [show ((cur + 1 : Nat) : Int) - (cur : Int) = 1 by omega, if_true, content, Bool.false_eq_true, if_false])
    · have hd : ¬ ((f : Int) - (cur : Int) = 1) := by omega
      simp only [hd, h1', if_false, W.emit, content, Bool.false_eq_true]
      have : (((f : Int) - (cur : Int)) % 256).toNat = f - cur := by omega
      rw [this]

theorem wExt_content {nbF : Nat} {e : Ext} (hv : ValidExt nbF e) (last : Bool) :
    content false (wExt e last).ops = extBytes e last := by
  have h1 := hv.id_lo; have h2 := hv.id_hi; have h3 := hv.len_lo
  have hid : (3 ≤ e.id ∧ e.id ≤ 127) := ⟨h1, h2⟩
  simp only [wExt, W.bind_eq, W.bind, W.emit, hid, not_true_eq_false, if_false, and_self]
  unfold wPayload extBytes idByte payload
  simp only [hid, not_true_eq_false, if_false, and_self]
  by_cases hs : e.id < 32
  · have hl := hv.short hs
    have c : ¬ (e.len < 0 ∨ e.len > 1) := by omega
    have hb : ((e.id * 2 + e.len) % 256).toNat = (e.id * 2 + e.len).toNat := by omega
    simp only [hs, if_true, c, if_false, true_or]
    by_cases hl1 : e.len > 0
    · have : e.len.toNat = 1 := by omega
      simp only [hl1, if_true, W.emit, List.cons_append, List.nil_append, content, Bool.false_eq_true, if_false, hb, this]
      simp
    · have : e.len.toNat = 0 := by omega
      simp [hl1, W.pure_eq, content, hb, this]
  · have c : ¬ (e.len < 0) := by omega
    simp only [hs, if_false, c, false_or]
    cases last with
    | true =>
      have hb : ((e.id * 2 + 0) % 256).toNat = (e.id * 2 + 0).toNat := by omega
      have hb' : (e.id * 2 % 256).toNat = (e.id * 2).toNat := by omega
      simp [W.emit, content, hb']
    | false =>
      have hb : ((e.id * 2 + 1) % 256).toNat = (e.id * 2 + 1).toNat := by omega
      simp only [Bool.false_eq_true, if_false, W.emit, List.cons_append, List.nil_append, content, hb,
        content_append, content_puts, lenBytes, List.append_assoc]
      have hq : (e.len / 255).toNat = e.len.toNat / 255 := by omega
      have hm : (e.len % 255).toNat = e.len.toNat % 255 := by omega
      rw [hq, hm]
      simp

/-- The action sequence of a sorted list writes its canonical serialisation. -/
theorem serOps_content (nbF : Nat) (hnf : nbF ≤ 48) (n : Nat) : ∀ (l : List Ext) (cur w : Nat),
    (∀ e ∈ l, ValidExt nbF e) → FrameSorted cur l → w + l.length = n →
    content false (serOps n l cur w) = serBytes cur l := by
  intro l
  induction l with
  | nil => intro _ _ _ _ _; rfl
  | cons e l ih =>
    intro cur w hv hs hw
    have hve := hv e (List.mem_cons_self ..)
    have hfl := hve.fr_lo; have hfh := hve.fr_hi
    simp only [serOps, serBytes, content_append]
    rw [wSep_content hs.1 (by omega), wExt_content hve]
    rw [ih _ _ (fun x hx => hv x (List.mem_cons_of_mem _ hx)) hs.2 (by simp at hw; omega)]
    have hlast : decide ((w : Int) = (n : Int) - 1) = l.isEmpty := by
      cases l with
      | nil => simp at hw ⊢; omega
      | cons x xs => simp at hw ⊢; omega
    rw [hlast]

/-! ### The generator on lists without repeats -/

/-- Every array entry is a valid extension for `nbF` frames. -/
def AllValid (exts : Array Ext) (nbF : Nat) : Prop := ∀ (j : Nat) (e : Ext), exts[j]? = some e → ValidExt nbF e

theorem genOps_norep (exts : Array Ext) (nbF : Nat) (hv : AllValid exts nbF) (hnr : NoRepeat exts nbF) :
    genOps exts nbF = { ops := serOps exts.size (sortedFrom exts nbF 0) 0 0, res := .ok () } := by
  obtain ⟨mn, mx, hscan, hI⟩ := scanLoop_spec exts nbF hv 0 _ _ (scanInv_init exts nbF) (Nat.zero_le _)
  unfold genOps
  rw [hscan, W.lift_ok_bind]
  simp only
  rw [wFramesLoop_norep exts nbF hv mn mx hI hnr 0 _ rfl rfl, W.bind_of_ok _ rfl]
  simp only
  have hlen := sortedFrom_length exts nbF hv
  have : ¬ (0 + (sortedFrom exts nbF 0).length ≠ exts.size) := by omega
  simp only [this, if_false, W.pure_eq, List.append_nil]

theorem allValid_extsOk {exts : Array Ext} {nbF : Nat} (hv : AllValid exts nbF) : ExtsOk exts :=
  fun i e h => (hv i e h).data

/-- **Round trip without the repeat mechanism.**  For every array of valid extensions on which the
    generator finds nothing to repeat, and every buffer that is large enough: the generator writes
    the canonical serialisation of the stable sort by frame, and `parse` on those bytes returns exactly
    that sorted list — same IDs, frames, lengths and payload bytes, one entry per extension. -/
theorem generate_parse_norepeat (exts : Array Ext) (nbF : Nat) (hnf : nbF ≤ 48) (hv : AllValid exts nbF)
    (hnr : NoRepeat exts nbF) (len : Int)
    (hlen : ((serBytes 0 (sortedFrom exts nbF 0)).length : Int) ≤ len) (cap : Int) (hcap : (exts.size : Int) ≤ cap) :
    let bs := serBytes 0 (sortedFrom exts nbF 0)
    generate false len exts nbF false = .ok bs.toArray ∧
    ∃ refs, parse bs bs.length cap nbF = .ok refs ∧ refs.length = exts.size ∧
      refs.map (ExtRef.toExt bs) = (sortedFrom exts nbF 0).map normExt := by
  intro bs
  have hE := allValid_extsOk hv
  have hvs : ∀ e ∈ sortedFrom exts nbF 0, ValidExt nbF e := by
    intro e he
    obtain ⟨j, hj⟩ := List.mem_iff_getElem?.mp (mem_sortedFrom he).1
    exact hv j e (by simpa using hj)
  have hsorted := frameSorted_sortedFrom exts nbF nbF 0 0 (by omega) (Nat.le_refl _)
  have hslen := sortedFrom_length exts nbF hv
  have hg := genOps_norep exts nbF hv hnr
  have hcontent : content false (genOps exts nbF).ops = bs := by
    rw [hg]
    exact serOps_content nbF hnf exts.size _ 0 0 hvs hsorted (by omega)
  have hN := genOps_nice exts hE nbF
  have hsize : opsSize (genOps exts nbF).ops = bs.length := by
    rw [← content_length false _ (Or.inr hN.copy), hcontent]
  constructor
  · rw [generate_eq false len exts nbF false hE (by omega) (by omega)]
    simp only [Int.toNat_natCast]
    have hp : needsPass len 0 (genOps exts nbF).ops := by
      apply needsPass_of_req
      have := hN.hon () (by rw [hg])
      rw [hsize] at this
      have hbl : bs.length = (serBytes 0 (sortedFrom exts nbF 0)).length := rfl
      omega
    simp only [hp, if_true, hcontent]
    rw [hg]
    simp
  · obtain ⟨h1, h2⟩ := parse_ser (sortedFrom exts nbF 0) nbF hnf hvs hsorted cap (by omega)
    exact ⟨_, h1, by rw [serRefs_length, hslen], h2⟩

/-! ### Ways to establish the hypotheses -/

theorem validExt_iff (nbF : Nat) (e : Ext) : ValidExt nbF e ↔
    (3 ≤ e.id ∧ e.id ≤ 127 ∧ 0 ≤ e.frame ∧ e.frame < nbF ∧ 0 ≤ e.len ∧ (e.id < 32 → e.len ≤ 1) ∧ e.len ≤ e.data.length) :=
  ⟨fun h => ⟨h.id_lo, h.id_hi, h.fr_lo, h.fr_hi, h.len_lo, h.short, h.data⟩,
   fun ⟨a, b, c, d, e', f, g⟩ => ⟨a, b, c, d, e', f, g⟩⟩

instance (nbF : Nat) (e : Ext) : Decidable (ValidExt nbF e) := decidable_of_iff _ (validExt_iff nbF e).symm

theorem allValid_of_all (exts : Array Ext) (nbF : Nat) (h : ∀ e ∈ exts.toList, ValidExt nbF e) : AllValid exts nbF := by
  intro i e hi
  apply h e
  rw [Array.getElem?_eq_some_iff] at hi
  obtain ⟨hlt, rfl⟩ := hi
  simp

/-- A single frame has nothing to repeat into. -/
theorem noRepeat_one (exts : Array Ext) : NoRepeat exts 1 := by
  intro f i e hf _; omega

/-- If the last frame carries no extension, nothing can be repeated. -/
theorem noRepeat_last_empty (exts : Array Ext) (nbF : Nat) (h : ∀ e ∈ exts.toList, e.frame.toNat ≠ nbF - 1) :
    NoRepeat exts nbF := by
  intro f i e hf _
  refine ⟨nbF - 1, by omega, by omega, Or.inl ?_⟩
  intro j e' hj
  apply h e'
  rw [Array.getElem?_eq_some_iff] at hj
  obtain ⟨hlt, rfl⟩ := hj
  simp

end Opus.ExtProofs
