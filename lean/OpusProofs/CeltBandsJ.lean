import OpusProofs.CeltBandsAllocOps
import Mathlib.Tactic.Linarith
import Mathlib.Data.Nat.Sqrt
/-
  C03, stage 2b: the decoder invariant `J` (`val < 2^32`, `2^23 < rng ≤ 2^31`) is preserved by everything behind the CELT
  header — the allocation's coder calls, fine energy, `quant_all_bands` (theta with its three PDFs: every
  `ec_dec_update(fl, fh, ft)` has `fl < fh ≤ ft ≤ 32768`), PVQ indices, sign bits, anti-collapse bit, finalisation — so the
  state a CELT frame ends with satisfies `J`, on arbitrary bytes.
-/
namespace Opus.CeltBandsProofs
open Opus Opus.RangeCoder Opus.CeltSymsFrozen Opus.CeltBands
open Opus.CeltSymsProofs

/-! ### entropy-decoder calls -/

/-- `ec_dec_uint` for any `ft ≥ 2` (the multi-byte path: a symbol out of at most 256, then raw bits). -/
theorem J_uint_any (c : Dec) (hj : J c) (ft : Nat) (h1 : 2 ≤ ft) : J (decUint c ft).2 := by
  by_cases hs : ft ≤ 256
  · exact (J_uint c hj ft h1 hs).2
  · have hil : ¬ ilog (ft - 1) ≤ 8 := by rw [ilog_lt_iff]; omega
    have hb := (ilog_bounds (v := ft - 1) (by omega)).2
    have hsplit : 2 ^ ilog (ft - 1) = 2 ^ (ilog (ft - 1) - 8) * 256 := by
      rw [show (256 : Nat) = 2 ^ 8 by rfl, ← Nat.pow_add]; congr 1; omega
    have hq : (ft - 1) / 2 ^ (ilog (ft - 1) - 8) < 256 := by
      rw [Nat.div_lt_iff_lt_mul (Nat.two_pow_pos _)]; rw [hsplit] at hb; rw [Nat.mul_comm]; exact hb
    unfold decUint
    dsimp only
    rw [if_pos (by omega)]
    generalize (ft - 1) / 2 ^ (ilog (ft - 1) - 8) = q at hq ⊢
    have hd := decode_lt c hj (q + 1) (by omega) (by omega)
    generalize decode c (q + 1) = y at hd
    obtain ⟨s, c1⟩ := y
    dsimp only at hd ⊢
    rw [hd.2]
    have hu := J_update c hj (q + 1) s (s + 1) (by omega) (by omega) (by omega) (by omega)
    generalize decUpdate { c with ext := c.rng / (q + 1) } s (s + 1) (q + 1) = c2 at hu
    have hbts := (J_bits c2 hu (ilog (ft - 1) - 8)).1
    generalize decBits c2 (ilog (ft - 1) - 8) = z at hbts
    obtain ⟨lo, c3⟩ := z
    dsimp only at hbts ⊢
    split
    · exact hbts
    · exact hbts

theorem uint_J (s : BSt) (ft : Nat) (hs : J s.c) (h : 2 ≤ ft) : J (s.uint ft).2.c := by
  unfold BSt.uint
  have h1 := J_uint_any s.c hs ft h
  generalize decUint s.c ft = y at h1
  obtain ⟨v, c1⟩ := y
  exact h1

theorem raw_J (s : BSt) (n : Nat) (hs : J s.c) : J (s.raw n).2.c := by
  unfold BSt.raw
  have h1 := (J_bits s.c hs n).1
  generalize decBits s.c n = y at h1
  obtain ⟨v, c1⟩ := y
  exact h1

theorem bit_J (s : BSt) (n : Nat) (hs : J s.c) (h1 : 1 ≤ n) (h2 : n ≤ 23) : J (s.bit n).2.c := by
  unfold BSt.bit
  have h := (J_bitLogp s.c hs n h1 h2).1
  generalize decBitLogp s.c n = y at h
  obtain ⟨v, c1⟩ := y
  exact h

/-- `ec_decode(ft)` followed by `ec_dec_update(fl, fh, ft)` with `fl < fh ≤ ft`, whatever `fl`, `fh` are computed from. -/
theorem decode_update_J (s : BSt) (ft : Nat) (hs : J s.c) (h1 : 1 ≤ ft) (h2 : ft ≤ 32768) (fl fh : Nat → Nat)
    (hf : ∀ fs, fs < ft → fl fs < fh fs ∧ fh fs ≤ ft) :
    J ((s.decode ft).2.update (fl (s.decode ft).1) (fh (s.decode ft).1) ft).c ∧ (s.decode ft).1 < ft := by
  unfold BSt.decode
  have hd := decode_lt s.c hs ft h1 h2
  generalize RangeCoder.decode s.c ft = y at hd
  obtain ⟨v, c1⟩ := y
  dsimp only at hd ⊢
  refine ⟨?_, hd.1⟩
  show J (decUpdate c1 (fl v) (fh v) ft)
  rw [hd.2]
  exact J_update s.c hs ft (fl v) (fh v) h1 h2 (hf v hd.1).1 (hf v hd.1).2

/-! ### compute_theta -/

theorem qn_small : ∀ q, q < 65 → 4 ≤ q →
    ((exp2Table8.getD (q % 8) 0 / 2 ^ (14 - q / 8) + 1) / 2) * 2 ≤ 256 := by decide

theorem qnOfQb_le (qb : Int) (h : qb ≤ 64) : qnOfQb qb ≤ 256 := by
  unfold qnOfQb
  split
  · omega
  · exact qn_small qb.toNat (by omega) (by omega)

theorem computeQn_le (N : Nat) (b offset pulseCap : Int) (stereo : Bool) : computeQn N b offset pulseCap stereo ≤ 256 := by
  unfold computeQn
  exact qnOfQb_le _ (Int.min_le_left _ _)

theorem thetaStep_J (s : BSt) (qn : Nat) (hs : J s.c) (hq : qn ≤ 256) : J (thetaStep s qn).2.c := by
  unfold thetaStep
  have h := (decode_update_J s (3 * (qn / 2 + 1) + qn / 2) hs (by omega) (by omega)
    (fun fs => if (if fs < (qn / 2 + 1) * 3 then fs / 3 else qn / 2 + 1 + (fs - (qn / 2 + 1) * 3)) ≤ qn / 2
      then 3 * (if fs < (qn / 2 + 1) * 3 then fs / 3 else qn / 2 + 1 + (fs - (qn / 2 + 1) * 3))
      else ((if fs < (qn / 2 + 1) * 3 then fs / 3 else qn / 2 + 1 + (fs - (qn / 2 + 1) * 3)) - 1 - qn / 2) + (qn / 2 + 1) * 3)
    (fun fs => if (if fs < (qn / 2 + 1) * 3 then fs / 3 else qn / 2 + 1 + (fs - (qn / 2 + 1) * 3)) ≤ qn / 2
      then 3 * ((if fs < (qn / 2 + 1) * 3 then fs / 3 else qn / 2 + 1 + (fs - (qn / 2 + 1) * 3)) + 1)
      else ((if fs < (qn / 2 + 1) * 3 then fs / 3 else qn / 2 + 1 + (fs - (qn / 2 + 1) * 3)) - qn / 2) + (qn / 2 + 1) * 3)
    (by
      intro fs hfs
      generalize qn / 2 = x0 at hfs ⊢
      by_cases hc : fs < (x0 + 1) * 3
      · rw [if_pos hc]
        have : fs / 3 ≤ x0 := by omega
        rw [if_pos this, if_pos this]
        omega
      · rw [if_neg hc]
        have : ¬ x0 + 1 + (fs - (x0 + 1) * 3) ≤ x0 := by omega
        rw [if_neg this, if_neg this]
        omega)).1
  generalize s.decode (3 * (qn / 2 + 1) + qn / 2) = y at h
  obtain ⟨fs, s1⟩ := y
  exact h

theorem tri_lo (h fm : Nat) (hf : fm < h * (h + 1) / 2) :
    (Nat.sqrt (8 * fm + 1) - 1) / 2 * ((Nat.sqrt (8 * fm + 1) - 1) / 2 + 1) / 2 + ((Nat.sqrt (8 * fm + 1) - 1) / 2 + 1) ≤
      (h + 1) * (h + 1) := by
  have hs : Nat.sqrt (8 * fm + 1) ≤ 2 * h := by
    have hlt : 8 * fm + 1 < (2 * h + 1) * (2 * h + 1) := by
      have : 2 * fm + 2 ≤ h * (h + 1) := by omega
      nlinarith
    have := Nat.sqrt_lt'.2 (by rw [Nat.pow_two]; exact hlt)
    omega
  have hit : (Nat.sqrt (8 * fm + 1) - 1) / 2 + 1 ≤ h := by
    have : 1 ≤ h := by
      rcases Nat.eq_zero_or_pos h with h0 | h0
      · subst h0; simp at hf
      · exact h0
    omega
  generalize (Nat.sqrt (8 * fm + 1) - 1) / 2 = it at hit ⊢
  have h1 : it * (it + 1) / 2 ≤ it * (it + 1) := Nat.div_le_self _ _
  nlinarith

theorem tri_hi (qn fm : Nat) (hq : 2 ≤ qn) (_hf : fm < (qn / 2 + 1) * (qn / 2 + 1)) :
    (qn / 2 + 1) * (qn / 2 + 1) -
        (qn + 1 - (2 * (qn + 1) - Nat.sqrt (8 * ((qn / 2 + 1) * (qn / 2 + 1) - fm - 1) + 1)) / 2) *
          (qn + 2 - (2 * (qn + 1) - Nat.sqrt (8 * ((qn / 2 + 1) * (qn / 2 + 1) - fm - 1) + 1)) / 2) / 2 <
      (qn / 2 + 1) * (qn / 2 + 1) -
        (qn + 1 - (2 * (qn + 1) - Nat.sqrt (8 * ((qn / 2 + 1) * (qn / 2 + 1) - fm - 1) + 1)) / 2) *
          (qn + 2 - (2 * (qn + 1) - Nat.sqrt (8 * ((qn / 2 + 1) * (qn / 2 + 1) - fm - 1) + 1)) / 2) / 2 +
        (qn + 1 - (2 * (qn + 1) - Nat.sqrt (8 * ((qn / 2 + 1) * (qn / 2 + 1) - fm - 1) + 1)) / 2) ∧
    (qn / 2 + 1) * (qn / 2 + 1) -
        (qn + 1 - (2 * (qn + 1) - Nat.sqrt (8 * ((qn / 2 + 1) * (qn / 2 + 1) - fm - 1) + 1)) / 2) *
          (qn + 2 - (2 * (qn + 1) - Nat.sqrt (8 * ((qn / 2 + 1) * (qn / 2 + 1) - fm - 1) + 1)) / 2) / 2 +
        (qn + 1 - (2 * (qn + 1) - Nat.sqrt (8 * ((qn / 2 + 1) * (qn / 2 + 1) - fm - 1) + 1)) / 2) ≤
      (qn / 2 + 1) * (qn / 2 + 1) := by
  have hs1 : 1 ≤ Nat.sqrt (8 * ((qn / 2 + 1) * (qn / 2 + 1) - fm - 1) + 1) := Nat.sqrt_pos.2 (by omega)
  generalize Nat.sqrt (8 * ((qn / 2 + 1) * (qn / 2 + 1) - fm - 1) + 1) = sq at hs1
  have hk : 1 ≤ qn + 1 - (2 * (qn + 1) - sq) / 2 := by omega
  have hk2 : qn + 1 - (2 * (qn + 1) - sq) / 2 ≤ qn + 1 := by omega
  have hk3 : qn + 2 - (2 * (qn + 1) - sq) / 2 = (qn + 1 - (2 * (qn + 1) - sq) / 2) + 1 := by omega
  rw [hk3]
  generalize qn + 1 - (2 * (qn + 1) - sq) / 2 = k at hk hk2
  have hh : qn + 1 ≤ (qn / 2 + 1) * (qn / 2 + 1) := by
    have : 1 ≤ qn / 2 := by omega
    have : qn ≤ 2 * (qn / 2) + 1 := by omega
    nlinarith
  generalize (qn / 2 + 1) * (qn / 2 + 1) = ft at hh ⊢
  have hP : k ≤ k * (k + 1) / 2 := by
    have : 2 * k ≤ k * (k + 1) := by nlinarith
    omega
  generalize k * (k + 1) / 2 = P at hP
  omega

theorem thetaTri_J (s : BSt) (qn : Nat) (hs : J s.c) (hq1 : 2 ≤ qn) (hq : qn ≤ 256) : J (thetaTri s qn).2.c := by
  unfold thetaTri
  have hft : (qn / 2 + 1) * (qn / 2 + 1) ≤ 32768 := by
    have h129 : qn / 2 + 1 ≤ 129 := by omega
    have := Nat.mul_le_mul h129 h129
    omega
  have hft1 : 1 ≤ (qn / 2 + 1) * (qn / 2 + 1) := Nat.mul_pos (by omega) (by omega)
  have h := (decode_update_J s ((qn / 2 + 1) * (qn / 2 + 1)) hs hft1 hft
    (fun fm => if fm < qn / 2 * (qn / 2 + 1) / 2
      then (Nat.sqrt (8 * fm + 1) - 1) / 2 * ((Nat.sqrt (8 * fm + 1) - 1) / 2 + 1) / 2
      else (qn / 2 + 1) * (qn / 2 + 1) -
        (qn + 1 - (2 * (qn + 1) - Nat.sqrt (8 * ((qn / 2 + 1) * (qn / 2 + 1) - fm - 1) + 1)) / 2) *
          (qn + 2 - (2 * (qn + 1) - Nat.sqrt (8 * ((qn / 2 + 1) * (qn / 2 + 1) - fm - 1) + 1)) / 2) / 2)
    (fun fm => if fm < qn / 2 * (qn / 2 + 1) / 2
      then (Nat.sqrt (8 * fm + 1) - 1) / 2 * ((Nat.sqrt (8 * fm + 1) - 1) / 2 + 1) / 2 + ((Nat.sqrt (8 * fm + 1) - 1) / 2 + 1)
      else (qn / 2 + 1) * (qn / 2 + 1) -
        (qn + 1 - (2 * (qn + 1) - Nat.sqrt (8 * ((qn / 2 + 1) * (qn / 2 + 1) - fm - 1) + 1)) / 2) *
          (qn + 2 - (2 * (qn + 1) - Nat.sqrt (8 * ((qn / 2 + 1) * (qn / 2 + 1) - fm - 1) + 1)) / 2) / 2 +
        (qn + 1 - (2 * (qn + 1) - Nat.sqrt (8 * ((qn / 2 + 1) * (qn / 2 + 1) - fm - 1) + 1)) / 2))
    (by
      intro fm hfm
      by_cases hc : fm < qn / 2 * (qn / 2 + 1) / 2
      · rw [if_pos hc, if_pos hc]
        exact ⟨by omega, tri_lo (qn / 2) fm hc⟩
      · rw [if_neg hc, if_neg hc]
        exact tri_hi qn fm hq1 hfm))
  obtain ⟨h, _⟩ := h
  generalize s.decode ((qn / 2 + 1) * (qn / 2 + 1)) = y at h
  obtain ⟨fm, s1⟩ := y
  dsimp only at h ⊢
  split
  · rename_i hc
    dsimp only
    rw [if_pos hc, if_pos hc] at h
    exact h
  · rename_i hc
    dsimp only
    rw [if_neg hc, if_neg hc] at h
    exact h

theorem thetaRead_J (stereo : Bool) (N : Nat) (b : Int) (B0 qn : Nat) (s : BSt) (hs : J s.c)
    (h1 : 1 ≤ qn) (h2 : qn ≤ 256) : J (thetaRead stereo N b B0 qn s).2.c := by
  unfold thetaRead
  split
  · rename_i hq
    have key : J (if stereo = true ∧ N > 2 then thetaStep s qn else if B0 > 1 ∨ stereo = true then s.uint (qn + 1)
        else thetaTri s qn).2.c := by
      split
      · exact thetaStep_J s qn hs h2
      · split
        · exact uint_J s (qn + 1) hs (by omega)
        · exact thetaTri_J s qn hs (by omega) h2
    generalize (if stereo = true ∧ N > 2 then thetaStep s qn else if B0 > 1 ∨ stereo = true then s.uint (qn + 1)
        else thetaTri s qn) = y at key
    obtain ⟨it, s1⟩ := y
    exact key
  · split
    · split
      · have h := bit_J s 2 hs (by omega) (by omega)
        generalize s.bit 2 = y at h
        obtain ⟨v, s1⟩ := y
        exact h
      · exact hs
    · exact hs

theorem computeTheta_J (i intensity : Nat) (stereo : Bool) (N : Nat) (b : Int) (B0 : Nat) (lm : Int) (s : BSt)
    (hs : J s.c) : J (computeTheta i intensity stereo N b B0 lm s).2.c := by
  unfold computeTheta
  have hq : 1 ≤ (if stereo = true ∧ i ≥ intensity then 1
           else computeQn N b ((logN.getD i 0 + lm * 8) / 2 - (if stereo = true ∧ N = 2 then 16 else 4))
                  (logN.getD i 0 + lm * 8) stereo) ∧
      (if stereo = true ∧ i ≥ intensity then 1
           else computeQn N b ((logN.getD i 0 + lm * 8) / 2 - (if stereo = true ∧ N = 2 then 16 else 4))
                  (logN.getD i 0 + lm * 8) stereo) ≤ 256 := by
    split
    · omega
    · exact ⟨(computeQn_bounds _ _ _ _ _).1, computeQn_le _ _ _ _ _⟩
  generalize (if stereo = true ∧ i ≥ intensity then 1
           else computeQn N b ((logN.getD i 0 + lm * 8) / 2 - (if stereo = true ∧ N = 2 then 16 else 4))
                  (logN.getD i 0 + lm * 8) stereo) = qn at hq
  have h := thetaRead_J stereo N b B0 qn s hs hq.1 hq.2
  generalize thetaRead stereo N b B0 qn s = y at h
  obtain ⟨it, s1⟩ := y
  exact h

/-! ### quant_partition, quant_band, quant_band_stereo -/

theorem leaf_J (i lm1 : Nat) (b : Int) (s : BSt) (hs : J s.c) (hl : lm1 < 5) (hi : i < 21)
    (hN : 2 ≤ bandNOf lm1 i) : J (leaf i lm1 (bandNOf lm1 i) b s).c := by
  unfold leaf
  have hle := lowerQ_le (rowOf lm1 i) (Rate.bits2pulsesRow (cacheAt (rowOf lm1 i)) b)
          (p2b (rowOf lm1 i) (Rate.bits2pulsesRow (cacheAt (rowOf lm1 i)) b))
          (s.rem - p2b (rowOf lm1 i) (Rate.bits2pulsesRow (cacheAt (rowOf lm1 i)) b))
  have hb := bits2pulsesRow_le (cacheAt (rowOf lm1 i)) b
  generalize lowerQ (rowOf lm1 i) (Rate.bits2pulsesRow (cacheAt (rowOf lm1 i)) b)
          (p2b (rowOf lm1 i) (Rate.bits2pulsesRow (cacheAt (rowOf lm1 i)) b))
          (s.rem - p2b (rowOf lm1 i) (Rate.bits2pulsesRow (cacheAt (rowOf lm1 i)) b)) = y at hle
  obtain ⟨q, rem⟩ := y
  dsimp only at hle ⊢
  split
  · rename_i hq
    have hp := pvqFt_ok lm1 i q hl hi hN (by omega) (by omega)
    exact uint_J _ _ hs hp.1
  · exact hs

theorem splitRun_J (f : Int → BSt → BSt) (hf : ∀ b s, J s.c → J (f b s).c)
    (mbits sbits : Int) (itheta : Nat) (s : BSt) (hs : J s.c) : J (splitRun f mbits sbits itheta s).c := by
  unfold splitRun
  split
  · exact hf _ _ (hf _ _ hs)
  · exact hf _ _ (hf _ _ hs)

theorem splitGo_J (f : Int → BSt → BSt) (hf : ∀ b s, J s.c → J (f b s).c)
    (th : Theta) (delta : Int) (s : BSt) (hs : J s.c) : J (splitGo f th delta s).c := by
  unfold splitGo
  exact splitRun_J f hf _ _ _ _ hs

theorem quantPartition_J (i : Nat) (hi : i < 21) : ∀ (lm1 : Nat) (b : Int) (B : Nat) (s : BSt), lm1 < 5 →
    2 ≤ bandNOf lm1 i → J s.c → J (quantPartition i lm1 (bandNOf lm1 i) b B s).c
  | 0, b, B, s, hl, hN, hs => by
    unfold quantPartition
    exact leaf_J i 0 b s hs hl hi hN
  | lm + 1, b, B, s, hl, hN, hs => by
    unfold quantPartition
    split
    · rename_i hc
      have ht := computeTheta_J i 0 false (bandNOf (lm + 1) i / 2) b B ((lm : Int) - 1)
        { s with fault := s.fault || !rowOk (rowOf (lm + 1) i) } hs
      generalize computeTheta i 0 false (bandNOf (lm + 1) i / 2) b B ((lm : Int) - 1)
        { s with fault := s.fault || !rowOk (rowOf (lm + 1) i) } = y at ht
      obtain ⟨th, s1⟩ := y
      dsimp only at ht ⊢
      apply splitGo_J _ _ _ _ _ ht
      intro b' s' hs''
      rw [bandNOf_half]
      exact quantPartition_J i hi lm b' ((B + 1) / 2) s' (by omega) (halves lm (by omega) i hi hc.2) hs''
    · exact leaf_J i (lm + 1) b s hs hl hi hN

theorem n1One_J (s : BSt) (hs : J s.c) : J (n1One s).c := by
  unfold n1One
  split
  · have h := raw_J s 1 hs
    generalize s.raw 1 = y at h
    obtain ⟨v, s1⟩ := y
    exact h
  · exact hs

theorem quantBand_J (i lm1 : Nat) (B : Nat) (tf : Int) (b : Int) (s : BSt) (hi : i < 21) (hl : lm1 < 5)
    (hN : 1 ≤ bandNOf lm1 i) (hs : J s.c) : J (quantBand i lm1 (bandNOf lm1 i) B tf b s).c := by
  unfold quantBand
  split
  · exact n1One_J s hs
  · exact quantPartition_J i hi lm1 b _ s hl (by omega) hs

theorem stereoN2_J (i lm1 : Nat) (B : Nat) (tf : Int) (th : Theta) (s : BSt) (hi : i < 21) (hl : lm1 < 5)
    (hN : bandNOf lm1 i = 2) (hs : J s.c) : J (stereoN2 i lm1 B tf th s).c := by
  unfold stereoN2
  split
  · have h := raw_J { s with rem := s.rem - (th.qalloc + 8) } 1 hs
    generalize ({ s with rem := s.rem - (th.qalloc + 8) } : BSt).raw 1 = y at h
    obtain ⟨v, s1⟩ := y
    dsimp only at h ⊢
    rw [← hN]
    exact quantBand_J i lm1 B tf _ s1 hi hl (by omega) h
  · rw [← hN]
    exact quantBand_J i lm1 B tf _ _ hi hl (by omega) hs

theorem quantBandStereo_J (i lm1 : Nat) (B : Nat) (tf : Int) (intensity : Nat) (b : Int) (s : BSt) (hi : i < 21)
    (hl : lm1 < 5) (hN : 1 ≤ bandNOf lm1 i) (hs : J s.c) :
    J (quantBandStereo i lm1 (bandNOf lm1 i) B tf intensity b s).c := by
  unfold quantBandStereo
  split
  · exact n1One_J _ (n1One_J s hs)
  · have ht := computeTheta_J i intensity true (bandNOf lm1 i) b B ((lm1 : Int) - 1) s hs
    generalize computeTheta i intensity true (bandNOf lm1 i) b B ((lm1 : Int) - 1) s = y at ht
    obtain ⟨th, s1⟩ := y
    dsimp only at ht ⊢
    split
    · rename_i h2
      exact stereoN2_J i lm1 B tf th s1 hi hl h2 ht
    · exact splitGo_J _ (fun b' s' hs' => quantBand_J i lm1 B tf b' s' hi hl hN hs') _ _ _ ht

/-! ### quant_all_bands, fine energy, finalise -/

theorem bandOne_J (p : BandsIn) (i : Nat) (dual : Bool) (b : Int) (s : BSt) (hi : i < 21) (hl : p.LM < 4)
    (hs : J s.c) : J (bandOne p i dual b s).c := by
  have hN : 1 ≤ bandNOf (p.LM + 1) i := by
    rw [← bandNOf_top]
    exact Nat.mul_pos (Nat.two_pow_pos _) (widths i hi)
  unfold bandOne
  rw [bandNOf_top]
  split
  · exact quantBand_J _ _ _ _ _ _ hi (by omega) hN (quantBand_J _ _ _ _ _ _ hi (by omega) hN hs)
  · split
    · exact quantBandStereo_J _ _ _ _ _ _ _ hi (by omega) hN hs
    · exact quantBand_J _ _ _ _ _ _ hi (by omega) hN hs

theorem bandLoop_J (p : BandsIn) (hl : p.LM < 4) : ∀ (k i : Nat) (dual : Bool) (balance : Int) (s : BSt),
    i + k ≤ 21 → J s.c → J (bandLoop p k i dual balance s).c
  | 0, _, _, _, s, _, hs => by unfold bandLoop; exact hs
  | k + 1, i, dual, balance, s, hik, hs => by
    unfold bandLoop
    exact bandLoop_J p hl k (i + 1) _ _ _ (by omega) (bandOne_J p i _ _ _ (by omega) hl hs)

theorem rawN_J (bits : Nat) : ∀ (n : Nat) (s : BSt), J s.c → J (rawN bits n s).c
  | 0, s, hs => by unfold rawN; exact hs
  | n + 1, s, hs => by unfold rawN; exact rawN_J bits n _ (raw_J s bits hs)

theorem fineLoop_J (C : Nat) : ∀ (l : List Int) (s : BSt), J s.c → J (fineLoop C l s).c
  | [], s, hs => by unfold fineLoop; exact hs
  | fq :: r, s, hs => by
    unfold fineLoop
    apply fineLoop_J C r
    split
    · exact rawN_J _ _ _ hs
    · exact hs

theorem finalPass_J (C : Nat) (prio : Int) : ∀ (l : List (Int × Int)) (bl : Int) (s : BSt), J s.c →
    J (finalPass C prio l bl s).2.c
  | [], bl, s, hs => by unfold finalPass; exact hs
  | (fq, pr) :: r, bl, s, hs => by
    unfold finalPass
    split
    · exact hs
    · split
      · exact finalPass_J C prio r bl s hs
      · exact finalPass_J C prio r _ _ (rawN_J _ _ _ hs)

theorem finalise_J (C : Nat) (fp : List (Int × Int)) (bl : Int) (s : BSt) (hs : J s.c) : J (finalise C fp bl s).c := by
  unfold finalise
  have h := finalPass_J C 0 fp bl s hs
  generalize finalPass C 0 fp bl s = y at h
  obtain ⟨bl1, s1⟩ := y
  dsimp only at h ⊢
  exact finalPass_J C 1 fp bl1 s1 h

theorem afterAlloc_J (cfg : CeltSyms.CeltCfg) (len : Nat) (h : CeltSyms.CeltHdr) (o : CeltAlloc.Out) (s : BSt)
    (hl : cfg.LM < 4) (hse : cfg.start ≤ cfg.end_) (he : cfg.end_ ≤ 21) (hs : J s.c) : J (afterAlloc cfg len h o s).c := by
  unfold afterAlloc
  dsimp only
  apply finalise_J
  have h1 : J (bandLoop (bandsIn cfg len h o) (cfg.end_ - cfg.start) cfg.start (o.dualStereo ≠ 0) o.balance
          (fineLoop cfg.C (o.bands.map (·.ebits)) s)).c :=
    bandLoop_J _ hl _ _ _ _ _ (by omega) (fineLoop_J _ _ _ hs)
  split
  · exact raw_J _ 1 h1
  · exact h1

/-! ### the allocation's calls and the whole frame -/

theorem allocDrive_J (p : CeltAlloc.Inp) (hp : OpusProofs.CeltAlloc.Dom p) :
    ∀ (k : Nat) (orc : List Nat) (s : BSt) (o : CeltAlloc.Out) (s' : BSt), J s.c →
      allocDrive p k orc s = .ok (o, s') → J s'.c
  | 0, _, _, _, _, _, h => by unfold allocDrive at h; exact absurd h (by simp)
  | k + 1, orc, s, o, s', hs, h => by
    unfold allocDrive at h
    cases ho : CeltAlloc.computeAllocation p { encode := false, oracle := orc, ops := [] } with
    | ok o1 =>
      rw [ho] at h
      dsimp only at h
      obtain ⟨_, hu⟩ := allocOps_of_dom p hp orc o1 ho
      cases hd : o1.ops.drop orc.length with
      | nil =>
        rw [hd] at h
        injection h with h
        injection h with h1 h2
        rw [← h2]; exact hs
      | cons op rest =>
        rw [hd] at h
        cases op with
        | bit v =>
          dsimp only at h
          have hb := bit_J s 1 hs (by omega) (by omega)
          generalize s.bit 1 = y at hb h
          obtain ⟨v', s1⟩ := y
          exact allocDrive_J p hp k _ s1 o s' hb h
        | uint v ft =>
          dsimp only at h
          have hm : CeltAlloc.Op.uint v ft ∈ o1.ops := List.mem_of_mem_drop (by rw [hd]; exact List.mem_cons_self)
          have hb := uint_J s ft hs (hu v ft hm).1
          generalize s.uint ft = y at hb h
          obtain ⟨v', s1⟩ := y
          exact allocDrive_J p hp k _ s1 o s' hb h
    | err e => rw [ho] at h; exact absurd h (by simp)
    | oob => rw [ho] at h; exact absurd h (by simp)
    | abort => rw [ho] at h; exact absurd h (by simp)

/-- The decoder state at the end of a CELT frame satisfies `J` again. -/
theorem celtFrame_J (cfg : CeltSyms.CeltCfg) (len : Nat) (c : Dec) (hj : J c) (hl : cfg.LM < 4) (hC : cfg.C = 1 ∨ cfg.C = 2)
    (hse : cfg.start < cfg.end_) (he : cfg.end_ ≤ 21) (hlen : len ≤ 262144) (f : CeltFrame)
    (hf : celtFrame cfg len c = .ok f) : J f.fin.c ∧ J f.allocSt.c ∧ J f.hdr.dec := by
  unfold celtFrame at hf
  obtain ⟨h, hh, hok⟩ := celtHeader_ok cfg hl len c hj
  rw [hh] at hf
  dsimp only at hf
  have hjd : J h.dec := hok.dec
  cases hd : allocDrive (allocInp cfg h) 64 [] { rem := 0, c := h.dec, tr := [], fault := false } with
  | ok os =>
    obtain ⟨o, s⟩ := os
    rw [hd] at hf
    dsimp only at hf
    have hs := allocDrive_J (allocInp cfg h) (allocInp_dom cfg len c h hh hl hC hse he hlen) 64 [] _ o s hjd hd
    have ha := afterAlloc_J cfg len h o { s with tr := [] } hl (by omega) he hs
    split at hf
    · exact absurd hf (by simp)
    · injection hf with hf
      rw [← hf]
      exact ⟨ha, hs, hjd⟩
  | err e => rw [hd] at hf; exact absurd hf (by simp)
  | oob => rw [hd] at hf; exact absurd hf (by simp)
  | abort => rw [hd] at hf; exact absurd hf (by simp)

end Opus.CeltBandsProofs
