import OpusProofs.SilkParamsRangeDec
/-
  OpusProofs.SilkParamsRangeNlsfDec — silk_NLSF_decode (NLSF_decode.c:64-92) as a whole, for both
  regenerated codebooks, every first-stage index and every residual vector in [-10, 10]^order:
  no 32-bit value wraps and no conversion to `opus_int16` truncates before silk_NLSF_stabilize is
  entered (the stabiliser itself works on sums of at most 17 `opus_int16` values and is covered,
  int16 stores included, by `stabilize_post`).
-/
namespace Opus.SilkParams
open Opus Opus.Gen

/-- Range facts about the first-stage data of one CB1 index (decidable, checked per index on the
    regenerated tables): `silk_NLSF_unpack` succeeds, `pred_Q8[]` are bytes, `ec_ix[]` (a product
    `silk_SMULBB( 0..7, 9 )` stored in an `opus_int16`) lies in [0, 63], the weights are positive
    `opus_int16` values, the first-stage elements are bytes. -/
def stage1RangeOk (cb : NlsfCB) (cb1 : Int) : Bool :=
  match nlsfUnpack cb cb1 with
  | .ok (ec, pred) =>
    pred.length == cb.order && pred.all (fun p => decide (0 ≤ p ∧ p ≤ 255)) &&
    ec.all (fun e => decide (0 ≤ e ∧ e ≤ 63)) &&
    ((cb.cb1WghtQ9.drop (cb1.toNat * cb.order)).take cb.order).all (fun w => decide (1 ≤ w ∧ w ≤ 32767)) &&
    ((cb.cb1NlsfQ8.drop (cb1.toNat * cb.order)).take cb.order).all (fun e => decide (0 ≤ e ∧ e ≤ 255))
  | _ => false

theorem cbNbMb_stage1Range : ∀ i ∈ List.range cbNbMb.nVectors, stage1RangeOk cbNbMb (i : Int) = true := by
  decide +kernel

theorem cbWb_stage1Range : ∀ i ∈ List.range cbWb.nVectors, stage1RangeOk cbWb (i : Int) = true := by
  decide +kernel

theorem cb_qstep : (0 ≤ cbNbMb.quantStepSizeQ16 ∧ cbNbMb.quantStepSizeQ16 ≤ 11796) ∧
    (0 ≤ cbWb.quantStepSizeQ16 ∧ cbWb.quantStepSizeQ16 ≤ 11796) ∧ cbNbMb.order = 10 ∧ cbWb.order = 16 := by
  decide

/-- Trace of the first-stage loop (NLSF_decode.c:85-88) over all coefficients. -/
def firstStageTraceAll : List Int → List Int → List Int → List Int
  | r :: rs, w :: ws, e :: es => firstStageTrace r w e ++ firstStageTraceAll rs ws es
  | _, _, _ => []

theorem firstStageAll_range : ∀ (rs ws es : List Int), (∀ r ∈ rs, -29200 ≤ r ∧ r ≤ 29200) →
    (∀ w ∈ ws, 1 ≤ w) → (∀ e ∈ es, 0 ≤ e ∧ e ≤ 255) →
    (∀ v ∈ firstStageTraceAll rs ws es, I32 v) ∧
    (∀ x ∈ zip3With nlsfFirstStage rs ws es, 0 ≤ x ∧ x ≤ 32767) := by
  intro rs
  induction rs with
  | nil => intro ws es _ _ _; simp [firstStageTraceAll, zip3With]
  | cons r rs ih =>
    intro ws es hr hw he
    cases ws with
    | nil => simp [firstStageTraceAll, zip3With]
    | cons w ws =>
      cases es with
      | nil => simp [firstStageTraceAll, zip3With]
      | cons e es =>
        have h1 := nlsfFirstStage_range r w e (hr r (by simp)) (hw w (by simp)) (he e (by simp))
        have h2 := ih ws es (fun x hx => hr x (by simp [hx])) (fun x hx => hw x (by simp [hx]))
          (fun x hx => he x (by simp [hx]))
        simp only [firstStageTraceAll, zip3With, List.mem_append, List.mem_cons]
        refine ⟨?_, ?_⟩
        · intro v hv; rcases hv with h | h
          · exact h1.1 v h
          · exact h2.1 v h
        · intro x hx; rcases hx with h | h
          · subst h; exact ⟨h1.2.2.1, h1.2.2.2⟩
          · exact h2.2 x h

/-- silk_NLSF_decode up to the call of the stabiliser, on the decoder's domain. -/
theorem nlsfDecode_range (cb : NlsfCB) (hcb : cb = cbNbMb ∨ cb = cbWb) (cb1 : Nat) (h1 : cb1 < cb.nVectors)
    (idx : List Int) (hlen : idx.length = cb.order) (hidx : ∀ i ∈ idx, -10 ≤ i ∧ i ≤ 10) :
    ∃ ec pred, nlsfUnpack cb (cb1 : Int) = .ok (ec, pred) ∧
      (∀ e ∈ ec, I16 e) ∧
      (∀ v ∈ resDequantTrace cb.quantStepSizeQ16 idx pred, I32 v) ∧
      (∀ v ∈ resDequantCasts cb.quantStepSizeQ16 idx pred, I16 v) ∧
      (∀ v ∈ firstStageTraceAll (resDequant cb.quantStepSizeQ16 idx pred).1
          ((cb.cb1WghtQ9.drop (cb1 * cb.order)).take cb.order)
          ((cb.cb1NlsfQ8.drop (cb1 * cb.order)).take cb.order), I32 v) ∧
      (∀ x ∈ zip3With nlsfFirstStage (resDequant cb.quantStepSizeQ16 idx pred).1
          ((cb.cb1WghtQ9.drop (cb1 * cb.order)).take cb.order)
          ((cb.cb1NlsfQ8.drop (cb1 * cb.order)).take cb.order), 0 ≤ x ∧ x ≤ 32767) := by
  have hs : stage1RangeOk cb (cb1 : Int) = true := by
    rcases hcb with h | h <;> subst h
    · exact cbNbMb_stage1Range cb1 (List.mem_range.mpr h1)
    · exact cbWb_stage1Range cb1 (List.mem_range.mpr h1)
  have hq : 0 ≤ cb.quantStepSizeQ16 ∧ cb.quantStepSizeQ16 ≤ 11796 := by
    rcases hcb with h | h <;> subst h
    · exact cb_qstep.1
    · exact cb_qstep.2.1
  have hord : cb.order ≤ 16 := by
    rcases hcb with h | h <;> subst h
    · have := cb_qstep.2.2.1; omega
    · have := cb_qstep.2.2.2; omega
  unfold stage1RangeOk at hs
  match hu : nlsfUnpack cb (cb1 : Int), hs with
  | .ok (ec, pred), hs =>
    simp only [Bool.and_eq_true, beq_iff_eq, List.all_eq_true, decide_eq_true_eq, Int.toNat_natCast] at hs
    obtain ⟨⟨⟨⟨hpl, hp⟩, hec⟩, hw⟩, hel⟩ := hs
    have hres := resDequant_range cb.quantStepSizeQ16 hq idx pred (by omega) (by omega) hidx hp
    have hfs := firstStageAll_range (resDequant cb.quantStepSizeQ16 idx pred).1
      ((cb.cb1WghtQ9.drop (cb1 * cb.order)).take cb.order)
      ((cb.cb1NlsfQ8.drop (cb1 * cb.order)).take cb.order) hres.2.1 (fun w hw' => (hw w hw').1) hel
    exact ⟨ec, pred, rfl, fun e he => by have := hec e he; unfold I16; omega, hres.2.2.1, hres.2.2.2, hfs.1, hfs.2⟩

end Opus.SilkParams
