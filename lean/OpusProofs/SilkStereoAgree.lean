import OpusProofs.SilkStereoMain
/-
  OpusProofs.SilkStereoAgree — the symbols of silk_stereo_encode_pred and the decoder applied to the encoder's indices;
  the inputs just outside the defined domain.
-/
namespace OpusProofs.SilkStereoAgree
open Opus Opus.SilkParams Opus.SilkStereo OpusProofs.SilkStereoQuant OpusProofs.SilkStereoMain

theorem encodeSyms_ok {a0 b0 c0 a1 b1 c1 : Int} (h1 : 0 ≤ a0 ∧ a0 ≤ 2) (h2 : 0 ≤ b0 ∧ b0 ≤ 4) (h3 : 0 ≤ c0 ∧ c0 ≤ 4)
    (h4 : 0 ≤ a1 ∧ a1 ≤ 2) (h5 : 0 ≤ b1 ∧ b1 ≤ 4) (h6 : 0 ≤ c1 ∧ c1 ≤ 4) :
    encodeSyms [a0, b0, c0, a1, b1, c1] = .ok [(5 * c0 + c1, 25), (a0, 3), (b0, 5), (a1, 3), (b1, 5)] := by
  have e1 : ¬ ¬ (5 * c0 + c1 < 25) := by omega
  have e2 : ¬ ¬ (a0 < 3) := by omega
  have e3 : ¬ ¬ (b0 < ((5 : Nat) : Int)) := by omega
  have e4 : ¬ ¬ (a1 < 3) := by omega
  have e5 : ¬ ¬ (b1 < ((5 : Nat) : Int)) := by omega
  simp only [encodeSyms, List.getD_cons_zero, List.getD_cons_succ, subSteps, Gen.SilkStereoTabs.quantSubSteps,
    Gen.SilkStereoTabs.predJointIcdf, Gen.SilkStereoTabs.uniform3Icdf, Gen.SilkStereoTabs.uniform5Icdf, List.length_cons,
    List.length_nil, e1, e2, e3, e4, e5, if_false]

theorem decodeOfIx_ok {r0 r1 : Nat × Nat} (h0 : r0 ∈ visitOrder) (h1 : r1 ∈ visitOrder) :
    decodeOfIx [(post r0).ix0, (post r0).ix1, (post r0).ix2, (post r1).ix0, (post r1).ix1, (post r1).ix2] =
      .ok (lv r0 - lv r1, lv r1) := by
  have s0 := post_spec h0
  have s1 := post_spec h1
  simp only [decodeOfIx, List.getD_cons_zero, List.getD_cons_succ, decodePred]
  rw [tdiv5 s0.2.2.2.2.1 s1.2.2.2.2.1 s1.2.2.2.2.2.1]
  have e : 5 * (post r0).ix2 + (post r1).ix2 - 5 * (post r0).ix2 = (post r1).ix2 := by omega
  rw [e, s0.2.2.2.2.2.2.2.2.2, s1.2.2.2.2.2.2.2.2.2]
  rfl

/-- The first input above the defined domain: no overflow, but the very first level does not improve on
    `silk_int32_MAX`, `goto done` is taken with `ix[n][0]`, `ix[n][1]` and `quant_pred_Q13` never assigned. -/
theorem quantOne_unset (qIn a b : Int) :
    quantOne 2147470283 qIn a b =
      some { q := qIn, ix0 := wrap8 (a - wrap8 (Int.tdiv a 3) * 3), ix1 := b, ix2 := wrap8 (Int.tdiv a 3) } := by
  unfold quantOne
  rw [visit_head, scan]
  simp only [lv00, int32Max, Gen.SilkStereoTabs.int32Max, sabs]
  rfl

/-- Above that, `pred_Q13[n] - lvl_Q13` overflows `opus_int32`: undefined behaviour. -/
theorem quantOne_overflow (pred qIn a b : Int) (h : 2147470283 < pred) : quantOne pred qIn a b = none := by
  unfold quantOne
  rw [visit_head, scan]
  have h1 : pred - level 0 0 < -2147483647 ∨ pred - level 0 0 > 2147483647 := by rw [lv00]; omega
  simp only [h1, if_true]

end OpusProofs.SilkStereoAgree
