import OpusProofs.CeltBandsFault
/-
  C03, stage 2b: the budget discipline of the band data as the code documents it (bands.c:1046-1059, 930-941).
  `ctx->remaining_bits` is the budget in 1/8 bit, `total_bits - ec_tell_frac - 1` at the start of each band.  A PVQ index is
  read only after its CACHED cost has been charged and the result is still non-negative (the "never bust the budget" loop
  lowers the pulse count until it is, or to zero pulses = no read); a sign bit of an N = 1 band is read only while at least
  one whole bit (8) remains.  That is the whole guarantee the accounting gives: it is a statement about cached costs.
  Whether `ec_tell_frac` itself stays within `total_bits` additionally depends on the cached cost bounding the true increment
  of `ec_tell_frac` for each read — see tools/props/C03.py (UNPROVED: celtFrame_within_budget) for the two cache entries
  where it does not, and for the search that tries to exploit them.
-/
namespace Opus.CeltBandsProofs
open Opus Opus.RangeCoder Opus.CeltSymsFrozen Opus.CeltBands

/-- After the loop either no pulse is left (nothing will be read) or the remaining budget is non-negative. -/
theorem lowerQ_nonneg (ci : Int) : ∀ (q : Nat) (curr rem : Int), (lowerQ ci q curr rem).1 ≠ 0 → 0 ≤ (lowerQ ci q curr rem).2
  | 0, _, _, h => by unfold lowerQ at h; exact absurd rfl h
  | q + 1, curr, rem, h => by
    by_cases hlt : rem < 0
    · unfold lowerQ at h ⊢
      rw [if_pos hlt] at h ⊢
      exact lowerQ_nonneg ci q _ _ h
    · unfold lowerQ
      rw [if_neg hlt]
      show 0 ≤ rem
      omega

/-- … and the budget it returns is the budget it was given minus the cached cost of the pulse count it returns. -/
theorem lowerQ_charge (ci : Int) : ∀ (q : Nat) (rem0 : Int),
    (lowerQ ci q (p2b ci q) (rem0 - p2b ci q)).2 = rem0 - p2b ci (lowerQ ci q (p2b ci q) (rem0 - p2b ci q)).1
  | 0, rem0 => by unfold lowerQ; simp [p2b]
  | q + 1, rem0 => by
    unfold lowerQ
    split
    · have ih := lowerQ_charge ci q rem0
      have e : rem0 - p2b ci (q + 1) + p2b ci (q + 1) - p2b ci q = rem0 - p2b ci q := by omega
      rw [e]
      exact ih
    · rfl

/-- The pulse count (pseudo-pulse index `q`) a no-split partition ends with: `bits2pulses(b)` lowered by the
    "never bust the budget" loop. -/
def leafQ (i lm1 : Nat) (b : Int) (s : BSt) : Nat :=
  (lowerQ (rowOf lm1 i) (Rate.bits2pulsesRow (cacheAt (rowOf lm1 i)) b)
    (p2b (rowOf lm1 i) (Rate.bits2pulsesRow (cacheAt (rowOf lm1 i)) b))
    (s.rem - p2b (rowOf lm1 i) (Rate.bits2pulsesRow (cacheAt (rowOf lm1 i)) b))).1

/-- With `q = leafQ …`: the tracked budget after the leaf is the budget before minus the cached cost `pulses2bits(q)` of
    exactly that `q`; for `q = 0` nothing is read; for `q ≠ 0` the budget is still non-negative and the one call the leaf
    adds to the trace is `ec_dec_uint(V(N, get_pulses(q)))` for that same `q`. -/
theorem leaf_budget (i lm1 N : Nat) (b : Int) (s : BSt) :
    (leaf i lm1 N b s).rem = s.rem - p2b (rowOf lm1 i) (leafQ i lm1 b s) ∧
    (leafQ i lm1 b s = 0 → (leaf i lm1 N b s).tr = s.tr) ∧
    (leafQ i lm1 b s ≠ 0 → 0 ≤ (leaf i lm1 N b s).rem ∧
      ∃ v, (leaf i lm1 N b s).tr = .uint (pvqFt N (Rate.getPulses (leafQ i lm1 b s))) v :: s.tr) := by
  unfold leaf leafQ
  have hc := lowerQ_charge (rowOf lm1 i) (Rate.bits2pulsesRow (cacheAt (rowOf lm1 i)) b) s.rem
  have hn := lowerQ_nonneg (rowOf lm1 i) (Rate.bits2pulsesRow (cacheAt (rowOf lm1 i)) b)
    (p2b (rowOf lm1 i) (Rate.bits2pulsesRow (cacheAt (rowOf lm1 i)) b))
    (s.rem - p2b (rowOf lm1 i) (Rate.bits2pulsesRow (cacheAt (rowOf lm1 i)) b))
  generalize lowerQ (rowOf lm1 i) (Rate.bits2pulsesRow (cacheAt (rowOf lm1 i)) b)
    (p2b (rowOf lm1 i) (Rate.bits2pulsesRow (cacheAt (rowOf lm1 i)) b))
    (s.rem - p2b (rowOf lm1 i) (Rate.bits2pulsesRow (cacheAt (rowOf lm1 i)) b)) = y at hc hn
  obtain ⟨q, rem⟩ := y
  dsimp only at hc hn ⊢
  split
  · rename_i hq
    have hr : (({ s with rem := rem, fault := s.fault || !rowOk (rowOf lm1 i) } : BSt).uint
        (pvqFt N (Rate.getPulses q))).2.rem = rem ∧
        ∃ v, (({ s with rem := rem, fault := s.fault || !rowOk (rowOf lm1 i) } : BSt).uint
          (pvqFt N (Rate.getPulses q))).2.tr = .uint (pvqFt N (Rate.getPulses q)) v :: s.tr := by
      unfold BSt.uint
      generalize decUint _ _ = z
      obtain ⟨v, c1⟩ := z
      exact ⟨rfl, v, rfl⟩
    rw [hr.1]
    exact ⟨hc, fun h0 => absurd h0 hq, fun _ => ⟨hn hq, hr.2⟩⟩
  · rename_i hq
    have hq0 : q = 0 := by omega
    exact ⟨hc, fun _ => rfl, fun h => absurd hq0 h⟩

/-- A sign bit of an `N = 1` band is read only while a whole bit is left, and costs exactly 8. -/
theorem n1One_budget (s : BSt) : ((n1One s).tr ≠ s.tr → 8 ≤ s.rem ∧ (n1One s).rem = s.rem - 8) ∧ ((n1One s).tr = s.tr → n1One s = s) := by
  unfold n1One
  split
  · rename_i h
    unfold BSt.raw
    generalize decBits s.c 1 = y
    obtain ⟨v, c1⟩ := y
    dsimp only
    exact ⟨fun _ => ⟨h, rfl⟩, fun h2 => absurd h2 (by simp)⟩
  · exact ⟨fun h => absurd rfl h, fun _ => rfl⟩

end Opus.CeltBandsProofs
