import OpusProofs.EncSkelToc
import OpusProofs.FramingComplete
/-
  OpusProofs.EncSkelParse — what the repacketiser contract functions of the encoder skeleton emit
  (`outRange`: codes 0/1/2/3, CBR/VBR, with or without padding) is the RFC 6716 serialisation of a valid
  packet holding exactly the frames handed in, so the parser proved correct in C06 reads them back.
-/
namespace Opus.EncSkel.Proofs
open Opus Opus.EncSkel Opus.FramingSpec

/-- The bytes of an emitted packet: header, the frames (any contents), zero padding up to `size`. -/
def pktBytes (hdr : Bytes) (frames : List Bytes) (size : Nat) : Bytes :=
  hdr ++ frames.flatten ++ List.replicate (size - hdr.length - (frames.flatten).length) 0

theorem vbrLens_eq (lens : List Nat) : vbrLens lens = (lens.dropLast).flatMap encLen := by
  induction lens with
  | nil => rfl
  | cons x xs ih =>
    cases xs with
    | nil => rfl
    | cons y ys =>
      simp only [vbrLens, List.dropLast_cons₂, List.flatMap_cons] at *
      rw [ih]; rfl

theorem allEq_spec (l0 : Nat) (lens : List Nat) (h : allEq l0 lens = true) : ∀ a ∈ lens, a = l0 := by
  induction lens with
  | nil => intro a ha; cases ha
  | cons x xs ih =>
    simp only [allEq, Bool.and_eq_true, beq_iff_eq] at h
    intro a ha
    rcases List.mem_cons.mp ha with rfl | ha
    · exact h.1
    · exact ih h.2 a ha


theorem vbrBody_eq (lens : List Nat) : vbrBody lens = (vbrLens lens).length + sumN lens := by
  induction lens with
  | nil => rfl
  | cons x xs ih =>
    cases xs with
    | nil => simp [vbrBody, vbrLens]
    | cons y ys =>
      simp only [vbrBody, vbrLens, sumN_cons, List.length_append] at *
      rw [ih]
      have : (Framing.encodeSize x).length = sizeLen x := by
        unfold Framing.encodeSize sizeLen; split <;> simp
      omega

theorem flatten_length (frames : List Bytes) : frames.flatten.length = sumN (frames.map List.length) := by
  induction frames with
  | nil => rfl
  | cons f fs ih => simp [ih]

theorem padLenBytes_length (pa : Nat) : (padLenBytes pa).length = (pa - 1) / 255 + 1 := by
  unfold padLenBytes; simp

/-- The code-3 output of the repacketiser contract is the RFC serialisation of a valid packet
    holding exactly the given frames. -/
theorem outCode3_serialize (cfg : Nat) (lens : List Nat) (maxlen : Nat) (pad : Bool) (r : OutRes) (frames : List Bytes)
    (hfl : frames.map List.length = lens) (h4 : cfg % 4 = 0) (hcfg : cfg < 256) (hne : lens ≠ [])
    (hall : ∀ l ∈ lens, l ≤ 1275) (hdur : frameDur48 (cfg + 3) * lens.length ≤ 5760)
    (h : outCode3 cfg lens maxlen pad = .ok r) :
    ∃ p : Packet, Valid p ∧ p.frames = frames ∧ p.toc = cfg + 3 ∧ serialize false p = pktBytes r.hdr frames r.size := by
  have hlen : frames.length = lens.length := by rw [← hfl]; simp
  have hlpos : 1 ≤ lens.length := by cases lens with | nil => exact absurd rfl hne | cons _ _ => simp
  have hflat : frames.flatten.length = sumN lens := by rw [flatten_length, hfl]
  have hc3 : (cfg + 3) % 4 = 3 := by omega
  unfold outCode3 at h
  dsimp only at h
  generalize hvbr : (!allEq (lens.headD 0) lens) = vbr at h
  have htot : (if vbr = true then 2 + vbrBody lens else lens.length * lens.headD 0 + 2) =
      2 + (if vbr = true then (vbrLens lens).length else 0) + sumN lens := by
    cases vbr
    · simp only [Bool.false_eq_true, if_false]
      have : allEq (lens.headD 0) lens = true := by simpa using hvbr
      rw [allEq_sum _ _ this]; omega
    · simp only [if_true]; rw [vbrBody_eq]; omega
  rw [htot] at h
  generalize htv : 2 + (if vbr = true then (vbrLens lens).length else 0) + sumN lens = tot at h
  split at h
  · cases h
  · rename_i hfit
    generalize hpa : (if pad = true then maxlen - tot else 0) = pa at h
    have hfmax : ∀ f ∈ frames, f.length ≤ 1275 := by
      intro f hf
      apply hall
      rw [← hfl]; exact List.mem_map.mpr ⟨f, hf, rfl⟩
    have hcbrEq : vbr = false → FramingSpec.allEq (frames.map List.length) := by
      intro hv
      have : allEq (lens.headD 0) lens = true := by rw [hv] at hvbr; simpa using hvbr
      have hs := allEq_spec _ _ this
      rw [hfl]
      intro a ha b hb
      rw [hs a ha, hs b hb]
    have hcfg252 : cfg + 3 < 256 := by omega
    by_cases hpa0 : pa = 0
    · rw [if_neg (by simp [hpa0])] at h
      cases h
      refine ⟨{ toc := cfg + 3, frames := frames, vbr := vbr, pad := none }, ?_, rfl, rfl, ?_⟩
      · refine ⟨hcfg252, hfmax, ?_, ?_, ?_, ?_, ?_⟩
        · intro hc; simp only [Packet.code] at hc; omega
        · intro hc; simp only [Packet.code] at hc; omega
        · intro hc; simp only [Packet.code] at hc; omega
        · intro _; exact ⟨by rw [hlen]; exact hlpos, by rw [hlen]; exact hdur, fun hv => hcbrEq hv⟩
        · intro pd hpd; cases hpd
      · unfold serialize header lenFields countByte padBytes pktBytes Packet.code Packet.lens
        simp only [hc3, hfl, hlen]
        cases vbr <;> simp [vbrLens_eq, hflat] at htv ⊢ <;> omega
    · rw [if_pos (by simpa using hpa0)] at h
      split at h
      · cases h
      · cases h
        refine ⟨{ toc := cfg + 3, frames := frames, vbr := vbr,
                  pad := some { n255 := (pa - 1) / 255, last := pa - 255 * ((pa - 1) / 255) - 1,
                                bytes := List.replicate (pa - (pa - 1) / 255 - 1) 0 } }, ?_, rfl, rfl, ?_⟩
        · refine ⟨hcfg252, hfmax, ?_, ?_, ?_, ?_, ?_⟩
          · intro hc; simp only [Packet.code] at hc; omega
          · intro hc; simp only [Packet.code] at hc; omega
          · intro hc; simp only [Packet.code] at hc; omega
          · intro _; exact ⟨by rw [hlen]; exact hlpos, by rw [hlen]; exact hdur, fun hv => hcbrEq hv⟩
          · intro pd hpd
            cases hpd
            simp only [Pad.total, List.length_replicate]
            omega
        · unfold serialize header lenFields countByte padBytes pktBytes Packet.code Packet.lens Pad.hdr padLenBytes
          simp only [hc3, hfl, hlen]
          cases vbr <;> simp [vbrLens_eq, hflat] at htv ⊢ <;> omega


theorem frameDur48_cfg (cfg k : Nat) (hk : k < 4) (h4 : cfg % 4 = 0) : frameDur48 (cfg + k) = frameDur48 cfg := by
  unfold frameDur48
  have : (cfg + k) / 8 = cfg / 8 := by omega
  simp only [this]

/-- Every successful output of the repacketiser contract `outRange` is the RFC 6716 serialisation of a
    valid packet holding exactly the given frames (any contents of the recorded lengths), followed by
    zero padding up to the returned size. -/
theorem outRange_serialize (cfg : Nat) (lens : List Nat) (maxlen : Nat) (pad : Bool) (r : OutRes) (frames : List Bytes)
    (hfl : frames.map List.length = lens) (h4 : cfg % 4 = 0) (hcfg : cfg < 256)
    (hall : ∀ l ∈ lens, l ≤ 1275) (hdur : frameDur48 cfg * lens.length ≤ 5760)
    (h : outRange cfg lens maxlen pad = .ok r) :
    ∃ p : Packet, Valid p ∧ p.frames = frames ∧ p.toc / 4 * 4 = cfg ∧ serialize false p = pktBytes r.hdr frames r.size := by
  have hfmax : ∀ f ∈ frames, f.length ≤ 1275 := by
    intro f hf
    apply hall
    rw [← hfl]; exact List.mem_map.mpr ⟨f, hf, rfl⟩
  have hd3 : frameDur48 (cfg + 3) * lens.length ≤ 5760 := by rw [frameDur48_cfg cfg 3 (by omega) h4]; exact hdur
  have c3 : ∀ (hne : lens ≠ []) r', outCode3 cfg lens maxlen pad = .ok r' →
      ∃ p : Packet, Valid p ∧ p.frames = frames ∧ p.toc / 4 * 4 = cfg ∧ serialize false p = pktBytes r'.hdr frames r'.size := by
    intro hne r' h'
    obtain ⟨p, hv, hf, ht, hs⟩ := outCode3_serialize cfg lens maxlen pad r' frames hfl h4 hcfg hne hall hd3 h'
    exact ⟨p, hv, hf, by rw [ht]; omega, hs⟩
  match lens, frames, hfl with
  | [], _, _ => simp [outRange] at h
  | [l0], [f0], hfl =>
    simp only [List.map_cons, List.map_nil, List.cons.injEq, and_true] at hfl
    rw [outRange] at h
    split at h
    · cases h
    · split at h
      · exact c3 (by simp) r h
      · cases h
        refine ⟨{ toc := cfg, frames := [f0], vbr := false, pad := none }, ?_, rfl, (by show cfg / 4 * 4 = cfg; omega), ?_⟩
        · refine ⟨hcfg, hfmax, ?_, ?_, ?_, ?_, ?_⟩
          · intro _; exact ⟨rfl, rfl, rfl⟩
          · intro hc; simp only [Packet.code] at hc; omega
          · intro hc; simp only [Packet.code] at hc; omega
          · intro hc; simp only [Packet.code] at hc; omega
          · intro pd hpd; cases hpd
        · unfold serialize header lenFields padBytes pktBytes Packet.code Packet.lens
          simp [h4, hfl]
  | [l0, l1], [f0, f1], hfl =>
    simp only [List.map_cons, List.map_nil, List.cons.injEq, and_true] at hfl
    obtain ⟨hf0, hf1⟩ := hfl
    rw [outRange] at h
    split at h
    · rename_i heq
      split at h
      · cases h
      · split at h
        · exact c3 (by simp) r h
        · cases h
          refine ⟨{ toc := cfg + 1, frames := [f0, f1], vbr := false, pad := none }, ?_, rfl, (by show (cfg + 1) / 4 * 4 = cfg; omega), ?_⟩
          · refine ⟨(by show cfg + 1 < 256; omega), hfmax, ?_, ?_, ?_, ?_, ?_⟩
            · intro hc; simp only [Packet.code] at hc; omega
            · intro _
              refine ⟨rfl, rfl, rfl, ?_⟩
              intro a ha b hb
              simp only [Packet.lens, List.map_cons, List.map_nil, List.mem_cons, List.mem_nil_iff, or_false] at ha hb
              omega
            · intro hc; simp only [Packet.code] at hc; omega
            · intro hc; simp only [Packet.code] at hc; omega
            · intro pd hpd; cases hpd
          · unfold serialize header lenFields padBytes pktBytes Packet.code Packet.lens
            have : (cfg + 1) % 4 = 1 := by omega
            simp [this, hf0, hf1]
            omega
    · dsimp only at h
      generalize htt : l0 + l1 + 2 + (if l0 ≥ 252 then 1 else 0) = tt at h
      split at h
      · cases h
      · split at h
        · exact c3 (by simp) r h
        · cases h
          refine ⟨{ toc := cfg + 2, frames := [f0, f1], vbr := false, pad := none }, ?_, rfl, (by show (cfg + 2) / 4 * 4 = cfg; omega), ?_⟩
          · refine ⟨(by show cfg + 2 < 256; omega), hfmax, ?_, ?_, ?_, ?_, ?_⟩
            · intro hc; simp only [Packet.code] at hc; omega
            · intro hc; simp only [Packet.code] at hc; omega
            · intro _; exact ⟨rfl, rfl, rfl⟩
            · intro hc; simp only [Packet.code] at hc; omega
            · intro pd hpd; cases hpd
          · unfold serialize header lenFields padBytes pktBytes Packet.code Packet.lens
            have : (cfg + 2) % 4 = 2 := by omega
            have he : Framing.encodeSize l0 = encLen l0 := rfl
            simp [this, hf0, hf1, he]
            unfold encLen; split at htt <;> split <;> simp <;> omega
  | a :: b :: c :: rest, frames, hfl =>
    rw [outRange] at h
    · exact c3 (by simp) r h
    all_goals simp
  | [_], [], hfl => simp at hfl
  | [_], _ :: _ :: _, hfl => simp at hfl
  | [_, _], [], hfl => simp at hfl
  | [_, _], [_], hfl => simp at hfl
  | [_, _], _ :: _ :: _ :: _, hfl => simp at hfl


/-- **The emitted structure parses.**  For every successful `outRange` (the model of
    `opus_repacketizer_out_range_impl(rp, 0, n, data, maxlen, 0, pad, NULL, 0)` and, through `padSpec`,
    of `opus_packet_pad`), any frame contents of the recorded lengths, the bytes
    `header ++ frames ++ zero padding` are accepted by `opus_packet_parse_impl` (C06 model) which reports
    exactly those frame sizes, the ToC configuration, and consumes the whole packet. -/
theorem outRange_parses (cfg : Nat) (lens : List Nat) (maxlen : Nat) (pad : Bool) (r : OutRes) (frames : List Bytes)
    (hfl : frames.map List.length = lens) (h4 : cfg % 4 = 0) (hcfg : cfg < 256)
    (hall : ∀ l ∈ lens, l ≤ 1275) (hdur : frameDur48 cfg * lens.length ≤ 5760)
    (h : outRange cfg lens maxlen pad = .ok r) :
    ∃ v, Framing.parseImpl false (pktBytes r.hdr frames r.size) = .ok v ∧ v.sizes = lens ∧
      v.count = lens.length ∧ v.toc / 4 * 4 = cfg ∧ v.packetOffset = (pktBytes r.hdr frames r.size).length := by
  obtain ⟨p, hv, hf, ht, hs⟩ := outRange_serialize cfg lens maxlen pad r frames hfl h4 hcfg hall hdur h
  have hc := FramingProofs.parse_complete false p hv [] (fun _ => rfl)
  rw [List.append_nil, hs] at hc
  refine ⟨view false p, hc, ?_, ?_, ?_, ?_⟩
  · simp only [view, Packet.lens, hf, hfl]
  · simp only [view, hf]; rw [← hfl]; simp
  · simp only [view]; exact ht
  · simp only [view, hs]

end Opus.EncSkel.Proofs
