import OpusModel.Projection
import OpusProofs.LayoutCreate
/-
  OpusProofs.ProjectionCreate — exactly which arguments `opus_projection_decoder_init/_create` accept
  (C10 `projdec_create_rejects`).  Core tactics only.
-/
namespace Opus.Projection
open Opus Opus.Layout Opus.Matrix

theorem importCells_cases : ∀ (k : Nat) (dm : Bytes),
    (dm.length < 2 * k ∧ importCells dm k = .oob) ∨
    (2 * k ≤ dm.length ∧ ∃ cells, importCells dm k = .ok cells ∧ cells.length = k)
  | 0, dm => by right; exact ⟨by omega, [], by cases dm <;> rfl, rfl⟩
  | k + 1, [] => by left; exact ⟨by simp, rfl⟩
  | k + 1, [_] => by left; exact ⟨by simp only [List.length_singleton]; omega, rfl⟩
  | k + 1, lo :: hi :: rest => by
    rcases importCells_cases k rest with ⟨h1, h2⟩ | ⟨h1, cells, h2, h3⟩
    · left; simp only [importCells, h2, List.length_cons]; exact ⟨by omega, trivial⟩
    · right; simp only [importCells, h2, List.length_cons]; exact ⟨by omega, _, rfl, by simp [h3]⟩

/-- The identity mapping on `ch` channels is a valid layout exactly when there are at least `ch` coded
    channels. -/
theorem identity_valid (ch st co : Int) (h : DecArgsOk ch st co) :
    LayoutValid (storedLayout ch st co (List.range ch.toNat)) ↔ ch ≤ st + co := by
  unfold DecArgsOk at h
  unfold LayoutValid ChannelLayout.chans storedLayout
  simp only [List.take_take, Nat.min_self]
  have ht : List.take ch.toNat (List.range ch.toNat) = List.range ch.toNat := List.take_of_length_le (by simp)
  rw [ht]
  constructor
  · intro ⟨_, hv⟩
    have := hv (ch.toNat - 1) (List.mem_range.2 (by omega))
    omega
  · intro hle
    refine ⟨by omega, fun m hm => ?_⟩
    have := List.mem_range.1 hm
    left; omega

/-- For sensible arguments `mapping_matrix_get_size` is zero exactly when the cells exceed 65004 bytes. -/
theorem matrixSizeNonzero_iff (rows cols : Int) (hr : 0 ≤ rows ∧ rows ≤ 255) (hc : 0 ≤ cols ∧ cols ≤ 255) :
    matrixSizeNonzero rows cols = true ↔ ¬ rows * cols * 2 > 65004 := by
  unfold matrixSizeNonzero matrixGetSize
  have hnn : 0 ≤ rows * cols := Int.mul_nonneg hr.1 hc.1
  rw [if_neg (by omega)]
  by_cases hbig : rows * cols * 2 > 65004
  · simp [hbig]
  · rw [if_neg hbig]
    simp only [hbig, not_false_eq_true, iff_true, decide_eq_true_eq]
    generalize rows * cols = p at hnn hbig
    unfold alignI
    simp only
    split <;> split <;> omega

/-- `opus_projection_decoder_init` as a decision list. -/
theorem decoderInit_eq (innerOk : Bool) (ch st co : Int) (dm : Bytes) (size : Int) :
    decoderInit innerOk ch st co dm size =
      if decArgsBad ch st co = true ∨ (st + co) * ch * 2 ≠ size then .err .badArg
      else if dm.length < 2 * ((st + co) * ch).toNat then .oob
      else if (st + co) * ch * 2 > 65004 ∨ st + co < ch ∨ innerOk = false then .err .badArg
      else match importCells dm ((st + co) * ch).toNat with
        | .ok cells => .ok { matrix := { rows := ch.toNat, cols := (st + co).toNat, gain := 0, data := cells },
                             layout := storedLayout ch st co (List.range ch.toNat) }
        | _ => .abort := by
  unfold decoderInit
  by_cases ha : decArgsBad ch st co = true
  · simp [ha]
  · have ha' : decArgsBad ch st co = false := by simpa using ha
    have hok := (decArgsBad_false_iff _ _ _).1 ha'
    have hok' := hok
    unfold DecArgsOk at hok'
    simp only [ha', Bool.false_eq_true, if_false, false_or]
    by_cases hs : (st + co) * ch * 2 ≠ size
    · simp [hs]
    · simp only [hs, if_false]
      rcases importCells_cases ((st + co) * ch).toNat dm with ⟨h1, h2⟩ | ⟨h1, cells, h2, h3⟩
      · rw [h2, if_pos h1]
      · rw [h2, if_neg (by omega)]
        simp only
        have hms : matrixSizeNonzero ch (st + co) = true ↔ ¬ (st + co) * ch * 2 > 65004 := by
          rw [matrixSizeNonzero_iff ch (st + co) (by omega) (by omega), Int.mul_comm ch (st + co)]
        by_cases hbig : (st + co) * ch * 2 > 65004
        · have : matrixSizeNonzero ch (st + co) = false := by
            cases hq : matrixSizeNonzero ch (st + co)
            · rfl
            · exact absurd hbig (hms.1 hq)
          simp [this, hbig]
        · have hm1 : matrixSizeNonzero ch (st + co) = true := hms.2 hbig
          simp only [hm1, Bool.not_true, Bool.false_eq_true, if_false, hbig, false_or]
          have hlen : ch.toNat ≤ (List.range ch.toNat).length := by simp
          by_cases hacc : st + co < ch ∨ innerOk = false
          · rw [if_pos hacc]
            rcases Layout.decoderInit_cases innerOk ch st co (List.range ch.toNat) with ⟨l, hl⟩ | hl | ⟨_, _, hl⟩
            · exfalso
              obtain ⟨_, _, hv, hin, _⟩ := (decoderInit_ok_iff _ _ _ _ _ _).1 hl
              rcases hacc with h | h
              · have := (identity_valid ch st co hok).1 hv; omega
              · rw [h] at hin; cases hin
            · rw [hl]
            · simp at hl
          · rw [if_neg hacc]
            have hinner : innerOk = true := by cases innerOk <;> simp_all
            have hv : LayoutValid (storedLayout ch st co (List.range ch.toNat)) :=
              (identity_valid ch st co hok).2 (by omega)
            have := (decoderInit_ok_iff innerOk ch st co (List.range ch.toNat) _).2 ⟨hok, hlen, hv, hinner, rfl⟩
            rw [this]

theorem decoderCreate_eq (innerOk : Bool) (ch st co : Int) (dm : Bytes) (size : Int) :
    decoderCreate innerOk ch st co dm size =
      if decoderSizeNonzero ch st co = false then .err .allocFail else decoderInit innerOk ch st co dm size := by
  unfold decoderCreate
  cases decoderSizeNonzero ch st co <;> simp

/-- Outcomes of `opus_projection_decoder_init`. -/
theorem decoderInit_outcomes (innerOk : Bool) (ch st co : Int) (dm : Bytes) (size : Int) :
    decoderInit innerOk ch st co dm size ≠ .abort ∧
    (decoderInit innerOk ch st co dm size = .oob →
      DecArgsOk ch st co ∧ (st + co) * ch * 2 = size ∧ (dm.length : Int) < size) ∧
    (∀ e, decoderInit innerOk ch st co dm size = .err e → e = .badArg) ∧
    (∀ pd, decoderInit innerOk ch st co dm size = .ok pd ↔
      DecArgsOk ch st co ∧ (st + co) * ch * 2 = size ∧ size ≤ dm.length ∧ size ≤ 65004 ∧ ch ≤ st + co ∧
      innerOk = true ∧ ∃ cells, importCells dm ((st + co) * ch).toNat = .ok cells ∧
        pd = { matrix := { rows := ch.toNat, cols := (st + co).toNat, gain := 0, data := cells },
               layout := storedLayout ch st co (List.range ch.toNat) }) := by
  rw [decoderInit_eq]
  by_cases h1 : decArgsBad ch st co = true ∨ (st + co) * ch * 2 ≠ size
  · rw [if_pos h1]
    refine ⟨(by intro h; cases h), (by intro h; cases h), (by intro e h; cases h; rfl), fun pd => ⟨(by intro h; cases h), ?_⟩⟩
    rintro ⟨ha, hs, _⟩
    rcases h1 with h | h
    · rw [(decArgsBad_false_iff _ _ _).2 ha] at h; cases h
    · exact absurd hs h
  · rw [if_neg h1]
    have ha : DecArgsOk ch st co := (decArgsBad_false_iff _ _ _).1 (by
      cases hq : decArgsBad ch st co
      · rfl
      · exact absurd (Or.inl hq) h1)
    have hs : (st + co) * ch * 2 = size := by
      apply Decidable.byContradiction; intro h; exact h1 (Or.inr h)
    have ha' := ha
    unfold DecArgsOk at ha'
    have hnn : 0 ≤ (st + co) * ch := Int.mul_nonneg (by omega) (by omega)
    by_cases h2 : dm.length < 2 * ((st + co) * ch).toNat
    · rw [if_pos h2]
      refine ⟨(by intro h; cases h), (fun _ => ⟨ha, hs, by omega⟩), (by intro e h; cases h), fun pd => ⟨(by intro h; cases h), ?_⟩⟩
      rintro ⟨_, _, hl, _⟩; omega
    · rw [if_neg h2]
      by_cases h3 : (st + co) * ch * 2 > 65004 ∨ st + co < ch ∨ innerOk = false
      · rw [if_pos h3]
        refine ⟨(by intro h; cases h), (by intro h; cases h), (by intro e h; cases h; rfl), fun pd => ⟨(by intro h; cases h), ?_⟩⟩
        rintro ⟨_, _, _, hsz, hch, hin, _⟩
        rcases h3 with h | h | h
        · omega
        · omega
        · rw [h] at hin; cases hin
      · rw [if_neg h3]
        rcases importCells_cases ((st + co) * ch).toNat dm with ⟨h4, _⟩ | ⟨_, cells, h5, _⟩
        · omega
        · rw [h5]
          refine ⟨(by intro h; cases h), (by intro h; cases h), (by intro e h; cases h), fun pd => ⟨?_, ?_⟩⟩
          · intro h; cases h
            refine ⟨ha, hs, by omega, by omega, by omega, ?_, cells, rfl, rfl⟩
            cases innerOk <;> simp_all
          · rintro ⟨_, _, _, _, _, _, cells', hc', hpd⟩
            cases hc'; rw [hpd]

/-- `create` = `init` whenever `init` succeeds; otherwise `create` answers `ALLOC_FAIL` or `init`'s answer. -/
theorem decoderCreate_outcomes (innerOk : Bool) (ch st co : Int) (dm : Bytes) (size : Int) :
    decoderCreate innerOk ch st co dm size ≠ .abort ∧
    (∀ e, decoderCreate innerOk ch st co dm size = .err e → e = .badArg ∨ e = .allocFail) ∧
    (∀ pd, decoderInit innerOk ch st co dm size = .ok pd → decoderCreate innerOk ch st co dm size = .ok pd) ∧
    (∀ pd, decoderCreate innerOk ch st co dm size = .ok pd → decoderInit innerOk ch st co dm size = .ok pd) := by
  obtain ⟨hna, _, herr, hok⟩ := decoderInit_outcomes innerOk ch st co dm size
  rw [decoderCreate_eq]
  refine ⟨?_, ?_, ?_, ?_⟩
  · split
    · intro h; cases h
    · exact hna
  · intro e h; split at h
    · cases h; right; rfl
    · left; exact herr e h
  · intro pd h
    obtain ⟨ha, hs, _, hsz, _, _, _⟩ := (hok pd).1 h
    unfold DecArgsOk at ha
    have : decoderSizeNonzero ch st co = true := by
      unfold decoderSizeNonzero
      rw [(matrixSizeNonzero_iff (st + co) ch (by omega) (by omega)).2 (by omega)]
      simp only [Bool.true_and, Bool.not_eq_true', Bool.or_eq_false_iff, decide_eq_false_iff_not]
      exact ⟨⟨by omega, by omega⟩, by omega⟩
    rw [if_neg (by rw [this]; simp)]; exact h
  · intro pd h; split at h
    · cases h
    · exact h

end Opus.Projection
