import OpusModel.EncSkel
import OpusModel.DecSkel
/-
  OpusProofs.EncSkelRed — `redundancy_mirror` (C02, P1): the decoder skeleton's `parseRedundancy`
  (OpusModel/DecSkel.lean, opus_decoder.c:471-499, read-only, C01 owner) reading the signalling the encoder
  skeleton writes at opus_encoder.c:2220-2252 recovers `(redundancy, celt_to_silk, redundancy_bytes)`.

  The range coder is the oracle of both skeletons; the lock-step facts of C08 (`decode_encode`: the decoder
  reads back the symbols the encoder wrote, with the same `ec_tell` before and after each symbol) appear as
  hypotheses on the decoder oracle `o.bit` / `o.uint`.
-/
namespace Opus.EncSkel.Proofs
open Opus Opus.EncSkel

/-- Hybrid mode.  The encoder (gate :2220 passed) wrote `bit_logp(redundancy, 12)` at `tellA` and, if
    set, `bit_logp(celt_to_silk, 1)` and `uint(redundancy_bytes − 2, 256)`.  The decoder, at the same
    `ec_tell`, with a frame of `len` bytes for which its own gate passes (what CELT's `min_allowed` of
    celt_encoder.c:2309-2314 guarantees: a hybrid packet keeps 37 bits past the SILK part) and which holds
    the redundant frame after the coded bits, recovers all three. -/
theorem redundancy_mirror_hybrid (o : DecSkel.Oracle) (r : DecSkel.Run) (len tellA tell1 tellB tellU rb : Int)
    (red c2s : Bool)
    (hgate : tellA + 17 + 20 ≤ 8 * len)
    (h1 : o.bit r.k 12 tellA = (b2i red, tell1))
    (h2 : red = true → o.bit r.tick.k 1 tell1 = (b2i c2s, tellB))
    (h3 : red = true → o.uint r.tick.tick.k 256 tellB = (rb - 2, tellU))
    (hsane : red = true → tellU ≤ (len - rb) * 8) :
    (DecSkel.parseRedundancy o DecSkel.MODE_HYBRID len tellA r).1 =
      { redundancy := b2i red, celt_to_silk := if red then b2i c2s else 0, bytes := if red then rb else 0,
        len := if red then len - rb else len, tell := if red then tellU else tell1 } := by
  unfold DecSkel.parseRedundancy
  simp only [if_true]
  rw [if_pos (by omega), h1]
  cases red
  · simp [b2i]
  · have h2' := h2 rfl
    have h3' := h3 rfl
    have hs := hsane rfl
    simp only [b2i, if_true]
    rw [if_pos (by decide)]
    unfold DecSkel.redTail
    simp only [if_true]
    rw [h2', h3']
    unfold DecSkel.redFinish
    dsimp only
    rw [if_neg (by omega)]
    simp [b2i]

/-- SILK-only mode with redundancy.  The encoder wrote only `bit_logp(celt_to_silk, 1)` (the byte count is
    inferred from the length): the frame is `(tellB+7)/8` coded bytes followed by `rb ≥ 2` redundancy
    bytes.  Provided the decoder's gate `tell + 17 ≤ 8·len` passes (it does whenever `rb ≥ 3`, or the flag
    bit cost a full bit; see the note in tools/props/C02.py), the decoder recovers `celt_to_silk` and `rb`. -/
theorem redundancy_mirror_silk (o : DecSkel.Oracle) (r : DecSkel.Run) (tellA tellB rb : Int) (c2s : Bool)
    (hrb : 2 ≤ rb) (hgate : tellA + 17 ≤ 8 * ((tellB + 7) / 8 + rb))
    (h1 : o.bit r.k 1 tellA = (b2i c2s, tellB)) :
    (DecSkel.parseRedundancy o DecSkel.MODE_SILK ((tellB + 7) / 8 + rb) tellA r).1 =
      { redundancy := 1, celt_to_silk := b2i c2s, bytes := rb, len := (tellB + 7) / 8, tell := tellB } := by
  unfold DecSkel.parseRedundancy
  have hne : ¬ (DecSkel.MODE_SILK = DecSkel.MODE_HYBRID) := by decide
  simp only [if_neg hne]
  rw [if_pos (show tellA + 17 + 0 ≤ 8 * ((tellB + 7) / 8 + rb) by omega)]
  unfold DecSkel.redTail
  simp only [if_neg hne]
  rw [h1]
  unfold DecSkel.redFinish
  dsimp only
  rw [if_neg (by omega)]
  simp only [DecSkel.Red.mk.injEq]
  exact ⟨trivial, trivial, by omega, by omega, trivial⟩

/-- SILK-only mode without redundancy: the encoder's packet ends with the coded bits
    (`len ≤ (tell+7)/8` after the trailing-zero strip of :2466), so the decoder's gate fails and it reads no
    redundancy. -/
theorem redundancy_mirror_silk_none (o : DecSkel.Oracle) (r : DecSkel.Run) (len tellA : Int)
    (hlen : len ≤ (tellA + 7) / 8) :
    (DecSkel.parseRedundancy o DecSkel.MODE_SILK len tellA r).1 =
      { redundancy := 0, celt_to_silk := 0, bytes := 0, len := len, tell := tellA } := by
  unfold DecSkel.parseRedundancy
  have hne : ¬ (DecSkel.MODE_SILK = DecSkel.MODE_HYBRID) := by decide
  simp only [if_neg hne]
  rw [if_neg (show ¬ tellA + 17 + 0 ≤ 8 * len by omega)]

end Opus.EncSkel.Proofs
