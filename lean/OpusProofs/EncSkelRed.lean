import OpusModel.EncSkel
import OpusModel.DecSkel
/-
  OpusProofs.EncSkelRed — `redundancy_mirror` (C02, P1): the decoder skeleton's `parseRedundancy`
  (OpusModel/DecSkel.lean, opus_decoder.c:471-499, read-only, C01 owner) reading the signalling the encoder
  skeleton writes at opus_encoder.c:2220-2252 recovers `(redundancy, celt_to_silk, redundancy_bytes)`.

  The range coder is the oracle of both skeletons; the lock-step facts of C08 (`decode_encode`: the decoder
  reads back the symbols the encoder wrote, with the same `ec_tell` before and after each symbol) appear as
  hypotheses on the decoder oracle `o.bit` / `o.uint`.
-/
namespace Opus.EncSkel.Proofs
open Opus Opus.EncSkel

/-- Hybrid mode.  The encoder (gate :2220 passed) wrote `bit_logp(redundancy, 12)` at `tellA` and, if
    set, `bit_logp(celt_to_silk, 1)` and `uint(redundancy_bytes − 2, 256)`.  The decoder, at the same
    `ec_tell`, with a frame of `len` bytes for which its own gate passes (what CELT's `min_allowed` of
    celt_encoder.c:2309-2314 guarantees: a hybrid packet keeps 37 bits past the SILK part) and which holds
    the redundant frame after the coded bits, recovers all three. -/
theorem redundancy_mirror_hybrid (o : DecSkel.Oracle) (r : DecSkel.Run) (len tellA tell1 tellB tellU rb : Int)
    (red c2s : Bool)
    (hgate : tellA + 17 + 20 ≤ 8 * len)
    (h1 : o.bit r.k 12 tellA = (b2i red, tell1))
    (h2 : red = true → o.bit r.tick.k 1 tell1 = (b2i c2s, tellB))
    (h3 : red = true → o.uint r.tick.tick.k 256 tellB = (rb - 2, tellU))
    (hsane : red = true → tellU ≤ (len - rb) * 8) :
    (DecSkel.parseRedundancy o DecSkel.MODE_HYBRID len tellA r).1 =
      { redundancy := b2i red, celt_to_silk := if red then b2i c2s else 0, bytes := if red then rb else 0,
        len := if red then len - rb else len, tell := if red then tellU else tell1 } := by
  unfold DecSkel.parseRedundancy
  simp only [if_true]
  rw [if_pos (by omega), h1]
  cases red
  · simp [b2i]
  · have h2' := h2 rfl
    have h3' := h3 rfl
    have hs := hsane rfl
    simp only [b2i, if_true]
    rw [if_pos (by decide)]
    unfold DecSkel.redTail
    simp only [if_true]
    rw [h2', h3']
    unfold DecSkel.redFinish
    dsimp only
    rw [if_neg (by omega)]
    simp [b2i]

/-- SILK-only mode with redundancy.  The encoder wrote only `bit_logp(celt_to_silk, 1)` (the byte count is
    inferred from the length): the frame is `(tellB+7)/8` coded bytes followed by `rb ≥ 2` redundancy
    bytes.  Provided the decoder's gate `tell + 17 ≤ 8·len` passes (it does whenever `rb ≥ 3`, or the flag
    bit cost a full bit; see the note in tools/props/C02.py), the decoder recovers `celt_to_silk` and `rb`. -/
theorem redundancy_mirror_silk (o : DecSkel.Oracle) (r : DecSkel.Run) (tellA tellB rb : Int) (c2s : Bool)
    (hrb : 2 ≤ rb) (hgate : tellA + 17 ≤ 8 * ((tellB + 7) / 8 + rb))
    (h1 : o.bit r.k 1 tellA = (b2i c2s, tellB)) :
    (DecSkel.parseRedundancy o DecSkel.MODE_SILK ((tellB + 7) / 8 + rb) tellA r).1 =
      { redundancy := 1, celt_to_silk := b2i c2s, bytes := rb, len := (tellB + 7) / 8, tell := tellB } := by
  unfold DecSkel.parseRedundancy
  have hne : ¬ (DecSkel.MODE_SILK = DecSkel.MODE_HYBRID) := by decide
  simp only [if_neg hne]
  rw [if_pos (show tellA + 17 + 0 ≤ 8 * ((tellB + 7) / 8 + rb) by omega)]
  unfold DecSkel.redTail
  simp only [if_neg hne]
  rw [h1]
  unfold DecSkel.redFinish
  dsimp only
  rw [if_neg (by omega)]
  simp only [DecSkel.Red.mk.injEq]
  exact ⟨trivial, trivial, by omega, by omega, trivial⟩

/-- SILK-only mode without redundancy: the encoder's packet ends with the coded bits
    (`len ≤ (tell+7)/8` after the trailing-zero strip of :2466), so the decoder's gate fails and it reads no
    redundancy. -/
theorem redundancy_mirror_silk_none (o : DecSkel.Oracle) (r : DecSkel.Run) (len tellA : Int)
    (hlen : len ≤ (tellA + 7) / 8) :
    (DecSkel.parseRedundancy o DecSkel.MODE_SILK len tellA r).1 =
      { redundancy := 0, celt_to_silk := 0, bytes := 0, len := len, tell := tellA } := by
  unfold DecSkel.parseRedundancy
  have hne : ¬ (DecSkel.MODE_SILK = DecSkel.MODE_HYBRID) := by decide
  simp only [if_neg hne]
  rw [if_neg (show ¬ tellA + 17 + 0 ≤ 8 * len by omega)]

/-! ### The SILK-only corner, decided

  The decoder tests `ec_tell + 17 ≤ 8·len` against the ACTUAL frame length `len = ⌈tellB/8⌉ + rb`, the
  encoder tested `ec_tell + 17 ≤ 8·(max_data_bytes−1)` against the BUDGET.  They can only disagree when
  `rb = 2`, the flag bit cost no whole bit (`tellB = tellA`) and `tellA ≡ 0 (mod 8)`.  But `rb = 2` means
  `max_redundancy ≤ 2`, i.e. the budget itself is within two bytes of `⌈tellB/8⌉`, and then the encoder's own
  gate gives the decoder's.  So the disagreement is arithmetically impossible — provided the byte count fed
  into the clamp is at least 3, which `compute_redundancy_bytes` guarantees (it returns 0 or more than
  `4 + 8·channels`). -/

theorem computeRedundancyBytes_range (m b fr ch : Int) (hch : 1 ≤ ch) (hch2 : ch ≤ 2) :
    computeRedundancyBytes m b fr ch = 0 ∨ 13 ≤ computeRedundancyBytes m b fr ch := by
  unfold computeRedundancyBytes
  dsimp only
  split
  · right; omega
  · left; rfl

/-- Encoder-side arithmetic only: gate of :2220 passed, flag coded (`tellA ≤ tellB`), byte count clamped
    as at :2239-2240 from a value ≥ 3 ⇒ the decoder's gate passes on the actual frame length. -/
theorem silk_gate_agrees (m tellA tellB xrb : Int) (hgate : tellA + 17 ≤ 8 * (m - 1)) (hmono : tellA ≤ tellB)
    (hx : 3 ≤ xrb) :
    tellA + 17 ≤ 8 * ((tellB + 7) / 8 + min 257 (max 2 (min ((m - 1) - (tellB + 7) / 8) xrb))) := by
  omega

/-- **SILK-only redundancy mirror, without any decoder-side hypothesis.**  For the encoder skeleton's own
    signalling (`frRedSig` in SILK-only mode returned `redundancy = true` with `rb` bytes; the byte count
    `x.rb` it clamps comes from `compute_redundancy_bytes`, hence is ≥ 3) and C08's lock-step of the one
    flag bit (`tellA ≤ tellB`, the decoder reads `celt_to_silk` back at the same `ec_tell`): the decoder
    skeleton, on the frame of `⌈tellB/8⌉ + rb` bytes the encoder emits, recovers
    `(redundancy, celt_to_silk, redundancy_bytes) = (1, celt_to_silk, rb)`. -/
theorem redundancy_mirror_silk_full (fi : FrameIn) (x : Mid) (e : FrameOr) (o : DecSkel.Oracle) (r : DecSkel.Run)
    (c2s : Bool) (hmode : x.st.mode = Opus.EncDecide.MODE_SILK_ONLY) (hx : 3 ≤ x.rb)
    (hred : (frRedSig fi x e).1 = true) (hmono : e.tellA ≤ e.tellB)
    (h1 : o.bit r.k 1 e.tellA = (b2i c2s, e.tellB)) :
    (DecSkel.parseRedundancy o DecSkel.MODE_SILK ((e.tellB + 7) / 8 + (frRedSig fi x e).2.1) e.tellA r).1 =
      { redundancy := 1, celt_to_silk := b2i c2s, bytes := (frRedSig fi x e).2.1, len := (e.tellB + 7) / 8,
        tell := e.tellB } := by
  have hne : ¬ (Opus.EncDecide.MODE_SILK_ONLY = Opus.EncDecide.MODE_HYBRID) := by decide
  unfold frRedSig at hred ⊢
  dsimp only at hred ⊢
  split at hred
  · rename_i hb
    rw [if_pos hb]
    dsimp only
    rw [hmode, if_neg hne]
    unfold readsB redGate at hb
    rw [hmode] at hb
    simp only [if_neg hne, Bool.and_eq_true, decide_eq_true_eq] at hb
    have hg : e.tellA + 17 ≤ 8 * (fi.maxDataBytes - 1) := by omega
    have hrb2 : 2 ≤ min 257 (max 2 (min (fi.maxDataBytes - 1 - (e.tellB + 7) / 8) x.rb)) := by omega
    exact redundancy_mirror_silk o r e.tellA e.tellB _ c2s hrb2
      (silk_gate_agrees fi.maxDataBytes e.tellA e.tellB x.rb hg hmono hx) h1
  · cases hred

/-- In the skeleton the byte count that reaches the clamp of :2239 with `redundancy` set always comes from
    `compute_redundancy_bytes` and is non-zero, hence ≥ 13. -/
theorem mid_rb_ge (s : St) (fi : FrameIn) (e : FrameOr) (x : Mid) (hch : 1 ≤ s.streamChannels ∧ s.streamChannels ≤ 2)
    (hx : frSilk fi (frPre s fi) e = .cont x) (hr : x.redundancy = true) : 13 ≤ x.rb := by
  have hp : (frPre s fi).redundancy = true → 13 ≤ (frPre s fi).rb := by
    have key : ∀ (b : Bool) (sc br : Int), 1 ≤ sc → sc ≤ 2 →
        (b && decide ((if b = true then computeRedundancyBytes fi.maxDataBytes br (s.fs / fi.frameSize) sc else 0) ≠ 0)) = true →
        13 ≤ (if b = true then computeRedundancyBytes fi.maxDataBytes br (s.fs / fi.frameSize) sc else 0) := by
      intro b sc br h1 h2 hb
      cases b
      · simp at hb
      · simp only [if_true, Bool.true_and, decide_eq_true_eq] at hb ⊢
        rcases computeRedundancyBytes_range fi.maxDataBytes br (s.fs / fi.frameSize) sc h1 h2 with h | h
        · exact absurd h hb
        · exact h
    unfold frPre
    dsimp only
    split <;> exact key _ _ _ hch.1 hch.2
  have hsc : (frPre s fi).st.streamChannels = s.streamChannels := by
    unfold frPre; dsimp only; split <;> rfl
  generalize frPre s fi = p at *
  unfold frSilk at hx
  split at hx
  · cases hx; exact hp hr
  · split at hx
    · cases hx
    · split at hx
      · cases hx
      · split at hx
        · cases hx
        · split at hx
          · cases hx
          · split at hx
            · cases hx
              dsimp only at hr ⊢
              rcases computeRedundancyBytes_range fi.maxDataBytes p.st.bitrateBps (p.st.fs / fi.frameSize)
                p.st.streamChannels (by rw [hsc]; exact hch.1) (by rw [hsc]; exact hch.2) with h | h
              · simp [h] at hr
              · exact h
            · cases hx; exact hp hr

/-- Hybrid CBR needs no CELT contract for the decoder's gate: CELT returns exactly its budget
    `max_data_bytes − 1 − rb`, so the frame has `max_data_bytes − 1` bytes and the encoder's gate is the
    decoder's. -/
theorem hybrid_cbr_gate (m tellA rb celtMain : Int) (hgate : tellA + 17 + 20 ≤ 8 * (m - 1))
    (hcbr : celtMain = m - 1 - rb) : tellA + 17 + 20 ≤ 8 * (celtMain + rb) := by omega

end Opus.EncSkel.Proofs
