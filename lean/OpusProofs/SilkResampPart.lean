import OpusProofs.SilkResampChunk
import OpusProofs.SilkResampLen
/-
  OpusProofs.SilkResampPart — partition independence of the batch loops of the SILK resampler (IIR_FIR.c:86-103,
  down_FIR.c:163-187): on an input of a whole number of milliseconds the loop equals the iteration of ONE-millisecond
  rounds, whatever the batch size cut it into; hence loop (x ++ y) = loop x then loop y at whole-millisecond cuts.
  Generic part: an abstract round `rd` with (Hnil) the empty round is the identity, (Hsplit) a round on x ++ y with x
  one millisecond and at most 10 ms in all equals the round on x followed by the round on y, (Hloop) the loop's
  unfolding equation.
-/
namespace OpusProofs.SilkResamp
open Opus Opus.SilkResamp Opus.SilkParams Opus.Gen.SilkResampRom

theorem Res.bind_assoc' {α β γ} (r : Res α) (f : α → Res β) (g : β → Res γ) :
    (r.bind f).bind g = r.bind fun a => (f a).bind g := by cases r <;> rfl

theorem Res.bind_ok_right {α β} (r : Res (α × List β)) : (r.bind fun a => Res.ok (a.1, a.2)) = r := by
  cases r <;> rfl

section Generic
variable {σ : Type} (rd : σ → List Int → Res (σ × List Int)) (m : Nat)

/-- `k` one-millisecond rounds. -/
def msIter : Nat → σ → List Int → Res (σ × List Int)
  | 0, st, _ => .ok (st, [])
  | k + 1, st, xs =>
    (rd st (xs.take m)).bind fun r1 => (msIter k r1.1 (xs.drop m)).bind fun r2 => .ok (r2.1, r1.2 ++ r2.2)

/-- sequential composition of two stages, outputs concatenated -/
def seq2 (a : Res (σ × List Int)) (f : σ → Res (σ × List Int)) : Res (σ × List Int) :=
  a.bind fun r1 => (f r1.1).bind fun r2 => .ok (r2.1, r1.2 ++ r2.2)

theorem msIter_append (hm : 0 < m) : ∀ (kx ky : Nat) (st : σ) (x y : List Int), x.length = kx * m →
    msIter rd m (kx + ky) st (x ++ y) = seq2 (msIter rd m kx st x) (fun s1 => msIter rd m ky s1 y) := by
  intro kx
  induction kx with
  | zero =>
    intro ky st x y hx
    have : x = [] := List.eq_nil_of_length_eq_zero (by omega)
    subst this
    simp only [Nat.zero_add, List.nil_append, msIter, seq2, Res.bind]
    cases msIter rd m ky st y <;> rfl
  | succ kx ih =>
    intro ky st x y hx
    have hxl : m ≤ x.length := by rw [hx, Nat.add_mul, Nat.one_mul]; omega
    have e : kx + 1 + ky = (kx + ky) + 1 := by omega
    rw [e]
    simp only [msIter, seq2]
    rw [List.take_append_of_le_length hxl, List.drop_append_of_le_length hxl]
    cases h1 : rd st (x.take m) with
    | ok r1 =>
      simp only [Res.bind]
      rw [ih ky r1.1 (x.drop m) y (by rw [List.length_drop, hx, Nat.add_mul, Nat.one_mul]; omega)]
      simp only [seq2]
      cases msIter rd m kx r1.1 (x.drop m) with
      | ok r2 =>
        simp only [Res.bind]
        cases msIter rd m ky r2.1 y with
        | ok r3 => simp only [Res.bind, List.append_assoc]
        | err e => rfl
        | oob => rfl
        | abort => rfl
      | err e => rfl
      | oob => rfl
      | abort => rfl
    | err e => rfl
    | oob => rfl
    | abort => rfl

variable (hnil : ∀ st, rd st [] = .ok (st, []))
variable (hsplit : ∀ st (x y : List Int) (r : Nat), x.length = m → y.length = r * m → r + 1 ≤ 10 →
    rd st (x ++ y) = seq2 (rd st x) (fun s1 => rd s1 y))

include hnil hsplit in
theorem round_eq_msIter (hm : 0 < m) : ∀ (k : Nat) (st : σ) (xs : List Int), xs.length = k * m → k ≤ 10 →
    rd st xs = msIter rd m k st xs := by
  intro k
  induction k with
  | zero =>
    intro st xs hx _
    have : xs = [] := List.eq_nil_of_length_eq_zero (by omega)
    subst this
    simp only [msIter, hnil]
  | succ k ih =>
    intro st xs hx hk
    have hxl : m ≤ xs.length := by rw [hx, Nat.add_mul, Nat.one_mul]; omega
    have hd : (xs.drop m).length = k * m := by rw [List.length_drop, hx, Nat.add_mul, Nat.one_mul]; omega
    conv => lhs; rw [← List.take_append_drop m xs]
    rw [hsplit st (xs.take m) (xs.drop m) k (by rw [List.length_take]; omega) hd (by omega)]
    simp only [msIter, seq2]
    cases rd st (xs.take m) with
    | ok r1 => simp only [Res.bind]; rw [ih r1.1 (xs.drop m) hd (by omega)]
    | err e => rfl
    | oob => rfl
    | abort => rfl

variable (lp : σ → List Int → Res (σ × List Int)) (B thr : Nat)
variable (hloop : ∀ st (xs : List Int), lp st xs =
    (rd st (xs.take (min xs.length B))).bind fun r1 =>
      if thr < (xs.drop (min xs.length B)).length ∧ 0 < min xs.length B then
        (lp r1.1 (xs.drop (min xs.length B))).bind fun r2 => .ok (r2.1, r1.2 ++ r2.2)
      else .ok (r1.1, r1.2))

include hnil hsplit hloop in
/-- The loop on a whole number of milliseconds = that many one-millisecond rounds. -/
theorem loop_eq_msIter (hm : 0 < m) (hB : B = 10 * m) (hthr : thr < m) :
    ∀ (f K : Nat) (st : σ) (xs : List Int), K ≤ f → xs.length = K * m → lp st xs = msIter rd m K st xs := by
  intro f
  induction f with
  | zero =>
    intro K st xs hK hx
    have hK0 : K = 0 := by omega
    subst hK0
    have : xs = [] := List.eq_nil_of_length_eq_zero (by omega)
    subst this
    rw [hloop]
    simp only [List.length_nil, Nat.zero_min, List.take_zero, List.drop_zero, hnil, Res.bind, msIter]
    rw [if_neg (by omega)]
  | succ f ih =>
    intro K st xs hK hx
    rw [hloop]
    by_cases hle : K ≤ 10
    · have hmin : min xs.length B = xs.length := by
        have : K * m ≤ 10 * m := Nat.mul_le_mul_right m hle
        omega
      rw [hmin, List.take_length, List.drop_length]
      rw [round_eq_msIter rd m hnil hsplit hm K st xs hx hle]
      cases msIter rd m K st xs with
      | ok r => simp only [Res.bind, List.length_nil]; rw [if_neg (by omega)]
      | err e => rfl
      | oob => rfl
      | abort => rfl
    · have hgt : 10 < K := by omega
      have hlt : 10 * m + m ≤ K * m := by
        have : (10 + 1) * m ≤ K * m := Nat.mul_le_mul_right m hgt
        rw [Nat.add_mul, Nat.one_mul] at this; exact this
      have hmin : min xs.length B = 10 * m := by omega
      rw [hmin]
      have htl : (xs.take (10 * m)).length = 10 * m := by rw [List.length_take]; omega
      have hdl : (xs.drop (10 * m)).length = (K - 10) * m := by rw [List.length_drop, hx, Nat.sub_mul]
      rw [round_eq_msIter rd m hnil hsplit hm 10 st (xs.take (10 * m)) htl (Nat.le_refl _)]
      have hsplitK : msIter rd m K st xs =
          seq2 (msIter rd m 10 st (xs.take (10 * m))) (fun s1 => msIter rd m (K - 10) s1 (xs.drop (10 * m))) := by
        have := msIter_append rd m hm 10 (K - 10) st (xs.take (10 * m)) (xs.drop (10 * m)) htl
        rw [List.take_append_drop] at this
        have e : 10 + (K - 10) = K := by omega
        rw [e] at this; exact this
      rw [hsplitK]
      simp only [seq2]
      cases msIter rd m 10 st (xs.take (10 * m)) with
      | ok r1 =>
        simp only [Res.bind]
        have hge : 1 * m ≤ (K - 10) * m := Nat.mul_le_mul_right m (by omega)
        rw [if_pos ⟨by rw [hdl]; omega, by omega⟩]
        rw [ih (K - 10) r1.1 (xs.drop (10 * m)) (by omega) hdl]
      | err e => rfl
      | oob => rfl
      | abort => rfl

include hnil hsplit hloop in
/-- Partition independence: at a whole-millisecond cut the loop on x ++ y is the loop on x followed by the loop on y. -/
theorem loop_append (hm : 0 < m) (hB : B = 10 * m) (hthr : thr < m) (kx ky : Nat) (st : σ) (x y : List Int)
    (hx : x.length = kx * m) (hy : y.length = ky * m) :
    lp st (x ++ y) = seq2 (lp st x) (fun s1 => lp s1 y) := by
  have hxy : (x ++ y).length = (kx + ky) * m := by rw [List.length_append, hx, hy, Nat.add_mul]
  rw [loop_eq_msIter rd m hnil hsplit lp B thr hloop hm hB hthr _ _ st (x ++ y) (Nat.le_refl _) hxy,
    msIter_append rd m hm kx ky st x y hx,
    loop_eq_msIter rd m hnil hsplit lp B thr hloop hm hB hthr _ _ st x (Nat.le_refl _) hx]
  simp only [seq2]
  cases msIter rd m kx st x with
  | ok r1 =>
    simp only [Res.bind]
    rw [loop_eq_msIter rd m hnil hsplit lp B thr hloop hm hB hthr _ _ r1.1 y (Nat.le_refl _) hy]
  | err e => rfl
  | oob => rfl
  | abort => rfl

end Generic

end OpusProofs.SilkResamp
