import OpusProofs.SilkResampChunk
import OpusProofs.SilkResampLen
/-
  OpusProofs.SilkResampPart — partition independence of the batch loops of the SILK resampler (IIR_FIR.c:86-103,
  down_FIR.c:163-187): on an input of a whole number of milliseconds the loop equals the iteration of ONE-millisecond
  rounds, whatever the batch size cut it into; hence loop (x ++ y) = loop x then loop y at whole-millisecond cuts.
  Generic part: an abstract round `rd` with (Hnil) the empty round is the identity, (Hsplit) a round on x ++ y with x
  one millisecond and at most 10 ms in all equals the round on x followed by the round on y, (Hloop) the loop's
  unfolding equation.
-/
namespace OpusProofs.SilkResamp
open Opus Opus.SilkResamp Opus.SilkParams Opus.Gen.SilkResampRom

theorem Res.bind_assoc' {α β γ} (r : Res α) (f : α → Res β) (g : β → Res γ) :
    (r.bind f).bind g = r.bind fun a => (f a).bind g := by cases r <;> rfl

theorem Res.bind_ok_right {α β} (r : Res (α × List β)) : (r.bind fun a => Res.ok (a.1, a.2)) = r := by
  cases r <;> rfl

section Generic
variable {σ : Type} (rd : σ → List Int → Res (σ × List Int)) (m : Nat)

/-- `k` one-millisecond rounds. -/
def msIter : Nat → σ → List Int → Res (σ × List Int)
  | 0, st, _ => .ok (st, [])
  | k + 1, st, xs =>
    (rd st (xs.take m)).bind fun r1 => (msIter k r1.1 (xs.drop m)).bind fun r2 => .ok (r2.1, r1.2 ++ r2.2)

/-- sequential composition of two stages, outputs concatenated -/
def seq2 (a : Res (σ × List Int)) (f : σ → Res (σ × List Int)) : Res (σ × List Int) :=
  a.bind fun r1 => (f r1.1).bind fun r2 => .ok (r2.1, r1.2 ++ r2.2)

theorem msIter_append (hm : 0 < m) : ∀ (kx ky : Nat) (st : σ) (x y : List Int), x.length = kx * m →
    msIter rd m (kx + ky) st (x ++ y) = seq2 (msIter rd m kx st x) (fun s1 => msIter rd m ky s1 y) := by
  intro kx
  induction kx with
  | zero =>
    intro ky st x y hx
    have : x = [] := List.eq_nil_of_length_eq_zero (by omega)
    subst this
    simp only [Nat.zero_add, List.nil_append, msIter, seq2, Res.bind]
    cases msIter rd m ky st y <;> rfl
  | succ kx ih =>
    intro ky st x y hx
    have hxl : m ≤ x.length := by rw [hx, Nat.add_mul, Nat.one_mul]; omega
    have e : kx + 1 + ky = (kx + ky) + 1 := by omega
    rw [e]
    simp only [msIter, seq2]
    rw [List.take_append_of_le_length hxl, List.drop_append_of_le_length hxl]
    cases h1 : rd st (x.take m) with
    | ok r1 =>
      simp only [Res.bind]
      rw [ih ky r1.1 (x.drop m) y (by rw [List.length_drop, hx, Nat.add_mul, Nat.one_mul]; omega)]
      simp only [seq2]
      cases msIter rd m kx r1.1 (x.drop m) with
      | ok r2 =>
        simp only [Res.bind]
        cases msIter rd m ky r2.1 y with
        | ok r3 => simp only [Res.bind, List.append_assoc]
        | err e => rfl
        | oob => rfl
        | abort => rfl
      | err e => rfl
      | oob => rfl
      | abort => rfl
    | err e => rfl
    | oob => rfl
    | abort => rfl

variable (hnil : ∀ st, rd st [] = .ok (st, []))
variable (hsplit : ∀ st (x y : List Int) (r : Nat), x.length = m → y.length = r * m → r + 1 ≤ 10 →
    rd st (x ++ y) = seq2 (rd st x) (fun s1 => rd s1 y))

include hnil hsplit in
theorem round_eq_msIter (hm : 0 < m) : ∀ (k : Nat) (st : σ) (xs : List Int), xs.length = k * m → k ≤ 10 →
    rd st xs = msIter rd m k st xs := by
  intro k
  induction k with
  | zero =>
    intro st xs hx _
    have : xs = [] := List.eq_nil_of_length_eq_zero (by omega)
    subst this
    simp only [msIter, hnil]
  | succ k ih =>
    intro st xs hx hk
    have hxl : m ≤ xs.length := by rw [hx, Nat.add_mul, Nat.one_mul]; omega
    have hd : (xs.drop m).length = k * m := by rw [List.length_drop, hx, Nat.add_mul, Nat.one_mul]; omega
    conv => lhs; rw [← List.take_append_drop m xs]
    rw [hsplit st (xs.take m) (xs.drop m) k (by rw [List.length_take]; omega) hd (by omega)]
    simp only [msIter, seq2]
    cases rd st (xs.take m) with
    | ok r1 => simp only [Res.bind]; rw [ih r1.1 (xs.drop m) hd (by omega)]
    | err e => rfl
    | oob => rfl
    | abort => rfl

variable (lp : σ → List Int → Res (σ × List Int)) (B thr : Nat)
variable (hloop : ∀ st (xs : List Int), lp st xs =
    (rd st (xs.take (min xs.length B))).bind fun r1 =>
      if thr < (xs.drop (min xs.length B)).length ∧ 0 < min xs.length B then
        (lp r1.1 (xs.drop (min xs.length B))).bind fun r2 => .ok (r2.1, r1.2 ++ r2.2)
      else .ok (r1.1, r1.2))

include hnil hsplit hloop in
/-- The loop on a whole number of milliseconds = that many one-millisecond rounds. -/
theorem loop_eq_msIter (hm : 0 < m) (hB : B = 10 * m) (hthr : thr < m) :
    ∀ (f K : Nat) (st : σ) (xs : List Int), K ≤ f → xs.length = K * m → lp st xs = msIter rd m K st xs := by
  intro f
  induction f with
  | zero =>
    intro K st xs hK hx
    have hK0 : K = 0 := by omega
    subst hK0
    have : xs = [] := List.eq_nil_of_length_eq_zero (by omega)
    subst this
    rw [hloop]
    simp only [List.length_nil, Nat.zero_min, List.take_zero, List.drop_zero, hnil, Res.bind, msIter]
    rw [if_neg (by omega)]
  | succ f ih =>
    intro K st xs hK hx
    rw [hloop]
    by_cases hle : K ≤ 10
    · have hmin : min xs.length B = xs.length := by
        have : K * m ≤ 10 * m := Nat.mul_le_mul_right m hle
        omega
      rw [hmin, List.take_length, List.drop_length]
      rw [round_eq_msIter rd m hnil hsplit hm K st xs hx hle]
      cases msIter rd m K st xs with
      | ok r => simp only [Res.bind, List.length_nil]; rw [if_neg (by omega)]
      | err e => rfl
      | oob => rfl
      | abort => rfl
    · have hgt : 10 < K := by omega
      have hlt : 10 * m + m ≤ K * m := by
        have : (10 + 1) * m ≤ K * m := Nat.mul_le_mul_right m hgt
        rw [Nat.add_mul, Nat.one_mul] at this; exact this
      have hmin : min xs.length B = 10 * m := by omega
      rw [hmin]
      have htl : (xs.take (10 * m)).length = 10 * m := by rw [List.length_take]; omega
      have hdl : (xs.drop (10 * m)).length = (K - 10) * m := by rw [List.length_drop, hx, Nat.sub_mul]
      rw [round_eq_msIter rd m hnil hsplit hm 10 st (xs.take (10 * m)) htl (Nat.le_refl _)]
      have hsplitK : msIter rd m K st xs =
          seq2 (msIter rd m 10 st (xs.take (10 * m))) (fun s1 => msIter rd m (K - 10) s1 (xs.drop (10 * m))) := by
        have := msIter_append rd m hm 10 (K - 10) st (xs.take (10 * m)) (xs.drop (10 * m)) htl
        rw [List.take_append_drop] at this
        have e : 10 + (K - 10) = K := by omega
        rw [e] at this; exact this
      rw [hsplitK]
      simp only [seq2]
      cases msIter rd m 10 st (xs.take (10 * m)) with
      | ok r1 =>
        simp only [Res.bind]
        have hge : 1 * m ≤ (K - 10) * m := Nat.mul_le_mul_right m (by omega)
        rw [if_pos ⟨by rw [hdl]; omega, by omega⟩]
        rw [ih (K - 10) r1.1 (xs.drop (10 * m)) (by omega) hdl]
      | err e => rfl
      | oob => rfl
      | abort => rfl

include hnil hsplit hloop in
/-- Partition independence: at a whole-millisecond cut the loop on x ++ y is the loop on x followed by the loop on y. -/
theorem loop_append (hm : 0 < m) (hB : B = 10 * m) (hthr : thr < m) (kx ky : Nat) (st : σ) (x y : List Int)
    (hx : x.length = kx * m) (hy : y.length = ky * m) :
    lp st (x ++ y) = seq2 (lp st x) (fun s1 => lp s1 y) := by
  have hxy : (x ++ y).length = (kx + ky) * m := by rw [List.length_append, hx, hy, Nat.add_mul]
  rw [loop_eq_msIter rd m hnil hsplit lp B thr hloop hm hB hthr _ _ st (x ++ y) (Nat.le_refl _) hxy,
    msIter_append rd m hm kx ky st x y hx,
    loop_eq_msIter rd m hnil hsplit lp B thr hloop hm hB hthr _ _ st x (Nat.le_refl _) hx]
  simp only [seq2]
  cases msIter rd m kx st x with
  | ok r1 =>
    simp only [Res.bind]
    rw [loop_eq_msIter rd m hnil hsplit lp B thr hloop hm hB hthr _ _ r1.1 y (Nat.le_refl _) hy]
  | err e => rfl
  | oob => rfl
  | abort => rfl

end Generic

/-! ### Splitting an interpolation loop -/

theorem window_append_left {l1 l2 : List Int} {i : Int} {n : Nat} (h0 : 0 ≤ i) (h : i.toNat + n ≤ l1.length) :
    window (l1 ++ l2) i n = window l1 i n := by
  rw [window_ok h0 h, window_ok h0 (by rw [List.length_append]; omega)]
  congr 1
  rw [List.drop_append_of_le_length (by omega), List.take_append_of_le_length (by rw [List.length_drop]; omega)]

theorem window_drop {l : List Int} {q : Int} {off n : Nat} (h0 : 0 ≤ q) (hoff : off ≤ l.length) :
    window l ((off : Int) + q) n = window (l.drop off) q n := by
  unfold window
  have e : ((off : Int) + q).toNat = off + q.toNat := by omega
  have hl : (l.drop off).length = l.length - off := List.length_drop
  by_cases h : q.toNat + n ≤ (l.drop off).length
  · rw [if_pos ⟨by omega, by omega⟩, if_pos ⟨h0, h⟩, e, List.drop_drop]
  · rw [if_neg (fun hh => h (by have := hh.2; omega)), if_neg (fun hh => h hh.2)]

theorem mapRes_append {α β} (f : α → Res β) (l1 l2 : List α) :
    mapRes f (l1 ++ l2) = (mapRes f l1).bind fun a => (mapRes f l2).bind fun b => .ok (a ++ b) := by
  induction l1 with
  | nil => simp only [List.nil_append, mapRes, Res.bind]; cases mapRes f l2 <;> rfl
  | cons a as ih =>
    simp only [List.cons_append, mapRes, ih]
    cases f a with
    | ok b =>
      cases mapRes f as with
      | ok bs => simp only [Res.bind]; cases mapRes f l2 <;> rfl
      | err e => rfl
      | oob => rfl
      | abort => rfl
    | err e => rfl
    | oob => rfl
    | abort => rfl

theorem mapRes_congr {α β} {f g : α → Res β} : ∀ l : List α, (∀ a ∈ l, f a = g a) → mapRes f l = mapRes g l := by
  intro l
  induction l with
  | nil => intro _; rfl
  | cons a as ih =>
    intro h
    simp only [mapRes, h a List.mem_cons_self, ih (fun x hx => h x (List.mem_cons_of_mem _ hx))]

theorem mapRes_map {α β γ} (f : β → Res γ) (g : α → β) (l : List α) : mapRes f (l.map g) = mapRes (fun a => f (g a)) l := by
  induction l with
  | nil => rfl
  | cons a as ih => simp only [List.map_cons, mapRes, ih]

theorem interpol_split (sample sample1 sample2 : Int → Res Int) (m1 m2 inc : Int) (hinc : 0 < inc)
    (hcnt : interpCount (m1 + m2) inc = interpCount m1 inc + interpCount m2 inc)
    (h1 : ∀ i : Nat, i < interpCount m1 inc → sample ((i : Int) * inc) = sample1 ((i : Int) * inc))
    (h2 : ∀ i : Nat, i < interpCount m2 inc →
      sample (((interpCount m1 inc + i : Nat) : Int) * inc) = sample2 ((i : Int) * inc)) :
    interpol sample (m1 + m2) inc =
      (interpol sample1 m1 inc).bind fun o1 => (interpol sample2 m2 inc).bind fun o2 => .ok (o1 ++ o2) := by
  unfold interpol
  rw [if_neg (by omega), if_neg (by omega), if_neg (by omega), hcnt, List.range_add, mapRes_append, mapRes_map]
  rw [mapRes_congr (f := fun j : Nat => sample ((j : Int) * inc)) (g := fun j : Nat => sample1 ((j : Int) * inc))
    (List.range (interpCount m1 inc)) (fun a ha => h1 a (List.mem_range.1 ha))]
  rw [mapRes_congr (f := fun a : Nat => sample (((interpCount m1 inc + a : Nat) : Int) * inc))
    (g := fun j : Nat => sample2 ((j : Int) * inc))
    (List.range (interpCount m2 inc)) (fun a ha => h2 a (List.mem_range.1 ha))]

/-! ### IIR_FIR -/

/-- One round of the IIR_FIR loop on state (sIIR, buf[0..8)); a state whose head is not 8 long is left alone (never
    happens; makes the round total so that the generic lemmas apply to every state). -/
def iirRd (c : Cfg) (st : IIR × List Int) (xs : List Int) : Res ((IIR × List Int) × List Int) :=
  if st.2.length = 8 then
    if 2 * c.batchSize + orderFir12 < (st.2 ++ (up2hq st.1 xs).2).length then .oob
    else
      (interpol (iirFirSample (st.2 ++ (up2hq st.1 xs).2)) (lshift32 (xs.length : Int) 17) c.invRatio).bind fun outs =>
      (window (st.2 ++ (up2hq st.1 xs).2) (2 * (xs.length : Int)) orderFir12).bind fun h' =>
      .ok (((up2hq st.1 xs).1, h'), outs)
  else .ok (st, [])

def iirLp (c : Cfg) (st : IIR × List Int) (xs : List Int) : Res ((IIR × List Int) × List Int) :=
  if st.2.length = 8 then
    (iirFirLoop c st.1 st.2 xs).bind fun r => .ok ((r.1, r.2.1), r.2.2)
  else .ok (st, [])

def iirPartFacts (c : Cfg) : Bool :=
  c.fn != useIIRFIR ||
  ((List.range 11).all (fun r => interpCount (lshift32 ((r * c.fsIn : Nat) : Int) 17) c.invRatio == r * c.fsOut) &&
   (List.range (9 * c.fsOut)).all (fun i =>
      (((c.fsOut + i : Nat) : Int) * c.invRatio) / 65536 == ((2 * c.fsIn : Nat) : Int) + ((i : Int) * c.invRatio) / 65536 &&
      smulwb ((((c.fsOut + i : Nat) : Int) * c.invRatio) % 65536) 12 == smulwb (((i : Int) * c.invRatio) % 65536) 12))

theorem cfgTable_iirPartFacts : ∀ c ∈ cfgTable, iirPartFacts c = true := by decide +kernel

theorem iirLp_unfold (c : Cfg) (st : IIR × List Int) (xs : List Int) :
    iirLp c st xs =
      (iirRd c st (xs.take (min xs.length c.batchSize))).bind fun r1 =>
        if 0 < (xs.drop (min xs.length c.batchSize)).length ∧ 0 < min xs.length c.batchSize then
          (iirLp c r1.1 (xs.drop (min xs.length c.batchSize))).bind fun r2 => .ok (r2.1, r1.2 ++ r2.2)
        else .ok (r1.1, r1.2) := by
  have hlen : (xs.take (min xs.length c.batchSize)).length = min xs.length c.batchSize := by
    rw [List.length_take]; omega
  by_cases h8 : st.2.length = 8
  · unfold iirLp iirRd
    rw [if_pos h8, if_pos h8, iirFirLoop, hlen]
    by_cases hal : 2 * c.batchSize + orderFir12 < (st.2 ++ (up2hq st.1 (xs.take (min xs.length c.batchSize))).2).length
    · rw [if_pos hal, if_pos hal]; rfl
    · rw [if_neg hal, if_neg hal]
      cases interpol (iirFirSample (st.2 ++ (up2hq st.1 (xs.take (min xs.length c.batchSize))).2))
          (lshift32 ((min xs.length c.batchSize : Nat) : Int) 17) c.invRatio with
      | ok outs =>
        simp only [Res.bind]
        cases hw : window (st.2 ++ (up2hq st.1 (xs.take (min xs.length c.batchSize))).2)
            (2 * ((min xs.length c.batchSize : Nat) : Int)) orderFir12 with
        | ok hd =>
          simp only [Res.bind]
          have hdl : hd.length = 8 := by
            unfold window at hw
            split at hw
            · injection hw with hw; rw [← hw, List.length_take, List.length_drop]; simp only [orderFir12] at *; omega
            · cases hw
          by_cases hmore : 0 < (xs.drop (min xs.length c.batchSize)).length ∧ 0 < min xs.length c.batchSize
          · rw [dif_pos hmore, if_pos hmore, if_pos hdl]
            cases iirFirLoop c (up2hq st.1 (xs.take (min xs.length c.batchSize))).1 hd (xs.drop (min xs.length c.batchSize)) <;> rfl
          · rw [dif_neg hmore, if_neg hmore]
        | err e => rfl
        | oob => rfl
        | abort => rfl
      | err e => rfl
      | oob => rfl
      | abort => rfl
  · unfold iirLp iirRd
    rw [if_neg h8, if_neg h8]
    simp only [Res.bind]
    split
    · rfl
    · rfl

theorem interpCount_zero {inc : Int} (h : 0 < inc) : interpCount 0 inc = 0 := by
  unfold interpCount
  have : (0 + inc - 1) / inc = 0 := Int.ediv_eq_zero_of_lt (by omega) (by omega)
  rw [this]; rfl

theorem iirRd_nil (c : Cfg) (hinv : 0 < c.invRatio) (st : IIR × List Int) : iirRd c st [] = .ok (st, []) := by
  unfold iirRd
  by_cases h8 : st.2.length = 8
  · rw [if_pos h8]
    simp only [up2hq, List.append_nil, List.length_nil]
    rw [if_neg (by rw [h8]; simp only [orderFir12]; omega)]
    have hl : lshift32 ((0 : Nat) : Int) 17 = 0 := by decide
    rw [hl]
    unfold interpol
    rw [if_neg (by omega), interpCount_zero hinv]
    simp only [List.range_zero, mapRes, Res.bind]
    rw [window_ok (by omega) (by simp only [orderFir12]; omega)]
    simp only [Res.bind]
    have : (st.2.drop (2 * ((0 : Nat) : Int)).toNat).take orderFir12 = st.2 := by
      simp only [orderFir12]
      exact List.take_of_length_le (by simp; omega)
    rw [this]
  · rw [if_neg h8]

theorem iirRd_split (c : Cfg) (hfn : c.fn = useIIRFIR) (hpf : iirPartFacts c = true) (hinv : 0 < c.invRatio)
    (hB : c.batchSize = 10 * c.fsIn) (hfs48 : c.fsIn ≤ 48)
    (st : IIR × List Int) (x y : List Int) (r : Nat) (hx : x.length = c.fsIn) (hy : y.length = r * c.fsIn)
    (hr : r + 1 ≤ 10) :
    iirRd c st (x ++ y) = seq2 (iirRd c st x) (fun s1 => iirRd c s1 y) := by
  rcases Nat.decEq st.2.length 8 with h8 | h8
  · unfold iirRd seq2
    rw [if_neg h8, if_neg h8]
    simp only [Res.bind]
    rw [if_neg h8]
    rfl
  simp only [iirPartFacts, Bool.or_eq_true, Bool.and_eq_true, bne_iff_ne, ne_eq, List.all_eq_true, List.mem_range,
    beq_iff_eq] at hpf
  obtain ⟨hcnt, hidx⟩ := hpf.resolve_left (fun h => h hfn)
  have hrf : r * c.fsIn + c.fsIn ≤ 10 * c.fsIn := by
    have := Nat.mul_le_mul_right c.fsIn hr; rw [Nat.add_mul, Nat.one_mul] at this; exact this
  have hU1 : (up2hq st.1 x).2.length = 2 * c.fsIn := by rw [up2hq_len, hx]
  have hU2 : (up2hq (up2hq st.1 x).1 y).2.length = 2 * (r * c.fsIn) := by rw [up2hq_len, hy]
  -- lengths as shifts
  have hm1 := lshift32_small (n := c.fsIn) (s := 17) (Or.inr rfl) (by omega)
  have hm2 := lshift32_small (n := r * c.fsIn) (s := 17) (Or.inr rfl) (by omega)
  have hm12 := lshift32_small (n := c.fsIn + r * c.fsIn) (s := 17) (Or.inr rfl) (by omega)
  have hsum : lshift32 (((x ++ y).length : Nat) : Int) 17 =
      lshift32 ((c.fsIn : Nat) : Int) 17 + lshift32 ((r * c.fsIn : Nat) : Int) 17 := by
    rw [List.length_append, hx, hy, hm1, hm2, hm12]; omega
  have hc1 : interpCount (lshift32 ((c.fsIn : Nat) : Int) 17) c.invRatio = c.fsOut := by
    have := hcnt 1 (by omega); simpa using this
  have hc2 : interpCount (lshift32 ((r * c.fsIn : Nat) : Int) 17) c.invRatio = r * c.fsOut := hcnt r (by omega)
  have hc12 : interpCount (lshift32 ((c.fsIn : Nat) : Int) 17 + lshift32 ((r * c.fsIn : Nat) : Int) 17) c.invRatio =
      c.fsOut + r * c.fsOut := by
    have h := hcnt (r + 1) (by omega)
    have e : (r + 1) * c.fsIn = c.fsIn + r * c.fsIn := by rw [Nat.add_mul, Nat.one_mul, Nat.add_comm]
    have e' : (r + 1) * c.fsOut = c.fsOut + r * c.fsOut := by rw [Nat.add_mul, Nat.one_mul, Nat.add_comm]
    rw [e, e'] at h
    have hs : lshift32 ((c.fsIn + r * c.fsIn : Nat) : Int) 17 =
        lshift32 ((c.fsIn : Nat) : Int) 17 + lshift32 ((r * c.fsIn : Nat) : Int) 17 := by
      rw [hm1, hm2, hm12]; omega
    rw [← hs]; exact h
  -- the three buffers
  let B1 := st.2 ++ (up2hq st.1 x).2
  let h1 := B1.drop (2 * c.fsIn)
  have hB1 : B1.length = 8 + 2 * c.fsIn := by simp only [B1, List.length_append, h8, hU1]
  have hh1 : h1.length = 8 := by simp only [h1, List.length_drop, hB1]; omega
  have hbuf : st.2 ++ ((up2hq st.1 x).2 ++ (up2hq (up2hq st.1 x).1 y).2) = B1 ++ (up2hq (up2hq st.1 x).1 y).2 := by
    simp only [B1, List.append_assoc]
  have hdrop : (B1 ++ (up2hq (up2hq st.1 x).1 y).2).drop (2 * c.fsIn) = h1 ++ (up2hq (up2hq st.1 x).1 y).2 :=
    List.drop_append_of_le_length (by omega)
  -- A: the interpolation splits
  have hA := interpol_split (iirFirSample (B1 ++ (up2hq (up2hq st.1 x).1 y).2)) (iirFirSample B1)
    (iirFirSample (h1 ++ (up2hq (up2hq st.1 x).1 y).2))
    (lshift32 ((c.fsIn : Nat) : Int) 17) (lshift32 ((r * c.fsIn : Nat) : Int) 17) c.invRatio hinv
    (by rw [hc12, hc1, hc2])
    (by
      intro i hi
      have hlt := idx_lt_max hinv hi
      rw [hm1] at hlt
      have h0 : 0 ≤ (i : Int) * c.invRatio := Int.mul_nonneg (Int.natCast_nonneg i) (Int.le_of_lt hinv)
      unfold iirFirSample
      rw [window_append_left (Int.ediv_nonneg h0 (by omega)) (by rw [hB1]; omega)])
    (by
      intro i hi
      rw [hc1]
      rw [hc2] at hi
      have hi9 : i < 9 * c.fsOut := by
        have : r * c.fsOut ≤ 9 * c.fsOut := Nat.mul_le_mul_right _ (by omega)
        omega
      obtain ⟨e1, e2⟩ := hidx i hi9
      have h0 : 0 ≤ (i : Int) * c.invRatio := Int.mul_nonneg (Int.natCast_nonneg i) (Int.le_of_lt hinv)
      unfold iirFirSample
      rw [e1, e2, window_drop (Int.ediv_nonneg h0 (by omega)) (by rw [List.length_append, hB1]; omega), hdrop])
  -- B: the last 8 samples
  have hBw : window (B1 ++ (up2hq (up2hq st.1 x).1 y).2) (2 * (((x ++ y).length : Nat) : Int)) orderFir12 =
      window (h1 ++ (up2hq (up2hq st.1 x).1 y).2) (2 * ((y.length : Nat) : Int)) orderFir12 := by
    have e : 2 * (((x ++ y).length : Nat) : Int) = ((2 * c.fsIn : Nat) : Int) + 2 * ((y.length : Nat) : Int) := by
      rw [List.length_append, hx]; omega
    rw [e, window_drop (by omega) (by rw [List.length_append, hB1]; omega), hdrop]
  -- C: the head after the first millisecond
  have hCw : window B1 (2 * ((x.length : Nat) : Int)) orderFir12 = .ok h1 := by
    rw [window_ok (by omega) (by rw [hB1, hx]; simp only [orderFir12]; omega)]
    have e : (2 * ((x.length : Nat) : Int)).toNat = 2 * c.fsIn := by rw [hx]; omega
    rw [e, List.take_of_length_le (l := B1.drop (2 * c.fsIn)) (by simp only [orderFir12]; exact Nat.le_of_eq hh1)]
  unfold iirRd seq2
  rw [if_pos h8, if_pos h8, up2hq_append, hbuf]
  rw [if_neg (by rw [List.length_append, hB1, hU2, hB]; simp only [orderFir12]; omega),
    if_neg (by show ¬ (2 * c.batchSize + orderFir12 < B1.length); rw [hB1, hB]; simp only [orderFir12]; omega)]
  rw [hsum, hA, hBw, hx, hy]
  show _ = ((interpol (iirFirSample B1) (lshift32 ((c.fsIn : Nat) : Int) 17) c.invRatio).bind fun outs =>
      (window B1 (2 * ((c.fsIn : Nat) : Int)) orderFir12).bind fun h' => Res.ok (((up2hq st.1 x).1, h'), outs)).bind _
  rw [← hx, hCw, hx]
  cases interpol (iirFirSample B1) (lshift32 ((c.fsIn : Nat) : Int) 17) c.invRatio with
  | ok o1 =>
    simp only [Res.bind]
    rw [if_pos hh1, if_neg (by rw [List.length_append, hh1, hU2, hB]; simp only [orderFir12]; omega)]
    cases interpol (iirFirSample (h1 ++ (up2hq (up2hq st.1 x).1 y).2)) (lshift32 ((r * c.fsIn : Nat) : Int) 17) c.invRatio with
    | ok o2 =>
      simp only [Res.bind]
      cases window (h1 ++ (up2hq (up2hq st.1 x).1 y).2) (2 * ((r * c.fsIn : Nat) : Int)) orderFir12 <;> rfl
    | err e => rfl
    | oob => rfl
    | abort => rfl
  | err e => rfl
  | oob => rfl
  | abort => rfl

/-- IIR_FIR loop: partition independence at whole-millisecond cuts. -/
theorem iirLp_append (c : Cfg) (hfn : c.fn = useIIRFIR) (hpf : iirPartFacts c = true) (hinv : 0 < c.invRatio)
    (hB : c.batchSize = 10 * c.fsIn) (hfs : 0 < c.fsIn) (hfs48 : c.fsIn ≤ 48) (kx ky : Nat) (st : IIR × List Int)
    (x y : List Int) (hx : x.length = kx * c.fsIn) (hy : y.length = ky * c.fsIn) :
    iirLp c st (x ++ y) = seq2 (iirLp c st x) (fun s1 => iirLp c s1 y) :=
  loop_append (iirRd c) c.fsIn (iirRd_nil c hinv)
    (fun st x y r hx hy hr => iirRd_split c hfn hpf hinv hB hfs48 st x y r hx hy hr)
    (iirLp c) c.batchSize 0 (iirLp_unfold c) hfs hB hfs kx ky st x y hx hy

end OpusProofs.SilkResamp
