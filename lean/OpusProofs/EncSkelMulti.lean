import OpusProofs.EncSkelNative
import OpusModel.Framing
import OpusProofs.EncSkelCbr
/-
  OpusProofs.EncSkelMulti — the multi-frame (repacketiser) path of `opus_encode_native`
  (opus_encoder.c:1616-1747): every sub-frame gets the same budget `Q` of 3..1276 bytes, the loop
  never fails under the contracts, the frames always fit `repacketize_len`, and a padded (CBR)
  packet has exactly `repacketize_len` bytes.  Then `opus_encode_native` as a whole.
-/
namespace Opus.EncSkel.Proofs
open Opus Opus.EncDecide Opus.EncSkel

/-- Samples per frame at 8 kHz for the frame rates of the multi-frame path. -/
def spf8k (fr : Int) : Nat := if fr = 50 then 160 else if fr = 25 then 320 else 480

/-- The ToC the frame encoder writes announces the coded frame duration (the cases that occur in
    multi-frame packets: 20 ms in every mode, 40 and 60 ms SILK-only). -/
theorem genToc_spf8k (mode fr bw ch : Int)
    (h : (mode = MODE_SILK_ONLY ∧ (fr = 50 ∨ fr = 25 ∨ fr = 16) ∧ (bw = BW_NB ∨ bw = BW_MB ∨ bw = BW_WB)) ∨
         (mode = MODE_HYBRID ∧ fr = 50 ∧ (bw = BW_SWB ∨ bw = BW_FB)) ∨
         (mode = MODE_CELT_ONLY ∧ fr = 50 ∧ BW_NB ≤ bw ∧ bw ≤ BW_FB)) :
    Framing.samplesPerFrame (genToc mode fr bw ch) 8000 = spf8k fr := by
  have hc : ∀ m f b, (Framing.samplesPerFrame (genToc m f b 2) 8000 = spf8k f) →
      (Framing.samplesPerFrame (genToc m f b 1) 8000 = spf8k f) → Framing.samplesPerFrame (genToc m f b ch) 8000 = spf8k f := by
    intro m f b h2 h1
    by_cases hch : ch = 2
    · rw [hch]; exact h2
    · have : genToc m f b ch = genToc m f b 1 := by unfold genToc; simp [hch]
      rw [this]; exact h1
  simp only [MODE_SILK_ONLY, MODE_HYBRID, MODE_CELT_ONLY, BW_NB, BW_MB, BW_WB, BW_SWB, BW_FB] at h
  rcases h with ⟨rfl, hf, hb⟩ | ⟨rfl, rfl, hb⟩ | ⟨rfl, rfl, hb1, hb2⟩
  · rcases hf with rfl | rfl | rfl <;> rcases hb with rfl | rfl | rfl <;> exact hc _ _ _ (by decide) (by decide)
  · rcases hb with rfl | rfl <;> exact hc _ _ _ (by decide) (by decide)
  · have : bw = 1101 ∨ bw = 1102 ∨ bw = 1103 ∨ bw = 1104 ∨ bw = 1105 := by omega
    rcases this with rfl | rfl | rfl | rfl | rfl <;> exact hc _ _ _ (by decide) (by decide)


/-- The loop-invariant part of `curr_max` (:1696, :1703). -/
def cmQ (s : St) (c : MultiCtx) : Int :=
  min (min (3 * s.bitrateBps / (3 * 8 * s.fs / c.encFs)) (c.maxLenSum / c.nbFrames)) 1276

theorem currMax_eq (s : St) (c : MultiCtx) (tot : Int) (h : cmQ s c ≤ c.maxLenSum - tot) : currMax s c tot = cmQ s c := by
  unfold currMax cmQ at *
  dsimp only
  omega

/-- Numbers of the multi-frame split for a legal long frame: 2..6 sub-frames, a per-frame budget
    `Q ≥ 5`, `nb·Q ≤ max_len_sum`, and the coded frame rate (20 ms; 40/60 ms only SILK-only x 2). -/
theorem multi_nums (s : St) (fsz rl m : Int)
    (hfs : s.fs = 8000 ∨ s.fs = 12000 ∨ s.fs = 16000 ∨ s.fs = 24000 ∨ s.fs = 48000)
    (hl : legalFrame s.fs fsz = true) (hmulti : isMulti s fsz = true)
    (hm : m ≤ rl) (hmfr : 300 ≤ m * (s.fs / fsz)) (hbr : 2400 ≤ s.bitrateBps)
    (c : MultiCtx) (hc1 : c.encFs = encFrameSize s fsz) (hc2 : c.nbFrames = fsz / c.encFs)
    (hc3 : c.maxLenSum = c.nbFrames + rl - (if c.nbFrames = 2 then 3 else 2 + (c.nbFrames - 1) * 2)) :
    2 ≤ c.nbFrames ∧ c.nbFrames ≤ 6 ∧ 5 ≤ cmQ s c ∧ cmQ s c ≤ 1276 ∧ c.nbFrames * cmQ s c ≤ c.maxLenSum ∧
    (s.fs / c.encFs = 50 ∨ (s.mode = MODE_SILK_ONLY ∧ c.nbFrames = 2 ∧ (s.fs / c.encFs = 25 ∨ s.fs / c.encFs = 16))) ∧
    c.nbFrames * c.encFs = fsz ∧
    (c.encFs = 8 * (s.fs / 400) ∨ (s.mode = MODE_SILK_ONLY ∧ (c.encFs = 16 * (s.fs / 400) ∨ c.encFs = 24 * (s.fs / 400)))) := by
  have hlong : s.fs / 50 < fsz := by
    unfold isMulti at hmulti
    simp only [decide_eq_true_eq] at hmulti
    omega
  have hcases := legal_long s.fs fsz hfs hl hlong
  unfold isMulti at hmulti
  simp only [decide_eq_true_eq] at hmulti
  unfold cmQ
  rw [hc3, hc2, hc1]
  unfold encFrameSize
  simp only [MODE_SILK_ONLY] at *
  generalize s.bitrateBps = br at *
  generalize s.mode = mode at *
  generalize s.fs = fs at *
  rcases hfs with rfl | rfl | rfl | rfl | rfl <;> norm_num at hcases <;>
    rcases hcases with rfl | rfl | rfl | rfl | rfl <;>
    (by_cases hmd : mode = 1000 <;> simp [hmd] at hmulti ⊢ <;> (try omega))

/-- What the loop needs from the decided state (the same for every sub-frame). -/
structure MultiPre (s0 : St) (c : MultiCtx) : Prop where
  mode : ModeOk s0.mode
  bwS : s0.mode = MODE_SILK_ONLY → s0.bandwidth = BW_NB ∨ s0.bandwidth = BW_MB ∨ s0.bandwidth = BW_WB
  bwH : s0.mode = MODE_HYBRID → s0.bandwidth = BW_SWB ∨ s0.bandwidth = BW_FB
  bwC : BwOk s0.bandwidth
  nb : 2 ≤ c.nbFrames ∧ c.nbFrames ≤ 6
  q : 3 ≤ cmQ s0 c ∧ cmQ s0 c ≤ 1276
  fit : c.nbFrames * cmQ s0 c ≤ c.maxLenSum
  rate : s0.fs / c.encFs = 50 ∨
         (s0.mode = MODE_SILK_ONLY ∧ c.nbFrames = 2 ∧ (s0.fs / c.encFs = 25 ∨ s0.fs / c.encFs = 16))
  enc : c.encFs = 8 * (s0.fs / 400) ∨
        (s0.mode = MODE_SILK_ONLY ∧ (c.encFs = 16 * (s0.fs / 400) ∨ c.encFs = 24 * (s0.fs / 400)))

/-- Loop invariant after `i` sub-frames (when nothing failed and all contracts held). -/
structure Good (s0 : St) (c : MultiCtx) (i : Nat) (a : MultiAcc) : Prop where
  mode : a.st.mode = s0.mode
  bandwidth : a.st.bandwidth = s0.bandwidth
  fs : a.st.fs = s0.fs
  useVbr : a.st.useVbr = s0.useVbr
  bitrateBps : a.st.bitrateBps = s0.bitrateBps
  streamChannels : a.st.streamChannels = s0.streamChannels
  len : a.lens.length = i
  lens : ∀ l ∈ a.lens, l ≤ 1275
  tot : a.totSize ≤ i * cmQ s0 c
  sum : (sumN a.lens : Int) + i ≤ a.totSize
  cfg0 : i = 0 → a.cfg0 = none
  cfgS : 0 < i → ∃ t bw, a.cfg0 = some t ∧ t = genToc s0.mode (s0.fs / c.encFs) bw s0.streamChannels ∧
           (s0.mode ≠ MODE_SILK_ONLY → bw = s0.bandwidth) ∧
           (s0.mode = MODE_SILK_ONLY → bw = BW_NB ∨ bw = BW_MB ∨ bw = BW_WB)

def Inv (s0 : St) (c : MultiCtx) (i : Nat) (a : MultiAcc) : Prop :=
  match a.fail with
  | some r => r.ok = false
  | none => a.ok = true → Good s0 c i a

theorem nb_spf (s0 : St) (c : MultiCtx) (hp : MultiPre s0 c) (i : Nat) (hi : (i : Int) < c.nbFrames) :
    (1 + i) * spf8k (s0.fs / c.encFs) ≤ 960 := by
  obtain ⟨h2, h6⟩ := hp.nb
  rcases hp.rate with h | ⟨_, hn, h | h⟩
  · rw [h]; simp [spf8k]; omega
  · rw [h]; simp [spf8k]; omega
  · rw [h]; simp [spf8k]; omega


theorem subSt_fields (c : MultiCtx) (i : Nat) (s : St) :
    (subSt c i s).mode = s.mode ∧ (subSt c i s).bandwidth = s.bandwidth ∧ (subSt c i s).fs = s.fs ∧
    (subSt c i s).useVbr = s.useVbr ∧ (subSt c i s).bitrateBps = s.bitrateBps ∧
    (subSt c i s).streamChannels = s.streamChannels := ⟨rfl, rfl, rfl, rfl, rfl, rfl⟩

theorem multiStep_inv (s0 : St) (c : MultiCtx) (d : Decided) (isSil : Int) (i : Nat) (fo : FrameOr) (a : MultiAcc)
    (hp : MultiPre s0 c) (hi : (i : Int) < c.nbFrames) (h : Inv s0 c i a) :
    Inv s0 c (i + 1) (multiStep c d isSil i fo a) := by
  unfold multiStep
  split
  · rename_i r hf
    unfold Inv at h ⊢
    rw [hf] at h ⊢
    exact h
  · rename_i hf
    unfold Inv at h
    rw [hf] at h
    dsimp only at h ⊢
    generalize hs : subSt c i a.st = s
    generalize hfi : subIn c d isSil i a.st a.totSize = fi
    by_cases hok : (a.ok && frameOk s fi fo && tocStable a.cfg0 (frameNative s fi fo)) = true
    · simp only [Bool.and_eq_true] at hok
      obtain ⟨⟨hao, hfo⟩, hts⟩ := hok
      have g := h hao
      obtain ⟨f1, f2, f3, f4, f5, f6⟩ := subSt_fields c i a.st
      rw [hs] at f1 f2 f3 f4 f5 f6
      have hq : cmQ a.st c = cmQ s0 c := by unfold cmQ; rw [g.bitrateBps, g.fs]
      obtain ⟨hq1, hq2⟩ := hp.q
      have hfit := hp.fit
      have hmul : ((i : Int) + 1) * cmQ s0 c ≤ c.nbFrames * cmQ s0 c :=
        Int.mul_le_mul_of_nonneg_right (by omega) (by omega)
      have hexp : ((i : Int) + 1) * cmQ s0 c = i * cmQ s0 c + cmQ s0 c := by rw [Int.add_mul]; omega
      have hcm : fi.maxDataBytes = cmQ s0 c := by
        rw [← hfi]; unfold subIn; dsimp only
        rw [currMax_eq a.st c a.totSize (by rw [hq]; have := g.tot; omega), hq]
      have hfsz : fi.frameSize = c.encFs := by rw [← hfi]; rfl
      have hpre : FramePre s fi := by
        refine ⟨by omega, by omega, ?_, ?_⟩
        · rw [f1, g.mode]; exact hp.mode
        · rw [f1, f2, g.mode, g.bandwidth]; exact hp.bwS
      have hpost := frameNative_post s fi fo hpre hfo
      generalize frameNative s fi fo = r at *
      obtain ⟨p1, p2, p3, p4, p5, p6, p7, p8, p9⟩ := hpost
      rw [if_neg (by rw [p1]; simp), if_neg (by omega)]
      -- the ToC of this sub-frame announces the coded duration
      have htoc : ∃ bw, r.toc = genToc s0.mode (s0.fs / c.encFs) bw s0.streamChannels ∧
          (s0.mode ≠ MODE_SILK_ONLY → bw = s0.bandwidth) ∧
          (s0.mode = MODE_SILK_ONLY → bw = BW_NB ∨ bw = BW_MB ∨ bw = BW_WB) := by
        obtain ⟨bw, ht, hb1, hb2⟩ := p8
        rw [hfsz, f3, g.fs, f1, g.mode, f6, g.streamChannels] at ht
        rw [f1, g.mode] at hb1 hb2
        rw [f2, g.bandwidth] at hb1
        exact ⟨bw, ht, hb1, hb2⟩
      have hspf : Framing.samplesPerFrame r.toc 8000 = spf8k (s0.fs / c.encFs) := by
        obtain ⟨bw, ht, hb1, hb2⟩ := htoc
        rw [ht]
        apply genToc_spf8k
        have hmode := hp.mode
        unfold ModeOk at hmode
        rcases hmode with hm | hm | hm
        · left
          refine ⟨hm, ?_, hb2 hm⟩
          rcases hp.rate with h | ⟨_, _, h | h⟩
          · exact Or.inl h
          · exact Or.inr (Or.inl h)
          · exact Or.inr (Or.inr h)
        · right; left
          have hne : s0.mode ≠ MODE_SILK_ONLY := by rw [hm]; decide
          refine ⟨hm, ?_, by rw [hb1 hne]; exact hp.bwH hm⟩
          rcases hp.rate with h | ⟨h, _⟩
          · exact h
          · exact absurd h hne
        · right; right
          have hne : s0.mode ≠ MODE_SILK_ONLY := by rw [hm]; decide
          refine ⟨hm, ?_, by rw [hb1 hne]; exact hp.bwC.1, by rw [hb1 hne]; exact hp.bwC.2⟩
          rcases hp.rate with h | ⟨h, _⟩
          · exact h
          · exact absurd h hne
      have hnsp := nb_spf s0 c hp i hi
      have hcat : catSpec a.cfg0 a.lens.length
          { tocCfg := r.toc, lens := [r.payload.toNat], size := r.ret.toNat, hdr := r.hdr } = OPUS_OK ∧
          (match a.cfg0 with | none => some r.toc | some c0 => some c0) = some r.toc := by
        unfold catSpec
        dsimp only
        rw [if_neg (by omega), g.len]
        by_cases hi0 : i = 0
        · rw [g.cfg0 hi0]
          dsimp only
          subst hi0
          simp only [Bool.false_eq_true, if_false, List.length_cons, List.length_nil, hspf]
          rw [if_neg (by simp), if_neg (by simp at hnsp ⊢; omega), if_neg (by simp; omega)]
          exact ⟨rfl, by simp⟩
        · obtain ⟨t, _, ht, _, _, _⟩ := g.cfgS (by omega)
          rw [ht] at hts ⊢
          unfold tocStable at hts
          simp only [Bool.or_eq_true, decide_eq_true_eq] at hts
          have htt : t = r.toc := by
            rcases hts with h' | h'
            · omega
            · exact h'
          subst htt
          dsimp only
          simp only [List.length_cons, List.length_nil, hspf]
          rw [if_neg (by simp), if_neg (by simp), if_neg (by simp at hnsp ⊢; omega), if_neg (by simp; omega)]
          exact ⟨rfl, by simp⟩
      rw [hcat.1, if_neg (by decide)]
      unfold Inv
      dsimp only
      intro _
      have k9 := p9
      refine ⟨?_, ?_, ?_, ?_, ?_, ?_, ?_, ?_, ?_, ?_, ?_, ?_⟩
      · rw [k9.mode, f1, g.mode]
      · rw [k9.bandwidth, f2, g.bandwidth]
      · rw [k9.fs, f3, g.fs]
      · rw [k9.useVbr, f4, g.useVbr]
      · rw [k9.bitrateBps, f5, g.bitrateBps]
      · rw [k9.streamChannels, f6, g.streamChannels]
      · simp [g.len]
      · intro l hl
        simp only [List.mem_append, List.mem_singleton] at hl
        rcases hl with hl | hl
        · exact g.lens l hl
        · omega
      · push_cast; rw [hexp]; have := g.tot; omega
      · rw [sumN_append]; simp only [sumN_cons, sumN_nil]
        have := g.sum
        have hpay : r.payload + 1 ≤ r.ret := by
          by_cases hd : r.dtx = true
          · have := p5 hd; omega
          · have hd' : r.dtx = false := by simpa using hd
            by_cases hv : s.useVbr = 0
            · have := p6 hv hd'; omega
            · have := p7 hv hd'; omega
        push_cast; omega
      · intro h0; omega
      · intro _
        obtain ⟨bw, ht, hb1, hb2⟩ := htoc
        exact ⟨r.toc, bw, hcat.2, ht, hb1, hb2⟩
    · have hokf : (a.ok && frameOk s fi fo && tocStable a.cfg0 (frameNative s fi fo)) = false := by
        simpa using hok
      rw [hokf]
      split
      · unfold Inv; rfl
      · split
        · unfold Inv; rfl
        · split
          · unfold Inv; rfl
          · unfold Inv; dsimp only; intro hc; cases hc


theorem multiLoop_inv (s0 : St) (c : MultiCtx) (d : Decided) (isSil : Int) (hp : MultiPre s0 c) :
    ∀ (n i : Nat) (fos : List FrameOr) (a : MultiAcc), Inv s0 c i a → ((i : Int) + n ≤ c.nbFrames) →
      Inv s0 c (i + n) (multiLoop c d isSil n i fos a) := by
  intro n
  induction n with
  | zero => intro i fos a h _; exact h
  | succ n ih =>
    intro i fos a h hle
    unfold multiLoop
    have hs := multiStep_inv s0 c d isSil i (fos.headD default) a hp (by omega) h
    have := ih (i + 1) fos.tail _ hs (by push_cast; omega)
    rw [show i + (n + 1) = i + 1 + n by omega]
    exact this

theorem baseSize_pos (lens : List Nat) (hne : lens ≠ []) : 1 ≤ baseSize lens := by
  match lens, hne with
  | [l0], _ => simp [baseSize]
  | [l0, l1], _ => simp only [baseSize]; split <;> omega
  | a :: b :: c :: rest, _ => simp only [baseSize, code3Size]; split <;> omega


theorem multiSt0_fields (s : St) :
    (multiSt0 s).mode = s.mode ∧ (multiSt0 s).bandwidth = s.bandwidth ∧ (multiSt0 s).fs = s.fs ∧
    (multiSt0 s).useVbr = s.useVbr ∧ (multiSt0 s).bitrateBps = s.bitrateBps ∧
    (multiSt0 s).streamChannels = s.streamChannels := by
  unfold multiSt0; split <;> exact ⟨rfl, rfl, rfl, rfl, rfl, rfl⟩

def acc0 (st : St) : MultiAcc :=
  { st := st, totSize := 0, dtxCount := 0, cfg0 := none, lens := [], calls := [], ok := true, fail := none }

theorem inv_start (s0 : St) (c : MultiCtx) (st : St)
    (h : st.mode = s0.mode ∧ st.bandwidth = s0.bandwidth ∧ st.fs = s0.fs ∧ st.useVbr = s0.useVbr ∧
         st.bitrateBps = s0.bitrateBps ∧ st.streamChannels = s0.streamChannels) :
    Inv s0 c 0 (acc0 st) := by
  obtain ⟨m1, m2, m3, m4, m5, m6⟩ := h
  unfold Inv acc0; dsimp only; intro _
  exact ⟨m1, m2, m3, m4, m5, m6, rfl, by simp, by simp, by simp, fun _ => rfl, fun h => absurd h (by omega)⟩

/-- What the multi-frame path says about the emitted packet. -/
structure MultiPkt (s0 : St) (c : MultiCtx) (r : NatRes) : Prop where
  toc : ∃ bw, r.pkt.tocCfg = genToc s0.mode (s0.fs / c.encFs) bw s0.streamChannels ∧
          (s0.mode ≠ MODE_SILK_ONLY → bw = s0.bandwidth) ∧
          (s0.mode = MODE_SILK_ONLY → bw = BW_NB ∨ bw = BW_MB ∨ bw = BW_WB)
  len : (r.pkt.lens.length : Int) = c.nbFrames
  lens : ∀ l ∈ r.pkt.lens, l ≤ 1275
  out : ∃ pad, outRange r.pkt.tocCfg r.pkt.lens c.repacketizeLen.toNat pad = .ok { size := r.pkt.size, hdr := r.pkt.hdr }
  size : (r.pkt.size : Int) = r.ret

/-- **Multi-frame path.**  Under the contracts the loop never fails, the repacketiser call cannot
    fail, `1 ≤ ret ≤ repacketize_len ≤ out_data_bytes`, and a CBR packet that is not all-DTX has
    exactly `repacketize_len` bytes. -/
theorem multiFrame_post (s0 : St) (d : Decided) (isSil fsz out cbr : Int) (fos : List FrameOr)
    (hp : MultiPre d.st (multiCtx d.st fsz out cbr))
    (hrl : 1 ≤ (multiCtx d.st fsz out cbr).repacketizeLen ∧ (multiCtx d.st fsz out cbr).repacketizeLen ≤ out)
    (hv : d.st.useVbr = s0.useVbr)
    (hcb : s0.useVbr = 0 → (multiCtx d.st fsz out cbr).repacketizeLen = cbrTarget s0 fsz out ∨
        (s0.userBitrate = OPUS_BITRATE_MAX ∧ s0.fs / 50 < fsz ∧ (multiCtx d.st fsz out cbr).repacketizeLen = out))
    (hok : (multiFrame d isSil fsz out cbr fos).ok = true) :
    NatPost s0 fsz out (multiFrame d isSil fsz out cbr fos) ∧
    MultiPkt d.st (multiCtx d.st fsz out cbr) (multiFrame d isSil fsz out cbr fos) := by
  have hmls : (multiCtx d.st fsz out cbr).maxLenSum = (multiCtx d.st fsz out cbr).nbFrames +
      (multiCtx d.st fsz out cbr).repacketizeLen -
      (if (multiCtx d.st fsz out cbr).nbFrames = 2 then 3 else 2 + ((multiCtx d.st fsz out cbr).nbFrames - 1) * 2) := rfl
  unfold multiFrame at hok ⊢
  dsimp only at hok ⊢
  generalize multiCtx d.st fsz out cbr = c at *
  obtain ⟨m1, m2, m3, m4, m5, m6⟩ := multiSt0_fields d.st
  have h0 := inv_start d.st c (multiSt0 d.st) ⟨m1, m2, m3, m4, m5, m6⟩
  obtain ⟨hnb2, hnb6⟩ := hp.nb
  have hl := multiLoop_inv d.st c d isSil hp c.nbFrames.toNat 0 fos _ h0 (by omega)
  have hacc : ({ st := multiSt0 d.st, totSize := 0, dtxCount := 0, cfg0 := none, lens := [], calls := [], ok := true, fail := none } : MultiAcc) = acc0 (multiSt0 d.st) := rfl
  rw [hacc] at hok ⊢
  generalize multiLoop c d isSil c.nbFrames.toNat 0 fos (acc0 (multiSt0 d.st)) = a at *
  unfold Inv at hl
  split at hl
  · rename_i r hf
    rw [hf] at hok ⊢
    dsimp only at hok ⊢
    rw [hl] at hok; cases hok
  · rename_i hf
    rw [hf] at hok ⊢
    dsimp only at hok ⊢
    have hao : a.ok = true := by
      split at hok <;> exact hok
    have g := hl hao
    rw [Nat.zero_add] at g
    have hlen : a.lens.length = c.nbFrames.toNat := g.len
    have hne : a.lens ≠ [] := by
      intro h; rw [h] at hlen; simp at hlen; omega
    have hbase : baseSize a.lens ≤ c.repacketizeLen.toNat := by
      have h1 := baseSize_le a.lens hne
      have h2 := g.sum
      have h3 := g.tot
      have h4 := hp.fit
      rw [hlen] at h1
      have h5 : ((c.nbFrames.toNat : Nat) : Int) = c.nbFrames := by omega
      rw [h5] at h2 h3
      unfold hdrMax at h1
      split at h1 <;> split at hmls <;> omega
    have hpos := baseSize_pos a.lens hne
    obtain ⟨t, bw, hcfg, htg, hb1, hb2⟩ := g.cfgS (by omega)
    have hgetD : a.cfg0.getD 0 = t := by rw [hcfg]; rfl
    have hlenI : (a.lens.length : Int) = c.nbFrames := by rw [hlen]; omega
    generalize hpd : decide (d.st.useVbr = 0 ∧ a.dtxCount ≠ c.nbFrames) = pad at *
    cases pad
    · obtain ⟨r, hr, hsz⟩ := outRange_nopad (a.cfg0.getD 0) a.lens c.repacketizeLen.toNat hne hbase
      rw [hr]
      dsimp only
      refine ⟨⟨rfl, by dsimp only; omega, by dsimp only; omega, ?_⟩,
              ⟨⟨bw, by dsimp only; rw [hgetD]; exact htg, hb1, hb2⟩, hlenI, g.lens, ⟨false, hr⟩, rfl⟩⟩
      intro hv0 hd
      dsimp only at hd
      exfalso
      simp only [decide_eq_false_iff_not, not_and, Decidable.not_not] at hpd
      have := hpd (by rw [hv]; exact hv0)
      simp [this] at hd
    · obtain ⟨r, hr, hsz⟩ := outRange_pad (a.cfg0.getD 0) a.lens c.repacketizeLen.toNat hne hbase
      rw [hr]
      dsimp only
      refine ⟨⟨rfl, by dsimp only; omega, by dsimp only; omega, ?_⟩,
              ⟨⟨bw, by dsimp only; rw [hgetD]; exact htg, hb1, hb2⟩, hlenI, g.lens, ⟨true, hr⟩, rfl⟩⟩
      intro hv0 _
      dsimp only
      rcases hcb hv0 with h | ⟨h1, h2, h3⟩
      · left; omega
      · right; exact ⟨h1, h2, by omega⟩


/-- The decision, the split constants and the result of the multi-frame branch for a given call. -/
abbrev decOf (s : St) (fuzz : Bool) (fsz out : Int) (o : NatOr) : Decided :=
  decide' (budgetSt s o fsz out) fuzz o fsz (sizeBudget (analysisUpd s o) fsz out).maxDataBytes
abbrev ctxOf (s : St) (fuzz : Bool) (fsz out : Int) (o : NatOr) : MultiCtx :=
  multiCtx (decOf s fuzz fsz out o).st fsz out (sizeBudget (analysisUpd s o) fsz out).cbr
abbrev multiOf (s : St) (fuzz : Bool) (fsz out : Int) (o : NatOr) : NatRes :=
  multiFrame (decOf s fuzz fsz out o) (effSilence (budgetSt s o fsz out) o) fsz out
    (sizeBudget (analysisUpd s o) fsz out).cbr o.frames

/-- The multi-frame branch of `opus_encode_native`: size post-condition, packet structure, and the
    numbers of the split. -/
theorem multi_branch (s : St) (fuzz : Bool) (fsz out : Int) (o : NatOr)
    (he : entryCheck s fsz out = none) (htm : takesMulti s fuzz fsz out o = true)
    (hst : stOk s = true) (hlg : legalFrame s.fs fsz = true)
    (hmok : (multiOf s fuzz fsz out o).ok = true) :
    NatPost s fsz out (multiOf s fuzz fsz out o) ∧
    MultiPkt (decOf s fuzz fsz out o).st (ctxOf s fuzz fsz out o) (multiOf s fuzz fsz out o) ∧
    (ctxOf s fuzz fsz out o).nbFrames * (ctxOf s fuzz fsz out o).encFs = fsz ∧
    MultiPre (decOf s fuzz fsz out o).st (ctxOf s fuzz fsz out o) ∧
    (decOf s fuzz fsz out o).st.fs = s.fs := by
  unfold multiOf ctxOf decOf at *
  have hout : 1 ≤ out := by
    unfold entryCheck at he
    dsimp only at he
    split at he
    · cases he
    · omega
  unfold takesMulti at htm
  simp only [Bool.and_eq_true, Bool.not_eq_true'] at htm
  obtain ⟨hg, hmu⟩ := htm
  have hbs := budgetSt_same s o fsz out
  have hfs1 : (budgetSt s o fsz out).fs = s.fs := by unfold BudSame at hbs; rw [hbs]
  have hv1 : (budgetSt s o fsz out).useVbr = s.useVbr := by unfold BudSame at hbs; rw [hbs]
  have hub1 : (budgetSt s o fsz out).userBitrate = s.userBitrate := by unfold BudSame at hbs; rw [hbs]
  have hbr1 : (budgetSt s o fsz out).bitrateBps = (sizeBudget (analysisUpd s o) fsz out).bitrateBps := rfl
  obtain ⟨hb1, hb2, hbc, hbv⟩ := budget_spec s o fsz out hst hlg hout
  obtain ⟨hset, hbw⟩ := stOk_settings s hst
  obtain ⟨hset1, hbw1⟩ := hbs.settings hset hbw
  obtain ⟨hfs5, _, _⟩ := stOk_fs s hst
  have hfs0 : 0 < s.fs := by omega
  obtain ⟨hf0, _⟩ := legal_le s.fs fsz hfs0 hlg
  generalize hbdef : sizeBudget (analysisUpd s o) fsz out = b at *
  generalize hs1 : budgetSt s o fsz out = s1 at *
  obtain ⟨hsame, hmode, hbwd, hwS, hwH, hshort⟩ := decide'_spec s1 fuzz o fsz b.maxDataBytes hset1 hbw1
  have hcfg := hsame.cfg
  generalize hd : decide' s1 fuzz o fsz b.maxDataBytes = d at *
  have hdfs : d.st.fs = s.fs := by rw [hcfg.fs, hfs1]
  have hdv : d.st.useVbr = s.useVbr := by rw [hcfg.useVbr, hv1]
  have hdub : d.st.userBitrate = s.userBitrate := by rw [hcfg.userBitrate, hub1]
  have hdbr : d.st.bitrateBps = b.bitrateBps := by rw [hcfg.bitrateBps, hbr1]
  -- the gate is open
  unfold lowBudgetGate at hg
  simp only [decide_eq_false_iff_not, not_or, not_and, not_lt] at hg
  have hlong : s.fs / 50 < fsz := by
    unfold isMulti at hmu
    simp only [decide_eq_true_eq] at hmu
    rw [hdfs] at hmu
    omega
  have hfr50 : s.fs / fsz < 50 := Int.ediv_lt_of_lt_mul hf0 (by omega)
  rw [hfs1] at hg
  obtain ⟨hg1, hg2, hg3⟩ := hg
  have hg3' := hg3 hfr50
  -- repacketize_len
  have hrldef : (multiCtx d.st fsz out b.cbr).repacketizeLen =
      if d.st.useVbr ≠ 0 ∨ d.st.userBitrate = OPUS_BITRATE_MAX then out else min b.cbr out := rfl
  have hmrl : b.maxDataBytes ≤ (multiCtx d.st fsz out b.cbr).repacketizeLen ∧
      (multiCtx d.st fsz out b.cbr).repacketizeLen ≤ out ∧
      (s.useVbr = 0 → (multiCtx d.st fsz out b.cbr).repacketizeLen = cbrTarget s fsz out ∨
        (s.userBitrate = OPUS_BITRATE_MAX ∧ s.fs / 50 < fsz ∧ (multiCtx d.st fsz out b.cbr).repacketizeLen = out)) := by
    rw [hrldef, hdv, hdub]
    by_cases hv : s.useVbr = 0
    · obtain ⟨c1, c2, c3, c4⟩ := hbc hv
      unfold cbrTarget at c1 ⊢
      by_cases hmx : s.userBitrate = OPUS_BITRATE_MAX
      · rw [if_pos (Or.inr hmx)]
        exact ⟨by omega, by omega, fun _ => Or.inr ⟨hmx, hlong, rfl⟩⟩
      · rw [if_neg (by simp [hv, hmx])]
        refine ⟨by omega, by omega, fun _ => Or.inl (by omega)⟩
    · rw [if_pos (Or.inl hv)]
      have := hbv hv
      exact ⟨by omega, by omega, fun h => absurd h hv⟩
  obtain ⟨hm_rl, hrl_out, hcbx⟩ := hmrl
  have hnums := multi_nums d.st fsz (multiCtx d.st fsz out b.cbr).repacketizeLen b.maxDataBytes
    (by rw [hdfs]; exact hfs5) (by rw [hdfs]; exact hlg) hmu hm_rl (by rw [hdfs]; exact hg3'.1)
    (by rw [hdbr]; exact hg3'.2) (multiCtx d.st fsz out b.cbr) rfl rfl rfl
  obtain ⟨n1, n2, n3, n4, n5, n6, n7, n8⟩ := hnums
  have hpre : MultiPre d.st (multiCtx d.st fsz out b.cbr) := by
    refine ⟨hmode, ?_, ?_, hbwd, ⟨n1, n2⟩, ⟨by omega, n4⟩, n5, n6, n8⟩
    · intro h
      have := hwS h
      unfold BwOk at hbwd
      simp only [BW_NB, BW_MB, BW_WB, BW_FB] at *
      omega
    · intro h
      have := hwH h
      unfold BwOk at hbwd
      simp only [BW_NB, BW_SWB, BW_FB] at *
      omega
  have hmf := multiFrame_post s d _ fsz out b.cbr o.frames hpre ⟨by omega, hrl_out⟩ hdv hcbx hmok
  exact ⟨hmf.1, hmf.2, n7, hpre, hdfs⟩

/-- **`opus_encode_native`, every path.**  For all oracle behaviours within the contracts, all
    settings/states satisfying `stOk`, all legal frame sizes and all `out_data_bytes ≥ 1`. -/
theorem encodeNative_post (s : St) (fuzz : Bool) (fsz out : Int) (o : NatOr)
    (he : entryCheck s fsz out = none) (hok : (encodeNative s fuzz fsz out o).ok = true) :
    NatPost s fsz out (encodeNative s fuzz fsz out o) :=
  encodeNative_post_of s fuzz fsz out o he hok
    (fun htm hst hlg hmok => (multi_branch s fuzz fsz out o he htm hst hlg hmok).1)


set_option maxHeartbeats 1000000 in
/-- With OPUS_BITRATE_MAX the CBR target is the whole (clamped) buffer. -/
theorem cbrTarget_max (s : St) (fsz out : Int) (hs : stOk s = true) (hl : legalFrame s.fs fsz = true)
    (hout : 1 ≤ out) (hmx : s.userBitrate = OPUS_BITRATE_MAX) : cbrTarget s fsz out = min 1276 out := by
  obtain ⟨hfs, _, _⟩ := stOk_fs s hs
  have hfs0 : 0 < s.fs := by omega
  obtain ⟨hf0, _⟩ := legal_le s.fs fsz hfs0 hl
  have hcases : fsz = 1 * (s.fs / 400) ∨ fsz = 2 * (s.fs / 400) ∨ fsz = 4 * (s.fs / 400) ∨ fsz = 8 * (s.fs / 400) ∨
      fsz = 16 * (s.fs / 400) ∨ fsz = 24 * (s.fs / 400) ∨ fsz = 32 * (s.fs / 400) ∨ fsz = 40 * (s.fs / 400) ∨
      fsz = 48 * (s.fs / 400) := by
    have := legal_fsz s.fs fsz hl
    omega
  unfold cbrTarget cbrBytes userBitrateToBitrate
  simp only [OPUS_AUTO, OPUS_BITRATE_MAX] at *
  have hz : (if fsz = 0 then s.fs / 400 else fsz) = fsz := if_neg (by omega)
  simp only [hz, hmx]
  norm_num
  generalize s.fs = fs at *
  have hm1 : 1 ≤ min 1276 out ∧ min 1276 out ≤ 1276 := by omega
  generalize min 1276 out = m at *
  rcases hfs with rfl | rfl | rfl | rfl | rfl <;> norm_num at hcases <;>
    rcases hcases with rfl | rfl | rfl | rfl | rfl | rfl | rfl | rfl | rfl <;> omega

/-- The low-budget path emits a ToC-only packet: every frame has length 0. -/
theorem lowBudget_lens (s : St) (fsz out : Int) (b : SizeBudget) (h : 1 ≤ (lowBudget s fsz out b).ret) :
    (lowBudget s fsz out b).pkt.lens = lowLens s fsz out ∧ ∀ l ∈ (lowBudget s fsz out b).pkt.lens, l = 0 := by
  have hz : ∀ l ∈ lowLens s fsz out, l = 0 := by
    intro l hl; unfold lowLens at hl; exact (List.mem_replicate.mp hl).2
  unfold lowBudget at h ⊢
  dsimp only at h ⊢
  split
  · split
    · rename_i h1 h2
      rw [if_pos h1, if_pos h2] at h
      unfold natErr at h; dsimp only at h; simp [OPUS_INTERNAL_ERROR] at h
    · exact ⟨rfl, hz⟩
  · exact ⟨rfl, hz⟩

end Opus.EncSkel.Proofs
