import OpusProofs.DecSkelMs
import OpusProofs.Layout
import OpusModel.DecSkel.Ms
/-
  OpusProofs.DecSkelMsFull — the multistream decoder with the REAL per-stream calls (`msDecodeFull`): the composition of
  `decodeNative_spec` (single-stream skeleton), the C06 parser bounds, the validation pass and C10's routing calls.
  Unconditional (no per-stream oracle contract): documented return values, never OPUS_INTERNAL_ERROR, every stream
  state keeps the decoder invariant, every inner access of every stream lies inside `buf` or the right scratch buffer,
  every copy-out call addresses a channel `< nb_channels` with a sample count `≤ frame_size`.
-/
namespace Opus.DecSkel
open Opus Opus.Framing

/-- `*packet_offset` of a successful `opus_decode_native` call on a packet is the parser's `packet_offset`. -/
theorem decodeNative_po (o : Oracle) (bs : Bytes) (len : Int) (pcm : Ptr) (frame_size fec : Int) (sd sc : Bool) (r : Run)
    (hlen : 0 < len) (p : Parsed) (hp : parseImpl sd (bs.take len.toNat) = .ok p) (v : Int)
    (hret : (decodeNative o (some bs) len pcm frame_size fec sd sc r).ret = .ret v) (hv : 0 < v) :
    (decodeNative o (some bs) len pcm frame_size fec sd sc r).packetOffset = p.packetOffset := by
  unfold decodeNative at hret ⊢
  have hneg : ∀ x : Int, x = BAD_ARG → ¬ 0 < x := by intro x hx; rw [hx]; decide
  by_cases h0 : ¬ validateOk r.st = true
  · rw [if_pos h0] at hret; cases hret
  rw [if_neg h0] at hret ⊢
  by_cases h1 : fec < 0 ∨ fec > 1
  · rw [if_pos h1] at hret; injection hret with e; exact absurd hv (hneg _ e.symm)
  rw [if_neg h1] at hret ⊢
  by_cases h2 : (fec ≠ 0 ∨ len = 0 ∨ (some bs).isNone = true) ∧ cmod frame_size (r.st.Fs / 400) ≠ 0
  · rw [if_pos h2] at hret; injection hret with e; exact absurd hv (hneg _ e.symm)
  rw [if_neg h2] at hret ⊢
  have h3 : ¬ (len = 0 ∨ (some bs).isNone = true) := by simp; omega
  have h4 : ¬ len < 0 := by omega
  rw [if_neg h3, if_neg h4] at hret ⊢
  simp only [Option.getD_some, hp] at hret ⊢
  split
  · rfl
  · split <;> rfl

theorem mem_scanAll_fs (target : Nat) (src : Layout.Src) (fs : Int) (k : Layout.Call) : ∀ (xs : List Nat) (i : Nat),
    k ∈ Layout.scanAll target src fs xs i → k.frameSize = fs
  | [], _, h => by simp [Layout.scanAll] at h
  | x :: xs, i, h => by
    unfold Layout.scanAll at h
    split at h
    · rcases List.mem_cons.1 h with e | e
      · subst e; rfl
      · exact mem_scanAll_fs target src fs k xs (i + 1) e
    · exact mem_scanAll_fs target src fs k xs (i + 1) h

theorem mem_mutedCalls_fs (fs : Int) (k : Layout.Call) : ∀ (xs : List Nat) (i : Nat),
    k ∈ Layout.mutedCalls fs xs i → k.frameSize = fs
  | [], _, h => by simp [Layout.mutedCalls] at h
  | x :: xs, i, h => by
    unfold Layout.mutedCalls at h
    split at h
    · rcases List.mem_cons.1 h with e | e
      · subst e; rfl
      · exact mem_mutedCalls_fs fs k xs (i + 1) e
    · exact mem_mutedCalls_fs fs k xs (i + 1) h

/-- Every copy-out call issued for a stream addresses an output channel and carries the stream's sample count. -/
theorem mem_streamCalls (l : Layout.ChannelLayout) (s : Nat) (fs : Int) (k : Layout.Call) (h : k ∈ Layout.streamCalls l s fs) :
    k.chan < l.nbChannels ∧ k.frameSize = fs := by
  rw [Layout.streamCalls_eq] at h
  have hl := Layout.chans_length_le l
  split at h
  · rcases List.mem_append.1 h with h | h
    · have := Layout.mem_scanAll _ _ _ k _ _ h; exact ⟨by omega, mem_scanAll_fs _ _ _ k _ _ h⟩
    · have := Layout.mem_scanAll _ _ _ k _ _ h; exact ⟨by omega, mem_scanAll_fs _ _ _ k _ _ h⟩
  · have := Layout.mem_scanAll _ _ _ k _ _ h; exact ⟨by omega, mem_scanAll_fs _ _ _ k _ _ h⟩

theorem mem_mutedTop (l : Layout.ChannelLayout) (fs : Int) (k : Layout.Call)
    (h : k ∈ Layout.mutedCalls fs (l.mapping.take l.nbChannels) 0) : k.chan < l.nbChannels ∧ k.frameSize = fs := by
  have := Layout.mem_mutedCalls fs k _ _ h
  have hl := Layout.chans_length_le l
  unfold Layout.ChannelLayout.chans at hl
  exact ⟨by omega, mem_mutedCalls_fs fs k _ _ h⟩

/-- One per-stream call under the oracle contracts. -/
theorem msStream_spec {os : Nat → Oracle} (hos : ∀ s, OracleOk (os s)) (l : Layout.ChannelLayout) (fec : Int) (sc : Bool)
    (cap : Int) (s : Nat) (st : DecState) (hinv : DecInv st) (bs : Bytes) (hb : BytesOk bs) (len fsz : Int)
    (hf : 0 < fsz ∧ fsz ≤ cap) :
    (msStream os l fec sc (2 * cap) s st bs len fsz).ret =
        .ret (nativeRet st (some bs) len fsz fec (decide (s ≠ l.nbStreams - 1))) ∧
    RetOk fsz (nativeRet st (some bs) len fsz fec (decide (s ≠ l.nbStreams - 1))) ∧
    DecInv (msStream os l fec sc (2 * cap) s st bs len fsz).run.st ∧
    (msStream os l fec sc (2 * cap) s st bs len fsz).run.st.Fs = st.Fs ∧
    (∀ e ∈ (msStream os l fec sc (2 * cap) s st bs len fsz).run.log, EvGood st (2 * cap) e) := by
  have hch := hinv.ch
  have h := decodeNative_spec (hos s) (good_fresh hinv (2 * cap)) (some bs) (by intro b hb'; cases hb'; exact hb) len
    { buf := .pcm, off := 0, cap := 2 * cap } fsz fec (decide (s ≠ l.nbStreams - 1)) sc
    (by simp only [Int.zero_add]; refine ⟨Int.le_refl 0, ?_⟩; rcases hch with h | h <;> rw [h] <;> omega)
    (callerBuf_cap st _)
  exact ⟨h.ret, nativeRet_retOk hinv.fs (some bs) (by intro b hb'; cases hb'; exact hb) len fsz fec _, h.good.inv, h.good.fs,
    h.good.log⟩

/-- What the accumulator guarantees so far. -/
structure MsAccOk (l : Layout.ChannelLayout) (Fs cap : Int) (sts : List DecState) (logs : List (List Ev))
    (copies : List Layout.Call) : Prop where
  sts : ∀ st ∈ sts, DecInv st ∧ st.Fs = Fs
  logs : ∀ lg ∈ logs, ∃ st0, DecInv st0 ∧ st0.Fs = Fs ∧ ∀ e ∈ lg, EvGood st0 (2 * cap) e
  copies : ∀ c ∈ copies, c.chan < l.nbChannels ∧ 0 < c.frameSize ∧ c.frameSize ≤ cap

/-- The stream loop with the real per-stream calls. -/
theorem msFullLoop_spec {os : Nat → Oracle} (hos : ∀ s, OracleOk (os s)) (l : Layout.ChannelLayout) (Fs : Int) (fec : Int)
    (sc doPlc : Bool) (cap : Int) :
    ∀ (sts : List DecState) (s : Nat) (bs : Bytes) (len fsz : Int) (a : MsAcc),
      (∀ st ∈ sts, DecInv st ∧ st.Fs = Fs) → s + sts.length = l.nbStreams → BytesOk bs → len ≤ bs.length →
      0 < fsz ∧ fsz ≤ cap → (doPlc = true → len = 0) →
      (doPlc = false → ∃ first samples, 0 ≤ msValidate Fs sts.length first (bs.take len.toNat) samples) →
      MsAccOk l Fs cap a.sts a.logs a.copies →
      ∃ v, (msFullLoop os l fec sc doPlc (2 * cap) sts s bs len fsz a).ret = .ret v ∧
        (v = BAD_ARG ∨ v = BUFFER_TOO_SMALL ∨ v = INVALID_PACKET ∨ (0 < v ∧ v ≤ fsz)) ∧
        (msFullLoop os l fec sc doPlc (2 * cap) sts s bs len fsz a).sts.length = a.sts.length + sts.length ∧
        MsAccOk l Fs cap (msFullLoop os l fec sc doPlc (2 * cap) sts s bs len fsz a).sts
          (msFullLoop os l fec sc doPlc (2 * cap) sts s bs len fsz a).logs
          (msFullLoop os l fec sc doPlc (2 * cap) sts s bs len fsz a).copies := by
  intro sts
  induction sts with
  | nil =>
    intro s bs len fsz a _ _ _ _ hf _ _ ha
    refine ⟨fsz, rfl, Or.inr (Or.inr (Or.inr ⟨hf.1, Int.le_refl _⟩)), by simp [msFullLoop, MsAcc.out], ?_⟩
    simp only [msFullLoop, MsAcc.out, List.append_nil]
    refine ⟨ha.sts, ha.logs, ?_⟩
    intro c hc
    rcases List.mem_append.1 hc with h | h
    · exact ha.copies c h
    · obtain ⟨h1, h2⟩ := mem_mutedTop l fsz c h
      exact ⟨h1, by rw [h2]; exact hf.1, by rw [h2]; exact hf.2⟩
  | cons st rest ih =>
    intro s bs len fsz a hsts hs hb hlen hf hplc hval ha
    obtain ⟨hinv, hFs⟩ := hsts st (by simp)
    have hrest : ∀ x ∈ rest, DecInv x ∧ x.Fs = Fs := fun x hx => hsts x (by simp [hx])
    simp only [List.length_cons] at hs hval
    -- no OPUS_INTERNAL_ERROR: a validated packet leaves bytes for every stream
    have hlenpos : doPlc = false → 0 < len := by
      intro hd
      obtain ⟨first, samples, hv⟩ := hval hd
      unfold msValidate at hv
      split at hv
      · exact absurd hv (by decide)
      · rename_i hne
        simp only [List.length_take] at hne
        omega
    have hnie : ¬ (¬ doPlc = true ∧ len ≤ 0) := by
      rintro ⟨h1, h2⟩
      have : doPlc = false := by cases doPlc <;> simp_all
      have := hlenpos this; omega
    obtain ⟨xret, xok, xinv, xfs, xlog⟩ := msStream_spec hos l fec sc cap s st hinv bs hb len fsz hf
    rw [msFullLoop, if_neg hnie]
    simp only [xret]
    generalize hvdef : nativeRet st (some bs) len fsz fec (decide (s ≠ l.nbStreams - 1)) = v at *
    -- the accumulator after this stream
    have hacc : ∀ newCopies : List Layout.Call, (∀ c ∈ newCopies, c.chan < l.nbChannels ∧ 0 < c.frameSize ∧ c.frameSize ≤ cap) →
        MsAccOk l Fs cap (a.step (msStream os l fec sc (2 * cap) s st bs len fsz) v
          { s := s, len := len, frame_size := fsz, sd := decide (s ≠ l.nbStreams - 1) } newCopies).sts
          (a.step (msStream os l fec sc (2 * cap) s st bs len fsz) v
          { s := s, len := len, frame_size := fsz, sd := decide (s ≠ l.nbStreams - 1) } newCopies).logs
          (a.step (msStream os l fec sc (2 * cap) s st bs len fsz) v
          { s := s, len := len, frame_size := fsz, sd := decide (s ≠ l.nbStreams - 1) } newCopies).copies := by
      intro nc hnc
      simp only [MsAcc.step]
      refine ⟨?_, ?_, ?_⟩
      · intro x hx
        rcases List.mem_append.1 hx with h | h
        · exact ha.sts x h
        · simp only [List.mem_singleton] at h; subst h; exact ⟨xinv, by rw [xfs]; exact hFs⟩
      · intro lg hlg
        rcases List.mem_append.1 hlg with h | h
        · exact ha.logs lg h
        · simp only [List.mem_singleton] at h; subst h; exact ⟨st, hinv, hFs, xlog⟩
      · intro c hc
        rcases List.mem_append.1 hc with h | h
        · exact ha.copies c h
        · exact hnc c h
    by_cases hle : v ≤ 0
    · rw [if_pos hle]
      have hv3 : v = BAD_ARG ∨ v = BUFFER_TOO_SMALL ∨ v = INVALID_PACKET := by
        simp only [RetOk, BAD_ARG, BUFFER_TOO_SMALL, INVALID_PACKET] at xok ⊢; omega
      refine ⟨v, rfl, ?_, ?_, ?_⟩
      · rcases hv3 with h | h | h
        · exact Or.inl h
        · exact Or.inr (Or.inl h)
        · exact Or.inr (Or.inr (Or.inl h))
      · simp [MsAcc.out, MsAcc.step] <;> omega
      · have := hacc [] (by intro c hc; cases hc)
        simp only [MsAcc.out, MsAcc.step, List.append_nil] at this ⊢
        refine ⟨?_, this.logs, this.copies⟩
        intro x hx
        rcases List.mem_append.1 hx with h | h
        · exact this.sts x h
        · exact hrest x h
    · rw [if_neg hle]
      have hvpos : 0 < v ∧ v ≤ fsz := by simp only [RetOk, BAD_ARG, BUFFER_TOO_SMALL, INVALID_PACKET] at xok; omega
      -- the remaining bytes
      have hnext : BytesOk (if doPlc = true then bs else bs.drop (msStream os l fec sc (2 * cap) s st bs len fsz).packetOffset.toNat) ∧
          (if doPlc = true then len else len - (msStream os l fec sc (2 * cap) s st bs len fsz).packetOffset) ≤
            ((if doPlc = true then bs else bs.drop (msStream os l fec sc (2 * cap) s st bs len fsz).packetOffset.toNat).length : Int) ∧
          (doPlc = true → (if doPlc = true then len else len - (msStream os l fec sc (2 * cap) s st bs len fsz).packetOffset) = 0) ∧
          (doPlc = false → ∃ first samples, 0 ≤ msValidate Fs rest.length first
            ((if doPlc = true then bs else bs.drop (msStream os l fec sc (2 * cap) s st bs len fsz).packetOffset.toNat).take
              (if doPlc = true then len else len - (msStream os l fec sc (2 * cap) s st bs len fsz).packetOffset).toNat) samples) := by
        cases hd : doPlc
        · -- a packet: step over this stream's sub-packet
          simp only [Bool.false_eq_true, ↓reduceIte]
          obtain ⟨first, samples, hv⟩ := hval hd
          have hl0 := hlenpos hd
          unfold msValidate at hv
          split at hv
          · exact absurd hv (by decide)
          · have hsd : decide (s ≠ l.nbStreams - 1) = decide (rest.length ≠ 0) := by
              apply decide_eq_decide.mpr; omega
            cases hp : parseImpl (decide (rest.length ≠ 0)) (bs.take len.toNat) with
            | ok p =>
              simp only [hp] at hv
              split at hv
              · exact absurd hv (by decide)
              · have hpo : (msStream os l fec sc (2 * cap) s st bs len fsz).packetOffset = p.packetOffset := by
                  unfold msStream
                  apply decodeNative_po _ bs len _ fsz fec _ sc _ hl0 p (by rw [hsd]; exact hp) v _ hvpos.1
                  have := xret; unfold msStream at this; exact this
                obtain ⟨_, _, _, _, _, hple, _⟩ := OpusProps.C06.parse_in_bounds _ _ (bytesOk_take hb _) p hp
                simp only [List.length_take] at hple
                rw [hpo]
                refine ⟨fun b hb' => hb b (List.mem_of_mem_drop hb'), ?_, fun h => h.elim, fun _ => ⟨false, nbSamples ((bs.take len.toNat).take p.packetOffset) Fs, ?_⟩⟩
                · simp only [Int.toNat_natCast, List.length_drop]; omega
                · have e : (bs.drop p.packetOffset).take (len - (p.packetOffset : Int)).toNat =
                      (bs.take len.toNat).drop p.packetOffset := by
                    rw [List.drop_take]
                    congr 1; omega
                  simp only [Int.toNat_natCast]
                  rw [e]; exact hv
            | err e => simp only [hp] at hv; have := err_code_neg e; omega
            | oob => simp only [hp] at hv; exact absurd hv (by decide)
            | abort => simp only [hp] at hv; exact absurd hv (by decide)
        · simp only [↓reduceIte]
          exact ⟨hb, hlen, fun _ => hplc hd, fun h => Bool.noConfusion h⟩
      obtain ⟨n1, n2, n3, n4⟩ := hnext
      have hcopies : ∀ c ∈ Layout.streamCalls l s v, c.chan < l.nbChannels ∧ 0 < c.frameSize ∧ c.frameSize ≤ cap := by
        intro c hc
        obtain ⟨h1, h2⟩ := mem_streamCalls l s v c hc
        exact ⟨h1, by rw [h2]; exact hvpos.1, by rw [h2]; omega⟩
      obtain ⟨w, e1, e2, e3, e4⟩ := ih (s + 1) _ _ v _ hrest (by omega) n1 n2 ⟨hvpos.1, by omega⟩ n3 n4 (hacc _ hcopies)
      refine ⟨w, e1, ?_, ?_, e4⟩
      · rcases e2 with h | h | h | h
        · exact Or.inl h
        · exact Or.inr (Or.inl h)
        · exact Or.inr (Or.inr (Or.inl h))
        · exact Or.inr (Or.inr (Or.inr ⟨h.1, by omega⟩))
      · rw [e3]; simp [MsAcc.step] <;> omega

/-- `opus_multistream_decode_native` with the real per-stream calls, for ANY packet / `len` / `frame_size` /
    `decode_fec` / layout: a documented result (never OPUS_INTERNAL_ERROR, no assertion, no hang), all stream states
    keep the invariant, all inner accesses and all copy-out calls are in bounds. -/
theorem msDecodeFull_spec {os : Nat → Oracle} (hos : ∀ s, OracleOk (os s)) (l : Layout.ChannelLayout) (Fs : Int) (hFs : FsOk Fs)
    (sts : List DecState) (hsts : ∀ st ∈ sts, DecInv st ∧ st.Fs = Fs) (hn : sts.length = l.nbStreams) (bs : Bytes)
    (hb : BytesOk bs) (len frame_size fec : Int) (hlen : len ≤ bs.length) (sc : Bool) :
    ∃ v, (msDecodeFull os l Fs sts bs len frame_size fec sc).ret = .ret v ∧ RetOk frame_size v ∧
      (msDecodeFull os l Fs sts bs len frame_size fec sc).sts.length = l.nbStreams ∧
      MsAccOk l Fs (min frame_size (Fs / 25 * 3)) (msDecodeFull os l Fs sts bs len frame_size fec sc).sts
        (msDecodeFull os l Fs sts bs len frame_size fec sc).logs (msDecodeFull os l Fs sts bs len frame_size fec sc).copies := by
  have hF : 0 < Fs / 25 * 3 := by unfold FsOk at hFs; omega
  have hfail : ∀ e : Int, (e = BAD_ARG ∨ e = BUFFER_TOO_SMALL ∨ e = INVALID_PACKET) →
      ∃ v, ((⟨[], [], [], [], []⟩ : MsAcc).out (.ret e) sts).ret = .ret v ∧ RetOk frame_size v ∧
        ((⟨[], [], [], [], []⟩ : MsAcc).out (.ret e) sts).sts.length = l.nbStreams ∧
        MsAccOk l Fs (min frame_size (Fs / 25 * 3)) ((⟨[], [], [], [], []⟩ : MsAcc).out (.ret e) sts).sts
          ((⟨[], [], [], [], []⟩ : MsAcc).out (.ret e) sts).logs ((⟨[], [], [], [], []⟩ : MsAcc).out (.ret e) sts).copies := by
    intro e he
    refine ⟨e, rfl, by unfold RetOk; omega, by simp [MsAcc.out, hn], ?_⟩
    simp only [MsAcc.out, List.nil_append]
    exact ⟨hsts, fun lg h => absurd h List.not_mem_nil, fun c h => absurd h List.not_mem_nil⟩
  unfold msDecodeFull
  by_cases h0 : frame_size ≤ 0
  · rw [if_pos h0]; exact hfail _ (Or.inl rfl)
  rw [if_neg h0]
  by_cases h1 : len < 0
  · rw [if_pos h1]; exact hfail _ (Or.inl rfl)
  rw [if_neg h1]
  by_cases h2 : ¬ decide (len = 0) = true ∧ len < 2 * (l.nbStreams : Int) - 1
  · rw [if_pos h2]; exact hfail _ (Or.inr (Or.inr rfl))
  rw [if_neg h2]
  have hv := msValidate_cases Fs l.nbStreams true (bs.take len.toNat) 0 (Or.inl (Int.le_refl 0))
  by_cases h3 : ¬ decide (len = 0) = true ∧ msValidate Fs l.nbStreams true (bs.take len.toNat) 0 < 0
  · rw [if_pos h3]
    apply hfail
    rcases hv with h | h | h
    · omega
    · exact Or.inl h
    · exact Or.inr (Or.inr h)
  rw [if_neg h3]
  by_cases h4 : ¬ decide (len = 0) = true ∧ msValidate Fs l.nbStreams true (bs.take len.toNat) 0 > min frame_size (Fs / 25 * 3)
  · rw [if_pos h4]; exact hfail _ (Or.inr (Or.inl rfl))
  rw [if_neg h4]
  obtain ⟨v, e1, e2, e3, e4⟩ := msFullLoop_spec hos l Fs fec sc (decide (len = 0)) (min frame_size (Fs / 25 * 3)) sts 0 bs len
    (min frame_size (Fs / 25 * 3)) ⟨[], [], [], [], []⟩ hsts (by omega) hb hlen ⟨by omega, Int.le_refl _⟩
    (by intro h; simpa using h)
    (by
      intro hd
      refine ⟨true, 0, ?_⟩
      rw [hn]
      have : ¬ decide (len = 0) = true := by rw [hd]; simp
      apply Decidable.byContradiction; intro hneg
      exact h3 ⟨this, by omega⟩)
    ⟨fun st h => absurd h List.not_mem_nil, fun lg h => absurd h List.not_mem_nil, fun c h => absurd h List.not_mem_nil⟩
  refine ⟨v, e1, ?_, by rw [e3, hn]; simp, e4⟩
  unfold RetOk
  rcases e2 with h | h | h | h
  · exact Or.inl h
  · exact Or.inr (Or.inl h)
  · exact Or.inr (Or.inr (Or.inl h))
  · right; right; right; omega

/-- Index arithmetic of a copy-out call (`dst[i*dst_stride + dst_channel]`, `src[i*src_stride (+1)]`): with a channel
    below `n`, a sample index below the call's `frameSize ≤ F`, everything addressed lies in `[0, F·n)` resp. `[0, 2·F)`. -/
theorem copy_index_bounds (i f F n c : Int) (hi : 0 ≤ i ∧ i < f) (hf : f ≤ F) (hc : 0 ≤ c ∧ c < n) :
    0 ≤ i * n + c ∧ i * n + c < F * n ∧ 0 ≤ 2 * i ∧ 2 * i + 1 < 2 * F := by
  have hn : 0 < n := by omega
  have h1 : (i + 1) * n ≤ F * n := Int.mul_le_mul_of_nonneg_right (by omega) (by omega)
  have h2 : (i + 1) * n = i * n + n := by rw [Int.add_mul]; simp
  have h3 : 0 ≤ i * n := Int.mul_nonneg hi.1 (by omega)
  omega

/-! ### the oracle-based skeleton `msDecode` (the one tied to the C code) is refined by the real calls -/

/-- The per-stream answers `(ret, packet_offset)` of the real run, as an oracle for `msLoop` / `msDecode`. -/
def noOfRun (os : Nat → Oracle) (l : Layout.ChannelLayout) (fec : Int) (sc doPlc : Bool) (bufCap : Int) :
    List DecState → Nat → Bytes → Int → Int → NativeOracle
  | [], _, _, _, _ => fun _ => (0, 0)
  | st :: rest, s, bs, len, fsz =>
    match (msStream os l fec sc bufCap s st bs len fsz).ret with
    | .ret ret => fun i =>
      if i = s then (ret, (msStream os l fec sc bufCap s st bs len fsz).packetOffset)
      else noOfRun os l fec sc doPlc bufCap rest (s + 1)
        (if doPlc then bs else bs.drop (msStream os l fec sc bufCap s st bs len fsz).packetOffset.toNat)
        (if doPlc then len else len - (msStream os l fec sc bufCap s st bs len fsz).packetOffset) ret i
    | _ => fun _ => (0, 0)

/-- The stream loop of the oracle-based skeleton, fed with the answers of the real per-stream calls, returns the same
    value and makes the same calls (stream index, `len`, `frame_size`, self-delimited flag) as the real loop. -/
theorem msFullLoop_refines (os : Nat → Oracle) (l : Layout.ChannelLayout) (fec : Int) (sc doPlc : Bool) (bufCap : Int) :
    ∀ (sts : List DecState) (s : Nat) (bs : Bytes) (len fsz : Int) (a : MsAcc) (no : NativeOracle) (v : Int),
      s + sts.length = l.nbStreams → (∀ i, s ≤ i → no i = noOfRun os l fec sc doPlc bufCap sts s bs len fsz i) →
      (msFullLoop os l fec sc doPlc bufCap sts s bs len fsz a).ret = .ret v →
      msLoop no l.nbStreams doPlc sts.length len fsz a.mscalls =
        (v, (msFullLoop os l fec sc doPlc bufCap sts s bs len fsz a).mscalls) := by
  intro sts
  induction sts with
  | nil =>
    intro s bs len fsz a no v _ _ hret
    simp only [msFullLoop, MsAcc.out] at hret ⊢
    injection hret with e
    simp [msLoop, e]
  | cons st rest ih =>
    intro s bs len fsz a no v hs hno hret
    simp only [List.length_cons] at hs ⊢
    have hsidx : l.nbStreams - (rest.length + 1) = s := by omega
    rw [msLoop, hsidx]
    rw [msFullLoop] at hret ⊢
    by_cases hnie : ¬ doPlc = true ∧ len ≤ 0
    · simp only [if_pos hnie] at hret ⊢
      simp only [MsAcc.out] at hret ⊢
      injection hret with e
      rw [e]
    · simp only [if_neg hnie] at hret ⊢
      have hnos := hno s (Nat.le_refl _)
      rw [noOfRun] at hnos
      cases hx : (msStream os l fec sc bufCap s st bs len fsz).ret with
      | ret r =>
        simp only [hx] at hret hnos ⊢
        simp only [↓reduceIte] at hnos
        simp only [hnos]
        by_cases hle : r ≤ 0
        · simp only [if_pos hle] at hret ⊢
          simp only [MsAcc.out, MsAcc.step] at hret ⊢
          injection hret with e
          rw [e]
        · simp only [if_neg hle] at hret ⊢
          have := ih (s + 1) _ _ r (a.step (msStream os l fec sc bufCap s st bs len fsz) r
              { s := s, len := len, frame_size := fsz, sd := decide (s ≠ l.nbStreams - 1) } (Layout.streamCalls l s r)) no v
            (by omega)
            (by
              intro i hi
              have h1 := hno i (by omega)
              rw [noOfRun] at h1
              simp only [hx] at h1
              have : ¬ i = s := by omega
              simp only [this, ↓reduceIte] at h1
              exact h1)
            hret
          simp only [MsAcc.step] at this ⊢
          exact this
      | abort => simp only [hx, MsAcc.out] at hret; cases hret
      | hang => simp only [hx, MsAcc.out] at hret; cases hret

/-- The oracle-based skeleton `msDecode` (whose return value, per-stream call arguments and `buf` size are compared with
    the C code on every run), fed with the answers of the real per-stream calls, returns what the composed model returns
    and makes the same per-stream calls. -/
theorem msDecodeFull_refines (os : Nat → Oracle) (l : Layout.ChannelLayout) (Fs : Int) (sts : List DecState)
    (hn : sts.length = l.nbStreams) (bs : Bytes) (len frame_size fec : Int) (sc : Bool) (v : Int)
    (hret : (msDecodeFull os l Fs sts bs len frame_size fec sc).ret = .ret v) :
    (msDecode (noOfRun os l fec sc (decide (len = 0)) (2 * min frame_size (Fs / 25 * 3)) sts 0 bs len (min frame_size (Fs / 25 * 3)))
        Fs l.nbStreams bs len frame_size).1 = v ∧
    (0 < frame_size →
      (msDecode (noOfRun os l fec sc (decide (len = 0)) (2 * min frame_size (Fs / 25 * 3)) sts 0 bs len (min frame_size (Fs / 25 * 3)))
        Fs l.nbStreams bs len frame_size).2.1 = (msDecodeFull os l Fs sts bs len frame_size fec sc).mscalls) := by
  unfold msDecodeFull at hret ⊢
  unfold msDecode
  by_cases h0 : frame_size ≤ 0
  · simp only [if_pos h0] at hret ⊢; simp only [MsAcc.out] at hret; injection hret with e
    exact ⟨e, fun h => by omega⟩
  simp only [if_neg h0] at hret ⊢
  by_cases h1 : len < 0
  · simp only [if_pos h1] at hret ⊢; simp only [MsAcc.out] at hret; injection hret with e
    exact ⟨e, fun _ => rfl⟩
  simp only [if_neg h1] at hret ⊢
  by_cases h2 : ¬ decide (len = 0) = true ∧ len < 2 * (l.nbStreams : Int) - 1
  · simp only [if_pos h2] at hret ⊢; simp only [MsAcc.out] at hret; injection hret with e
    exact ⟨e, fun _ => rfl⟩
  simp only [if_neg h2] at hret ⊢
  by_cases hplc : decide (len = 0) = true
  · have a3 : ¬ (¬ decide (len = 0) = true ∧ msValidate Fs l.nbStreams true (bs.take len.toNat) 0 < 0) := fun h => h.1 hplc
    have a4 : ¬ (¬ decide (len = 0) = true ∧ msValidate Fs l.nbStreams true (bs.take len.toNat) 0 > min frame_size (Fs / 25 * 3)) :=
      fun h => h.1 hplc
    simp only [if_neg a3, if_neg a4] at hret ⊢
    have b3 : ¬ (¬ decide (len = 0) = true ∧ (if decide (len = 0) = true then (0 : Int) else msValidate Fs l.nbStreams true (bs.take len.toNat) 0) < 0) :=
      fun h => h.1 hplc
    have b4 : ¬ (¬ decide (len = 0) = true ∧ (if decide (len = 0) = true then (0 : Int) else msValidate Fs l.nbStreams true (bs.take len.toNat) 0) > min frame_size (Fs / 25 * 3)) :=
      fun h => h.1 hplc
    simp only [if_neg b3, if_neg b4]
    have := msFullLoop_refines os l fec sc (decide (len = 0)) (2 * min frame_size (Fs / 25 * 3)) sts 0 bs len
      (min frame_size (Fs / 25 * 3)) ⟨[], [], [], [], []⟩ _ v (by omega) (fun i _ => rfl) hret
    rw [hn] at this
    simp only [this]
    exact ⟨trivial, fun _ => trivial⟩
  · have hv : (if decide (len = 0) = true then (0 : Int) else msValidate Fs l.nbStreams true (bs.take len.toNat) 0) =
        msValidate Fs l.nbStreams true (bs.take len.toNat) 0 := by rw [if_neg hplc]
    simp only [hv]
    by_cases h3 : ¬ decide (len = 0) = true ∧ msValidate Fs l.nbStreams true (bs.take len.toNat) 0 < 0
    · simp only [if_pos h3] at hret ⊢; simp only [MsAcc.out] at hret; injection hret with e
      exact ⟨e, fun _ => rfl⟩
    simp only [if_neg h3] at hret ⊢
    by_cases h4 : ¬ decide (len = 0) = true ∧ msValidate Fs l.nbStreams true (bs.take len.toNat) 0 > min frame_size (Fs / 25 * 3)
    · simp only [if_pos h4] at hret ⊢; simp only [MsAcc.out] at hret; injection hret with e
      exact ⟨e, fun _ => rfl⟩
    simp only [if_neg h4] at hret ⊢
    have := msFullLoop_refines os l fec sc (decide (len = 0)) (2 * min frame_size (Fs / 25 * 3)) sts 0 bs len
      (min frame_size (Fs / 25 * 3)) ⟨[], [], [], [], []⟩ _ v (by omega) (fun i _ => rfl) hret
    rw [hn] at this
    simp only [this]
    exact ⟨trivial, fun _ => trivial⟩

end Opus.DecSkel
