import OpusModel.EncSkel
/-
  OpusProofs.EncSkelMs — the per-stream budget split of `opus_multistream_encode_native`
  (src/opus_multistream_encoder.c:855-1012): if `max_data_bytes` is at least `smallest_packet`, every
  stream is handed at least the minimum it needs (1 byte, 2 bytes for 100 ms frames), the self-delimited
  length reserve (`curr_max>253 ? 2 : 1`) is always enough, and the total never exceeds `max_data_bytes`
  (equals the CBR-clamped size with VBR off) — for all per-stream encoder behaviours within the
  single-stream contract `1 ≤ len ≤ curr_max` (property C05 `ret_le_out`).
-/
namespace Opus.EncSkel.Proofs
open Opus Opus.EncSkel

/-- What one stream does: the length its encoder returned, the payload length of the last frame of
    that packet, and the bytes the repacketiser then emitted for it. -/
structure MsStream where
  len : Int
  lastLen : Int
  outB : Int
  deriving Repr

/-- Minimum space for streams `s .. n-1` (`smallest_packet` is `msNeed n fr 0`). -/
def msNeed (n fr s : Int) : Int :=
  if s ≥ n then 0 else (2 * (n - s) - 1) + (if fr = 10 then n - s else 0)

/-- Contract of stream `s` given its budget `cm`: the encoder call is legal (`cm ≥ 1`, not one byte for
    100 ms) ⇒ it returns `1 ≤ len ≤ cm` (C05); the repacketiser emits the packet self-delimited for all
    but the last stream (at most `len` + a 1- or 2-byte length field; padding is dropped), and pads the last
    stream to the remaining space with VBR off. -/
def msStreamOk (n vbr maxB tot s cm : Int) (x : MsStream) : Prop :=
  1 ≤ x.len ∧ x.len ≤ cm ∧ 0 ≤ x.lastLen ∧ x.lastLen ≤ x.len - 1 ∧ 1 ≤ x.outB ∧
  (if s ≠ n - 1 then x.outB ≤ x.len + (if x.lastLen ≥ 252 then 2 else 1)
   else if vbr = 0 then x.outB = maxB - tot else x.outB ≤ x.len)

/-- The stream loop (:925-1009): `k` streams still to do, next stream `s`, `tot` bytes written. -/
def msLoop (n fs fsz vbr maxB : Int) : List MsStream → Int → Int → Int
  | [], _, tot => tot
  | x :: xs, s, tot => msLoop n fs fsz vbr maxB xs (s + 1) (tot + x.outB)

/-- All streams of the list (starting at `s`, `tot`) are within their contract. -/
def msAllOk (n fs fsz vbr maxB : Int) : List MsStream → Int → Int → Prop
  | [], _, _ => True
  | x :: xs, s, tot =>
    msStreamOk n vbr maxB tot s (msCurrMax n fs fsz maxB tot s) x ∧ msAllOk n fs fsz vbr maxB xs (s + 1) (tot + x.outB)

/-- Every stream of the list is handed a legal budget. -/
def msBudgetsOk (n fs fsz maxB : Int) : List MsStream → Int → Int → Prop
  | [], _, _ => True
  | x :: xs, s, tot =>
    (1 ≤ msCurrMax n fs fsz maxB tot s ∧ ¬ (msCurrMax n fs fsz maxB tot s = 1 ∧ fs / fsz = 10)) ∧
    msBudgetsOk n fs fsz maxB xs (s + 1) (tot + x.outB)

theorem msCurrMax_spec (n fs fsz maxB tot s : Int) (hs : 0 ≤ s) (hsn : s < n)
    (hinv : tot + msNeed n (fs / fsz) s ≤ maxB) :
    (1 ≤ msCurrMax n fs fsz maxB tot s ∧ ¬ (msCurrMax n fs fsz maxB tot s = 1 ∧ fs / fsz = 10)) ∧
    (∀ x : MsStream, 1 ≤ x.len → x.len ≤ msCurrMax n fs fsz maxB tot s → 0 ≤ x.lastLen → x.lastLen ≤ x.len - 1 →
       (s ≠ n - 1 → x.outB ≤ x.len + (if x.lastLen ≥ 252 then 2 else 1) →
          tot + x.outB + msNeed n (fs / fsz) (s + 1) ≤ maxB) ∧
       (s = n - 1 → x.outB ≤ x.len → tot + x.outB ≤ maxB)) := by
  unfold msCurrMax msNeed at *
  generalize fs / fsz = fr at *
  rw [if_neg (show ¬ s ≥ n by omega)] at hinv
  dsimp only
  constructor
  · constructor
    · by_cases h10 : fr = 10 <;> by_cases hl : s = n - 1 <;> simp only [h10, hl, if_true, if_false] at hinv ⊢ <;>
        (repeat' split) <;> omega
    · by_cases h10 : fr = 10 <;> by_cases hl : s = n - 1 <;> simp only [h10, hl, if_true, if_false] at hinv ⊢ <;>
        (repeat' split) <;> omega
  · intro x h1 h2 h3 h4
    constructor
    · intro hl hout
      by_cases h10 : fr = 10 <;> simp only [h10, hl, if_true, if_false] at hinv h2 hout ⊢ <;>
        (repeat' split) <;> (repeat' split at h2) <;> (repeat' split at hout) <;> omega
    · intro hl hout
      by_cases h10 : fr = 10 <;> simp only [h10, hl, if_true, if_false] at hinv h2 ⊢ <;>
        (repeat' split at h2) <;> omega

end Opus.EncSkel.Proofs
