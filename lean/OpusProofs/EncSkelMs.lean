import OpusModel.EncSkel
/-
  OpusProofs.EncSkelMs — the per-stream budget split of `opus_multistream_encode_native`
  (src/opus_multistream_encoder.c:855-1012): if `max_data_bytes` is at least `smallest_packet`, every
  stream is handed at least the minimum it needs (1 byte, 2 bytes for 100 ms frames), the self-delimited
  length reserve (`curr_max>253 ? 2 : 1`) is always enough, and the total never exceeds `max_data_bytes`
  (equals the CBR-clamped size with VBR off) — for all per-stream encoder behaviours within the
  single-stream contract `1 ≤ len ≤ curr_max` (property C05 `ret_le_out`).
-/
namespace Opus.EncSkel.Proofs
open Opus Opus.EncSkel

/-- What one stream does: the length its encoder returned, the payload length of the last frame of
    that packet, and the bytes the repacketiser then emitted for it. -/
structure MsStream where
  len : Int
  lastLen : Int
  outB : Int
  deriving Repr

/-- Minimum space for streams `s .. n-1` (`smallest_packet` is `msNeed n fr 0`). -/
def msNeed (n fr s : Int) : Int :=
  if s ≥ n then 0 else (2 * (n - s) - 1) + (if fr = 10 then n - s else 0)

/-- Contract of stream `s` given its budget `cm`: the encoder call is legal (`cm ≥ 1`, not one byte for
    100 ms) ⇒ it returns `1 ≤ len ≤ cm` (C05); the repacketiser emits the packet self-delimited for all
    but the last stream (at most `len` + a 1- or 2-byte length field; padding is dropped), and pads the last
    stream to the remaining space with VBR off. -/
def msStreamOk (n vbr maxB tot s cm : Int) (x : MsStream) : Prop :=
  1 ≤ x.len ∧ x.len ≤ cm ∧ 0 ≤ x.lastLen ∧ x.lastLen ≤ x.len - 1 ∧ 1 ≤ x.outB ∧
  (if s ≠ n - 1 then x.outB ≤ x.len + (if x.lastLen ≥ 252 then 2 else 1)
   else if vbr = 0 then x.outB = maxB - tot else x.outB ≤ x.len)

/-- The stream loop (:925-1009): `k` streams still to do, next stream `s`, `tot` bytes written. -/
def msLoop (n fs fsz vbr maxB : Int) : List MsStream → Int → Int → Int
  | [], _, tot => tot
  | x :: xs, s, tot => msLoop n fs fsz vbr maxB xs (s + 1) (tot + x.outB)

/-- All streams of the list (starting at `s`, `tot`) are within their contract. -/
def msAllOk (n fs fsz vbr maxB : Int) : List MsStream → Int → Int → Prop
  | [], _, _ => True
  | x :: xs, s, tot =>
    msStreamOk n vbr maxB tot s (msCurrMax n fs fsz maxB tot s) x ∧ msAllOk n fs fsz vbr maxB xs (s + 1) (tot + x.outB)

/-- Every stream of the list is handed a legal budget. -/
def msBudgetsOk (n fs fsz maxB : Int) : List MsStream → Int → Int → Prop
  | [], _, _ => True
  | x :: xs, s, tot =>
    (1 ≤ msCurrMax n fs fsz maxB tot s ∧ ¬ (msCurrMax n fs fsz maxB tot s = 1 ∧ fs / fsz = 10)) ∧
    msBudgetsOk n fs fsz maxB xs (s + 1) (tot + x.outB)

theorem msCurrMax_spec (n fs fsz maxB tot s : Int) (hs : 0 ≤ s) (hsn : s < n)
    (hinv : tot + msNeed n (fs / fsz) s ≤ maxB) :
    (1 ≤ msCurrMax n fs fsz maxB tot s ∧ ¬ (msCurrMax n fs fsz maxB tot s = 1 ∧ fs / fsz = 10)) ∧
    (∀ x : MsStream, 1 ≤ x.len → x.len ≤ msCurrMax n fs fsz maxB tot s → 0 ≤ x.lastLen → x.lastLen ≤ x.len - 1 →
       (s ≠ n - 1 → x.outB ≤ x.len + (if x.lastLen ≥ 252 then 2 else 1) →
          tot + x.outB + msNeed n (fs / fsz) (s + 1) ≤ maxB) ∧
       (s = n - 1 → x.outB ≤ x.len → tot + x.outB ≤ maxB)) := by
  unfold msCurrMax msNeed at *
  generalize fs / fsz = fr at *
  rw [if_neg (show ¬ s ≥ n by omega)] at hinv
  dsimp only
  constructor
  · constructor
    · by_cases h10 : fr = 10 <;> by_cases hl : s = n - 1 <;> simp only [h10, hl, if_true, if_false] at hinv ⊢ <;>
        (repeat' split) <;> omega
    · intro ⟨hc1, h10⟩
      by_cases hl : s = n - 1 <;> simp only [h10, hl, if_true, if_false] at hinv hc1 <;>
        (repeat' split at hc1) <;> omega
  · intro x h1 h2 h3 h4
    constructor
    · intro hl hout
      by_cases h10 : fr = 10 <;> simp only [h10, hl, if_true, if_false] at hinv h2 hout ⊢ <;>
        (repeat' split) <;> (repeat' split at h2) <;> (repeat' split at hout) <;> omega
    · intro hl hout
      by_cases h10 : fr = 10 <;> simp only [h10, hl, if_true, if_false] at hinv h2 ⊢ <;>
        (repeat' split at h2) <;> omega

theorem ms_loop (n fs fsz vbr maxB : Int) :
    ∀ (xs : List MsStream) (s tot : Int), 0 ≤ s → s + xs.length = n → 0 ≤ tot →
      tot + msNeed n (fs / fsz) s ≤ maxB → msAllOk n fs fsz vbr maxB xs s tot →
      msBudgetsOk n fs fsz maxB xs s tot ∧ tot ≤ msLoop n fs fsz vbr maxB xs s tot ∧
      msLoop n fs fsz vbr maxB xs s tot ≤ maxB ∧
      (vbr = 0 → xs ≠ [] → msLoop n fs fsz vbr maxB xs s tot = maxB) := by
  intro xs
  induction xs with
  | nil =>
    intro s tot _ hlen _ hinv _
    have : msNeed n (fs / fsz) s = 0 := by unfold msNeed; rw [if_pos (by simp at hlen; omega)]
    exact ⟨trivial, by simp [msLoop], by simp only [msLoop]; omega, fun _ h => absurd rfl h⟩
  | cons x xs ih =>
    intro s tot hs hlen htot hinv hok
    simp only [List.length_cons] at hlen
    obtain ⟨hx, hrest⟩ := hok
    obtain ⟨hb, hstep⟩ := msCurrMax_spec n fs fsz maxB tot s hs (by omega) hinv
    obtain ⟨c1, c2, c3, c4, c5, c6⟩ := hx
    obtain ⟨st1, st2⟩ := hstep x c1 c2 c3 c4
    by_cases hl : s = n - 1
    · have hnil : xs = [] := by
        cases xs with
        | nil => rfl
        | cons y ys => simp only [List.length_cons] at hlen; omega
      subst hnil
      rw [if_neg (by omega)] at c6
      simp only [msLoop, msBudgetsOk]
      by_cases hv : vbr = 0
      · rw [if_pos hv] at c6
        exact ⟨⟨hb, trivial⟩, by omega, by omega, fun _ _ => by omega⟩
      · rw [if_neg hv] at c6
        have := st2 hl c6
        exact ⟨⟨hb, trivial⟩, by omega, by omega, fun h => absurd h hv⟩
    · rw [if_pos hl] at c6
      have hinv' := st1 hl c6
      obtain ⟨i1, i2, i3, i4⟩ := ih (s + 1) (tot + x.outB) (by omega) (by push_cast at hlen ⊢; omega) (by omega) hinv' hrest
      have hne : xs ≠ [] := by
        intro h; subst h; simp at hlen; omega
      simp only [msLoop, msBudgetsOk]
      exact ⟨⟨hb, i1⟩, by omega, i3, fun hv _ => i4 hv hne⟩

/-- **Multistream budget split.**  With `n ≥ 1` streams, `max_data_bytes ≥ smallest_packet` (otherwise
    the call returns OPUS_BUFFER_TOO_SMALL at :863) and — only for CBR with OPUS_AUTO, where the clamp of
    :882 has no lower bound — the allocated rate worth at least `smallest_packet` bytes: for all per-stream
    behaviours within the single-stream contract, every stream is handed a legal budget (≥ 1 byte, ≥ 2
    for 100 ms frames), and the call returns `1 ≤ ret ≤ max_data_bytes`, exactly the clamped size
    `msMaxBytes` with VBR off. -/
theorem ms_encode_ret_le_out (n fs fsz vbr bitrate rateSum maxData : Int) (xs : List MsStream)
    (hn : 1 ≤ n) (hlen : (xs.length : Int) = n) (hsmall : msSmallest n fs fsz ≤ maxData)
    (hauto : vbr = 0 → bitrate = Opus.EncDecide.OPUS_AUTO → msSmallest n fs fsz ≤ 3 * rateSum / (3 * 8 * fs / fsz))
    (hok : msAllOk n fs fsz vbr (msMaxBytes vbr bitrate rateSum n fs fsz maxData) xs 0 0) :
    msBudgetsOk n fs fsz (msMaxBytes vbr bitrate rateSum n fs fsz maxData) xs 0 0 ∧
    1 ≤ msLoop n fs fsz vbr (msMaxBytes vbr bitrate rateSum n fs fsz maxData) xs 0 0 ∧
    msLoop n fs fsz vbr (msMaxBytes vbr bitrate rateSum n fs fsz maxData) xs 0 0 ≤ maxData ∧
    (vbr = 0 → msLoop n fs fsz vbr (msMaxBytes vbr bitrate rateSum n fs fsz maxData) xs 0 0 =
       msMaxBytes vbr bitrate rateSum n fs fsz maxData) := by
  have hneed : msNeed n (fs / fsz) 0 = msSmallest n fs fsz := by
    unfold msNeed msSmallest
    rw [if_neg (by omega)]
    dsimp only
    split <;> omega
  have hmax : msSmallest n fs fsz ≤ msMaxBytes vbr bitrate rateSum n fs fsz maxData ∧
      msMaxBytes vbr bitrate rateSum n fs fsz maxData ≤ maxData := by
    unfold msMaxBytes
    split
    · rename_i hv
      split
      · rename_i ha
        have := hauto hv ha
        omega
      · split <;> omega
    · omega
  generalize msMaxBytes vbr bitrate rateSum n fs fsz maxData = maxB at *
  obtain ⟨h1, h2, h3, h4⟩ := ms_loop n fs fsz vbr maxB xs 0 0 (by omega) (by omega) (by omega)
    (by rw [hneed]; omega) hok
  have hne : xs ≠ [] := by intro h; subst h; simp at hlen; omega
  refine ⟨h1, ?_, by omega, fun hv => h4 hv hne⟩
  -- at least one byte: the first stream emits at least one
  cases xs with
  | nil => exact absurd rfl hne
  | cons x xs' =>
    obtain ⟨hx, hrest⟩ := hok
    have hx5 := hx.2.2.2.2.1
    have hsm : 1 ≤ msSmallest n fs fsz := by unfold msSmallest; dsimp only; split <;> omega
    simp only [msLoop] at h2 ⊢
    by_cases hl : (0 : Int) = n - 1
    · have hnil : xs' = [] := by
        cases xs' with
        | nil => rfl
        | cons y ys => simp only [List.length_cons] at hlen; push_cast at hlen; omega
      subst hnil
      simp only [msLoop]; omega
    · obtain ⟨hb, hstep⟩ := msCurrMax_spec n fs fsz maxB 0 0 (by omega) (by omega) (by rw [hneed]; omega)
      obtain ⟨c1, c2, c3, c4, c5, c6⟩ := hx
      rw [if_pos hl] at c6
      have hinv' := (hstep x c1 c2 c3 c4).1 hl c6
      obtain ⟨_, i2, _, _⟩ := ms_loop n fs fsz vbr maxB xs' (0 + 1) (0 + x.outB) (by omega)
        (by simp only [List.length_cons] at hlen; push_cast at hlen ⊢; omega) (by omega) hinv' hrest
      omega

end Opus.EncSkel.Proofs
