import OpusModel.EncSkel
/-
  OpusProofs.EncSkelMs — arithmetic of the per-stream budget split of `opus_multistream_encode_native`
  (src/opus_multistream_encoder.c:976-984, `msCurrMax`): while the space left covers the minimum the remaining
  streams need (`msNeed`), the stream is handed a legal budget (≥ 1 byte, ≥ 2 for 100 ms frames), and whatever it
  emits within it plus the self-delimited length (`curr_max>253 ? 2 : 1` reserved) leaves enough for the rest.
  Used by OpusProofs/EncSkelMsLive.lean over C10's model of the stream loop.
-/
namespace Opus.EncSkel.Proofs
open Opus Opus.EncSkel

/-- What one stream does: the length its encoder returned, the payload length of the last frame of
    that packet, and the bytes the repacketiser then emitted for it. -/
structure MsStream where
  len : Int
  lastLen : Int
  outB : Int
  deriving Repr

/-- Minimum space for streams `s .. n-1` (`smallest_packet` is `msNeed n fr 0`). -/
def msNeed (n fr s : Int) : Int :=
  if s ≥ n then 0 else (2 * (n - s) - 1) + (if fr = 10 then n - s else 0)

theorem msCurrMax_spec (n fs fsz maxB tot s : Int) (hs : 0 ≤ s) (hsn : s < n)
    (hinv : tot + msNeed n (fs / fsz) s ≤ maxB) :
    (1 ≤ msCurrMax n fs fsz maxB tot s ∧ ¬ (msCurrMax n fs fsz maxB tot s = 1 ∧ fs / fsz = 10)) ∧
    (∀ x : MsStream, 1 ≤ x.len → x.len ≤ msCurrMax n fs fsz maxB tot s → 0 ≤ x.lastLen → x.lastLen ≤ x.len - 1 →
       (s ≠ n - 1 → x.outB ≤ x.len + (if x.lastLen ≥ 252 then 2 else 1) →
          tot + x.outB + msNeed n (fs / fsz) (s + 1) ≤ maxB) ∧
       (s = n - 1 → x.outB ≤ x.len → tot + x.outB ≤ maxB)) := by
  unfold msCurrMax msNeed at *
  generalize fs / fsz = fr at *
  rw [if_neg (show ¬ s ≥ n by omega)] at hinv
  dsimp only
  constructor
  · constructor
    · by_cases h10 : fr = 10 <;> by_cases hl : s = n - 1 <;> simp only [h10, hl, if_true, if_false] at hinv ⊢ <;>
        (repeat' split) <;> omega
    · intro ⟨hc1, h10⟩
      by_cases hl : s = n - 1 <;> simp only [h10, hl, if_true, if_false] at hinv hc1 <;>
        (repeat' split at hc1) <;> omega
  · intro x h1 h2 h3 h4
    constructor
    · intro hl hout
      by_cases h10 : fr = 10 <;> simp only [h10, hl, if_true, if_false] at hinv h2 hout ⊢ <;>
        (repeat' split) <;> (repeat' split at h2) <;> (repeat' split at hout) <;> omega
    · intro hl hout
      by_cases h10 : fr = 10 <;> simp only [h10, hl, if_true, if_false] at hinv h2 ⊢ <;>
        (repeat' split at h2) <;> omega

end Opus.EncSkel.Proofs
