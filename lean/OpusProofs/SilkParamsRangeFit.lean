import OpusProofs.SilkParamsRangeBasic
import OpusProofs.SilkParamsLpc
/-
  OpusProofs.SilkParamsRangeFit — range lemmas for silk_bwexpander_32 (bwexpander_32.c:36-51),
  silk_LPC_fit (LPC_fit.c:36-82) and the re-quantisation inside the stabilisation loop of
  silk_NLSF2A (NLSF2A.c:131-138): no 32-bit intermediate wraps and no `(opus_int16)` cast
  truncates, for every `opus_int32` input filter other than one containing `silk_int32_MIN`.
-/
namespace Opus.SilkParams
open Opus.Gen

/-! ### silk_bwexpander_32 -/

/-- Every `opus_int32` value computed by `silk_bwexpander_32(ar, d, chirp_Q16)` from the loop on
    (`chirp_minus_one_Q16 = cm1`), in program order.  Per `i < d-1`: the operand of the
    `(opus_int32)` cast of `silk_SMULWW( chirp_Q16, ar[i] )`, the 32-bit product
    `silk_MUL( chirp_Q16, chirp_minus_one_Q16 )`, the two steps of `silk_RSHIFT_ROUND( · , 16 )`
    (`(x >> 15) + 1`, then `>> 1`), the new `chirp_Q16`; finally the cast operand for `ar[d-1]`. -/
def bwexpTrace : List Int → Int → Int → List Int
  | [], _, _ => []
  | [x], c, _ => [c * x / 65536]
  | x :: y :: xs, c, cm1 =>
    c * x / 65536 :: c * cm1 :: (c * cm1 / 32768 + 1) :: rshiftRound (c * cm1) 16 ::
      (c + rshiftRound (c * cm1) 16) :: bwexpTrace (y :: xs) (c + rshiftRound (c * cm1) 16) cm1

/-- The chirp update keeps `0 ≤ chirp ≤ previous chirp`. -/
theorem chirp_step (c cm1 : Int) (h0 : 0 ≤ c) (h1 : c ≤ 65536 + cm1) (hm0 : -65536 ≤ cm1) (hm1 : cm1 ≤ 0) :
    0 ≤ c + rshiftRound (c * cm1) 16 ∧ c + rshiftRound (c * cm1) 16 ≤ c ∧
    -1073741824 ≤ c * cm1 ∧ c * cm1 ≤ 0 := by
  have hy1 : c * cm1 ≤ 0 := by nlinarith
  have hy2 : -(c * 65536) ≤ c * cm1 := by nlinarith
  have hy3 : -1073741824 ≤ c * cm1 := by nlinarith [sq_nonneg (cm1 + 32768), sq_nonneg (c - 32768)]
  rw [rshiftRound16]
  generalize c * cm1 = y at *
  omega

theorem bwexpLoop_range : ∀ (ar : List Int) (c cm1 lo hi : Int), 0 ≤ c → c ≤ 65536 + cm1 →
    -65536 ≤ cm1 → cm1 ≤ 0 → -2147483648 ≤ lo → lo ≤ 0 → 0 ≤ hi → hi ≤ 2147483647 →
    (∀ x ∈ ar, lo ≤ x ∧ x ≤ hi) →
    (∀ v ∈ bwexpTrace ar c cm1, I32 v) ∧ (∀ e ∈ bwexpLoop ar c cm1, lo ≤ e ∧ e ≤ hi) := by
  intro ar
  induction ar with
  | nil => intro c cm1 lo hi _ _ _ _ _ _ _ _ _; simp [bwexpTrace, bwexpLoop]
  | cons x xs ih =>
    intro c cm1 lo hi h0 h1 hm0 hm1 hlo0 hlo hhi hhi1 hx
    have hxx := hx x (by simp)
    have hb := mulshift16_between c x h0 (by omega)
    have hv : lo ≤ c * x / 65536 ∧ c * x / 65536 ≤ hi := by omega
    have hvI : I32 (c * x / 65536) := by unfold I32; omega
    cases xs with
    | nil =>
      simp only [bwexpTrace, bwexpLoop, List.mem_singleton, forall_eq]
      unfold smulww
      rw [wrap32_id hvI]
      exact ⟨hvI, hv⟩
    | cons y ys =>
      have hs := chirp_step c cm1 h0 h1 hm0 hm1
      have hr := ih (c + rshiftRound (c * cm1) 16) cm1 lo hi hs.1 (by omega) hm0 hm1 hlo0 hlo hhi hhi1
        (fun e he => hx e (by simp [he]))
      simp only [bwexpTrace, bwexpLoop, List.forall_mem_cons]
      unfold smulww
      rw [wrap32_id hvI]
      refine ⟨⟨hvI, ?_, ?_, ?_, ?_, hr.1⟩, hv, hr.2⟩
      · unfold I32; omega
      · unfold I32; omega
      · have := hs.2.1; unfold I32; omega
      · unfold I32; omega

/-- `silk_bwexpander_32` with a chirp factor in `[0, 65536]` (Q16: `[0, 1]`): no wrap, and every
    coefficient stays between its input value and 0. -/
theorem bwexpander32_range (ar : List Int) (chirp lo hi : Int) (h0 : 0 ≤ chirp) (h1 : chirp ≤ 65536)
    (hlo0 : -2147483648 ≤ lo) (hlo : lo ≤ 0) (hhi : 0 ≤ hi) (hhi1 : hi ≤ 2147483647)
    (hx : ∀ x ∈ ar, lo ≤ x ∧ x ≤ hi) :
    I32 (chirp - 65536) ∧ (∀ v ∈ bwexpTrace ar chirp (chirp - 65536), I32 v) ∧
    (∀ e ∈ bwexpander32 ar chirp, lo ≤ e ∧ e ≤ hi) := by
  have := bwexpLoop_range ar chirp (chirp - 65536) lo hi h0 (by omega) (by omega) (by omega) hlo0 hlo hhi hhi1 hx
  exact ⟨by unfold I32; omega, this.1, this.2⟩

/-! ### silk_LPC_fit -/

theorem maxAbsScan_spec : ∀ (a : List Int) (k : Nat) (m : Int) (idx : Nat) (b : Int), 0 ≤ m → m ≤ b →
    (∀ e ∈ a, -b ≤ e ∧ e ≤ b) →
    m ≤ (maxAbsScan a k m idx).1 ∧ (maxAbsScan a k m idx).1 ≤ b ∧
    (∀ e ∈ a, sabs e ≤ (maxAbsScan a k m idx).1) ∧
    ((maxAbsScan a k m idx).2 = idx ∨ (maxAbsScan a k m idx).2 < k + a.length) := by
  intro a
  induction a with
  | nil => intro k m idx b h0 hb _; simp [maxAbsScan]; omega
  | cons x xs ih =>
    intro k m idx b h0 hb ha
    have hx := ha x (by simp)
    have hsx := sabs_le hx.1 hx.2
    have hsn := sabs_nonneg x
    unfold maxAbsScan
    simp only
    split
    · rename_i hgt
      have := ih (k + 1) (sabs x) k b hsn hsx (fun e he => ha e (by simp [he]))
      refine ⟨by omega, this.2.1, ?_, ?_⟩
      · intro e he
        rcases List.mem_cons.mp he with rfl | h'
        · exact this.1
        · exact this.2.2.1 e h'
      · simp only [List.length_cons]; omega
    · rename_i hle
      have := ih (k + 1) m idx b h0 hb (fun e he => ha e (by simp [he]))
      refine ⟨this.1, this.2.1, ?_, ?_⟩
      · intro e he
        rcases List.mem_cons.mp he with rfl | h'
        · omega
        · exact this.2.2.1 e h'
      · simp only [List.length_cons]; omega

/-- Every `opus_int32` value computed by the limiting loop of `silk_LPC_fit` (LPC_fit.c:48-70),
    `QIN - QOUT = 5`, with `n` iterations left: per iteration every `silk_abs( a_QIN[k] )`, the two
    steps of `silk_RSHIFT_ROUND( maxabs, 5 )`, and — when the limit is exceeded — the clamped
    `maxabs`, `maxabs - silk_int16_MAX`, its `silk_LSHIFT( · , 14 )` (as the exact product),
    `silk_MUL( maxabs, idx + 1 )`, the divisor `… >> 2`, the quotient of `silk_DIV32`,
    `chirp_Q16`, `chirp_Q16 - 65536`, and the trace of `silk_bwexpander_32`. -/
def lpcFitLoopTrace : Nat → List Int → Nat → List Int
  | 0, _, _ => []
  | n + 1, a, idx =>
    let r := maxAbsScan a 0 0 idx
    let maxabs := rshiftRound r.1 5
    a.map sabs ++ [r.1 / 16 + 1, maxabs] ++
      (if maxabs > 32767 then
        let m := min maxabs 163838
        let den := shrI (m * ((r.2 : Int) + 1)) 2
        let q := Int.tdiv (lshift32 (m - 32767) 14) den
        let chirp := 65470 - q
        [m, m - 32767, (m - 32767) * 16384, m * ((r.2 : Int) + 1), den, q, chirp, chirp - 65536] ++
          bwexpTrace a chirp (chirp - 65536) ++ lpcFitLoopTrace n (bwexpander32 a chirp) r.2
      else [])

/-- The divisors of the `silk_DIV32` calls in the limiting loop (must be non-zero). -/
def lpcFitLoopDivisors : Nat → List Int → Nat → List Int
  | 0, _, _ => []
  | n + 1, a, idx =>
    let r := maxAbsScan a 0 0 idx
    let maxabs := rshiftRound r.1 5
    if maxabs > 32767 then
      let m := min maxabs 163838
      let den := shrI (m * ((r.2 : Int) + 1)) 2
      let chirp := 65470 - Int.tdiv (lshift32 (m - 32767) 14) den
      den :: lpcFitLoopDivisors n (bwexpander32 a chirp) r.2
    else []

/-- The chirp factor chosen by `silk_LPC_fit` lies in `[13040, 65470]` (Q16), in particular in
    `[0, 1]`, and its computation stays inside 32 bits. -/
theorem lpcFit_chirp (m j : Int) (hm0 : 32768 ≤ m) (hm1 : m ≤ 163838) (hj0 : 1 ≤ j) (hj1 : j ≤ 16) :
    let den := shrI (m * j) 2
    let q := Int.tdiv (lshift32 (m - 32767) 14) den
    8192 ≤ den ∧ den ≤ 655352 ∧ lshift32 (m - 32767) 14 = (m - 32767) * 16384 ∧
    I32 ((m - 32767) * 16384) ∧ I32 (m * j) ∧ 0 ≤ q ∧ q ≤ 52430 := by
  intro den q
  have hp1 : m ≤ m * j := by nlinarith
  have hp2 : m * j ≤ m * 16 := by nlinarith
  have hden : den = m * j / 4 := by show shrI (m * j) 2 = _; unfold shrI; rw [rpow2_2]
  have hI : I32 ((m - 32767) * 16384) := by unfold I32; omega
  have hl : lshift32 (m - 32767) 14 = (m - 32767) * 16384 := by
    unfold lshift32; rw [pow2_14]; exact wrap32_id hI
  have hd0 : 8192 ≤ den := by rw [hden]; omega
  have hd1 : den ≤ 655352 := by rw [hden]; omega
  have hq : q = (m - 32767) * 16384 / den := by
    show Int.tdiv (lshift32 (m - 32767) 14) den = _
    rw [hl, Int.tdiv_eq_ediv_of_nonneg (by omega)]
  have hq0 : 0 ≤ q := by rw [hq]; exact Int.ediv_nonneg (by omega) (by omega)
  have hq1 : q ≤ 52430 := by
    rw [hq]
    have : (m - 32767) * 16384 < 52431 * den := by rw [hden]; omega
    have := Int.ediv_lt_of_lt_mul (a := (m - 32767) * 16384) (b := 52431) (c := den) (by omega) this
    omega
  exact ⟨hd0, hd1, hl, hI, by unfold I32; omega, hq0, hq1⟩

/-- The limiting loop of `silk_LPC_fit`: for a filter of 1..16 coefficients, none of them
    `silk_int32_MIN`, nothing wraps, no division by zero occurs, and all coefficients stay in
    `[-B, B]`. -/
theorem lpcFitLoop_range : ∀ (n : Nat) (a : List Int) (idx : Nat) (B : Int), B ≤ 2147483647 →
    a ≠ [] → a.length ≤ 16 → idx < a.length → (∀ e ∈ a, -B ≤ e ∧ e ≤ B) →
    (∀ v ∈ lpcFitLoopTrace n a idx, I32 v) ∧ (∀ v ∈ lpcFitLoopDivisors n a idx, v ≠ 0) ∧
    (∀ e ∈ (lpcFitLoop 5 n a idx).1, -B ≤ e ∧ e ≤ B) ∧
    ((lpcFitLoop 5 n a idx).2 = false → ∀ e ∈ (lpcFitLoop 5 n a idx).1, -1048559 ≤ e ∧ e ≤ 1048559) := by
  intro n
  induction n with
  | zero => intro a idx B _ _ _ _ ha; simp [lpcFitLoopTrace, lpcFitLoopDivisors, lpcFitLoop]; exact ha
  | succ n ih =>
    intro a idx B hB hne hlen hidx ha
    have hB0 : 0 ≤ B := by
      cases a with
      | nil => exact absurd rfl hne
      | cons x _ => have := ha x (by simp); omega
    have hs := maxAbsScan_spec a 0 0 idx B (by omega) hB0 ha
    generalize hr : maxAbsScan a 0 0 idx = r at hs
    have hidx' : r.2 < a.length := by rcases hs.2.2.2 with h | h <;> omega
    have habs : ∀ v ∈ a.map sabs, I32 v := by
      intro v hv
      obtain ⟨e, he, rfl⟩ := List.mem_map.mp hv
      have := ha e he
      have h1 := sabs_le this.1 this.2
      have h2 := sabs_nonneg e
      unfold I32; omega
    have hmax : rshiftRound r.1 5 = (r.1 + 16) / 32 := rshiftRound5 _
    unfold lpcFitLoopTrace lpcFitLoopDivisors lpcFitLoop
    simp only [hr]
    by_cases hgt : rshiftRound r.1 5 > 32767
    · -- limit exceeded: bandwidth expansion
      rw [if_pos hgt, if_pos hgt, if_pos hgt]
      have hm0 : 32768 ≤ min (rshiftRound r.1 5) 163838 := by omega
      have hm1 : min (rshiftRound r.1 5) 163838 ≤ 163838 := by omega
      generalize hmdef : min (rshiftRound r.1 5) 163838 = m at hm0 hm1
      have hc := lpcFit_chirp m ((r.2 : Int) + 1) hm0 hm1 (by omega) (by omega)
      simp only at hc
      generalize hden : shrI (m * ((r.2 : Int) + 1)) 2 = den at hc
      generalize hq : Int.tdiv (lshift32 (m - 32767) 14) den = q at hc
      have hbw := bwexpander32_range a (65470 - q) (-B) B (by omega) (by omega) (by omega) (by omega) hB0 hB ha
      have hrec := ih (bwexpander32 a (65470 - q)) r.2 B hB
        (by intro h; have := congrArg List.length h; rw [bwexpander32_length] at this
            cases a with
            | nil => exact hne rfl
            | cons _ _ => simp at this)
        (by rw [bwexpander32_length]; exact hlen) (by rw [bwexpander32_length]; exact hidx') hbw.2.2
      refine ⟨?_, ?_, hrec.2.2.1, hrec.2.2.2⟩
      · intro v hv
        simp only [List.mem_append, List.mem_cons, List.not_mem_nil, or_false] at hv
        rcases hv with ((hv | hv | hv) | ((hv | hv | hv | hv | hv | hv | hv | hv) | hv) | hv)
        · exact habs v hv
        · subst hv; unfold I32; omega
        · subst hv; unfold I32; omega
        · subst hv; unfold I32; omega
        · subst hv; unfold I32; omega
        · subst hv; exact hc.2.2.2.1
        · subst hv; exact hc.2.2.2.2.1
        · subst hv; unfold I32; omega
        · subst hv; unfold I32; omega
        · subst hv; unfold I32; omega
        · subst hv; unfold I32; omega
        · exact hbw.2.1 v hv
        · exact hrec.1 v hv
      · intro v hv
        rcases List.mem_cons.mp hv with rfl | h'
        · omega
        · exact hrec.2.1 v h'
    · -- within the limit: the loop exits
      rw [if_neg hgt, if_neg hgt, if_neg hgt]
      refine ⟨?_, by simp, ha, ?_⟩
      · intro v hv
        simp only [List.mem_append, List.mem_cons, List.not_mem_nil, or_false] at hv
        rcases hv with hv | hv | hv
        · exact habs v hv
        · subst hv; unfold I32; omega
        · subst hv; unfold I32; omega
      · intro _ e he
        have h1 := hs.2.2.1 e he
        have h2 := le_sabs e
        omega

/-- The remaining 32-bit values of the final loop of `silk_LPC_fit`: the two steps of each
    `silk_RSHIFT_ROUND( a_QIN[k], 5 )` and, in the clipping branch, the operand of the
    `(opus_int32)` cast in `silk_LSHIFT( (opus_int32)a_QOUT[k], 5 )`. -/
def lpcFitFinalTrace (a : List Int) : List Int :=
  let r := lpcFitLoop 5 10 a 0
  r.1.map (fun x => x / 16 + 1) ++ r.1.map (fun x => rshiftRound x 5) ++
    (if r.2 then r.1.map (fun x => wrap16 (sat16 (rshiftRound x 5)) * 32) else [])

/-- `silk_LPC_fit( a_QOUT, a_QIN, 12, 17, d )` for 1 ≤ d ≤ 16 and every `a_QIN` without
    `silk_int32_MIN`: (1) no 32-bit value wraps and no divisor is 0; (2) no `(opus_int16)` cast
    truncates; (3) the model's result is the un-truncated formula; (4) `a_QIN` after the call is
    such that `silk_RSHIFT_ROUND( · , 5 )` of every coefficient, and of every value between it and
    0, fits `opus_int16`. -/
theorem lpcFit_range (a : List Int) (hne : a ≠ []) (hlen : a.length ≤ 16)
    (ha : ∀ e ∈ a, -2147483647 ≤ e ∧ e ≤ 2147483647) :
    (∀ v ∈ lpcFitLoopTrace 10 a 0 ++ lpcFitFinalTrace a, I32 v) ∧
    (∀ v ∈ lpcFitLoopDivisors 10 a 0, v ≠ 0) ∧
    (∀ v ∈ lpcFitCasts a, I16 v) ∧
    (lpcFit a 5).1 = lpcFitCasts a ∧
    (∀ e ∈ (lpcFit a 5).2, -1048576 ≤ e ∧ e ≤ 1048559) := by
  have hl := lpcFitLoop_range 10 a 0 2147483647 (by omega)
    hne hlen (by cases a with
      | nil => exact absurd rfl hne
      | cons _ _ => simp) ha
  unfold lpcFitCasts lpcFitFinalTrace lpcFit
  simp only
  generalize hr : lpcFitLoop 5 10 a 0 = r at hl
  have hrr : ∀ x ∈ r.1, I32 (x / 16 + 1) ∧ I32 (rshiftRound x 5) := by
    intro x hx
    have := hl.2.2.1 x hx
    rw [rshiftRound5]; unfold I32; omega
  cases hb : r.2
  · -- early exit: plain casts
    have hin := hl.2.2.2 hb
    simp only [Bool.false_eq_true, if_false, List.append_nil]
    have hc : ∀ x ∈ r.1, I16 (rshiftRound x 5) := by
      intro x hx
      have := hin x hx
      rw [rshiftRound5_I16_iff]; omega
    refine ⟨?_, hl.2.1, ?_, ?_, ?_⟩
    · intro v hv
      simp only [List.mem_append, List.mem_map] at hv
      rcases hv with hv | ⟨x, hx, rfl⟩ | ⟨x, hx, rfl⟩
      · exact hl.1 v hv
      · exact (hrr x hx).1
      · exact (hrr x hx).2
    · intro v hv
      obtain ⟨x, hx, rfl⟩ := List.mem_map.mp hv
      exact hc x hx
    · apply List.map_congr_left
      intro x hx
      exact wrap16_id (hc x hx)
    · intro e he
      have := hin e he
      omega
  · -- all ten iterations used: clip
    simp only [if_true]
    have hc : ∀ x : Int, I16 (sat16 (rshiftRound x 5)) := fun x => sat16_I16 _
    refine ⟨?_, hl.2.1, ?_, ?_, ?_⟩
    · intro v hv
      simp only [List.mem_append, List.mem_map] at hv
      rcases hv with hv | (⟨x, hx, rfl⟩ | ⟨x, hx, rfl⟩) | ⟨x, hx, rfl⟩
      · exact hl.1 v hv
      · exact (hrr x hx).1
      · exact (hrr x hx).2
      · have := wrap16_I16 (sat16 (rshiftRound x 5))
        unfold I16 at this; unfold I32; omega
    · intro v hv
      obtain ⟨x, hx, rfl⟩ := List.mem_map.mp hv
      exact hc x
    · apply List.map_congr_left
      intro x hx
      exact wrap16_id (hc x)
    · intro e he
      simp only [List.map_map, List.mem_map, Function.comp] at he
      obtain ⟨x, hx, rfl⟩ := he
      have h16 := wrap16_I16 (sat16 (rshiftRound x 5))
      have hI : I32 (wrap16 (sat16 (rshiftRound x 5)) * 2 ^ 5) := by
        unfold I16 at h16; unfold I32
        have : ((2 : Int) ^ 5) = 32 := by decide
        rw [this]; omega
      unfold lshift32
      rw [wrap32_id hI]
      have : ((2 : Int) ^ 5) = 32 := by decide
      rw [this]
      unfold I16 at h16
      omega

/-! ### the re-quantisation in the stabilisation loop of silk_NLSF2A -/

/-- The 32-bit values of the same loop: `silk_LSHIFT( 2, i )`, the chirp factor, the trace of
    `silk_bwexpander_32`, and the first step of each `silk_RSHIFT_ROUND`. -/
def nlsf2aLoopTrace : Nat → Nat → List Int → List Int → List Int
  | 0, _, _, _ => []
  | n + 1, i, a32, aQ12 =>
    if lpcInversePredGain aQ12 = 0 then
      let chirp := 65536 - lshift32 2 i
      let a32' := bwexpander32 a32 chirp
      [2 * 2 ^ i, chirp, chirp - 65536] ++ bwexpTrace a32 chirp (chirp - 65536) ++
        a32'.map (fun a => a / 16 + 1) ++ nlsf2aLoopTrace n (i + 1) a32' (requantQ12 a32')
    else []

theorem lshift2_range (i : Nat) (hi : i ≤ 15) :
    lshift32 2 i = 2 * 2 ^ i ∧ 2 ≤ (2 : Int) * 2 ^ i ∧ (2 : Int) * 2 ^ i ≤ 65536 := by
  have h : i ∈ List.range 16 := List.mem_range.mpr (by omega)
  revert i
  decide +kernel

/-- Stabilisation loop of `silk_NLSF2A` (`n` iterations left, `n + i = 16`): when every
    coefficient of `a32_QA1` lies in the interval on which `silk_RSHIFT_ROUND( · , 5 )` fits
    `opus_int16` (as `silk_LPC_fit` leaves them), nothing wraps, no cast truncates, and the
    model's `wrap16` is the identity on every value it is applied to. -/
theorem nlsf2aLoop_range : ∀ (n i : Nat) (a32 aQ12 : List Int), n + i = 16 →
    (∀ e ∈ a32, -1048592 ≤ e ∧ e ≤ 1048559) →
    (∀ v ∈ nlsf2aLoopTrace n i a32 aQ12, I32 v) ∧ (∀ v ∈ nlsf2aLoopCasts n i a32 aQ12, I16 v) := by
  intro n
  induction n with
  | zero => intro i a32 aQ12 _ _; simp [nlsf2aLoopTrace, nlsf2aLoopCasts]
  | succ n ih =>
    intro i a32 aQ12 hni ha
    unfold nlsf2aLoopTrace nlsf2aLoopCasts
    split
    · obtain ⟨hsh1, hsh2, hsh3⟩ := lshift2_range i (by omega)
      rw [← hsh1] at hsh2 hsh3
      have hbw := bwexpander32_range a32 (65536 - lshift32 2 i) (-1048592) 1048559
        (by omega) (by omega) (by omega) (by omega) (by omega) (by omega) ha
      have hrec := ih (i + 1) (bwexpander32 a32 (65536 - lshift32 2 i))
        (requantQ12 (bwexpander32 a32 (65536 - lshift32 2 i))) (by omega) hbw.2.2
      simp only
      constructor
      · intro v hv
        simp only [List.mem_append, List.mem_cons, List.not_mem_nil, or_false, List.mem_map] at hv
        rcases hv with (((hv | hv | hv) | hv) | ⟨x, hx, rfl⟩) | hv
        · rw [hv, ← hsh1]; unfold I32; omega
        · rw [hv]; unfold I32; omega
        · rw [hv]; exact hbw.1
        · exact hbw.2.1 v hv
        · have := hbw.2.2 x hx; unfold I32; omega
        · exact hrec.1 v hv
      · intro v hv
        simp only [List.mem_append, List.mem_map] at hv
        rcases hv with ⟨x, hx, rfl⟩ | hv
        · rw [rshiftRound5_I16_iff]; exact hbw.2.2 x hx
        · exact hrec.2 v hv
    · simp

end Opus.SilkParams
