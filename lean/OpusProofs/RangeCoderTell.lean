import OpusProofs.RangeCoderBasic
import OpusProofs.RangeCoderTellTable
/-
  OpusProofs.RangeCoderTell — `ec_tell` / `ec_tell_frac` (C08, Stage A): bounds and
  monotonicity in `rng`, from the exhaustive facts of RangeCoderTellTable.
-/
namespace Opus.RangeCoder

theorem frac_facts {r : Nat} (h1 : 32768 ≤ r) (h2 : r < 65536) :
    fracTable r = fracSquare r ∧ fracTable r ≤ 7 ∧ fracTable r ≤ fracTable (r + 1) := by
  have := fracChk_all (r - 32768) (by omega)
  unfold fracChk at this
  have e : 32768 + (r - 32768) = r := by omega
  simp only [e, Bool.and_eq_true, beq_iff_eq, decide_eq_true_eq] at this
  exact ⟨this.1.1, this.1.2, this.2⟩

/-- The table variant is monotone in the top 16 bits. -/
theorem fracTable_mono {a b : Nat} (h1 : 32768 ≤ a) (hab : a ≤ b) (h2 : b < 65536) :
    fracTable a ≤ fracTable b := by
  induction b with
  | zero => omega
  | succ b ih =>
    by_cases e : a = b + 1
    · subst e; exact Nat.le_refl _
    · exact Nat.le_trans (ih (by omega) (by omega)) (frac_facts (by omega) (by omega)).2.2

/-- `l*8 + b`: the quantity subtracted from `nbits_total<<3` by `ec_tell_frac`. -/
def fbits (rng : Nat) : Nat := ilog rng * 8 + fracTable (rng / 2 ^ (ilog rng - 16))

theorem tellFrac_eq (c : Ctx) : tellFrac c = sub32 (u32 (c.nbitsTotal * 8)) (fbits c.rng) := rfl

/-- The top 16 bits `r = rng >> (l-16)` lie in `[2^15, 2^16)`. -/
theorem top16_bounds {rng : Nat} (h : 32768 ≤ rng) :
    32768 ≤ rng / 2 ^ (ilog rng - 16) ∧ rng / 2 ^ (ilog rng - 16) < 65536 := by
  have hv : rng ≠ 0 := by omega
  obtain ⟨b1, b2⟩ := ilog_bounds hv
  have hl : 16 ≤ ilog rng := by
    have : ¬ ilog rng ≤ 15 := by rw [ilog_lt_iff]; omega
    omega
  have hp : 0 < 2 ^ (ilog rng - 16) := Nat.pow_pos (by decide)
  constructor
  · rw [Nat.le_div_iff_mul_le hp]
    have : 32768 * 2 ^ (ilog rng - 16) = 2 ^ (ilog rng - 1) := by
      have : ilog rng - 1 = 15 + (ilog rng - 16) := by omega
      rw [this, Nat.pow_add]
    omega
  · rw [Nat.div_lt_iff_lt_mul hp]
    have : 65536 * 2 ^ (ilog rng - 16) = 2 ^ (ilog rng) := by
      have : ilog rng = 16 + (ilog rng - 16) := by omega
      rw (config := {occs := .pos [2]}) [this]
      rw [Nat.pow_add]
    omega

theorem fbits_bounds {rng : Nat} (h : 32768 ≤ rng) :
    ilog rng * 8 ≤ fbits rng ∧ fbits rng ≤ ilog rng * 8 + 7 := by
  obtain ⟨a, b⟩ := top16_bounds h
  have := (frac_facts a b).2.1
  unfold fbits; omega

/-- `fbits` is monotone in `rng`. -/
theorem fbits_mono {a b : Nat} (h : 32768 ≤ a) (hab : a ≤ b) : fbits a ≤ fbits b := by
  have hl := ilog_mono hab
  by_cases e : ilog a = ilog b
  · unfold fbits
    rw [e]
    have := fracTable_mono (a := a / 2 ^ (ilog b - 16)) (b := b / 2 ^ (ilog b - 16))
      (by rw [← e]; exact (top16_bounds h).1) (Nat.div_le_div_right hab) (top16_bounds (by omega)).2
    omega
  · have := (fbits_bounds h).2
    have := (fbits_bounds (rng := b) (by omega)).1
    omega

end Opus.RangeCoder
