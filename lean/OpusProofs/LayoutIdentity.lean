import OpusModel.DelayChannels
import OpusProofs.DelayChannels
import OpusProofs.LayoutSurround
/-
  OpusProofs.LayoutIdentity — "channels keep their identity" for the ambisonics (family 2) and
  projection (family 3) layouts (C10, complementing C04's `surround_channel_identity` for families
  0/1/255).  `encoderInput` (which input channel the encoder feeds into a stream side) and the general
  lemma `encoderInput_expectedSrc` are C04's (imported read-only).  Core tactics only.
-/
namespace Opus.Layout
open Opus Opus.LayoutSpec Opus.DelayChannels

/-- Every channel of the family-2 layout for `ch` channels is coded (not muted) and is decoded from the
    stream side the encoder filled from that same channel. -/
def ambiIdentity (ch : Nat) : Bool :=
  match rfcLayout 2 ch with
  | none => true
  | some e =>
    (List.range ch).all fun k =>
      decide (expectedSrc (layoutOf ch e) k ≠ .zero) &&
      decide (encoderInput (layoutOf ch e) (expectedSrc (layoutOf ch e) k) = (k : Int))

theorem ambiIdentity_a : ∀ ch ∈ List.range 120, ambiIdentity ch = true := by decide +kernel
theorem ambiIdentity_b : ∀ ch ∈ List.range 200, 120 ≤ ch → ambiIdentity ch = true := by decide +kernel
theorem ambiIdentity_c : ∀ ch ∈ List.range 228, 200 ≤ ch → ambiIdentity ch = true := by decide +kernel

theorem ambiIdentity_all (ch : Nat) : ambiIdentity ch = true := by
  by_cases h : ch < 228
  · by_cases h1 : ch < 120
    · exact ambiIdentity_a ch (List.mem_range.2 h1)
    · by_cases h2 : ch < 200
      · exact ambiIdentity_b ch (List.mem_range.2 h2) (by omega)
      · exact ambiIdentity_c ch (List.mem_range.2 h) (by omega)
  · have : rfcLayout 2 ch = none := by
      simp [rfcLayout, family2, ambiOrder_none_of_large ch (by omega)]
    simp [ambiIdentity, this]

/-- An identity mapping (projection, family 255) routes every channel back to itself, whatever the
    split into coupled and mono streams. -/
theorem identity_mapping_identity (ch st co c : Nat) (hch : ch ≤ 255) (hc : c < ch) :
    encoderInput ⟨ch, st, co, List.range ch⟩ (expectedSrc ⟨ch, st, co, List.range ch⟩ c) = (c : Int) ∧
    expectedSrc ⟨ch, st, co, List.range ch⟩ c ≠ .zero := by
  constructor
  · exact encoderInput_expectedSrc _ c c hc (by simp [hc]) (by omega) (fun j hj => by
      have : j < ch := by omega
      simp [this]; omega)
  · unfold expectedSrc
    simp only [List.getD_eq_getElem?_getD, List.getElem?_range hc, Option.getD_some]
    rw [if_neg (by omega)]
    split
    · split <;> intro h <;> cases h
    · intro h; cases h

end Opus.Layout
