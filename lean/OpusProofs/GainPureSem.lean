import OpusProofs.GainPure
/-
  OpusProofs.GainPureSem — OPUS_SET_GAIN is a pure post-multiplication (C19, slice `Gain`), part 2: SAMPLES.

  An abstract sample semantics of the event log of one call.  Samples live in ANY type `α` with a multiplication
  (a commutative ring, an ordered field, or binary32 with its rounded `*`: every sample is multiplied at most once, so no
  ring law is needed).  A memory maps (buffer, index) to a sample.  The gain pass `.acc 11 p n` multiplies the `n`
  samples at `p` by the constant `k` (src/opus_decoder.c:654-668; float build: `MULT16_32_P16` is `*` and `SATURATE` is
  the identity, celt/arch.h:319,358 — no saturation in the float build).  Every other event `e` is interpreted by an
  arbitrary function `dsp h e` of the memory, where `h` is the gain-free history of the call so far (so `dsp` may depend
  on everything the DSP state can depend on — but not on the gain: this is the FOOTPRINT ASSUMPTION `DspLocal`):
    * it changes only the samples of its own extent (`Ev.extent?`, the extent the skeleton logs and C01 ties to the code),
    * what it writes there depends only on the old contents of that extent and of the scratch buffers
      (pcm_silk, pcm_transition, redundant_audio — never on other parts of the caller's buffer).
  Under the separation condition `gainSep` (every event logged after a gain pass touches no sample of that pass, and
  gain passes are on the caller's buffer) the memory of the gain-g run is the memory of the gain-0 run with exactly the
  samples of the gain passes multiplied by `k`, once.
-/
namespace Opus.DecSkel

abbrev Mem (α : Type) := Buf → Int → α

/-- sample `(b, i)` lies in the extent of event `e` -/
def touches (e : Ev) (b : Buf) (i : Int) : Bool :=
  match e.extent? with
  | some (p, n) => decide (b = p.buf) && decide (p.off ≤ i) && decide (i < p.off + n)
  | none => false

/-- the extents of two events share no sample -/
def disjointEv (e g : Ev) : Bool :=
  match e.extent?, g.extent? with
  | some (p, n), some (q, m) => decide (p.buf ≠ q.buf) || decide (p.off + n ≤ q.off) || decide (q.off + m ≤ p.off)
  | _, _ => true

theorem disjointEv_spec {e g : Ev} (h : disjointEv e g = true) (b : Buf) (i : Int) :
    ¬ (touches e b i = true ∧ touches g b i = true) := by
  unfold disjointEv at h
  unfold touches
  cases he : e.extent? with
  | none => simp
  | some pn =>
    obtain ⟨p, n⟩ := pn
    cases hg : g.extent? with
    | none => simp
    | some qm =>
      obtain ⟨q, m⟩ := qm
      rw [he, hg] at h
      simp only [Bool.or_eq_true, decide_eq_true_eq, Bool.and_eq_true] at h ⊢
      rintro ⟨⟨⟨a1, a2⟩, a3⟩, ⟨⟨b1, b2⟩, b3⟩⟩
      rcases h with (h | h) | h
      · exact h (a1.symm.trans b1)
      · omega
      · omega

/-- a gain pass is on the caller's buffer -/
def onPcm (g : Ev) : Bool :=
  match g.extent? with
  | some (p, _) => decide (p.buf = .pcm)
  | none => true

/-- Separation (log newest first): every event logged after a gain pass `g` touches no sample of `g`, and gain passes
    are on the caller's buffer.  (Decidable; it is a property of the skeleton's own output.) -/
def gainSep : List Ev → Bool
  | [] => true
  | e :: rest => gainSep rest && (notGain e || onPcm e) && rest.all (fun g => notGain g || disjointEv e g)

/-- semantics of one event -/
def evSem {α : Type} [Mul α] (k : α) (dsp : List Ev → Ev → Mem α → Mem α) (h : List Ev) (e : Ev) (m : Mem α) : Mem α :=
  if notGain e then dsp h e m else fun b i => if touches e b i then k * m b i else m b i

/-- semantics of a log (newest first) from the initial memory `m` -/
def semLog {α : Type} [Mul α] (k : α) (dsp : List Ev → Ev → Mem α → Mem α) : List Ev → Mem α → Mem α
  | [], m => m
  | e :: rest, m => evSem k dsp (rest.filter notGain) e (semLog k dsp rest m)

/-- the samples some gain pass of the log covers -/
def gained (l : List Ev) (b : Buf) (i : Int) : Bool := l.any (fun g => !notGain g && touches g b i)

/-- **Footprint assumption on the DSP** (non-gain events): writes stay inside the logged extent; what is written depends
    only on the old contents of the extent and of the scratch buffers. -/
structure DspLocal {α : Type} (dsp : List Ev → Ev → Mem α → Mem α) : Prop where
  frame : ∀ h e m b i, notGain e = true → touches e b i = false → dsp h e m b i = m b i
  reads : ∀ h e m m', notGain e = true → (∀ b i, (touches e b i = true ∨ b ≠ .pcm) → m b i = m' b i) →
    ∀ b i, touches e b i = true → dsp h e m b i = dsp h e m' b i

theorem gained_pcm {l : List Ev} (hs : gainSep l = true) {b : Buf} {i : Int} (hg : gained l b i = true) : b = .pcm := by
  induction l with
  | nil => simp [gained] at hg
  | cons e rest ih =>
    simp only [gainSep, Bool.and_eq_true, Bool.or_eq_true] at hs
    obtain ⟨⟨hs1, hs2⟩, _⟩ := hs
    simp only [gained, List.any_cons, Bool.or_eq_true, Bool.and_eq_true, Bool.not_eq_true'] at hg
    rcases hg with ⟨hng, ht⟩ | hg
    · rcases hs2 with hs2 | hs2
      · rw [hng] at hs2; exact absurd hs2 (by decide)
      · unfold onPcm at hs2; unfold touches at ht
        cases he : e.extent? with
        | none => rw [he] at ht; exact absurd ht (by simp)
        | some pn =>
          obtain ⟨p, n⟩ := pn
          rw [he] at hs2 ht
          simp only [decide_eq_true_eq, Bool.and_eq_true] at hs2 ht
          exact ht.1.1.trans hs2
    · exact ih hs1 (by simpa [gained] using hg)

theorem not_gained_of_touch {e : Ev} {rest : List Ev} (hd : rest.all (fun g => notGain g || disjointEv e g) = true)
    {b : Buf} {i : Int} (ht : touches e b i = true) : gained rest b i = false := by
  cases hgd : gained rest b i with
  | false => rfl
  | true =>
    exfalso
    simp only [gained, List.any_eq_true, Bool.and_eq_true, Bool.not_eq_true'] at hgd
    obtain ⟨g, hmem, hng, htg⟩ := hgd
    have := List.all_eq_true.mp hd g hmem
    simp only [Bool.or_eq_true] at this
    rcases this with h | h
    · rw [hng] at h; exact absurd h (by decide)
    · exact disjointEv_spec h b i ⟨ht, htg⟩

/-- **Scaling, sample by sample.**  For every log with `gainSep`, every constant `k`, every DSP semantics with the
    footprint property and every initial memory: the memory after the log is the memory after the gain-free log, with the
    samples covered by a gain pass multiplied by `k` (once) and all other samples — of the caller's buffer and of every
    scratch buffer — identical. -/
theorem semLog_scaled {α : Type} [Mul α] (k : α) (dsp : List Ev → Ev → Mem α → Mem α) (hd : DspLocal dsp) (m : Mem α) :
    ∀ (l : List Ev), gainSep l = true → ∀ b i,
      semLog k dsp l m b i =
        if gained l b i then k * semLog k dsp (l.filter notGain) m b i else semLog k dsp (l.filter notGain) m b i := by
  intro l
  induction l with
  | nil => intro _ b i; rfl
  | cons e rest ih =>
    intro hs b i
    have hs' := hs
    simp only [gainSep, Bool.and_eq_true] at hs'
    obtain ⟨⟨hs1, _⟩, hs3⟩ := hs'
    have ih := ih hs1
    cases hng : notGain e with
    | false =>
      -- a gain pass: the filtered log drops it
      have hf : (e :: rest).filter notGain = rest.filter notGain := by rw [List.filter_cons, hng]; rfl
      have hgd : gained (e :: rest) b i = (touches e b i || gained rest b i) := by
        simp only [gained, List.any_cons, hng, Bool.not_false, Bool.true_and]
      rw [hf, hgd]
      show evSem k dsp (rest.filter notGain) e (semLog k dsp rest m) b i = _
      unfold evSem
      rw [hng]
      simp only [Bool.false_eq_true, if_false]
      cases ht : touches e b i with
      | true =>
        have hn := not_gained_of_touch hs3 ht
        have := ih b i
        rw [hn] at this
        simp only [Bool.false_eq_true, if_false] at this
        simp only [if_true, Bool.true_or, this]
      | false =>
        simp only [Bool.false_eq_true, if_false, Bool.false_or]
        exact ih b i
    | true =>
      have hf : (e :: rest).filter notGain = e :: rest.filter notGain := by rw [List.filter_cons, hng]; rfl
      have hgd : gained (e :: rest) b i = gained rest b i := by
        simp only [gained, List.any_cons, hng, Bool.not_true, Bool.false_and, Bool.false_or]
      rw [hf, hgd]
      show evSem k dsp (rest.filter notGain) e (semLog k dsp rest m) b i =
        if gained rest b i = true then k * evSem k dsp ((rest.filter notGain).filter notGain) e (semLog k dsp (rest.filter notGain) m) b i
        else evSem k dsp ((rest.filter notGain).filter notGain) e (semLog k dsp (rest.filter notGain) m) b i
      have hff : (rest.filter notGain).filter notGain = rest.filter notGain := by
        rw [List.filter_filter]; simp
      rw [hff]
      unfold evSem
      simp only [hng, if_true]
      cases ht : touches e b i with
      | true =>
        have hn := not_gained_of_touch hs3 ht
        rw [hn]
        simp only [Bool.false_eq_true, if_false]
        apply hd.reads _ _ _ _ hng _ b i ht
        intro b' i' hcond
        have := ih b' i'
        have hn' : gained rest b' i' = false := by
          rcases hcond with h | h
          · exact not_gained_of_touch hs3 h
          · cases hg' : gained rest b' i' with
            | false => rfl
            | true => exact absurd (gained_pcm hs1 hg') h
        rw [hn'] at this
        simpa using this
      | false =>
        rw [hd.frame _ _ _ _ _ hng ht, hd.frame _ _ _ _ _ hng ht]
        exact ih b i

end Opus.DecSkel
