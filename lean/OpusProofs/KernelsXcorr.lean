import OpusProofs.Kernels
/-
  OpusProofs.KernelsXcorr — xcorr_kernel_sse, xcorr_kernel_avx / celt_pitch_xcorr_avx2,
  comb_filter_const_sse and silk_inner_product_FLP_{c,avx2}: lane structure = sequential sums.
-/
namespace Opus.Kernels

variable {α : Type} [CommSemiring α]

/-! ### xcorr_kernel_sse -/

theorem sumRange_four (f : Nat → α) : sumRange f 4 = f 0 + f 1 + f 2 + f 3 := by
  simp [sumRange]

/-- loop invariant on the SUM of the two accumulators (the only thing the kernel finally uses). -/
theorem xcorrSseLoop_eq (x y : Nat → α) (b j : Nat) (s1 s2 : Vec α) (k : Nat) (hk : k < 4) :
    (xcorrSseLoop x y b j (s1, s2)).1 k + (xcorrSseLoop x y b j (s1, s2)).2 k =
      (s1 k + s2 k) + sumRange (fun t => x (j + t) * y (j + t + k)) (4 * b) := by
  induction b generalizing j s1 s2 with
  | zero => simp [xcorrSseLoop, sumRange]
  | succ b ih =>
    have h4 : 4 * (b + 1) = 4 + 4 * b := by omega
    rw [h4, sumRange_add, sumRange_four]
    simp only [xcorrSseLoop]
    rw [ih]
    have e : (fun t => x (j + 4 + t) * y (j + 4 + t + k)) = (fun j_1 => x (j + (4 + j_1)) * y (j + (4 + j_1) + k)) := by
      funext t; simp only [Nat.add_assoc]
    rw [e]
    have hk' : k = 0 ∨ k = 1 ∨ k = 2 ∨ k = 3 := by omega
    rcases hk' with h | h | h | h <;> subst h <;>
      simp [vadd, vmul, shufflePs, loadu, Nat.add_assoc] <;> ring1

theorem xcorrKernelSse_eq (x y : Nat → α) (sum : Vec α) (len : Nat) (k : Nat) (hk : k < 4) :
    xcorrKernelSse x y sum len k = xcorrKernelC x y sum len k := by
  unfold xcorrKernelC
  rw [tailLoop_eq, sumRange_blocks _ len 4]
  simp only [Nat.zero_add]
  unfold xcorrKernelSse
  simp only []
  have hinv := xcorrSseLoop_eq x y (len / 4) 0 sum vzero k hk
  simp only [Nat.zero_add, vzero, add_zero] at hinv
  generalize (xcorrSseLoop x y (len / 4) 0 (sum, vzero)) = st at hinv ⊢
  have hr : len - 4 * (len / 4) = 0 ∨ len - 4 * (len / 4) = 1 ∨ len - 4 * (len / 4) = 2 ∨
      len - 4 * (len / 4) = 3 := by omega
  have hle := Nat.mul_div_le len 4
  rcases hr with h | h | h | h
  · have c0 : ¬ (4 * (len / 4) < len) := by omega
    rw [h]; simp only [if_neg c0, vadd, sumRange, add_zero]
    exact hinv
  · have c0 : 4 * (len / 4) < len := by omega
    have c1 : ¬ (4 * (len / 4) + 1 < len) := by omega
    rw [h]; simp only [if_pos c0, if_neg c1, vadd, vmul, load1, loadu, sumRange, Nat.add_zero, zero_add]
    conv_rhs => rw [← add_assoc, ← hinv]
    ring
  · have c0 : 4 * (len / 4) < len := by omega
    have c1 : 4 * (len / 4) + 1 < len := by omega
    have c2 : ¬ (4 * (len / 4) + 2 < len) := by omega
    rw [h]; simp only [if_pos c0, if_pos c1, if_neg c2, vadd, vmul, load1, loadu, sumRange, Nat.add_zero, zero_add]
    conv_rhs => rw [← add_assoc, ← hinv]
    ring
  · have c0 : 4 * (len / 4) < len := by omega
    have c1 : 4 * (len / 4) + 1 < len := by omega
    have c2 : 4 * (len / 4) + 2 < len := by omega
    rw [h]; simp only [if_pos c0, if_pos c1, if_pos c2, vadd, vmul, load1, loadu, sumRange, Nat.add_zero, zero_add]
    conv_rhs => rw [← add_assoc, ← hinv]
    ring

/-- closed form of the portable kernel. -/
theorem xcorrKernelC_eq (x y : Nat → α) (sum : Vec α) (len k : Nat) :
    xcorrKernelC x y sum len k = sum k + sumRange (fun j => x j * y (j + k)) len := by
  unfold xcorrKernelC; rw [tailLoop_eq]; simp only [Nat.zero_add]

/-! ### xcorr_kernel_avx / celt_pitch_xcorr_avx2 -/

/-- every lane of accumulator `xsum_k`, main loop plus masked remainder. -/
theorem xcorrAvxAcc_lane (x y : Nat → α) (len k l : Nat) :
    xcorrAvxAcc x y len k l =
      sumRange (fun b => x (8 * b + l) * y (8 * b + k + l)) (len / 8) +
      (if l < len - 8 * (len / 8) then x (8 * (len / 8) + l) * y (8 * (len / 8) + k + l) else 0) := by
  unfold xcorrAvxAcc
  simp only []
  by_cases h : 8 * (len / 8) ≠ len
  · simp only [if_pos h, fmaLoop_eq, vzero, vmul, loadu, maskload, zero_add]
    by_cases hl : l < len - 8 * (len / 8)
    · simp only [if_pos hl]; ring
    · simp only [if_neg hl]; ring
  · have h' : 8 * (len / 8) = len := by omega
    have hl : ¬ (l < len - 8 * (len / 8)) := by omega
    simp only [if_neg h, if_neg hl, fmaLoop_eq, vzero, vmul, loadu, zero_add, add_zero]

/-- the eight lanes of one accumulator add up to its inner product. -/
theorem xcorrAvxAcc_sum (x y : Nat → α) (len k : Nat) :
    let a := xcorrAvxAcc x y len k
    ((a 0 + a 4) + (a 1 + a 5)) + ((a 2 + a 6) + (a 3 + a 7)) = sumRange (fun j => x j * y (j + k)) len := by
  intro a
  have hle := Nat.mul_div_le len 8
  rw [sumRange_blocks (fun j => x j * y (j + k)) len 8, lanes8]
  simp only [a, xcorrAvxAcc_lane]
  have e : ∀ c : Nat, (fun b => x (8 * b + c) * y (8 * b + k + c)) = (fun b => x (8 * b + c) * y (8 * b + c + k)) := by
    intro c; funext b
    have : 8 * b + k + c = 8 * b + c + k := by omega
    rw [this]
  simp only [e, Nat.add_zero]
  have hr : len - 8 * (len / 8) < 8 := by omega
  generalize len - 8 * (len / 8) = r at hr
  generalize 8 * (len / 8) = m
  have hr' : r = 0 ∨ r = 1 ∨ r = 2 ∨ r = 3 ∨ r = 4 ∨ r = 5 ∨ r = 6 ∨ r = 7 := by omega
  have e2 : ∀ c : Nat, m + k + c = m + c + k := by intro c; omega
  rcases hr' with h | h | h | h | h | h | h | h <;> subst h <;>
    simp [sumRange, e2] <;> ring1

theorem xcorrKernelAvx_eq (x y : Nat → α) (len k : Nat) (hk : k < 8) :
    xcorrKernelAvx x y len k = sumRange (fun j => x j * y (j + k)) len := by
  have hk' : k = 0 ∨ k = 1 ∨ k = 2 ∨ k = 3 ∨ k = 4 ∨ k = 5 ∨ k = 6 ∨ k = 7 := by omega
  rcases hk' with h | h | h | h | h | h | h | h <;> subst h <;>
    (rw [← xcorrAvxAcc_sum]; simp [xcorrKernelAvx, hadd256, vadd, permute2f128])

theorem pitchXcorrAvx2_eq (x y : Nat → α) (len maxPitch i : Nat) :
    pitchXcorrAvx2 x y len maxPitch i = pitchXcorrSpec x y len i := by
  unfold pitchXcorrAvx2 pitchXcorrSpec
  simp only []
  by_cases h : i < 8 * (maxPitch / 8)
  · simp only [if_pos h]
    rw [xcorrKernelAvx_eq _ _ _ _ (Nat.mod_lt i (by decide))]
    apply sumRange_congr; intro j _
    have : i / 8 * 8 + (j + i % 8) = i + j := by have := Nat.div_add_mod i 8; omega
    rw [this]
  · simp only [if_neg h]
    rw [innerProdSse_eq]; rfl

/-- celt_pitch_xcorr_c (unrolled version) with any inner kernels that compute the sequential sums. -/
theorem pitchXcorrCWith_eq (kern : (Nat → α) → (Nat → α) → Vec α → Nat → Vec α)
    (ip : (Nat → α) → (Nat → α) → Nat → α)
    (hkern : ∀ x y s len k, k < 4 → kern x y s len k = s k + sumRange (fun j => x j * y (j + k)) len)
    (hip : ∀ x y n, ip x y n = sumRange (fun i => x i * y i) n)
    (x y : Nat → α) (len maxPitch i : Nat) :
    pitchXcorrCWith kern ip x y len maxPitch i = pitchXcorrSpec x y len i := by
  unfold pitchXcorrCWith pitchXcorrSpec
  by_cases h : i < 4 * (maxPitch / 4)
  · simp only [if_pos h]
    rw [hkern _ _ _ _ _ (Nat.mod_lt i (by decide))]
    simp only [vzero, zero_add]
    apply sumRange_congr; intro j _
    have : i / 4 * 4 + (j + i % 4) = i + j := by have := Nat.div_add_mod i 4; omega
    rw [this]
  · simp only [if_neg h]
    rw [hip]

theorem pitchXcorrC_eq (x y : Nat → α) (len maxPitch i : Nat) :
    pitchXcorrC x y len maxPitch i = pitchXcorrSpec x y len i := by
  unfold pitchXcorrC
  apply pitchXcorrCWith_eq
  · intro x y s len k hk; rw [xcorrKernelSse_eq _ _ _ _ _ hk, xcorrKernelC_eq]
  · intro x y n; rw [innerProdSse_eq]; rfl

theorem pitchXcorrCPortable_eq (x y : Nat → α) (len maxPitch i : Nat) :
    pitchXcorrCPortable x y len maxPitch i = pitchXcorrSpec x y len i := by
  unfold pitchXcorrCPortable
  apply pitchXcorrCWith_eq
  · intro x y s len k _; rw [xcorrKernelC_eq]
  · intro x y n; rfl

/-! ### comb_filter_const_sse -/

theorem combSse_eq (x : Nat → α) (T : Nat) (g10 g11 g12 : α) (i : Nat) :
    combSse x T g10 g11 g12 i = combC x T g10 g11 g12 i := by
  unfold combSse combC combSseBlock
  have hi : i = i / 4 * 4 + i % 4 := by have := Nat.div_add_mod i 4; omega
  have hm : i % 4 < 4 := Nat.mod_lt i (by decide)
  generalize i / 4 * 4 = m at hi
  generalize i % 4 = r at hi hm
  subst hi
  have hr : r = 0 ∨ r = 1 ∨ r = 2 ∨ r = 3 := by omega
  rcases hr with h | h | h | h <;> subst h <;>
    simp [vadd, vmul, shufflePs, loadu, Nat.add_assoc] <;> first | ring1 | ring_nf

/-! ### silk_inner_product_FLP -/

theorem innerProductFlpC_go_eq (f : Nat → α) (b i : Nat) (r : α) :
    innerProductFlpC.go f b i r = r + sumRange (fun j => f (i + j)) (4 * b) := by
  induction b generalizing i r with
  | zero => simp [innerProductFlpC.go, sumRange]
  | succ b ih =>
    have h4 : 4 * (b + 1) = 4 + 4 * b := by omega
    rw [h4, sumRange_add, sumRange_four]
    simp only [innerProductFlpC.go]
    rw [ih]
    have e : (fun j => f (i + 4 + j)) = (fun j => f (i + (4 + j))) := by
      funext t; simp only [Nat.add_assoc]
    rw [e]; simp only [Nat.add_zero]; ring

theorem innerProductFlpC_eq (x y : Nat → α) (n : Nat) :
    innerProductFlpC x y n = sumRange (fun i => x i * y i) n := by
  unfold innerProductFlpC
  simp only []
  rw [tailLoop_eq, innerProductFlpC_go_eq, sumRange_blocks (fun i => x i * y i) n 4]
  simp only [zero_add]

/-- 4 lanes at stride 8 with offsets 0..3 and 4..7 are the 8 lanes of `lanes8`. -/
theorem innerProductFlpAvx2_eq (x y : Nat → α) (n : Nat) :
    innerProductFlpAvx2 x y n = sumRange (fun i => x i * y i) n := by
  unfold innerProductFlpAvx2
  simp only []
  rw [tailLoop_eq]
  have hle := Nat.mul_div_le n 8
  have hb4 : (n - 8 * (n / 8)) / 4 = 0 ∨ (n - 8 * (n / 8)) / 4 = 1 := by omega
  rw [sumRange_blocks (fun i => x i * y i) n 8, lanes8]
  rcases hb4 with h | h
  · rw [h]
    simp only [fmaLoop, Nat.mul_zero, Nat.add_zero, haddPd, vadd, swapHalvesPd, fmaLoop_eq, vzero, vmul, loadu,
      zero_add]
    have e : ∀ c : Nat, (fun k => x (8 * k + 4 + c) * y (8 * k + 4 + c)) = (fun k => x (8 * k + (4 + c)) * y (8 * k + (4 + c))) := by
      intro c; funext k; simp only [Nat.add_assoc]
    simp only [e]
    ring
  · rw [h]
    have hsplit : n - 8 * (n / 8) = 4 + (n - (8 * (n / 8) + 4 * 1)) := by omega
    rw [hsplit, sumRange_add, sumRange_four]
    simp only [fmaLoop, Nat.mul_one, haddPd, vadd, swapHalvesPd, fmaLoop_eq, vzero, vmul, loadu,
      zero_add, Nat.add_zero]
    have e : ∀ c : Nat, (fun k => x (8 * k + 4 + c) * y (8 * k + 4 + c)) = (fun k => x (8 * k + (4 + c)) * y (8 * k + (4 + c))) := by
      intro c; funext k; simp only [Nat.add_assoc]
    have e3 : (fun j => x (8 * (n / 8) + (4 + j)) * y (8 * (n / 8) + (4 + j))) = (fun j => x (8 * (n / 8) + 4 + j) * y (8 * (n / 8) + 4 + j)) := by
      funext j; simp only [Nat.add_assoc]
    simp only [e, e3]
    ring

end Opus.Kernels
