import OpusProofs.SilkSymsEncBlocks
/-
  C08 × C03 composition, part 4: `silk_decode_pulses` (C03's model) inverts `silk_encode_pulses`
  (OpusModel/SilkSymsEnc.lean) — rate level, sum-weighted pulses with the 17-escape chain, the shell
  tree, the LSBs and the signs — and the legality of the operations the encoder emits.

  Proof style (see the kernel note in SilkSymsEncIndices.lean): every `match f c with | (a, c1) => …`
  of the decoder model is opened with `split`, which generalises the discriminant; the equation it
  leaves is rewritten with the lemma for `f` and eliminated with `cases`.
-/
namespace Opus.SilkSymsEncProofs
open Opus Opus.RangeCoder Opus.SilkSyms Opus.SilkSymsEnc Opus.SilkSymsFrozen.Icdf

/-! ### Sum-weighted pulses -/

theorem lsbCount_exit (k : Nat) (c : Dec) (n sp : Nat) (h : sp ≠ 17) : lsbCountLoop k c n sp = (n, sp, c) := by
  cases k with
  | zero => rfl
  | succ k => simp only [lsbCountLoop, h, if_false]

/-- The escape chain: `m` more escapes, then the sum. -/
theorem lsbCount_spec (T9 : List Nat) (hT : T9 = silk_pulses_per_block_iCDF.getD 9 []) (s : Nat) (hs : s ≤ 16) :
    ∀ (m k n : Nat) (c : Dec), m + 1 ≤ k → n + m + 1 < 10 →
    Reads c (List.replicate m (ic 17 T9) ++ [ic s T9]) →
    lsbCountLoop k c n 17 = (n + m + 1, s, after c (List.replicate m (ic 17 T9) ++ [ic s T9])) := by
  intro m
  induction m with
  | zero =>
    intro k n c hk hn h
    cases k with
    | zero => omega
    | succ k =>
      simp only [List.replicate_zero, List.nil_append] at h ⊢
      rw [lsbCountLoop, if_pos rfl]
      have hd : (if n + 1 = 10 then 1 else 0) = 0 := by
        split
        · omega
        · rfl
      rw [hd, List.drop_zero, ← hT]
      split
      rename_i sp' c1 e
      rw [sym_spec h] at e
      cases e
      rw [lsbCount_exit _ _ _ _ (by omega)]
  | succ m ih =>
    intro k n c hk hn h
    cases k with
    | zero => omega
    | succ k =>
      rw [List.replicate_succ, List.cons_append] at h ⊢
      rw [reads_cons_append] at h
      rw [lsbCountLoop, if_pos rfl]
      have hd : (if n + 1 = 10 then 1 else 0) = 0 := by
        split
        · omega
        · rfl
      rw [hd, List.drop_zero, ← hT]
      split
      rename_i sp' c1 e
      rw [sym_spec h.1] at e
      cases e
      rw [ih k (n + 1) _ (by omega) (by omega) h.2, after_cons]
      refine Prod.ext ?_ rfl
      simp only
      omega

theorem sumPulsesLoop_spec (rl : Nat) : ∀ (bs : List Block) (c : Dec), (∀ b ∈ bs, BlockOk b) →
    Reads c (bs.map (encSum rl)).flatten →
    sumPulsesLoop (silk_pulses_per_block_iCDF.getD rl []) bs.length c =
      (bs.map (·.sum), bs.map (·.nR), after c (bs.map (encSum rl)).flatten) := by
  intro bs
  induction bs with
  | nil => intro c _ _; rfl
  | cons b bs ih =>
    intro c hok h
    have hb := hok b (List.mem_cons_self ..)
    simp only [List.map_cons, List.flatten_cons] at h ⊢
    rw [reads_append] at h
    rw [after_append]
    simp only [List.length_cons]
    rw [sumPulsesLoop]
    split
    rename_i sp0 c1 e0
    split
    rename_i n sp c2 e1
    split
    rename_i sps ns c3 e2
    have key : (n, sp, c2) = (b.nR, b.sum, after c (encSum rl b)) ∧ True := by
      refine ⟨?_, trivial⟩
      unfold encSum at h ⊢
      by_cases h0 : b.nR = 0
      · simp only [h0, if_true] at h ⊢
        have h1 := h.1
        rw [sym_spec h1] at e0
        cases e0
        rw [lsbCount_exit _ _ _ _ (by have := hb.le16; omega)] at e1
        cases e1
        rfl
      · simp only [h0, if_false] at h ⊢
        have h1 := h.1
        rw [reads_cons_append] at h1
        rw [sym_spec h1.1] at e0
        cases e0
        rw [lsbCount_spec _ rfl b.sum hb.le16 (b.nR - 1) 10 0 _ (by have := hb.nR; omega) (by have := hb.nR; omega) h1.2] at e1
        cases e1
        rw [after_cons]
        refine Prod.ext ?_ rfl
        simp only
        omega
    have k1 := key.1
    injection k1 with k1 k2
    injection k2 with k2 k3
    subst k1 k2 k3
    rw [ih _ (fun b' hb' => hok b' (List.mem_cons_of_mem _ hb')) h.2] at e2
    cases e2
    rfl

/-! ### Shell coder -/

theorem decodeSplit_spec {c : Dec} {a p : Nat} {tbl : List Nat} (ha : a ≤ p) (h : Reads c (encSplit a p tbl)) :
    decodeSplit c p tbl = (a, p - a, after c (encSplit a p tbl)) := by
  unfold encSplit at h ⊢
  unfold decodeSplit
  by_cases hp : p > 0
  · rw [if_pos hp] at h
    rw [if_pos hp, if_pos hp]
    split
    rename_i x c1 e
    rw [sym_spec h] at e
    cases e
    rfl
  · rw [if_neg hp, if_neg hp]
    have : a = 0 := by omega
    subst this
    have : p = 0 := by omega
    subst this
    rfl

theorem shellQuarter_spec {c : Dec} (b1 b2 d1 d2 : Nat) (h : Reads c (encQuarter [b1, b2, d1, d2])) :
    shellQuarter c (b1 + b2 + (d1 + d2)) = ([b1, b2, d1, d2], after c (encQuarter [b1, b2, d1, d2])) := by
  rw [encQuarter] at h ⊢
  rw [reads_append, reads_append, after_append] at h
  rw [after_append, after_append]
  unfold shellQuarter
  split
  rename_i a1 a2 c1 e1
  rw [decodeSplit_spec (by omega) h.1.1] at e1
  cases e1
  split
  rename_i x1 x2 c2 e2
  rw [decodeSplit_spec (by omega) h.1.2] at e2
  cases e2
  split
  rename_i y1 y2 c3 e3
  have : b1 + b2 + (d1 + d2) - (b1 + b2) = d1 + d2 := by omega
  rw [this] at e3
  rw [decodeSplit_spec (by omega) h.2] at e3
  cases e3
  refine Prod.ext ?_ rfl
  simp only [List.cons.injEq, and_true, true_and]
  omega

theorem sum4 (b1 b2 d1 d2 : Nat) : [b1, b2, d1, d2].sum = b1 + b2 + (d1 + d2) := by
  simp only [List.sum_cons, List.sum_nil]; omega

theorem shellQuarter_spec' {c : Dec} {q : List Nat} (hq : q.length = 4) (h : Reads c (encQuarter q)) :
    shellQuarter c q.sum = (q, after c (encQuarter q)) := by
  obtain ⟨b1, b2, d1, d2, rfl⟩ := list4 hq
  rw [sum4]
  exact shellQuarter_spec b1 b2 d1 d2 h

theorem shellHalf_spec {c : Dec} {l : List Nat} (hl : l.length = 8) (h : Reads c (encHalf l)) :
    shellHalf c l.sum = (l, after c (encHalf l)) := by
  have hs : l.sum = (l.take 4).sum + (l.drop 4).sum := by
    conv => lhs; rw [← List.take_append_drop 4 l]
    rw [List.sum_append]
  unfold encHalf at h ⊢
  rw [reads_append, reads_append, after_append] at h
  rw [after_append, after_append, hs]
  unfold shellHalf
  split
  rename_i a1 a2 c1 e1
  rw [decodeSplit_spec (by omega) h.1.1] at e1
  cases e1
  split
  rename_i q0 c2 e2
  rw [shellQuarter_spec' (by rw [List.length_take]; omega) h.1.2] at e2
  cases e2
  split
  rename_i q1 c3 e3
  rw [Nat.add_sub_cancel_left] at e3
  rw [shellQuarter_spec' (by rw [List.length_drop]; omega) h.2] at e3
  cases e3
  rw [List.take_append_drop]

theorem shellDecoder_spec {c : Dec} {l : List Nat} (hl : l.length = 16) (h : Reads c (encShell l)) :
    shellDecoder c l.sum = (l, after c (encShell l)) := by
  have hs : l.sum = (l.take 8).sum + (l.drop 8).sum := by
    conv => lhs; rw [← List.take_append_drop 8 l]
    rw [List.sum_append]
  unfold encShell at h ⊢
  rw [reads_append, reads_append, after_append] at h
  rw [after_append, after_append, hs]
  unfold shellDecoder
  split
  rename_i a1 a2 c1 e1
  rw [decodeSplit_spec (by omega) h.1.1] at e1
  cases e1
  split
  rename_i q0 c2 e2
  rw [shellHalf_spec (by rw [List.length_take]; omega) h.1.2] at e2
  cases e2
  split
  rename_i q1 c3 e3
  rw [Nat.add_sub_cancel_left] at e3
  rw [shellHalf_spec (by rw [List.length_drop]; omega) h.2] at e3
  cases e3
  rw [List.take_append_drop]

theorem shellLoop_spec : ∀ (bs : List Block) (c : Dec), (∀ b ∈ bs, BlockOk b) →
    Reads c (bs.map encShellIf).flatten →
    shellLoop (bs.map (·.sum)) c = (bs.map (·.scaled), after c (bs.map encShellIf).flatten) := by
  intro bs
  induction bs with
  | nil => intro c _ _; rfl
  | cons b bs ih =>
    intro c hok h
    have hb := hok b (List.mem_cons_self ..)
    simp only [List.map_cons, List.flatten_cons] at h ⊢
    rw [reads_append] at h
    rw [after_append, shellLoop]
    split
    rename_i blk c1 e1
    split
    rename_i blks c2 e2
    have key : (blk, c1) = (b.scaled, after c (encShellIf b)) := by
      rw [← e1]
      unfold shellBlock
      unfold encShellIf at h ⊢
      by_cases hp : b.sum > 0
      · rw [if_pos hp] at h
        rw [if_pos hp, if_pos hp]
        have := shellDecoder_spec hb.lenS h.1
        rw [← hb.sum] at this
        exact this
      · rw [if_neg hp, if_neg hp]
        rw [(hb.zero (by omega)).2.1, after_nil]
    cases key
    rw [ih _ (fun b' hb' => hok b' (List.mem_cons_of_mem _ hb')) h.2] at e2
    cases e2
    rfl

/-! ### LSBs -/

theorem lsb_arith (q B P R : Nat) : (2 * q + B) * P + R = q * (P * 2) + (R + P * B) := by
  have e1 : (2 * q + B) * P = q * (P * 2) + P * B := by
    rw [Nat.add_mul, Nat.mul_comm 2 q, Nat.mul_assoc, Nat.mul_comm 2 P, Nat.mul_comm B P]
  omega

theorem lsbBits_spec : ∀ (n a q : Nat) (c : Dec), Reads c (encLsbBits n a) →
    lsbBits n q c = (q * 2 ^ n + a % 2 ^ n, after c (encLsbBits n a)) := by
  intro n
  induction n with
  | zero =>
    intro a q c _
    unfold lsbBits
    rw [encLsbBits, after_nil]
    have : q * 2 ^ 0 + a % 2 ^ 0 = q := by simp [Nat.mod_one]
    rw [this]
  | succ n ih =>
    intro a q c h
    rw [encLsbBits] at h ⊢
    rw [reads_cons_append] at h
    unfold lsbBits
    split
    rename_i b c1 e
    rw [sym_spec h.1] at e
    cases e
    rw [ih a _ _ h.2, after_cons]
    refine Prod.ext ?_ rfl
    show (2 * q + a / 2 ^ n % 2) * 2 ^ n + a % 2 ^ n = q * 2 ^ (n + 1) + a % 2 ^ (n + 1)
    rw [Nat.mod_pow_succ, Nat.pow_succ]
    exact lsb_arith q _ _ _

theorem lsbBlock_spec (n : Nat) : ∀ (os : List Nat) (c : Dec), Reads c (os.map (encLsbBits n)).flatten →
    lsbBlock n (os.map (· / 2 ^ n)) c = (os, after c (os.map (encLsbBits n)).flatten) := by
  intro os
  induction os with
  | nil => intro c _; rfl
  | cons a os ih =>
    intro c h
    simp only [List.map_cons, List.flatten_cons] at h ⊢
    rw [reads_append] at h
    rw [after_append, lsbBlock]
    split
    rename_i q' c1 e1
    rw [lsbBits_spec n a _ _ h.1] at e1
    cases e1
    split
    rename_i qs' c2 e2
    rw [ih _ h.2] at e2
    cases e2
    refine Prod.ext ?_ rfl
    simp only [List.cons.injEq, and_true]
    exact Nat.div_add_mod' a (2 ^ n)

theorem lsbLoop_spec : ∀ (bs : List Block) (c : Dec), (∀ b ∈ bs, BlockOk b) →
    Reads c (bs.map encLsbIf).flatten →
    lsbLoop (bs.map (·.scaled)) (bs.map (·.nR)) c =
      (bs.map (fun b => b.orig.map Int.natAbs), after c (bs.map encLsbIf).flatten) := by
  intro bs
  induction bs with
  | nil => intro c _ _; rfl
  | cons b bs ih =>
    intro c hok h
    have hb := hok b (List.mem_cons_self ..)
    simp only [List.map_cons, List.flatten_cons] at h ⊢
    rw [reads_append] at h
    rw [after_append, lsbLoop]
    split
    rename_i blk c1 e1
    split
    rename_i blks c2 e2
    have key : (blk, c1) = (b.orig.map Int.natAbs, after c (encLsbIf b)) := by
      rw [← e1]
      unfold lsbBlockIf
      unfold encLsbIf at h ⊢
      have hm : b.orig.map (fun q => encLsbBits b.nR q.natAbs) = (b.orig.map Int.natAbs).map (encLsbBits b.nR) := by
        rw [List.map_map]; rfl
      by_cases hp : b.nR > 0
      · rw [if_pos hp, hm] at h
        rw [if_pos hp, if_pos hp, hm, hb.scaled]
        exact lsbBlock_spec b.nR _ _ h.1
      · rw [if_neg hp, if_neg hp]
        have h0 : b.nR = 0 := by omega
        have hsc : b.scaled = b.orig.map Int.natAbs := by
          rw [hb.scaled, h0]
          simp only [Nat.pow_zero, Nat.div_one, List.map_id']
        rw [hsc, after_nil]
    cases key
    rw [ih _ (fun b' hb' => hok b' (List.mem_cons_of_mem _ hb')) h.2] at e2
    cases e2
    rfl

/-! ### Signs -/

/-- The operations `silk_encode_signs` emits for the samples `os` of one block. -/
def signOps (icdf0 : Nat) (os : List Int) : List Op :=
  (os.filter (· ≠ 0)).map (fun q => ic (if q < 0 then 0 else 1) [icdf0, 0])

theorem sign_arith (q : Int) (hq : q ≠ 0) :
    (q.natAbs : Int) * (2 * (((if q < 0 then 0 else 1 : Nat)) : Int) - 1) = q := by
  split
  · simp only [Int.natCast_zero, Int.mul_zero, Int.zero_sub]
    omega
  · simp only [Int.natCast_one, Int.mul_one]
    omega

theorem signBlock_spec (icdf0 : Nat) : ∀ (os : List Int) (c : Dec), Reads c (signOps icdf0 os) →
    signBlock icdf0 (os.map Int.natAbs) c = (os, after c (signOps icdf0 os)) := by
  intro os
  induction os with
  | nil => intro c _; rfl
  | cons q os ih =>
    intro c h
    rw [List.map_cons, signBlock]
    split
    rename_i v c1 e1
    split
    rename_i vs c2 e2
    by_cases hq : q = 0
    · subst hq
      have hops : signOps icdf0 (0 :: os) = signOps icdf0 os := by
        simp [signOps, List.filter_cons]
      rw [hops] at h ⊢
      rw [signOne, if_neg (by decide)] at e1
      cases e1
      rw [ih _ h] at e2
      cases e2
      rfl
    · have hops : signOps icdf0 (q :: os) = ic (if q < 0 then 0 else 1) [icdf0, 0] :: signOps icdf0 os := by
        simp [signOps, List.filter_cons, hq]
      rw [hops] at h ⊢
      rw [reads_cons_append] at h
      rw [after_cons]
      have hpos : q.natAbs > 0 := by omega
      rw [signOne, if_pos hpos] at e1
      split at e1
      rename_i s c1' e0
      rw [sym_spec h.1] at e0
      cases e0
      cases e1
      rw [ih _ h.2] at e2
      cases e2
      refine Prod.ext ?_ rfl
      show _ :: _ = _ :: _
      rw [sign_arith q hq]

theorem signLoop_spec (base : Nat) : ∀ (bs : List Block) (c : Dec), (∀ b ∈ bs, BlockOk b) →
    Reads c (bs.map (encSignIf base)).flatten →
    signLoop base bs.length (bs.map (fun b => b.orig.map Int.natAbs)) (markLsb (bs.map (·.sum)) (bs.map (·.nR))) c =
      (bs.map (·.orig), after c (bs.map (encSignIf base)).flatten) := by
  intro bs
  induction bs with
  | nil => intro c _ _; rfl
  | cons b bs ih =>
    intro c hok h
    have hb := hok b (List.mem_cons_self ..)
    simp only [List.map_cons, List.flatten_cons, List.length_cons, markLsb] at h ⊢
    rw [reads_append] at h
    rw [after_append, signLoop]
    split
    rename_i blk c1 e1
    split
    rename_i blks c2 e2
    have key : (blk, c1) = (b.orig, after c (encSignIf base b)) := by
      rw [← e1]
      unfold signBlockIf
      unfold encSignIf at h ⊢
      have hle := hb.le16
      by_cases hp : b.sum > 0
      · have hp' : b.sum + 32 * b.nR > 0 := by omega
        have hm : (b.sum + 32 * b.nR) % 32 = b.sum % 32 := Nat.add_mul_mod_self_left ..
        rw [if_pos hp] at h
        rw [if_pos hp, if_pos hp', hm]
        exact signBlock_spec _ _ _ h.1
      · have hz := hb.zero (by omega)
        have hp' : ¬ (b.sum + 32 * b.nR > 0) := by rw [hz.1]; omega
        rw [if_neg hp, if_neg hp', after_nil, hz.2.2]
        have : (List.map Int.natAbs (List.replicate 16 (0 : Int))).map (fun (q : Nat) => (q : Int)) = List.replicate 16 0 := by
          decide
        rw [this]
    cases key
    rw [ih _ (fun b' hb' => hok b' (List.mem_cons_of_mem _ hb')) h.2] at e2
    cases e2
    rfl

/-! ### silk_decode_pulses -/

theorem decodePulses_core {sig qoff frameLen rl : Nat} (bs : List Block) (hok : ∀ b ∈ bs, BlockOk b)
    (hn1 : shellBlocks frameLen = bs.length) (hn2 : (frameLen + 8) / 16 = bs.length) {d : Dec}
    (h : Reads d (ic rl (silk_rate_levels_iCDF.getD (sig / 2) []) ::
      ((bs.map (encSum rl)).flatten ++ (bs.map encShellIf).flatten ++ (bs.map encLsbIf).flatten ++
       (bs.map (encSignIf (7 * (qoff + 2 * sig)))).flatten))) :
    decodePulses sig qoff frameLen d =
      ({ rateLevel := rl, sumPulses := bs.map (·.sum), nLshifts := bs.map (·.nR),
         absBlocks := bs.map (fun b => b.orig.map Int.natAbs), signed := bs.map (·.orig) },
       after d (ic rl (silk_rate_levels_iCDF.getD (sig / 2) []) ::
      ((bs.map (encSum rl)).flatten ++ (bs.map encShellIf).flatten ++ (bs.map encLsbIf).flatten ++
       (bs.map (encSignIf (7 * (qoff + 2 * sig)))).flatten))) := by
  rw [reads_cons_append, reads_append, reads_append, reads_append] at h
  rcases h with ⟨h0, ⟨⟨h1, h2⟩, h3⟩, h4⟩
  rw [after_append, after_append] at h4
  rw [after_append] at h3
  rw [after_cons, after_append, after_append, after_append]
  unfold decodePulses
  rw [hn1, hn2]
  split
  rename_i rl' c1 e0
  rw [sym_spec h0] at e0
  cases e0
  split
  rename_i sps ns c2 e1
  rw [sumPulsesLoop_spec _ _ _ hok h1] at e1
  cases e1
  split
  rename_i sh c3 e2
  rw [shellLoop_spec _ _ hok h2] at e2
  cases e2
  split
  rename_i ab c4 e3
  rw [lsbLoop_spec _ _ hok h3] at e3
  cases e3
  split
  rename_i sg c5 e4
  rw [signLoop_spec _ _ _ hok h4] at e4
  cases e4
  rfl

/-- `silk_decode_pulses` inverts `silk_encode_pulses`. -/
theorem decodePulses_spec {sig qoff frameLen : Nat} {pulses : List Int} {d : Dec}
    (hp : PulsesOk frameLen pulses) (hfl : (frameLen + 8) / 16 = shellBlocks frameLen)
    (h : Reads d (encodePulses sig qoff frameLen pulses)) :
    decodePulses sig qoff frameLen d =
      (pulsesView sig frameLen pulses, after d (encodePulses sig qoff frameLen pulses)) := by
  have hok := pulseBlocks_ok hp
  have hlen := pulseBlocks_length frameLen pulses
  have ht : (pulseBlocks frameLen pulses).take ((frameLen + 8) / 16) = pulseBlocks frameLen pulses := by
    rw [hfl, ← hlen, List.take_length]
  have he : encodePulses sig qoff frameLen pulses =
      ic (rateLevel sig (pulseBlocks frameLen pulses)) (silk_rate_levels_iCDF.getD (sig / 2) []) ::
      (((pulseBlocks frameLen pulses).map (encSum (rateLevel sig (pulseBlocks frameLen pulses)))).flatten ++
       ((pulseBlocks frameLen pulses).map encShellIf).flatten ++ ((pulseBlocks frameLen pulses).map encLsbIf).flatten ++
       ((pulseBlocks frameLen pulses).map (encSignIf (7 * (qoff + 2 * sig)))).flatten) := by
    unfold encodePulses
    simp only [ht]
  rw [he] at h ⊢
  exact decodePulses_core _ hok hlen.symm (by rw [hfl, hlen]) h

/-! ### Legality -/

theorem encSplit_legal {a p : Nat} {tbl : List Nat} (ha : a ≤ p) (hp : p ≤ 16)
    (ht : ∀ p, p < 17 → 1 ≤ p → Tab (tbl.drop (silk_shell_code_table_offsets.getD p 0)) (p + 1)) :
    IcLegal (encSplit a p tbl) := by
  unfold encSplit
  split
  · exact icLegal_ic (ht p (by omega) (by omega)) (by omega)
  · exact icLegal_nil

theorem encQuarter_legal {q : List Nat} (hq : q.length = 4) (hs : q.sum ≤ 16) : IcLegal (encQuarter q) := by
  obtain ⟨b1, b2, d1, d2, rfl⟩ := list4 hq
  rw [sum4] at hs
  simp only [encQuarter]
  exact icLegal_append (icLegal_append (encSplit_legal (by omega) (by omega) tab_shell1)
    (encSplit_legal (by omega) (by omega) tab_shell0)) (encSplit_legal (by omega) (by omega) tab_shell0)

theorem sum_take_drop (l : List Nat) (n : Nat) : l.sum = (l.take n).sum + (l.drop n).sum := by
  conv => lhs; rw [← List.take_append_drop n l]
  rw [List.sum_append]

theorem encHalf_legal {l : List Nat} (hl : l.length = 8) (hs : l.sum ≤ 16) : IcLegal (encHalf l) := by
  have := sum_take_drop l 4
  unfold encHalf
  exact icLegal_append (icLegal_append (encSplit_legal (by omega) (by omega) tab_shell2)
    (encQuarter_legal (by rw [List.length_take]; omega) (by omega)))
    (encQuarter_legal (by rw [List.length_drop]; omega) (by omega))

theorem encShell_legal {l : List Nat} (hl : l.length = 16) (hs : l.sum ≤ 16) : IcLegal (encShell l) := by
  have := sum_take_drop l 8
  unfold encShell
  exact icLegal_append (icLegal_append (encSplit_legal (by omega) (by omega) tab_shell3)
    (encHalf_legal (by rw [List.length_take]; omega) (by omega)))
    (encHalf_legal (by rw [List.length_drop]; omega) (by omega))

theorem encLsbBits_legal : ∀ (n a : Nat), IcLegal (encLsbBits n a)
  | 0, _ => icLegal_nil
  | n + 1, a => icLegal_cons (icLegal_ic tab_lsb (Nat.mod_lt _ (by decide))) (encLsbBits_legal n a)

theorem icLegal_map_flatten {α : Type} (f : α → List Op) (l : List α) (h : ∀ x ∈ l, IcLegal (f x)) :
    IcLegal (l.map f).flatten := by
  apply icLegal_flatten
  intro ops hops
  rw [List.mem_map] at hops
  rcases hops with ⟨x, hx, rfl⟩
  exact h x hx

/-- Under `PulsesOk` every operation `silk_encode_pulses` emits is a legal `ec_enc_icdf`. -/
theorem encodePulses_legal {sig qoff frameLen : Nat} {pulses : List Int} (hp : PulsesOk frameLen pulses)
    (hsig : sig ≤ 2) (hq : qoff ≤ 1) : IcLegal (encodePulses sig qoff frameLen pulses) := by
  have hok := pulseBlocks_ok hp
  unfold encodePulses
  simp only
  generalize pulseBlocks frameLen pulses = bs at *
  have hrl := rateLevel_lt sig bs
  refine icLegal_cons (icLegal_ic (tab_rateLevels _ (by omega)) hrl) (icLegal_append (icLegal_append (icLegal_append
    (icLegal_map_flatten _ _ ?_) (icLegal_map_flatten _ _ ?_)) (icLegal_map_flatten _ _ ?_)) (icLegal_map_flatten _ _ ?_))
  · intro b hb
    have ok := hok b hb
    have hle := ok.le16
    unfold encSum
    split
    · exact icLegal_ic (tab_ppb _ (by omega)) (by omega)
    · exact icLegal_cons (icLegal_ic (tab_ppb _ (by omega)) (by decide))
        (icLegal_append (icLegal_replicate _ (icLegal_ic (tab_ppb 9 (by decide)) (by decide)))
          (icLegal_ic (tab_ppb 9 (by decide)) (by omega)))
  · intro b hb
    have ok := hok b hb
    unfold encShellIf
    split
    · exact encShell_legal ok.lenS (by rw [← ok.sum]; exact ok.le16)
    · exact icLegal_nil
  · intro b hb
    unfold encLsbIf
    split
    · exact icLegal_map_flatten _ _ (fun q _ => encLsbBits_legal _ _)
    · exact icLegal_nil
  · intro b hb
    unfold encSignIf
    split
    · intro op hop
      rw [List.mem_map] at hop
      rcases hop with ⟨q, _, rfl⟩
      have hi : 7 * (qoff + 2 * sig) + min (b.sum % 32) 6 < 42 := by
        have : min (b.sum % 32) 6 ≤ 6 := Nat.min_le_right ..
        omega
      exact icLegal_ic (tab_sign _ hi) (by split <;> decide) _ (List.mem_singleton.mpr rfl)
    · exact icLegal_nil

end Opus.SilkSymsEncProofs
