import OpusProofs.SilkSynthIdxFrame
/-
  OpusProofs.SilkSynthIdxHist — silk_PLC_update, silk_CNG, the outBuf shift; one whole
  silk_decode_frame call; preservation of the state invariant; every history.
-/
namespace Opus.SilkSynthIdx
open Opus Opus.Gen Opus.SilkParams

set_option hygiene false in
local macro "leaf2" : tactic =>
  `(tactic| (intro _; simp only [Arr.size, hS, hL, hO, hframe, c1, c2, c3, c4, c5, c6, c7, c8, c9, c10, c11, c12, c13, c14, c15,
      d1, d2, d3, d4, d5, d6, d7, d8, d9, d10, d11]; omega))

/-! ### silk_PLC_update -/

theorem updLoop_ok (c : Cfg) (hc : CfgNum c) (pitchL ltp : List Int)
    (hl : ∀ k : Nat, k < c.nbSubfr → 2 * c.fsKHz ≤ pitchL.getD k 0 ∧ pitchL.getD k 0 ≤ 18 * c.fsKHz) :
    ∀ (fuel : Nat) (j best p : Int), 0 ≤ j → j ≤ c.nbSubfr → 2 * c.fsKHz * 256 ≤ p → p ≤ 18 * c.fsKHz * 256 →
    AllIn c (updLoop c.nbSubfr c.subfr pitchL ltp fuel j best p).1 ∧
    2 * c.fsKHz * 256 ≤ (updLoop c.nbSubfr c.subfr pitchL ltp fuel j best p).2.2 ∧
    (updLoop c.nbSubfr c.subfr pitchL ltp fuel j best p).2.2 ≤ 18 * c.fsKHz * 256 := by
  obtain ⟨hcase, hframe, hnb⟩ := hc
  obtain ⟨c1, c2, c3, c4, c5, c6, c7, c8, c9, c10, c11, c12, c13, c14, c15⟩ := consts
  obtain ⟨d1, d2, d3, d4, d5, d6, d7, d8, d9, d10, d11⟩ := consts2
  have hnbI : (c.nbSubfr : Int) = 2 ∨ (c.nbSubfr : Int) = 4 := by rcases hnb with h' | h' <;> omega
  have hS : (0 : Int) = 0 := rfl
  have hL : (0 : Int) = 0 := rfl
  have hO : (0 : Int) = 0 := rfl
  intro fuel
  induction fuel with
  | zero => intro j best p _ _ h0 h1; exact ⟨allIn_nil _, h0, h1⟩
  | succ fuel ih =>
    intro j best p hj0 hj1 h0 h1
    unfold updLoop
    simp only
    have hcond : AllIn c (rd .pitchL ((c.nbSubfr : Int) - 1) (c.nbSubfr : Int)) := by
      apply allIn_rd; intro _; simp only [Arr.size, c9]; omega
    split
    · exact ⟨hcond, h0, h1⟩
    · split
      · exact ⟨hcond, h0, h1⟩
      · rename_i hjn
        have hjlt : j < c.nbSubfr := by omega
        have hbody : AllIn c (rd .ltpCoef (((c.nbSubfr : Int) - 1 - j) * SilkSynth.ltpOrder)
            (((c.nbSubfr : Int) - 1 - j) * SilkSynth.ltpOrder + SilkSynth.ltpOrder)) := by
          apply allIn_rd; intro _; simp only [Arr.size, c3, c7]; omega
        split
        · have hk : ((c.nbSubfr : Int) - 1 - j).toNat < c.nbSubfr := by omega
          have hlk := hl _ hk
          have hr := ih (j + 1) (sumRange ltp (((c.nbSubfr : Int) - 1 - j) * SilkSynth.ltpOrder) SilkSynth.ltpOrder.toNat)
            (pitchL.getD ((c.nbSubfr : Int) - 1 - j).toNat 0 * 256) (by omega) (by omega)
            (by omega) (by omega)
          refine ⟨?_, hr.2.1, hr.2.2⟩
          refine allIn_append (allIn_append (allIn_append (allIn_append (allIn_append hcond hbody) hbody) ?_) ?_) hr.1
          · apply allIn_wrt; intro _; simp only [Arr.size, c3, d4]; omega
          · apply allIn_rd; intro _; simp only [Arr.size, c9]; omega
        · have hr := ih (j + 1) best p (by omega) (by omega) h0 h1
          exact ⟨allIn_append (allIn_append hcond hbody) hr.1, hr.2.1, hr.2.2⟩

theorem updateAccesses_ok (s : DecSt) (hcfg : Configured s) (signalType : Int) (pitchL ltp : List Int)
    (hp : 2 * s.fsKHz * 256 ≤ s.pitchLQ8 ∧ s.pitchLQ8 ≤ 18 * s.fsKHz * 256)
    (hl : signalType = 2 → ∀ k : Nat, k < s.nbSubfr → 2 * s.fsKHz ≤ pitchL.getD k 0 ∧ pitchL.getD k 0 ≤ 18 * s.fsKHz) :
    AllIn s.cfg (updateAccesses s signalType pitchL ltp).1 ∧
    2 * s.fsKHz * 256 ≤ (updateAccesses s signalType pitchL ltp).2 ∧
    (updateAccesses s signalType pitchL ltp).2 ≤ 18 * s.fsKHz * 256 := by
  have hc : CfgNum s.cfg := cfgOf_num s.fsKHz s.nbSubfr hcfg.1 hcfg.2
  have hcfs : s.cfg.fsKHz = s.fsKHz := rfl
  have hcnb : s.cfg.nbSubfr = s.nbSubfr := rfl
  have hc' := hc
  obtain ⟨hcase, hframe, hnb⟩ := hc'
  obtain ⟨c1, c2, c3, c4, c5, c6, c7, c8, c9, c10, c11, c12, c13, c14, c15⟩ := consts
  obtain ⟨d1, d2, d3, d4, d5, d6, d7, d8, d9, d10, d11⟩ := consts2
  unfold updateAccesses
  simp only
  generalize hcdef : s.cfg = c at *
  have hnbI : (c.nbSubfr : Int) = 2 ∨ (c.nbSubfr : Int) = 4 := by rcases hnb with h' | h' <;> omega
  have htail : AllIn c (rd .predCoef SilkSynth.szPredCoefCols (SilkSynth.szPredCoefCols + c.lpcOrder) ++ wrt .prevLPC 0 c.lpcOrder ++
      rd .gains ((c.nbSubfr : Int) - 2) (c.nbSubfr : Int) ++ wrt .prevGain 0 2) := by
    rcases hcase with ⟨hF, hS, hL, hO⟩ | ⟨hF, hS, hL, hO⟩ | ⟨hF, hS, hL, hO⟩ <;>
    · refine allIn_append (allIn_append (allIn_append ?_ ?_) ?_) ?_
      · apply allIn_rd; leaf2
      · apply allIn_wrt; leaf2
      · apply allIn_rd; intro _; simp only [Arr.size, c8]; omega
      · apply allIn_wrt; leaf2
  have hw5 : AllIn c (wrt .plcLtp 0 SilkSynth.ltpOrder) := by
    apply allIn_wrt; intro _; simp only [Arr.size, c3, d4]; omega
  have hr5 : AllIn c (rd .plcLtp 0 SilkSynth.ltpOrder) := by
    apply allIn_rd; intro _; simp only [Arr.size, c3, d4]; omega
  rw [c1]
  split
  · rename_i hsig
    have hlk : ∀ k : Nat, k < c.nbSubfr → 2 * c.fsKHz ≤ pitchL.getD k 0 ∧ pitchL.getD k 0 ≤ 18 * c.fsKHz := by
      intro k hk; rw [hcfs]; exact hl hsig k (by rw [← hcnb]; exact hk)
    have hu := updLoop_ok c hc pitchL ltp hlk (c.nbSubfr + 1) 0 0 s.pitchLQ8 (by omega) (by omega)
      (by rw [hcfs]; exact hp.1) (by rw [hcfs]; exact hp.2)
    rw [hcfs] at hu
    refine ⟨?_, hu.2.1, hu.2.2⟩
    refine allIn_append (allIn_append (allIn_append hu.1 hw5) ?_) htail
    apply allIn_ite
    · intro _; exact allIn_append hr5 hw5
    · intro _; exact allIn_nil _
  · refine ⟨allIn_append hw5 htail, ?_, ?_⟩ <;> rw [d3, hcfs] <;> omega

/-! ### silk_CNG -/

theorem argMaxGain_lt : ∀ (l : List Int) (i : Nat) (m : Int) (best : Nat),
    argMaxGain l i m best < max (best + 1) (i + l.length) := by
  intro l
  induction l with
  | nil => intro i m best; simp [argMaxGain]; omega
  | cons g gs ih =>
    intro i m best
    unfold argMaxGain
    split
    · have := ih (i + 1) g i; simp only [List.length_cons]; omega
    · have := ih (i + 1) m best; simp only [List.length_cons]; omega

theorem cngMask_range (n : Int) : 0 ≤ cngMask n ∧ cngMask n ≤ 255 := by
  unfold cngMask; repeat' split <;> omega

theorem cngAccesses_ok (s : DecSt) (hcfg : Configured s) (gains : List Int) :
    AllIn s.cfg (cngAccesses s gains).1 := by
  have hc : CfgNum s.cfg := cfgOf_num s.fsKHz s.nbSubfr hcfg.1 hcfg.2
  obtain ⟨hcase, hframe, hnb⟩ := hc
  obtain ⟨c1, c2, c3, c4, c5, c6, c7, c8, c9, c10, c11, c12, c13, c14, c15⟩ := consts
  obtain ⟨d1, d2, d3, d4, d5, d6, d7, d8, d9, d10, d11⟩ := consts2
  unfold cngAccesses
  simp only
  generalize hcdef : s.cfg = c at *
  have hnbI : (c.nbSubfr : Int) = 2 ∨ (c.nbSubfr : Int) = 4 := by rcases hnb with h' | h' <;> omega
  have hsub : (argMaxGain (gains.take c.nbSubfr) 0 0 0 : Int) + 1 ≤ (c.nbSubfr : Int) := by
    have h1 := argMaxGain_lt (gains.take c.nbSubfr) 0 0 0
    have h2 : (gains.take c.nbSubfr).length ≤ c.nbSubfr := by simp [List.length_take]; omega
    omega
  have hsub0 : 0 ≤ (argMaxGain (gains.take c.nbSubfr) 0 0 0 : Int) := Int.natCast_nonneg _
  generalize (argMaxGain (gains.take c.nbSubfr) 0 0 0 : Int) = sub at hsub hsub0
  have hmask := cngMask_range c.frameLen
  rcases hcase with ⟨hF, hS, hL, hO⟩ | ⟨hF, hS, hL, hO⟩ | ⟨hF, hS, hL, hO⟩ <;>
  · have ha0 : AllIn c (if s.fsKHz ≠ s.cngFs then wrt .cngSmthNlsf 0 c.lpcOrder else []) := by
      apply allIn_ite
      · intro _; apply allIn_wrt; leaf2
      · intro _; exact allIn_nil _
    split
    · rename_i hloss
      have hrr := randRun_range 24 (cngMask c.frameLen) hmask.1 c.frameLen.toNat
        (if s.fsKHz ≠ s.cngFs then 3176576 else s.cngSeed) none (by intro _ _ h; cases h)
      refine allIn_append (allIn_append (allIn_append (allIn_append (allIn_append (allIn_append (allIn_append (allIn_append (allIn_append (allIn_append (allIn_append (allIn_append (allIn_append (allIn_append (allIn_append ha0 ?_) ?_) ?_) ?_) ?_) ?_) ?_) ?_) ?_) ?_) ?_) ?_) ?_) ?_) ?_
      · apply allIn_ite
        · intro hupd; exact absurd hupd.1 hloss
        · intro _; exact allIn_nil _
      · apply allIn_rd; leaf2
      · exact allIn_rdExt hrr (by omega) (by simp only [Arr.size, d7]; omega)
      · apply allIn_wrt; intro _; simp only [Arr.size, hS, hframe, c4]; omega
      · apply allIn_rd; leaf2
      · apply allIn_wrt; leaf2
      · apply allIn_rd; leaf2
      · apply allIn_wrt; intro _; simp only [Arr.size, hS, hframe, c4]; rcases hnbI with h' | h' <;> rw [h'] <;> omega
      · apply allIn_rd; intro _; simp only [Arr.size, hS, hO, hframe, c4]; omega
      · apply allIn_rd; leaf2
      · apply allIn_wrt; intro _; simp only [Arr.size, hS, hframe, c4]; omega
      · apply allIn_rd; intro _; simp only [Arr.size, hS, hframe]; omega
      · apply allIn_wrt; intro _; simp only [Arr.size, hS, hframe]; omega
      · apply allIn_rd; intro _; simp only [Arr.size, hS, hframe, c4]; omega
      · apply allIn_wrt; leaf2
    · refine allIn_append (allIn_append ha0 ?_) ?_
      · apply allIn_ite
        · intro _
          refine allIn_append (allIn_append (allIn_append (allIn_append (allIn_append (allIn_append (allIn_append ?_ ?_) ?_) ?_) ?_) ?_) ?_) ?_
          · apply allIn_rd; leaf2
          · apply allIn_rd; leaf2
          · apply allIn_wrt; leaf2
          · apply allIn_rd; intro _; simp only [Arr.size, c8]; omega
          · apply allIn_rd; intro _; simp only [Arr.size, hS, d7]; rcases hnbI with h' | h' <;> rw [h'] <;> omega
          · apply allIn_wrt; intro _; simp only [Arr.size, hS, d7]; rcases hnbI with h' | h' <;> rw [h'] <;> omega
          · apply allIn_rd; intro hlt; simp only [Arr.size, hS, c10] at hlt ⊢; rcases hnbI with h' | h' <;> rw [h'] at hsub <;> omega
          · apply allIn_wrt; leaf2
        · intro _; exact allIn_nil _
      · apply allIn_wrt; leaf2

/-! ### the outBuf shift -/

theorem shiftAccesses_ok (c : Cfg) (hc : CfgNum c) : AllIn c (shiftAccesses c) := by
  obtain ⟨hcase, hframe, hnb⟩ := hc
  obtain ⟨c1, c2, c3, c4, c5, c6, c7, c8, c9, c10, c11, c12, c13, c14, c15⟩ := consts
  have hnbI : (c.nbSubfr : Int) = 2 ∨ (c.nbSubfr : Int) = 4 := by rcases hnb with h' | h' <;> omega
  unfold shiftAccesses
  simp only
  rcases hcase with ⟨hF, hS, hL, hO⟩ | ⟨hF, hS, hL, hO⟩ | ⟨hF, hS, hL, hO⟩ <;>
  · refine allIn_append (allIn_append (allIn_append ?_ ?_) ?_) ?_
    · apply allIn_rd; intro _; simp only [Arr.size, hS, hL, hframe, c11]; rcases hnbI with h' | h' <;> rw [h'] <;> omega
    · apply allIn_wrt; intro _; simp only [Arr.size, hS, hL, hframe, c11]; rcases hnbI with h' | h' <;> rw [h'] <;> omega
    · apply allIn_rd; intro _; simp only [Arr.size, hS, hL, hframe]; rcases hnbI with h' | h' <;> rw [h'] <;> omega
    · apply allIn_wrt; intro _; simp only [Arr.size, hS, hL, hframe, c11]; rcases hnbI with h' | h' <;> rw [h'] <;> omega

/-! ### one silk_decode_frame call -/

/-- What the bit-stream layer and the parameter decoder guarantee about one frame. -/
structure FrameOk (s : DecSt) (f : FrameIn) : Prop where
  sig : 0 ≤ f.signalType ∧ f.signalType ≤ 2
  qoff : 0 ≤ f.quantOffsetType ∧ f.quantOffsetType ≤ 1
  /-- a decoded voiced frame carries legal lags (C18 `pitch_in_range`) -/
  lags : f.lost = false → f.signalType = 2 → ∀ k, k < s.nbSubfr →
    2 * s.fsKHz ≤ f.pitchL.getD k 0 ∧ f.pitchL.getD k 0 ≤ 18 * s.fsKHz

def FrameAcc.all (a : FrameAcc) : List Acc := a.core ++ a.plc ++ a.top ++ a.cng ++ a.glue

theorem plcReset_ok (s : DecSt) (hcfg : Configured s) (hinv : Inv s) :
    AllIn s.cfg (plcResetIfNeeded s).1 ∧ (plcResetIfNeeded s).2.fsKHz = s.fsKHz ∧
    (plcResetIfNeeded s).2.nbSubfr = s.nbSubfr ∧ (plcResetIfNeeded s).2.lossCnt = s.lossCnt ∧
    (plcResetIfNeeded s).2.prevSignalType = s.prevSignalType ∧ (plcResetIfNeeded s).2.lagPrev = s.lagPrev ∧
    (plcResetIfNeeded s).2.plcFs = s.fsKHz ∧
    (2 * s.fsKHz * 256 ≤ (plcResetIfNeeded s).2.pitchLQ8 ∧ (plcResetIfNeeded s).2.pitchLQ8 ≤ 18 * s.fsKHz * 256) ∧
    ((plcResetIfNeeded s).2.plcNb = 2 ∨ (plcResetIfNeeded s).2.plcNb = 4) ∧
    (0 ≤ (plcResetIfNeeded s).2.plcSubfr ∧ (plcResetIfNeeded s).2.plcSubfr ≤ 80) := by
  obtain ⟨d1, d2, d3, d4, d5, d6, d7, d8, d9, d10, d11⟩ := consts2
  unfold plcResetIfNeeded
  split
  · dsimp only
    refine ⟨?_, rfl, rfl, rfl, rfl, rfl, rfl, ?_, Or.inl rfl, by decide⟩
    · apply allIn_wrt; intro _; simp only [Arr.size, d6]; omega
    · show 2 * s.fsKHz * 256 ≤ s.cfg.frameLen * 128 ∧ s.cfg.frameLen * 128 ≤ 18 * s.fsKHz * 256
      have hc : CfgNum s.cfg := cfgOf_num s.fsKHz s.nbSubfr hcfg.1 hcfg.2
      have hfs : s.cfg.fsKHz = s.fsKHz := rfl
      obtain ⟨hcase, hframe, hnb⟩ := hc
      rw [hframe, ← hfs]
      rcases hcase with ⟨hF, hS, _⟩ | ⟨hF, hS, _⟩ | ⟨hF, hS, _⟩ <;> rw [hF, hS] <;> rcases hnb with h' | h' <;> rw [h'] <;> decide
  · rename_i heq
    have heq' : s.fsKHz = s.plcFs := by
      apply Decidable.byContradiction; intro h; exact heq h
    have hp := hinv.pitch
    rw [← heq'] at hp
    exact ⟨allIn_nil _, rfl, rfl, rfl, rfl, rfl, heq'.symm, hp, hinv.plcNb, hinv.plcSubfr⟩

theorem pitchAfterCore_voiced (x : CoreIn) (h : x.signalType = 2) (k : Nat) (hk : k < 4) :
    (pitchAfterCore x).getD k 0 = x.pitchL.getD k 0 := by
  have ht : ∀ j, transition x j = false := by
    intro j
    unfold transition
    rw [consts.1, h]
    simp
  unfold pitchAfterCore
  match k, hk with
  | 0, _ => simp [ht]
  | 1, _ => simp [ht, List.range_succ]
  | 2, _ => simp [ht, List.range_succ]
  | 3, _ => simp [ht, List.range_succ]

theorem cfg_eq_of (s t : DecSt) (h1 : t.fsKHz = s.fsKHz) (h2 : t.nbSubfr = s.nbSubfr) : t.cfg = s.cfg := by
  unfold DecSt.cfg; rw [h1, h2]

/-- One call of silk_decode_frame on a configured decoder whose state satisfies the invariant: no
    assertion fires, every access of every phase is in bounds, and the invariant holds again. -/
theorem frameStep_ok (s : DecSt) (f : FrameIn) (hcfg : Configured s) (hinv : Inv s) (hf : FrameOk s f) :
    (frameStep s f).1.aborted = false ∧ AllIn s.cfg (frameStep s f).1.all ∧
    Inv (frameStep s f).2 ∧ (frameStep s f).2.fsKHz = s.fsKHz ∧ (frameStep s f).2.nbSubfr = s.nbSubfr := by
  have hc : CfgNum s.cfg := cfgOf_num s.fsKHz s.nbSubfr hcfg.1 hcfg.2
  have hr := plcReset_ok s hcfg hinv
  obtain ⟨hr1, hrfs, hrnb, hrloss, hrprev, hrlag, hrplc, hrpitch, hrnbp, hrsub⟩ := hr
  have hrcfg : (plcResetIfNeeded s).2.cfg = s.cfg := cfg_eq_of _ _ hrfs hrnb
  have hshift := shiftAccesses_ok s.cfg hc
  have hpl : AllIn s.cfg (rd .pitchL ((s.cfg.nbSubfr : Int) - 1) (s.cfg.nbSubfr : Int)) := by
    apply allIn_rd; intro _; simp only [Arr.size, consts.2.2.2.2.2.2.2.2.1]
    have : s.cfg.nbSubfr = 2 ∨ s.cfg.nbSubfr = 4 := hc.nb
    omega
  have hxq : AllIn s.cfg (rd .xq 0 s.cfg.frameLen) := by
    apply allIn_rd; intro _; simp only [Arr.size]; omega
  unfold frameStep
  simp only
  cases hlost : f.lost
  · -- a decoded frame
    simp only [Bool.false_eq_true, not_false_eq_true, if_true]
    have hx : CoreOk (coreInOf s f) :=
      { fs := hcfg.1, nb := hcfg.2, sig := hf.sig, qoff := hf.qoff, lags := hf.lags hlost,
        lagPrev := fun h1 h2 _ => hinv.lagPrev h2 h1 }
    have hcore := coreAccesses_ok _ hx
    generalize hxdef : coreInOf s f = x at *
    have hxsig : x.signalType = f.signalType := by rw [← hxdef]; rfl
    have hxcfg : x.cfg = s.cfg := by rw [← hxdef]; rfl
    rw [if_neg (by rw [hcore.1]; simp)]
    have hcfgr : Configured (plcResetIfNeeded s).2 := by unfold Configured; rw [hrfs, hrnb]; exact hcfg
    have hu := updateAccesses_ok (plcResetIfNeeded s).2 hcfgr f.signalType (pitchAfterCore x) f.ltpCoef
      (by rw [hrfs]; exact hrpitch)
      (by intro hs k hk
          rw [hrfs]; rw [hrnb] at hk
          rw [pitchAfterCore_voiced x (by rw [hxsig]; exact hs) k (by rcases hcfg.2 with h | h <;> omega)]
          have : x.pitchL = f.pitchL := by rw [← hxdef]; rfl
          rw [this]
          exact hf.lags hlost hs k hk)
    rw [hrcfg, hrfs] at hu
    generalize hudef : updateAccesses (plcResetIfNeeded s).2 f.signalType (pitchAfterCore x) f.ltpCoef = u at hu
    -- the state seen by silk_CNG
    generalize hs1def : stAfterUpdate (plcResetIfNeeded s).2 s.cfg u.2 f.signalType = s1
    have hs1fs : s1.fsKHz = s.fsKHz := by rw [← hs1def]; exact hrfs
    have hs1nb : s1.nbSubfr = s.nbSubfr := by rw [← hs1def]; exact hrnb
    have hs1cfg : s1.cfg = s.cfg := cfg_eq_of _ _ hs1fs hs1nb
    have hcfg1 : Configured s1 := by unfold Configured; rw [hs1fs, hs1nb]; exact hcfg
    have hg := cngAccesses_ok s1 hcfg1 f.gains
    rw [hs1cfg] at hg
    refine ⟨rfl, ?_, ?_, ?_, ?_⟩
    · unfold FrameAcc.all
      simp only
      refine allIn_append (allIn_append (allIn_append (allIn_append (fun e he => by rw [← hxcfg]; exact hcore.2 e he) (allIn_append hr1 hu.1))
        (allIn_append hshift hpl)) hg) ?_
      apply allIn_ite
      · intro _
        refine allIn_append hxq ?_
        apply allIn_wrt; intro _; simp only [Arr.size]; omega
      · intro _; exact allIn_nil _
    · -- invariant
      have hS : 0 ≤ s.cfg.subfr ∧ s.cfg.subfr ≤ 80 := by
        rcases hc.cases with ⟨_, h, _⟩ | ⟨_, h, _⟩ | ⟨_, h, _⟩ <;> omega
      have hN : (s.cfg.nbSubfr : Int) = 2 ∨ (s.cfg.nbSubfr : Int) = 4 := by rcases hc.nb with h | h <;> omega
      have e1 : s1.lossCnt = 0 := by rw [← hs1def]; rfl
      have e2 : s1.plcFs = s.fsKHz := by rw [← hs1def]; exact hrplc
      have e3 : s1.pitchLQ8 = u.2 := by rw [← hs1def]; rfl
      have e4 : s1.plcNb = (s.cfg.nbSubfr : Int) := by rw [← hs1def]; rfl
      have e5 : s1.plcSubfr = s.cfg.subfr := by rw [← hs1def]; rfl
      exact { loss := by show 0 ≤ s1.lossCnt; omega,
              lagPrev := fun _ h => absurd (show s1.lossCnt = 0 from e1) h,
              pitch := by show 2 * s1.plcFs * 256 ≤ s1.pitchLQ8 ∧ s1.pitchLQ8 ≤ 18 * s1.plcFs * 256
                          rw [e2, e3]; exact ⟨hu.2.1, hu.2.2⟩,
              plcNb := by show s1.plcNb = 2 ∨ s1.plcNb = 4; rw [e4]; exact hN,
              plcSubfr := by show 0 ≤ s1.plcSubfr ∧ s1.plcSubfr ≤ 80; rw [e5]; exact hS }
    · exact hs1fs
    · exact hs1nb
  · -- a concealed frame
    simp only [not_true_eq_false, if_false]
    have hco : ConcealOk (plcResetIfNeeded s).2 :=
      { cfg := by unfold Configured; rw [hrfs, hrnb]; exact hcfg,
        loss := by rw [hrloss]; exact hinv.loss,
        pitch := by rw [hrfs]; exact hrpitch,
        plcNb := hrnbp, plcSubfr := hrsub }
    have hcc := concealAccesses_ok (plcResetIfNeeded s).2 hco f.lowFirst
    rw [hrcfg, hrfs] at hcc
    generalize hccdef : concealAccesses (plcResetIfNeeded s).2 f.lowFirst = cc at hcc
    rw [if_neg (by rw [hcc.1]; simp)]
    generalize hs1def : stAfterConceal (plcResetIfNeeded s).2 cc.2.2.1 cc.2.2.2.1 (s.lossCnt + 1) = s1
    have hs1fs : s1.fsKHz = s.fsKHz := by rw [← hs1def]; exact hrfs
    have hs1nb : s1.nbSubfr = s.nbSubfr := by rw [← hs1def]; exact hrnb
    have hs1cfg : s1.cfg = s.cfg := cfg_eq_of _ _ hs1fs hs1nb
    have hcfg1 : Configured s1 := by unfold Configured; rw [hs1fs, hs1nb]; exact hcfg
    have hg := cngAccesses_ok s1 hcfg1 f.gains
    rw [hs1cfg] at hg
    refine ⟨rfl, ?_, ?_, hs1fs, hs1nb⟩
    · unfold FrameAcc.all
      simp only
      exact allIn_append (allIn_append (allIn_append (allIn_append (allIn_nil _) (allIn_append hr1 hcc.2.1))
        (allIn_append hshift hpl)) hg) hxq
    · have e1 : s1.lossCnt = s.lossCnt + 1 := by rw [← hs1def]; rfl
      have e2 : s1.plcFs = s.fsKHz := by rw [← hs1def]; exact hrplc
      have e3 : s1.pitchLQ8 = cc.2.2.1 := by rw [← hs1def]; rfl
      have e4 : s1.plcNb = (plcResetIfNeeded s).2.plcNb := by rw [← hs1def]; rfl
      have e5 : s1.plcSubfr = (plcResetIfNeeded s).2.plcSubfr := by rw [← hs1def]; rfl
      have hl0 := hinv.loss
      exact { loss := by show 0 ≤ s1.lossCnt; omega,
              lagPrev := fun _ _ => by
                show 2 * s1.fsKHz ≤ cc.2.2.2.2 ∧ cc.2.2.2.2 ≤ 18 * s1.fsKHz
                rw [hs1fs]; exact ⟨hcc.2.2.2.2.1, hcc.2.2.2.2.2⟩,
              pitch := by show 2 * s1.plcFs * 256 ≤ s1.pitchLQ8 ∧ s1.pitchLQ8 ≤ 18 * s1.plcFs * 256
                          rw [e2, e3]; exact ⟨hcc.2.2.1, hcc.2.2.2.1⟩,
              plcNb := by show s1.plcNb = 2 ∨ s1.plcNb = 4; rw [e4]; exact hrnbp,
              plcSubfr := by show 0 ≤ s1.plcSubfr ∧ s1.plcSubfr ≤ 80; rw [e5]; exact hrsub }

/-! ### every history -/

/-- One event of a decoder history. -/
def step (s : DecSt) : Ev → DecSt
  | .reset => resetSt
  | .setFs fs nb => setFs s fs nb
  | .sideReset => sideReset s
  | .frame f => (frameStep s f).2

/-- What the callers (dec_API.c) guarantee for each event: rate and frame size are legal, and frames are
    decoded only on a configured decoder, with parameters satisfying `FrameOk`. -/
def EvOk (s : DecSt) : Ev → Prop
  | .reset => True
  | .setFs fs nb => (fs = 8 ∨ fs = 12 ∨ fs = 16) ∧ (nb = 2 ∨ nb = 4)
  | .sideReset => True
  | .frame f => Configured s ∧ FrameOk s f

def HistOk : DecSt → List Ev → Prop
  | _, [] => True
  | s, e :: es => EvOk s e ∧ HistOk (step s e) es

/-- Every frame of the history runs without a fired assertion and with all accesses in bounds. -/
def HistSafe : DecSt → List Ev → Prop
  | _, [] => True
  | s, e :: es =>
    (match e with
     | .frame f => (frameStep s f).1.aborted = false ∧ AllIn s.cfg (frameStep s f).1.all
     | _ => True) ∧ HistSafe (step s e) es

theorem inv_reset : Inv resetSt :=
  { loss := by decide, lagPrev := fun h => absurd h (by decide), pitch := by decide, plcNb := Or.inl rfl,
    plcSubfr := by decide }

theorem inv_setFs (s : DecSt) (h : Inv s) (fs : Int) (nb : Nat) : Inv (setFs s fs nb) := by
  unfold setFs
  split
  · exact { loss := h.loss, lagPrev := fun hp => absurd (show SilkSynth.typeNoVoiceActivity = (2 : Int) from hp) (by decide),
            pitch := h.pitch, plcNb := h.plcNb, plcSubfr := h.plcSubfr }
  · rename_i heq
    have heq' : s.fsKHz = fs := by apply Decidable.byContradiction; intro h'; exact heq h'
    exact { loss := h.loss, lagPrev := h.lagPrev, pitch := h.pitch, plcNb := h.plcNb, plcSubfr := h.plcSubfr }

theorem inv_sideReset (s : DecSt) (h : Inv s) : Inv (sideReset s) :=
  { loss := h.loss, lagPrev := fun hp => absurd (show SilkSynth.typeNoVoiceActivity = (2 : Int) from hp) (by decide),
    pitch := h.pitch, plcNb := h.plcNb, plcSubfr := h.plcSubfr }

theorem hist_safe : ∀ (evs : List Ev) (s : DecSt), Inv s → HistOk s evs → HistSafe s evs := by
  intro evs
  induction evs with
  | nil => intro _ _ _; trivial
  | cons e es ih =>
    intro s hinv hok
    obtain ⟨he, hrest⟩ := hok
    cases e with
    | reset => exact ⟨trivial, ih _ inv_reset hrest⟩
    | setFs fs nb => exact ⟨trivial, ih _ (inv_setFs s hinv fs nb) hrest⟩
    | sideReset => exact ⟨trivial, ih _ (inv_sideReset s hinv) hrest⟩
    | frame f =>
      have hfr := frameStep_ok s f he.1 hinv he.2
      exact ⟨⟨hfr.1, hfr.2.1⟩, ih _ hfr.2.2.1 hrest⟩

/-! ### decidability (for concrete non-vacuity examples) -/

instance (s : DecSt) (f : FrameIn) : Decidable (FrameOk s f) :=
  decidable_of_iff
    ((0 ≤ f.signalType ∧ f.signalType ≤ 2) ∧ (0 ≤ f.quantOffsetType ∧ f.quantOffsetType ≤ 1) ∧
      (f.lost = false → f.signalType = 2 → ∀ k, k < s.nbSubfr →
        2 * s.fsKHz ≤ f.pitchL.getD k 0 ∧ f.pitchL.getD k 0 ≤ 18 * s.fsKHz))
    ⟨fun h => ⟨h.1, h.2.1, h.2.2⟩, fun h => ⟨h.sig, h.qoff, h.lags⟩⟩

instance (s : DecSt) : Decidable (Configured s) := by unfold Configured; infer_instance

instance (s : DecSt) (e : Ev) : Decidable (EvOk s e) := by
  cases e <;> unfold EvOk <;> infer_instance

instance histOkDec : (s : DecSt) → (evs : List Ev) → Decidable (HistOk s evs)
  | _, [] => isTrue trivial
  | s, e :: es =>
    match (inferInstance : Decidable (EvOk s e)), histOkDec (step s e) es with
    | isTrue h1, isTrue h2 => isTrue ⟨h1, h2⟩
    | isFalse h1, _ => isFalse fun h => h1 h.1
    | _, isFalse h2 => isFalse fun h => h2 h.2

/-- The frames of a history with the state each is decoded in. -/
def histFrames : DecSt → List Ev → List (DecSt × FrameIn)
  | _, [] => []
  | s, .frame f :: es => (s, f) :: histFrames (step s (.frame f)) es
  | s, e :: es => histFrames (step s e) es

theorem histSafe_frames : ∀ (evs : List Ev) (s : DecSt), HistSafe s evs →
    ∀ p ∈ histFrames s evs, (frameStep p.1 p.2).1.aborted = false ∧ AllIn p.1.cfg (frameStep p.1 p.2).1.all := by
  intro evs
  induction evs with
  | nil => intro s _ p hp; cases hp
  | cons e es ih =>
    intro s h p hp
    cases e with
    | frame f =>
      simp only [histFrames, List.mem_cons] at hp
      rcases hp with rfl | hp
      · exact h.1
      · exact ih _ h.2 p hp
    | reset => exact ih _ h.2 p hp
    | setFs fs nb => exact ih _ h.2 p hp
    | sideReset => exact ih _ h.2 p hp

end Opus.SilkSynthIdx
