import OpusProofs.RangeCoderDecBits
/-
  OpusProofs.RangeCoderRoundTrip — C08 Stages B/C, the keystone: decoding the finished buffer
  with the same sequence of calls returns the encoded values.
-/
namespace Opus.RangeCoder

/-! ### Sticky error flag and monotone bit counter (no assumptions) -/

theorem encOp_error_mono (c : Enc) (op : Op) (h : c.error ≠ 0) : (encOp c op).error ≠ 0 := by
  cases op with
  | encode fl fh ft =>
    simp only [encOp, encode]; apply encNormalize_error_mono; split <;> exact h
  | encodeBin fl fh nb =>
    simp only [encOp, encodeBin]; apply encNormalize_error_mono; split <;> exact h
  | bitLogp v logp =>
    simp only [encOp, encBitLogp]; apply encNormalize_error_mono; split <;> exact h
  | icdf s tbl ftb =>
    simp only [encOp, encIcdf]; apply encNormalize_error_mono; split <;> exact h
  | icdf16 s tbl ftb =>
    simp only [encOp, encIcdf16, encIcdf]; apply encNormalize_error_mono; split <;> exact h
  | uint v ft =>
    simp only [encOp, encUint]
    split
    · apply encBits_error_mono
      simp only [encode]; apply encNormalize_error_mono; split <;> exact h
    · simp only [encode]; apply encNormalize_error_mono; split <;> exact h
  | bits v n => exact encBits_error_mono c v n h
  | patchInitial v n =>
    simp only [encOp, encPatchInitialBits]
    split
    · exact h
    · split
      · exact h
      · split
        · exact h
        · split
          · exact h
          · simp
  | shrink size => exact h

theorem encRun_error_mono (ops : List Op) : ∀ (c : Enc), c.error ≠ 0 → (encRun c ops).error ≠ 0 := by
  induction ops with
  | nil => intro c h; exact h
  | cons op ops ih => intro c h; exact ih _ (encOp_error_mono c op h)

theorem encOp_nbits_mono (c : Enc) (op : Op) : c.nbitsTotal ≤ (encOp c op).nbitsTotal := by
  cases op with
  | encode fl fh ft =>
    simp only [encOp, encode]
    refine Nat.le_trans ?_ (encNormalize_nbits_ge _); split <;> exact Nat.le_refl _
  | encodeBin fl fh nb =>
    simp only [encOp, encodeBin]
    refine Nat.le_trans ?_ (encNormalize_nbits_ge _); split <;> exact Nat.le_refl _
  | bitLogp v logp =>
    simp only [encOp, encBitLogp]
    refine Nat.le_trans ?_ (encNormalize_nbits_ge _); split <;> exact Nat.le_refl _
  | icdf s tbl ftb =>
    simp only [encOp, encIcdf]
    refine Nat.le_trans ?_ (encNormalize_nbits_ge _); split <;> exact Nat.le_refl _
  | icdf16 s tbl ftb =>
    simp only [encOp, encIcdf16, encIcdf]
    refine Nat.le_trans ?_ (encNormalize_nbits_ge _); split <;> exact Nat.le_refl _
  | uint v ft =>
    simp only [encOp, encUint]
    split
    · have := (encBits_rn (encode c (v / 2 ^ (ilog (ft - 1) - 8)) (v / 2 ^ (ilog (ft - 1) - 8) + 1)
        ((ft - 1) / 2 ^ (ilog (ft - 1) - 8) + 1)) (v % 2 ^ (ilog (ft - 1) - 8)) (ilog (ft - 1) - 8)).2
      refine Nat.le_trans ?_ (Nat.le_trans (Nat.le_add_right _ _) (Nat.le_of_eq this.symm))
      simp only [encode]
      refine Nat.le_trans ?_ (encNormalize_nbits_ge _); split <;> exact Nat.le_refl _
    · simp only [encode]
      refine Nat.le_trans ?_ (encNormalize_nbits_ge _); split <;> exact Nat.le_refl _
  | bits v n => have := (encBits_rn c v n).2; simp only [encOp]; omega
  | patchInitial v n =>
    simp only [encOp, encPatchInitialBits]
    split
    · exact Nat.le_refl _
    · split
      · exact Nat.le_refl _
      · split
        · exact Nat.le_refl _
        · split <;> exact Nat.le_refl _
  | shrink size => exact Nat.le_refl _

theorem encRun_nbits_mono (ops : List Op) : ∀ (c : Enc), c.nbitsTotal ≤ (encRun c ops).nbitsTotal := by
  induction ops with
  | nil => intro c; exact Nat.le_refl _
  | cons op ops ih => intro c; exact Nat.le_trans (encOp_nbits_mono c op) (ih _)

/-! ### Runs -/

/-- Every operation of the list is legal in the encoder state it is applied to. -/
def LegalRun (c : Enc) : List Op → Prop
  | [] => True
  | op :: ops => op.LegalAt c ∧ LegalRun (encOp c op) ops

def decLegalRun : (ops : List Op) → (c : Enc) → Decidable (LegalRun c ops)
  | [], _ => isTrue trivial
  | op :: ops, c =>
    match (inferInstance : Decidable (op.LegalAt c)), decLegalRun ops (encOp c op) with
    | isTrue h1, isTrue h2 => isTrue ⟨h1, h2⟩
    | isFalse h1, _ => isFalse (fun h => h1 h.1)
    | _, isFalse h2 => isFalse (fun h => h2 h.2)

instance (c : Enc) (ops : List Op) : Decidable (LegalRun c ops) := decLegalRun ops c

/-- The run invariant holds at the end of a successful run, and both containments travel back
    from its end to its start. -/
theorem run_back (ops : List Op) : ∀ (c : Enc), RunInv c → LegalRun c ops →
    (encRun c ops).nbitsTotal < 4294967296 → (encRun c ops).error = 0 →
    c.error = 0 ∧ RunInv (encRun c ops) ∧ (encRun c ops).storage ≤ c.storage ∧
    (∀ B S, (∀ i, byteAt B S i < 256) → Contains B S (encRun c ops) → Contains B S c) ∧
    (∀ B S, RawC B S (encRun c ops) → RawC B S c) := by
  induction ops with
  | nil =>
    intro c ri _ _ herr
    exact ⟨herr, ri, Nat.le_refl _, fun _ _ _ h => h, fun _ _ h => h⟩
  | cons op ops ih =>
    intro c ri hl hn herr
    have herr1 : (encOp c op).error = 0 := by
      apply Classical.byContradiction; intro hne
      exact encRun_error_mono ops _ hne herr
    have hn1 : (encOp c op).nbitsTotal < 4294967296 :=
      Nat.lt_of_le_of_lt (encRun_nbits_mono ops _) hn
    have st := step_op c op ri hl.1 hn1 herr1
    obtain ⟨_, i1, i2, i3, i4⟩ := ih (encOp c op) st.run hl.2 hn herr
    exact ⟨st.err0, i1, Nat.le_trans i2 st.sto, fun B S hB h => st.cont B S hB (i3 B S hB h),
      fun B S h => st.rawc B S (i4 B S h)⟩

/-- The values returned by the decoder agree, one by one, with what the operations encoded. -/
def MatchAll : List Op → List Nat → Prop
  | [], [] => True
  | op :: ops, x :: xs => op.Matches x ∧ MatchAll ops xs
  | _, _ => False

def decMatchAll : (ops : List Op) → (xs : List Nat) → Decidable (MatchAll ops xs)
  | [], [] => isTrue trivial
  | [], _ :: _ => isFalse (fun h => h)
  | _ :: _, [] => isFalse (fun h => h)
  | op :: ops, x :: xs =>
    match (inferInstance : Decidable (op.Matches x)), decMatchAll ops xs with
    | isTrue h1, isTrue h2 => isTrue ⟨h1, h2⟩
    | isFalse h1, _ => isFalse (fun h => h1 h.1)
    | _, isFalse h2 => isFalse (fun h => h2 h.2)

instance (ops : List Op) (xs : List Nat) : Decidable (MatchAll ops xs) := decMatchAll ops xs

/-- The decoder, started in a state mirroring the encoder, stays in lock-step over a whole run
    and returns the encoded values. -/
theorem run_decode (B : List Nat) (hB : BytesOk B) (S : Nat) (Bt : List Nat)
    (hag : ∀ i, 1 ≤ i → byteAt Bt S i = byteAt B S i) (hBt : ∀ i, byteAt Bt S i < 256) (ops : List Op) :
    ∀ (e : Enc) (d : Dec),
    RunInv e → LegalRun e ops → DecAll B S e d Bt →
    (encRun e ops).nbitsTotal < 4294967296 → (encRun e ops).error = 0 →
    Contains Bt S (encRun e ops) → RawC B S (encRun e ops) →
    MatchAll ops (decRun d ops).1 ∧ DecAll B S (encRun e ops) (decRun d ops).2 Bt := by
  induction ops with
  | nil =>
    intro e d _ _ all _ _ _ _
    exact ⟨trivial, all⟩
  | cons op ops ih =>
    intro e d ri hl all hn herr hc hr
    have herr1 : (encOp e op).error = 0 := by
      apply Classical.byContradiction; intro hne
      exact encRun_error_mono ops _ hne herr
    have hn1 : (encOp e op).nbitsTotal < 4294967296 :=
      Nat.lt_of_le_of_lt (encRun_nbits_mono ops _) hn
    have st := step_op e op ri hl.1 hn1 herr1
    obtain ⟨_, _, _, b3, b4⟩ := run_back ops (encOp e op) st.run hl.2 hn herr
    obtain ⟨m1, a1⟩ := decOp_spec B hB S e d op Bt hag hBt ri hl.1 all hn1 herr1 (b3 Bt S hBt hc) (b4 B S hr)
    obtain ⟨m2, a2⟩ := ih (encOp e op) (decOp d op).2 st.run hl.2 a1 hn herr hc hr
    simp only [decRun, encRun]
    exact ⟨⟨m1, m2⟩, a2⟩

/-! ### Start and finish -/

theorem runInv_encInit (buf : List Nat) (size : Nat) (hs : size ≤ buf.length) (hb : BytesOk buf) :
    RunInv (encInit buf size) :=
  ⟨⟨⟨⟨by simp [encInit], hs, by simp [encInit], by simp [encInit]⟩, by simp [encInit], by simp [encInit],
     by simp [encInit], by simp [encInit], by simp [encInit]⟩, by simp [encInit]⟩,
   ⟨by simp [encInit], by simp [encInit]⟩, hb⟩

theorem encDone_error_mono (c : Enc) (h : c.error ≠ 0) : (encDone c).error ≠ 0 := by
  rw [encDone_eq']
  apply doneRaw_error_mono
  have h1 := encDoneOut_pres (fun c => c.error ≠ 0) (fun _ _ h => writeByte_error_mono h) (fun _ _ h => h)
    (fun _ _ h => h) c (encDoneEnd c).2 (encDoneEnd c).1 h
  unfold doneRange
  simp only
  split
  · exact carryOut_error_mono _ _ h1
  · exact h1

/-- One step of `ec_dec_normalize` while the decoder fills its first 32 bits. -/
theorem decStep_alone (B : List Nat) (S : Nat) (hB : ∀ i, byteAt B S i < 256) (d : Dec) (n R : Nat)
    (hb : d.buf = B) (hs : d.storage = S) (ho : d.offs = min (n + 1) S)
    (hrem : d.rem = ((byteAt B S n : Nat) : Int)) (hR : d.rng = R) (hR2 : R ≤ 8388608)
    (hv : d.val + codeVal B S (n + 1) / 2 + 1 = R) :
    (decStep d).buf = B ∧ (decStep d).storage = S ∧ (decStep d).offs = min (n + 2) S ∧
    (decStep d).rem = ((byteAt B S (n + 1) : Nat) : Int) ∧ (decStep d).rng = R * 256 ∧
    (decStep d).nbitsTotal = d.nbitsTotal + 8 ∧
    (decStep d).val + codeVal B S (n + 2) / 2 + 1 = R * 256 ∧
    (decStep d).endOffs = d.endOffs ∧ (decStep d).endWindow = d.endWindow ∧
    (decStep d).nendBits = d.nendBits ∧ (decStep d).error = d.error := by
  obtain ⟨r1, r2, r3, r4, r5, r6, r7, r8, r9⟩ := readByte_spec B S d (n + 1) hb hs ho
  have hb1 := hB (n + 1)
  have hb0 := hB n
  refine ⟨r3, r4, r2, ?_, ?_, rfl, ?_, r5, r6, r7, r8⟩
  · show (((readByte d).1 : Nat) : Int) = _
    rw [r1]
  · show u32 (d.rng * 256) = _
    rw [hR, u32_of_lt (by omega)]
  · show (u32 (d.val * 256) + (255 - (d.rem.toNat * 256 + (readByte d).1) / 2 % 256)) % 2147483648 + _ + 1 = _
    rw [r1, hrem]
    have hv' : d.val < 8388608 := by omega
    rw [u32_of_lt (by omega)]
    simp only [Int.toNat_natCast]
    have cv1 : codeVal B S (n + 2) = codeVal B S (n + 1) * 256 + byteAt B S (n + 1) := rfl
    have cv0 : codeVal B S (n + 1) = codeVal B S n * 256 + byteAt B S n := rfl
    rw [cv1]
    rw [cv0] at hv ⊢
    generalize codeVal B S n = cv at *
    generalize byteAt B S n = b0 at *
    generalize byteAt B S (n + 1) = b1 at *
    omega

/-- The decoder context before `ec_dec_init` reads its first byte. -/
def dec0 (B : List Nat) (S : Nat) : Dec :=
  { buf := B, storage := S, endOffs := 0, endWindow := 0, nendBits := 0, nbitsTotal := 9, offs := 0,
    rng := 128, val := 0, ext := 0, rem := 0, error := 0 }

/-- The decoder context of `ec_dec_init` before its normalisation loop. -/
def dec1 (c0 : Dec) : Dec :=
  { (readByte c0).2 with
    rem := ((readByte c0).1 : Int)
    val := sub32 (128 - 1) ((readByte c0).1 / 2) }

theorem decInit_eq (B : List Nat) (S : Nat) : decInit B S = decNormalize (dec1 (dec0 B S)) := rfl

theorem encDoneTail_nbitsTotal (c : Enc) (l : Int) (w u : Nat) :
    (encDoneTail c l w u).nbitsTotal = c.nbitsTotal := by
  unfold encDoneTail
  split
  · simp only
    split
    · split
      · rfl
      · split <;> rfl
    · rfl
  · rfl

theorem encDone_nbitsTotal (c : Enc) : (encDone c).nbitsTotal = c.nbitsTotal := by
  rw [encDone_eq']
  unfold doneRaw
  rw [encDoneTail_nbitsTotal]
  have h2 : (doneRange c).1.nbitsTotal = c.nbitsTotal := by
    have h1 := encDoneOut_pres (fun x => x.nbitsTotal = c.nbitsTotal) (fun _ _ h => by simpa using h)
      (fun _ _ h => h) (fun _ _ h => h) c (encDoneEnd c).2 (encDoneEnd c).1 rfl
    unfold doneRange
    simp only
    split
    · rw [carryOut_nbitsTotal]; exact h1
    · exact h1
  exact (encDoneFlush_pres (fun x => x.nbitsTotal = c.nbitsTotal) (fun _ _ h => by simpa using h) _ _ _ h2)

theorem encInit_encM (buf : List Nat) (size : Nat) : encM (encInit buf size) = 0 := by
  simp [encM, pendCount, encInit]
theorem encInit_encLow (buf : List Nat) (size : Nat) : encLow (encInit buf size) = 0 := by
  simp [encLow, digitsVal, pendCount, pendVal, encInit]
theorem encInit_rawN (buf : List Nat) (size : Nat) : rawN (encInit buf size) = 0 := by
  simp [rawN, encInit]

/-- `ec_dec_init` puts the decoder in lock-step with a freshly initialised encoder. -/
theorem decInit_spec (B : List Nat) (hB : BytesOk B) (S : Nat) (buf : List Nat) (size : Nat) :
    DecAll B S (encInit buf size) (decInit B S) B := by
  have hBy : ∀ i, byteAt B S i < 256 := fun i => byteAt_lt_bytesOk hB S i
  -- the state before the normalisation loop
  generalize hd0 : dec0 B S = c0
  obtain ⟨r1, r2, r3, r4, r5, r6, r7, r8, r9⟩ := readByte_spec B S c0 0 (by rw [← hd0]; rfl) (by rw [← hd0]; rfl)
    (by rw [← hd0]; simp [dec0])
  rw [decInit_eq, hd0]
  generalize hd : dec1 c0 = d
  have b0 := hBy 0
  have f_buf : d.buf = B := by rw [← hd]; exact r3
  have f_sto : d.storage = S := by rw [← hd]; exact r4
  have f_offs : d.offs = min (0 + 1) S := by rw [← hd]; exact r2
  have f_rem : d.rem = ((byteAt B S 0 : Nat) : Int) := by rw [← hd]; show (((readByte c0).1 : Nat) : Int) = _; rw [r1]
  have f_rng : d.rng = 128 := by rw [← hd]; show (readByte c0).2.rng = _; unfold readByte; split <;> (rw [← hd0]; rfl)
  have f_nb : d.nbitsTotal = 9 := by rw [← hd]; show (readByte c0).2.nbitsTotal = _; unfold readByte; split <;> (rw [← hd0]; rfl)
  have f_val : d.val + codeVal B S (0 + 1) / 2 + 1 = 128 := by
    rw [← hd]
    show sub32 (128 - 1) ((readByte c0).1 / 2) + codeVal B S (0 + 1) / 2 + 1 = 128
    simp only [codeVal]
    rw [r1, sub32_of_le (by omega) (by omega)]; omega
  have f_eo : d.endOffs = 0 := by rw [← hd]; show (readByte c0).2.endOffs = _; rw [r5, ← hd0]; rfl
  have f_ew : d.endWindow = 0 := by rw [← hd]; show (readByte c0).2.endWindow = _; rw [r6, ← hd0]; rfl
  have f_ne : d.nendBits = 0 := by rw [← hd]; show (readByte c0).2.nendBits = _; rw [r7, ← hd0]; rfl
  have f_er : d.error = 0 := by rw [← hd]; show (readByte c0).2.error = _; rw [r8, ← hd0]; rfl
  obtain ⟨a1, a2, a3, a4, a5, a6, a7, a8, a9, a10, a11⟩ :=
    decStep_alone B S hBy d 0 128 f_buf f_sto f_offs f_rem f_rng (by omega) f_val
  obtain ⟨b1, b2, b3, b4, b5, b6, b7, b8, b9, b10, b11⟩ :=
    decStep_alone B S hBy (decStep d) 1 (128 * 256) a1 a2 a3 a4 a5 (by omega) a7
  obtain ⟨c1, c2, c3, c4, c5, c6, c7, c8, c9, c10, c11⟩ :=
    decStep_alone B S hBy (decStep (decStep d)) 2 (128 * 256 * 256) b1 b2 b3 b4 b5 (by omega) b7
  rw [decNormalize_step d (by omega), decNormalize_step (decStep d) (by omega),
    decNormalize_step (decStep (decStep d)) (by omega), decNormalize_done _ (by omega)]
  generalize decStep (decStep (decStep d)) = d3 at *
  have hM := encInit_encM buf size
  have hL := encInit_encLow buf size
  have hN := encInit_rawN buf size
  refine ⟨⟨c1, c2, by rw [c5]; rfl, by rw [c6, b6, a6, f_nb]; rfl, ?_, by rw [hM]; exact c3,
    by rw [hM]; exact c4⟩, by rw [c11, b11, a11, f_er], by rw [c10, b10, a10, f_ne]; omega, 0, ?_, ?_, ?_⟩
  · rw [hM, hL]
    have e4 : (2 : Nat) + 2 = 0 + 4 := rfl
    rw [e4] at c7
    have er : (encInit buf size).rng = 2147483648 := rfl
    rw [er, c7]
  · rw [c8, b8, a8, f_eo]; omega
  · rw [hN, c10, b10, a10, f_ne]
  · rw [hN, c10, b10, a10, f_ne, c9, b9, a9, f_ew, Nat.pow_zero, Nat.mod_one]

theorem codeVal_take (B : List Nat) (S n : Nat) : codeVal (B.take S) S n = codeVal B S n := by
  apply codeVal_congr
  intro i _
  unfold byteAt
  split
  · rename_i h
    simp only [List.getD_eq_getElem?_getD, List.getElem?_take, h, if_true]
  · rfl

theorem tailVal_take (B : List Nat) (S n : Nat) : tailVal (B.take S) S n = tailVal B S n := by
  apply tailVal_congr
  intro j _
  unfold endByte
  split
  · rename_i h
    have : S - 1 - j < S := by omega
    simp only [List.getD_eq_getElem?_getD, List.getElem?_take, this, if_true]
  · rfl

theorem bytesOk_take {B : List Nat} (h : BytesOk B) (n : Nat) : BytesOk (B.take n) :=
  fun b hb => h b (List.mem_of_mem_take hb)

theorem encRun_append (a b : List Op) : ∀ (c : Enc), encRun c (a ++ b) = encRun (encRun c a) b := by
  induction a with
  | nil => intro c; rfl
  | cons op a ih => intro c; exact ih _

theorem legalRun_append (a b : List Op) : ∀ (c : Enc), LegalRun c (a ++ b) →
    LegalRun c a ∧ LegalRun (encRun c a) b := by
  induction a with
  | nil => intro c h; exact ⟨trivial, h⟩
  | cons op a ih => intro c h; exact ⟨⟨h.1, (ih _ h.2).1⟩, (ih _ h.2).2⟩

/-- **Lock-step at every point of the stream.**  With the hypotheses of `decode_encode_all`, after
    any prefix `pre` of the operations the decoder has returned the encoded values and mirrors the
    encoder state reached after `pre` (invariant D; in particular same `rng` and `nbits_total`). -/
theorem decode_encode_prefix (buf : List Nat) (size : Nat) (pre suf : List Op) (hs : size ≤ buf.length)
    (hb : BytesOk buf) (hl : LegalRun (encInit buf size) (pre ++ suf))
    (hn : (encodeAll buf size (pre ++ suf)).nbitsTotal < 4294967296)
    (herr : (encodeAll buf size (pre ++ suf)).error = 0) :
    MatchAll pre (decRun (decInit ((encodeAll buf size (pre ++ suf)).buf.take
      (encodeAll buf size (pre ++ suf)).storage) (encodeAll buf size (pre ++ suf)).storage) pre).1 ∧
    DecAll ((encodeAll buf size (pre ++ suf)).buf.take (encodeAll buf size (pre ++ suf)).storage)
      (encodeAll buf size (pre ++ suf)).storage
      (encRun (encInit buf size) pre)
      (decRun (decInit ((encodeAll buf size (pre ++ suf)).buf.take
        (encodeAll buf size (pre ++ suf)).storage) (encodeAll buf size (pre ++ suf)).storage) pre).2
      ((encodeAll buf size (pre ++ suf)).buf.take (encodeAll buf size (pre ++ suf)).storage) := by
  unfold encodeAll at hn herr ⊢
  have ri0 := runInv_encInit buf size hs hb
  generalize he0 : encInit buf size = e0 at *
  have herrF : (encRun e0 (pre ++ suf)).error = 0 := by
    apply Classical.byContradiction; intro hne
    exact encDone_error_mono _ hne herr
  have hnF : (encRun e0 (pre ++ suf)).nbitsTotal < 4294967296 := by
    have : (encDone (encRun e0 (pre ++ suf))).nbitsTotal = (encRun e0 (pre ++ suf)).nbitsTotal :=
      encDone_nbitsTotal _
    omega
  obtain ⟨_, riF, _, _, _⟩ := run_back (pre ++ suf) e0 ri0 hl hnF herrF
  obtain ⟨_, d1, d2, d3, d4, d5⟩ := encDone_spec (encRun e0 (pre ++ suf)) riF.inv riF.raw riF.bytes hnF herr
  generalize encDone (encRun e0 (pre ++ suf)) = eD at *
  rw [d1]
  generalize hS : (encRun e0 (pre ++ suf)).storage = S at *
  have hBt : BytesOk (eD.buf.take S) := bytesOk_take d3 _
  have hBy : ∀ i, byteAt (eD.buf.take S) S i < 256 := fun i => byteAt_lt_bytesOk hBt S i
  have hc : Contains (eD.buf.take S) S (encRun e0 (pre ++ suf)) := by
    unfold Contains at d4 ⊢; rw [codeVal_take]; exact d4
  have hr : RawC (eD.buf.take S) S (encRun e0 (pre ++ suf)) := by
    unfold RawC at d5 ⊢; rw [tailVal_take]; exact d5
  rw [encRun_append] at hc hr herrF hnF
  obtain ⟨hl1, hl2⟩ := legalRun_append pre suf e0 hl
  have herrP : (encRun e0 pre).error = 0 := by
    apply Classical.byContradiction; intro hne
    exact encRun_error_mono suf _ hne herrF
  have hnP : (encRun e0 pre).nbitsTotal < 4294967296 :=
    Nat.lt_of_le_of_lt (encRun_nbits_mono suf _) hnF
  obtain ⟨_, riP, _, _, _⟩ := run_back pre e0 ri0 hl1 hnP herrP
  obtain ⟨_, _, _, b3, b4⟩ := run_back suf (encRun e0 pre) riP hl2 hnF herrF
  exact run_decode _ hBt _ _ (fun _ _ => rfl) hBy pre e0 _ ri0 hl1
    (by subst he0; exact decInit_spec _ hBt _ buf size) hnP herrP (b3 _ _ hBy hc) (b4 _ _ hr)

/-- What a successful `encodeAll` provides for any decoder-side argument: the finished stream is made of
    bytes and satisfies both containments for the encoder state reached before `ec_enc_done`. -/
theorem encodeAll_facts (buf : List Nat) (size : Nat) (ops : List Op) (hs : size ≤ buf.length)
    (hb : BytesOk buf) (hl : LegalRun (encInit buf size) ops)
    (hn : (encodeAll buf size ops).nbitsTotal < 4294967296)
    (herr : (encodeAll buf size ops).error = 0) :
    BytesOk ((encodeAll buf size ops).buf.take (encodeAll buf size ops).storage) ∧
    (encRun (encInit buf size) ops).nbitsTotal < 4294967296 ∧ (encRun (encInit buf size) ops).error = 0 ∧
    Contains ((encodeAll buf size ops).buf.take (encodeAll buf size ops).storage) (encodeAll buf size ops).storage
      (encRun (encInit buf size) ops) ∧
    RawC ((encodeAll buf size ops).buf.take (encodeAll buf size ops).storage) (encodeAll buf size ops).storage
      (encRun (encInit buf size) ops) := by
  unfold encodeAll at hn herr ⊢
  have ri0 := runInv_encInit buf size hs hb
  generalize encInit buf size = e0 at *
  have herrF : (encRun e0 ops).error = 0 := by
    apply Classical.byContradiction; intro hne
    exact encDone_error_mono _ hne herr
  have hnF : (encRun e0 ops).nbitsTotal < 4294967296 := by
    have := encDone_nbitsTotal (encRun e0 ops); omega
  obtain ⟨_, riF, _, _, _⟩ := run_back ops e0 ri0 hl hnF herrF
  obtain ⟨_, d1, d2, d3, d4, d5⟩ := encDone_spec (encRun e0 ops) riF.inv riF.raw riF.bytes hnF herr
  generalize encDone (encRun e0 ops) = eD at *
  rw [d1]
  refine ⟨bytesOk_take d3 _, hnF, herrF, ?_, ?_⟩
  · unfold Contains at d4 ⊢; rw [codeVal_take]; exact d4
  · unfold RawC at d5 ⊢; rw [tailVal_take]; exact d5

/-- **Decoder inverts encoder.**  For every list of operations (any interleaving of range-coded
    symbols, `ec_enc_uint`, raw bits and `ec_enc_shrink`), legal where applied, written into a buffer
    of any size: if `ec_enc_done` leaves `error = 0`, decoding the first `storage` bytes with the same
    sequence of calls returns the encoded values, the decoder's error flag stays clear and the decoder
    ends in lock-step with the encoder (same `rng`, same `nbits_total`). -/
theorem decode_encode_all (buf : List Nat) (size : Nat) (ops : List Op) (hs : size ≤ buf.length)
    (hb : BytesOk buf) (hl : LegalRun (encInit buf size) ops)
    (hn : (encodeAll buf size ops).nbitsTotal < 4294967296)
    (herr : (encodeAll buf size ops).error = 0) :
    MatchAll ops (decRun (decInit ((encodeAll buf size ops).buf.take (encodeAll buf size ops).storage)
      (encodeAll buf size ops).storage) ops).1 ∧
    DecAll ((encodeAll buf size ops).buf.take (encodeAll buf size ops).storage) (encodeAll buf size ops).storage
      (encRun (encInit buf size) ops)
      (decRun (decInit ((encodeAll buf size ops).buf.take (encodeAll buf size ops).storage)
        (encodeAll buf size ops).storage) ops).2
      ((encodeAll buf size ops).buf.take (encodeAll buf size ops).storage) := by
  have h := decode_encode_prefix buf size ops [] hs hb (by rw [List.append_nil]; exact hl)
    (by rw [List.append_nil]; exact hn) (by rw [List.append_nil]; exact herr)
  rw [List.append_nil] at h
  exact h

end Opus.RangeCoder
