import OpusProofs.PcmConv
/-
  OpusProofs.PcmSpec — what the conversion macros compute, stated on exact values:
  * the three input conversions give the same, exactly representable `opus_res` / analysis value
    for every int16 sample (and 24-bit input is exact for every 24-bit sample);
  * `RES2INT24` = round-half-even of value·2^23 (integer indefinite outside int32);
  * `FLOAT2INT16` = saturate(round-half-even(value·2^15)), −32768 for NaN;
  * round trips int16 → res → int16 / int24 and int24 → res → int24 are the identity.
-/
set_option exponentiation.threshold 400
namespace Opus.Pcm

def IsInt16 (x : Int) : Prop := -32768 ≤ x ∧ x ≤ 32767

/-- "`b` is the float sample `x / 32768`" (any bit pattern with exactly that value except −0, which
    `(float)x / 32768.f` never produces). -/
def FloatOfInt16 (x : Int) (b : Nat) : Prop := b < 2 ^ 32 ∧ val b = some (x * 2 ^ 134) ∧ b ≠ 2 ^ 31

theorem val_negzero : val (2 ^ 31) = some 0 := by decide

/-! ### inputs -/

private theorem natAbs_int16 {x : Int} (hx : IsInt16 x) : x.natAbs < 2 ^ 24 := by
  unfold IsInt16 at hx; omega

private theorem dyadic_fin {x : Int} {t : Nat} (hx : x.natAbs < 2 ^ 24) (ht : t ≤ 253) :
    (x * 2 ^ t).natAbs = x.natAbs * 2 ^ t ∧ (x * 2 ^ t).natAbs < 2 ^ 277 := by
  have h1 : (x * 2 ^ t).natAbs = x.natAbs * 2 ^ t := by rw [Int.natAbs_mul, Int.natAbs_pow]; rfl
  refine ⟨h1, ?_⟩
  rw [h1]
  calc x.natAbs * 2 ^ t < 2 ^ 24 * 2 ^ t := Nat.mul_lt_mul_of_pos_right hx (by positivity)
    _ = 2 ^ (24 + t) := by rw [Nat.pow_add]
    _ ≤ 2 ^ 277 := Nat.pow_le_pow_right (by norm_num) (by omega)

/-- `ofScaled (x·2^t) 0` is exact for a 24-bit `x`. -/
theorem ofScaled_exact24 {x : Int} {t : Nat} (hx : x.natAbs < 2 ^ 24) (ht : t ≤ 253) :
    val (ofScaled (x * 2 ^ t) 0) = some (x * 2 ^ t) ∧ ofScaled (x * 2 ^ t) 0 < 2 ^ 32 ∧
      ofScaled (x * 2 ^ t) 0 ≠ 2 ^ 31 := by
  obtain ⟨h1, h2⟩ := dyadic_fin hx ht
  have := val_ofScaled_dyadic (x * 2 ^ t) 0 x.natAbs t h1 hx h2
  simpa using this

/-- `INT16TORES(x)` is exactly `x / 32768`. -/
theorem int16ToRes_val {x : Int} (hx : IsInt16 x) :
    val (int16ToRes x) = some (x * 2 ^ 134) ∧ int16ToRes x < 2 ^ 32 ∧ int16ToRes x ≠ 2 ^ 31 :=
  ofScaled_exact24 (natAbs_int16 hx) (by norm_num)

/-- `INT24TORES(a)` is exactly `a · 2^-23` for every `|a| < 2^24` (all 24-bit samples). -/
theorem int24ToRes_val {a : Int} (ha : a.natAbs < 2 ^ 24) :
    val (int24ToRes a) = some (a * 2 ^ 126) ∧ int24ToRes a < 2 ^ 32 ∧ int24ToRes a ≠ 2 ^ 31 :=
  ofScaled_exact24 ha (by norm_num)

/-- `INT24TORES(256·x)` and `INT16TORES(x)` are the same bits (for every integer `x`). -/
theorem int24ToRes_shift (x : Int) : int24ToRes (256 * x) = int16ToRes x := by
  unfold int24ToRes int16ToRes; congr 1; ring

/-- The float sample `x/32768` passes through `FLOAT2RES` as the bits of `INT16TORES(x)`. -/
theorem float2Res_of_int16 {x : Int} {b : Nat} (h : FloatOfInt16 x b) : float2Res b = int16ToRes x :=
  eq_ofScaled_of_val h.1 h.2.1 h.2.2

/-- `INT16TOSIG(x)` is exactly `x`. -/
theorem int16ToSig_val {x : Int} (hx : IsInt16 x) :
    val (int16ToSig x) = some (x * 2 ^ 149) ∧ int16ToSig x < 2 ^ 32 ∧ int16ToSig x ≠ 2 ^ 31 :=
  ofScaled_exact24 (natAbs_int16 hx) (by norm_num)

/-- `INT24TOSIG(256·x) = INT16TOSIG(x)`: both roundings of `(float)(256x) * (1/256)` are exact. -/
theorem int24ToSig_shift {x : Int} (hx : IsInt16 x) : int24ToSig (256 * x) = int16ToSig x := by
  have hx24 := natAbs_int16 hx
  have e : 256 * x * 2 ^ 149 = x * 2 ^ 157 := by ring
  obtain ⟨h1, _, _⟩ := ofScaled_exact24 (x := x) (t := 157) hx24 (by norm_num)
  have hinner : val (ofScaled (256 * x * 2 ^ 149) 0) = some (x * 2 ^ 149 * 2 ^ 8) := by
    rw [e, h1]; congr 1; ring
  obtain ⟨d1, d2⟩ := dyadic_fin (x := x) (t := 149) hx24 (by norm_num)
  have houter : int24ToSig (256 * x) = ofScaled (x * 2 ^ 149 * 2 ^ 8) 8 := by
    unfold int24ToSig; rw [hinner]; exact rfl
  rw [houter, ofScaled_dyadic_eq (x * 2 ^ 149) 8 x.natAbs 149 d1 hx24 d2]
  unfold int16ToSig
  exact rfl

/-- `FLOAT2SIG(x/32768) = INT16TOSIG(x)`. -/
theorem float2Sig_of_int16 {x : Int} {b : Nat} (hx : IsInt16 x) (h : FloatOfInt16 x b) :
    float2Sig b = int16ToSig x := by
  obtain ⟨hb, hv, hnz⟩ := h
  by_cases hx0 : x = 0
  · subst hx0
    have : b = ofScaled (0 * 2 ^ 134) 0 := eq_ofScaled_of_val hb hv hnz
    rw [this]; decide
  · have hx24 := natAbs_int16 hx
    obtain ⟨d1, d2⟩ := dyadic_fin (x := x) (t := 149) hx24 (by norm_num)
    rcases mulPow2_finite 15 hb hv with ⟨_, h2, h3⟩ | ⟨hov, _⟩
    · have e : x * 2 ^ 134 * 2 ^ 15 = x * 2 ^ 149 := by ring
      rw [e] at h2
      unfold float2Sig int16ToSig
      apply eq_ofScaled_of_val h3 h2
      intro h31
      rw [h31, val_negzero] at h2
      injection h2 with h2
      have : (0 : Int) < 2 ^ 149 := by positivity
      rcases Int.mul_eq_zero.mp h2.symm with h | h <;> omega
    · exfalso
      obtain ⟨c1, _⟩ := dyadic_fin (x := x) (t := 134) hx24 (by norm_num)
      have e : (x * 2 ^ 134).natAbs * 2 ^ 15 = (x * 2 ^ 149).natAbs := by
        rw [c1, d1, Nat.mul_assoc, ← Nat.pow_add]
      omega

/-! ### the entry points hand identical data to the shared encoder core -/

section entry
variable {St Pkt : Type}

theorem map_float2Res_of_int16 {pcm : List Int} {fl : List Nat} (h : List.Forall₂ FloatOfInt16 pcm fl) :
    fl.map float2Res = pcm.map int16ToRes := by
  induction h with
  | nil => rfl
  | cons h _ ih => simp only [List.map_cons, ih, float2Res_of_int16 h]

theorem map_float2Sig_of_int16 {pcm : List Int} {fl : List Nat} (hp : ∀ x ∈ pcm, IsInt16 x)
    (h : List.Forall₂ FloatOfInt16 pcm fl) : fl.map float2Sig = pcm.map int16ToSig := by
  induction h with
  | nil => rfl
  | cons h _ ih =>
    simp only [List.map_cons]
    rw [float2Sig_of_int16 (hp _ (List.mem_cons_self ..)) h, ih (fun x hx => hp x (List.mem_cons_of_mem _ hx))]

theorem map_int24ToRes_shift (pcm : List Int) :
    (pcm.map (256 * ·)).map int24ToRes = pcm.map int16ToRes := by
  induction pcm with
  | nil => simp only [List.map_nil]
  | cons x xs ih => simp only [List.map_cons, ih, int24ToRes_shift]

theorem map_int24ToSig_shift (pcm : List Int) (hp : ∀ x ∈ pcm, IsInt16 x) :
    (pcm.map (256 * ·)).map int24ToSig = pcm.map int16ToSig := by
  induction pcm with
  | nil => simp only [List.map_nil]
  | cons x xs ih =>
    simp only [List.map_cons]
    rw [int24ToSig_shift (hp x (List.mem_cons_self ..)), ih (fun y hy => hp y (List.mem_cons_of_mem _ hy))]

theorem forall2_length {pcm : List Int} {fl : List Nat} (h : List.Forall₂ FloatOfInt16 pcm fl) :
    fl.length = pcm.length := by
  induction h with
  | nil => rfl
  | cons _ _ ih => simp only [List.length_cons, ih]

theorem encode24_eq_encode16 (core : St → CoreArgs → Pkt) (st : St) (d channels frameSize : Nat) (hd : d ≤ 16)
    (pcm : List Int) (hp : ∀ x ∈ pcm, IsInt16 x) :
    encode24 core st d channels frameSize (pcm.map (256 * ·)) = encode16 core st d channels frameSize pcm := by
  unfold encode24 encode16
  have hpt : ∀ x ∈ pcm.take (frameSize * channels), IsInt16 x := fun x hx => hp x (List.mem_of_mem_take hx)
  rw [← List.map_take, map_int24ToRes_shift, map_int24ToSig_shift pcm hp, Nat.min_eq_right (by omega : d ≤ 24),
    Nat.min_eq_right hd, List.length_map]

theorem encodeFloat_eq_encode16 (core : St → CoreArgs → Pkt) (st : St) (d channels frameSize : Nat) (hd : d ≤ 16)
    (pcm : List Int) (hp : ∀ x ∈ pcm, IsInt16 x) (fl : List Nat) (hfl : List.Forall₂ FloatOfInt16 pcm fl) :
    encodeFloat core st d channels frameSize fl = encode16 core st d channels frameSize pcm := by
  unfold encodeFloat encode16
  rw [List.map_take, List.map_take, map_float2Res_of_int16 hfl, map_float2Sig_of_int16 hp hfl,
    Nat.min_eq_right (by omega : d ≤ 24), Nat.min_eq_right hd, forall2_length hfl]

/-- Per stream of a multistream call the three formats hand the stream's encoder identical samples, down-mixed
    analysis signal, sizes, c1, c2, channel count and effective depth (`float_api` is 0 / 0 / 1 by design and is
    the only component that differs; it only guards against non-finite float input). -/
theorem msStreamArgs_agree (fapi d C c1 : Nat) (c2 : Option Nat) (hd : d ≤ 16) (pcm : List Int) (fl : List Nat)
    (hlen : fl.length = pcm.length) (hp : ∀ i, IsInt16 (pcm.getD i 0))
    (hfl : ∀ i, FloatOfInt16 (pcm.getD i 0) (fl.getD i 0)) :
    msStreamArgs int24ToRes int24ToSig 0 24 fapi d C c1 c2 (pcm.map (256 * ·)) =
      msStreamArgs int16ToRes int16ToSig 0 16 fapi d C c1 c2 pcm ∧
    msStreamArgs float2Res float2Sig 0 24 fapi d C c1 c2 fl =
      msStreamArgs int16ToRes int16ToSig 0 16 fapi d C c1 c2 pcm := by
  have g24 : ∀ i, (pcm.map (256 * ·)).getD i 0 = 256 * pcm.getD i 0 := by
    intro i
    simp only [List.getD_eq_getElem?_getD, List.getElem?_map]
    cases pcm[i]? <;> simp
  have r24 : ∀ i, int24ToRes ((pcm.map (256 * ·)).getD i 0) = int16ToRes (pcm.getD i 0) := fun i => by
    rw [g24]; exact int24ToRes_shift _
  have s24 : ∀ i, int24ToSig ((pcm.map (256 * ·)).getD i 0) = int16ToSig (pcm.getD i 0) := fun i => by
    rw [g24]; exact int24ToSig_shift (hp i)
  have rf : ∀ i, float2Res (fl.getD i 0) = int16ToRes (pcm.getD i 0) := fun i => float2Res_of_int16 (hfl i)
  have sf : ∀ i, float2Sig (fl.getD i 0) = int16ToSig (pcm.getD i 0) := fun i => float2Sig_of_int16 (hp i) (hfl i)
  have m24 : min 24 d = min 16 d := by rw [Nat.min_eq_right (by omega), Nat.min_eq_right hd]
  constructor
  · unfold msStreamArgs
    simp only [List.length_map, r24, s24, m24]
  · unfold msStreamArgs
    simp only [hlen, rf, sf, m24]

end entry

/-! ### outputs -/

/-- What `RES2INT24` must compute: nearest integer (ties to even) to value·2^23; the x86 "integer
    indefinite" −2^31 when that does not fit an int32 or the sample is not finite. -/
def out24Spec (b : Nat) : Int :=
  match val b with
  | none => -(2 ^ 31)
  | some k => if -(2 ^ 31) ≤ rne k 126 ∧ rne k 126 < 2 ^ 31 then rne k 126 else -(2 ^ 31)

/-- Saturation to the int16 range. -/
theorem sat16_range (z : Int) : -32768 ≤ sat16 z ∧ sat16 z ≤ 32767 := by
  unfold sat16; split
  · omega
  · split <;> omega

/-- What `FLOAT2INT16` must compute: value·2^15 rounded to nearest (ties to even) and saturated;
    −32768 for NaN (both C comparisons are false), ±inf saturate. -/
def out16Spec (b : Nat) : Int :=
  match val b with
  | some k => sat16 (rne k 134)
  | none => if isNaN b then -32768 else if signBit b then -32768 else 32767

theorem val_inf_pos : val 0x7f800000 = none := by decide
theorem val_inf_neg : val (2 ^ 31 + 0x7f800000) = none := by decide

private theorem rne_big_pos {k : Int} {d e : Nat} (h : (2 : Int) ^ (e + d) ≤ k) : 2 ^ e ≤ rne k d := by
  have := rne_mono d h
  rwa [pow_add, rne_mul_pow] at this

private theorem rne_big_neg {k : Int} {d e : Nat} (h : k ≤ -(2 : Int) ^ (e + d)) : rne k d ≤ -2 ^ e := by
  have := rne_mono d h
  rwa [pow_add, ← neg_mul, rne_mul_pow] at this

theorem res2Int24_spec {b : Nat} (hb : b < 2 ^ 32) : res2Int24 b = out24Spec b := by
  unfold res2Int24 out24Spec
  cases hv : val b with
  | none =>
    simp only
    exact float2int_none (mulPow2_nonfinite 23 hv).1
  | some k =>
    simp only
    rcases mulPow2_finite 23 hb hv with ⟨_, h2, _⟩ | ⟨hov, heq⟩
    · rw [float2int_of_val h2]
      have : rne (k * 2 ^ 23) 149 = rne k 126 := rne_scale k 23 126
      rw [this]
    · have hnone : val (mulPow2 b 23) = none := by
        rw [heq]; split
        · exact val_inf_neg
        · rw [Nat.zero_add]; exact val_inf_pos
      rw [float2int_none hnone]
      have hk : 2 ^ 254 ≤ k.natAbs := by
        have : (2 : Nat) ^ 277 = 2 ^ 254 * 2 ^ 23 := by rw [← Nat.pow_add]
        rw [this] at hov
        exact Nat.le_of_mul_le_mul_right hov (by positivity)
      have hcases : (2 : Int) ^ (128 + 126) ≤ k ∨ k ≤ -(2 : Int) ^ (128 + 126) := by
        have : ((2 : Nat) ^ 254 : Nat) ≤ k.natAbs := hk
        omega
      rcases hcases with h | h
      · have := rne_big_pos h
        rw [if_neg]; intro hc
        have : (2 : Int) ^ 31 ≤ 2 ^ 128 := by norm_num
        omega
      · have := rne_big_neg h
        rw [if_neg]; intro hc
        have : (2 : Int) ^ 31 < 2 ^ 128 := by norm_num
        omega

/-! #### FLOAT2INT16 -/

theorem xval_fNeg : xval fNeg32768 = some (-32768 * 2 ^ 149) := by decide
theorem xval_f32767 : xval f32767 = some (32767 * 2 ^ 149) := by decide
theorem float2int_fNeg : float2int fNeg32768 = -32768 := by decide
theorem float2int_f32767 : float2int f32767 = 32767 := by decide

/-- The two C comparisons of `FLOAT2INT16` on an operand with a defined order value. -/
theorem clamp_some {x1 : Nat} {X : Int} (hx : xval x1 = some X) :
    float2int (let x := x1
               let x := if flt fNeg32768 x then x else fNeg32768
               let x := if flt x f32767 then x else f32767
               x) =
      (if X ≤ -32768 * 2 ^ 149 then -32768 else if 32767 * 2 ^ 149 ≤ X then 32767 else float2int x1) := by
  have f1 : flt fNeg32768 x1 = decide (-32768 * 2 ^ 149 < X) := by unfold flt; rw [xval_fNeg, hx]
  have f2 : flt x1 f32767 = decide (X < 32767 * 2 ^ 149) := by unfold flt; rw [xval_f32767, hx]
  have f3 : flt fNeg32768 f32767 = true := by decide
  simp only
  by_cases c1 : X ≤ -32768 * 2 ^ 149
  · have : flt fNeg32768 x1 = false := by rw [f1]; exact decide_eq_false (by omega)
    rw [this, if_pos c1]
    simp only [Bool.false_eq_true, if_false, f3, if_true]
    exact float2int_fNeg
  · have h1 : flt fNeg32768 x1 = true := by rw [f1]; exact decide_eq_true (by omega)
    rw [h1, if_neg c1]
    simp only [if_true]
    by_cases c2 : 32767 * 2 ^ 149 ≤ X
    · have : flt x1 f32767 = false := by rw [f2]; exact decide_eq_false (by omega)
      rw [this, if_pos c2]
      simp only [Bool.false_eq_true, if_false]
      exact float2int_f32767
    · have : flt x1 f32767 = true := by rw [f2]; exact decide_eq_true (by omega)
      rw [this, if_neg c2]
      simp only [if_true]

/-- NaN operand: the first comparison is false, so the result is −32768. -/
theorem clamp_nan {x1 : Nat} (hx : xval x1 = none) :
    float2int (let x := x1
               let x := if flt fNeg32768 x then x else fNeg32768
               let x := if flt x f32767 then x else f32767
               x) = -32768 := by
  have f1 : flt fNeg32768 x1 = false := by unfold flt; rw [xval_fNeg, hx]
  have f3 : flt fNeg32768 f32767 = true := by decide
  simp only [f1, Bool.false_eq_true, if_false, f3, if_true]
  exact float2int_fNeg

theorem xval_of_val {b : Nat} {k : Int} (h : val b = some k) : xval b = some k := by
  unfold xval; rw [h]

theorem sat16_lo {z : Int} (h : z ≤ -32768) : sat16 z = -32768 := by
  unfold sat16; split
  · rfl
  · rw [if_neg (by omega)]; omega

theorem sat16_hi {z : Int} (h : 32767 ≤ z) : sat16 z = 32767 := by
  unfold sat16; rw [if_neg (by omega)]; split
  · rfl
  · omega

theorem sat16_id {z : Int} (h1 : -32768 ≤ z) (h2 : z ≤ 32767) : sat16 z = z := by
  unfold sat16; rw [if_neg (by omega), if_neg (by omega)]

theorem float2Int16_spec {b : Nat} (hb : b < 2 ^ 32) : float2Int16 b = out16Spec b := by
  unfold float2Int16 out16Spec
  cases hv : val b with
  | none =>
    simp only
    obtain ⟨n1, n2, n3⟩ := mulPow2_nonfinite 15 hv
    by_cases hnan : isNaN b = true
    · rw [if_pos hnan]
      apply clamp_nan
      unfold xval; rw [n1, n2, hnan]; rfl
    · rw [if_neg hnan]
      have hx : xval (mulPow2 b 15) = some (if signBit b then -(2 ^ 300 : Int) else 2 ^ 300) := by
        unfold xval; rw [n1, n2, n3]
        simp only [hnan, Bool.false_eq_true, if_false]
      rw [clamp_some hx]
      cases signBit b
      · simp only [Bool.false_eq_true, if_false]
        rw [if_neg (by norm_num), if_pos (by norm_num)]
      · simp only [if_true]
        rw [if_pos (by norm_num)]
  | some k =>
    simp only
    have e134 : (32768 : Int) * 2 ^ 134 = 2 ^ 149 := by norm_num
    rcases mulPow2_finite 15 hb hv with ⟨_, h2, _⟩ | ⟨hov, heq⟩
    · rw [clamp_some (xval_of_val h2)]
      have hr : rne (k * 2 ^ 15) 149 = rne k 134 := rne_scale k 15 134
      have hP : (0 : Int) < 2 ^ 15 := by positivity
      split
      · rename_i c1
        have hk : k ≤ -32768 * 2 ^ 134 := by
          have : k * 2 ^ 15 ≤ (-32768 * 2 ^ 134) * 2 ^ 15 := by
            have e : (-32768 * 2 ^ 134 : Int) * 2 ^ 15 = -32768 * 2 ^ 149 := by norm_num
            rw [e]; exact c1
          exact le_of_mul_le_mul_right this hP
        have := rne_mono 134 hk
        rw [rne_mul_pow] at this
        exact (sat16_lo this).symm
      · rename_i c1
        split
        · rename_i c2
          have hk : 32767 * 2 ^ 134 ≤ k := by
            have : (32767 * 2 ^ 134 : Int) * 2 ^ 15 ≤ k * 2 ^ 15 := by
              have e : (32767 * 2 ^ 134 : Int) * 2 ^ 15 = 32767 * 2 ^ 149 := by norm_num
              rw [e]; exact c2
            exact le_of_mul_le_mul_right this hP
          have := rne_mono 134 hk
          rw [rne_mul_pow] at this
          exact (sat16_hi this).symm
        · rename_i c2
          have hk1 : -32768 * 2 ^ 134 ≤ k := by
            by_contra hc
            apply c1
            have : k * 2 ^ 15 ≤ (-32768 * 2 ^ 134) * 2 ^ 15 :=
              Int.mul_le_mul_of_nonneg_right (by omega) (le_of_lt hP)
            have e : (-32768 * 2 ^ 134 : Int) * 2 ^ 15 = -32768 * 2 ^ 149 := by norm_num
            rw [e] at this; exact this
          have hk2 : k ≤ 32767 * 2 ^ 134 := by
            by_contra hc
            apply c2
            have : (32767 * 2 ^ 134 : Int) * 2 ^ 15 ≤ k * 2 ^ 15 :=
              Int.mul_le_mul_of_nonneg_right (by omega) (le_of_lt hP)
            have e : (32767 * 2 ^ 134 : Int) * 2 ^ 15 = 32767 * 2 ^ 149 := by norm_num
            rw [e] at this; exact this
          have z1 := rne_mono 134 hk1
          have z2 := rne_mono 134 hk2
          rw [rne_mul_pow] at z1 z2
          rw [float2int_of_val h2, hr, if_pos ⟨by omega, by omega⟩, sat16_id z1 z2]
    · have hk : 2 ^ 262 ≤ k.natAbs := by
        have : (2 : Nat) ^ 277 = 2 ^ 262 * 2 ^ 15 := by rw [← Nat.pow_add]
        rw [this] at hov
        exact Nat.le_of_mul_le_mul_right hov (by positivity)
      by_cases hneg : k < 0
      · have hx : xval (mulPow2 b 15) = some (-(2 ^ 300 : Int)) := by
          rw [heq, if_pos hneg]; decide
        rw [clamp_some hx, if_pos (by norm_num)]
        have hk' : k ≤ -(2 : Int) ^ (128 + 134) := by
          have : ((2 : Nat) ^ 262 : Nat) ≤ k.natAbs := hk
          omega
        have := rne_big_neg hk'
        have h2 : (2 : Int) ^ 15 ≤ 2 ^ 128 := by norm_num
        exact (sat16_lo (by omega)).symm
      · have hx : xval (mulPow2 b 15) = some (2 ^ 300 : Int) := by
          rw [heq, if_neg hneg]; decide
        rw [clamp_some hx, if_neg (by norm_num), if_pos (by norm_num)]
        have hk' : (2 : Int) ^ (128 + 134) ≤ k := by
          have : ((2 : Nat) ^ 262 : Nat) ≤ k.natAbs := hk
          omega
        have := rne_big_pos hk'
        have h2 : (2 : Int) ^ 15 ≤ 2 ^ 128 := by norm_num
        exact (sat16_hi (by omega)).symm

theorem out16Spec_range (b : Nat) : -32768 ≤ out16Spec b ∧ out16Spec b ≤ 32767 := by
  unfold out16Spec
  split
  · exact sat16_range _
  · split
    · omega
    · split <;> omega

theorem out16Spec_of_val {b : Nat} {k : Int} (h : val b = some k) : out16Spec b = sat16 (rne k 134) := by
  unfold out16Spec; rw [h]

theorem out24Spec_of_val {b : Nat} {k : Int} (h : val b = some k) :
    out24Spec b = (if -(2 ^ 31) ≤ rne k 126 ∧ rne k 126 < 2 ^ 31 then rne k 126 else -(2 ^ 31)) := by
  unfold out24Spec; rw [h]

/-! ### round trips -/

theorem int16_roundtrip {x : Int} (hx : IsInt16 x) : float2Int16 (int16ToRes x) = x := by
  obtain ⟨h1, h2, _⟩ := int16ToRes_val hx
  rw [float2Int16_spec h2, out16Spec_of_val h1, rne_mul_pow]
  exact sat16_id hx.1 hx.2

theorem int16_to_int24 {x : Int} (hx : IsInt16 x) : res2Int24 (int16ToRes x) = 256 * x := by
  obtain ⟨h1, h2, _⟩ := int16ToRes_val hx
  have e : x * 2 ^ 134 = (256 * x) * 2 ^ 126 := by ring
  rw [e] at h1
  rw [res2Int24_spec h2, out24Spec_of_val h1, rne_mul_pow]
  unfold IsInt16 at hx
  rw [if_pos ⟨by omega, by omega⟩]

theorem int24_roundtrip {a : Int} (ha : a.natAbs < 2 ^ 24) : res2Int24 (int24ToRes a) = a := by
  obtain ⟨h1, h2, _⟩ := int24ToRes_val ha
  rw [res2Int24_spec h2, out24Spec_of_val h1, rne_mul_pow, if_pos ⟨by omega, by omega⟩]

end Opus.Pcm
