import OpusModel.Laplace
/-
  OpusProofs.LaplaceSeq — the frequency sequence behind celt/laplace.c and the two "search the decaying part of
  the PDF" loops in closed form.

  `F j` is the frequency (without the LAPLACE_MINP floor) of magnitude `j+1`, `L j` the lower end of the pair of
  intervals (negative first, then positive) of magnitude `j+1`:
      F 0 = ec_laplace_get_freq1(fs, decay)      F (j+1) = (2·F j · decay) >> 15
      L 0 = fs                                    L (j+1) = L j + 2·F j + 2·LAPLACE_MINP
  `T` is the first index with `F T = 0`: magnitudes `> T` form the tail of probability LAPLACE_MINP each.
-/
namespace OpusProofs.Laplace
open Opus Opus.Laplace
open Opus.Gen.CeltTables (laplaceLogMinP laplaceMinP laplaceNMin)

theorem minP_eq : laplaceMinP = 1 := by decide
theorem logMinP_eq : laplaceLogMinP = 0 := by decide

def F (fs decay : Nat) : Nat → Nat
  | 0 => getFreq1 fs decay
  | j + 1 => F fs decay j * 2 * decay / 32768

def L (fs decay : Nat) : Nat → Nat
  | 0 => fs
  | j + 1 => L fs decay j + F fs decay j * 2 + 2

theorem L_mono (fs decay : Nat) {j k : Nat} (h : j ≤ k) : L fs decay j ≤ L fs decay k := by
  induction h with
  | refl => exact Nat.le_refl _
  | step _ ih => simp only [L]; omega

theorem L_succ_le (fs decay : Nat) {j k : Nat} (h : j < k) : L fs decay j + F fs decay j * 2 + 2 ≤ L fs decay k :=
  L_mono fs decay (show j + 1 ≤ k from h)

/-- The parameters behave: `fs > 0`, the decaying part ends at index `T`, and the tail starts at `L T ≤ 32766`, so
    that at least one negative and one positive tail symbol fit below 32768. -/
structure Par (fs decay T : Nat) : Prop where
  fs_pos : 0 < fs
  zero : F fs decay T = 0
  pos : ∀ i, i < T → 0 < F fs decay i
  room : L fs decay T ≤ 32766

/-- Computes `(T, L T)`; `fuel` bounds the number of decaying magnitudes examined. -/
def tailStart (decay : Nat) : Nat → Nat → Nat → Nat → Option (Nat × Nat)
  | 0, _, _, _ => none
  | fuel + 1, j, l, f => if f = 0 then some (j, l) else tailStart decay fuel (j + 1) (l + f * 2 + 2) (f * 2 * decay / 32768)

/-- Decidable form of `∃ T, Par fs decay T` (the fuel 32768 is never exhausted when the answer is `true`: `L` grows by
    at least 2 per magnitude and must stay ≤ 32766). -/
def LaplaceOk (fs decay : Nat) : Bool :=
  decide (0 < fs) &&
  match tailStart decay 32768 0 fs (getFreq1 fs decay) with
  | some (_, l) => decide (l ≤ 32766)
  | none => false

theorem tailStart_spec (fs decay : Nat) : ∀ fuel j T l,
    tailStart decay fuel j (L fs decay j) (F fs decay j) = some (T, l) →
    j ≤ T ∧ l = L fs decay T ∧ F fs decay T = 0 ∧ ∀ i, j ≤ i → i < T → 0 < F fs decay i := by
  intro fuel
  induction fuel with
  | zero => intro j T l h; simp [tailStart] at h
  | succ fuel ih =>
    intro j T l h
    simp only [tailStart] at h
    by_cases hf : F fs decay j = 0
    · rw [if_pos hf] at h
      injection h with h; injection h with h1 h2
      subst h1; subst h2
      exact ⟨Nat.le_refl _, rfl, hf, fun i h1 h2 => by omega⟩
    · rw [if_neg hf] at h
      obtain ⟨h1, h2, h3, h4⟩ := ih (j + 1) T l h
      refine ⟨by omega, h2, h3, fun i hi1 hi2 => ?_⟩
      by_cases e : i = j
      · subst e; omega
      · exact h4 i (by omega) hi2

theorem par_of_ok {fs decay : Nat} (h : LaplaceOk fs decay = true) : ∃ T, Par fs decay T := by
  simp only [LaplaceOk, Bool.and_eq_true, decide_eq_true_eq] at h
  obtain ⟨h0, h1⟩ := h
  split at h1
  · rename_i T l heq
    obtain ⟨_, h2, h3, h4⟩ := tailStart_spec fs decay 32768 0 T l heq
    simp only [decide_eq_true_eq] at h1
    exact ⟨T, h0, h3, fun i hi => h4 i (Nat.zero_le _) hi, by omega⟩
  · cases h1

/-! ## The two loops -/

/-- Encoder loop started at magnitude `j+1` with `n` iterations allowed: it stops at `min (j+n) T`. -/
theorem encLoop_eq {fs decay T : Nat} (hp : Par fs decay T) : ∀ n j, j ≤ T →
    encLoop decay n (L fs decay j) (F fs decay j) (j + 1) =
      (L fs decay (min (j + n) T), F fs decay (min (j + n) T), min (j + n) T + 1) := by
  intro n
  induction n with
  | zero => intro j hj; simp only [encLoop, Nat.add_zero, Nat.min_eq_left hj]
  | succ n ih =>
    intro j hj
    simp only [encLoop, minP_eq]
    by_cases e : j = T
    · subst e
      rw [if_neg (by rw [hp.zero]; omega)]
      rw [Nat.min_eq_right (by omega)]
    · have hpos := hp.pos j (by omega)
      rw [if_pos hpos]
      have := ih (j + 1) (by omega)
      simp only [L, F] at this
      have e2 : j + 1 + n = j + (n + 1) := by omega
      rw [e2] at this
      exact this

/-- Decoder loop: from magnitude `j+1` it walks to the magnitude `J+1` whose pair of intervals contains `fm`
    (`J = T`: the tail). -/
theorem decLoop_eq {fs decay T : Nat} (hp : Par fs decay T) (fm : Nat) : ∀ d j J, J = j + d → J ≤ T →
    L fs decay J ≤ fm → (J < T → fm < L fs decay (J + 1)) →
    decLoop decay fm (L fs decay j) (F fs decay j + 1) (j + 1) = (L fs decay J, F fs decay J + 1, J + 1) := by
  intro d
  induction d with
  | zero =>
    intro j J hJ hT hlo hhi
    simp only [Nat.add_zero] at hJ; subst hJ
    rw [decLoop]
    simp only [minP_eq]
    by_cases e : J = T
    · subst e; rw [if_neg (by rw [hp.zero]; omega)]
    · have := hhi (by omega)
      simp only [L] at this
      rw [if_neg (by omega)]
  | succ d ih =>
    intro j J hJ hT hlo hhi
    rw [decLoop]
    simp only [minP_eq]
    have hpos := hp.pos j (by omega)
    have hle := L_succ_le fs decay (show j < J by omega)
    rw [if_pos ⟨by omega, by omega⟩]
    have e1 : (F fs decay j + 1) * 2 - 2 * 1 = F fs decay j * 2 := by omega
    have e2 : L fs decay j + (F fs decay j + 1) * 2 = L fs decay (j + 1) := by simp only [L]; omega
    rw [e1, e2]
    exact ih (j + 1) J (by omega) hT hlo hhi

/-- Every `fm ≥ fs` lies in the pair of intervals of exactly one magnitude. -/
theorem exists_J {fs decay T : Nat} (fm : Nat) : ∀ d j, T = j + d → L fs decay j ≤ fm →
    ∃ J, j ≤ J ∧ J ≤ T ∧ L fs decay J ≤ fm ∧ (J < T → fm < L fs decay (J + 1)) := by
  intro d
  induction d with
  | zero => intro j hT h; exact ⟨j, Nat.le_refl _, by omega, h, fun hh => by omega⟩
  | succ d ih =>
    intro j hT h
    by_cases hlt : fm < L fs decay (j + 1)
    · exact ⟨j, Nat.le_refl _, by omega, h, fun _ => hlt⟩
    · obtain ⟨J, h1, h2, h3, h4⟩ := ih (j + 1) (by omega) (by omega)
      exact ⟨J, by omega, h2, h3, h4⟩

end OpusProofs.Laplace
