import OpusProofs.OpusFrameHybridRed
/-
  C08, slice Hybrid — the MAIN part of a hybrid frame with redundancy, taken alone.

  `hybrid_world` (OpusProofs/OpusFrameHybridCelt.lean) generalised to any redundancy signalling: the patched main coder
  of a hybrid frame (SILK part, `redSigOps true gate red c2s rb`, `ec_enc_shrink((max_data_bytes-1)-rb)`, CELT calls) produces,
  byte for byte and in `rng`, what the legal run `hybridP0G ++ celtOps` produces — a C17 `World` whose packet is the main
  part of the frame.  C17's `celtFrame_roundtrip` with the prefix `P0 = hybridP0G` then gives the CELT round trip of the
  main part for the decoder initialised on the main part (the first `len` bytes of the frame after `len -= redundancy_bytes`).
-/
namespace Opus.OpusFrameProofs
open Opus Opus.RangeCoder Opus.SilkSyms Opus.SilkSymsEnc Opus.SilkSymsEncProofs Opus.OpusFrameEnc OpusProofs.CeltHdr

/-- what precedes the CELT part on the shared coder, flag bits coded directly, any redundancy signalling -/
def hybridP0G (maxData : Nat) (cfg : Cfg) (pk : PacketIn) (gate : Bool) (red c2s rb : Nat) : List Op :=
  bitsOps (bitsWord (headerBits cfg pk) 0) ((cfg.nfpp + 1) * cfg.nCh) ++ packetBody cfg pk ++
    (redSigOps true gate red c2s rb ++ [Op.shrink (maxData - 1 - rb)])

theorem hybrid_world_g (buf : List Nat) (maxData nCh ms10 : Nat) (pk : PacketIn) (gate : Bool) (red c2s rb : Nat)
    (celtOps : List Op)
    (hs : maxData - 1 ≤ buf.length) (hb : BytesOk buf) (hok : PacketOk (hybridCfg nCh ms10) pk)
    (hrb : red ≠ 0 → 2 ≤ rb ∧ rb ≤ 257)
    (hsuf : LegalRun (encRun (encInit buf (maxData - 1)) (packetOps (hybridCfg nCh ms10) pk ++ redSigOps true gate red c2s rb))
      (Op.shrink (maxData - 1 - rb) :: celtOps))
    (hn29 : (encodeAll buf (maxData - 1) (hybridOps maxData (hybridCfg nCh ms10) pk gate red c2s rb celtOps)).nbitsTotal < 536870912)
    (herr : (encodeAll buf (maxData - 1) (hybridOps maxData (hybridCfg nCh ms10) pk gate red c2s rb celtOps)).error = 0) :
    ∃ w : World, w.buf = buf ∧ w.size = maxData - 1 ∧
      w.all = hybridP0G maxData (hybridCfg nCh ms10) pk gate red c2s rb ++ celtOps ∧
      encodeAll buf (maxData - 1) (hybridOps maxData (hybridCfg nCh ms10) pk gate red c2s rb celtOps) =
        encodeAll buf (maxData - 1) (hybridP0G maxData (hybridCfg nCh ms10) pk gate red c2s rb ++ celtOps) ∧
      canon (encRun (encInit buf (maxData - 1)) (packetOps (hybridCfg nCh ms10) pk ++
          (redSigOps true gate red c2s rb ++ [Op.shrink (maxData - 1 - rb)]))) =
        canon (encRun (encInit buf (maxData - 1)) (hybridP0G maxData (hybridCfg nCh ms10) pk gate red c2s rb)) := by
  have hk7 : ((hybridCfg nCh ms10).nfpp + 1) * (hybridCfg nCh ms10).nCh ≤ 7 := by
    have h1 : (hybridCfg nCh ms10).nfpp = 1 := rfl
    rcases hok.nCh with h | h <;> rw [h1, h] <;> decide
  generalize hcfg : hybridCfg nCh ms10 = cfg at *
  have hops : hybridOps maxData cfg pk gate red c2s rb celtOps =
      packetOps cfg pk ++ ((redSigOps true gate red c2s rb ++ [Op.shrink (maxData - 1 - rb)]) ++ celtOps) := by
    unfold hybridOps
    simp only [List.append_assoc, List.cons_append, List.nil_append]
  have hsufR : LegalRun (encRun (encInit buf (maxData - 1)) (packetOps cfg pk))
      ((redSigOps true gate red c2s rb ++ [Op.shrink (maxData - 1 - rb)]) ++ celtOps) := by
    rw [List.append_assoc]
    apply legalRun_append_mk _ _ _ (redSigOps_legal _ gate red c2s rb hrb)
    rw [← encRun_append]
    exact hsuf
  unfold encodeAll at hn29 herr
  rw [hops] at hn29 herr
  have herrR : (encRun (encInit buf (maxData - 1)) (packetOps cfg pk ++
      ((redSigOps true gate red c2s rb ++ [Op.shrink (maxData - 1 - rb)]) ++ celtOps))).error = 0 := by
    apply Classical.byContradiction; intro hne
    exact encDone_error_mono _ hne herr
  have hnR : (encRun (encInit buf (maxData - 1)) (packetOps cfg pk ++
      ((redSigOps true gate red c2s rb ++ [Op.shrink (maxData - 1 - rb)]) ++ celtOps))).nbitsTotal < 4294967296 := by
    rw [encDone_nbitsTotal] at hn29; omega
  obtain ⟨a1, a2, a3⟩ := hybrid_twin buf maxData cfg pk (redSigOps true gate red c2s rb ++ [Op.shrink (maxData - 1 - rb)]) celtOps
    hs hb hok hk7 hsufR hnR herrR
  have hall : bitsOps (bitsWord (headerBits cfg pk) 0) ((cfg.nfpp + 1) * cfg.nCh) ++ packetBody cfg pk ++
      ((redSigOps true gate red c2s rb ++ [Op.shrink (maxData - 1 - rb)]) ++ celtOps) =
        hybridP0G maxData cfg pk gate red c2s rb ++ celtOps := by
    unfold hybridP0G
    simp only [List.append_assoc]
  have hP0 : bitsOps (bitsWord (headerBits cfg pk) 0) ((cfg.nfpp + 1) * cfg.nCh) ++ packetBody cfg pk ++
      (redSigOps true gate red c2s rb ++ [Op.shrink (maxData - 1 - rb)]) = hybridP0G maxData cfg pk gate red c2s rb := rfl
  rw [hall] at a2 a3
  rw [hP0] at a1
  have hE : encodeAll buf (maxData - 1) (hybridOps maxData cfg pk gate red c2s rb celtOps) =
      encodeAll buf (maxData - 1) (hybridP0G maxData cfg pk gate red c2s rb ++ celtOps) := by
    unfold encodeAll; rw [hops]; exact a3
  rw [a3] at hn29 herr
  exact ⟨⟨buf, maxData - 1, hybridP0G maxData cfg pk gate red c2s rb ++ celtOps, hs, hb, a2, by unfold encodeAll; omega, herr, hn29⟩,
    rfl, rfl, rfl, hE, a1⟩

/-- The hypotheses of C17's `celt_frame_roundtrip` for the CELT part of a hybrid frame with any redundancy signalling
    (`HybridCelt` of OpusProofs/OpusFrameHybridCelt.lean with the prefix `hybridP0G`). -/
structure HybridCeltG (buf : List Nat) (maxData : Nat) (cfg : Cfg) (pk : PacketIn) (gate : Bool) (red c2s rb : Nat)
    (ccfg : Opus.CeltSymsEnc.EncCfg) (s0 : Opus.CeltSymsEnc.St) (fr : Opus.CeltBandsEnc.EncFrame) : Prop where
  ops0 : s0.ops = []
  enc0 : s0.e = encRun (encInit buf (maxData - 1)) (hybridP0G maxData cfg pk gate red c2s rb)
  storage0 : s0.e.storage = ccfg.size
  run : Opus.CeltBandsEnc.encFrame ccfg s0 = .ok fr
  notSilent : fr.hdr.silence = 0
  cfgOk : ccfg.start < ccfg.end_ ∧ ccfg.end_ ≤ 21 ∧ (ccfg.C = 1 ∨ ccfg.C = 2) ∧ ccfg.LM ≤ 3
  sizeOk : ccfg.size ≤ 1275
  len : (encodeAll buf (maxData - 1) (hybridOps maxData cfg pk gate red c2s rb fr.ops)).storage = fr.hdr.size
  margin : (encodeAll buf (maxData - 1) (hybridOps maxData cfg pk gate red c2s rb fr.ops)).storage = ccfg.size ∨
    (tell (encRun (encInit buf (maxData - 1)) (hybridP0G maxData cfg pk gate red c2s rb ++ fr.hdr.opsHdr)) + 16 ≤
        (((encodeAll buf (maxData - 1) (hybridOps maxData cfg pk gate red c2s rb fr.ops)).storage * 8 : Nat) : Int) ∧
     (tellFrac (encRun (encInit buf (maxData - 1)) (hybridP0G maxData cfg pk gate red c2s rb ++ fr.hdr.opsHdr)) : Int) + fr.hdr.totalBoost + 48 <
        (((encodeAll buf (maxData - 1) (hybridOps maxData cfg pk gate red c2s rb fr.ops)).storage * 8 * 8 : Nat) : Int))
  room : tell s0.e < (((encodeAll buf (maxData - 1) (hybridOps maxData cfg pk gate red c2s rb fr.ops)).storage * 8 : Nat) : Int)
  tapset : fr.hdr.pf.on ≠ 0 →
    tell (encRun (encInit buf (maxData - 1)) (hybridP0G maxData cfg pk gate red c2s rb ++ fr.hdr.opsPf.dropLast)) + 2 ≤
      (((encodeAll buf (maxData - 1) (hybridOps maxData cfg pk gate red c2s rb fr.ops)).storage * 8 : Nat) : Int)
  intensity : (ccfg.start : Int) ≤ fr.hdr.allocInp.intensity
  dual : fr.hdr.allocInp.dualStereo = 0 ∨ fr.hdr.allocInp.dualStereo = 1

/-- lock step at a prefix, the range itself (C08 `lockstep_rng`; `World.sync` has `ec_tell`) -/
theorem world_rng_sync (w : World) (P : List Op) (h : w.IsPrefix P) : (w.decAt P).rng = (w.encAt P).rng := by
  obtain ⟨Q, hQ⟩ := h
  have hl := w.hl; have hn := w.hn; have herr := w.herr
  rw [hQ] at hl hn herr
  have h6 := (decode_encode_prefix w.buf w.size P Q w.hs w.hb hl hn herr).2
  have := h6.rc.rng_eq
  unfold World.decAt World.encAt World.d0 World.bytes World.len
  rw [hQ]
  exact this

/-- **The main part of a hybrid frame, any redundancy signalling, decoded on its own.** -/
theorem hybrid_main_part_roundtrip_all (buf : List Nat) (maxData nCh ms10 : Nat) (pk : PacketIn) (gate : Bool)
    (red c2s : Nat) (R : Bytes) (rr : Nat)
    (ccfg : Opus.CeltSymsEnc.EncCfg) (s0 : Opus.CeltSymsEnc.St) (fr : Opus.CeltBandsEnc.EncFrame)
    (hs : maxData - 1 ≤ buf.length) (hb : BytesOk buf) (hok : PacketOk (hybridCfg nCh ms10) pk)
    (hrb : red ≠ 0 → 2 ≤ R.length ∧ R.length ≤ 257)
    (hsuf : LegalRun (encRun (encInit buf (maxData - 1)) (packetOps (hybridCfg nCh ms10) pk ++ redSigOps true gate red c2s R.length))
      (Op.shrink (maxData - 1 - R.length) :: fr.ops))
    (hn29 : (encodeAll buf (maxData - 1) (hybridOps maxData (hybridCfg nCh ms10) pk gate red c2s R.length fr.ops)).nbitsTotal < 536870912)
    (herr : (encodeAll buf (maxData - 1) (hybridOps maxData (hybridCfg nCh ms10) pk gate red c2s R.length fr.ops)).error = 0)
    (hcelt : HybridCeltG buf maxData (hybridCfg nCh ms10) pk gate red c2s R.length ccfg s0 fr) :
    ∃ (w : World) (dh : Opus.CeltSyms.CeltHdr) (sA : Opus.CeltBands.BSt),
      w.buf = buf ∧ w.size = maxData - 1 ∧
      w.all = hybridP0G maxData (hybridCfg nCh ms10) pk gate red c2s R.length ++ fr.ops ∧
      w.len = (encodeAll buf (maxData - 1) (hybridOps maxData (hybridCfg nCh ms10) pk gate red c2s R.length fr.ops)).storage ∧
      (hybridFrame buf maxData (hybridCfg nCh ms10) pk gate red c2s fr.ops R rr).payload = w.bytes ++ R ∧
      w.bytes.length = w.len ∧
      Reads (decInit w.bytes w.len) (hybridP0G maxData (hybridCfg nCh ms10) pk gate red c2s R.length) ∧
      (w.decAt (hybridP0G maxData (hybridCfg nCh ms10) pk gate red c2s R.length)).rng =
        (encRun (encInit buf (maxData - 1)) (packetOps (hybridCfg nCh ms10) pk ++ redSigOps true gate red c2s R.length)).rng ∧
      tell (w.decAt (hybridP0G maxData (hybridCfg nCh ms10) pk gate red c2s R.length)) =
        tell (encRun (encInit buf (maxData - 1)) (packetOps (hybridCfg nCh ms10) pk ++ redSigOps true gate red c2s R.length)) ∧
      (w.decAt (hybridP0G maxData (hybridCfg nCh ms10) pk gate red c2s R.length)).storage = w.len ∧
      FrameAgree w (hybridP0G maxData (hybridCfg nCh ms10) pk gate red c2s R.length) ccfg fr dh ∧
      Opus.CeltBands.celtFrame (cfgD ccfg) w.len
          (decRun (decInit w.bytes w.len) (hybridP0G maxData (hybridCfg nCh ms10) pk gate red c2s R.length)).2 =
        .ok { hdr := dh, alloc := fr.hdr.alloc, allocSt := sA,
              fin := Opus.CeltBands.afterAlloc (cfgD ccfg) w.len dh fr.hdr.alloc
                { rem := 0, c := w.decAt (hybridP0G maxData (hybridCfg nCh ms10) pk gate red c2s R.length ++ fr.hdr.ops),
                  tr := [], fault := false } } ∧
      (Opus.CeltBands.afterAlloc (cfgD ccfg) w.len dh fr.hdr.alloc
          { rem := 0, c := w.decAt (hybridP0G maxData (hybridCfg nCh ms10) pk gate red c2s R.length ++ fr.hdr.ops),
            tr := [], fault := false }).c.rng =
        (encodeAll buf (maxData - 1) (hybridOps maxData (hybridCfg nCh ms10) pk gate red c2s R.length fr.ops)).rng := by
  obtain ⟨w, hwb, hws, hall, hE, c2⟩ := hybrid_world_g buf maxData nCh ms10 pk gate red c2s R.length fr.ops hs hb hok hrb hsuf hn29 herr
  generalize hcfg : hybridCfg nCh ms10 = cfg at *
  have hwE : encodeAll w.buf w.size w.all = encodeAll buf (maxData - 1) (hybridOps maxData cfg pk gate red c2s R.length fr.ops) := by
    rw [hwb, hws, hall, hE]
  have hwlen : w.len = (encodeAll buf (maxData - 1) (hybridOps maxData cfg pk gate red c2s R.length fr.ops)).storage := by
    unfold World.len; rw [hwE]
  have hpay : (hybridFrame buf maxData cfg pk gate red c2s fr.ops R rr).payload = w.bytes ++ R := by
    unfold hybridFrame World.bytes World.len
    rw [hwE]
  have hwenc : ∀ P, w.encAt P = encRun (encInit buf (maxData - 1)) P := by
    intro P; unfold World.encAt; rw [hwb, hws]
  have hroomW : tell s0.e < ((w.len * 8 : Nat) : Int) := by rw [hwlen]; exact hcelt.room
  obtain ⟨dh, sA, fa, _, hcf⟩ := celtFrame_roundtrip w (hybridP0G maxData cfg pk gate red c2s R.length) ccfg s0 hcelt.ops0
    (by rw [hwenc]; exact hcelt.enc0) hcelt.storage0 fr hcelt.run hcelt.notSilent ⟨[], by rw [List.append_nil]; exact hall⟩
    hcelt.cfgOk hcelt.sizeOk (by rw [hwlen]; exact hcelt.len) (by rw [hwlen, hwenc]; exact hcelt.margin) hroomW
    (by rw [hwlen, hwenc]; exact hcelt.tapset) hcelt.intensity hcelt.dual
  have hreads := world_reads w
  rw [hall, reads_append] at hreads
  have hp0 : w.IsPrefix (hybridP0G maxData cfg pk gate red c2s R.length) := ⟨fr.ops, hall⟩
  obtain ⟨sy1, _, sy3, _⟩ := w.sync _ hp0
  have hrs := world_rng_sync w _ hp0
  rw [hwenc] at sy1 hrs
  have hcr : (encRun (encInit buf (maxData - 1)) (packetOps cfg pk ++
      (redSigOps true gate red c2s R.length ++ [Op.shrink (maxData - 1 - R.length)]))).rng =
      (encRun (encInit buf (maxData - 1)) (hybridP0G maxData cfg pk gate red c2s R.length)).rng := by
    have := congrArg Ctx.rng c2; simpa using this
  have hct := canon_tell c2
  have hshrR : (encRun (encInit buf (maxData - 1)) (packetOps cfg pk ++
      (redSigOps true gate red c2s R.length ++ [Op.shrink (maxData - 1 - R.length)]))).rng =
      (encRun (encInit buf (maxData - 1)) (packetOps cfg pk ++ redSigOps true gate red c2s R.length)).rng := by
    rw [← List.append_assoc, encRun_append]; rfl
  have hshrT : tell (encRun (encInit buf (maxData - 1)) (packetOps cfg pk ++
      (redSigOps true gate red c2s R.length ++ [Op.shrink (maxData - 1 - R.length)]))) =
      tell (encRun (encInit buf (maxData - 1)) (packetOps cfg pk ++ redSigOps true gate red c2s R.length)) := by
    rw [← List.append_assoc, encRun_append]; exact tell_congr rfl rfl
  refine ⟨w, dh, sA, hwb, hws, hall, hwlen, hpay, (world_bytes w).1, hreads.1, by rw [hrs, ← hcr, hshrR],
    by rw [sy1, ← hct, hshrT], sy3, fa, hcf, ?_⟩
  rw [fa.rngFin, fa.encFin, ← hwE, ← hall]
  unfold World.encAt encodeAll
  rw [encDone_rng]

end Opus.OpusFrameProofs
