import OpusProofs.CwrsBij
/-
  OpusProofs.CwrsModel — the transcribed C loops of cwrs.c (`Opus.Cwrs.icwrs`, `Opus.Cwrs.cwrsi`) compute the
  specification functions `encS` / `decS` on every table that agrees with U(N,K) on the words the walk can touch.
-/
namespace OpusProofs.CwrsModel
open Opus Opus.Cwrs OpusProofs.CwrsU OpusProofs.CwrsBij

/-- `tab` holds `U r c` at every word `CELT_PVQ_U_ROW[r][c]`, `r ≤ c`, that a walk for dimension ≤ `N` and
    pulse count ≤ `K` can touch: `(r,c) = (min a b, max a b)` with `a ≤ N`, `b ≤ K+1`. -/
def Agree (tab : Tab) (N K : Nat) : Prop :=
  ∀ r c, r ≤ c → ((r ≤ N ∧ c ≤ K + 1) ∨ (c ≤ N ∧ r ≤ K + 1)) → tab r c = .ok (U r c)

theorem Agree.mono {tab : Tab} {N K N' K' : Nat} (h : Agree tab N K) (hn : N' ≤ N) (hk : K' ≤ K) :
    Agree tab N' K' := by
  intro r c hrc hd
  apply h r c hrc
  rcases hd with hd | hd
  · left; omega
  · right; omega

theorem agree_Umath (N K : Nat) : Agree Umath N K := fun _ _ _ _ => rfl

theorem pvqU_agree {tab : Tab} {N K a b : Nat} (h : Agree tab N K) (ha : a ≤ N) (hb : b ≤ K + 1) :
    pvqU tab a b = .ok (U a b) := by
  unfold pvqU
  by_cases hab : a ≤ b
  · rw [Nat.min_eq_left hab, Nat.max_eq_right hab]
    exact h a b hab (Or.inl ⟨ha, hb⟩)
  · have hba : b ≤ a := by omega
    rw [Nat.min_eq_right hba, Nat.max_eq_left hba, U_symm a b]
    exact h b a hba (Or.inr ⟨ha, hb⟩)

/-! ## icwrs -/

theorem icwrsStep_agree {tab : Tab} {N K m : Nat} (h : Agree tab N K) (y : Int) (i k : Nat)
    (hm : m ≤ N) (hk : k + y.natAbs ≤ K) :
    icwrsStep tab m y (i, k) =
      .ok (i + U m k + (if y < 0 then U m (k + y.natAbs + 1) else 0), k + y.natAbs) := by
  unfold icwrsStep
  simp only [pvqU_agree h hm (show k ≤ K + 1 by omega), Res.bind_ok]
  split
  · simp only [pvqU_agree h hm (show k + y.natAbs + 1 ≤ K + 1 by omega), Res.bind_ok, Res.pure_eq]
  · simp only [Res.pure_eq, Nat.add_zero]

theorem icwrsAux_agree {tab : Tab} {N K : Nat} (h : Agree tab N K) :
    ∀ (ys : List Int) (m : Nat), ys ≠ [] → m = ys.length → m ≤ N → sumAbs ys ≤ K →
      icwrsAux tab m ys = .ok (encS ys, sumAbs ys) := by
  intro ys
  induction ys with
  | nil => intro m hne; exact absurd rfl hne
  | cons y rest ih =>
    intro m _ hm hmN hK
    cases rest with
    | nil =>
      simp only [icwrsAux, encS, sumAbs, List.length_nil, Nat.zero_add, Nat.add_zero, U_succ_zero, U_one_succ]
    | cons y' ys =>
      have hK' : sumAbs (y' :: ys) ≤ K := by simp only [sumAbs] at hK ⊢; omega
      have := ih (m - 1) (by simp) (by simp at hm ⊢; omega) (by omega) hK'
      simp only [icwrsAux, this, Res.bind_ok]
      have hk2 : sumAbs (y' :: ys) + y.natAbs ≤ K := by simp only [sumAbs] at hK ⊢; omega
      rw [icwrsStep_agree h y _ _ hmN hk2]
      have hm' : m = (y' :: ys).length + 1 := by simpa using hm
      simp only [encS, sumAbs, hm']
      congr 2
      · omega
      · omega

theorem icwrs_agree {tab : Tab} {y : List Int} (h : Agree tab y.length (sumAbs y)) (hn : 2 ≤ y.length) :
    icwrs tab y = .ok (encS y) := by
  unfold icwrs
  have hne : y ≠ [] := by intro e; subst e; simp at hn
  rw [if_neg (by omega), icwrsAux_agree h y y.length hne rfl (Nat.le_refl _) (Nat.le_refl _)]
  rfl


/-! ## cwrsi -/

theorem findK_top (n i k : Nat) (h : U n k ≤ i) (_hn : 1 ≤ n) : findK n i k = k := by
  cases k with
  | zero => rfl
  | succ k => simp [findK, h]

theorem findK_drop (n i k : Nat) (h : i < U n (k + 1)) : findK n i (k + 1) = findK n i k := by
  simp only [findK]; rw [if_neg (by omega)]

/-- every `j` in `(a, k]` has `U n j > i`. -/
theorem findK_trunc (m i a : Nat) (h : i < U (m + 1) (a + 1)) : ∀ d, findK (m + 1) i (a + d) = findK (m + 1) i a := by
  intro d
  induction d with
  | zero => rfl
  | succ d ih =>
    have hm : U (m + 1) (a + 1) ≤ U (m + 1) (a + d + 1) := U_mono m (by omega)
    rw [show a + (d + 1) = a + d + 1 by omega, findK_drop _ _ _ (by omega), ih]

theorem searchCol_agree {tab : Tab} {N K : Nat} (h : Agree tab N K) (m i : Nat) (hm : m + 1 ≤ N) :
    ∀ k, k ≤ m + 1 → k ≤ K + 1 →
      searchCol tab (m + 1) i (k + 1) = .ok (findK (m + 1) i k, U (m + 1) (findK (m + 1) i k)) := by
  intro k
  induction k with
  | zero =>
    intro _ _
    have : tab 0 (m + 1) = .ok (U 0 (m + 1)) := h 0 (m + 1) (by omega) (Or.inr ⟨hm, by omega⟩)
    simp only [searchCol, this, U_zero_succ, findK, U_succ_zero]
    simp
  | succ k ih =>
    intro hk1 hk2
    have : tab (k + 1) (m + 1) = .ok (U (m + 1) (k + 1)) := by
      rw [U_symm (m + 1) (k + 1)]
      exact h (k + 1) (m + 1) hk1 (Or.inr ⟨hm, hk2⟩)
    rw [searchCol]
    simp only [this, findK]
    by_cases hp : U (m + 1) (k + 1) ≤ i
    · rw [if_neg (by omega), if_pos hp]
    · rw [if_pos (by omega), if_neg hp]
      exact ih (by omega) (by omega)

theorem searchRow_agree {tab : Tab} {N K : Nat} (h : Agree tab N K) (m i : Nat) (hm : m + 1 ≤ N)
    (hnn : U (m + 1) (m + 1) ≤ i) :
    ∀ d, m + 1 + d ≤ K + 1 →
      searchRow tab (m + 1) i (m + 1 + d) =
        .ok (findK (m + 1) i (m + 1 + d), U (m + 1) (findK (m + 1) i (m + 1 + d))) := by
  intro d
  induction d with
  | zero =>
    intro hk
    have : tab (m + 1) (m + 1) = .ok (U (m + 1) (m + 1)) := h _ _ (Nat.le_refl _) (Or.inl ⟨hm, hk⟩)
    rw [Nat.add_zero, searchRow]
    simp only [this, findK]
    rw [if_neg (by omega), if_pos hnn]
  | succ d ih =>
    intro hk
    have : tab (m + 1) (m + 1 + d + 1) = .ok (U (m + 1) (m + 1 + d + 1)) :=
      h _ _ (by omega) (Or.inl ⟨hm, by omega⟩)
    rw [show m + 1 + (d + 1) = m + 1 + d + 1 by omega, searchRow]
    simp only [this, findK]
    by_cases hp : U (m + 1) (m + 1 + d + 1) ≤ i
    · rw [if_neg (by omega), if_pos hp]
    · rw [if_pos (by omega), if_neg hp]
      exact ih (by omega)

/-- The first coordinate and the state after one decoding step, as `decS` has them. -/
def stepS (n k i : Nat) : Int × Nat × Nat :=
  let q := U n (k + 1)
  let i1 := if q ≤ i then i - q else i
  let k' := findK n i1 k
  (signed (decide (q ≤ i)) ((k : Int) - k'), k', i1 - U n k')

theorem decS_succ (n k i : Nat) :
    decS (n + 1) k i = (stepS (n + 1) k i).1 :: decS n (stepS (n + 1) k i).2.1 (stepS (n + 1) k i).2.2 := rfl

theorem cwrsiStep_agree {tab : Tab} {N K : Nat} (h : Agree tab N K) (m k i : Nat)
    (hm : m + 1 ≤ N) (hk : k ≤ K) (hi : i < V (m + 1) k) :
    cwrsiStep tab (m + 1) k i = .ok (stepS (m + 1) k i) := by
  obtain ⟨hle, hU, _, hneg, hi1q⟩ := step_bounds m k i hi _ _ _ rfl rfl rfl
  unfold cwrsiStep stepS
  generalize hq : U (m + 1) (k + 1) = q at *
  generalize hi1 : (if q ≤ i then i - q else i) = i1 at *
  by_cases hkn : k ≥ m + 1
  · -- lots of pulses
    rw [if_pos hkn]
    have t1 : tab (m + 1) (k + 1) = .ok q := by
      rw [← hq]; exact h _ _ (by omega) (Or.inl ⟨hm, by omega⟩)
    have t2 : tab (m + 1) (m + 1) = .ok (U (m + 1) (m + 1)) := h _ _ (Nat.le_refl _) (Or.inl ⟨hm, by omega⟩)
    simp only [t1, t2, Res.bind_ok, ge_iff_le, decide_eq_true_eq]
    have hi1' : (if q ≤ i then i - q else i) = i1 := hi1
    rw [hi1']
    by_cases hnn : U (m + 1) (m + 1) > i1
    · rw [if_pos hnn, searchCol_agree h m i1 hm m (by omega) (by omega)]
      obtain ⟨d, hd⟩ : ∃ d, k = m + d := ⟨k - m, by omega⟩
      have := findK_trunc m i1 m hnn d
      rw [← hd] at this
      simp only [Res.bind_ok, Res.pure_eq, this]
    · rw [if_neg hnn]
      obtain ⟨d, hd⟩ : ∃ d, k = m + 1 + d := ⟨k - (m + 1), by omega⟩
      rw [hd, searchRow_agree h m i1 hm (by omega) d (by omega)]
      simp only [Res.bind_ok, Res.pure_eq]
  · -- lots of dimensions
    rw [if_neg hkn]
    have t1 : tab k (m + 1) = .ok (U (m + 1) k) := by
      rw [U_symm (m + 1) k]; exact h _ _ (by omega) (Or.inr ⟨hm, by omega⟩)
    have t2 : tab (k + 1) (m + 1) = .ok q := by
      rw [← hq, U_symm (m + 1) (k + 1)]; exact h _ _ (by omega) (Or.inr ⟨hm, by omega⟩)
    simp only [t1, t2, Res.bind_ok, ge_iff_le, decide_eq_true_eq]
    by_cases hz : U (m + 1) k ≤ i ∧ i < q
    · rw [if_pos hz]
      have hnq : ¬ q ≤ i := by omega
      rw [if_neg hnq] at hi1
      subst hi1
      have := findK_top (m + 1) i k hz.1 (by omega)
      simp only [Res.pure_eq, hnq, decide_false, signed]
      simp [this]
    · rw [if_neg hz]
      have hi1' : (if q ≤ i then i - q else i) = i1 := hi1
      rw [hi1']
      -- here i1 < U (m+1) k, in particular k ≥ 1
      have hlt : i1 < U (m + 1) k := by
        have hmono : U (m + 1) k ≤ q := by rw [← hq]; exact U_mono_step m k
        have hV : V (m + 1) k = U (m + 1) k + q := by rw [← hq]; rfl
        rw [← hi1]; split <;> omega
      cases k with
      | zero => simp at hlt
      | succ k' =>
        rw [searchCol_agree h m i1 hm k' (by omega) (by omega)]
        simp only [Res.bind_ok, Res.pure_eq, findK_drop _ _ _ hlt]


theorem U_two (j : Nat) : U 2 j = if j = 0 then 0 else 2 * j - 1 := by
  cases j with
  | zero => rfl
  | succ j => rw [U_two_succ]; simp; omega

theorem findK_one_zero : ∀ k, findK 1 0 k = 0 := by
  intro k
  induction k with
  | zero => rfl
  | succ k ih => simp [findK, ih]

theorem decS_one (k i : Nat) :
    decS 1 k i = [signed (decide (1 ≤ i)) ((k : Int) - findK 1 (if 1 ≤ i then i - 1 else i) k)] := by
  have : decS 1 k i = (stepS 1 k i).1 :: decS 0 (stepS 1 k i).2.1 (stepS 1 k i).2.2 := decS_succ 0 k i
  rw [this]
  simp [stepS, decS]

theorem decS_two (k i : Nat) :
    decS 2 k i =
      signed (decide (2 * k + 1 ≤ i))
          ((k : Int) - findK 2 (if 2 * k + 1 ≤ i then i - (2 * k + 1) else i) k) ::
        decS 1 (findK 2 (if 2 * k + 1 ≤ i then i - (2 * k + 1) else i) k)
          ((if 2 * k + 1 ≤ i then i - (2 * k + 1) else i) -
            U 2 (findK 2 (if 2 * k + 1 ≤ i then i - (2 * k + 1) else i) k)) := by
  have : decS 2 k i = (stepS 2 k i).1 :: decS 1 (stepS 2 k i).2.1 (stepS 2 k i).2.2 := decS_succ 1 k i
  rw [this]
  simp only [stepS, U_two_succ]

/-- the `_n==2`, `_n==1` tails compute `decS 2`. -/
theorem cwrsiTail_eq (k i : Nat) (hi : i < V 2 k) : cwrsiTail k i = decS 2 k i := by
  rw [decS_two]
  simp only [cwrsiTail, ge_iff_le, decide_eq_true_eq]
  generalize hi1 : (if 2 * k + 1 ≤ i then i - (2 * k + 1) else i) = i1
  obtain ⟨hle, hU, hb, hneg, hi1q⟩ :=
    step_bounds 1 k i hi (2 * k + 1) i1 (findK 2 i1 k) (U_two_succ k).symm hi1.symm rfl
  have hf : findK 2 i1 k = (i1 + 1) / 2 := by
    apply findK_unique 1 i1 k ((i1 + 1) / 2) (by omega)
    · show U 2 ((i1 + 1) / 2) ≤ i1
      rw [U_two]; split <;> omega
    · intro _
      show i1 < U 2 ((i1 + 1) / 2 + 1)
      rw [U_two_succ]; omega
  rw [hf, U_two, decS_one]
  generalize hk1 : (i1 + 1) / 2 = k1
  have e1 : (if k1 ≠ 0 then i1 - (2 * k1 - 1) else i1) = i1 - (if k1 = 0 then 0 else 2 * k1 - 1) := by
    by_cases h0 : k1 = 0 <;> simp [h0]
  rw [e1]
  generalize hi2 : i1 - (if k1 = 0 then 0 else 2 * k1 - 1) = i2
  have hi2b : i2 ≤ 1 := by
    rw [← hi2]; split <;> omega
  have e2 : (if 1 ≤ i2 then i2 - 1 else i2) = 0 := by split <;> omega
  rw [e2, findK_one_zero]
  have e3 : decide (i2 ≠ 0) = decide (1 ≤ i2) := by
    by_cases h0 : i2 = 0
    · simp [h0]
    · have : 1 ≤ i2 := by omega
      simp [h0, this]
  rw [e3]
  simp

theorem cwrsiLoop_agree {tab : Tab} {N K : Nat} (h : Agree tab N K) :
    ∀ n k i, n + 2 ≤ N → k ≤ K → i < V (n + 2) k → cwrsiLoop tab (n + 2) k i = .ok (decS (n + 2) k i) := by
  intro n
  induction n with
  | zero =>
    intro k i _ _ hi
    simp only [cwrsiLoop]
    rw [cwrsiTail_eq k i hi]
  | succ n ih =>
    intro k i hn hk hi
    show cwrsiLoop tab (n + 3) k i = .ok (decS (n + 3) k i)
    have hi' : i < V (n + 2 + 1) k := hi
    obtain ⟨hle, _, hb, _, _⟩ := step_bounds (n + 2) k i hi' _ _ _ rfl rfl rfl
    have hle' : (stepS (n + 3) k i).2.1 ≤ k := hle
    have hb' : (stepS (n + 3) k i).2.2 < V (n + 2) (stepS (n + 3) k i).2.1 := hb
    have hs : cwrsiStep tab (n + 3) k i = .ok (stepS (n + 3) k i) :=
      cwrsiStep_agree h (n + 2) k i (by omega) hk hi'
    rw [cwrsiLoop]
    simp only [hs, Res.bind_ok]
    rw [ih (stepS (n + 3) k i).2.1 (stepS (n + 3) k i).2.2 (by omega) (by omega) hb']
    simp only [Res.bind_ok, Res.pure_eq]
    rfl

/-- **cwrsi = decS.**  On any table that agrees with U on the words reachable for `(n,k)`, `cwrsi` returns the
    specification vector and `yy = Σ y²`. -/
theorem cwrsi_agree {tab : Tab} {n k i : Nat} (h : Agree tab n k) (hn : 2 ≤ n) (hk : 1 ≤ k) (hi : i < V n k) :
    cwrsi tab n k i = .ok (decS n k i, sumSq (decS n k i)) := by
  unfold cwrsi
  rw [if_neg (by omega)]
  obtain ⟨m, rfl⟩ : ∃ m, n = m + 2 := ⟨n - 2, by omega⟩
  rw [cwrsiLoop_agree h m k i (Nat.le_refl _) (Nat.le_refl _) hi]
  rfl

theorem pvqV_agree {tab : Tab} {N K n k : Nat} (h : Agree tab N K) (hn : n ≤ N) (hk : k ≤ K) :
    pvqV tab n k = .ok (V n k) := by
  unfold pvqV
  simp only [pvqU_agree h hn (show k ≤ K + 1 by omega), pvqU_agree h hn (show k + 1 ≤ K + 1 by omega), Res.bind_ok]
  rfl

end OpusProofs.CwrsModel
