import OpusProofs.MsDecEq
import OpusProofs.MsDecEqSplit
/-
  OpusProofs.MsDecEqHist — whole histories in declarative form: accepted packets run as the splitter prescribes
  (`specLoop … feedSub`), interleaved with arbitrary other API calls.  Core tactics only.
-/
namespace Opus.MsDecEq
open Opus Opus.Framing Opus.FramingSpec Opus.Layout Opus.LayoutSpec

variable {σ π : Type}

/-- The packets of the accepted events are what `opus_multistream_packet_validate` accepts for this decoder and frame size. -/
def HEv.Ok (l : ChannelLayout) (Fs : Nat) : HEv → Prop
  | .accepted ps frame_size _ _ =>
    ps.length = l.nbStreams ∧ (∀ p ∈ ps, Valid p) ∧ 0 < frame_size ∧
      ∃ k : Nat, (∀ p ∈ ps, duration Fs p = k) ∧ (k : Int) ≤ clampFs Fs frame_size
  | .other _ => True

theorem forget_out (r : Rec σ π) : r.forget.out = r.out := rfl

theorem forget_fields {o1 o2 : Out σ π} (h : o1.forget = o2.forget) :
    o1.sts = o2.sts ∧ o1.ret = o2.ret ∧ o1.recs.map (·.out) = o2.recs.map (·.out) := by
  have h1 : o1.forget.sts = o2.forget.sts := by rw [h]
  have h2 : o1.forget.ret = o2.forget.ret := by rw [h]
  have h3 : o1.forget.recs.map (·.out) = o2.forget.recs.map (·.out) := by rw [h]
  simp only [Out.forget, List.map_map] at h1 h2 h3
  refine ⟨h1, h2, ?_⟩
  have e : ((fun r : Rec σ π => r.out) ∘ Rec.forget) = (fun r : Rec σ π => r.out) := by funext r; rfl
  rw [e] at h3
  exact h3

theorem runHist_spec (m : Machine σ π) (hpo : PoContract m) (hloc : Local m) (l : ChannelLayout) (hn : 1 ≤ l.nbStreams)
    (Fs : Nat) (hFs : Rate Fs) : ∀ (hs : List HEv) (sts : List σ), sts.length = l.nbStreams → (∀ h ∈ hs, h.Ok l Fs) →
      (runHist m l Fs sts (hs.map HEv.ev)).1 = (specRun m l Fs sts hs).1 ∧
      (runHist m l Fs sts (hs.map HEv.ev)).2.map (fun e => (e.ret, e.seen.map (·.ans))) = (specRun m l Fs sts hs).2
  | [], sts, _, _ => by simp [runHist, specRun]
  | .other e :: hs, sts, hsts, hok => by
    have hlen : (apply m l Fs sts e).sts.length = l.nbStreams := by rw [(apply_thread m l Fs sts e).length, hsts]
    obtain ⟨a, b⟩ := runHist_spec m hpo hloc l hn Fs hFs hs _ hlen (fun h hh => hok h (by simp [hh]))
    simp only [List.map_cons, HEv.ev, runHist, specRun]
    exact ⟨a, by rw [b]⟩
  | .accepted ps frame_size fec sc :: hs, sts, hsts, hok => by
    obtain ⟨h1, h2, h3, k, h4, h5⟩ := hok (.accepted ps frame_size fec sc) (by simp)
    have hacc := msDecode_accepted m hpo l Fs hFs sts ps h1 hsts hn h2 k h4 frame_size fec sc h3 h5
    have hloc' := specLoop_local m hloc l fec sc ps sts 0 0 (clampFs Fs frame_size) h2
    rw [← hacc] at hloc'
    obtain ⟨e1, e2, e3⟩ := forget_fields hloc'
    have hlen : (apply m l Fs sts (.decode (msSerialize ps) (msSerialize ps).length frame_size fec sc)).sts.length = l.nbStreams := by
      rw [(apply_thread m l Fs sts _).length, hsts]
    obtain ⟨a, b⟩ := runHist_spec m hpo hloc l hn Fs hFs hs _ hlen (fun h hh => hok h (by simp [hh]))
    have hs1 : (apply m l Fs sts (.decode (msSerialize ps) (msSerialize ps).length frame_size fec sc)).sts =
        (specLoop m l fec sc feedSub ps sts 0 0 (clampFs Fs frame_size)).sts := e1
    simp only [List.map_cons, HEv.ev, runHist, specRun]
    rw [← hs1]
    refine ⟨a, ?_⟩
    rw [b]
    congr 1
    refine Prod.ext e2 ?_
    show List.map (·.ans) (List.map Rec.seen _) = _
    rw [List.map_map]
    have : (fun r : Rec σ π => Ans.decode r.out) = (Ans.decode ∘ fun r : Rec σ π => r.out) := rfl
    rw [this, ← List.map_map (f := fun r : Rec σ π => r.out), ← e3, List.map_map]
    rfl

end Opus.MsDecEq
