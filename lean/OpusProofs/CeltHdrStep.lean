import OpusProofs.CeltHdrWorld
/-
  OpusProofs.CeltHdrStep — one symbol of the header: the encoder model emits an operation, the decoder model makes the
  mirrored call and gets the value back (from `World.next`), and both stay in lock-step.
-/
namespace OpusProofs.CeltHdr
open Opus Opus.RangeCoder Opus.CeltSymsEnc

/-- The encoder model state `s` and the decoder context `d` are at the same point of the packet: `P0` is what was
    written before the CELT header (nothing, or the SILK part of a hybrid frame). -/
structure Here (w : World) (P0 : List Op) (s : St) (d : Dec) : Prop where
  enc : s.e = w.encAt (P0 ++ s.ops)
  dec : d = w.decAt (P0 ++ s.ops)

theorem Here.pop {w : World} {P0 : List Op} {s : St} {d : Dec} (h : Here w P0 s d) : Here w P0 s.pop.2 d :=
  ⟨h.enc, h.dec⟩

theorem Here.tells {w : World} {P0 : List Op} {s : St} {d : Dec} (h : Here w P0 s d) (hp : w.IsPrefix (P0 ++ s.ops)) :
    tell d = tell s.e ∧ tellFrac d = tellFrac s.e ∧ d.storage = w.len ∧ RngOk s.e := by
  rw [h.enc, h.dec]; exact w.sync _ hp

theorem emit_ops (s : St) (op : Op) : (s.emit op).ops = s.ops ++ [op] := rfl
theorem pop_ops (s : St) : s.pop.2.ops = s.ops := rfl
theorem pop_e (s : St) : s.pop.2.e = s.e := rfl

theorem Here.emit {w : World} {P0 : List Op} {s : St} {d : Dec} (h : Here w P0 s d) (op : Op)
    (hp : w.IsPrefix (P0 ++ (s.emit op).ops)) :
    op.Matches (decOp d op).1 ∧ Here w P0 (s.emit op) (decOp d op).2 := by
  rw [emit_ops, ← List.append_assoc] at hp
  obtain ⟨h1, h2⟩ := w.next (P0 ++ s.ops) op hp
  rw [h.dec]
  refine ⟨h1, ?_, ?_⟩
  · show encOp s.e op = w.encAt (P0 ++ (s.ops ++ [op]))
    rw [h.enc, ← List.append_assoc]
    unfold World.encAt
    rw [encRun_append (P0 ++ s.ops) [op]]; rfl
  · rw [emit_ops, ← List.append_assoc]; exact h2.symm

/-- a flag: `ec_dec_bit_logp` returns the bit that was written -/
theorem Here.emit_bit {w : World} {P0 : List Op} {s : St} {d : Dec} (h : Here w P0 s d) (v logp : Nat) (hv : v ≤ 1)
    (hp : w.IsPrefix (P0 ++ (s.emit (.bitLogp v logp)).ops)) :
    (decBitLogp d logp).1 = v ∧ Here w P0 (s.emit (.bitLogp v logp)) (decBitLogp d logp).2 := by
  obtain ⟨h1, h2⟩ := h.emit (.bitLogp v logp) hp
  refine ⟨?_, h2⟩
  have : (decBitLogp d logp).1 = if v ≠ 0 then 1 else 0 := h1
  rw [this]; split <;> omega

theorem Here.emit_uint {w : World} {P0 : List Op} {s : St} {d : Dec} (h : Here w P0 s d) (v ft : Nat)
    (hp : w.IsPrefix (P0 ++ (s.emit (.uint v ft)).ops)) :
    (decUint d ft).1 = v ∧ Here w P0 (s.emit (.uint v ft)) (decUint d ft).2 :=
  h.emit (.uint v ft) hp

theorem Here.emit_bits {w : World} {P0 : List Op} {s : St} {d : Dec} (h : Here w P0 s d) (v n : Nat)
    (hp : w.IsPrefix (P0 ++ (s.emit (.bits v n)).ops)) :
    (decBits d n).1 = v ∧ Here w P0 (s.emit (.bits v n)) (decBits d n).2 :=
  h.emit (.bits v n) hp

theorem Here.emit_icdf {w : World} {P0 : List Op} {s : St} {d : Dec} (h : Here w P0 s d) (sym : Nat) (tbl : List Nat)
    (ftb : Nat) (hp : w.IsPrefix (P0 ++ (s.emit (.icdf sym tbl ftb)).ops)) :
    (decIcdf d tbl ftb).1 = sym ∧ Here w P0 (s.emit (.icdf sym tbl ftb)) (decIcdf d tbl ftb).2 :=
  h.emit (.icdf sym tbl ftb) hp

/-- a 15-bit binary-split symbol: `ec_decode_bin(15)` returns a point of the symbol's interval, and
    `ec_dec_update(fl, fh, 32768)` continues in lock-step -/
theorem Here.emit_bin {w : World} {P0 : List Op} {s : St} {d : Dec} (h : Here w P0 s d) (fl fh : Nat)
    (hp : w.IsPrefix (P0 ++ (s.emit (.encodeBin fl fh 15)).ops)) :
    fl ≤ (decodeBin d 15).1 ∧ (decodeBin d 15).1 < fh ∧
    Here w P0 (s.emit (.encodeBin fl fh 15)) (decUpdate (decodeBin d 15).2 fl fh 32768) := by
  obtain ⟨h1, h2⟩ := h.emit (.encodeBin fl fh 15) hp
  exact ⟨h1.1, h1.2, h2⟩

end OpusProofs.CeltHdr
