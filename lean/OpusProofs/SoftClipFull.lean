import OpusProofs.SoftClipBound
/-
  OpusProofs.SoftClipFull — `opus_pcm_soft_clip` over an ordered field, whole call, any channel count:
  every output sample is in [-1, 1] and has the strict sign of its input; the memories stay within
  (1+eps)/4, so the statement chains over consecutive frames.
-/
set_option linter.unusedSectionVars false
namespace Opus.SoftClip
variable {F : Type} [Field F] [LinearOrder F] [IsStrictOrderedRing F]
section
variable (eps : F)
local notation "ops" => fieldOps eps

/-- single-channel call -/
theorem softClip_mono_bound (he0 : 0 ≤ eps) (he1 : eps < 1) (N : Nat) (hN : 1 ≤ N) (u : Array F) (m : F)
    (hsz : u.size = N) (hm : |m| ≤ (1 + eps) / 4) :
    ∃ ys m2, @softClip F ops false false u #[m] (N : Int) 1 = .ok (ys, #[m2]) ∧ ys.size = N ∧
      (∀ j, |g ys j| ≤ 1 ∧ (0 < g u j → 0 < g ys j) ∧ (g u j < 0 → g ys j < 0)) ∧ |m2| ≤ (1 + eps) / 4 := by
  have hg1 : ¬ ((1 : Int) < 1 ∨ (N : Int) < 1 ∨ false = true ∨ false = true) := by simp; omega
  have hb1 : ¬ (u.size < N * 1 ∨ (#[m] : Array F).size < 1) := by rw [hsz]; simp
  obtain ⟨s1, s2⟩ := satLoop_field eps u (N * 1) (by omega)
  have hx2 : ∀ j, |g (@satLoop F ops u 0 (N * 1)) j| ≤ 2 := fun j => by rw [s2 j]; exact clamp2_abs _
  obtain ⟨c1, c2, c3, c4, c5⟩ := clipChannel_bound eps he0 he1 N (@satLoop F ops u 0 (N * 1)) m (by rw [s1, hsz]) hx2 hm
  refine ⟨(@mono F ops (@satLoop F ops u 0 (N * 1)) m N).1, (@mono F ops (@satLoop F ops u 0 (N * 1)) m N).2, ?_, c1,
    fun j => ⟨c2 j, fun h => c3 j (by rw [s2 j]; exact clamp2_pos h), fun h => c4 j (by rw [s2 j]; exact clamp2_neg h)⟩, c5⟩
  unfold softClip
  rw [if_neg hg1]
  have e1 : (1 : Int).toNat = 1 := rfl
  simp only [Int.toNat_natCast, e1]
  rw [if_neg hb1, @chanLoop_one F ops]

/-- **Whole call, any channel count.** -/
theorem softClip_bound (he0 : 0 ≤ eps) (he1 : eps < 1) (x mem : Array F) (N C : Nat) (hN : 1 ≤ N) (hC : 1 ≤ C)
    (hsz : x.size = N * C) (hm : mem.size = C) (hmem : ∀ c, c < C → |g mem c| ≤ (1 + eps) / 4) :
    ∃ y m', @softClip F ops false false x mem (N : Int) (C : Int) = .ok (y, m') ∧ y.size = N * C ∧ m'.size = C ∧
      (∀ j, j < N * C → |g y j| ≤ 1 ∧ (0 < g x j → 0 < g y j) ∧ (g x j < 0 → g y j < 0)) ∧
      (∀ c, c < C → |g m' c| ≤ (1 + eps) / 4) := by
  obtain ⟨y, m', h1, h2, h3, h4⟩ := @softClip_channel F ops x mem N C hN hC hsz hm
  refine ⟨y, m', h1, h2, h3, fun j hj => ?_, fun c hc => ?_⟩
  · have hCpos : 0 < C := by omega
    have hc : j % C < C := Nat.mod_lt _ hCpos
    have hi : j / C < N := by
      apply Nat.div_lt_of_lt_mul; rw [Nat.mul_comm]; exact hj
    have hidx : j / C * C + j % C = j := by rw [Nat.mul_comm]; exact Nat.div_add_mod j C
    obtain ⟨ys, m2, k1, k2, k3, k4⟩ := softClip_mono_bound eps he0 he1 N hN (@chan F ops x C (j % C) N)
      (mem.getD (j % C) 0) (@size_chan F ops x C (j % C) N) (hmem _ hc)
    have hk := h4 (j % C) hc
    rw [show @ClipOps.zero F ops = (0 : F) from rfl] at hk
    rw [k1] at hk
    injection hk with hk
    injection hk with hk1 hk2
    obtain ⟨b1, b2, b3⟩ := k3 (j / C)
    have ey : g ys (j / C) = g y j := by
      rw [hk1]
      show (@chan F ops y C (j % C) N).getD (j / C) 0 = y.getD j 0
      simp only [chan, hi, Array.getD_eq_getD_getElem?, Array.getElem?_ofFn, dite_true, Option.getD_some]
      show @rd F ops y C (j % C) (j / C) = _
      unfold rd; rw [hidx, Array.getD_eq_getD_getElem?]; rfl
    have ex : g (@chan F ops x C (j % C) N) (j / C) = g x j := by
      show (@chan F ops x C (j % C) N).getD (j / C) 0 = x.getD j 0
      simp only [chan, hi, Array.getD_eq_getD_getElem?, Array.getElem?_ofFn, dite_true, Option.getD_some]
      show @rd F ops x C (j % C) (j / C) = _
      unfold rd; rw [hidx, Array.getD_eq_getD_getElem?]; rfl
    rw [ey] at b1 b2 b3
    rw [ex] at b2 b3
    exact ⟨b1, b2, b3⟩
  · obtain ⟨ys, m2, k1, k2, k3, k4⟩ := softClip_mono_bound eps he0 he1 N hN (@chan F ops x C c N)
      (mem.getD c 0) (@size_chan F ops x C c N) (hmem _ hc)
    have hk := h4 c hc
    rw [show @ClipOps.zero F ops = (0 : F) from rfl] at hk
    rw [k1] at hk
    injection hk with hk
    injection hk with hk1 hk2
    have : m2 = m'.getD c 0 := by
      have := congrArg (fun a : Array F => a.getD 0 0) hk2
      simpa using this
    show |m'.getD c 0| ≤ _
    rw [← this]; exact k4

end
end Opus.SoftClip
