import OpusProofs.RepackExtParse
/-
  C07 helper lemmas, part 14: `opus_repacketizer_out_range_impl` with extensions, assembled:
  the emitted packet is valid, holds the selected frames, and its padding reads back (C16 reader) to
  the stable sort by frame of the gathered, renumbered extensions.
-/
namespace Opus.RepackProofs
open Opus Opus.Framing Opus.FramingSpec Opus.FramingProofs Opus.Repack Opus.Ext Opus.ExtProofs

theorem code3_bts (toc : Nat) (frames : List Bytes) (tot0 maxlen : Int) (sdBytes : Bytes) (pad : Bool) (all : Array Ext)
    (h : tot3 (frames.map List.length) tot0 > maxlen) : code3 toc frames tot0 maxlen sdBytes pad all = .err .bufferTooSmall := by
  unfold code3; simp only []; rw [if_pos h]

theorem firstPass_cases (toc : Nat) (lens : List Nat) (hne : lens ≠ []) (tot0 maxlen : Int) :
    (firstPass toc lens tot0 maxlen = .err .bufferTooSmall ∧ tot3 lens tot0 > maxlen) ∨
    (∃ t h, firstPass toc lens tot0 maxlen = .ok (t, h)) := by
  match lens, hne with
  | [l0], _ =>
    simp only [firstPass]
    split
    · left; refine ⟨rfl, ?_⟩; simp [tot3, isVbr_one]; omega
    · right; exact ⟨_, _, rfl⟩
  | [l0, l1], _ =>
    simp only [firstPass]
    by_cases h : l1 = l0
    · simp only [h, if_true]
      split
      · left; refine ⟨rfl, ?_⟩; simp [tot3, isVbr_two]; omega
      · right; exact ⟨_, _, rfl⟩
    · simp only [h, if_false]
      by_cases hb : tot0 + ↑l0 + ↑l1 + 2 + (if 252 ≤ l0 then 1 else 0) > maxlen
      · left; rw [if_pos hb]; refine ⟨rfl, ?_⟩; simp [tot3, isVbr_two, h, vbrBody]; omega
      · right; rw [if_neg hb]; exact ⟨_, _, rfl⟩
  | _ :: _ :: _ :: _, _ => right; exact ⟨_, _, rfl⟩

/-- With at least one extension the code-3 branch is always taken. -/
theorem emit_ext (toc : Nat) (frames : List Bytes) (hne : frames ≠ []) (maxlen : Int) (sd pad : Bool)
    (all : Array Ext) (hpos : 0 < all.size) :
    emit toc frames maxlen sd pad all =
      code3 toc frames (sdSize sd ((frames.map List.length).getLastD 0)) maxlen
        (if sd then encodeSize ((frames.map List.length).getLastD 0) else []) pad all := by
  unfold emit
  simp only []
  rcases firstPass_cases toc (frames.map List.length) (by simpa using hne)
      (sdSize sd ((frames.map List.length).getLastD 0)) maxlen with ⟨h1, h2⟩ | ⟨t, h, h1⟩
  · rw [h1, code3_bts _ _ _ _ _ _ _ h2]
  · rw [h1]; simp only []
    rw [if_pos (Or.inr (Or.inr hpos))]

/-- The packet emitted with extensions. -/
def extPacket (toc : Nat) (frames : List Bytes) (amount : Int) (ser : Bytes) : Packet :=
  { toc := toc / 4 * 4 + 3, frames, vbr := isVbr (frames.map List.length), pad := some (extPad amount ser) }

theorem extPacket_valid (toc : Nat) (frames : List Bytes) (hok : FramesOk toc frames) (amount : Int) (ser : Bytes)
    (h1 : 1 ≤ amount) (h2 : 0 ≤ amount - ser.length - (amount - 1) / 255 - 1) : Valid (extPacket toc frames amount ser) := by
  have hcfg := fun c hc => frameDur48_cfg toc (List.mem_range.mpr hok.toc_lt) c (List.mem_range.mpr hc)
  unfold extPacket
  have hmod : (toc / 4 * 4 + 3) % 4 = 3 := by omega
  refine ⟨by have := hok.toc_lt; show _ + _ < 256; omega, hok.le, ?_, ?_, ?_, ?_, ?_⟩
  · simp only [Packet.code, hmod]; intro h; omega
  · simp only [Packet.code, hmod]; intro h; omega
  · simp only [Packet.code, hmod]; intro h; omega
  · intro _
    refine ⟨?_, ?_, ?_⟩
    · simp only []; have := List.length_pos_iff.mpr hok.ne; omega
    · simp only []
      rw [(hcfg 3 (by omega)).1]
      have := hok.dur
      have e : 6 * samplesPerFrame toc 8000 * frames.length = 6 * (frames.length * samplesPerFrame toc 8000) := by
        rw [Nat.mul_assoc, Nat.mul_comm (samplesPerFrame toc 8000)]
      rw [e]; omega
    · simp only [Packet.lens]; intro h; exact isVbr_false_allEq _ h
  · intro pd hpd
    simp only [Option.some.injEq] at hpd
    subst hpd
    simp only [extPad, Pad.total, List.length_append, List.length_replicate]
    omega

/-- `emit` with extensions (`B` = the generator's bytes): `BUFFER_TOO_SMALL`, or the serialisation of `extPacket`. -/
theorem emit_ext_spec (toc : Nat) (frames : List Bytes) (hne : frames ≠ []) (hn48 : frames.length ≤ 48)
    (all : Array Ext) (hpos : 0 < all.size) (B : Bytes) (hG : GenBytes all frames.length B)
    (maxlen : Int) (sd pad : Bool) :
    emit toc frames maxlen sd pad all =
      let L := B.length
      let tot := tot3 (frames.map List.length) (sdSize sd ((frames.map List.length).getLastD 0))
      let amount := extAmount maxlen tot pad L
      if tot > maxlen ∨ maxlen - tot < L ∨ tot + L + (amount - 1) / 255 + 1 > maxlen then .err .bufferTooSmall
      else .ok (serialize sd (extPacket toc frames amount B)) := by
  rw [emit_ext toc frames hne maxlen sd pad all hpos, code3_ext toc frames hne hn48 all hpos B hG]
  simp only []
  split
  · rfl
  · unfold extPacket
    rw [ser_code3 sd _ _ _ _ (by omega) hne]
    simp [padHdr, padData, encodeSize_eq]

/-! ### the gathered extensions are valid generator input -/

theorem renumber_valid (p : Bytes) (hb : BytesOk p) (nf : Nat) (hnf : nf ≤ 48) (i b e : Nat) :
    ∀ x ∈ renumber p (padRefs p nf) i b e, ValidExt (e - b) x := by
  obtain ⟨n, _, _, hext, _⟩ := pad_facts p hb nf hnf
  intro x hx
  simp only [renumber, List.mem_map, List.mem_filter, decide_eq_true_eq] at hx
  obtain ⟨r, ⟨hr, hlo, hhi⟩, rfl⟩ := hx
  obtain ⟨h1, h2, _, h4, h5, h6⟩ := hext r hr
  refine ⟨?_, ?_, ?_, ?_, ?_, ?_, ?_⟩
  · simp only [ExtRef.toExt]; omega
  · simp only [ExtRef.toExt]; omega
  · simp only []; omega
  · simp only []; omega
  · simp only [ExtRef.toExt]; exact h4
  · simp only [ExtRef.toExt]; intro h; exact h6 (by omega)
  · simp only [ExtRef.toExt, List.length_take, List.length_drop]; omega

theorem gathered_valid (pads : List (Bytes × Nat)) (hok : PadsOk pads) (i b e : Nat) :
    ∀ x ∈ gathered pads i b e, ValidExt (e - b) x := by
  induction pads generalizing i with
  | nil => intro x hx; cases hx
  | cons pn rest ih =>
    obtain ⟨p, nf⟩ := pn
    obtain ⟨hb, hnf⟩ := hok (p, nf) (by simp)
    have hr : PadsOk rest := fun x hx => hok x (by simp [hx])
    intro x hx
    simp only [gathered, List.mem_append] at hx
    rcases hx with hx | hx
    · split at hx
      · cases hx
      · exact renumber_valid p hb nf hnf i b e x hx
    · exact ih hr (i + 1) x hx

/-- Stored paddings that carry no extension, or are not well-formed extension lists, contribute nothing. -/
theorem gathered_nil (pads : List (Bytes × Nat)) (h : ∀ pn ∈ pads, padRefs pn.1 pn.2 = []) (i b e : Nat) :
    gathered pads i b e = [] := by
  induction pads generalizing i with
  | nil => rfl
  | cons pn rest ih =>
    obtain ⟨p, nf⟩ := pn
    have h0 := h (p, nf) (by simp)
    simp only [gathered]
    simp only [] at h0
    rw [h0, ih (fun x hx => h x (by simp [hx]))]
    simp [renumber]

/-! ### histories keep the stored paddings well-typed -/

theorem padsOk_step (rp : Rp) (hp : PadsOk rp.pads) (op : Op) (hb : ∀ bs, op = .cat bs → BytesOk bs) :
    PadsOk (step rp op).pads := by
  cases op with
  | init => intro pn h; simp [step, init] at h
  | out _ => exact hp
  | outRange _ _ _ => exact hp
  | cat bs =>
    simp only [step, cat]
    by_cases h : (catImpl rp bs false).2 = .ok ()
    · obtain ⟨r, hr, hst⟩ := catImpl_ok_state rp bs false h
      rw [hst]
      obtain ⟨p, hv, hbs, hview, hpad, _⟩ := packet_of_parse bs (hb bs rfl) r hr
      have hc48 := (OpusProps_parse_in_bounds false bs (hb bs rfl) r hr).2
      intro pn hpn
      simp only [catNew, (withToc_frames rp _).2.1, List.mem_append, List.mem_cons, List.mem_replicate] at hpn
      rcases hpn with hpn | rfl | ⟨_, rfl⟩
      · exact hp pn hpn
      · refine ⟨?_, hc48⟩
        intro x hx
        exact hb bs rfl x (List.mem_of_mem_drop (List.mem_of_mem_take hx))
      · exact ⟨fun x hx => (by cases hx), (by omega)⟩
    · rw [(catImpl_reject rp bs false h).2.1]; exact hp

theorem padsOk_run (rp : Rp) (hp : PadsOk rp.pads) (ops : List Op) (hb : OpsOk ops) : PadsOk (run rp ops).pads := by
  induction ops generalizing rp with
  | nil => exact hp
  | cons op ops ih =>
    simp only [run, List.foldl_cons]
    apply ih
    · exact padsOk_step rp hp op (fun bs h => hb bs (by simp [h]))
    · intro bs hbs; exact hb bs (by simp [hbs])

theorem reachable_padsOk {s : Rp} (h : Reachable s) : PadsOk s.pads := by
  obtain ⟨ops, hok, rfl⟩ := h
  exact padsOk_run _ (by intro pn h; simp [Rp.empty] at h) ops hok

/-! ### out_range_impl -/

/-- `out_range_impl` on a valid range: gather, then emit. -/
theorem outRangeImpl_gather (rp : Rp) (hp : PadsOk rp.pads) (b e : Nat) (hb : b < e) (he : e ≤ rp.nbFrames)
    (maxlen : Int) (sd pad : Bool) (exts : Array Ext) :
    outRangeImpl rp b e maxlen sd pad exts =
      emit rp.toc (selFrames rp b e) maxlen sd pad (exts ++ (gathered (rp.pads.take e) 0 b e).toArray) := by
  unfold outRangeImpl
  rw [if_neg (by omega)]
  simp only [Int.toNat_natCast]
  rw [gatherExts_spec _ (fun pn h => hp pn (List.mem_of_mem_take h))]

/-- Fix 374eedae: stored paddings that carry nothing (no extension, or not a well-formed extension
    list) are dropped: the output is that of the extension-free case. -/
theorem outRangeImpl_dropped (rp : Rp) (hp : PadsOk rp.pads) (b e : Nat) (hb : b < e) (he : e ≤ rp.nbFrames)
    (hnil : ∀ pn ∈ rp.pads, padRefs pn.1 pn.2 = []) (maxlen : Int) (sd pad : Bool) :
    outRangeImpl rp b e maxlen sd pad #[] =
      if minSize sd ((selFrames rp b e).map List.length) > maxlen then .err .bufferTooSmall
      else .ok (serialize sd (outPacket rp.toc (selFrames rp b e) maxlen sd pad)) := by
  rw [outRangeImpl_gather rp hp b e hb he, gathered_nil _ (fun pn h => hnil pn (List.mem_of_mem_take h))]
  have hne : selFrames rp b e ≠ [] := by
    intro h
    have : (selFrames rp b e).length = e - b := by unfold Rp.nbFrames at he; simp [selFrames]; omega
    rw [h] at this; simp at this; omega
  simpa using emit_noext rp.toc _ hne maxlen sd pad

theorem extPacket_len (toc : Nat) (frames : List Bytes) (hne : frames ≠ []) (amount : Int) (ser : Bytes) (sd : Bool)
    (h1 : 1 ≤ amount) (h2 : 0 ≤ amount - ser.length - (amount - 1) / 255 - 1) :
    ((serialize sd (extPacket toc frames amount ser)).length : Int) =
      tot3 (frames.map List.length) (sdSize sd ((frames.map List.length).getLastD 0)) + amount := by
  unfold extPacket
  rw [ser_code3 sd _ _ _ _ (by omega) hne]
  rw [tot3_eq _ (by simpa using hne), sumN_map_length, sdSize_eq]
  simp only [padHdr, padData, extPad, Pad.hdr, List.length_append, List.length_cons, List.length_nil,
    List.length_replicate]
  push_cast
  omega

theorem extPacket_padBytes (toc : Nat) (frames : List Bytes) (amount : Int) (ser : Bytes) :
    padBytes (extPacket toc frames amount ser) =
      List.replicate (amount - ser.length - (amount - 1) / 255 - 1).toNat 1 ++ ser := rfl

/-- The padding region the parser reports for a serialised packet is the packet's padding. -/
theorem padding_of_serialize (sd : Bool) (p : Packet) (rest : Bytes) :
    ((serialize sd p ++ rest).drop (view sd p).padOffset).take (view sd p).padLen = padBytes p := by
  simp only [view, Parsed.padOffset, Packet.lens, sumN_map_length]
  have : serialize sd p ++ rest = (header sd p ++ p.frames.flatten) ++ (padBytes p ++ rest) := by simp [serialize]
  rw [this, ← List.length_append, List.drop_left, List.take_left]

/-- The caller's valid extensions together with the gathered ones are valid generator input. -/
theorem all_valid (rp : Rp) (hp : PadsOk rp.pads) (b e : Nat) (exts : Array Ext) (hvx : AllValid exts (e - b)) :
    AllValid (exts ++ (gathered (rp.pads.take e) 0 b e).toArray) (e - b) := by
  apply allValid_of_all
  intro x hx
  simp only [Array.toList_append, List.mem_append] at hx
  rcases hx with hx | hx
  · obtain ⟨j, hj⟩ := List.mem_iff_getElem?.mp hx
    exact hvx j x (by simpa using hj)
  · exact gathered_valid _ (fun pn h => hp pn (List.mem_of_mem_take h)) 0 b e x (by simpa using hx)

/-- `out_range_impl` with extensions, assembled, for whatever bytes `B` the generator writes. -/
theorem outRangeImpl_ext_gen (rp : Rp) (hinv : Inv rp) (hp : PadsOk rp.pads) (b e : Nat) (hb : b < e) (he : e ≤ rp.nbFrames)
    (exts : Array Ext)
    (hpos : 0 < (exts ++ (gathered (rp.pads.take e) 0 b e).toArray).size)
    (B : Bytes) (hG : GenBytes (exts ++ (gathered (rp.pads.take e) 0 b e).toArray) (e - b) B)
    (maxlen : Int) (sd pad : Bool) (bs : Bytes) (h : outRangeImpl rp b e maxlen sd pad exts = .ok bs) :
    ∃ (p : Packet) (k : Nat), Valid p ∧ bs = serialize sd p ∧ p.frames = selFrames rp b e ∧ p.toc / 4 = rp.toc / 4 ∧
      padBytes p = List.replicate k 1 ++ B ∧ (pad = false → k = 0) ∧
      (bs.length : Int) ≤ maxlen ∧ (pad = true → (bs.length : Int) = maxlen) := by
  obtain ⟨hok, hlen⟩ := selFrames_ok rp hinv b e hb he
  have hn48 : (selFrames rp b e).length ≤ 48 := by rw [hlen]; have := hinv.nb_le; omega
  rw [outRangeImpl_gather rp hp b e hb he] at h
  rw [← hlen] at hG
  rw [emit_ext_spec rp.toc _ hok.ne hn48 _ hpos B hG] at h
  simp only [] at h
  split at h
  · simp at h
  · rename_i hfit
    simp only [Res.ok.injEq] at h
    have hLpos := hG.pos
    have hfacts : ∀ (tot : Int) (L : Nat), 0 < L →
        ¬ (tot > maxlen ∨ maxlen - tot < L ∨ tot + L + (extAmount maxlen tot pad L - 1) / 255 + 1 > maxlen) →
        1 ≤ extAmount maxlen tot pad L ∧
        0 ≤ extAmount maxlen tot pad L - (L : Int) - (extAmount maxlen tot pad L - 1) / 255 - 1 ∧
        tot + extAmount maxlen tot pad L ≤ maxlen ∧ (pad = true → tot + extAmount maxlen tot pad L = maxlen) ∧
        (pad = false → (extAmount maxlen tot pad L - (L : Int) - (extAmount maxlen tot pad L - 1) / 255 - 1).toNat = 0) := by
      intro tot L hL hf
      cases pad
      · simp only [extAmount, Bool.false_eq_true, if_false] at hf ⊢
        refine ⟨by omega, by omega, by omega, ?_, ?_⟩
        · intro h; first | exact h.elim | cases h
        · intro _; omega
      · simp only [extAmount, if_true] at hf ⊢
        refine ⟨by omega, by omega, by omega, ?_, ?_⟩
        · intro _; omega
        · intro h; first | exact h.elim | cases h
    obtain ⟨ham1, ham2, hle, hpadlen, hk0⟩ := hfacts _ _ hLpos hfit
    have hl := extPacket_len rp.toc (selFrames rp b e) hok.ne _ _ sd ham1 ham2
    refine ⟨_, _, extPacket_valid rp.toc _ hok _ _ ham1 ham2, h.symm, rfl, ?_, extPacket_padBytes _ _ _ _, hk0, ?_, ?_⟩
    · show (rp.toc / 4 * 4 + 3) / 4 = rp.toc / 4; omega
    · rw [← h, hl]; exact hle
    · intro hpd; rw [← h, hl]; exact hpadlen hpd

/-- `out_range_impl` with extensions as an equation (size clause, examples). -/
theorem outRangeImpl_ext_eq_gen (rp : Rp) (hinv : Inv rp) (hp : PadsOk rp.pads) (b e : Nat) (hb : b < e) (he : e ≤ rp.nbFrames)
    (exts : Array Ext)
    (hpos : 0 < (exts ++ (gathered (rp.pads.take e) 0 b e).toArray).size)
    (B : Bytes) (hG : GenBytes (exts ++ (gathered (rp.pads.take e) 0 b e).toArray) (e - b) B)
    (maxlen : Int) (sd pad : Bool) :
    outRangeImpl rp b e maxlen sd pad exts =
      let L := B.length
      let tot := tot3 ((selFrames rp b e).map List.length) (sdSize sd (((selFrames rp b e).map List.length).getLastD 0))
      let amount := extAmount maxlen tot pad L
      if tot > maxlen ∨ maxlen - tot < L ∨ tot + L + (amount - 1) / 255 + 1 > maxlen then .err .bufferTooSmall
      else .ok (serialize sd (extPacket rp.toc (selFrames rp b e) amount B)) := by
  obtain ⟨hok, hlen⟩ := selFrames_ok rp hinv b e hb he
  have hn48 : (selFrames rp b e).length ≤ 48 := by rw [hlen]; have := hinv.nb_le; omega
  rw [outRangeImpl_gather rp hp b e hb he]
  rw [← hlen] at hG
  rw [emit_ext_spec rp.toc _ hok.ne hn48 _ hpos B hG]

/-- The `NoRepeat` instance. -/
theorem outRangeImpl_ext (rp : Rp) (hinv : Inv rp) (hp : PadsOk rp.pads) (b e : Nat) (hb : b < e) (he : e ≤ rp.nbFrames)
    (exts : Array Ext) (hvx : AllValid exts (e - b))
    (hpos : 0 < (exts ++ (gathered (rp.pads.take e) 0 b e).toArray).size)
    (hnr : NoRepeat (exts ++ (gathered (rp.pads.take e) 0 b e).toArray) (e - b))
    (maxlen : Int) (sd pad : Bool) (bs : Bytes) (h : outRangeImpl rp b e maxlen sd pad exts = .ok bs) :
    ∃ (p : Packet) (k : Nat), Valid p ∧ bs = serialize sd p ∧ p.frames = selFrames rp b e ∧ p.toc / 4 = rp.toc / 4 ∧
      padBytes p = List.replicate k 1 ++ extSer (exts ++ (gathered (rp.pads.take e) 0 b e).toArray) (e - b) ∧
      AllValid (exts ++ (gathered (rp.pads.take e) 0 b e).toArray) (e - b) ∧
      (bs.length : Int) ≤ maxlen ∧ (pad = true → (bs.length : Int) = maxlen) := by
  have hv := all_valid rp hp b e exts hvx
  have hn48 : e - b ≤ 48 := by have := hinv.nb_le; omega
  obtain ⟨p, k, h1, h2, h3, h4, h5, _, h7, h8⟩ := outRangeImpl_ext_gen rp hinv hp b e hb he exts hpos _
    (genBytes_norep _ _ hn48 hv hnr hpos) maxlen sd pad bs h
  exact ⟨p, k, h1, h2, h3, h4, h5, hv, h7, h8⟩

theorem outRangeImpl_ext_eq (rp : Rp) (hinv : Inv rp) (hp : PadsOk rp.pads) (b e : Nat) (hb : b < e) (he : e ≤ rp.nbFrames)
    (exts : Array Ext) (hvx : AllValid exts (e - b))
    (hpos : 0 < (exts ++ (gathered (rp.pads.take e) 0 b e).toArray).size)
    (hnr : NoRepeat (exts ++ (gathered (rp.pads.take e) 0 b e).toArray) (e - b))
    (maxlen : Int) (sd pad : Bool) :
    outRangeImpl rp b e maxlen sd pad exts =
      let all := exts ++ (gathered (rp.pads.take e) 0 b e).toArray
      let L := (extSer all (e - b)).length
      let tot := tot3 ((selFrames rp b e).map List.length) (sdSize sd (((selFrames rp b e).map List.length).getLastD 0))
      let amount := extAmount maxlen tot pad L
      if tot > maxlen ∨ maxlen - tot < L ∨ tot + L + (amount - 1) / 255 + 1 > maxlen then .err .bufferTooSmall
      else .ok (serialize sd (extPacket rp.toc (selFrames rp b e) amount (extSer all (e - b)))) := by
  have hv := all_valid rp hp b e exts hvx
  have hn48 : e - b ≤ 48 := by have := hinv.nb_le; omega
  exact outRangeImpl_ext_eq_gen rp hinv hp b e hb he exts hpos _ (genBytes_norep _ _ hn48 hv hnr hpos) maxlen sd pad

/-- Nothing gathered for this range (whatever lies in stored paddings outside it): the extension-free output. -/
theorem outRangeImpl_nogather (rp : Rp) (hp : PadsOk rp.pads) (b e : Nat) (hb : b < e) (he : e ≤ rp.nbFrames)
    (hnil : gathered (rp.pads.take e) 0 b e = []) (maxlen : Int) (sd pad : Bool) :
    outRangeImpl rp b e maxlen sd pad #[] =
      if minSize sd ((selFrames rp b e).map List.length) > maxlen then .err .bufferTooSmall
      else .ok (serialize sd (outPacket rp.toc (selFrames rp b e) maxlen sd pad)) := by
  rw [outRangeImpl_gather rp hp b e hb he, hnil]
  have hne : selFrames rp b e ≠ [] := by
    intro h
    have : (selFrames rp b e).length = e - b := by unfold Rp.nbFrames at he; simp [selFrames]; omega
    rw [h] at this; simp at this; omega
  simpa using emit_noext rp.toc _ hne maxlen sd pad

theorem padRefs_of_count_zero (p : Bytes) (nf : Nat) (h : Ext.count p p.length nf = .ok 0) : padRefs p nf = [] := by
  unfold padRefs
  rw [h]
  simp only []
  rcases count_zero_parse p p.length nf h ((0 : Nat) : Int) with h1 | h1 <;> rw [h1]

/-- A stored padding that is a canonical extension list carries exactly that list. -/
theorem padRefs_ser (l : List Ext) (nbF : Nat) (hnf : nbF ≤ 48) (hv : ∀ e ∈ l, ValidExt nbF e) (hs : FrameSorted 0 l)
    (hb : BytesOk (serBytes 0 l)) : padRefs (serBytes 0 l) nbF = serRefs 0 0 l := by
  obtain ⟨it, l', s, _, _, _, _, hcount, _, _, hparse, _⟩ := scan_agree (serBytes 0 l) hb nbF hnf
  have h1 := (parse_ser l nbF hnf hv hs ((l.length : Int) + l'.length) (by omega)).1
  have h2 := hparse ((l.length : Int) + l'.length) (by omega)
  rw [h1] at h2
  have hs' : s = .done := by
    apply Decidable.byContradiction; intro hc; simp [hc] at h2
  rw [if_pos hs'] at h2
  have hl : l' = serRefs 0 0 l := by cases h2; rfl
  unfold padRefs
  rw [hcount]
  simp only []
  rw [hparse l'.length (Int.le_refl _), if_pos hs', hl]

end Opus.RepackProofs
