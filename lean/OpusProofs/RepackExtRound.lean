import OpusProofs.RepackExtParse
/-
  C07 helper lemmas, part 14: `opus_repacketizer_out_range_impl` with extensions, assembled:
  the emitted packet is valid, holds the selected frames, and its padding reads back (C16 reader) to
  the stable sort by frame of the gathered, renumbered extensions.
-/
namespace Opus.RepackProofs
open Opus Opus.Framing Opus.FramingSpec Opus.FramingProofs Opus.Repack Opus.Ext Opus.ExtProofs

theorem code3_bts (toc : Nat) (frames : List Bytes) (tot0 maxlen : Int) (sdBytes : Bytes) (pad : Bool) (all : Array Ext)
    (h : tot3 (frames.map List.length) tot0 > maxlen) : code3 toc frames tot0 maxlen sdBytes pad all = .err .bufferTooSmall := by
  unfold code3; simp only []; rw [if_pos h]

theorem firstPass_cases (toc : Nat) (lens : List Nat) (hne : lens ≠ []) (tot0 maxlen : Int) :
    (firstPass toc lens tot0 maxlen = .err .bufferTooSmall ∧ tot3 lens tot0 > maxlen) ∨
    (∃ t h, firstPass toc lens tot0 maxlen = .ok (t, h)) := by
  match lens, hne with
  | [l0], _ =>
    simp only [firstPass]
    split
    · left; refine ⟨rfl, ?_⟩; simp [tot3, isVbr_one]; omega
    · right; exact ⟨_, _, rfl⟩
  | [l0, l1], _ =>
    simp only [firstPass]
    by_cases h : l1 = l0
    · simp only [h, if_true]
      split
      · left; refine ⟨rfl, ?_⟩; simp [tot3, isVbr_two]; omega
      · right; exact ⟨_, _, rfl⟩
    · simp only [h, if_false]
      by_cases hb : tot0 + ↑l0 + ↑l1 + 2 + (if 252 ≤ l0 then 1 else 0) > maxlen
      · left; rw [if_pos hb]; refine ⟨rfl, ?_⟩; simp [tot3, isVbr_two, h, vbrBody]; omega
      · right; rw [if_neg hb]; exact ⟨_, _, rfl⟩
  | _ :: _ :: _ :: _, _ => right; exact ⟨_, _, rfl⟩

/-- With at least one extension the code-3 branch is always taken. -/
theorem emit_ext (toc : Nat) (frames : List Bytes) (hne : frames ≠ []) (maxlen : Int) (sd pad : Bool)
    (all : Array Ext) (hpos : 0 < all.size) :
    emit toc frames maxlen sd pad all =
      code3 toc frames (sdSize sd ((frames.map List.length).getLastD 0)) maxlen
        (if sd then encodeSize ((frames.map List.length).getLastD 0) else []) pad all := by
  unfold emit
  simp only []
  rcases firstPass_cases toc (frames.map List.length) (by simpa using hne)
      (sdSize sd ((frames.map List.length).getLastD 0)) maxlen with ⟨h1, h2⟩ | ⟨t, h, h1⟩
  · rw [h1, code3_bts _ _ _ _ _ _ _ h2]
  · rw [h1]; simp only []
    rw [if_pos (Or.inr (Or.inr hpos))]

/-- The packet emitted with extensions. -/
def extPacket (toc : Nat) (frames : List Bytes) (amount : Int) (ser : Bytes) : Packet :=
  { toc := toc / 4 * 4 + 3, frames, vbr := isVbr (frames.map List.length), pad := some (extPad amount ser) }

theorem extPacket_valid (toc : Nat) (frames : List Bytes) (hok : FramesOk toc frames) (amount : Int) (ser : Bytes)
    (h1 : 1 ≤ amount) (h2 : 0 ≤ amount - ser.length - (amount - 1) / 255 - 1) : Valid (extPacket toc frames amount ser) := by
  have hcfg := fun c hc => frameDur48_cfg toc (List.mem_range.mpr hok.toc_lt) c (List.mem_range.mpr hc)
  unfold extPacket
  have hmod : (toc / 4 * 4 + 3) % 4 = 3 := by omega
  refine ⟨by have := hok.toc_lt; show _ + _ < 256; omega, hok.le, ?_, ?_, ?_, ?_, ?_⟩
  · simp only [Packet.code, hmod]; intro h; omega
  · simp only [Packet.code, hmod]; intro h; omega
  · simp only [Packet.code, hmod]; intro h; omega
  · intro _
    refine ⟨?_, ?_, ?_⟩
    · simp only []; have := List.length_pos_iff.mpr hok.ne; omega
    · simp only []
      rw [(hcfg 3 (by omega)).1]
      have := hok.dur
      have e : 6 * samplesPerFrame toc 8000 * frames.length = 6 * (frames.length * samplesPerFrame toc 8000) := by
        rw [Nat.mul_assoc, Nat.mul_comm (samplesPerFrame toc 8000)]
      rw [e]; omega
    · simp only [Packet.lens]; intro h; exact isVbr_false_allEq _ h
  · intro pd hpd
    simp only [Option.some.injEq] at hpd
    subst hpd
    simp only [extPad, Pad.total, List.length_append, List.length_replicate]
    omega

/-- `emit` with extensions (no repeats): `BUFFER_TOO_SMALL`, or the serialisation of `extPacket`. -/
theorem emit_ext_spec (toc : Nat) (frames : List Bytes) (hne : frames ≠ []) (hn48 : frames.length ≤ 48)
    (all : Array Ext) (hpos : 0 < all.size) (hv : AllValid all frames.length) (hnr : NoRepeat all frames.length)
    (maxlen : Int) (sd pad : Bool) :
    emit toc frames maxlen sd pad all =
      let L := (extSer all frames.length).length
      let tot := tot3 (frames.map List.length) (sdSize sd ((frames.map List.length).getLastD 0))
      let amount := extAmount maxlen tot pad L
      if tot > maxlen ∨ maxlen - tot < L ∨ tot + L + (amount - 1) / 255 + 1 > maxlen then .err .bufferTooSmall
      else .ok (serialize sd (extPacket toc frames amount (extSer all frames.length))) := by
  rw [emit_ext toc frames hne maxlen sd pad all hpos, code3_ext toc frames hne hn48 all hpos hv hnr]
  simp only []
  split
  · rfl
  · unfold extPacket
    rw [ser_code3 sd _ _ _ _ (by omega) hne]
    simp [padHdr, padData, encodeSize_eq]

end Opus.RepackProofs
