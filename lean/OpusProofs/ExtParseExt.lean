import OpusProofs.ExtCount
/-
  C16 helper lemmas, part 7: `opus_packet_extensions_parse_ext` is the stable sort by frame of
  `opus_packet_extensions_parse` (a counting sort driven by the per-frame counts of `count_ext`).
-/
set_option linter.unusedVariables false
namespace Opus.ExtProofs
open Opus Opus.Ext

theorem parseExtLoop_eq (it : Iter) (cap : Int) (cum : List Int) (out : Array (Option ExtRef)) (n : Nat) :
    parseExtLoop it cap cum out n =
    match next it with
    | .ok (it', .ext e) =>
      (match cum[e.frame]?, cum[e.frame + 1]? with
       | some idx, some nxt =>
         if cap ≤ idx then .err .bufferTooSmall
         else if ¬ idx + 1 ≤ nxt then .abort
         else if idx < 0 then .oob
         else parseExtLoop it' cap (cum.set e.frame (idx + 1)) (out.setIfInBounds idx.toNat (some e)) (n + 1)
       | _, _ => .oob)
    | .ok (_, .done) => .ok (out, n)
    | .ok (_, .invalid) => .err .invalidPacket
    | .err e => .err e
    | .oob => .oob
    | .abort => .abort := by
  rw [parseExtLoop]; split <;> simp [*]
  rfl

/-- The body of the `parse_ext` loop applied to a list of extensions. -/
def placeAll (cap : Int) : List ExtRef → List Int → Array (Option ExtRef) → Nat → Res (Array (Option ExtRef) × Nat)
  | [], _, out, n => .ok (out, n)
  | e :: l, cum, out, n =>
    match cum[e.frame]?, cum[e.frame + 1]? with
    | some idx, some nxt =>
      if cap ≤ idx then .err .bufferTooSmall
      else if ¬ idx + 1 ≤ nxt then .abort
      else if idx < 0 then .oob
      else placeAll cap l (cum.set e.frame (idx + 1)) (out.setIfInBounds idx.toNat (some e)) (n + 1)
    | _, _ => .oob

theorem parseExtLoop_iterAll (it : Iter) : ∀ l s, iterAll it = .ok (l, s) →
    ∀ (cap : Int) (cum : List Int) (out : Array (Option ExtRef)) (n : Nat),
    parseExtLoop it cap cum out n =
      match placeAll cap l cum out n with
      | .ok r => if s = .done then .ok r else .err .invalidPacket
      | .err e => .err e
      | .oob => .oob
      | .abort => .abort := by
  fun_induction iterAll it with
  | case1 it it' e h l s hrec ih =>
    intro l0 s0 heq cap cum out n
    simp only [Res.ok.injEq, Prod.mk.injEq] at heq
    obtain ⟨rfl, rfl⟩ := heq
    rw [parseExtLoop_eq, h]
    simp only [placeAll]
    split
    · split
      · rfl
      · split
        · rfl
        · split
          · rfl
          · exact ih _ _ hrec _ _ _ _
    · rfl
  | case2 => intro _ _ h; simp at h
  | case3 => intro _ _ h; simp at h
  | case4 => intro _ _ h; simp at h
  | case5 it it' s hne h =>
    intro l0 s0 heq cap cum out n
    simp only [Res.ok.injEq, Prod.mk.injEq] at heq
    obtain ⟨rfl, rfl⟩ := heq
    rw [parseExtLoop_eq, h]
    cases s with
    | ext e => exact (hne _ rfl).elim
    | done => simp [placeAll]
    | invalid => simp [placeAll]
  | case6 => intro _ _ h; simp at h
  | case7 => intro _ _ h; simp at h
  | case8 => intro _ _ h; simp at h

/-! ### Counting sort -/

/-- Extensions of `l` that belong to frame `f`, in order. -/
def ofFrame (l : List ExtRef) (f : Nat) : List ExtRef := l.filter (fun e => e.frame = f)

theorem frameCount_eq (l : List ExtRef) (f : Nat) : frameCount l f = (ofFrame l f).length := rfl

/-- First output index of frame `f`: `nb_frames_cum[f]` before the loop. -/
def startOf (l : List ExtRef) : Nat → Nat
  | 0 => 0
  | f + 1 => startOf l f + frameCount l f

theorem startOf_mono (l : List ExtRef) {a b : Nat} (h : a ≤ b) : startOf l a ≤ startOf l b := by
  induction b with
  | zero => have : a = 0 := by omega
            subst this; exact Nat.le_refl _
  | succ b ih =>
    by_cases hab : a = b + 1
    · subst hab; exact Nat.le_refl _
    · have := ih (by omega); simp only [startOf]; omega

theorem cumCounts_eq (l : List ExtRef) (k a : Nat) :
    cumCounts ((List.range k).map (fun f => ((frameCount l (a + f) : Nat) : Int))) (startOf l a) =
      (List.range (k + 1)).map (fun f => ((startOf l (a + f) : Nat) : Int)) := by
  induction k generalizing a with
  | zero => simp [cumCounts]
  | succ k ih =>
    rw [List.range_succ_eq_map, List.range_succ_eq_map (n := k + 1)]
    simp only [List.map_cons, List.map_map, cumCounts, Nat.add_zero]
    congr 1
    have e1 : ((frameCount l a : Nat) : Int) + ((startOf l a : Nat) : Int) = ((startOf l (a + 1) : Nat) : Int) := by
      simp only [startOf]; push_cast; omega
    rw [e1]
    have := ih (a + 1)
    have e2 : (fun f => ((frameCount l (a + f) : Nat) : Int)) ∘ Nat.succ = fun f => ((frameCount l (a + 1 + f) : Nat) : Int) := by
      funext f; simp only [Function.comp]; congr 2; omega
    have e3 : (fun f => ((startOf l (a + f) : Nat) : Int)) ∘ Nat.succ = fun f => ((startOf l (a + 1 + f) : Nat) : Int) := by
      funext f; simp only [Function.comp]; congr 2; omega
    rw [e2, e3]
    exact this

theorem frameCount_append (p r : List ExtRef) (f : Nat) : frameCount (p ++ r) f = frameCount p f + frameCount r f := by
  simp [frameCount]

/-- `nb_frames_cum[]` after the extensions `p` (a prefix of `l`) have been placed. -/
def cumAfter (l p : List ExtRef) (nbF : Nat) : List Int :=
  (List.range (nbF + 1)).map (fun f => ((startOf l f + frameCount p f : Nat) : Int))

/-- The counting sort places every extension of `l = p ++ r` into its frame's slot. -/
theorem placeAll_spec (l : List ExtRef) (nbF : Nat) (cap : Int) (hcap : (startOf l nbF : Int) ≤ cap)
    (hfr : ∀ e ∈ l, e.frame < nbF) :
    ∀ (r p : List ExtRef) (out : Array (Option ExtRef)) (n : Nat), p ++ r = l →
      (∀ f k x, f < nbF → (ofFrame p f)[k]? = some x → out[startOf l f + k]? = some (some x)) →
      (cap.toNat ≤ out.size) →
      ∃ out', placeAll cap r (cumAfter l p nbF) out n = .ok (out', n + r.length) ∧ out'.size = out.size ∧
        ∀ f k x, f < nbF → (ofFrame l f)[k]? = some x → out'[startOf l f + k]? = some (some x) := by
  intro r
  induction r with
  | nil =>
    intro p out n hpl hout hsz
    have : p = l := by simpa using hpl
    subst this
    exact ⟨out, rfl, rfl, hout⟩
  | cons e r ih =>
    intro p out n hpl hout hsz
    have he : e ∈ l := by rw [← hpl]; simp
    have hf : e.frame < nbF := hfr e he
    have hcnt : frameCount p e.frame + 1 ≤ frameCount l e.frame := by
      rw [← hpl, frameCount_append]
      have : 1 ≤ frameCount (e :: r) e.frame := by simp [frameCount]
      omega
    have hle : ∀ g, frameCount p g ≤ frameCount l g := by
      intro g; rw [← hpl, frameCount_append]; omega
    have hget1 : (cumAfter l p nbF)[e.frame]? = some ((startOf l e.frame + frameCount p e.frame : Nat) : Int) := by
      simp only [cumAfter, List.getElem?_map]
      rw [List.getElem?_range (by omega)]; rfl
    have hget2 : (cumAfter l p nbF)[e.frame + 1]? =
        some ((startOf l (e.frame + 1) + frameCount p (e.frame + 1) : Nat) : Int) := by
      simp only [cumAfter, List.getElem?_map]
      rw [List.getElem?_range (by omega)]; rfl
    have hs1 : startOf l (e.frame + 1) = startOf l e.frame + frameCount l e.frame := rfl
    have hsN : startOf l (e.frame + 1) ≤ startOf l nbF := startOf_mono l (by omega)
    simp only [placeAll, hget1, hget2]
    have c1 : ¬ (cap ≤ ((startOf l e.frame + frameCount p e.frame : Nat) : Int)) := by push_cast; omega
    have c2 : ¬ ¬ (((startOf l e.frame + frameCount p e.frame : Nat) : Int) + 1 ≤
        ((startOf l (e.frame + 1) + frameCount p (e.frame + 1) : Nat) : Int)) := by push_cast; omega
    have c3 : ¬ (((startOf l e.frame + frameCount p e.frame : Nat) : Int) < 0) := by omega
    simp only [c1, c2, c3, if_false]
    have hcum : (cumAfter l p nbF).set e.frame (((startOf l e.frame + frameCount p e.frame : Nat) : Int) + 1) =
        cumAfter l (p ++ [e]) nbF := by
      apply List.ext_getElem
      · simp [cumAfter]
      · intro i h1 h2
        simp only [cumAfter, List.length_set, List.length_map, List.length_range] at h1
        simp only [cumAfter, List.getElem_set, List.getElem_map, List.getElem_range, frameCount_append]
        by_cases hi : e.frame = i
        · subst hi; simp [frameCount]; omega
        · simp [hi, frameCount]
    rw [hcum]
    have hidx : (((startOf l e.frame + frameCount p e.frame : Nat) : Int)).toNat = startOf l e.frame + frameCount p e.frame := by
      omega
    rw [hidx]
    have hin : startOf l e.frame + frameCount p e.frame < out.size := by omega
    obtain ⟨out', h1, h2, h3⟩ := ih (p ++ [e]) (out.setIfInBounds (startOf l e.frame + frameCount p e.frame) (some e)) (n + 1)
      (by rw [← hpl]; simp) (by
        intro f k x hfn hx
        simp only [ofFrame, List.filter_append] at hx
        by_cases hfe : e.frame = f
        · subst hfe
          simp only [List.filter_cons, decide_true, if_true, List.filter_nil] at hx
          by_cases hk : k < frameCount p e.frame
          · rw [List.getElem?_append_left (by simpa [frameCount] using hk)] at hx
            rw [Array.getElem?_setIfInBounds_ne (by omega)]
            exact hout _ _ _ hfn hx
          · have hk' : k = frameCount p e.frame := by
              have : k < (List.filter (fun e_1 => decide (e_1.frame = e.frame)) p ++ [e]).length := by
                apply Decidable.byContradiction; intro hc
                rw [List.getElem?_eq_none (by omega)] at hx; cases hx
              simp [frameCount] at this hk ⊢; omega
            subst hk'
            rw [List.getElem?_append_right (by simp [frameCount])] at hx
            simp [frameCount] at hx
            subst hx
            simp [hin]
        · have hne : ¬ (decide (e.frame = f) = true) := by simpa using hfe
          simp only [List.filter_cons, hne, if_false, List.filter_nil, List.append_nil, Bool.false_eq_true] at hx
          have hklt : k < frameCount p f := by
            apply Decidable.byContradiction; intro hc
            rw [List.getElem?_eq_none (by simp [frameCount] at hc ⊢; omega)] at hx; cases hx
          have hdis : startOf l e.frame + frameCount p e.frame ≠ startOf l f + k := by
            have hlf := hle f
            rcases Nat.lt_or_gt_of_ne hfe with hlt | hgt
            · have := startOf_mono l (show e.frame + 1 ≤ f by omega)
              omega
            · have := startOf_mono l (show f + 1 ≤ e.frame by omega)
              have hs2 : startOf l (f + 1) = startOf l f + frameCount l f := rfl
              omega
          rw [Array.getElem?_setIfInBounds_ne hdis]
          exact hout _ _ _ hfn hx)
      (by simp only [Array.size_setIfInBounds]; exact hsz)
    refine ⟨out', ?_, ?_, h3⟩
    · rw [h1]; simp only [List.length_cons]; congr 2; omega
    · rw [h2]; simp

theorem startOf_nil (m : Nat) : startOf [] m = 0 := by
  induction m with
  | zero => rfl
  | succ m ih => simp [startOf, ih, frameCount]

theorem startOf_cons (e : ExtRef) (l : List ExtRef) (m : Nat) :
    startOf (e :: l) m = startOf l m + (if e.frame < m then 1 else 0) := by
  induction m with
  | zero => simp [startOf]
  | succ m ih =>
    simp only [startOf, ih, frameCount, List.filter_cons]
    by_cases h1 : e.frame = m
    · subst h1; simp; omega
    · by_cases h2 : e.frame < m
      · have : e.frame < m + 1 := by omega
        simp [h1, h2, this]; omega
      · have : ¬ e.frame < m + 1 := by omega
        simp [h1, h2, this]

theorem startOf_total (l : List ExtRef) (nbF : Nat) (h : ∀ e ∈ l, e.frame < nbF) : startOf l nbF = l.length := by
  induction l with
  | nil => exact startOf_nil nbF
  | cons e l ih =>
    rw [startOf_cons, ih (fun x hx => h x (List.mem_cons_of_mem _ hx))]
    have := h e (List.mem_cons_self ..)
    simp [this]

/-- Stable sort by frame: the extensions of frame 0 in order, then those of frame 1, … -/
def sortByFrame (l : List ExtRef) (nbF : Nat) : List ExtRef := (List.range nbF).flatMap (ofFrame l)

theorem take_start (l : List ExtRef) (nbF : Nat) (out : Array (Option ExtRef))
    (hout : ∀ f k x, f < nbF → (ofFrame l f)[k]? = some x → out[startOf l f + k]? = some (some x))
    (hsz : startOf l nbF ≤ out.size) :
    ∀ m, m ≤ nbF → out.toList.take (startOf l m) = ((List.range m).flatMap (ofFrame l)).map some := by
  intro m
  induction m with
  | zero => intro _; simp [startOf]
  | succ m ih =>
    intro hm
    have hle := startOf_mono l hm
    simp only [startOf] at hle ⊢
    rw [List.take_add, ih (by omega), List.range_succ, List.flatMap_append, List.map_append]
    congr 1
    simp only [List.flatMap_cons, List.flatMap_nil, List.append_nil]
    apply List.ext_getElem?
    intro k
    by_cases hk : k < frameCount l m
    · have hk2 : k < (ofFrame l m).length := by rw [← frameCount_eq]; exact hk
      have hx : (ofFrame l m)[k]? = some (ofFrame l m)[k] := List.getElem?_eq_getElem hk2
      have := hout m k _ (by omega) hx
      rw [List.getElem?_take_of_lt hk, List.getElem?_drop, List.getElem?_map, hx]
      simpa using this
    · rw [List.getElem?_eq_none (by simp only [List.length_take]; omega)]
      rw [List.getElem?_eq_none (by simp only [List.length_map, ← frameCount_eq]; omega)]

/-- `parse_ext` with the counts of `count_ext` and room for all extensions. -/
theorem parseExt_sorted (d : Bytes) (nbFrames : Nat) (hnf : nbFrames ≤ 48) (it : Iter) (l : List ExtRef) (s : Step)
    (hit : iterInit d d.length nbFrames = .ok it) (hall : iterAll it = .ok (l, s))
    (hfr : ∀ e ∈ l, e.frame < nbFrames) (cap : Int) (hcap : (l.length : Int) ≤ cap) :
    parseExt d d.length cap ((List.range nbFrames).map (fun f => ((frameCount l f : Nat) : Int))) nbFrames =
      if s = .done then .ok ((sortByFrame l nbFrames).map some) else .err .invalidPacket := by
  unfold parseExt
  have h1 : ¬ ((nbFrames : Int) > 48) := by omega
  have h2 : ¬ (((List.range nbFrames).map (fun f => ((frameCount l f : Nat) : Int))).length ≠ (nbFrames : Int).toNat) := by
    simp
  simp only [h1, h2, if_false, hit]
  rw [parseExtLoop_iterAll it l s hall]
  have htot := startOf_total l nbFrames hfr
  have hcum : cumCounts ((List.range nbFrames).map (fun f => ((frameCount l f : Nat) : Int))) 0 = cumAfter l [] nbFrames := by
    have := cumCounts_eq l nbFrames 0
    simp only [Nat.zero_add, startOf] at this
    rw [show ((0 : Nat) : Int) = 0 from rfl] at this
    rw [this]
    simp [cumAfter, frameCount]
  rw [hcum]
  obtain ⟨out', hp, hsz, hout⟩ := placeAll_spec l nbFrames cap (by rw [htot]; exact hcap) hfr l []
    (Array.replicate cap.toNat none) 0 (by simp) (by intro f k x _ hx; simp [ofFrame] at hx) (by simp)
  rw [hp]
  simp only [Nat.zero_add]
  by_cases hd : s = .done
  · simp only [hd, if_true]
    have := take_start l nbFrames out' hout (by rw [hsz, htot]; simp; omega) nbFrames (Nat.le_refl _)
    rw [htot] at this
    rw [this]; rfl
  · simp only [hd, if_false]

end Opus.ExtProofs
