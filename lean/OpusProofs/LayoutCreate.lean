import OpusModel.LayoutSpec
import OpusProofs.Layout
/-
  OpusProofs.LayoutCreate — exactly which arguments the multistream decoder / encoder creation
  functions accept (C10 "invalid layouts are rejected at creation").  Core tactics only.
-/
namespace Opus.Layout
open Opus

/-- The argument ranges `opus_multistream_decoder_init/create` demand. -/
def DecArgsOk (channels streams coupled : Int) : Prop :=
  1 ≤ channels ∧ channels ≤ 255 ∧ 1 ≤ streams ∧ 0 ≤ coupled ∧ coupled ≤ streams ∧ streams + coupled ≤ 255

/-- The encoder additionally needs a channel for every coded channel. -/
def EncArgsOk (channels streams coupled : Int) : Prop :=
  DecArgsOk channels streams coupled ∧ streams + coupled ≤ channels

theorem decArgsBad_false_iff (ch st co : Int) : decArgsBad ch st co = false ↔ DecArgsOk ch st co := by
  unfold decArgsBad DecArgsOk
  simp only [Bool.or_eq_false_iff, decide_eq_false_iff_not]
  omega

theorem encArgsBad_false_iff (ch st co : Int) : encArgsBad ch st co = false ↔ EncArgsOk ch st co := by
  unfold encArgsBad EncArgsOk
  simp only [Bool.or_eq_false_iff, decide_eq_false_iff_not, decArgsBad_false_iff]
  unfold DecArgsOk
  omega

/-- The layout stored by a successful init. -/
def storedLayout (ch st co : Int) (m : List Nat) : ChannelLayout :=
  { nbChannels := ch.toNat, nbStreams := st.toNat, nbCoupled := co.toNat, mapping := m.take ch.toNat }

theorem loadLayout_eq (ch st co : Int) (m : List Nat) :
    loadLayout ch st co m = if m.length < ch.toNat then .oob else .ok (storedLayout ch st co m) := rfl

/-- `opus_multistream_decoder_init` succeeds exactly on in-range arguments with a valid layout
    (and a sampling rate the stream decoders accept). -/
theorem decoderInit_ok_iff (innerOk : Bool) (ch st co : Int) (m : List Nat) (l : ChannelLayout) :
    decoderInit innerOk ch st co m = .ok l ↔
      DecArgsOk ch st co ∧ ch.toNat ≤ m.length ∧ LayoutValid (storedLayout ch st co m) ∧ innerOk = true ∧
      l = storedLayout ch st co m := by
  unfold decoderInit
  rw [loadLayout_eq]
  by_cases ha : decArgsBad ch st co = true
  · have : ¬ DecArgsOk ch st co := by
      intro h; rw [(decArgsBad_false_iff _ _ _).2 h] at ha; cases ha
    simp [ha, this]
  · have ha' : decArgsBad ch st co = false := by simpa using ha
    have hok := (decArgsBad_false_iff _ _ _).1 ha'
    simp only [ha', Bool.false_eq_true, if_false]
    by_cases hl : m.length < ch.toNat
    · simp only [hl, if_true]
      constructor
      · intro h; cases h
      · intro h; omega
    · simp only [hl, if_false]
      by_cases hv : validateLayout (storedLayout ch st co m) = true
      · have hv' := (validateLayout_iff _).1 hv
        cases innerOk
        · simp [hv]
        · simp only [hv, Bool.not_true, Bool.false_eq_true, if_false, Res.ok.injEq]
          constructor
          · intro h; exact ⟨hok, by omega, hv', by trivial, h.symm⟩
          · intro h; exact h.2.2.2.2.symm
      · have hv' : ¬ LayoutValid (storedLayout ch st co m) := fun h => hv ((validateLayout_iff _).2 h)
        have hv2 : validateLayout (storedLayout ch st co m) = false := by simpa using hv
        simp [hv2, hv']

/-- Every refusal of `opus_multistream_decoder_init` is `OPUS_BAD_ARG`; the only other outcome is a
    read past a mapping array shorter than `channels` (excluded by the API contract). -/
theorem decoderInit_cases (innerOk : Bool) (ch st co : Int) (m : List Nat) :
    (∃ l, decoderInit innerOk ch st co m = .ok l) ∨ decoderInit innerOk ch st co m = .err .badArg ∨
    (decoderInit innerOk ch st co m = .oob ∧ DecArgsOk ch st co ∧ m.length < ch.toNat) := by
  unfold decoderInit
  rw [loadLayout_eq]
  by_cases ha : decArgsBad ch st co = true
  · simp [ha]
  · have ha' : decArgsBad ch st co = false := by simpa using ha
    have hok := (decArgsBad_false_iff _ _ _).1 ha'
    simp only [ha', Bool.false_eq_true, if_false]
    by_cases hl : m.length < ch.toNat
    · simp [hl, hok]
    · simp only [hl, if_false]
      cases validateLayout (storedLayout ch st co m) <;> cases innerOk <;> simp

theorem decoderCreate_eq (innerOk : Bool) (ch st co : Int) (m : List Nat) :
    decoderCreate innerOk ch st co m = decoderInit innerOk ch st co m := by
  unfold decoderCreate decoderInit
  by_cases ha : decArgsBad ch st co = true <;> simp [ha]

/-- `opus_multistream_encoder_init_impl`. -/
theorem encoderInitImpl_ok_iff (innerOk : Bool) (ch st co : Int) (m : List Nat) (mt : MappingType) (lfe : Int)
    (e : MSEncoder) :
    encoderInitImpl innerOk ch st co m mt lfe = .ok e ↔
      EncArgsOk ch st co ∧ ch.toNat ≤ m.length ∧ LayoutValid (storedLayout ch st co m) ∧
      EncoderLayoutValid (storedLayout ch st co m) ∧
      (mt = .ambisonics → (validateAmbisonics (ch.toNat : Int)).isSome = true) ∧ innerOk = true ∧
      e = { layout := storedLayout ch st co m, lfeStream := if mt ≠ .surround then -1 else lfe, mappingType := mt } := by
  unfold encoderInitImpl
  rw [loadLayout_eq]
  by_cases ha : encArgsBad ch st co = true
  · have : ¬ EncArgsOk ch st co := by
      intro h; rw [(encArgsBad_false_iff _ _ _).2 h] at ha; cases ha
    simp [ha, this]
  · have ha' : encArgsBad ch st co = false := by simpa using ha
    have hok := (encArgsBad_false_iff _ _ _).1 ha'
    simp only [ha', Bool.false_eq_true, if_false]
    by_cases hl : m.length < ch.toNat
    · simp only [hl, if_true]
      constructor
      · intro h; cases h
      · intro h; omega
    · simp only [hl, if_false]
      by_cases hv : validateLayout (storedLayout ch st co m) = true
      · have hv' := (validateLayout_iff _).1 hv
        simp only [hv, Bool.not_true, Bool.false_eq_true, if_false]
        by_cases hev : validateEncoderLayout (storedLayout ch st co m) = true
        · have hev' := (validateEncoderLayout_iff _).1 hev
          simp only [hev, Bool.not_true, Bool.false_eq_true, if_false]
          by_cases hamb : mt = .ambisonics ∧ (validateAmbisonics ((storedLayout ch st co m).nbChannels : Int)).isNone = true
          · have : ¬ (mt = .ambisonics → (validateAmbisonics (ch.toNat : Int)).isSome = true) := by
              intro h
              have h1 := h hamb.1
              have h2 : (validateAmbisonics (ch.toNat : Int)).isNone = true := hamb.2
              cases hq : validateAmbisonics (ch.toNat : Int) <;> rw [hq] at h1 h2 <;> cases h1 <;> cases h2
            rw [if_pos hamb]
            constructor
            · intro h; cases h
            · intro h; exact absurd h.2.2.2.2.1 this
          · have hamb' : mt = .ambisonics → (validateAmbisonics (ch.toNat : Int)).isSome = true := by
              intro h
              cases hq : validateAmbisonics (ch.toNat : Int) with
              | some _ => rfl
              | none =>
                refine absurd ⟨h, ?_⟩ hamb
                show (validateAmbisonics (ch.toNat : Int)).isNone = true
                rw [hq]; rfl
            simp only [hamb, if_false]
            cases innerOk
            · simp
            · simp only [Bool.not_true, Bool.false_eq_true, if_false, Res.ok.injEq]
              constructor
              · intro h; exact ⟨hok, by omega, hv', hev', hamb', by trivial, h.symm⟩
              · intro h; exact h.2.2.2.2.2.2.symm
        · have hev' : ¬ EncoderLayoutValid (storedLayout ch st co m) :=
            fun h => hev ((validateEncoderLayout_iff _).2 h)
          have hev2 : validateEncoderLayout (storedLayout ch st co m) = false := by simpa using hev
          simp [hev2, hev']
      · have hv' : ¬ LayoutValid (storedLayout ch st co m) := fun h => hv ((validateLayout_iff _).2 h)
        have hv2 : validateLayout (storedLayout ch st co m) = false := by simpa using hv
        simp [hv2, hv']

theorem encoderInitImpl_cases (innerOk : Bool) (ch st co : Int) (m : List Nat) (mt : MappingType) (lfe : Int) :
    (∃ e, encoderInitImpl innerOk ch st co m mt lfe = .ok e) ∨
    encoderInitImpl innerOk ch st co m mt lfe = .err .badArg ∨
    (encoderInitImpl innerOk ch st co m mt lfe = .oob ∧ EncArgsOk ch st co ∧ m.length < ch.toNat) := by
  unfold encoderInitImpl
  rw [loadLayout_eq]
  by_cases ha : encArgsBad ch st co = true
  · simp [ha]
  · have ha' : encArgsBad ch st co = false := by simpa using ha
    have hok := (encArgsBad_false_iff _ _ _).1 ha'
    simp only [ha', Bool.false_eq_true, if_false]
    by_cases hl : m.length < ch.toNat
    · simp [hl, hok]
    · simp only [hl, if_false]
      cases validateLayout (storedLayout ch st co m) <;> cases validateEncoderLayout (storedLayout ch st co m) <;>
        cases innerOk <;> simp <;> split <;> simp_all

theorem encoderCreate_eq (innerOk : Bool) (ch st co : Int) (m : List Nat) :
    encoderCreate innerOk ch st co m = encoderInit innerOk ch st co m := by
  unfold encoderCreate encoderInit encoderInitImpl
  by_cases ha : encArgsBad ch st co = true <;> simp [ha]

end Opus.Layout
