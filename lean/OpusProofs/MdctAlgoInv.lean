import OpusProofs.MdctAlgo
/-
  OpusProofs.MdctAlgoInv — clt_mdct_backward_c (celt/mdct.c:268-371) as definitions over ℝ, the proof that it
  computes the textbook IMDCT (`Opus.MdctR.imdct`) with windowed overlap-add, and the code-level reconstruction
  theorem: clt_mdct_forward_c on consecutive frames followed by clt_mdct_backward_c with the output buffer carried
  from call to call returns the input.

  `backwardRaw` / `backwardR` are the real-number twins of `Opus.Mdct.backward` (lean/OpusModel/Mdct.lean): same
  pre-rotation with swapped real/imaginary parts, the N/4-point FFT as the DFT it computes, same post-rotation and
  de-shuffle, same "mirror on both sides for TDAC" loop.

    * `backwardRaw_eq_imdct` : what the post-rotation writes at out[overlap/2 + n] is IMDCT(X)[N/4 + n], n < N/2;
    * `backward_overlap_add` : if out[0 .. overlap/2) still holds what the previous call left there (its un-mirrored
      tail, `backward_tail`), then after the call  out[t] = W(t+z)·IMDCT(X)[t+z] + W(t+z+M)·IMDCT(Xprev)[t+z+M]
      for t < M = N/2  (W = the low-overlap window, z = (M − overlap)/2): windowed overlap-add;
    * `celt_code_tdac*`      : forward on frames τ, τ+1 → backward, backward: out = M/2·scale·(w² + w'²)·x, i.e. the
      input itself for scale = 1/(N/4) (the code's `st->scale`) and a power-complementary window, and within 2⁻²³
      relative for the regenerated CELT window.
-/
namespace Opus.MdctAlgo
open Finset Real Opus.MdctR Opus.MdctWindow

/-- The value the post-rotation loop of clt_mdct_backward_c (mdct.c:318-351) writes at `out[overlap/2 + n]`,
    `n < N/2`, from coefficients `X`. -/
noncomputable def backwardRaw (N : ℕ) (X : ℕ → ℝ) (n : ℕ) : ℝ :=
  let N2 := N / 2
  let N4 := N / 4
  -- pre-rotation (mdct.c:286-314): x1 = *xp1 (+= 2), x2 = *xp2 (-= 2)
  let yr := fun i => X (N2 - 1 - 2 * i) * trigR N i + X (2 * i) * trigR N (N4 + i)
  let yi := fun i => X (2 * i) * trigR N i - X (N2 - 1 - 2 * i) * trigR N (N4 + i)
  -- real and imaginary parts are swapped on purpose: yp[2*rev+1] = yr, yp[2*rev] = yi
  let gr := dftRe N4 yi yr
  let gi := dftIm N4 yi yr
  -- post-rotation: re = G.i, im = G.r;  buf[2j] = re·t0 + im·t1,  buf[N2-1-2j] = re·t1 − im·t0
  if n % 2 = 0 then
    gi (n / 2) * trigR N (n / 2) + gr (n / 2) * trigR N (N4 + n / 2)
  else
    gi ((N2 - 1 - n) / 2) * trigR N (N4 + (N2 - 1 - n) / 2) - gr ((N2 - 1 - n) / 2) * trigR N ((N2 - 1 - n) / 2)

/-- clt_mdct_backward_c: the output buffer (`N/2 + overlap` samples) after the call, `old` being its content before
    the call. -/
noncomputable def backwardR (N overlap : ℕ) (w X old : ℕ → ℝ) (t : ℕ) : ℝ :=
  let N2 := N / 2
  let ov2 := overlap / 2
  -- after the post-rotation: out[ov2 .. ov2+N2) overwritten, the rest untouched
  let pre := fun s => if ov2 ≤ s ∧ s < ov2 + N2 then backwardRaw N X (s - ov2) else old s
  -- mirror on both sides for TDAC (mdct.c:354-370): i < ov2, x1 = out[overlap-1-i], x2 = out[i]
  if t < ov2 then pre t * w (overlap - 1 - t) - pre (overlap - 1 - t) * w t
  else if t < overlap then pre (overlap - 1 - t) * w (overlap - 1 - t) + pre t * w t
  else pre t

/-- **The post-rotation output is the middle half of the IMDCT.** -/
theorem backwardRaw_eq_imdct (Q : ℕ) (hQ : 0 < Q) (X : ℕ → ℝ) (n : ℕ) (hn : n < 2 * Q) :
    backwardRaw (4 * Q) X n = imdct (2 * Q) X (Q + n) := by
  set a : ℕ → ℝ := fun i => X (2 * i) with ha
  set b : ℕ → ℝ := fun i => X (2 * Q - 1 - 2 * i) with hb
  have e2 : 4 * Q / 2 = 2 * Q := by omega
  have e4 : 4 * Q / 4 = Q := by omega
  have hyi : ∀ i, X (2 * i) * trigR (4 * Q) i - X (2 * Q - 1 - 2 * i) * trigR (4 * Q) (Q + i) = rotRe (4 * Q) a b i := by
    intro i; rw [trigR_hi Q i hQ, trigR_lo]; simp only [rotRe, ha, hb]; ring
  have hyr : ∀ i, X (2 * Q - 1 - 2 * i) * trigR (4 * Q) i + X (2 * i) * trigR (4 * Q) (Q + i) = rotIm (4 * Q) a b i := by
    intro i; rw [trigR_hi Q i hQ, trigR_lo]; simp only [rotIm, ha, hb]; ring
  unfold backwardRaw
  simp only [e2, e4, hyr, hyi]
  have hfunr : (fun i => rotRe (4 * Q) a b i) = rotRe (4 * Q) a b := rfl
  have hfuni : (fun i => rotIm (4 * Q) a b i) = rotIm (4 * Q) a b := rfl
  simp only [hfunr, hfuni]
  by_cases hpar : n % 2 = 0
  · rw [if_pos hpar]
    obtain ⟨p, rfl⟩ : ∃ p, n = 2 * p := ⟨n / 2, by omega⟩
    have hp : 2 * p / 2 = p := by omega
    rw [hp, trigR_hi Q p hQ, trigR_lo]
    have core := rot_core_im Q hQ a b p
    rw [imdct_eq_dct4 Q hQ X (2 * p) (2 * Q - 1 - 2 * p) (by omega), dct4_odd Q hQ X p (2 * Q - 1 - 2 * p) (by omega)]
    simp only [ha, hb] at core
    linarith
  · rw [if_neg hpar]
    obtain ⟨p, hp⟩ : ∃ p, n + 2 * p + 1 = 2 * Q := ⟨(2 * Q - 1 - n) / 2, by omega⟩
    have hp' : (2 * Q - 1 - n) / 2 = p := by omega
    rw [hp', trigR_hi Q p hQ, trigR_lo]
    have core := rot_core_re Q hQ a b p
    rw [imdct_eq_dct4 Q hQ X n (2 * p) (by omega), dct4_even Q hQ X p]
    simp only [ha, hb] at core
    linarith

/-! ### symmetries of the IMDCT output -/

theorem imdct_alias_lo (Q : ℕ) (hQ : 0 < Q) (X : ℕ → ℝ) (n n' : ℕ) (h : n + n' + 1 = 2 * Q) :
    imdct (2 * Q) X n' = - imdct (2 * Q) X n := by
  unfold imdct
  rw [← sum_neg_distrib]
  refine sum_congr rfl fun k _ => ?_
  rw [kern_eq_c4, kern_eq_c4, c4_reflect (2 * Q) (n + Q) (n' + Q) k (by omega) (by omega)]
  ring

theorem c4_reflect2 (M m m' k : ℕ) (hM : 0 < M) (h : m + m' + 1 = 4 * M) : c4 M m' k = c4 M m k := by
  unfold c4
  have hM' : (M : ℝ) ≠ 0 := by exact_mod_cast hM.ne'
  have hm : (m' : ℝ) = 4 * M - 1 - m := by
    have := congrArg (Nat.cast : ℕ → ℝ) h
    push_cast at this
    linarith
  have : π / M * ((m' : ℝ) + 1 / 2) * ((k : ℝ) + 1 / 2)
      = (- (π / M * ((m : ℝ) + 1 / 2) * ((k : ℝ) + 1 / 2))) + ((2 * k + 1 : ℕ) : ℝ) * (2 * π) := by
    rw [hm]; push_cast; field_simp; ring
  rw [this, cos_add_nat_mul_two_pi, cos_neg]

theorem imdct_alias_hi (Q : ℕ) (hQ : 0 < Q) (X : ℕ → ℝ) (n n' : ℕ) (h : n + n' + 1 = 6 * Q) :
    imdct (2 * Q) X n' = imdct (2 * Q) X n := by
  unfold imdct
  refine sum_congr rfl fun k _ => ?_
  rw [kern_eq_c4, kern_eq_c4, c4_reflect2 (2 * Q) (n + Q) (n' + Q) k (by omega) (by omega)]

/-! ### the low-overlap window on its regions (`M = 2Q`, `overlap = 2h`, `z = Q − h`) -/

section win
variable (Q h : ℕ) (w : ℕ → ℝ) (hh : h ≤ Q)
include hh

theorem zval' : (2 * Q - 2 * h) / 2 = Q - h := by omega

theorem W_rise (n : ℕ) (h1 : Q - h ≤ n) (h2 : n < Q + h) : extWindow (2 * Q) (2 * h) w n = w (n - (Q - h)) := by
  unfold extWindow; rw [zval' Q h hh]; rw [if_neg (by omega), if_pos (by omega)]

theorem W_flat (n : ℕ) (h1 : Q + h ≤ n) (h2 : n < 3 * Q - h) : extWindow (2 * Q) (2 * h) w n = 1 := by
  unfold extWindow; rw [zval' Q h hh]; rw [if_neg (by omega), if_neg (by omega), if_pos (by omega)]

theorem W_fall (n : ℕ) (h1 : 3 * Q - h ≤ n) (h2 : n < 3 * Q + h) :
    extWindow (2 * Q) (2 * h) w n = w (3 * Q + h - 1 - n) := by
  unfold extWindow; rw [zval' Q h hh]
  rw [if_neg (by omega), if_neg (by omega), if_neg (by omega), if_pos (by omega)]
  congr 1; omega

theorem W_hi (n : ℕ) (h1 : 3 * Q + h ≤ n) : extWindow (2 * Q) (2 * h) w n = 0 := by
  unfold extWindow; rw [zval' Q h hh]
  rw [if_neg (by omega), if_neg (by omega), if_neg (by omega), if_neg (by omega)]

theorem W_lo (n : ℕ) (h1 : n < Q - h) : extWindow (2 * Q) (2 * h) w n = 0 := by
  unfold extWindow; rw [zval' Q h hh]; rw [if_pos h1]

end win

/-- The un-mirrored tail: after any call, `out[N/2 + i]`, `i < overlap/2`, holds `IMDCT(X)[3Q − h + i]`
    (the next call, whose buffer starts `N/2` samples later, finds it at `out[i]`). -/
theorem backward_tail (Q h : ℕ) (hQ : 0 < Q) (hh : h ≤ Q) (w X old : ℕ → ℝ) (i : ℕ) (hi : i < h) :
    backwardR (4 * Q) (2 * h) w X old (2 * Q + i) = imdct (2 * Q) X (3 * Q - h + i) := by
  unfold backwardR
  have e2 : 4 * Q / 2 = 2 * Q := by omega
  have eh : 2 * h / 2 = h := by omega
  simp only [e2, eh]
  rw [if_neg (by omega), if_neg (by omega), if_pos (by omega), backwardRaw_eq_imdct Q hQ X _ (by omega)]
  congr 1; omega

/-- **clt_mdct_backward_c = IMDCT + windowed overlap-add** with the tail the previous call left. -/
theorem backward_overlap_add (Q h : ℕ) (hQ : 0 < Q) (hh : h ≤ Q) (w X Xprev old : ℕ → ℝ)
    (hold : ∀ i, i < h → old i = imdct (2 * Q) Xprev (3 * Q - h + i)) (t : ℕ) (ht : t < 2 * Q) :
    backwardR (4 * Q) (2 * h) w X old t
      = extWindow (2 * Q) (2 * h) w (t + (Q - h)) * imdct (2 * Q) X (t + (Q - h))
        + extWindow (2 * Q) (2 * h) w (t + (Q - h) + 2 * Q) * imdct (2 * Q) Xprev (t + (Q - h) + 2 * Q) := by
  unfold backwardR
  have e2 : 4 * Q / 2 = 2 * Q := by omega
  have eh : 2 * h / 2 = h := by omega
  simp only [e2, eh]
  by_cases c1 : t < h
  · rw [if_pos c1, if_neg (by omega), if_pos (by omega), hold t c1, backwardRaw_eq_imdct Q hQ X _ (by omega)]
    rw [W_rise Q h w hh _ (by omega) (by omega), W_fall Q h w hh _ (by omega) (by omega)]
    have a1 : t + (Q - h) - (Q - h) = t := by omega
    have a2 : 3 * Q + h - 1 - (t + (Q - h) + 2 * Q) = 2 * h - 1 - t := by omega
    have a3 : t + (Q - h) + 2 * Q = 3 * Q - h + t := by omega
    have a4 : imdct (2 * Q) X (t + (Q - h)) = - imdct (2 * Q) X (Q + (2 * h - 1 - t - h)) :=
      imdct_alias_lo Q hQ X _ _ (by omega)
    rw [a1, a2, a3, a4]; ring
  · rw [if_neg c1]
    by_cases c2 : t < 2 * h
    · rw [if_pos c2, if_neg (by omega), if_pos (by omega), hold _ (by omega), backwardRaw_eq_imdct Q hQ X _ (by omega)]
      rw [W_rise Q h w hh _ (by omega) (by omega), W_fall Q h w hh _ (by omega) (by omega)]
      have a1 : t + (Q - h) - (Q - h) = t := by omega
      have a2 : 3 * Q + h - 1 - (t + (Q - h) + 2 * Q) = 2 * h - 1 - t := by omega
      have a3 : Q + (t - h) = t + (Q - h) := by omega
      have a4 : imdct (2 * Q) Xprev (t + (Q - h) + 2 * Q) = imdct (2 * Q) Xprev (3 * Q - h + (2 * h - 1 - t)) :=
        imdct_alias_hi Q hQ Xprev _ _ (by omega)
      rw [a1, a2, a3, a4]; ring
    · rw [if_neg c2, if_pos (by omega), backwardRaw_eq_imdct Q hQ X _ (by omega)]
      rw [W_flat Q h w hh _ (by omega) (by omega), W_hi Q h w hh _ (by omega)]
      have a3 : Q + (t - h) = t + (Q - h) := by omega
      rw [a3]; ring

/-! ### forward → backward on consecutive frames -/

/-- The block of frame `s` is the window times the signal: `blockR` of the input buffer `x(s + z + ·)`. -/
theorem blockR_eq (Q q : ℕ) (hq : 2 * q ≤ Q) (w x : ℕ → ℝ) (s n : ℕ) :
    blockR (2 * Q) (4 * q) w (fun j => x (s + (Q - 2 * q) + j)) n = extWindow (2 * Q) (4 * q) w n * x (s + n) := by
  unfold blockR
  rw [zval Q q hq]
  by_cases c : n < Q - 2 * q ∨ 2 * (2 * Q) - (Q - 2 * q) ≤ n
  · rw [if_pos c]
    have e : 4 * q = 2 * (2 * q) := by ring
    rcases c with c | c
    · rw [e, W_lo Q (2 * q) w hq n c]; ring
    · rw [e, W_hi Q (2 * q) w hq n (by omega)]; ring
  · rw [if_neg c]
    beta_reduce
    have : s + (Q - 2 * q) + (n - (Q - 2 * q)) = s + n := by omega
    rw [this]

/-- **Code-level time-domain alias cancellation** (any window table): run clt_mdct_forward_c on the frames that start
    at samples `s` and `s + M` (`M = N/2`, input buffers `x(s + z + ·)`), then clt_mdct_backward_c on the first result
    into any buffer and on the second result into the buffer `M` samples further.  Every sample of the second frame's
    output is  `scale·M/2·(W(n)² + W(n+M)²)·x`  at the position of the first sample of the overlap-add — expressed with
    `wola`, the quantity of `mdct_tdac`. -/
theorem celt_code_wola (Q q : ℕ) (hQ : 0 < Q) (hq : 2 * q ≤ Q) (w x old0 : ℕ → ℝ) (scale : ℝ) (s t : ℕ) (ht : t < 2 * Q) :
    let z := Q - 2 * q
    let Xa := forwardR (4 * Q) (4 * q) w (fun j => x (s + z + j)) scale
    let Xb := forwardR (4 * Q) (4 * q) w (fun j => x (s + 2 * Q + z + j)) scale
    let bufA := backwardR (4 * Q) (4 * q) w Xa old0
    let bufB := backwardR (4 * Q) (4 * q) w Xb (fun i => bufA (2 * Q + i))
    bufB t = scale * (wola (2 * Q) (extWindow (2 * Q) (4 * q) w) x (s + 2 * Q) (t + z)
                      + wola (2 * Q) (extWindow (2 * Q) (4 * q) w) x s (t + z + 2 * Q)) := by
  intro z Xa Xb bufA bufB
  have e : 4 * q = 2 * (2 * q) := by ring
  have hXa : ∀ m, m < 2 * Q → Xa m = scale * mdct (2 * Q) (fun n => extWindow (2 * Q) (4 * q) w n * x (s + n)) m := by
    intro m hm
    show forwardR (4 * Q) (4 * q) w (fun j => x (s + z + j)) scale m = _
    rw [forward_eq_mdct Q q hQ hq w _ scale m hm]
    congr 2; funext n; exact blockR_eq Q q hq w x s n
  have hXb : ∀ m, m < 2 * Q → Xb m = scale * mdct (2 * Q) (fun n => extWindow (2 * Q) (4 * q) w n * x (s + 2 * Q + n)) m := by
    intro m hm
    show forwardR (4 * Q) (4 * q) w (fun j => x (s + 2 * Q + z + j)) scale m = _
    rw [forward_eq_mdct Q q hQ hq w _ scale m hm]
    congr 2; funext n; exact blockR_eq Q q hq w x (s + 2 * Q) n
  -- the IMDCT only reads coefficients below M, and is linear
  have himdct : ∀ (X : ℕ → ℝ) (f : ℕ → ℝ) (n : ℕ), (∀ m, m < 2 * Q → X m = scale * f m) →
      imdct (2 * Q) X n = scale * imdct (2 * Q) f n := by
    intro X f n hX
    unfold imdct
    rw [mul_sum]
    refine sum_congr rfl fun k hk => ?_
    rw [hX k (mem_range.mp hk)]; ring
  have hold : ∀ i, i < 2 * q → (fun i => bufA (2 * Q + i)) i = imdct (2 * Q) Xa (3 * Q - 2 * q + i) := by
    intro i hi
    show backwardR (4 * Q) (4 * q) w Xa old0 (2 * Q + i) = _
    rw [e]; exact backward_tail Q (2 * q) hQ hq w Xa old0 i hi
  show backwardR (4 * Q) (4 * q) w Xb (fun i => bufA (2 * Q + i)) t = _
  rw [e, backward_overlap_add Q (2 * q) hQ hq w Xb Xa _ hold t ht, ← e]
  rw [himdct Xb _ _ hXb, himdct Xa _ _ hXa]
  unfold wola
  ring

/-- The gain with which a sample comes back: `W(n)² + W(n+M)²` inside the first half of the block (where two
    blocks overlap), 1 in the part of the second half that is final after this call. -/
noncomputable def codeGain (Q q : ℕ) (w : ℕ → ℝ) (t : ℕ) : ℝ :=
  if t + (Q - 2 * q) < 2 * Q then
    extWindow (2 * Q) (4 * q) w (t + (Q - 2 * q)) ^ 2 + extWindow (2 * Q) (4 * q) w (t + (Q - 2 * q) + 2 * Q) ^ 2
  else 1

/-- **Forward → backward of the code, any window table**: with `scale = 1/(N/4)` (the code's `st->scale`) the
    second frame's output buffer holds the input sample times `codeGain` — all aliasing terms cancel. -/
theorem celt_code_gain (Q q : ℕ) (hQ : 0 < Q) (hq : 2 * q ≤ Q) (w x old0 : ℕ → ℝ) (s t : ℕ) (ht : t < 2 * Q) :
    let z := Q - 2 * q
    let scale : ℝ := 1 / (Q : ℝ)
    let Xa := forwardR (4 * Q) (4 * q) w (fun j => x (s + z + j)) scale
    let Xb := forwardR (4 * Q) (4 * q) w (fun j => x (s + 2 * Q + z + j)) scale
    let bufA := backwardR (4 * Q) (4 * q) w Xa old0
    let bufB := backwardR (4 * Q) (4 * q) w Xb (fun i => bufA (2 * Q + i))
    bufB t = codeGain Q q w t * x (s + 2 * Q + z + t) := by
  intro z scale Xa Xb bufA bufB
  have hQ' : (Q : ℝ) ≠ 0 := by exact_mod_cast hQ.ne'
  have hov : 4 * q ≤ 2 * Q := by omega
  have hpar : 2 ∣ (2 * Q - 4 * q) := ⟨Q - 2 * q, by omega⟩
  have hsym := extWindow_symm (2 * Q) (4 * q) w hov hpar
  have key := celt_code_wola Q q hQ hq w x old0 scale s t ht
  show backwardR (4 * Q) (4 * q) w Xb (fun i => bufA (2 * Q + i)) t = _
  rw [key]
  have hs : scale = 1 / (Q : ℝ) := rfl
  unfold codeGain
  by_cases c : t + z < 2 * Q
  · -- the sample lies in the first half of block s+M: it overlaps the second half of block s.
    -- `tdac_symm` is stated for block starts that are multiples of M; shift the signal by s instead
    rw [if_pos c]
    have h2 := tdac_symm (2 * Q) (extWindow (2 * Q) (4 * q) w) (fun m => x (s + m)) hsym 0 (t + z) c
    simp only [Nat.zero_add, Nat.one_mul, Nat.zero_mul] at h2
    have e1 : wola (2 * Q) (extWindow (2 * Q) (4 * q) w) (fun m => x (s + m)) (2 * Q) (t + z)
        = wola (2 * Q) (extWindow (2 * Q) (4 * q) w) x (s + 2 * Q) (t + z) := by
      unfold wola; congr 3; funext m; ring_nf
    have e2 : wola (2 * Q) (extWindow (2 * Q) (4 * q) w) (fun m => x (s + m)) 0 (t + z + 2 * Q)
        = wola (2 * Q) (extWindow (2 * Q) (4 * q) w) x s (t + z + 2 * Q) := by
      unfold wola; congr 3; funext m; congr 2; exact Nat.zero_add m
    rw [e1, e2] at h2
    rw [h2]
    have : s + (2 * Q + (t + z)) = s + 2 * Q + z + t := by ring
    rw [this, hs]; push_cast; field_simp
    exact mul_comm _ _
  · -- the sample lies in the second half of block s+M, where the window is 1 and the neighbours' windows are 0
    rw [if_neg c]
    have hn1 : 2 * Q ≤ t + z := by omega
    have e : 4 * q = 2 * (2 * q) := by ring
    have hWn : extWindow (2 * Q) (4 * q) w (t + z) = 1 := by
      rw [e]; exact W_flat Q (2 * q) w hq _ (by omega) (by omega)
    have hW2 : extWindow (2 * Q) (4 * q) w (t + z + 2 * Q) = 0 := by
      rw [e]; exact W_hi Q (2 * q) w hq _ (by omega)
    have hW3 : extWindow (2 * Q) (4 * q) w (3 * (2 * Q) - 1 - (t + z)) = 0 := by
      rw [e]; exact W_hi Q (2 * q) w hq _ (by omega)
    unfold wola
    rw [imdct_mdct_hi (2 * Q) _ (t + z) hn1 (by omega)]
    rw [hWn, hW2, hW3]
    have : s + 2 * Q + (t + z) = s + 2 * Q + z + t := by ring
    rw [this, hs]; push_cast; field_simp; ring

/-- The gain is within the short window's power-complementarity defect of 1. -/
theorem codeGain_near_one (Q q : ℕ) (hq : 2 * q ≤ Q) (w : ℕ → ℝ) (ε : ℝ) (hε : 0 ≤ ε)
    (hpb : ∀ i, i < 4 * q → |w i ^ 2 + w (4 * q - 1 - i) ^ 2 - 1| ≤ ε) (t : ℕ) :
    |codeGain Q q w t - 1| ≤ ε := by
  unfold codeGain
  split
  · next c =>
    rw [extWindow_pc (2 * Q) (4 * q) w (by omega) ⟨Q - 2 * q, by omega⟩ _ c]
    split
    · next hc => exact hpb _ (by omega)
    · simpa using hε
  · simpa using hε

/-- Power-complementary short window ⇒ **the code reconstructs its input exactly**, every sample of the frame. -/
theorem celt_code_tdac (Q q : ℕ) (hQ : 0 < Q) (hq : 2 * q ≤ Q) (w x old0 : ℕ → ℝ)
    (hpb : ∀ i, i < 4 * q → w i ^ 2 + w (4 * q - 1 - i) ^ 2 = 1) (s t : ℕ) (ht : t < 2 * Q) :
    let z := Q - 2 * q
    let scale : ℝ := 1 / (Q : ℝ)
    let Xa := forwardR (4 * Q) (4 * q) w (fun j => x (s + z + j)) scale
    let Xb := forwardR (4 * Q) (4 * q) w (fun j => x (s + 2 * Q + z + j)) scale
    let bufA := backwardR (4 * Q) (4 * q) w Xa old0
    let bufB := backwardR (4 * Q) (4 * q) w Xb (fun i => bufA (2 * Q + i))
    bufB t = x (s + 2 * Q + z + t) := by
  intro z scale Xa Xb bufA bufB
  have h := celt_code_gain Q q hQ hq w x old0 s t ht
  have hg : codeGain Q q w t = 1 := by
    have := codeGain_near_one Q q hq w 0 (le_refl 0) (fun i hi => by rw [hpb i hi]; simp) t
    have h0 : codeGain Q q w t - 1 = 0 := abs_nonpos_iff.mp this
    linarith
  show backwardR (4 * Q) (4 * q) w Xb (fun i => bufA (2 * Q + i)) t = _
  rw [h, hg, one_mul]

/-- Approximately power-complementary window: the code's reconstruction error is at most `ε·|x|`. -/
theorem celt_code_tdac_approx (Q q : ℕ) (hQ : 0 < Q) (hq : 2 * q ≤ Q) (w x old0 : ℕ → ℝ) (ε : ℝ) (hε : 0 ≤ ε)
    (hpb : ∀ i, i < 4 * q → |w i ^ 2 + w (4 * q - 1 - i) ^ 2 - 1| ≤ ε) (s t : ℕ) (ht : t < 2 * Q) :
    let z := Q - 2 * q
    let scale : ℝ := 1 / (Q : ℝ)
    let Xa := forwardR (4 * Q) (4 * q) w (fun j => x (s + z + j)) scale
    let Xb := forwardR (4 * Q) (4 * q) w (fun j => x (s + 2 * Q + z + j)) scale
    let bufA := backwardR (4 * Q) (4 * q) w Xa old0
    let bufB := backwardR (4 * Q) (4 * q) w Xb (fun i => bufA (2 * Q + i))
    |bufB t - x (s + 2 * Q + z + t)| ≤ ε * |x (s + 2 * Q + z + t)| := by
  intro z scale Xa Xb bufA bufB
  have h := celt_code_gain Q q hQ hq w x old0 s t ht
  show |backwardR (4 * Q) (4 * q) w Xb (fun i => bufA (2 * Q + i)) t - _| ≤ _
  rw [h]
  have : codeGain Q q w t * x (s + 2 * Q + z + t) - x (s + 2 * Q + z + t)
      = (codeGain Q q w t - 1) * x (s + 2 * Q + z + t) := by ring
  rw [this, abs_mul]
  exact mul_le_mul_of_nonneg_right (codeGain_near_one Q q hq w ε hε hpb t) (abs_nonneg _)

/-- **The static CELT mode**: transform sizes N = 1920, 960, 480, 240 (`N/4 = Q ∈ {480, 240, 120, 60}`) with the
    regenerated 120-sample window: forward → backward of the code returns the input within 2⁻²³ relative, in exact
    arithmetic. -/
theorem celt_code_tdac_window (Q : ℕ) (hQ : 60 ≤ Q) (x old0 : ℕ → ℝ) (s t : ℕ) (ht : t < 2 * Q) :
    let z := Q - 60
    let scale : ℝ := 1 / (Q : ℝ)
    let Xa := forwardR (4 * Q) 120 windowR (fun j => x (s + z + j)) scale
    let Xb := forwardR (4 * Q) 120 windowR (fun j => x (s + 2 * Q + z + j)) scale
    let bufA := backwardR (4 * Q) 120 windowR Xa old0
    let bufB := backwardR (4 * Q) 120 windowR Xb (fun i => bufA (2 * Q + i))
    |bufB t - x (s + 2 * Q + z + t)| ≤ 1 / 2 ^ 23 * |x (s + 2 * Q + z + t)| :=
  celt_code_tdac_approx Q 30 (by omega) (by omega) windowR x old0 (1 / 2 ^ 23) (by positivity)
    (fun i hi => window_pc_real i (by simpa [Opus.Gen.Window.overlap] using hi)) s t ht

end Opus.MdctAlgo
