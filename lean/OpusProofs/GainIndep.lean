import OpusProofs.DecSkelFrame
import OpusProofs.DecSkelShift
/-
  OpusProofs.GainIndep — the decoder gain touches nothing but the gain pass: simulation of the decoder skeleton
  (`OpusModel/DecSkel.lean`, C01) under `gz` = "set `decode_gain` to 0 and erase the gain-pass events from the log".
  For every function `f` of the skeleton,  `f (gz r) = gz (f r)`:  running with gain 0 is the same as running with
  any gain and then forgetting the gain and the gain events.
-/
namespace Opus.DecSkel

/-- the gain pass of a frame (`stepGain`, site 11) -/
def notGain : Ev → Bool
  | .acc 11 _ _ => false
  | _ => true

def zg (st : DecState) : DecState := { st with decode_gain := 0 }

/-- forget the gain and the gain-pass events -/
def gz (r : Run) : Run := { st := zg r.st, k := r.k, log := r.log.filter notGain }

def gzRes {α : Type} (x : α × Run) : α × Run := (x.1, gz x.2)

@[simp] theorem gz_k (r : Run) : (gz r).k = r.k := rfl
@[simp] theorem gz_st (r : Run) : (gz r).st = zg r.st := rfl
@[simp] theorem zg_Fs (st : DecState) : (zg st).Fs = st.Fs := rfl
@[simp] theorem zg_channels (st : DecState) : (zg st).channels = st.channels := rfl
@[simp] theorem zg_dc (st : DecState) : (zg st).dc = st.dc := rfl
@[simp] theorem zg_gain (st : DecState) : (zg st).decode_gain = 0 := rfl
@[simp] theorem zg_sch (st : DecState) : (zg st).stream_channels = st.stream_channels := rfl
@[simp] theorem zg_bw (st : DecState) : (zg st).bandwidth = st.bandwidth := rfl
@[simp] theorem zg_mode (st : DecState) : (zg st).mode = st.mode := rfl
@[simp] theorem zg_pm (st : DecState) : (zg st).prev_mode = st.prev_mode := rfl
@[simp] theorem zg_fsz (st : DecState) : (zg st).frame_size = st.frame_size := rfl
@[simp] theorem zg_pr (st : DecState) : (zg st).prev_redundancy = st.prev_redundancy := rfl
@[simp] theorem zg_lpd (st : DecState) : (zg st).last_packet_duration = st.last_packet_duration := rfl
@[simp] theorem zg_zg (st : DecState) : zg (zg st) = zg st := rfl
@[simp] theorem F20_zg (st : DecState) : F20 (zg st) = F20 st := rfl
@[simp] theorem F10_zg (st : DecState) : F10 (zg st) = F10 st := rfl
@[simp] theorem F5_zg (st : DecState) : F5 (zg st) = F5 st := rfl
@[simp] theorem F2_5_zg (st : DecState) : F2_5 (zg st) = F2_5 st := rfl
@[simp] theorem transBuf_zg (st : DecState) : transBuf (zg st) = transBuf st := rfl
@[simp] theorem silkBuf_zg (st : DecState) : silkBuf (zg st) = silkBuf st := rfl
@[simp] theorem redBuf_zg (st : DecState) (red : Red) : redBuf (zg st) red = redBuf st red := rfl
@[simp] theorem redArgs_zg (st : DecState) (b : Body) (red : Red) (site : Nat) : redArgs (zg st) b red site = redArgs st b red site := rfl
@[simp] theorem wantTransition_zg (st : DecState) (b : Body) : wantTransition (zg st) b = wantTransition st b := rfl
@[simp] theorem validateOk_zg (st : DecState) : validateOk (zg st) = validateOk st := rfl

theorem gz_push {r : Run} {e : Ev} (h : notGain e = true) : gz (r.push e) = (gz r).push e := by
  unfold gz Run.push; simp [List.filter_cons, h]
theorem gz_push_gain (r : Run) (p : Ptr) (n : Int) : gz (r.push (.acc 11 p n)) = gz r := by
  unfold gz Run.push; simp [List.filter_cons, notGain]
theorem gz_tick (r : Run) : gz r.tick = (gz r).tick := rfl
theorem gz_setSt (r : Run) (s : DecState) : gz (r.setSt s) = (gz r).setSt (zg s) := rfl
@[simp] theorem gz_gz (r : Run) : gz (gz r) = gz r := by
  unfold gz; simp [List.filter_filter]

theorem bindRun_gz {α β : Type} (x : Out α × Run) (f : α → Run → Out β × Run)
    (hf : ∀ a r, f a (gz r) = gzRes (f a r)) : bindRun (gzRes x) f = gzRes (bindRun x f) := by
  obtain ⟨o, r⟩ := x
  cases o with
  | ret a => exact hf a r
  | abort => rfl
  | hang => rfl

/-! ### CELT stage -/

theorem celtCall_gz (o : Oracle) (a : CeltArgs) (p : Ptr) (r : Run) : celtCall o a p (gz r) = gzRes (celtCall o a p r) := by
  unfold celtCall gzRes
  simp only [gz_k, gz_tick]
  rw [gz_push (by rfl)]; rfl

theorem stepRedC2S_gz (o : Oracle) (b : Body) (red : Red) (r : Run) : stepRedC2S o b red (gz r) = gz (stepRedC2S o b red r) := by
  unfold stepRedC2S
  split
  · simp only [gz_st, redArgs_zg, redBuf_zg, celtCall_gz, gzRes]
  · rfl

theorem stepMainCelt_gz (o : Oracle) (b : Body) (red : Red) (r : Run) :
    stepMainCelt o b red (gz r) = gzRes (stepMainCelt o b red r) := by
  unfold stepMainCelt
  simp only [gz_st, zg_Fs, zg_channels, zg_pm, zg_pr, F20_zg, F2_5_zg, celtCall_gz]
  split
  · rfl
  · split
    · rfl
    · rfl

theorem stepRedS2C_gz (o : Oracle) (b : Body) (red : Red) (r : Run) : stepRedS2C o b red (gz r) = gz (stepRedS2C o b red r) := by
  unfold stepRedS2C
  simp only [gz_st, zg_channels, F2_5_zg, redArgs_zg, redBuf_zg, celtCall_gz, gzRes]
  split
  · rename_i h; rw [gz_push (by rfl), gz_push (by rfl)]
  · rfl

theorem stepRedCopy_gz (b : Body) (red : Red) (r : Run) : stepRedCopy b red (gz r) = gz (stepRedCopy b red r) := by
  unfold stepRedCopy
  show (if red.redundancy ≠ 0 ∧ red.celt_to_silk ≠ 0 ∧ (r.st.prev_mode ≠ MODE_SILK ∨ r.st.prev_redundancy ≠ 0) then
      ((gz r).push (.acc 5 (redBuf r.st red) (2 * F2_5 r.st * r.st.channels))).push
        (.acc 6 b.pcm (2 * F2_5 r.st * r.st.channels)) else gz r) =
    gz (if red.redundancy ≠ 0 ∧ red.celt_to_silk ≠ 0 ∧ (r.st.prev_mode ≠ MODE_SILK ∨ r.st.prev_redundancy ≠ 0) then
      (r.push (.acc 5 (redBuf r.st red) (2 * F2_5 r.st * r.st.channels))).push
        (.acc 6 b.pcm (2 * F2_5 r.st * r.st.channels)) else r)
  split
  · rw [gz_push (by rfl), gz_push (by rfl)]
  · rfl

theorem stepTransFade_gz (b : Body) (tr : Bool) (r : Run) : stepTransFade b tr (gz r) = gz (stepTransFade b tr r) := by
  unfold stepTransFade
  show (if tr = true then
      if b.audiosize ≥ F5 r.st then
        ((gz r).push (.acc 7 (transBuf r.st) (2 * F2_5 r.st * r.st.channels))).push (.acc 8 b.pcm (2 * F2_5 r.st * r.st.channels))
      else ((gz r).push (.acc 9 (transBuf r.st) (F2_5 r.st * r.st.channels))).push (.acc 10 b.pcm (F2_5 r.st * r.st.channels))
    else gz r) =
    gz (if tr = true then
      if b.audiosize ≥ F5 r.st then
        (r.push (.acc 7 (transBuf r.st) (2 * F2_5 r.st * r.st.channels))).push (.acc 8 b.pcm (2 * F2_5 r.st * r.st.channels))
      else (r.push (.acc 9 (transBuf r.st) (F2_5 r.st * r.st.channels))).push (.acc 10 b.pcm (F2_5 r.st * r.st.channels))
    else r)
  split
  · split
    · rw [gz_push (by rfl), gz_push (by rfl)]
    · rw [gz_push (by rfl), gz_push (by rfl)]
  · rfl

/-- the one place where the gain matters: with gain 0 nothing happens; otherwise one event, which `gz` erases -/
theorem stepGain_gz (b : Body) (r : Run) : stepGain b (gz r) = gz (stepGain b r) := by
  unfold stepGain
  simp only [gz_st, zg_gain, ne_eq, not_true_eq_false, if_false, apply_ite gz, gz_push_gain, ite_self]

theorem stepFinish_gz (b : Body) (red : Red) (r : Run) : stepFinish b red (gz r) = gz (stepFinish b red r) := rfl

theorem celtStage_gz (o : Oracle) (b : Body) (red : Red) (tr : Bool) (r : Run) :
    celtStage o b red tr (gz r) = gzRes (celtStage o b red tr r) := by
  unfold celtStage
  simp only [stepRedC2S_gz, stepMainCelt_gz, gzRes, stepRedS2C_gz, stepRedCopy_gz, stepTransFade_gz, stepGain_gz,
    stepFinish_gz]

/-! ### SILK stage -/

theorem silkStep_gz (o : Oracle) (lost fsz decoded : Int) (p : Ptr) (tell : Int) (r : Run) :
    (silkStep o lost fsz decoded p tell (gz r)).err = (silkStep o lost fsz decoded p tell r).err ∧
    (silkStep o lost fsz decoded p tell (gz r)).n = (silkStep o lost fsz decoded p tell r).n ∧
    (silkStep o lost fsz decoded p tell (gz r)).tell = (silkStep o lost fsz decoded p tell r).tell ∧
    (silkStep o lost fsz decoded p tell (gz r)).run = gz (silkStep o lost fsz decoded p tell r).run := by
  by_cases c1 : (o.silk r.k
      { payloadSize_ms := r.st.dc.payloadSize_ms, internalSampleRate := r.st.dc.internalSampleRate,
        nChannelsInternal := r.st.dc.nChannelsInternal, nChannelsAPI := r.st.dc.nChannelsAPI,
        API_sampleRate := r.st.dc.API_sampleRate, lostFlag := lost, newPacketFlag := if decoded = 0 then 1 else 0 }).1 ≠ 0 ∧ lost = 0
  · have L : silkStep o lost fsz decoded p tell (gz r) = _ := if_pos c1
    have R : silkStep o lost fsz decoded p tell r = _ := if_pos c1
    rw [L, R]
    exact ⟨rfl, rfl, rfl, by rw [gz_push (by rfl), gz_tick]; rfl⟩
  · by_cases c2 : (o.silk r.k
        { payloadSize_ms := r.st.dc.payloadSize_ms, internalSampleRate := r.st.dc.internalSampleRate,
          nChannelsInternal := r.st.dc.nChannelsInternal, nChannelsAPI := r.st.dc.nChannelsAPI,
          API_sampleRate := r.st.dc.API_sampleRate, lostFlag := lost, newPacketFlag := if decoded = 0 then 1 else 0 }).1 ≠ 0
    · have L : silkStep o lost fsz decoded p tell (gz r) = _ := (if_neg c1).trans (if_pos c2)
      have R : silkStep o lost fsz decoded p tell r = _ := (if_neg c1).trans (if_pos c2)
      rw [L, R]
      exact ⟨rfl, rfl, rfl, by rw [gz_push (by rfl), gz_push (by rfl), gz_tick]; rfl⟩
    · have L : silkStep o lost fsz decoded p tell (gz r) = _ := (if_neg c1).trans (if_neg c2)
      have R : silkStep o lost fsz decoded p tell r = _ := (if_neg c1).trans (if_neg c2)
      rw [L, R]
      exact ⟨rfl, rfl, rfl, by rw [gz_push (by rfl), gz_tick]; rfl⟩

theorem silkLoop_gz (o : Oracle) (lost fsz : Int) :
    ∀ (n : Nat) (decoded : Int) (p : Ptr) (tell : Int) (r : Run), (fsz - decoded).toNat ≤ n →
      silkLoop o lost fsz decoded p tell (gz r) = gzRes (silkLoop o lost fsz decoded p tell r) := by
  intro n
  induction n with
  | zero =>
    intro decoded p tell r hn
    obtain ⟨e1, e2, e3, e4⟩ := silkStep_gz o lost fsz decoded p tell r
    rw [silkLoop]
    conv => rhs; rw [silkLoop]
    simp only [e1, e2, e3, e4]
    by_cases c1 : (silkStep o lost fsz decoded p tell r).err ≠ 0
    · simp only [if_pos c1]; rfl
    · simp only [if_neg c1]
      by_cases c2 : decoded + (silkStep o lost fsz decoded p tell r).n < fsz
      · simp only [dif_pos c2]
        by_cases c3 : (silkStep o lost fsz decoded p tell r).n ≤ 0
        · simp only [dif_pos c3]; rfl
        · omega
      · simp only [dif_neg c2]; rfl
  | succ n ih =>
    intro decoded p tell r hn
    obtain ⟨e1, e2, e3, e4⟩ := silkStep_gz o lost fsz decoded p tell r
    rw [silkLoop]
    conv => rhs; rw [silkLoop]
    simp only [e1, e2, e3, e4]
    by_cases c1 : (silkStep o lost fsz decoded p tell r).err ≠ 0
    · simp only [if_pos c1]; rfl
    · simp only [if_neg c1]
      by_cases c2 : decoded + (silkStep o lost fsz decoded p tell r).n < fsz
      · simp only [dif_pos c2]
        by_cases c3 : (silkStep o lost fsz decoded p tell r).n ≤ 0
        · simp only [dif_pos c3]; rfl
        · simp only [dif_neg c3, gz_st, zg_channels]
          exact ih _ _ _ _ (by omega)
      · simp only [dif_neg c2]; rfl

theorem silkConfig_zg (st : DecState) (b : Body) : silkConfig (zg st) b = (silkConfig st b).map zg := by
  unfold silkConfig
  simp only [zg_Fs, zg_sch, zg_dc]
  split
  · split
    · split
      · rfl
      · split
        · rfl
        · split <;> rfl
    · rfl
  · rfl

theorem ite_push_gz (c : Prop) [Decidable c] (r : Run) (e : Ev) (he : notGain e = true) :
    (if c then (gz r).push e else gz r) = gz (if c then r.push e else r) := by
  split
  · rw [gz_push he]
  · rfl

theorem silkStage_gz (o : Oracle) (b : Body) (r : Run) : silkStage o b (gz r) = gzRes (silkStage o b r) := by
  unfold silkStage
  show (match silkConfig (zg r.st) b with
    | none => (Out.abort, if r.st.prev_mode = MODE_CELT then (gz r).push Ev.silkReset else gz r)
    | some st3 =>
      bindRun (silkLoop o (silkLost b) b.audiosize 0 (if b.audiosize < F10 r.st then silkBuf r.st else b.pcm) 1
          ((if r.st.prev_mode = MODE_CELT then (gz r).push Ev.silkReset else gz r).setSt st3)) fun et r1 =>
        if et.1 ≠ 0 then (Out.ret et, r1)
        else if b.audiosize < F10 r.st then
          (Out.ret (0, et.2), (r1.push (.acc 1 (silkBuf r.st) (b.audiosize * r.st.channels))).push (.acc 2 b.pcm (b.audiosize * r.st.channels)))
        else (Out.ret (0, et.2), r1)) = _
  rw [ite_push_gz _ r Ev.silkReset rfl, silkConfig_zg]
  dsimp only
  cases hc : silkConfig r.st b with
  | none => rfl
  | some st3 =>
    simp only [Option.map_some]
    rw [← gz_setSt, silkLoop_gz o _ _ _ _ _ _ _ (Nat.le_refl _)]
    apply bindRun_gz
    intro et r1
    by_cases c1 : et.1 ≠ 0
    · simp only [if_pos c1]; rfl
    · simp only [if_neg c1]
      by_cases c2 : b.audiosize < F10 r.st
      · simp only [if_pos c2, gzRes]
        rw [gz_push (by rfl), gz_push (by rfl)]
      · simp only [if_neg c2]; rfl

/-! ### redundancy parse -/

theorem redFinish_gz (a b c e f : Int) (r : Run) : redFinish a b c e f (gz r) = gzRes (redFinish a b c e f r) := by
  unfold redFinish; split <;> rfl

theorem redTail_gz (o : Oracle) (mode len red tell : Int) (r : Run) :
    redTail o mode len red tell (gz r) = gzRes (redTail o mode len red tell r) := by
  unfold redTail
  simp only [gz_k, Run.tick_k]
  split
  · exact redFinish_gz _ _ _ _ _ r.tick.tick
  · exact redFinish_gz _ _ _ _ _ r.tick

theorem parseRedundancy_gz (o : Oracle) (mode len tell : Int) (r : Run) :
    parseRedundancy o mode len tell (gz r) = gzRes (parseRedundancy o mode len tell r) := by
  by_cases c0 : tell + 17 + (if mode = MODE_HYBRID then 20 else 0) ≤ 8 * len
  · by_cases c1 : mode = MODE_HYBRID
    · by_cases c2 : (o.bit r.k 12 tell).1 ≠ 0
      · have L : parseRedundancy o mode len tell (gz r) = _ := (if_pos c0).trans ((if_pos c1).trans (if_pos c2))
        have R : parseRedundancy o mode len tell r = _ := (if_pos c0).trans ((if_pos c1).trans (if_pos c2))
        rw [L, R]; exact redTail_gz o _ _ _ _ r.tick
      · have L : parseRedundancy o mode len tell (gz r) = _ := (if_pos c0).trans ((if_pos c1).trans (if_neg c2))
        have R : parseRedundancy o mode len tell r = _ := (if_pos c0).trans ((if_pos c1).trans (if_neg c2))
        rw [L, R]; rfl
    · have L : parseRedundancy o mode len tell (gz r) = _ := (if_pos c0).trans (if_neg c1)
      have R : parseRedundancy o mode len tell r = _ := (if_pos c0).trans (if_neg c1)
      rw [L, R]; exact redTail_gz o _ _ _ _ r
  · have L : parseRedundancy o mode len tell (gz r) = _ := if_neg c0
    have R : parseRedundancy o mode len tell r = _ := if_neg c0
    rw [L, R]; rfl

theorem redStage_gz (o : Oracle) (b : Body) (tell : Int) (r : Run) : redStage o b tell (gz r) = gzRes (redStage o b tell r) := by
  unfold redStage
  split
  · exact parseRedundancy_gz o _ _ _ _
  · rfl

/-! ### the frame body -/

/-- A recursive-call parameter commutes with `gz`. -/
def TransGz (t : Ptr → Int → Run → Res') : Prop := ∀ p n r, t p n (gz r) = gzRes (t p n r)

theorem gain0Call_gz {t : Ptr → Int → Run → Res'} (ht : TransGz t) : TransGz (gain0Call t) := by
  intro p n r
  unfold gain0Call
  show ((t p n (gz (r.setSt { r.st with decode_gain := 0 }))).1,
        (t p n (gz (r.setSt { r.st with decode_gain := 0 }))).2.setSt
          { (t p n (gz (r.setSt { r.st with decode_gain := 0 }))).2.st with decode_gain := 0 }) = _
  rw [ht p n]
  rfl

theorem transCall_gz {t : Ptr → Int → Run → Res'} (ht : TransGz t) (b : Body) (r : Run) :
    transCall t b (gz r) = gzRes (transCall t b r) := by
  unfold transCall
  show bindRun (gain0Call t (transBuf r.st) (min (F5 r.st) b.audiosize) (gz r)) (fun _ r' => (Out.ret (), r')) = _
  rw [gain0Call_gz ht]
  exact bindRun_gz _ _ (fun _ _ => rfl)

theorem fbTail_gz (o : Oracle) {t : Ptr → Int → Run → Res'} (ht : TransGz t) (b : Body) (tr : Bool) (et : Int × Int) (r : Run) :
    fbTail o t b tr et (gz r) = gzRes (fbTail o t b tr et r) := by
  unfold fbTail
  by_cases c0 : et.1 ≠ 0
  · rw [if_pos c0, if_pos c0]; rfl
  rw [if_neg c0, if_neg c0]
  have hred := redStage_gz o b et.2 r
  have h1 : (redStage o b et.2 (gz r)).1 = (redStage o b et.2 r).1 := by rw [hred]; rfl
  have h2 : (redStage o b et.2 (gz r)).2 = gz (redStage o b et.2 r).2 := by rw [hred]; rfl
  rw [h1, h2]
  have hx : (if (if (redStage o b et.2 r).1.redundancy ≠ 0 then false else tr) = true ∧ b.mode ≠ MODE_CELT
      then transCall t b (gz (redStage o b et.2 r).2) else (.ret (), gz (redStage o b et.2 r).2)) =
      gzRes (if (if (redStage o b et.2 r).1.redundancy ≠ 0 then false else tr) = true ∧ b.mode ≠ MODE_CELT
      then transCall t b (redStage o b et.2 r).2 else (.ret (), (redStage o b et.2 r).2)) := by
    by_cases c1 : (if (redStage o b et.2 r).1.redundancy ≠ 0 then false else tr) = true ∧ b.mode ≠ MODE_CELT
    · rw [if_pos c1, if_pos c1]; exact transCall_gz ht b _
    · rw [if_neg c1, if_neg c1]; rfl
  rw [hx]
  apply bindRun_gz
  intro _ r'
  by_cases c2 : ¬ endbandOk b.bandwidth
  · rw [if_pos c2, if_pos c2]; rfl
  · rw [if_neg c2, if_neg c2]; exact celtStage_gz o b _ _ r'

/-- **One `opus_decode_frame` with a packet.** -/
theorem frameBody_gz (o : Oracle) {t : Ptr → Int → Run → Res'} (ht : TransGz t) (b : Body) (r : Run) :
    frameBody o t b (gz r) = gzRes (frameBody o t b r) := by
  rw [frameBody_eq, frameBody_eq]
  show bindRun (if wantTransition r.st b = true ∧ b.mode = MODE_CELT then transCall t b (gz r) else (.ret (), gz r))
      (fun _ r1 => if b.audiosize > b.frame_size then (.ret BAD_ARG, r1)
        else bindRun (if b.mode ≠ MODE_CELT then silkStage o b r1 else (.ret (0, 1), r1)) (fbTail o t b (wantTransition r.st b))) = _
  have hx : (if wantTransition r.st b = true ∧ b.mode = MODE_CELT then transCall t b (gz r) else (.ret (), gz r)) =
      gzRes (if wantTransition r.st b = true ∧ b.mode = MODE_CELT then transCall t b r else (.ret (), r)) := by
    by_cases c1 : wantTransition r.st b = true ∧ b.mode = MODE_CELT
    · rw [if_pos c1, if_pos c1]; exact transCall_gz ht b r
    · rw [if_neg c1, if_neg c1]; rfl
  rw [hx]
  apply bindRun_gz
  intro _ r1
  by_cases c2 : b.audiosize > b.frame_size
  · rw [if_pos c2, if_pos c2]; rfl
  · rw [if_neg c2, if_neg c2]
    have hy : (if b.mode ≠ MODE_CELT then silkStage o b (gz r1) else (.ret (0, 1), gz r1)) =
        gzRes (if b.mode ≠ MODE_CELT then silkStage o b r1 else (.ret (0, 1), r1)) := by
      by_cases c3 : b.mode ≠ MODE_CELT
      · rw [if_pos c3, if_pos c3]; exact silkStage_gz o b r1
      · rw [if_neg c3, if_neg c3]; rfl
    rw [hy]
    apply bindRun_gz
    intro et r2; exact fbTail_gz o ht b _ et r2

/-! ### concealment layers and one `opus_decode_frame` call (ported from the structure of OpusProofs/DecSkelShift.lean) -/

theorem plcLoop_gz {i1 : Ptr → Int → Run → Res'} (ht : TransGz i1) (f20 ch frame_size : Int) :
    ∀ (n : Nat) (audiosize : Int) (pcm : Ptr) (r : Run), audiosize.toNat ≤ n →
      plcLoop i1 f20 ch frame_size audiosize pcm (gz r) = gzRes (plcLoop i1 f20 ch frame_size audiosize pcm r) := by
  intro n
  induction n with
  | zero =>
    intro audiosize pcm r hn
    rw [plcLoop]
    conv => rhs; rw [plcLoop]
    rw [ht]
    rcases hx : i1 pcm (min audiosize f20) r with ⟨out, r1⟩
    cases out with
    | ret ret =>
      simp only [gzRes]
      by_cases c1 : ret < 0
      · simp only [if_pos c1]
      · simp only [if_neg c1]
        by_cases c2 : ret = 0
        · simp only [dif_pos c2]
        · simp only [dif_neg c2]
          have : ¬ audiosize - ret > 0 := by omega
          simp only [dif_neg this]
    | abort => rfl
    | hang => rfl
  | succ n ih =>
    intro audiosize pcm r hn
    rw [plcLoop]
    conv => rhs; rw [plcLoop]
    rw [ht]
    rcases hx : i1 pcm (min audiosize f20) r with ⟨out, r1⟩
    cases out with
    | ret ret =>
      simp only [gzRes]
      by_cases c1 : ret < 0
      · simp only [if_pos c1]
      · simp only [if_neg c1]
        by_cases c2 : ret = 0
        · simp only [dif_pos c2]
        · simp only [dif_neg c2]
          by_cases c3 : audiosize - ret > 0
          · simp only [dif_pos c3]
            exact ih _ _ _ (by omega)
          · simp only [dif_neg c3]
    | abort => rfl
    | hang => rfl

theorem abortStub_gz : TransGz (fun _ _ r => (Out.abort, r)) :=
  fun _ _ _ => rfl

theorem nullAfterClamp_gz (o : Oracle) {i1 : Ptr → Int → Run → Res'}
    (ht : TransGz i1) (len : Int) (pcm : Ptr) (frame_size : Int) (r : Run) :
    nullAfterClamp o i1 len pcm frame_size (gz r) = gzRes (nullAfterClamp o i1 len pcm frame_size r) := by
  unfold nullAfterClamp
  show (if (if r.st.prev_redundancy ≠ 0 then MODE_CELT else r.st.prev_mode) = 0 then
      (Out.ret frame_size, (gz r).push (.acc 12 pcm (frame_size * r.st.channels)))
    else if frame_size > F20 r.st then plcLoop i1 (F20 r.st) r.st.channels frame_size frame_size pcm (gz r)
    else frameBody o (fun _ _ r => (Out.abort, r))
      { data := none, len := len, pcm := pcm, frame_size := frame_size,
        audiosize := if frame_size < F20 r.st then
            if frame_size > F10 r.st then F10 r.st
            else if (if r.st.prev_redundancy ≠ 0 then MODE_CELT else r.st.prev_mode) ≠ MODE_SILK ∧ frame_size > F5 r.st ∧ frame_size < F10 r.st then F5 r.st
            else frame_size
          else frame_size,
        mode := if r.st.prev_redundancy ≠ 0 then MODE_CELT else r.st.prev_mode, bandwidth := 0, fec := 0 } (gz r)) =
    gzRes (if (if r.st.prev_redundancy ≠ 0 then MODE_CELT else r.st.prev_mode) = 0 then
      (Out.ret frame_size, r.push (.acc 12 pcm (frame_size * r.st.channels)))
    else if frame_size > F20 r.st then plcLoop i1 (F20 r.st) r.st.channels frame_size frame_size pcm r
    else frameBody o (fun _ _ r => (Out.abort, r))
      { data := none, len := len, pcm := pcm, frame_size := frame_size,
        audiosize := if frame_size < F20 r.st then
            if frame_size > F10 r.st then F10 r.st
            else if (if r.st.prev_redundancy ≠ 0 then MODE_CELT else r.st.prev_mode) ≠ MODE_SILK ∧ frame_size > F5 r.st ∧ frame_size < F10 r.st then F5 r.st
            else frame_size
          else frame_size,
        mode := if r.st.prev_redundancy ≠ 0 then MODE_CELT else r.st.prev_mode, bandwidth := 0, fec := 0 } r)
  generalize (if r.st.prev_redundancy ≠ 0 then MODE_CELT else r.st.prev_mode) = mode
  by_cases c0 : mode = 0
  · rw [if_pos c0, if_pos c0]; simp only [gzRes]; rw [gz_push (by rfl)]
  · rw [if_neg c0, if_neg c0]
    by_cases c1 : frame_size > F20 r.st
    · rw [if_pos c1, if_pos c1]; exact plcLoop_gz ht _ _ _ _ _ _ _ (Nat.le_refl _)
    · rw [if_neg c1, if_neg c1]
      exact frameBody_gz o abortStub_gz
        { data := none, len := len, pcm := pcm, frame_size := frame_size,
          audiosize := if frame_size < F20 r.st then
              if frame_size > F10 r.st then F10 r.st
              else if mode ≠ MODE_SILK ∧ frame_size > F5 r.st ∧ frame_size < F10 r.st then F5 r.st else frame_size
            else frame_size,
          mode := mode, bandwidth := 0, fec := 0 } r

theorem nullFrameGen_gz (o : Oracle) {i1 : Ptr → Int → Run → Res'}
    (ht : TransGz i1) : TransGz (nullFrameGen o i1) := by
  intro pcm n r
  unfold nullFrameGen
  show (if n < F2_5 r.st then (Out.ret BUFFER_TOO_SMALL, gz r)
    else nullAfterClamp o i1 0 pcm (min (min n (r.st.Fs / 25 * 3)) r.st.frame_size) (gz r)) =
    gzRes (if n < F2_5 r.st then (Out.ret BUFFER_TOO_SMALL, r)
    else nullAfterClamp o i1 0 pcm (min (min n (r.st.Fs / 25 * 3)) r.st.frame_size) r)
  split
  · rfl
  · exact nullAfterClamp_gz o ht _ _ _ _

theorem nullFrameLeaf_gz (o : Oracle) :
    TransGz (nullFrameLeaf o) := nullFrameGen_gz o abortStub_gz

theorem nullFrame_gz (o : Oracle) :
    TransGz (nullFrame o) := nullFrameGen_gz o (nullFrameLeaf_gz o)

/-- `opus_decode_frame` on the same frame at a shifted packet offset. -/
theorem decodeFrame_gz (o : Oracle) (data : Option Int) (len : Int) (pcm : Ptr)
    (frame_size fec : Int) (r : Run) :
    decodeFrame o (data) len pcm frame_size fec (gz r) =
      gzRes (decodeFrame o data len pcm frame_size fec r) := by
  unfold decodeFrame
  show (if frame_size < F2_5 r.st then (Out.ret BUFFER_TOO_SMALL, gz r)
    else if len ≤ 1 ∨ (data).isNone = true then
      nullAfterClamp o (nullFrameLeaf o) len pcm (min (min frame_size (r.st.Fs / 25 * 3)) r.st.frame_size) (gz r)
    else frameBody o (nullFrame o)
      { data := data, len := len, pcm := pcm, frame_size := min frame_size (r.st.Fs / 25 * 3),
        audiosize := r.st.frame_size, mode := r.st.mode, bandwidth := r.st.bandwidth, fec := fec }
      ((gz r).push (.decInit ((data).getD 0) len))) =
    gzRes (if frame_size < F2_5 r.st then (Out.ret BUFFER_TOO_SMALL, r)
    else if len ≤ 1 ∨ data.isNone = true then
      nullAfterClamp o (nullFrameLeaf o) len pcm (min (min frame_size (r.st.Fs / 25 * 3)) r.st.frame_size) r
    else frameBody o (nullFrame o)
      { data := data, len := len, pcm := pcm, frame_size := min frame_size (r.st.Fs / 25 * 3),
        audiosize := r.st.frame_size, mode := r.st.mode, bandwidth := r.st.bandwidth, fec := fec }
      (r.push (.decInit (data.getD 0) len)))
  split
  · rfl
  · split
    · exact nullAfterClamp_gz o (nullFrameLeaf_gz o) _ _ _ _
    · rename_i hc
      have hsome : ∃ x, data = some x := by
        cases data with
        | none => exact absurd (Or.inr rfl) hc
        | some x => exact ⟨x, rfl⟩
      obtain ⟨x, rfl⟩ := hsome
      have hpush : (gz r).push (.decInit ((some x).getD 0) len) = gz (r.push (.decInit ((some x).getD 0) len)) := by
        rw [gz_push (by rfl)]
      rw [hpush]
      exact frameBody_gz o (nullFrame_gz o)
        { data := some x, len := len, pcm := pcm, frame_size := min frame_size (r.st.Fs / 25 * 3),
          audiosize := r.st.frame_size, mode := r.st.mode, bandwidth := r.st.bandwidth, fec := fec } _


/-! ### opus_decode_native -/

theorem frameLoop_gz (o : Oracle) (pcm : Ptr) (frame_size pfs : Int) :
    ∀ (sizes : List Nat) (off nb : Int) (r : Run),
      frameLoop o pcm frame_size pfs sizes off nb (gz r) = gzRes (frameLoop o pcm frame_size pfs sizes off nb r) := by
  intro sizes
  induction sizes with
  | nil => intro off nb r; rfl
  | cons sz rest ih =>
    intro off nb r
    rw [frameLoop, frameLoop]
    have hdf := decodeFrame_gz o (some off) sz (pcm.add (nb * r.st.channels)) (frame_size - nb) 0 r
    show (match decodeFrame o (some off) sz (pcm.add (nb * r.st.channels)) (frame_size - nb) 0 (gz r) with
      | (.ret ret, r1) => if ret < 0 then (Out.ret ret, r1) else if ret ≠ pfs then (Out.abort, r1)
          else frameLoop o pcm frame_size pfs rest (off + sz) (nb + ret) r1
      | x => x) = _
    rw [hdf]
    rcases hx : decodeFrame o (some off) sz (pcm.add (nb * r.st.channels)) (frame_size - nb) 0 r with ⟨out, r1⟩
    cases out with
    | ret ret =>
      simp only [gzRes]
      by_cases c1 : ret < 0
      · simp only [if_pos c1]
      · simp only [if_neg c1]
        by_cases c2 : ret ≠ pfs
        · simp only [if_pos c2]
        · simp only [if_neg c2]
          exact ih _ _ _
    | abort => rfl
    | hang => rfl

theorem nativePlcLoop_gz (o : Oracle) (frame_size : Int) (pcm : Ptr) :
    ∀ (n : Nat) (pcm_count : Int) (r : Run), (frame_size - pcm_count).toNat ≤ n →
      nativePlcLoop o frame_size pcm pcm_count (gz r) = gzRes (nativePlcLoop o frame_size pcm pcm_count r) := by
  intro n
  induction n with
  | zero =>
    intro pcm_count r hn
    rw [nativePlcLoop]
    conv => rhs; rw [nativePlcLoop]
    have hdf := decodeFrame_gz o none 0 (pcm.add (pcm_count * r.st.channels)) (frame_size - pcm_count) 0 r
    show (match decodeFrame o none 0 (pcm.add (pcm_count * r.st.channels)) (frame_size - pcm_count) 0 (gz r) with
      | (.ret ret, r1) => if ret < 0 then (Out.ret ret, r1) else if _h : ret = 0 then (Out.hang, r1)
          else if _h2 : pcm_count + ret < frame_size then nativePlcLoop o frame_size pcm (pcm_count + ret) r1
          else if pcm_count + ret ≠ frame_size then (Out.abort, r1)
          else (Out.ret (pcm_count + ret), r1.setSt { r1.st with last_packet_duration := pcm_count + ret })
      | x => x) = _
    rw [hdf]
    rcases hx : decodeFrame o none 0 (pcm.add (pcm_count * r.st.channels)) (frame_size - pcm_count) 0 r with ⟨out, r1⟩
    cases out with
    | ret ret =>
      simp only [gzRes]
      by_cases c1 : ret < 0
      · simp only [if_pos c1]
      · simp only [if_neg c1]
        by_cases c2 : ret = 0
        · simp only [dif_pos c2]
        · simp only [dif_neg c2]
          have c3 : ¬ pcm_count + ret < frame_size := by omega
          simp only [dif_neg c3]
          by_cases c4 : pcm_count + ret ≠ frame_size
          · simp only [if_pos c4]
          · simp only [if_neg c4]; rfl
    | abort => rfl
    | hang => rfl
  | succ n ih =>
    intro pcm_count r hn
    rw [nativePlcLoop]
    conv => rhs; rw [nativePlcLoop]
    have hdf := decodeFrame_gz o none 0 (pcm.add (pcm_count * r.st.channels)) (frame_size - pcm_count) 0 r
    show (match decodeFrame o none 0 (pcm.add (pcm_count * r.st.channels)) (frame_size - pcm_count) 0 (gz r) with
      | (.ret ret, r1) => if ret < 0 then (Out.ret ret, r1) else if _h : ret = 0 then (Out.hang, r1)
          else if _h2 : pcm_count + ret < frame_size then nativePlcLoop o frame_size pcm (pcm_count + ret) r1
          else if pcm_count + ret ≠ frame_size then (Out.abort, r1)
          else (Out.ret (pcm_count + ret), r1.setSt { r1.st with last_packet_duration := pcm_count + ret })
      | x => x) = _
    rw [hdf]
    rcases hx : decodeFrame o none 0 (pcm.add (pcm_count * r.st.channels)) (frame_size - pcm_count) 0 r with ⟨out, r1⟩
    cases out with
    | ret ret =>
      simp only [gzRes]
      by_cases c1 : ret < 0
      · simp only [if_pos c1]
      · simp only [if_neg c1]
        by_cases c2 : ret = 0
        · simp only [dif_pos c2]
        · simp only [dif_neg c2]
          by_cases c3 : pcm_count + ret < frame_size
          · simp only [dif_pos c3]
            exact ih _ _ (by omega)
          · simp only [dif_neg c3]
            by_cases c4 : pcm_count + ret ≠ frame_size
            · simp only [if_pos c4]
            · simp only [if_neg c4]; rfl
    | abort => rfl
    | hang => rfl

theorem nativePlc_gz (o : Oracle) (pcm : Ptr) (frame_size : Int) (r : Run) :
    nativePlc o pcm frame_size (gz r) = gzRes (nativePlc o pcm frame_size r) := by
  unfold nativePlc
  show (if ¬ validateOk r.st = true then (Out.abort, gz r)
    else if cmod frame_size (r.st.Fs / 400) ≠ 0 then (Out.ret BAD_ARG, gz r)
    else nativePlcLoop o frame_size pcm 0 (gz r)) =
    gzRes (if ¬ validateOk r.st = true then (Out.abort, r)
    else if cmod frame_size (r.st.Fs / 400) ≠ 0 then (Out.ret BAD_ARG, r)
    else nativePlcLoop o frame_size pcm 0 r)
  split
  · rfl
  · split
    · rfl
    · exact nativePlcLoop_gz o _ _ _ _ _ (Nat.le_refl _)

theorem fecGap_gz (o : Oracle) (pcm : Ptr) (gap : Int) (r : Run) :
    fecGap o pcm gap (gz r) = gzRes (fecGap o pcm gap r) := by
  unfold fecGap
  by_cases c0 : gap ≠ 0
  · rw [if_pos c0, if_pos c0, nativePlc_gz o]
    rcases hx : nativePlc o pcm gap r with ⟨out, r1⟩
    cases out with
    | ret ret =>
      simp only [gzRes, gz_st]
      by_cases c1 : ret < 0
      · simp only [if_pos c1]; rfl
      · simp only [if_neg c1]
        by_cases c2 : ret ≠ gap
        · simp only [if_pos c2]
        · simp only [if_neg c2]
    | abort => rfl
    | hang => rfl
  · rw [if_neg c0, if_neg c0]; rfl

theorem nativeFec_gz (o : Oracle) (pcm : Ptr)
    (frame_size pfs pm pb pc off0 sz0 : Int) (r : Run) :
    nativeFec o pcm frame_size pfs pm pb pc off0 sz0 (gz r) =
      gzRes (nativeFec o pcm frame_size pfs pm pb pc off0 sz0 r) := by
  unfold nativeFec
  show (if frame_size < pfs ∨ pm = MODE_CELT ∨ r.st.mode = MODE_CELT then nativePlc o pcm frame_size (gz r)
    else match fecGap o pcm (frame_size - pfs) (gz r) with
      | (.ret v, r1) => if v < 0 then (Out.ret v, r1)
        else match decodeFrame o (some off0) sz0 (pcm.add (r.st.channels * (frame_size - pfs))) pfs 1
              (r1.setSt (setToc r1.st pm pb pfs pc)) with
          | (.ret ret, r3) => if ret < 0 then (Out.ret ret, r3)
            else (Out.ret frame_size, r3.setSt { r3.st with last_packet_duration := frame_size })
          | x => x
      | x => x) = _
  by_cases c0 : frame_size < pfs ∨ pm = MODE_CELT ∨ r.st.mode = MODE_CELT
  · rw [if_pos c0, if_pos c0]; exact nativePlc_gz o _ _ _
  · rw [if_neg c0, if_neg c0, fecGap_gz o]
    rcases hx : fecGap o pcm (frame_size - pfs) r with ⟨out, r1⟩
    cases out with
    | ret v =>
      simp only [gzRes]
      by_cases c1 : v < 0
      · simp only [if_pos c1]
      · simp only [if_neg c1]
        have hdf := decodeFrame_gz o (some off0) sz0 (pcm.add (r.st.channels * (frame_size - pfs))) pfs 1
          (r1.setSt (setToc r1.st pm pb pfs pc))
        rw [gz_setSt] at hdf
        simp only [gz_st]
        have hz : setToc (zg r1.st) pm pb pfs pc = zg (setToc r1.st pm pb pfs pc) := rfl
        rw [hz, hdf]
        rcases hy : decodeFrame o (some off0) sz0 (pcm.add (r.st.channels * (frame_size - pfs))) pfs 1
          (r1.setSt (setToc r1.st pm pb pfs pc)) with ⟨out2, r3⟩
        cases out2 with
        | ret ret =>
          simp only [gzRes]
          by_cases c2 : ret < 0
          · simp only [if_pos c2]
          · simp only [if_neg c2]; rfl
        | abort => rfl
        | hang => rfl
    | abort => rfl
    | hang => rfl

theorem nativeFrames_gz (o : Oracle) (pcm : Ptr)
    (frame_size pfs pm pb pc : Int) (sizes : List Nat) (off0 : Int) (sc : Bool) (r : Run) :
    nativeFrames o pcm frame_size pfs pm pb pc sizes off0 sc (gz r) =
      gzRes (nativeFrames o pcm frame_size pfs pm pb pc sizes off0 sc r) := by
  unfold nativeFrames
  have hfl := frameLoop_gz o pcm frame_size pfs sizes off0 0 (r.setSt (setToc r.st pm pb pfs pc))
  rw [gz_setSt] at hfl
  simp only [gz_st, zg_channels]
  have hz : setToc (zg r.st) pm pb pfs pc = zg (setToc r.st pm pb pfs pc) := rfl
  rw [hz, hfl]
  rcases hx : frameLoop o pcm frame_size pfs sizes off0 0 (r.setSt (setToc r.st pm pb pfs pc)) with ⟨out, r2⟩
  cases out with
  | ret nb =>
    simp only [gzRes]
    by_cases c1 : nb < 0
    · simp only [if_pos c1]
    · simp only [if_neg c1]
      cases sc with
      | true => simp only [↓reduceIte]; rw [gz_push (by rfl)]; rfl
      | false => simp only [Bool.false_eq_true, ↓reduceIte]; rfl
  | abort => rfl
  | hang => rfl

/-- **`opus_decode_native`**: every path (argument checks, concealment, FEC, all frames of a packet, soft clip). -/
theorem decodeNative_gz (o : Oracle) (data : Option Bytes) (len : Int) (pcm : Ptr) (frame_size fec : Int)
    (sd sc : Bool) (r : Run) :
    (decodeNative o data len pcm frame_size fec sd sc (gz r)).ret = (decodeNative o data len pcm frame_size fec sd sc r).ret ∧
    (decodeNative o data len pcm frame_size fec sd sc (gz r)).packetOffset =
      (decodeNative o data len pcm frame_size fec sd sc r).packetOffset ∧
    (decodeNative o data len pcm frame_size fec sd sc (gz r)).run = gz (decodeNative o data len pcm frame_size fec sd sc r).run := by
  have mk : ∀ (x y : Res') (po : Int), x = gzRes y →
      (NativeOut.mk' x po).ret = (NativeOut.mk' y po).ret ∧ (NativeOut.mk' x po).packetOffset = (NativeOut.mk' y po).packetOffset ∧
      (NativeOut.mk' x po).run = gz (NativeOut.mk' y po).run := by
    intro x y po h; subst h; exact ⟨rfl, rfl, rfl⟩
  by_cases c0 : ¬ validateOk r.st = true
  · have L : decodeNative o data len pcm frame_size fec sd sc (gz r) = _ := if_pos c0
    have R : decodeNative o data len pcm frame_size fec sd sc r = _ := if_pos c0
    rw [L, R]; exact mk _ _ _ rfl
  by_cases c1 : fec < 0 ∨ fec > 1
  · have L : decodeNative o data len pcm frame_size fec sd sc (gz r) = _ := (if_neg c0).trans (if_pos c1)
    have R : decodeNative o data len pcm frame_size fec sd sc r = _ := (if_neg c0).trans (if_pos c1)
    rw [L, R]; exact mk _ _ _ rfl
  by_cases c2 : (fec ≠ 0 ∨ len = 0 ∨ data.isNone = true) ∧ cmod frame_size (r.st.Fs / 400) ≠ 0
  · have L : decodeNative o data len pcm frame_size fec sd sc (gz r) = _ := (if_neg c0).trans ((if_neg c1).trans (if_pos c2))
    have R : decodeNative o data len pcm frame_size fec sd sc r = _ := (if_neg c0).trans ((if_neg c1).trans (if_pos c2))
    rw [L, R]; exact mk _ _ _ rfl
  by_cases c3 : len = 0 ∨ data.isNone = true
  · have L : decodeNative o data len pcm frame_size fec sd sc (gz r) = _ :=
      (if_neg c0).trans ((if_neg c1).trans ((if_neg c2).trans (if_pos c3)))
    have R : decodeNative o data len pcm frame_size fec sd sc r = _ :=
      (if_neg c0).trans ((if_neg c1).trans ((if_neg c2).trans (if_pos c3)))
    rw [L, R]; exact mk _ _ _ (nativePlcLoop_gz o _ _ _ _ _ (Nat.le_refl _))
  by_cases c4 : len < 0
  · have L : decodeNative o data len pcm frame_size fec sd sc (gz r) = _ :=
      (if_neg c0).trans ((if_neg c1).trans ((if_neg c2).trans ((if_neg c3).trans (if_pos c4))))
    have R : decodeNative o data len pcm frame_size fec sd sc r = _ :=
      (if_neg c0).trans ((if_neg c1).trans ((if_neg c2).trans ((if_neg c3).trans (if_pos c4))))
    rw [L, R]; exact mk _ _ _ rfl
  have L : decodeNative o data len pcm frame_size fec sd sc (gz r) = _ :=
    (if_neg c0).trans ((if_neg c1).trans ((if_neg c2).trans ((if_neg c3).trans (if_neg c4))))
  have R : decodeNative o data len pcm frame_size fec sd sc r = _ :=
    (if_neg c0).trans ((if_neg c1).trans ((if_neg c2).trans ((if_neg c3).trans (if_neg c4))))
  rw [L, R]
  cases Framing.parseImpl sd ((data.getD []).take len.toNat) with
  | err e => exact mk _ _ _ rfl
  | oob => exact mk _ _ _ rfl
  | abort => exact mk _ _ _ rfl
  | ok p =>
    by_cases c5 : fec ≠ 0
    · simp only [if_pos c5]; exact mk _ _ _ (nativeFec_gz o _ _ _ _ _ _ _ _ _)
    · simp only [if_neg c5]
      by_cases c6 : (p.count : Int) * (Framing.samplesPerFrame (((data.getD []).take len.toNat).headD 0) r.st.Fs.toNat : Int) > frame_size
      · have c6' : (p.count : Int) * (Framing.samplesPerFrame (((data.getD []).take len.toNat).headD 0) (gz r).st.Fs.toNat : Int) > frame_size := c6
        rw [if_pos c6, if_pos c6']; exact mk _ _ _ rfl
      · have c6' : ¬ ((p.count : Int) * (Framing.samplesPerFrame (((data.getD []).take len.toNat).headD 0) (gz r).st.Fs.toNat : Int) > frame_size) := c6
        rw [if_neg c6, if_neg c6']; exact mk _ _ _ (nativeFrames_gz o _ _ _ _ _ _ _ _ _ _)

end Opus.DecSkel
