import OpusProofs.DecSkelFrame
/-
  OpusProofs.GainIndep — the decoder gain touches nothing but the gain pass: simulation of the decoder skeleton
  (`OpusModel/DecSkel.lean`, C01) under `gz` = "set `decode_gain` to 0 and erase the gain-pass events from the log".
  For every function `f` of the skeleton,  `f (gz r) = gz (f r)`:  running with gain 0 is the same as running with
  any gain and then forgetting the gain and the gain events.
-/
namespace Opus.DecSkel

/-- the gain pass of a frame (`stepGain`, site 11) -/
def notGain : Ev → Bool
  | .acc 11 _ _ => false
  | _ => true

def zg (st : DecState) : DecState := { st with decode_gain := 0 }

/-- forget the gain and the gain-pass events -/
def gz (r : Run) : Run := { st := zg r.st, k := r.k, log := r.log.filter notGain }

def gzRes {α : Type} (x : α × Run) : α × Run := (x.1, gz x.2)

@[simp] theorem gz_k (r : Run) : (gz r).k = r.k := rfl
@[simp] theorem gz_st (r : Run) : (gz r).st = zg r.st := rfl
@[simp] theorem zg_Fs (st : DecState) : (zg st).Fs = st.Fs := rfl
@[simp] theorem zg_channels (st : DecState) : (zg st).channels = st.channels := rfl
@[simp] theorem zg_dc (st : DecState) : (zg st).dc = st.dc := rfl
@[simp] theorem zg_gain (st : DecState) : (zg st).decode_gain = 0 := rfl
@[simp] theorem zg_sch (st : DecState) : (zg st).stream_channels = st.stream_channels := rfl
@[simp] theorem zg_bw (st : DecState) : (zg st).bandwidth = st.bandwidth := rfl
@[simp] theorem zg_mode (st : DecState) : (zg st).mode = st.mode := rfl
@[simp] theorem zg_pm (st : DecState) : (zg st).prev_mode = st.prev_mode := rfl
@[simp] theorem zg_fsz (st : DecState) : (zg st).frame_size = st.frame_size := rfl
@[simp] theorem zg_pr (st : DecState) : (zg st).prev_redundancy = st.prev_redundancy := rfl
@[simp] theorem zg_lpd (st : DecState) : (zg st).last_packet_duration = st.last_packet_duration := rfl
@[simp] theorem zg_zg (st : DecState) : zg (zg st) = zg st := rfl
@[simp] theorem F20_zg (st : DecState) : F20 (zg st) = F20 st := rfl
@[simp] theorem F10_zg (st : DecState) : F10 (zg st) = F10 st := rfl
@[simp] theorem F5_zg (st : DecState) : F5 (zg st) = F5 st := rfl
@[simp] theorem F2_5_zg (st : DecState) : F2_5 (zg st) = F2_5 st := rfl
@[simp] theorem transBuf_zg (st : DecState) : transBuf (zg st) = transBuf st := rfl
@[simp] theorem silkBuf_zg (st : DecState) : silkBuf (zg st) = silkBuf st := rfl
@[simp] theorem redBuf_zg (st : DecState) (red : Red) : redBuf (zg st) red = redBuf st red := rfl
@[simp] theorem redArgs_zg (st : DecState) (b : Body) (red : Red) (site : Nat) : redArgs (zg st) b red site = redArgs st b red site := rfl
@[simp] theorem wantTransition_zg (st : DecState) (b : Body) : wantTransition (zg st) b = wantTransition st b := rfl
@[simp] theorem validateOk_zg (st : DecState) : validateOk (zg st) = validateOk st := rfl

theorem gz_push {r : Run} {e : Ev} (h : notGain e = true) : gz (r.push e) = (gz r).push e := by
  unfold gz Run.push; simp [List.filter_cons, h]
theorem gz_push_gain (r : Run) (p : Ptr) (n : Int) : gz (r.push (.acc 11 p n)) = gz r := by
  unfold gz Run.push; simp [List.filter_cons, notGain]
theorem gz_tick (r : Run) : gz r.tick = (gz r).tick := rfl
theorem gz_setSt (r : Run) (s : DecState) : gz (r.setSt s) = (gz r).setSt (zg s) := rfl
@[simp] theorem gz_gz (r : Run) : gz (gz r) = gz r := by
  unfold gz; simp [List.filter_filter]

theorem bindRun_gz {α β : Type} (x : Out α × Run) (f : α → Run → Out β × Run)
    (hf : ∀ a r, f a (gz r) = gzRes (f a r)) : bindRun (gzRes x) f = gzRes (bindRun x f) := by
  obtain ⟨o, r⟩ := x
  cases o with
  | ret a => exact hf a r
  | abort => rfl
  | hang => rfl

/-! ### CELT stage -/

theorem celtCall_gz (o : Oracle) (a : CeltArgs) (p : Ptr) (r : Run) : celtCall o a p (gz r) = gzRes (celtCall o a p r) := by
  unfold celtCall gzRes
  simp only [gz_k, gz_tick]
  rw [gz_push (by rfl)]; rfl

theorem stepRedC2S_gz (o : Oracle) (b : Body) (red : Red) (r : Run) : stepRedC2S o b red (gz r) = gz (stepRedC2S o b red r) := by
  unfold stepRedC2S
  split
  · simp only [gz_st, redArgs_zg, redBuf_zg, celtCall_gz, gzRes]
  · rfl

theorem stepMainCelt_gz (o : Oracle) (b : Body) (red : Red) (r : Run) :
    stepMainCelt o b red (gz r) = gzRes (stepMainCelt o b red r) := by
  unfold stepMainCelt
  simp only [gz_st, zg_Fs, zg_channels, zg_pm, zg_pr, F20_zg, F2_5_zg, celtCall_gz]
  split
  · rfl
  · split
    · rfl
    · rfl

theorem stepRedS2C_gz (o : Oracle) (b : Body) (red : Red) (r : Run) : stepRedS2C o b red (gz r) = gz (stepRedS2C o b red r) := by
  unfold stepRedS2C
  simp only [gz_st, zg_channels, F2_5_zg, redArgs_zg, redBuf_zg, celtCall_gz, gzRes, apply_ite gz]
  rw [gz_push (by rfl), gz_push (by rfl)]

theorem stepRedCopy_gz (b : Body) (red : Red) (r : Run) : stepRedCopy b red (gz r) = gz (stepRedCopy b red r) := by
  unfold stepRedCopy
  simp only [gz_st, zg_channels, zg_pm, zg_pr, F2_5_zg, redBuf_zg, apply_ite gz]
  rw [gz_push (by rfl), gz_push (by rfl)]
  split <;> simp_all

theorem stepTransFade_gz (b : Body) (tr : Bool) (r : Run) : stepTransFade b tr (gz r) = gz (stepTransFade b tr r) := by
  unfold stepTransFade
  simp only [gz_st, zg_channels, F5_zg, F2_5_zg, transBuf_zg, apply_ite gz]
  rw [gz_push (by rfl), gz_push (by rfl), gz_push (by rfl), gz_push (by rfl)]
  split <;> simp_all

/-- the one place where the gain matters: with gain 0 nothing happens; otherwise one event, which `gz` erases -/
theorem stepGain_gz (b : Body) (r : Run) : stepGain b (gz r) = gz (stepGain b r) := by
  unfold stepGain
  simp only [gz_st, zg_gain, ne_eq, not_true_eq_false, if_false, apply_ite gz, gz_push_gain, ite_self]

theorem stepFinish_gz (b : Body) (red : Red) (r : Run) : stepFinish b red (gz r) = gz (stepFinish b red r) := rfl

theorem celtStage_gz (o : Oracle) (b : Body) (red : Red) (tr : Bool) (r : Run) :
    celtStage o b red tr (gz r) = gzRes (celtStage o b red tr r) := by
  unfold celtStage
  simp only [stepRedC2S_gz, stepMainCelt_gz, gzRes, stepRedS2C_gz, stepRedCopy_gz, stepTransFade_gz, stepGain_gz,
    stepFinish_gz]

end Opus.DecSkel
