import OpusProofs.SilkParamsRangeBasic
import OpusProofs.SilkParamsLpc
/-
  OpusProofs.SilkParamsRangePoly — range lemmas for the cosine interpolation and
  silk_NLSF2A_find_poly (NLSF2A.c:44-65, 89-106): for every NLSF value in [0, 32767] the
  interpolated `2*cos` lies in [-2, 2] (Q16), and the polynomial recursion stays below the
  binomial majorant `C(2k, n) * 2^16`, which fits 32 bits for k ≤ 8.
-/
namespace Opus.SilkParams
open Opus Opus.Gen

/-! ### cosine table interpolation -/

theorem cosTab_range : ∀ v ∈ SilkNlsf.lsfCosTabQ12, -8192 ≤ v ∧ v ≤ 8192 := by decide +kernel

theorem getI_mem {l : List Int} {i v : Int} (h : getI l i = .ok v) : v ∈ l := by
  unfold getI at h
  split at h
  · cases h
  · split at h
    · rename_i w hw
      cases h
      exact List.mem_of_getElem? hw
    · cases h

/-- Every `opus_int32` value computed for one NLSF coefficient by NLSF2A.c:89-106, in program
    order: `f_int`, `silk_LSHIFT( f_int, 8 )`, `f_frac`, `silk_LSHIFT( cos_val, 8 )`, `delta`,
    `silk_MUL( delta, f_frac )`, the sum, the two steps of `silk_RSHIFT_ROUND( · , 4 )`. -/
def cosLsfTrace (nlsf cosVal nxt : Int) : List Int :=
  let fInt := nlsf / 256
  let fFrac := nlsf - fInt * 256
  let s := cosVal * 256 + (nxt - cosVal) * fFrac
  [fInt, fInt * 256, fFrac, cosVal * 256, nxt - cosVal, (nxt - cosVal) * fFrac, s, s / 8 + 1, rshiftRound s 4]

theorem interp_bound (c n fr : Int) (hc : -8192 ≤ c ∧ c ≤ 8192) (hn : -8192 ≤ n ∧ n ≤ 8192)
    (hf : 0 ≤ fr ∧ fr ≤ 255) :
    -2097152 ≤ c * 256 + (n - c) * fr ∧ c * 256 + (n - c) * fr ≤ 2097152 ∧
    -4177920 ≤ (n - c) * fr ∧ (n - c) * fr ≤ 4177920 := by
  refine ⟨?_, ?_, ?_, ?_⟩ <;> nlinarith [hc.1, hc.2, hn.1, hn.2, hf.1, hf.2]

/-- One coefficient of the cosine interpolation: in-bounds table reads, no wrap, `|2cos| ≤ 2`. -/
theorem cosLsf_range (x : Int) (h0 : 0 ≤ x) (h1 : x ≤ 32767) :
    ∃ c cv nx, cosLsf x = .ok c ∧ getI SilkNlsf.lsfCosTabQ12 (x / 256) = .ok cv ∧
      getI SilkNlsf.lsfCosTabQ12 (x / 256 + 1) = .ok nx ∧
      (∀ v ∈ cosLsfTrace x cv nx, I32 v) ∧ -131072 ≤ c ∧ c ≤ 131072 := by
  obtain ⟨cv, hcv⟩ := getI_ok' SilkNlsf.lsfCosTabQ12 (x / 256) (by omega) (by rw [cosTab_len]; omega)
  obtain ⟨nx, hnx⟩ := getI_ok' SilkNlsf.lsfCosTabQ12 (x / 256 + 1) (by omega) (by rw [cosTab_len]; omega)
  have hc := cosTab_range cv (getI_mem hcv)
  have hn := cosTab_range nx (getI_mem hnx)
  have hfr : 0 ≤ x - x / 256 * 256 ∧ x - x / 256 * 256 ≤ 255 := by omega
  have hb := interp_bound cv nx (x - x / 256 * 256) hc hn hfr
  have hI1 : I32 (x / 256 * 2 ^ 8) := by rw [pow2_8]; unfold I32; omega
  have hI2 : I32 (cv * 2 ^ 8) := by rw [pow2_8]; unfold I32; omega
  refine ⟨rshiftRound (cv * 256 + (nx - cv) * (x - x / 256 * 256)) 4, cv, nx, ?_, hcv, hnx, ?_, ?_⟩
  · unfold cosLsf shrI
    rw [pow2_8]
    simp only [hcv, hnx, bind, Res.bind, pure]
    unfold lshift32
    rw [wrap32_id hI1, wrap32_id hI2, pow2_8]
  · intro v hv
    simp only [cosLsfTrace, List.mem_cons, List.not_mem_nil, or_false] at hv
    rw [rshiftRound4] at hv
    generalize cv * 256 + (nx - cv) * (x - x / 256 * 256) = s at hv hb
    generalize (nx - cv) * (x - x / 256 * 256) = p at hv hb
    unfold I32
    rcases hv with h | h | h | h | h | h | h | h | h <;> subst h <;> omega
  · rw [rshiftRound4]
    generalize cv * 256 + (nx - cv) * (x - x / 256 * 256) = s at hb
    omega

theorem cosLsfAll_range : ∀ (l : List Int), (∀ e ∈ l, 0 ≤ e ∧ e ≤ 32767) →
    ∃ cs, cosLsfAll l = .ok cs ∧ cs.length = l.length ∧ ∀ c ∈ cs, -131072 ≤ c ∧ c ≤ 131072 := by
  intro l
  induction l with
  | nil => intro _; exact ⟨[], rfl, rfl, by simp⟩
  | cons x xs ih =>
    intro h
    obtain ⟨c, _, _, hc, _, _, _, hcr⟩ := cosLsf_range x (h x (by simp)).1 (h x (by simp)).2
    obtain ⟨cs, hcs, hl, hr⟩ := ih (fun e he => h e (by simp [he]))
    refine ⟨c :: cs, ?_, by simp [hl], ?_⟩
    · unfold cosLsfAll
      simp only [hc, hcs, bind, Res.bind, pure]
    · intro e he
      rcases List.mem_cons.mp he with rfl | h'
      · exact hcr
      · exact hr e h'

/-! ### silk_NLSF2A_find_poly -/

/-- `|x| ≤ b` for every entry, entries beyond the bound list count as 0. -/
def BoundedBy (o b : List Int) : Prop := ∀ n : Nat, -(b.getD n 0) ≤ o.getD n 0 ∧ o.getD n 0 ≤ b.getD n 0

/-- The majorant recursion: one outer iteration of find_poly with `|f| ≤ 2` (Q16: 131072)
    multiplies the majorant polynomial by `(1 + x)^2`. -/
def polyBound (b : List Int) : List Int :=
  let k := b.length - 1
  (List.range (k + 2)).map fun n =>
    if n = 0 then b.getD 0 0
    else if n = 1 then b.getD 1 0 + 131072
    else if n = k + 1 then 2 * b.getD (k - 1) 0 + 2 * b.getD k 0
    else b.getD n 0 + (b.getD (n - 2) 0 + 2 * b.getD (n - 1) 0)

theorem getD_map_range (g : Nat → Int) (m n : Nat) :
    ((List.range m).map g).getD n 0 = if n < m then g n else 0 := by
  rw [List.getD_eq_getElem?_getD, List.getElem?_map]
  by_cases h : n < m
  · rw [List.getElem?_range h, if_pos h]; rfl
  · rw [if_neg h, List.getElem?_eq_none (by simp; omega)]; rfl

/-- `|f| ≤ 2^17`, `|x| ≤ b` ⟹ the 64-bit product, and its rounded shift by 16, are bounded. -/
theorem round_mul_bound (f x b : Int) (hf : -131072 ≤ f ∧ f ≤ 131072) (hx : -b ≤ x ∧ x ≤ b) :
    -(2 * b) ≤ rshiftRound (f * x) 16 ∧ rshiftRound (f * x) 16 ≤ 2 * b ∧
    -(131072 * b) ≤ f * x ∧ f * x ≤ 131072 * b := by
  have h1 : f * x ≤ 131072 * b := by nlinarith [hf.1, hf.2, hx.1, hx.2]
  have h2 : -(131072 * b) ≤ f * x := by nlinarith [hf.1, hf.2, hx.1, hx.2]
  rw [rshiftRound16]
  generalize f * x = y at h1 h2
  omega

/-- Every `opus_int32` value computed by one outer iteration `k` of `silk_NLSF2A_find_poly`
    (NLSF2A.c:57-64) from `out[0..k]`: the new entries `out[0..k+1]` themselves,
    `silk_LSHIFT( out[k-1], 1 )`, the operand of every `(opus_int32)silk_RSHIFT_ROUND64( … )` cast
    (n = 1..k), and the inner differences `out[n-2] - (…)` (n = 2..k). -/
def polyStepTrace (f : Int) (o : List Int) : List Int :=
  let k := o.length - 1
  polyStep f o ++ [2 * o.getD (k - 1) 0] ++
    (List.range' 1 k).map (fun n => rshiftRound (f * o.getD n 0) 16) ++
    (List.range' 2 (k - 1)).map (fun n => o.getD (n - 2) 0 - rshiftRound (f * o.getD (n - 1) 0) 16)

/-- The 64-bit products `silk_SMULL( ftmp, out[n] )` of the same iteration. -/
def polyStepTrace64 (f : Int) (o : List Int) : List Int :=
  (List.range' 1 (o.length - 1)).map (fun n => f * o.getD n 0)

theorem polyStep_length (f : Int) (o : List Int) : (polyStep f o).length = o.length - 1 + 2 := by
  unfold polyStep; simp

theorem polyBound_length (b : List Int) : (polyBound b).length = b.length - 1 + 2 := by
  unfold polyBound; simp

theorem BoundedBy_nonneg {o b : List Int} (h : BoundedBy o b) (n : Nat) : 0 ≤ b.getD n 0 := by
  have := h n; omega

/-- One outer iteration of find_poly under a majorant list all of whose successor entries are
    at most `M ≤ 2^31 - 1`. -/
theorem polyStep_range (f : Int) (o b : List Int) (M : Int) (hf : -131072 ≤ f ∧ f ≤ 131072)
    (hl : b.length = o.length) (h2 : 2 ≤ o.length) (hb : BoundedBy o b)
    (hM : ∀ e ∈ polyBound b, e ≤ M) (hM1 : M ≤ 2147483647) :
    BoundedBy (polyStep f o) (polyBound b) ∧ (∀ v ∈ polyStepTrace f o, I32 v) ∧
    (∀ v ∈ polyStepTrace64 f o, I64 v) := by
  have hnn := BoundedBy_nonneg hb
  -- majorant entries, by index
  have hMn : ∀ n, n < b.length - 1 + 2 → (polyBound b).getD n 0 ≤ M := by
    intro n hn
    apply hM
    rw [List.getD_eq_getElem?_getD, List.getElem?_eq_getElem (by rw [polyBound_length]; exact hn)]
    simp
  have hpb : ∀ n, (polyBound b).getD n 0 =
      if n < b.length - 1 + 2 then
        (if n = 0 then b.getD 0 0 else if n = 1 then b.getD 1 0 + 131072
         else if n = b.length - 1 + 1 then 2 * b.getD (b.length - 1 - 1) 0 + 2 * b.getD (b.length - 1) 0
         else b.getD n 0 + (b.getD (n - 2) 0 + 2 * b.getD (n - 1) 0)) else 0 := by
    intro n; unfold polyBound; exact getD_map_range _ _ _
  have hps : ∀ n, (polyStep f o).getD n 0 =
      if n < o.length - 1 + 2 then
        (if n = 0 then o.getD 0 0 else if n = 1 then o.getD 1 0 - f
         else if n = o.length - 1 + 1 then
           lshift32 (o.getD (o.length - 1 - 1) 0) 1 - wrap32 (rshiftRound (f * o.getD (o.length - 1) 0) 16)
         else o.getD n 0 + (o.getD (n - 2) 0 - wrap32 (rshiftRound (f * o.getD (n - 1) 0) 16))) else 0 := by
    intro n; unfold polyStep; exact getD_map_range _ _ _
  -- the rounded products are bounded, so the casts are the identity
  have hX : ∀ n, -(2 * b.getD n 0) ≤ rshiftRound (f * o.getD n 0) 16 ∧
      rshiftRound (f * o.getD n 0) 16 ≤ 2 * b.getD n 0 := fun n =>
    ⟨(round_mul_bound f _ _ hf (hb n)).1, (round_mul_bound f _ _ hf (hb n)).2.1⟩
  -- bound of X_n by M: 2 b[n] ≤ majorant entry n+1 (for 1 ≤ n ≤ k)
  have h2b : ∀ n, 1 ≤ n → n ≤ b.length - 1 → 2 * b.getD n 0 ≤ M := by
    intro n hn1 hnk
    have := hMn (n + 1) (by omega)
    rw [hpb (n + 1), if_pos (by omega), if_neg (by omega), if_neg (by omega)] at this
    have a1 := hnn (n - 1); have a2 := hnn (n + 1); have a3 := hnn (b.length - 1 - 1)
    split at this
    · rename_i heq
      have : n = b.length - 1 := by omega
      subst this; omega
    · have e1 : n + 1 - 2 = n - 1 := by omega
      have e2 : n + 1 - 1 = n := by omega
      rw [e1, e2] at this; omega
  have hXI : ∀ n, 1 ≤ n → n ≤ o.length - 1 → I32 (rshiftRound (f * o.getD n 0) 16) := by
    intro n hn1 hnk
    have := hX n; have := h2b n hn1 (by omega); unfold I32; omega
  refine ⟨?_, ?_, ?_⟩
  · -- new entries below the majorant
    intro n
    rw [hps n, hpb n, hl]
    split
    · rename_i hn
      split
      · exact hb 0
      · split
        · have := hb 1; omega
        · split
          · rename_i _ _ heq
            have hI : I32 (o.getD (o.length - 1 - 1) 0 * 2 ^ 1) := by
              have := hb (o.length - 1 - 1)
              have := h2b (o.length - 1) (by omega) (by omega)
              have := hMn (o.length - 1 + 1) (by omega)
              rw [hpb, if_pos (by omega), if_neg (by omega), if_neg (by omega), if_pos (by omega), hl] at this
              have := hnn (o.length - 1)
              unfold I32; omega
            unfold lshift32
            rw [wrap32_id hI, wrap32_id (hXI (o.length - 1) (by omega) (by omega))]
            have := hb (o.length - 1 - 1); have := hX (o.length - 1)
            omega
          · rename_i hn0 hn1 hnk
            rw [wrap32_id (hXI (n - 1) (by omega) (by omega))]
            have := hb n; have := hb (n - 2); have := hX (n - 1)
            omega
    · omega
  · -- trace values
    intro v hv
    unfold polyStepTrace at hv
    simp only [List.mem_append, List.mem_cons, List.not_mem_nil, or_false, List.mem_map, List.mem_range'_1] at hv
    rcases hv with ((hv | hv) | ⟨n, hn, rfl⟩) | ⟨n, hn, rfl⟩
    · -- a new entry
      obtain ⟨i, hi, rfl⟩ := List.getElem_of_mem hv
      rw [polyStep_length] at hi
      have hnew : (polyStep f o)[i]'(by rw [polyStep_length]; exact hi) = (polyStep f o).getD i 0 := by
        rw [List.getD_eq_getElem?_getD, List.getElem?_eq_getElem (by rw [polyStep_length]; exact hi)]; simp
      rw [hnew]
      -- reuse the first part through the majorant
      have hbnd : -(polyBound b).getD i 0 ≤ (polyStep f o).getD i 0 ∧
          (polyStep f o).getD i 0 ≤ (polyBound b).getD i 0 := by
        rw [hps i, hpb i, hl]
        rw [if_pos hi, if_pos hi]
        split
        · exact hb 0
        · split
          · have := hb 1; omega
          · split
            · have hI : I32 (o.getD (o.length - 1 - 1) 0 * 2 ^ 1) := by
                have := hb (o.length - 1 - 1)
                have := hMn (o.length - 1 + 1) (by omega)
                rw [hpb, if_pos (by omega), if_neg (by omega), if_neg (by omega), if_pos (by omega), hl] at this
                have := hnn (o.length - 1)
                unfold I32; omega
              unfold lshift32
              rw [wrap32_id hI, wrap32_id (hXI (o.length - 1) (by omega) (by omega))]
              have := hb (o.length - 1 - 1); have := hX (o.length - 1)
              omega
            · rw [wrap32_id (hXI (i - 1) (by omega) (by omega))]
              have := hb i; have := hb (i - 2); have := hX (i - 1)
              omega
      have := hMn i (by omega)
      unfold I32; omega
    · subst hv
      have := hb (o.length - 1 - 1)
      have := hMn (o.length - 1 + 1) (by omega)
      rw [hpb, if_pos (by omega), if_neg (by omega), if_neg (by omega), if_pos (by omega), hl] at this
      have := hnn (o.length - 1)
      unfold I32; omega
    · exact hXI n (by omega) (by omega)
    · have := hb (n - 2); have := hX (n - 1)
      have := hMn n (by omega)
      rw [hpb, if_pos (by omega), if_neg (by omega), if_neg (by omega), if_neg (by omega)] at this
      have := hnn n
      unfold I32; omega
  · intro v hv
    unfold polyStepTrace64 at hv
    simp only [List.mem_map, List.mem_range'_1] at hv
    obtain ⟨n, hn, rfl⟩ := hv
    have := (round_mul_bound f _ _ hf (hb n)).2.2
    have := (round_mul_bound f _ _ hf (hb n)).2.1
    have := h2b n (by omega) (by omega)
    unfold I64; omega

/-- Trace of all outer iterations of find_poly after the initialisation. -/
def polyFoldTrace : List Int → List Int → List Int
  | [], _ => []
  | f :: fs, o => polyStepTrace f o ++ polyFoldTrace fs (polyStep f o)

def polyFoldTrace64 : List Int → List Int → List Int
  | [], _ => []
  | f :: fs, o => polyStepTrace64 f o ++ polyFoldTrace64 fs (polyStep f o)

/-- Iterated majorant and the check that every majorant entry met on the way fits 32 bits. -/
def polyBoundIter : Nat → List Int → List Int
  | 0, b => b
  | n + 1, b => polyBoundIter n (polyBound b)

def polyBoundsOk : Nat → List Int → Bool
  | 0, _ => true
  | n + 1, b => (polyBound b).all (fun e => decide (e ≤ 2147483647)) && polyBoundsOk n (polyBound b)

theorem polyFold_range : ∀ (fs : List Int) (o b : List Int), (∀ f ∈ fs, -131072 ≤ f ∧ f ≤ 131072) →
    b.length = o.length → 2 ≤ o.length → BoundedBy o b → polyBoundsOk fs.length b = true →
    BoundedBy (fs.foldl (fun o f => polyStep f o) o) (polyBoundIter fs.length b) ∧
    (∀ v ∈ polyFoldTrace fs o, I32 v) ∧ (∀ v ∈ polyFoldTrace64 fs o, I64 v) ∧
    (fs.foldl (fun o f => polyStep f o) o).length = o.length + fs.length := by
  intro fs
  induction fs with
  | nil => intro o b _ _ _ hb _; exact ⟨hb, by simp [polyFoldTrace], by simp [polyFoldTrace64], by simp⟩
  | cons f fs ih =>
    intro o b hf hl h2 hb hok
    simp only [List.length_cons, polyBoundsOk, Bool.and_eq_true, List.all_eq_true, decide_eq_true_eq] at hok
    have hs := polyStep_range f o b 2147483647 (hf f (by simp)) hl h2 hb hok.1 (by omega)
    have hr := ih (polyStep f o) (polyBound b) (fun g hg => hf g (by simp [hg]))
      (by rw [polyBound_length, polyStep_length, hl]) (by rw [polyStep_length]; omega) hs.1 hok.2
    simp only [List.foldl_cons, List.length_cons, polyBoundIter, polyFoldTrace, polyFoldTrace64,
      List.mem_append]
    refine ⟨hr.1, ?_, ?_, ?_⟩
    · intro v hv; rcases hv with h | h
      · exact hs.2.1 v h
      · exact hr.2.1 v h
    · intro v hv; rcases hv with h | h
      · exact hs.2.2 v h
      · exact hr.2.2.1 v h
    · rw [hr.2.2.2, polyStep_length]; omega

/-- Trace of `silk_NLSF2A_find_poly( out, cLSF, dd )` on the strided inputs `cs = cLSF[0], cLSF[2], …`:
    `out[1] = -cLSF[0]` and the outer iterations. -/
def findPolyTrace : List Int → List Int
  | [] => []
  | f0 :: rest => -f0 :: polyFoldTrace rest [65536, -f0]

def findPolyTrace64 : List Int → List Int
  | [] => []
  | f0 :: rest => polyFoldTrace64 rest [65536, -f0]

/-- The binomial majorants `C(2k, n) · 2^16` reached by find_poly for `dd = 5` and `dd = 8`. -/
theorem polyBound_dd5 : polyBoundsOk 4 [65536, 131072] = true ∧
    polyBoundIter 4 [65536, 131072] = [65536, 655360, 2949120, 7864320, 13762560, 16515072] := by
  decide +kernel

theorem polyBound_dd8 : polyBoundsOk 7 [65536, 131072] = true ∧
    polyBoundIter 7 [65536, 131072] =
      [65536, 1048576, 7864320, 36700160, 119275520, 286261248, 524812288, 749731840, 843448320] := by
  decide +kernel

theorem init_bounded (f0 : Int) (h : -131072 ≤ f0 ∧ f0 ≤ 131072) : BoundedBy [65536, -f0] [65536, 131072] := by
  intro n
  match n with
  | 0 => simp
  | 1 => simp; omega
  | n + 2 => simp

/-- `silk_NLSF2A_find_poly` with `dd = cs.length ∈ {5, 8}` and every `|cLSF| ≤ 2` (Q16): nothing
    wraps and the result is below the binomial majorant. -/
theorem findPoly_range (cs : List Int) (bnd : List Int) (hcs : ∀ f ∈ cs, -131072 ≤ f ∧ f ≤ 131072)
    (hd : (cs.length = 5 ∧ bnd = [65536, 655360, 2949120, 7864320, 13762560, 16515072]) ∨
          (cs.length = 8 ∧ bnd = [65536, 1048576, 7864320, 36700160, 119275520, 286261248, 524812288,
             749731840, 843448320])) :
    BoundedBy (findPoly cs) bnd ∧ (∀ v ∈ findPolyTrace cs, I32 v) ∧ (findPoly cs).length = cs.length + 1 := by
  cases cs with
  | nil => simp at hd
  | cons f0 rest =>
    have hf0 := hcs f0 (by simp)
    have hrest : ∀ f ∈ rest, -131072 ≤ f ∧ f ≤ 131072 := fun f hf => hcs f (by simp [hf])
    simp only [List.length_cons] at hd
    unfold findPoly findPolyTrace
    rcases hd with ⟨hl, rfl⟩ | ⟨hl, rfl⟩
    · have hl' : rest.length = 4 := by omega
      have := polyFold_range rest [65536, -f0] [65536, 131072] hrest rfl (by simp) (init_bounded f0 hf0)
        (by rw [hl']; exact polyBound_dd5.1)
      rw [hl', polyBound_dd5.2] at this
      refine ⟨this.1, ?_, by rw [this.2.2.2]; simp [hl']⟩
      intro v hv
      rcases List.mem_cons.mp hv with rfl | h'
      · unfold I32; omega
      · exact this.2.1 v h'
    · have hl' : rest.length = 7 := by omega
      have := polyFold_range rest [65536, -f0] [65536, 131072] hrest rfl (by simp) (init_bounded f0 hf0)
        (by rw [hl']; exact polyBound_dd8.1)
      rw [hl', polyBound_dd8.2] at this
      refine ⟨this.1, ?_, by rw [this.2.2.2]; simp [hl']⟩
      intro v hv
      rcases List.mem_cons.mp hv with rfl | h'
      · unfold I32; omega
      · exact this.2.1 v h'

end Opus.SilkParams
