import OpusProofs.SilkCoreHist
/-
  OpusProofs.SilkCoreIndep — the frame is a function of (indices, pulses, the state members it reads): the stale content of
  `exc_Q14` has no influence (property C03, slice SilkCore).
-/
namespace Opus.SilkCoreProofs
open Opus Opus.SilkParams Opus.SilkCore Opus.Gen Opus.Frozen

theorem decodeParameters_exc (s : DecState) (f : FrameIn) (e : List Int) :
    decodeParameters { s with excQ14 := e } f = decodeParameters s f := rfl

theorem subframes_exc (s : DecState) (f : FrameIn) (ctrl : Ctrl) (ifl : Bool) (exc e : List Int) (n k : Nat) (c : CoreSt) :
    subframes { s with excQ14 := e } f ctrl ifl exc n k c = subframes s f ctrl ifl exc n k c := by
  induction n generalizing k c with
  | zero => rfl
  | succ n ih =>
    simp only [subframes]
    have : subframe { s with excQ14 := e } f ctrl ifl exc k c = subframe s f ctrl ifl exc k c := rfl
    rw [this]
    cases subframe s f ctrl ifl exc k c with
    | ok c1 => simp only [Res.bind_ok]; exact ih _ _
    | err _ => rfl
    | oob => rfl
    | abort => rfl

theorem decodeCore_exc (s : DecState) (f : FrameIn) (ctrl : Ctrl) (interp : Int) (e : List Int) (o : CoreOut)
    (h : decodeCore s f ctrl interp = .ok o) :
    ∃ x, decodeCore { s with excQ14 := e } f ctrl interp = .ok { o with excQ14 := x } := by
  obtain ⟨off, c, hoff, hlen, hc, ho⟩ := decodeCore_ok s f ctrl interp o h
  unfold decodeCore
  simp only [hoff, Res.bind_ok]
  rw [if_neg (by
    show ¬ (f.pulses.take (frameLen s.fsKHz s.nbSubfr)).length < frameLen s.fsKHz s.nbSubfr
    rw [hlen]; exact Nat.lt_irrefl _)]
  have := subframes_exc s f ctrl (decide (interp < 4)) (excLoop off f.seed (f.pulses.take (frameLen s.fsKHz s.nbSubfr))) e
    s.nbSubfr 0 { hist := s.sLPC.reverse, ltpH := [], outBuf := s.outBuf, xq := [], prevGainQ16 := s.prevGainQ16,
                  ltpCoef := ctrl.ltpCoef, pitchL := ctrl.pitchL, ub := 0 }
  rw [hc] at this
  simp only [this, Res.bind_ok, Res.pure_eq]
  subst ho
  exact ⟨_, rfl⟩

/-- The frame is a function of (indices, pulses, the state members the frame reads): replacing the stale excitation buffer
    changes nothing but the part of `exc_Q14` beyond `frame_length`. -/
theorem frameGood_exc (s : DecState) (f : FrameIn) (e : List Int) (o : FrameOut) (h : frameGood s f = .ok o) :
    ∃ x, frameGood { s with excQ14 := e } f =
      .ok { o with core := { o.core with excQ14 := x }, st := { o.st with excQ14 := x } } := by
  unfold frameGood at h ⊢
  rw [decodeParameters_exc]
  obtain ⟨p, hp, h⟩ := bind_eq_ok h
  obtain ⟨c, hc, h⟩ := bind_eq_ok h
  simp only [hp, Res.bind_ok]
  obtain ⟨x, hx⟩ := decodeCore_exc _ f p.ctrl p.interp e c hc
  have hx' := hx
  simp only [hx', Res.bind_ok]
  split at h
  · cases h
  · rename_i hm
    rw [if_neg hm]
    obtain ⟨lp, hlp, h⟩ := bind_eq_ok h
    simp only [Res.pure_eq, Res.ok.injEq] at h
    have hlp' : getI ({ c with excQ14 := x } : CoreOut).pitchL ((s.nbSubfr : Int) - 1) = .ok lp := hlp
    simp only [hlp', Res.bind_ok, Res.pure_eq]
    subst h
    exact ⟨x, rfl⟩

end Opus.SilkCoreProofs
