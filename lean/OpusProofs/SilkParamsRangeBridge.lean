import OpusProofs.SilkSymsIndices
import OpusProofs.SilkParamsRangeNlsfDec
/-
  OpusProofs.SilkParamsRangeBridge — the input domain of the C18 range lemmas is what the SILK
  symbol decoder guarantees: from C03's `IndicesOk` (the conclusion of
  `OpusProps.C03.silkSyms_decode_indices_in_range`, imported read-only) to the hypotheses of
  `nlsfDecode_range`, `gainOfIndex_nowrap`/`gainDequantPrevTrace_range` and `decodePitch_range`.
-/
namespace Opus.SilkParams
open Opus Opus.Gen

/-- The C18 codebook record for a C03 `Rate` (`psDec->psNLSF_CB`, decoder_set_fs.c). -/
def cbOfRate : Opus.SilkSyms.Rate → NlsfCB
  | .wb => cbWb
  | _ => cbNbMb

theorem cbOfRate_cases (r : Opus.SilkSyms.Rate) : cbOfRate r = cbNbMb ∨ cbOfRate r = cbWb := by
  cases r <;> simp [cbOfRate]

theorem cbOfRate_dims (r : Opus.SilkSyms.Rate) :
    (Opus.SilkSyms.nlsfCB r).nVectors = (cbOfRate r).nVectors ∧
    (Opus.SilkSyms.nlsfCB r).order = (cbOfRate r).order := by
  cases r <;> decide

/-- Whatever `silk_decode_indices` returns lies in the domain on which the dequantiser range
    lemmas are proved. -/
theorem indicesOk_domain {rate : Opus.SilkSyms.Rate} {nb cc ps : Nat} {pl : Int} {ix : Opus.SilkSyms.Indices}
    (h : Opus.SilkSymsProofs.IndicesOk rate nb cc ps pl ix) :
    ix.nlsf0 < (cbOfRate rate).nVectors ∧ ix.nlsfRes.length = (cbOfRate rate).order ∧
    (∀ r ∈ ix.nlsfRes, -10 ≤ r ∧ r ≤ 10) ∧ (∀ g ∈ ix.gains, g < 64) ∧ ix.interp ≤ 4 := by
  have hd := cbOfRate_dims rate
  refine ⟨by rw [← hd.1]; exact h.nlsf0, by rw [← hd.2]; exact h.nlsfLen, h.nlsfRes, ?_, h.interp⟩
  intro g hg
  cases hgs : ix.gains with
  | nil => rw [hgs] at hg; cases hg
  | cons g0 gt =>
    rw [hgs] at hg
    rcases List.mem_cons.mp hg with rfl | h'
    · exact (h.gainsHead g (by rw [hgs]; rfl)).1
    · have := h.gainsTail g (by rw [hgs]; exact h'); omega

/-- The contour symbol alphabet of C03 (`psDec->pitch_contour_iCDF`) has exactly as many symbols as the
    contour codebook `silk_decode_pitch` selects for the same rate and sub-frame count, so a decoded
    contour index satisfies the hypothesis of `decodePitch_range`. -/
def contourOk (rate : Opus.SilkSyms.Rate) (nb : Nat) : Bool :=
  match pitchCodebook (rate.kHz : Int) nb with
  | .ok (_, cbk) => (Opus.SilkSyms.pitchContour rate nb).length == cbk
  | _ => false

theorem contour_domain (rate : Opus.SilkSyms.Rate) (nb : Nat) (hnb : nb = 2 ∨ nb = 4) :
    contourOk rate nb = true := by
  rcases hnb with rfl | rfl <;> cases rate <;> decide +kernel

end Opus.SilkParams
