import OpusProofs.RepackExt
/-
  C07 helper lemmas, part 6: `cat`, the repacketizer invariant, and `out_range_impl` composed.
-/
namespace Opus.RepackProofs
open Opus Opus.Framing Opus.FramingSpec Opus.FramingProofs Opus.Repack Opus.Ext

/-- The invariant of `OpusRepacketizer` (DESIGN §7.C07 `RepackInv`). -/
structure Inv (rp : Rp) : Prop where
  toc_lt : rp.frames ≠ [] → rp.toc < 256
  fs : rp.frames ≠ [] → rp.framesize = samplesPerFrame rp.toc 8000
  dur : rp.frames.length * rp.framesize ≤ 960
  le : ∀ f ∈ rp.frames, f.length ≤ 1275
  pads_len : rp.pads.length = rp.frames.length

theorem Inv.nb_le {rp : Rp} (h : Inv rp) : rp.nbFrames ≤ 48 := by
  unfold Rp.nbFrames
  by_cases hne : rp.frames = []
  · simp [hne]
  · have h1 := h.dur
    rw [h.fs hne] at h1
    have := (frameDur48_cfg rp.toc (List.mem_range.mpr (h.toc_lt hne)) 0 (by decide)).2.1
    apply Decidable.byContradiction; intro hc
    have : 49 * 20 ≤ rp.frames.length * samplesPerFrame rp.toc 8000 := Nat.mul_le_mul (by omega) this
    omega

theorem inv_empty : Inv Rp.empty := ⟨by simp [Rp.empty], by simp [Rp.empty], by simp [Rp.empty], by simp [Rp.empty], rfl⟩

theorem inv_init (rp : Rp) : Inv (init rp) := ⟨by simp [init], by simp [init], by simp [init], by simp [init], rfl⟩

/-- The frame-count helper on a serialised valid packet. -/
theorem getNbFrames_serialize (sd : Bool) (p : Packet) (hv : Valid p) (rest : Bytes) :
    Framing.getNbFrames (serialize sd p ++ rest) = .ok p.frames.length := by
  have h4 : p.toc % 4 < 4 := Nat.mod_lt _ (by decide)
  have hcases : p.code = 0 ∨ p.code = 1 ∨ p.code = 2 ∨ p.code = 3 := by unfold Packet.code; omega
  have hser : serialize sd p ++ rest = p.toc :: ((if p.code = 3 then [countByte p] ++ padHdrOf p else []) ++
      (lenFields sd p).flatMap encLen ++ p.frames.flatten ++ padBytes p ++ rest) := by
    simp [serialize, header, padHdrOf]
    by_cases hc3 : p.code = 3
    · simp [hc3]; cases p.pad <;> rfl
    · simp [hc3]
  rw [hser]
  unfold Framing.getNbFrames
  rcases hcases with hc | hc | hc | hc
  · have : p.toc % 4 = 0 := hc
    simp [this, (hv.code0 hc).1]
  · have : p.toc % 4 = 1 := hc
    simp [this, (hv.code1 hc).1]
  · have : p.toc % 4 = 2 := hc
    simp [this, (hv.code2 hc).1]
  · have h3 : p.toc % 4 = 3 := hc
    obtain ⟨h1, h2, _⟩ := hv.code3 hc
    have hge := frameDur48_ge p.toc (List.mem_range.mpr hv.toc_byte)
    have hn : p.frames.length < 64 := by
      apply Decidable.byContradiction; intro hgt
      have : 120 * 64 ≤ frameDur48 p.toc * p.frames.length := Nat.mul_le_mul hge (by omega)
      omega
    simp [h3, hc, countByte_mod p hn]

/-- The frame-count helper agrees with the parser in both framings. -/
theorem getNbFrames_agrees_sd (sd : Bool) (bs : Bytes) (hb : BytesOk bs) (r : Parsed) (h : parseImpl sd bs = .ok r) :
    Framing.getNbFrames bs = .ok r.count := by
  obtain ⟨p, rest, hv, hbs, hr, hview⟩ := parse_sound sd bs hb r h
  subst hview
  rw [hbs]; exact getNbFrames_serialize sd p hv rest

theorem OpusProps_parse_in_bounds (sd : Bool) (bs : Bytes) (hb : BytesOk bs) (r : Parsed)
    (h : parseImpl sd bs = .ok r) : 1 ≤ r.count ∧ r.count ≤ 48 := by
  obtain ⟨p, rest, hv, hbs, hr, hview⟩ := parse_sound sd bs hb r h
  subst hview
  have h4 : p.toc % 4 < 4 := Nat.mod_lt _ (by decide)
  have hcases : p.code = 0 ∨ p.code = 1 ∨ p.code = 2 ∨ p.code = 3 := by unfold Packet.code; omega
  simp only [view]
  rcases hcases with hc | hc | hc | hc
  · have := (hv.code0 hc).1; omega
  · have := (hv.code1 hc).1; omega
  · have := (hv.code2 hc).1; omega
  · obtain ⟨h1, h2, _⟩ := hv.code3 hc
    have hge := frameDur48_ge p.toc (List.mem_range.mpr hv.toc_byte)
    refine ⟨h1, ?_⟩
    apply Decidable.byContradiction; intro hgt
    have : 120 * 49 ≤ frameDur48 p.toc * p.frames.length := Nat.mul_le_mul hge (by omega)
    omega

/-- When `cat` accepts: configuration-compatible, parses, and stays within 120 ms. -/
def CatOk (rp : Rp) (bs : Bytes) (sd : Bool) : Prop :=
  ∃ r, parseImpl sd bs = .ok r ∧ (rp.nbFrames = 0 ∨ rp.toc / 4 = bs.headD 0 / 4) ∧
    (rp.nbFrames + r.count) * samplesPerFrame (if rp.nbFrames = 0 then bs.headD 0 else rp.toc) 8000 ≤ 960

/-- The state after an accepted `cat` (`rp1` = state after the TOC was stored). -/
def catNew (rp1 : Rp) (bs : Bytes) (r : Parsed) : Rp :=
  { rp1 with
    frames := rp1.frames ++ slices bs r.payloadOffset r.sizes
    pads := rp1.pads ++ ((bs.drop r.padOffset).take r.padLen, r.count) :: List.replicate (r.count - 1) ([], 0) }

/-- `rp1` of `opus_repacketizer_cat_impl`: a first `cat` stores the TOC and the frame size. -/
def withToc (rp : Rp) (b0 : Nat) : Rp :=
  if rp.nbFrames = 0 then { rp with toc := b0, framesize := samplesPerFrame b0 8000 } else rp

theorem catBody_reject (rp1 : Rp) (bs : Bytes) (sd : Bool) (h : (catBody rp1 bs sd).2 ≠ .ok ()) :
    (catBody rp1 bs sd).1 = rp1 := by
  unfold catBody at h ⊢
  repeat' split
  all_goals first
    | rfl
    | (exfalso; apply h; simp_all)

/-- An accepted `cat`: what was checked and the new state. -/
theorem catBody_ok (rp1 : Rp) (bs : Bytes) (sd : Bool) (h : (catBody rp1 bs sd).2 = .ok ()) :
    ∃ r, parseImpl sd bs = .ok r ∧ (r.count + rp1.nbFrames) * rp1.framesize ≤ 960 ∧
      catBody rp1 bs sd = (catNew rp1 bs r, .ok ()) := by
  unfold catBody at h ⊢
  split at h
  · rename_i curr hc
    split at h
    · simp at h
    · split at h
      · simp at h
      · split at h
        · rename_i r hr
          split at h
          · simp at h
          · split at h
            · simp at h
            · split at h
              · simp at h
              · rename_i h1 h2 h3 h4 h5
                have : curr = r.count := by simpa using h5
                subst this
                refine ⟨r, hr, by omega, ?_⟩
                simp [h1, h3, catNew]; omega
        all_goals simp at h
  all_goals simp at h

theorem catBody_accept' (rp1 : Rp) (bs : Bytes) (sd : Bool) (r : Parsed)
    (hp : parseImpl sd bs = .ok r) (hn : Framing.getNbFrames bs = .ok r.count) (hib : 1 ≤ r.count)
    (hd : (r.count + rp1.nbFrames) * rp1.framesize ≤ 960) (hfs : 20 ≤ rp1.framesize) :
    (catBody rp1 bs sd).2 = .ok () := by
  have h48 : r.count + rp1.nbFrames ≤ 48 := by
    apply Decidable.byContradiction; intro hc
    have : 49 * 20 ≤ (r.count + rp1.nbFrames) * rp1.framesize := Nat.mul_le_mul (by omega) hfs
    omega
  unfold catBody
  rw [hn]
  simp only [hp]
  rw [if_neg (by omega), if_neg (by omega), if_neg (by omega), if_neg (by omega), if_neg (by simp)]

theorem catBody_accept (rp1 : Rp) (bs : Bytes) (sd : Bool) (hb : BytesOk bs) (r : Parsed)
    (hp : parseImpl sd bs = .ok r) (hd : (r.count + rp1.nbFrames) * rp1.framesize ≤ 960) (hfs : 20 ≤ rp1.framesize) :
    (catBody rp1 bs sd).2 = .ok () :=
  catBody_accept' rp1 bs sd r hp (getNbFrames_agrees_sd sd bs hb r hp) (OpusProps_parse_in_bounds sd bs hb r hp).1 hd hfs

/-- A rejected `cat` reports `OPUS_INVALID_PACKET`; it never reads outside the packet or aborts. -/
theorem catBody_err (rp1 : Rp) (bs : Bytes) (sd : Bool) (hb : BytesOk bs) (h20 : 20 ≤ rp1.framesize)
    (h : (catBody rp1 bs sd).2 ≠ .ok ()) : (catBody rp1 bs sd).2 = .err .invalidPacket := by
  cases hp : parseImpl sd bs with
  | ok r =>
    have hn := getNbFrames_agrees_sd sd bs hb r hp
    have hib := (OpusProps_parse_in_bounds sd bs hb r hp).1
    unfold catBody at h ⊢
    rw [hn] at h ⊢
    simp only [hp] at h ⊢
    rw [if_neg (by omega)] at h ⊢
    split
    · rfl
    · rename_i hd
      exfalso
      have h48 : r.count + rp1.nbFrames ≤ 48 := by
        apply Decidable.byContradiction; intro hc
        have : 49 * 20 ≤ (r.count + rp1.nbFrames) * rp1.framesize := Nat.mul_le_mul (by omega) h20
        omega
      rw [if_neg hd, if_neg (by omega), if_neg (by omega), if_neg (by simp)] at h
      exact h rfl
  | err e =>
    have := parseImpl_err_invalid sd bs e hp
    subst this
    unfold catBody
    split
    · split
      · rfl
      · split
        · rfl
        · simp [hp]
    all_goals first | rfl | (rename_i hg; cases bs with
      | nil => simp [Framing.getNbFrames] at hg
      | cons b0 t => unfold Framing.getNbFrames at hg; (repeat' split at hg) <;> simp at hg)
  | oob => have := parseImpl_nofault sd bs; rw [hp] at this; simp [fault] at this
  | abort => have := parseImpl_nofault sd bs; rw [hp] at this; simp [fault] at this

/-- The frames `cat` stores are the frames of the RFC packet the bytes serialise. -/
theorem parsed_frames (sd : Bool) (bs : Bytes) (hb : BytesOk bs) (r : Parsed) (h : parseImpl sd bs = .ok r) :
    ∃ p rest, Valid p ∧ bs = serialize sd p ++ rest ∧ (sd = false → rest = []) ∧ r = view sd p ∧
      slices bs r.payloadOffset r.sizes = p.frames := by
  obtain ⟨p, rest, hv, hbs, hr, hview⟩ := parse_sound sd bs hb r h
  refine ⟨p, rest, hv, hbs, hr, hview, ?_⟩
  subst hview
  simp only [view, Packet.lens]
  rw [hbs]
  have : serialize sd p ++ rest = header sd p ++ p.frames.flatten ++ (padBytes p ++ rest) := by
    simp [serialize]
  rw [this]
  exact slices_spec _ _ _

theorem withToc_frames (rp : Rp) (b0 : Nat) : (withToc rp b0).frames = rp.frames ∧ (withToc rp b0).pads = rp.pads ∧
    (rp.nbFrames ≠ 0 → withToc rp b0 = rp) := by
  unfold withToc; split <;> simp_all

theorem withToc_fs (rp : Rp) (hinv : Inv rp) (b0 : Nat) (hb0 : b0 < 256) :
    (withToc rp b0).toc < 256 ∧ (withToc rp b0).framesize = samplesPerFrame (withToc rp b0).toc 8000 ∧
    20 ≤ (withToc rp b0).framesize ∧ (withToc rp b0).toc = (if rp.nbFrames = 0 then b0 else rp.toc) := by
  unfold withToc
  split
  · rename_i h0
    have := (frameDur48_cfg b0 (List.mem_range.mpr hb0) 0 (by decide)).2.1
    simp [h0]; exact ⟨hb0, this⟩
  · rename_i h0
    have hne : rp.frames ≠ [] := by intro h; apply h0; simp [Rp.nbFrames, h]
    have hlt := hinv.toc_lt hne
    have := (frameDur48_cfg rp.toc (List.mem_range.mpr hlt) 0 (by decide)).2.1
    rw [hinv.fs hne]
    simp [h0]; exact ⟨hlt, this⟩

theorem catImpl_eq (rp : Rp) (b0 : Nat) (t : Bytes) (sd : Bool) :
    catImpl rp (b0 :: t) sd =
      if rp.nbFrames ≠ 0 ∧ rp.toc / 4 ≠ b0 / 4 then (rp, .err .invalidPacket)
      else catBody (withToc rp b0) (b0 :: t) sd := rfl

/-- `cat` accepts exactly the packets that parse, are configuration-compatible and keep the total
    duration within 120 ms. -/
theorem catImpl_accepts_iff (rp : Rp) (hinv : Inv rp) (bs : Bytes) (hb : BytesOk bs) (sd : Bool) :
    (catImpl rp bs sd).2 = .ok () ↔ CatOk rp bs sd := by
  cases bs with
  | nil => simp [catImpl, CatOk, parseImpl]
  | cons b0 t =>
    have hb0 : b0 < 256 := hb b0 (by simp)
    obtain ⟨h1, h2, h3, h4⟩ := withToc_fs rp hinv b0 hb0
    have hnb : (withToc rp b0).nbFrames = rp.nbFrames := by simp [Rp.nbFrames, (withToc_frames rp b0).1]
    rw [catImpl_eq]
    constructor
    · intro h
      split at h
      · simp at h
      · rename_i hc
        obtain ⟨r, hr, hd, _⟩ := catBody_ok _ _ _ h
        refine ⟨r, hr, ?_, ?_⟩
        · simp only [List.headD_cons]
          by_cases h0 : rp.nbFrames = 0
          · exact Or.inl h0
          · right; apply Decidable.byContradiction; intro hne; exact hc ⟨h0, hne⟩
        · simp only [List.headD_cons]
          rw [← h4, ← h2, ← hnb, Nat.add_comm]; exact hd
    · rintro ⟨r, hr, hcomp, hd⟩
      simp only [List.headD_cons] at hcomp hd
      rw [if_neg (by
        rintro ⟨a, b⟩
        rcases hcomp with h | h
        · exact a h
        · exact b h)]
      apply catBody_accept _ _ _ hb r hr _ h3
      rw [h2, h4, hnb, Nat.add_comm]; exact hd

/-- The state after an accepted `cat`. -/
theorem catImpl_ok_state (rp : Rp) (bs : Bytes) (sd : Bool) (h : (catImpl rp bs sd).2 = .ok ()) :
    ∃ r, parseImpl sd bs = .ok r ∧ (catImpl rp bs sd).1 = catNew (withToc rp (bs.headD 0)) bs r := by
  cases bs with
  | nil => simp [catImpl] at h
  | cons b0 t =>
    rw [catImpl_eq] at h ⊢
    split at h
    · simp at h
    · rename_i hc
      rw [if_neg hc]
      obtain ⟨r, hr, _, he⟩ := catBody_ok _ _ _ h
      exact ⟨r, hr, by rw [he]; rfl⟩

/-- A rejected `cat` leaves the observable contents untouched (a failed first `cat` may have
    overwritten `toc` / `framesize`, which the next `cat` overwrites again). -/
theorem catImpl_reject (rp : Rp) (bs : Bytes) (sd : Bool) (h : (catImpl rp bs sd).2 ≠ .ok ()) :
    (catImpl rp bs sd).1.frames = rp.frames ∧ (catImpl rp bs sd).1.pads = rp.pads ∧
    (rp.nbFrames ≠ 0 → (catImpl rp bs sd).1 = rp) := by
  cases bs with
  | nil => simp [catImpl]
  | cons b0 t =>
    rw [catImpl_eq] at h ⊢
    split
    · simp
    · rename_i hc
      rw [if_neg hc] at h
      rw [catBody_reject _ _ _ h]
      exact withToc_frames rp b0

theorem slices_length (bs : Bytes) (off : Nat) (ss : List Nat) : (slices bs off ss).length = ss.length := by
  induction ss generalizing off with
  | nil => rfl
  | cons s ss ih => simp [slices, ih]

/-- Every operation preserves the invariant. -/
theorem catImpl_inv (rp : Rp) (hinv : Inv rp) (bs : Bytes) (hb : BytesOk bs) (sd : Bool) :
    Inv (catImpl rp bs sd).1 := by
  by_cases h : (catImpl rp bs sd).2 = .ok ()
  · obtain ⟨r, hr, hst⟩ := catImpl_ok_state rp bs sd h
    obtain ⟨r', hr', _, hd⟩ := (catImpl_accepts_iff rp hinv bs hb sd).mp h
    rw [hr] at hr'; cases hr'
    obtain ⟨p, rest, hv, hbs, _, hview, hfr⟩ := parsed_frames sd bs hb r hr
    have hb0 : bs.headD 0 < 256 := by
      cases bs with
      | nil => simp
      | cons b0 t => exact hb b0 (by simp)
    obtain ⟨h1, h2, h3, h4⟩ := withToc_fs rp hinv (bs.headD 0) hb0
    obtain ⟨w1, w2, _⟩ := withToc_frames rp (bs.headD 0)
    have hcnt : r.count = p.frames.length := by rw [hview]; rfl
    have hc1 := (OpusProps_parse_in_bounds sd bs hb r hr).1
    rw [hst]
    refine ⟨fun _ => h1, fun _ => h2, ?_, ?_, ?_⟩
    · simp only [catNew, List.length_append, hfr, w1]
      rw [h2, h4, ← hcnt]; exact hd
    · simp only [catNew, hfr, w1]
      intro f hf
      rcases List.mem_append.mp hf with hf | hf
      · exact hinv.le f hf
      · exact hv.frame_max f hf
    · simp only [catNew, List.length_append, List.length_cons, List.length_replicate, hfr, w1, w2, hinv.pads_len]
      omega
  · obtain ⟨hf, hp, hs⟩ := catImpl_reject rp bs sd h
    by_cases h0 : rp.nbFrames = 0
    · have hnil : rp.frames = [] := by simpa [Rp.nbFrames] using h0
      refine ⟨by rw [hf, hnil]; simp, by rw [hf, hnil]; simp, by rw [hf, hnil]; simp, by rw [hf]; exact hinv.le, by rw [hf, hp]; exact hinv.pads_len⟩
    · rw [hs h0]; exact hinv

end Opus.RepackProofs
