import OpusModel.SilkPlcConceal
import OpusProofs.SilkPlcGains
/-
  OpusProofs.SilkPlcConceal — the bit-exact value model of silk_PLC (OpusModel.SilkPlcConceal) and the scalar gain
  recursion of C09 (OpusModel.SilkPlcGains, proofs in OpusProofs.SilkPlcGains): the gain members of the PLC state that
  the full model returns ARE the scalar recursion's; hence they shrink over a loss burst.  Output samples are int16.
  Totality (no celt_assert fires) under the decoder-state invariant.
-/
namespace Opus.SilkPlc
open Opus Opus.SilkParams Opus.Gen.PlcConsts Opus.Gen.SilkPlcCngConsts

/-- The tap / random-scale members carried through the sub-frame loop PLC.c:331-363 evolve exactly as the scalar
    recursion `SilkPlcGains.subfrLoop`. -/
theorem ltpLoop_gains (rnd : Array Int) (roff : Int) (sl : Nat) (fs harm rg : Int) : ∀ (k : Nat) (s : LtpLoop),
    ((ltpLoop rnd roff sl fs harm rg k s).B, (ltpLoop rnd roff sl fs harm rg k s).rs) =
      SilkPlcGains.subfrLoop harm rg k (s.B, s.rs)
  | 0, s => by simp [ltpLoop, SilkPlcGains.subfrLoop]
  | k + 1, s => by
    rw [ltpLoop, SilkPlcGains.subfrLoop]
    exact ltpLoop_gains rnd roff sl fs harm rg k _

/-- The rate check of silk_PLC (PLC.c:84-87) touches neither the taps nor the random scale. -/
theorem plcRateCheck_gains (d : Dec) :
    (plcRateCheck d).ltpCoef = d.plc.ltpCoef ∧ (plcRateCheck d).randScale = d.plc.randScale ∧
    (plcRateCheck d).prevLtpScale = d.plc.prevLtpScale := by
  unfold plcRateCheck plcReset
  split <;> simp

/-- Bridge: the taps and random scale stored by the full concealment model are `SilkPlcGains.conceal`. -/
theorem plcConceal_gains (d : Dec) (p0 : Plc) (o : ConcealOut) (h : plcConceal d p0 = .ok o) :
    ∃ ig : Int, (o.dec.plc.ltpCoef, o.dec.plc.randScale) =
      SilkPlcGains.conceal d.lossCnt (decide (d.prevSignalType = TYPE_VOICED)) d.nbSubfr p0.ltpCoef p0.randScale
        p0.prevLtpScale ig ∧ o.dec.lossCnt = d.lossCnt := by
  unfold plcConceal at h
  dsimp only at h
  split at h
  · exact absurd h (by simp)
  · split at h
    · injection h with h
      subst h
      refine ⟨?ig, ?eq, rfl⟩
      case eq =>
        dsimp only
        unfold SilkPlcGains.conceal
        dsimp only
        rw [ltpLoop_gains]
    all_goals exact absurd h (by simp)

/-- silk_PLC( …, lost = 1 ) = rate check, concealment, `lossCnt++`. -/
theorem silkPLC_lost (d : Dec) (c : Ctrl) (o : ConcealOut) (h : silkPLC d c true = .ok o) :
    ∃ o', plcConceal d (plcRateCheck d) = .ok o' ∧ o.frame = o'.frame ∧ o.dec.plc = o'.dec.plc ∧
      o.dec.lossCnt = o'.dec.lossCnt + 1 ∧ o.pitchL = o'.pitchL := by
  unfold silkPLC at h
  simp only [↓reduceIte] at h
  split at h
  · rename_i o1 heq
    injection h with h
    subst h
    exact ⟨o1, heq, rfl, rfl, rfl, rfl⟩
  · rename_i r hr
    rw [h] at hr
    exact absurd rfl (hr o)

/-- Every sample of a concealed frame is an `opus_int16` (PLC.c:397, double silk_SAT16). -/
theorem plcConceal_frame_int16 (d : Dec) (p0 : Plc) (o : ConcealOut) (h : plcConceal d p0 = .ok o) :
    ∀ x ∈ o.frame, -32768 ≤ x ∧ x ≤ 32767 := by
  unfold plcConceal at h
  dsimp only at h
  split at h
  · exact absurd h (by simp)
  · split at h
    · injection h with h
      subst h
      intro x hx
      dsimp only at hx
      obtain ⟨y, _, rfl⟩ := List.mem_map.mp hx
      unfold sat16
      split
      · omega
      · split <;> omega
    all_goals exact absurd h (by simp)

/-- C09 "the concealment excitation gain is non-increasing over consecutive lost frames and strictly decreasing from the
    second lost frame", on the FULL value model of silk_PLC: for a loss in progress (`lossCnt ≥ 1`) the stored
    `randScale_Q14` does not grow, strictly shrinks while positive, stays ≥ 0; every harmonic tap shrinks (weakly) in
    magnitude and every positive tap strictly; `lossCnt` is incremented. -/
theorem silkPLC_gain_decreases (d : Dec) (c : Ctrl) (o : ConcealOut) (h : silkPLC d c true = .ok o)
    (hl : 1 ≤ d.lossCnt) (hn : 0 < d.nbSubfr) (hrs : 0 ≤ d.plc.randScale ∧ d.plc.randScale ≤ 32767) :
    o.dec.lossCnt = d.lossCnt + 1 ∧ 0 ≤ o.dec.plc.randScale ∧ o.dec.plc.randScale ≤ d.plc.randScale ∧
    (0 < d.plc.randScale → o.dec.plc.randScale < d.plc.randScale) ∧
    ∃ f : Int → Int, (∀ b, SilkPlcGains.I16 b → SilkPlcGains.I16 (f b) ∧ SilkPlcGains.mag (f b) ≤ SilkPlcGains.mag b ∧
      (0 < b → f b < b)) ∧ o.dec.plc.ltpCoef = d.plc.ltpCoef.map f := by
  obtain ⟨o', h1, _, hp, hc, _⟩ := silkPLC_lost d c o h
  obtain ⟨ig, hg, hc'⟩ := plcConceal_gains d _ o' h1
  obtain ⟨rl, rr, rp⟩ := plcRateCheck_gains d
  rw [rl, rr, rp] at hg
  obtain ⟨⟨f, hf, hmap⟩, a1, a2, a3⟩ := SilkPlcGains.conceal_shrinks d.lossCnt hl (decide (d.prevSignalType = TYPE_VOICED))
    d.nbSubfr hn d.plc.ltpCoef d.plc.randScale d.plc.prevLtpScale ig hrs
  rw [← hg] at hmap a1 a2 a3
  rw [hp]
  exact ⟨by omega, a1, a2, a3, f, hf, hmap⟩

/-! ### totality -/

theorem bwexpGo_length (cm1 : Int) : ∀ (xs : List Int) (c : Int), (bwexpGo cm1 xs c).length = xs.length
  | [], _ => rfl
  | [_], _ => rfl
  | x :: y :: xs, c => by rw [bwexpGo]; simp [bwexpGo_length cm1 (y :: xs)]

/-- The re-whitening step PLC.c:318-326 fires none of its asserts when the lag leaves room in the LTP memory. -/
theorem rewhiten_isOk (d : Dec) (A : List Int) (lag g : Int) (hA : A.length = d.lpcOrder)
    (ho : 6 ≤ d.lpcOrder ∧ d.lpcOrder % 2 = 0) (hlag : 0 ≤ lag) (hidx : lag + d.lpcOrder + 2 < d.ltpMemLength)
    (r : Res (Array Int)) (hr : rewhiten d A lag g = r) : ∃ b, r = .ok b := by
  subst hr
  have h5 : LTP_ORDER = 5 := rfl
  unfold rewhiten rewhitenIdx
  dsimp only
  rw [h5]
  rw [if_neg (by omega)]
  unfold lpcAnalysisFilter
  dsimp only
  rw [hA, if_neg (by omega)]
  exact ⟨_, rfl⟩

/-- Totality of silk_PLC_conceal: no `celt_assert` fires (`.abort`), no access leaves its array (`.oob`), whenever the
    LPC order is even and in [10, 16], `prevLPC_Q12` has its 16 entries and the (non-negative) pitch lag leaves room in
    the LTP memory: `lag + LPC_order + LTP_ORDER/2 < ltp_mem_length`. -/
theorem plcConceal_total (d : Dec) (p0 : Plc) (ho : 10 ≤ d.lpcOrder ∧ d.lpcOrder ≤ 16 ∧ d.lpcOrder % 2 = 0)
    (hlen : p0.prevLPC.length = 16) (hpq : 0 ≤ lagOf p0.pitchLQ8)
    (hidx : lagOf p0.pitchLQ8 + d.lpcOrder + 2 < d.ltpMemLength) : ∃ o, plcConceal d p0 = .ok o := by
  have h16 : MAX_LPC_ORDER = 16 := rfl
  have hA : ∀ c : Int, (List.take d.lpcOrder (bwexp16 (List.take d.lpcOrder
        (if d.firstFrameAfterReset ≠ 0 then List.replicate MAX_LPC_ORDER 0 else p0.prevLPC)) c ++
      List.drop d.lpcOrder (if d.firstFrameAfterReset ≠ 0 then List.replicate MAX_LPC_ORDER 0 else p0.prevLPC))).length
      = d.lpcOrder := by
    intro c
    have hl : (if d.firstFrameAfterReset ≠ 0 then List.replicate MAX_LPC_ORDER 0 else p0.prevLPC).length = 16 := by
      split
      · simp [h16]
      · exact hlen
    generalize (if d.firstFrameAfterReset ≠ 0 then List.replicate MAX_LPC_ORDER 0 else p0.prevLPC) = l at hl
    simp only [List.length_take, List.length_append, bwexp16, bwexpGo_length, List.length_drop, hl]
    omega
  unfold plcConceal
  dsimp only
  rw [if_neg (by omega)]
  split
  · exact ⟨_, rfl⟩
  all_goals
    rename_i heq
    obtain ⟨b, hb⟩ := rewhiten_isOk d _ _ _ (hA _) ⟨by omega, ho.2.2⟩ hpq hidx _ heq
    exact absurd hb (by simp)

end Opus.SilkPlc
